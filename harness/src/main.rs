//! Correspondence harness: executes an ops file against the real `bitcoin_slices` crate (built from
//! /repo's working tree) and prints one canonical result line per operation — the same lines the Lean
//! driver `bsmodel` prints from the model — followed by ` #` and the verdicts of the model-free direct
//! oracles (evaluated on the implementation only).
#![allow(deprecated)]

mod fmt;
mod oracle;

use bitcoin_slices::{bsl, number, Error, Parse, SliceCache, Visit, Visitor};
use std::alloc::{GlobalAlloc, Layout, System};
use std::cell::Cell;
use std::io::{BufRead, Write};
use std::ops::ControlFlow;
use std::panic::{catch_unwind, AssertUnwindSafe};

// ---------------------------------------------------------------- counting allocator (C05)
pub struct Counting;
thread_local! { static ALLOCS: Cell<u64> = const { Cell::new(0) }; }
unsafe impl GlobalAlloc for Counting {
    unsafe fn alloc(&self, l: Layout) -> *mut u8 {
        let _ = ALLOCS.try_with(|c| c.set(c.get() + 1));
        System.alloc(l)
    }
    unsafe fn dealloc(&self, p: *mut u8, l: Layout) {
        System.dealloc(p, l)
    }
    unsafe fn realloc(&self, p: *mut u8, l: Layout, n: usize) -> *mut u8 {
        let _ = ALLOCS.try_with(|c| c.set(c.get() + 1));
        System.realloc(p, l, n)
    }
    unsafe fn alloc_zeroed(&self, l: Layout) -> *mut u8 {
        let _ = ALLOCS.try_with(|c| c.set(c.get() + 1));
        System.alloc_zeroed(l)
    }
}
#[global_allocator]
static GLOBAL: Counting = Counting;
pub fn allocs() -> u64 {
    ALLOCS.with(|c| c.get())
}

// ---------------------------------------------------------------- helpers
pub fn hex(b: &[u8]) -> String {
    let mut s = String::with_capacity(b.len() * 2);
    for x in b {
        s.push_str(&format!("{:02x}", x));
    }
    s
}
pub fn unhex(s: &str) -> Option<Vec<u8>> {
    if s == "-" {
        return Some(vec![]);
    }
    if s.len() % 2 != 0 {
        return None;
    }
    let b = s.as_bytes();
    let v = |c: u8| -> Option<u8> {
        match c {
            b'0'..=b'9' => Some(c - b'0'),
            b'a'..=b'f' => Some(c - b'a' + 10),
            b'A'..=b'F' => Some(c - b'A' + 10),
            _ => None,
        }
    };
    let mut out = Vec::with_capacity(b.len() / 2);
    for i in (0..b.len()).step_by(2) {
        out.push(v(b[i])? * 16 + v(b[i + 1])?);
    }
    Some(out)
}
pub fn err_name(e: &Error) -> String {
    match e {
        Error::MoreBytesNeeded => "MoreBytesNeeded".into(),
        Error::UnknownSegwitFlag(f) => format!("UnknownSegwitFlag({})", f),
        Error::SegwitFlagWithoutWitnesses => "SegwitFlagWithoutWitnesses".into(),
        Error::NonMinimalVarInt => "NonMinimalVarInt".into(),
        Error::VisitBreak => "VisitBreak".into(),
        Error::Other(c) => format!("Other({})", c),
    }
}
/// run `f`, mapping a panic to `Err(())`
pub fn pc<T>(f: impl FnOnce() -> T) -> Result<T, ()> {
    catch_unwind(AssertUnwindSafe(f)).map_err(|_| ())
}
/// run a formatting closure, `panic` if it unwinds
pub fn ps(f: impl FnOnce() -> String) -> String {
    pc(f).unwrap_or_else(|_| "panic".into())
}

/// the input an operation runs on: every slice is printed as `@offset+len` relative to it
#[derive(Clone, Copy)]
pub struct B {
    pub base: usize,
    pub len: usize,
}
impl B {
    pub fn of(input: &[u8]) -> B {
        B { base: input.as_ptr() as usize, len: input.len() }
    }
    pub fn sl(&self, sub: &[u8]) -> String {
        let p = sub.as_ptr() as usize;
        if p >= self.base && p + sub.len() <= self.base + self.len {
            format!("@{}+{}", p - self.base, sub.len())
        } else {
            format!("@?+{}", sub.len())
        }
    }
}

// ---------------------------------------------------------------- visitors
/// records every callback as a canonical string; breaks at the `break_at`-th breakable callback
pub struct Rec {
    pub b: B,
    pub evs: Vec<String>,
    pub seen: usize,
    pub break_at: Option<usize>,
}
impl Rec {
    pub fn new(b: B, break_at: Option<usize>) -> Rec {
        Rec { b, evs: vec![], seen: 0, break_at }
    }
    fn brk(&mut self) -> ControlFlow<()> {
        let hit = self.break_at == Some(self.seen);
        self.seen += 1;
        if hit {
            ControlFlow::Break(())
        } else {
            ControlFlow::Continue(())
        }
    }
}
impl Visitor for Rec {
    fn visit_block_header(&mut self, h: &bsl::BlockHeader) -> ControlFlow<()> {
        self.evs.push(format!("hdr({})", fmt::header_fh(&self.b, h)));
        self.brk()
    }
    fn visit_block_begin(&mut self, n: usize) {
        self.evs.push(format!("bb({})", n));
    }
    fn visit_transaction(&mut self, tx: &bsl::Transaction) -> ControlFlow<()> {
        self.evs.push(format!("tx({})", fmt::tx_fh(&self.b, tx)));
        self.brk()
    }
    fn visit_tx_ins(&mut self, n: usize) {
        self.evs.push(format!("ins({})", n));
    }
    fn visit_tx_in(&mut self, vin: usize, i: &bsl::TxIn) -> ControlFlow<()> {
        self.evs.push(format!("in({};{})", vin, fmt::txin_f(&self.b, i)));
        self.brk()
    }
    fn visit_tx_outs(&mut self, n: usize) {
        self.evs.push(format!("outs({})", n));
    }
    fn visit_tx_out(&mut self, vout: usize, o: &bsl::TxOut) -> ControlFlow<()> {
        self.evs.push(format!("out({};{})", vout, fmt::txout_f(&self.b, o)));
        self.brk()
    }
    fn visit_witness(&mut self, vin: usize) -> ControlFlow<()> {
        self.evs.push(format!("w({})", vin));
        self.brk()
    }
    fn visit_witness_total_element(&mut self, n: usize) {
        self.evs.push(format!("wt({})", n));
    }
    fn visit_witness_element(&mut self, i: usize, e: &[u8]) {
        self.evs.push(format!("we({};{})", i, self.b.sl(e)));
    }
    fn visit_witness_end(&mut self) {
        self.evs.push("wend".into());
    }
}

/// allocation-free visitor: counts callbacks, touches every accessor, breaks like `Rec`
pub struct CountV {
    pub calls: u64,
    pub seen: usize,
    pub break_at: Option<usize>,
    pub sink: u64,
}
impl CountV {
    pub fn new(break_at: Option<usize>) -> CountV {
        CountV { calls: 0, seen: 0, break_at, sink: 0 }
    }
    fn brk(&mut self) -> ControlFlow<()> {
        let hit = self.break_at == Some(self.seen);
        self.seen += 1;
        if hit {
            ControlFlow::Break(())
        } else {
            ControlFlow::Continue(())
        }
    }
}
impl Visitor for CountV {
    fn visit_block_header(&mut self, h: &bsl::BlockHeader) -> ControlFlow<()> {
        self.calls += 1;
        self.sink ^= fmt::touch_header(h);
        self.brk()
    }
    fn visit_block_begin(&mut self, n: usize) {
        self.calls += 1;
        self.sink ^= n as u64;
    }
    fn visit_transaction(&mut self, tx: &bsl::Transaction) -> ControlFlow<()> {
        self.calls += 1;
        self.sink ^= fmt::touch_tx(tx);
        self.brk()
    }
    fn visit_tx_ins(&mut self, n: usize) {
        self.calls += 1;
        self.sink ^= n as u64;
    }
    fn visit_tx_in(&mut self, _vin: usize, i: &bsl::TxIn) -> ControlFlow<()> {
        self.calls += 1;
        self.sink ^= fmt::touch_txin(i);
        self.brk()
    }
    fn visit_tx_outs(&mut self, n: usize) {
        self.calls += 1;
        self.sink ^= n as u64;
    }
    fn visit_tx_out(&mut self, _vout: usize, o: &bsl::TxOut) -> ControlFlow<()> {
        self.calls += 1;
        self.sink ^= fmt::touch_txout(o);
        self.brk()
    }
    fn visit_witness(&mut self, _vin: usize) -> ControlFlow<()> {
        self.calls += 1;
        self.brk()
    }
    fn visit_witness_total_element(&mut self, n: usize) {
        self.calls += 1;
        self.sink ^= n as u64;
    }
    fn visit_witness_element(&mut self, _i: usize, e: &[u8]) {
        self.calls += 1;
        self.sink ^= e.len() as u64;
    }
    fn visit_witness_end(&mut self) {
        self.calls += 1;
    }
}

pub fn policy_of(p: &str) -> Option<Option<usize>> {
    if p == "n" {
        Some(None)
    } else if let Some(k) = p.strip_prefix('b') {
        k.parse::<usize>().ok().map(Some)
    } else {
        None
    }
}

/// the cache key used by the harness: equality on the whole value, but a lawful `Hash` that is far from injective
/// (only the two low bits), so that anything deciding key identity by hash alone is exposed
#[derive(Debug, Clone, Copy, PartialEq, Eq)]
pub struct WeakKey(pub u64);
impl std::hash::Hash for WeakKey {
    fn hash<H: std::hash::Hasher>(&self, h: &mut H) {
        h.write_u8((self.0 & 3) as u8);
    }
}

// ---------------------------------------------------------------- cache state + reference log (C06/C11/C12/C13)
pub struct CacheSt {
    pub cache: SliceCache<WeakKey>,
    pub cap: usize,
    /// every successful insertion, in order
    pub log: Vec<(u64, Vec<u8>)>,
    /// retrievable entries are exactly log[live_from..]
    pub live_from: usize,
    pub lmax: usize,
    pub ever_evicted: bool,
    pub keys: Vec<u64>,
}
impl CacheSt {
    pub fn new(cap: usize) -> CacheSt {
        CacheSt {
            cache: SliceCache::new(cap),
            cap,
            log: vec![],
            live_from: 0,
            lmax: 0,
            ever_evicted: false,
            keys: vec![],
        }
    }
    /// the layout through the `--cfg bitcoin_slices_verif` hook; when the harness had to be built without the hook
    /// (a refactoring of the cache that the hook no longer compiles against) the layout is simply not observed
    #[cfg(bitcoin_slices_verif)]
    pub fn ranges(&self) -> Option<(usize, bool, Vec<(usize, usize)>)> {
        // the hook walks the crate's internal tables: if they have become inconsistent it may panic; the public
        // behaviour is still observed (and judged) after that
        std::panic::catch_unwind(std::panic::AssertUnwindSafe(|| self.cache.verif_layout())).ok()
    }
    #[cfg(not(bitcoin_slices_verif))]
    pub fn ranges(&self) -> Option<(usize, bool, Vec<(usize, usize)>)> {
        None
    }
    pub fn layout(&self) -> String {
        match self.ranges() {
            Some((fp, full, ranges)) => {
                let r: Vec<String> = ranges.iter().map(|(b, e)| format!("{}-{}", b, e)).collect();
                format!("{},{},[{}]", fp, full, r.join(";"))
            }
            None => "unobserved".into(),
        }
    }
}

fn num_line(ty: &str, b: &[u8]) -> String {
    let bb = B::of(b);
    macro_rules! one {
        ($T:ty, $prim:ty, $read:path, $tolen:expr) => {{
            let p = match pc(|| <$T>::parse(b)) {
                Err(_) => "panic".to_string(),
                Ok(Err(e)) => format!("err:{}", err_name(&e)),
                Ok(Ok(r)) => {
                    let rem = bb.sl(r.remaining());
                    let v = r.parsed_owned();
                    let asref = hex(v.as_ref());
                    // unwrap by reference, and by value through a second wrapper of the same number
                    let val = pc(|| {
                        let a: $prim = (&v).into();
                        let x2: $T = a.into();
                        let b: $prim = x2.into();
                        (a, b)
                    });
                    let vals = match val {
                        Ok((a, b)) if a == b => a.to_string(),
                        Ok((a, b)) => format!("MISMATCH:{}:{}", a, b),
                        Err(_) => "panic".to_string(),
                    };
                    let tl: String = $tolen(v);
                    format!("ok:{},asref={},rem={},tolen={}", vals, asref, rem, tl)
                }
            };
            let r = match pc(|| $read(b)) {
                Err(_) => "panic".to_string(),
                Ok(Err(e)) => format!("err:{}", err_name(&e)),
                Ok(Ok(v)) => format!("ok:{}", v),
            };
            format!("num p={} read={}", p, r)
        }};
    }
    match ty {
        "u8" => one!(number::U8, u8, number::read_u8, |_v| "-".to_string()),
        "u16" => one!(number::U16, u16, number::read_u16, |v: number::U16| fmt::len_s(pc(|| v.to_len()))),
        "u32" => one!(number::U32, u32, number::read_u32, |v: number::U32| fmt::len_s(pc(|| v.to_len()))),
        "i32" => one!(number::I32, i32, number::read_i32, |_v| "-".to_string()),
        "u64" => one!(number::U64, u64, number::read_u64, |v: number::U64| fmt::len_s(pc(|| v.to_len()))),
        _ => "bad-op".into(),
    }
}

fn wrap_line(ty: &str, v: &str) -> String {
    // wrap, then unwrap by reference and by value (each may panic on its own), the serialized view, to_len
    macro_rules! w {
        ($T:ty, $prim:ty, $tolen:expr) => {
            match v.parse::<$prim>() {
                Ok(n) => {
                    let r = pc(|| {
                        let x: $T = n.into();
                        (hex(x.as_ref()), $tolen(x))
                    });
                    let by_ref = pc(|| {
                        let x: $T = n.into();
                        let b: $prim = (&x).into();
                        b
                    });
                    let by_val = pc(|| {
                        let x: $T = n.into();
                        let b: $prim = x.into();
                        b
                    });
                    let back = match (by_ref, by_val) {
                        (Ok(a), Ok(b)) if a == b => a.to_string(),
                        (Ok(a), Ok(b)) => format!("MISMATCH:{}:{}", a, b),
                        _ => "panic".to_string(),
                    };
                    match r {
                        Ok((asref, tl)) => format!("wrap asref={} back={} tolen={}", asref, back, tl),
                        Err(_) => "wrap panic".to_string(),
                    }
                }
                Err(_) => "bad-op".into(),
            }
        };
    }
    match ty {
        "u8" => w!(number::U8, u8, |_x: number::U8| "-".to_string()),
        "u16" => w!(number::U16, u16, |x: number::U16| fmt::len_s(pc(|| x.to_len()))),
        "u32" => w!(number::U32, u32, |x: number::U32| fmt::len_s(pc(|| x.to_len()))),
        "i32" => w!(number::I32, i32, |_x: number::I32| "-".to_string()),
        "u64" => w!(number::U64, u64, |x: number::U64| fmt::len_s(pc(|| x.to_len()))),
        _ => "bad-op".into(),
    }
}

pub struct Ctx {
    pub cache: CacheSt,
    /// run the quadratic prefix sweep (C07) on inputs up to this length; longer ones are sampled
    pub sweep_cap: usize,
    pub oracles: bool,
    pub redb_real: bool,
}

fn step(ctx: &mut Ctx, line: &str) -> String {
    let toks: Vec<&str> = line.split_whitespace().collect();
    match toks.as_slice() {
        ["scan", h, ctr] => {
            let (Some(b), Ok(k)) = (unhex(h), ctr.parse::<usize>()) else { return "bad-op".into() };
            let mut c = k;
            let r = pc(|| bsl::scan_len(&b, &mut c));
            let rs = match r {
                Err(_) => "panic".to_string(),
                Ok(Ok(n)) => n.to_string(),
                Ok(Err(e)) => format!("err:{}", err_name(&e)),
            };
            let o = if ctx.oracles { oracle::scan(&b, k) } else { String::new() };
            format!("scan r={} c={}{}", rs, c, o)
        }
        ["plen", h] => {
            let Some(b) = unhex(h) else { return "bad-op".into() };
            format!("plen r={}", fmt::len_s(pc(|| bsl::parse_len(&b))))
        }
        ["num", ty, h] => {
            let Some(b) = unhex(h) else { return "bad-op".into() };
            let o = if ctx.oracles { oracle::num(ty, &b) } else { String::new() };
            format!("{}{}", num_line(ty, &b), o)
        }
        ["wrap", ty, v] => wrap_line(ty, v),
        ["rslice", h, n] => {
            let (Some(b), Ok(k)) = (unhex(h), n.parse::<usize>()) else { return "bad-op".into() };
            let bb = B::of(&b);
            match pc(|| bitcoin_slices::read_slice(&b, k)) {
                Err(_) => "rslice r=panic".into(),
                Ok(Err(e)) => format!("rslice r=err:{}", err_name(&e)),
                Ok(Ok(r)) => format!("rslice r=ok:{},rem={}", bb.sl(r.parsed()), bb.sl(r.remaining())),
            }
        }
        ["visit", ty, policy, h] => {
            let (Some(b), Some(pol)) = (unhex(h), policy_of(policy)) else { return "bad-op".into() };
            fmt::visit_line(ctx, ty, pol, &b)
        }
        ["find", id, h] => {
            let (Some(id), Some(b)) = (unhex(id), unhex(h)) else { return "bad-op".into() };
            oracle::find_line(ctx, &id, &b)
        }
        ["redb", ty, h] => {
            let Some(b) = unhex(h) else { return "bad-op".into() };
            oracle::redb_line(ctx, ty, &b)
        }
        ["redbraw", "txouts", h] => {
            let Some(b) = unhex(h) else { return "bad-op".into() };
            oracle::redbraw_line(ctx, &b)
        }
        ["cmp", a, b] => {
            let (Some(a), Some(b)) = (unhex(a), unhex(b)) else { return "bad-op".into() };
            let a0 = allocs();
            let o = match pc(|| <bsl::OutPoint as bitcoin_slices::redb::RedbKey>::compare(&a, &b)) {
                Ok(o) => o,
                Err(_) => return "cmp r=panic".into(),
            };
            let cmp_allocs = allocs() - a0;
            let s = match o {
                std::cmp::Ordering::Less => "lt",
                std::cmp::Ordering::Equal => "eq",
                std::cmp::Ordering::Greater => "gt",
            };
            let orc = if ctx.oracles {
                let o2 = <bsl::OutPoint as bitcoin_slices::redb::RedbKey>::compare(&b, &a);
                let ok = o == a.as_slice().cmp(b.as_slice()) && o2 == o.reverse() && ((o == std::cmp::Ordering::Equal) == (a == b));
                format!(" #cmp={} cmpalloc={}", if ok { "ok" } else { "FAIL" }, cmp_allocs)
            } else {
                String::new()
            };
            format!("cmp r={}{}", s, orc)
        }
        ["cnew", n] => {
            let Ok(n) = n.parse::<usize>() else { return "bad-op".into() };
            ctx.cache = CacheSt::new(n);
            format!("cnew st={}", ctx.cache.layout())
        }
        ["cins", k, h] => {
            let (Ok(k), Some(b)) = (k.parse::<u64>(), unhex(h)) else { return "bad-op".into() };
            oracle::cins_line(ctx, k, &b)
        }
        ["cget", k] => {
            let Ok(k) = k.parse::<u64>() else { return "bad-op".into() };
            let c = &ctx.cache.cache;
            let g = match pc(|| c.get(&WeakKey(k)).map(|v| v.to_vec())) {
                Err(_) => "panic".to_string(),
                Ok(None) => "none".into(),
                Ok(Some(v)) => format!("some:{}", if v.is_empty() { "-".to_string() } else { hex(&v) }),
            };
            let has = ps(|| c.contains(&WeakKey(k)).to_string());
            if ctx.oracles {
                // `get_value` is `get` seen through a redb value type: for plain byte strings it is `get` itself
                let gv = match (pc(|| c.get_value::<&[u8]>(&WeakKey(k)).map(|v| v.to_vec())), pc(|| c.get(&WeakKey(k)).map(|v| v.to_vec()))) {
                    (Ok(a), Ok(b)) if a == b => "ok",
                    (Err(_), Err(_)) => "ok",
                    _ => "FAIL:get_value-differs-from-get",
                };
                format!("cget r={} has={} #gv={}", g, has, gv)
            } else {
                format!("cget r={} has={}", g, has)
            }
        }
        _ => "bad-op".into(),
    }
}

fn main() {
    let args: Vec<String> = std::env::args().collect();
    std::panic::set_hook(Box::new(|_| {}));
    let mode = args.get(1).map(|s| s.as_str()).unwrap_or("impl");
    match mode {
        "impl" => {
            let oracles = !args.iter().any(|a| a == "--no-oracles");
            let redb_real = args.iter().any(|a| a == "--redb-real");
            let sweep_cap = args
                .iter()
                .find_map(|a| a.strip_prefix("--sweep-cap=").and_then(|v| v.parse().ok()))
                .unwrap_or(400usize);
            let mut ctx = Ctx { cache: CacheSt::new(0), sweep_cap, oracles, redb_real };
            let flush_each = std::env::var("BS_FLUSH").is_ok();
            let stdin = std::io::stdin();
            let stdout = std::io::stdout();
            let mut out = std::io::BufWriter::new(stdout.lock());
            for line in stdin.lock().lines() {
                let line = line.expect("read");
                let t = line.trim();
                if t.is_empty() || t.starts_with('#') {
                    continue;
                }
                let o = match pc(|| step(&mut ctx, t)) {
                    Ok(o) => o,
                    Err(_) => "harness-panic".into(),
                };
                writeln!(out, "{}", o).unwrap();
                if flush_each {
                    out.flush().unwrap();
                }
            }
        }
        "gen-real" => oracle::gen_real(&args[2..]),
        "big" => oracle::big(&args[2..]),
        _ => {
            eprintln!("usage: bsharness impl [--no-oracles] [--sweep-cap=N] [--redb-real] < ops | gen-real <what> | big <what>");
            std::process::exit(2);
        }
    }
}
