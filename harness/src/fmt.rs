//! canonical formatting of parsed objects (same text as BS/Driver.lean) and the generic `visit` operation
use crate::{allocs, err_name, hex, oracle, pc, ps, CountV, Ctx, Rec, B};
use bitcoin_slices::{bsl, Error, Parse, SResult, Visit, Visitor};

pub fn len_s(r: Result<Result<bsl::Len, Error>, ()>) -> String {
    match r {
        Err(_) => "panic".into(),
        Ok(Err(e)) => format!("err:{}", err_name(&e)),
        Ok(Ok(l)) => format!("ok:{},{},{}", l.n(), l.consumed(), ps(|| l.slice_len().to_string())),
    }
}

pub fn script_f(b: &B, s: &bsl::Script) -> String {
    format!("v={},script={}", b.sl(s.as_ref()), ps(|| b.sl(s.script())))
}
pub fn outpoint_f(b: &B, o: &bsl::OutPoint) -> String {
    format!("v={},txid={},vout={}", b.sl(o.as_ref()), ps(|| b.sl(o.txid())), ps(|| o.vout().to_string()))
}
pub fn txin_f(b: &B, i: &bsl::TxIn) -> String {
    format!(
        "v={},prev=({}),ss={},seq={}",
        b.sl(i.as_ref()),
        outpoint_f(b, i.prevout()),
        ps(|| b.sl(i.script_sig())),
        i.sequence()
    )
}
pub fn txout_f(b: &B, o: &bsl::TxOut) -> String {
    format!("v={},value={},spk={}", b.sl(o.as_ref()), o.value(), ps(|| b.sl(o.script_pubkey())))
}
pub fn txins_f(b: &B, i: &bsl::TxIns) -> String {
    format!("v={},n={},empty={}", b.sl(i.as_ref()), i.n(), ps(|| i.is_empty().to_string()))
}
pub fn iter_f(b: &B, o: &bsl::TxOuts) -> String {
    let r = pc(|| {
        let mut items: Vec<String> = vec![];
        let mut hints: Vec<String> = vec![];
        let mut it = o.iter();
        let mut fuel = o.as_ref().len() + 2;
        loop {
            if fuel == 0 {
                return format!("[{}],hints=[{}],fuel", items.join(";"), hints.join(","));
            }
            fuel -= 1;
            let (lo, hi) = it.size_hint();
            let l = it.len_unchecked();
            hints.push(if hi == Some(lo) && l == lo { lo.to_string() } else { format!("{}/{:?}/{}", lo, hi, l) });
            match pc(|| it.next()) {
                Err(_) => return format!("[{}],hints=[{}],panic", items.join(";"), hints.join(",")),
                Ok(None) => {
                    // after the end: the reported remaining length, and what one more `next()` answers
                    let h1 = pc(|| it.size_hint().0.to_string()).unwrap_or_else(|_| "panic".into());
                    let again = match pc(|| it.next().is_some()) {
                        Err(_) => "panic".to_string(),
                        Ok(true) => "some".into(),
                        Ok(false) => format!("none/{}", pc(|| it.size_hint().0.to_string()).unwrap_or_else(|_| "panic".into())),
                    };
                    return format!("[{}],hints=[{}],after={}:{}", items.join(";"), hints.join(","), h1, again);
                }
                Ok(Some(x)) => items.push(format!("({})", txout_f(b, &x))),
            }
        }
    });
    r.unwrap_or_else(|_| "panic".into())
}
trait LenUnchecked {
    fn len_unchecked(&self) -> usize;
}
impl<I: Iterator> LenUnchecked for I {
    /// `ExactSizeIterator::len` asserts lower == upper; report the lower bound without asserting
    fn len_unchecked(&self) -> usize {
        self.size_hint().0
    }
}
pub fn txouts_f(b: &B, o: &bsl::TxOuts) -> String {
    format!("v={},n={},empty={},iter={}", b.sl(o.as_ref()), o.n(), ps(|| o.is_empty().to_string()), iter_f(b, o))
}
pub fn witness_f(b: &B, w: &bsl::Witness) -> String {
    format!("v={},empty={}", b.sl(w.as_ref()), ps(|| w.is_empty().to_string()))
}
pub fn witnesses_f(b: &B, w: &bsl::Witnesses) -> String {
    format!("v={},allempty={}", b.sl(w.as_ref()), w.all_empty())
}
fn part(b: &B, s: &[u8]) -> String {
    if s.is_empty() {
        "@+0".into()
    } else {
        b.sl(s)
    }
}
pub fn tx_f(b: &B, t: &bsl::Transaction) -> String {
    format!(
        "v={},ver={},lock={},pre={},w={}",
        b.sl(t.as_ref()),
        ps(|| t.version().to_string()),
        ps(|| t.locktime().to_string()),
        ps(|| {
            let (x, y, z) = t.txid_preimage();
            format!("{}|{}|{}", part(b, x), part(b, y), part(b, z))
        }),
        ps(|| t.weight().to_string())
    )
}
pub fn txid_hex(t: &bsl::Transaction) -> String {
    ps(|| {
        let a = t.txid();
        let a: &[u8] = a.as_ref();
        let s = t.txid_sha2();
        if a == s.as_slice() {
            hex(a)
        } else {
            format!("MISMATCH:{}:{}", hex(a), hex(s.as_slice()))
        }
    })
}
pub fn tx_fh(b: &B, t: &bsl::Transaction) -> String {
    format!("{},txid={}", tx_f(b, t), txid_hex(t))
}
pub fn header_f(b: &B, h: &bsl::BlockHeader) -> String {
    format!(
        "v={},ver={},prev={},merkle={},time={},nonce={}",
        b.sl(h.as_ref()),
        h.version(),
        ps(|| b.sl(h.prev_blockhash())),
        ps(|| b.sl(h.merkle_root())),
        h.time(),
        h.nonce()
    )
}
pub fn header_hash(h: &bsl::BlockHeader) -> String {
    ps(|| {
        let a = h.block_hash();
        let a: &[u8] = a.as_ref();
        let s = h.block_hash_sha2();
        if a == s.as_slice() {
            hex(a)
        } else {
            format!("MISMATCH:{}:{}", hex(a), hex(s.as_slice()))
        }
    })
}
pub fn header_fh(b: &B, h: &bsl::BlockHeader) -> String {
    format!("{},hash={}", header_f(b, h), header_hash(h))
}
pub fn block_fh(b: &B, k: &bsl::Block) -> String {
    let hash = ps(|| {
        let a = k.block_hash();
        let a: &[u8] = a.as_ref();
        let s = k.block_hash_sha2();
        // the same hash through the header accessor, with both backends
        let ha = k.header().block_hash();
        let ha: &[u8] = ha.as_ref();
        let hs = k.header().block_hash_sha2();
        if a == s.as_slice() && a == ha && a == hs.as_slice() && k.header().block_hash_preimage() == &k.as_ref()[..80.min(k.as_ref().len())] {
            hex(a)
        } else {
            format!("MISMATCH:{}:{}:{}:{}", hex(a), hex(s.as_slice()), hex(ha), hex(hs.as_slice()))
        }
    });
    format!("v={},total={},hdr=({}),hash={}", b.sl(k.as_ref()), k.total_transactions(), header_f(b, k.header()), hash)
}

// ---- allocation-free accessor sweeps (C05): every accessor is called, results folded into a checksum
fn fold(s: &[u8]) -> u64 {
    s.len() as u64 ^ s.first().map(|x| *x as u64).unwrap_or(0)
}
pub fn touch_script(s: &bsl::Script) -> u64 {
    fold(s.as_ref()) ^ fold(s.script()) ^ Parse::len(s) as u64
}
pub fn touch_outpoint(o: &bsl::OutPoint) -> u64 {
    fold(o.as_ref()) ^ fold(o.txid()) ^ o.vout() as u64
}
pub fn touch_txin(i: &bsl::TxIn) -> u64 {
    fold(i.as_ref()) ^ touch_outpoint(i.prevout()) ^ fold(i.script_sig()) ^ i.sequence() as u64
}
pub fn touch_txout(o: &bsl::TxOut) -> u64 {
    fold(o.as_ref()) ^ o.value() ^ fold(o.script_pubkey()) ^ fold(o.as_bitcoin_script().as_bytes())
}
pub fn touch_txins(i: &bsl::TxIns) -> u64 {
    fold(i.as_ref()) ^ i.n() as u64 ^ i.is_empty() as u64
}
pub fn touch_txouts(o: &bsl::TxOuts) -> u64 {
    let mut x = fold(o.as_ref()) ^ o.n() as u64 ^ o.is_empty() as u64;
    let mut it = o.iter();
    x ^= it.size_hint().0 as u64;
    for t in &mut it {
        x ^= touch_txout(&t);
    }
    for t in o {
        x ^= t.value();
    }
    x
}
pub fn touch_witness(w: &bsl::Witness) -> u64 {
    fold(w.as_ref()) ^ w.is_empty() as u64
}
pub fn touch_witnesses(w: &bsl::Witnesses) -> u64 {
    fold(w.as_ref()) ^ w.all_empty() as u64
}
pub fn touch_tx(t: &bsl::Transaction) -> u64 {
    let (a, b, c) = t.txid_preimage();
    let id = t.txid();
    let id: &[u8] = id.as_ref();
    let id2 = t.txid_sha2();
    fold(t.as_ref()) ^ t.version() as u64 ^ t.locktime() as u64 ^ fold(a) ^ fold(b) ^ fold(c) ^ t.weight() ^ fold(id) ^ fold(id2.as_slice())
}
pub fn touch_header(h: &bsl::BlockHeader) -> u64 {
    let id = h.block_hash();
    let id: &[u8] = id.as_ref();
    let id2 = h.block_hash_sha2();
    fold(h.as_ref())
        ^ h.version() as u64
        ^ fold(h.prev_blockhash())
        ^ fold(h.merkle_root())
        ^ h.time() as u64
        ^ h.nonce() as u64
        ^ fold(h.block_hash_preimage())
        ^ fold(id)
        ^ fold(id2.as_slice())
}
pub fn touch_block(k: &bsl::Block) -> u64 {
    let id = k.block_hash();
    let id: &[u8] = id.as_ref();
    let id2 = k.block_hash_sha2();
    fold(k.as_ref()) ^ k.total_transactions() as u64 ^ touch_header(k.header()) ^ fold(id) ^ fold(id2.as_slice())
}

/// one parse/visit entry point of the crate
pub trait Ty<'a>: Sized + AsRef<[u8]> + PartialEq + 'a {
    const NAME: &'static str;
    fn run<V: Visitor>(b: &'a [u8], n: usize, v: &mut V) -> SResult<'a, Self>;
    fn parse_(b: &'a [u8], n: usize) -> SResult<'a, Self>;
    fn f(bb: &B, x: &Self) -> String;
    fn touch(x: &Self) -> u64;
    fn len_(x: &Self) -> usize;
    /// the real `Visit::self_visit` (None for the types that only implement `Parse`, and for `Witnesses`)
    fn self_visit_<V: Visitor>(_x: &'a Self, _v: &mut V) -> Option<SResult<'a, Self>> {
        None
    }
}
macro_rules! parse_ty {
    ($T:ident, $name:expr, $f:path, $touch:path) => {
        impl<'a> Ty<'a> for bsl::$T<'a> {
            const NAME: &'static str = $name;
            fn run<V: Visitor>(b: &'a [u8], _n: usize, _v: &mut V) -> SResult<'a, Self> {
                <bsl::$T as Parse>::parse(b)
            }
            fn parse_(b: &'a [u8], _n: usize) -> SResult<'a, Self> {
                <bsl::$T as Parse>::parse(b)
            }
            fn f(bb: &B, x: &Self) -> String {
                $f(bb, x)
            }
            fn touch(x: &Self) -> u64 {
                $touch(x)
            }
            fn len_(x: &Self) -> usize {
                Parse::len(x)
            }
        }
    };
}
macro_rules! visit_ty {
    ($T:ident, $name:expr, $f:path, $touch:path) => {
        impl<'a> Ty<'a> for bsl::$T<'a> {
            const NAME: &'static str = $name;
            fn run<V: Visitor>(b: &'a [u8], _n: usize, v: &mut V) -> SResult<'a, Self> {
                <bsl::$T as Visit>::visit(b, v)
            }
            fn parse_(b: &'a [u8], _n: usize) -> SResult<'a, Self> {
                <bsl::$T as Parse>::parse(b)
            }
            fn f(bb: &B, x: &Self) -> String {
                $f(bb, x)
            }
            fn touch(x: &Self) -> u64 {
                $touch(x)
            }
            fn len_(x: &Self) -> usize {
                Visit::len(x)
            }
            fn self_visit_<V: Visitor>(x: &'a Self, v: &mut V) -> Option<SResult<'a, Self>> {
                Some(Visit::self_visit(x, v))
            }
        }
    };
}
parse_ty!(Script, "script", script_f, touch_script);
parse_ty!(OutPoint, "outpoint", outpoint_f, touch_outpoint);
parse_ty!(TxIn, "txin", txin_f, touch_txin);
parse_ty!(TxOut, "txout", txout_f, touch_txout);
visit_ty!(TxIns, "txins", txins_f, touch_txins);
visit_ty!(TxOuts, "txouts", txouts_f, touch_txouts);
visit_ty!(Witness, "witness", witness_f, touch_witness);
visit_ty!(Transaction, "tx", tx_fh, touch_tx);
visit_ty!(BlockHeader, "header", header_fh, touch_header);
visit_ty!(Block, "block", block_fh, touch_block);
impl<'a> Ty<'a> for bsl::Witnesses<'a> {
    const NAME: &'static str = "witnesses";
    fn run<V: Visitor>(b: &'a [u8], n: usize, v: &mut V) -> SResult<'a, Self> {
        bsl::Witnesses::visit(b, n, v)
    }
    fn parse_(b: &'a [u8], n: usize) -> SResult<'a, Self> {
        bsl::Witnesses::parse(b, n)
    }
    fn f(bb: &B, x: &Self) -> String {
        witnesses_f(bb, x)
    }
    fn touch(x: &Self) -> u64 {
        touch_witnesses(x)
    }
    fn len_(x: &Self) -> usize {
        x.as_ref().len()
    }
}

pub fn evs_s(evs: &[String]) -> String {
    if evs.is_empty() {
        "-".into()
    } else {
        evs.join("|")
    }
}

/// outcome of one run, in a form comparable across runs on different memory
#[derive(PartialEq, Clone, Debug)]
pub enum Outcome {
    Panic,
    Err(String),
    /// formatted object (offsets relative to the run's own input) and consumed length
    Ok(String, usize),
}

pub fn outcome<'a, T: Ty<'a>>(b: &'a [u8], n: usize, pol: Option<usize>) -> (Outcome, Vec<String>) {
    let bb = B::of(b);
    let mut rec = Rec::new(bb, pol);
    let r = pc(|| T::run(b, n, &mut rec));
    let o = match r {
        Err(_) => Outcome::Panic,
        Ok(Err(e)) => Outcome::Err(err_name(&e)),
        Ok(Ok(pr)) => Outcome::Ok(T::f(&bb, pr.parsed()), pr.consumed()),
    };
    (o, rec.evs)
}

fn visit_t<'a, T: Ty<'a>>(ctx: &Ctx, b: &'a [u8], n: usize, pol: Option<usize>) -> String {
    let bb = B::of(b);
    let mut rec = Rec::new(bb, pol);
    let r = pc(|| T::run(b, n, &mut rec));
    let line = match &r {
        Err(_) => format!("visit r=panic ev={}", evs_s(&rec.evs)),
        Ok(Err(e)) => format!("visit r=err:{} ev={}", err_name(e), evs_s(&rec.evs)),
        Ok(Ok(pr)) => format!(
            "visit r=ok obj=({}) rem={} ev={}",
            T::f(&bb, pr.parsed()),
            bb.sl(pr.remaining()),
            evs_s(&rec.evs)
        ),
    };
    if !ctx.oracles {
        return line;
    }
    let mut o: Vec<String> = vec![];
    // C14 leaves one choice open: a segwit transaction whose witnesses are all empty and which is also cut before the
    // end of its lock time may be answered with MoreBytesNeeded or SegwitFlagWithoutWitnesses. Whether an input is such
    // a one is decided on the implementation itself, under every visitor policy: four more bytes turn the answer into
    // SegwitFlagWithoutWitnesses.
    if matches!(&r, Ok(Err(Error::MoreBytesNeeded))) && (T::NAME == "tx" || T::NAME == "block") {
        let mut ext = b.to_vec();
        ext.extend_from_slice(&[0, 0, 0, 0]);
        let again = pc(|| match T::NAME {
            "tx" => <bsl::Transaction as Parse>::parse(&ext).map(|_| ()),
            _ => <bsl::Block as Parse>::parse(&ext).map(|_| ()),
        });
        if again == Ok(Err(Error::SegwitFlagWithoutWitnesses)) {
            o.push("sfwwcut=1".into());
        }
    }
    // ---- C05 allocation count, C01 callback bound: a run with the allocation-free visitor
    let mut cv = CountV::new(pol);
    let a0 = allocs();
    let r2 = pc(|| {
        let r = T::run(b, n, &mut cv);
        let t = match &r {
            Ok(pr) => T::touch(pr.parsed()),
            Err(_) => 0,
        };
        (r.is_ok(), t)
    });
    let a1 = allocs();
    match r2 {
        Ok(_) => o.push(format!("alloc={}", a1 - a0)),
        Err(_) => o.push("alloc=panic".into()),
    }
    o.push(format!("cb={}", cv.calls));
    o.push(format!("cbound={}", if cv.calls as usize <= 3 * b.len() + 4 { "ok" } else { "FAIL" }));
    if matches!(r, Err(_)) {
        o.push("nopanic=FAIL".into());
    } else {
        o.push("nopanic=ok".into());
    }
    if let Ok(r) = &r {
        let res = match r {
            Ok(pr) => Ok(pr),
            Err(e) => Err(e.clone()),
        };
        o.push(format!("selfv={}", oracle::self_visit_oracle::<T>(b, n, pol, &res)));
        match pol {
            None => {
                o.push(format!("part={}", oracle::part::<T>(b, &res)));
                o.push(format!("self={}", oracle::self_consistency::<T>(b, n, &res, &rec.evs)));
                o.push(format!("indep={}", oracle::suffix_independence::<T>(b, n, &res, &rec.evs)));
                o.push(format!("pfx={}", oracle::prefix_sweep::<T>(ctx, b, n)));
                if T::NAME == "txouts" && b.len() <= 200_000 {
                    if let Ok(pr) = <bsl::TxOuts as Parse>::parse(b) {
                        o.push(format!("itad={}", oracle::iter_adaptors(pr.parsed())));
                    }
                }
                // the reference oracle calls accessors, conversions and the iterator of the parsed object: a panic in
                // one of them is a finding about that object, not the end of the line
                let ours_k = res.as_ref().map(|pr| pr.consumed()).map_err(|e| e.clone());
                o.push(format!(
                    "rb={}",
                    pc(|| oracle::rb(T::NAME, b, n, &ours_k, &line)).unwrap_or_else(|_| "FAIL:accessor-conversion-or-iterator-panics".into())
                ));
            }
            Some(k) => {
                // the partition holds for every visitor, a breaking one included, whenever the visit succeeds
                o.push(format!("part={}", oracle::part::<T>(b, &res)));
                o.push(format!("brk={}", oracle::break_oracle::<T>(b, n, k, &res.as_ref().map(|_| ()).map_err(|e| e.clone()), &rec.evs)));
            }
        }
    }
    format!("{} #{}", line, o.join(" "))
}

pub fn visit_line(ctx: &Ctx, ty: &str, pol: Option<usize>, b: &[u8]) -> String {
    match ty {
        "script" => visit_t::<bsl::Script>(ctx, b, 0, pol),
        "outpoint" => visit_t::<bsl::OutPoint>(ctx, b, 0, pol),
        "txin" => visit_t::<bsl::TxIn>(ctx, b, 0, pol),
        "txout" => visit_t::<bsl::TxOut>(ctx, b, 0, pol),
        "txins" => visit_t::<bsl::TxIns>(ctx, b, 0, pol),
        "txouts" => visit_t::<bsl::TxOuts>(ctx, b, 0, pol),
        "witness" => visit_t::<bsl::Witness>(ctx, b, 0, pol),
        "tx" => visit_t::<bsl::Transaction>(ctx, b, 0, pol),
        "header" => visit_t::<bsl::BlockHeader>(ctx, b, 0, pol),
        "block" => visit_t::<bsl::Block>(ctx, b, 0, pol),
        _ => {
            if let Some(n) = ty.strip_prefix("witnesses:").and_then(|n| n.parse::<usize>().ok()) {
                visit_t::<bsl::Witnesses>(ctx, b, n, pol)
            } else {
                "bad-op".into()
            }
        }
    }
}
