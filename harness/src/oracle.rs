//! direct oracles: the properties themselves, evaluated on the implementation only (no model involved)
use crate::fmt::{self, evs_s, outcome, Outcome, Ty};
use crate::{err_name, hex, pc, CacheSt, Ctx, Rec, WeakKey, B};
use bitcoin::consensus::{deserialize_partial, encode, serialize};
use bitcoin::hashes::Hash;
use bitcoin_slices::{bitcoin, bsl, Error, Parse, ParseResult, Visit};

// ---------------------------------------------------------------- C08 / C18 reference codecs
fn ref_compact(b: &[u8]) -> Result<(u64, usize), &'static str> {
    let Some(&f) = b.first() else { return Err("MoreBytesNeeded") };
    let (w, min): (usize, u64) = match f {
        0xFF => (8, 1 << 32),
        0xFE => (4, 1 << 16),
        0xFD => (2, 0xFD),
        x => return Ok((x as u64, 1)),
    };
    if b.len() < 1 + w {
        return Err("MoreBytesNeeded");
    }
    let mut n = 0u64;
    for i in (0..w).rev() {
        n = (n << 8) | b[1 + i] as u64;
    }
    if n < min {
        Err("NonMinimalVarInt")
    } else {
        Ok((n, 1 + w))
    }
}
pub fn scan(b: &[u8], k: usize) -> String {
    let mut c = k;
    let r = pc(|| bsl::scan_len(b, &mut c));
    let want = ref_compact(b);
    let ok1 = match (&r, &want) {
        (Ok(Ok(n)), Ok((wn, ww))) => n == wn && c == k + ww,
        (Ok(Err(e)), Err(we)) => err_name(e) == *we && c == k,
        _ => false,
    };
    // the deprecated decoder agrees, and slice_len is the saturating sum
    let p = pc(|| bsl::parse_len(b));
    let ok2 = match (&p, &want) {
        (Ok(Ok(l)), Ok((wn, ww))) => {
            l.n() == *wn
                && l.consumed() == *ww
                && pc(|| l.slice_len()) == Ok((*ww as u64).saturating_add(*wn) as usize)
        }
        (Ok(Err(e)), Err(we)) => err_name(e) == *we,
        _ => false,
    };
    format!(" #ref={} agree={}", if ok1 { "ok" } else { "FAIL" }, if ok2 { "ok" } else { "FAIL" })
}
pub fn num(ty: &str, b: &[u8]) -> String {
    let w = match ty {
        "u8" => 1,
        "u16" => 2,
        "u32" | "i32" => 4,
        "u64" => 8,
        _ => return String::new(),
    };
    let want: Option<u64> = if b.len() >= w {
        let mut n = 0u64;
        for i in (0..w).rev() {
            n = (n << 8) | b[i] as u64;
        }
        Some(n)
    } else {
        None
    };
    use bitcoin_slices::number::*;
    macro_rules! chk {
        ($T:ty, $prim:ty, $read:path) => {{
            let p = pc(|| <$T>::parse(b));
            let r = pc(|| $read(b));
            match want {
                None => matches!(p, Ok(Err(Error::MoreBytesNeeded))) && matches!(r, Ok(Err(Error::MoreBytesNeeded))),
                Some(n) => {
                    let okp = match p {
                        Ok(Ok(pr)) => {
                            let rem_ok = pr.remaining() == &b[w..] && pr.consumed() == w;
                            let v = pr.parsed_owned();
                            let val: $prim = (&v).into();
                            rem_ok && val == n as $prim && v.as_ref() == &b[..w] && {
                                let back: $T = val.into();
                                back == v
                            }
                        }
                        _ => false,
                    };
                    okp && matches!(r, Ok(Ok(v)) if v == n as $prim)
                }
            }
        }};
    }
    // to_len succeeds exactly when this width is the minimal compact-size width of the value
    let tolen_ok = match (ty, want) {
        ("u16", Some(n)) => {
            let x: U16 = (n as u16).into();
            match x.to_len() {
                Ok(l) => n >= 0xFD && l.n() == n && l.consumed() == 3,
                Err(e) => n < 0xFD && e == Error::NonMinimalVarInt,
            }
        }
        ("u32", Some(n)) => {
            let x: U32 = (n as u32).into();
            match x.to_len() {
                Ok(l) => n > 0xFFFF && l.n() == n && l.consumed() == 5,
                Err(e) => n <= 0xFFFF && e == Error::NonMinimalVarInt,
            }
        }
        ("u64", Some(n)) => {
            let x: U64 = n.into();
            match x.to_len() {
                Ok(l) => n > 0xFFFF_FFFF && l.n() == n && l.consumed() == 9,
                Err(e) => n <= 0xFFFF_FFFF && e == Error::NonMinimalVarInt,
            }
        }
        _ => true,
    };
    // the wider wrappers are `Visit` types too: `visit` under a visitor, `self_visit` of the parsed wrapper and the
    // provided `len` must all describe the same `w` bytes (value, width consumed, empty remainder on re-visit)
    macro_rules! vis {
        ($T:ty) => {{
            let p = pc(|| <$T as Parse>::parse(b));
            let v = pc(|| <$T as Visit>::visit(b, &mut bitcoin_slices::EmptyVisitor {}));
            match (p, v) {
                (Ok(Ok(p)), Ok(Ok(v))) => {
                    let same = p.parsed() == v.parsed() && p.remaining().as_ptr() == v.remaining().as_ptr() && p.remaining().len() == v.remaining().len();
                    let x = p.parsed_owned();
                    let sv = pc(|| {
                        let r = Visit::self_visit(&x, &mut bitcoin_slices::EmptyVisitor {});
                        match r {
                            Ok(r) => *r.parsed() == x && r.remaining().is_empty() && r.consumed() == w,
                            Err(_) => false,
                        }
                    });
                    same && sv == Ok(true) && Visit::len(&x) == w
                }
                (Ok(Err(a)), Ok(Err(c))) => a == c,
                _ => false,
            }
        }};
    }
    let vis_ok = match ty {
        "u16" => vis!(U16),
        "u32" => vis!(U32),
        "i32" => vis!(I32),
        "u64" => vis!(U64),
        _ => true,
    };
    let ok = pc(|| tolen_ok && vis_ok && match ty {
        "u8" => chk!(U8, u8, read_u8),
        "u16" => chk!(U16, u16, read_u16),
        "u32" => chk!(U32, u32, read_u32),
        "i32" => chk!(I32, i32, read_i32),
        "u64" => chk!(U64, u64, read_u64),
        _ => true,
    })
    .unwrap_or(false);
    format!(" #ref={}", if ok { "ok" } else { "FAIL" })
}

/// C17 through the provided / overridable adaptors of `Iterator`: from an iterator advanced k times, `count`, `last`,
/// `fold`, `for_each`, `max_by_key`, `min_by_key`, `skip`, `step_by` and `len` must all speak about the outputs that
/// plain `next()` still has to yield (the `next()` sequence itself is compared with the visitor's callbacks elsewhere)
pub fn iter_adaptors(o: &bsl::TxOuts) -> String {
    let r = pc(|| {
        let key = |x: &bsl::TxOut| (x.as_ref().as_ptr() as usize, x.as_ref().len(), x.value());
        let base: Vec<(usize, usize, u64)> = {
            let mut v = vec![];
            let mut it = o.iter();
            let mut fuel = o.as_ref().len() + 2;
            while let Some(x) = it.next() {
                v.push(key(&x));
                fuel -= 1;
                if fuel == 0 {
                    return "FAIL:iterator-does-not-end".to_string();
                }
            }
            v
        };
        let n = base.len();
        for k in 0..=n.min(3) {
            let adv = || {
                let mut it = o.iter();
                for _ in 0..k {
                    it.next();
                }
                it
            };
            let rest = &base[k..];
            if adv().count() != rest.len() {
                return format!("FAIL:count-after-{}-next", k);
            }
            if adv().len() != rest.len() {
                return format!("FAIL:len-after-{}-next", k);
            }
            if adv().last().map(|x| key(&x)) != rest.last().copied() {
                return format!("FAIL:last-after-{}-next", k);
            }
            let folded = adv().fold(vec![], |mut a, x| {
                a.push(key(&x));
                a
            });
            if folded != rest {
                return format!("FAIL:fold-after-{}-next", k);
            }
            let mut fe = vec![];
            adv().for_each(|x| fe.push(key(&x)));
            if fe != rest {
                return format!("FAIL:for_each-after-{}-next", k);
            }
            if adv().max_by_key(|x| x.value()).map(|x| key(&x)) != rest.iter().max_by_key(|x| x.2).copied()
                || adv().min_by_key(|x| x.value()).map(|x| key(&x)) != rest.iter().min_by_key(|x| x.2).copied()
            {
                return format!("FAIL:max/min_by_key-after-{}-next", k);
            }
            if adv().map(|x| x.value() as u128).sum::<u128>() != rest.iter().map(|x| x.2 as u128).sum::<u128>() {
                return format!("FAIL:sum-after-{}-next", k);
            }
            if adv().skip(1).map(|x| key(&x)).collect::<Vec<_>>() != rest.iter().skip(1).copied().collect::<Vec<_>>() {
                return format!("FAIL:skip-after-{}-next", k);
            }
            if adv().step_by(2).map(|x| key(&x)).collect::<Vec<_>>() != rest.iter().step_by(2).copied().collect::<Vec<_>>()
                || adv().step_by(3).map(|x| key(&x)).collect::<Vec<_>>() != rest.iter().step_by(3).copied().collect::<Vec<_>>()
            {
                return format!("FAIL:step_by-after-{}-next", k);
            }
            if adv().enumerate().map(|(i, x)| (i, key(&x))).collect::<Vec<_>>() != rest.iter().copied().enumerate().collect::<Vec<_>>() {
                return format!("FAIL:enumerate-after-{}-next", k);
            }
        }
        "ok".to_string()
    });
    r.unwrap_or_else(|_| "FAIL:iterator-adaptor-panics".into())
}

/// a copy of `v` that can be borrowed at any lifetime; released with `unleak` once no borrow survives
fn leak(v: Vec<u8>) -> &'static mut [u8] {
    Box::leak(v.into_boxed_slice())
}
fn unleak(p: &'static mut [u8]) {
    unsafe { drop(Box::from_raw(p as *mut [u8])) }
}

// ---------------------------------------------------------------- C02 partition
pub fn part<'a, T: Ty<'a>>(b: &'a [u8], r: &Result<&ParseResult<'a, T>, Error>) -> String {
    let Ok(pr) = r else { return "na".into() };
    let v = pr.parsed().as_ref();
    let k = v.len();
    let rem = pr.remaining();
    if v.as_ptr() != b.as_ptr() {
        return "FAIL:view-not-at-input-start".into();
    }
    if k > b.len() {
        return "FAIL:view-longer-than-input".into();
    }
    if pr.consumed() != k || T::len_(pr.parsed()) != k {
        return "FAIL:consumed/len-differ".into();
    }
    if rem.as_ptr() as usize != b.as_ptr() as usize + k || rem.len() != b.len() - k {
        return "FAIL:remainder-not-b[k..]".into();
    }
    "ok".into()
}

// ---------------------------------------------------------------- C15 / C02 independence
pub fn self_consistency<'a, T: Ty<'a>>(
    b: &'a [u8],
    n: usize,
    r: &Result<&ParseResult<'a, T>, Error>,
    evs: &[String],
) -> String {
    // parse (EmptyVisitor) and visit (any non-breaking visitor) give the same result
    let p = pc(|| T::parse_(b, n));
    let same = match (&p, r) {
        (Ok(Ok(a)), Ok(b2)) => a == *b2,
        (Ok(Err(a)), Err(e)) => a == e,
        _ => false,
    };
    if !same {
        return "FAIL:parse!=visit".into();
    }
    let Ok(pr) = r else { return "ok".into() };
    let k = pr.consumed();
    // re-parsing the serialized bytes: equal object, empty remainder, same callbacks
    let view: &'a [u8] = &b[..k];
    let (o1, e1) = outcome::<T>(view, n, None);
    let bb = B::of(b);
    let want = Outcome::Ok(T::f(&bb, pr.parsed()), k);
    if o1 != want {
        return format!("FAIL:reparse-differs");
    }
    if e1 != evs {
        return "FAIL:reparse-callbacks-differ".into();
    }
    match pc(|| T::parse_(view, n)) {
        Ok(Ok(again)) => {
            if again.parsed() != pr.parsed() || !again.remaining().is_empty() {
                return "FAIL:reparse-object-or-remainder".into();
            }
        }
        _ => return "FAIL:reparse-fails".into(),
    }
    "ok".into()
}


/// C02: parsing never looks at, or depends on, bytes beyond the k consumed: the same k bytes followed by other bytes
/// (and by nothing), in other memory, give the same object, the same callbacks and leave exactly what followed
pub fn suffix_independence<'a, T: Ty<'a>>(
    b: &'a [u8],
    n: usize,
    r: &Result<&ParseResult<'a, T>, Error>,
    evs: &[String],
) -> String {
    let Ok(pr) = r else { return "na".into() };
    let k = pr.consumed();
    if k > b.len() {
        return "FAIL:consumed-beyond-input".into();
    }
    let bb = B::of(b);
    let view: &[u8] = &b[..k];
    for junk in [&[0xffu8, 0x00, 0x01, 0xfd, 0x02][..], &[][..], &[0x00; 70][..]] {
        let mut other: Vec<u8> = view.to_vec();
        other.extend_from_slice(junk);
        let other = leak(other);
        let ok = {
            let other: &'a [u8] = unsafe { &*(other as *const [u8]) };
            let ob = B::of(other);
            let mut rec = Rec::new(ob, None);
            match pc(|| T::run(other, n, &mut rec)) {
                Ok(Ok(pr2)) => {
                    pr2.consumed() == k
                        && pr2.remaining() == junk
                        && T::f(&ob, pr2.parsed()) == T::f(&bb, pr.parsed())
                        && rec.evs == evs
                        && pr2.parsed().as_ref() == view
                }
                _ => false,
            }
        };
        unleak(other);
        if !ok {
            return format!("FAIL:depends-on-suffix(len {})", junk.len());
        }
    }
    "ok".into()
}

/// C15 / C09 on the secondary entry point: the real `self_visit` of a parsed object, under the same visitor policy,
/// must behave exactly like `visit` on the object's own bytes (same result, same callbacks; a Break is reported)
pub fn self_visit_oracle<'a, T: Ty<'a>>(b: &'a [u8], n: usize, pol: Option<usize>, r: &Result<&ParseResult<'a, T>, Error>) -> String {
    // the object to self-visit comes from a plain parse of the same input
    let Ok(Ok(pr)) = pc(|| T::parse_(b, n)) else { return "na".into() };
    let _ = r;
    let k = pr.consumed();
    if k > b.len() {
        return "na".into();
    }
    let view: &'a [u8] = &b[..k];
    let vb = B::of(b);
    let obj = pr.parsed_owned();
    // `self_visit` borrows the object for the data's lifetime; the object lives until the end of this function
    let obj_ref: &'a T = unsafe { &*(&obj as *const T) };
    let mut rec = Rec::new(vb, pol);
    let sv = pc(|| T::self_visit_(obj_ref, &mut rec));
    let sv = match sv {
        Err(_) => return "FAIL:self_visit-panics".into(),
        Ok(None) => return "na".into(),
        Ok(Some(x)) => x,
    };
    let got = match &sv {
        Ok(p2) => Outcome::Ok(T::f(&vb, p2.parsed()), p2.consumed()),
        Err(e) => Outcome::Err(err_name(e)),
    };
    let got_rem_empty = sv.as_ref().map(|p2| p2.remaining().is_empty()).unwrap_or(true);
    // reference: `visit` on the object's own bytes (the same memory), same policy
    let mut rec2 = Rec::new(vb, pol);
    let want = match pc(|| T::run(view, n, &mut rec2)) {
        Err(_) => return "na".into(),
        Ok(Ok(p2)) => Outcome::Ok(T::f(&vb, p2.parsed()), p2.consumed()),
        Ok(Err(e)) => Outcome::Err(err_name(&e)),
    };
    // every failing aspect is named (result: C15 / C09; callbacks: C04 as well)
    let which = if pol.is_some() { "under-break-policy" } else { "never-breaking" };
    let mut bad: Vec<String> = vec![];
    if got != want {
        bad.push(format!("self_visit-result-differs-from-visit({})", which));
    }
    if rec.evs != rec2.evs {
        bad.push(format!("self_visit-callbacks-differ-from-visit({})", which));
    }
    if !got_rem_empty {
        bad.push("self_visit-remainder-not-empty".into());
    }
    if bad.is_empty() {
        "ok".into()
    } else {
        format!("FAIL:{}", bad.join("+"))
    }
}

// ---------------------------------------------------------------- C07 prefix / extension
/// Over the prefixes b[..j]: MoreBytesNeeded up to some j0, then one and the same final outcome for every j >= j0
/// (equal error, or equal object with equal consumed length); callbacks on a prefix are a prefix of the callbacks
/// on every longer prefix; and the final outcome survives appended bytes.
fn parse_outcome<'a, T: Ty<'a>>(b: &'a [u8], n: usize) -> Outcome {
    let bb = B::of(b);
    match pc(|| T::parse_(b, n)) {
        Err(_) => Outcome::Panic,
        Ok(Err(e)) => Outcome::Err(err_name(&e)),
        Ok(Ok(pr)) => Outcome::Ok(T::f(&bb, pr.parsed()), pr.consumed()),
    }
}

pub fn prefix_sweep<'a, T: Ty<'a>>(ctx: &Ctx, b: &'a [u8], n: usize) -> String {
    let len = b.len();
    let points: Vec<usize> = if len <= ctx.sweep_cap {
        (0..=len).collect()
    } else {
        // sampled: dense at both ends, sparse in the middle (sparser for very long inputs)
        let mut p: Vec<usize> = (0..=64).collect();
        let step = (len / if len > 200_000 { 8 } else { 48 }).max(1);
        let mut x = 64;
        while x < len {
            p.push(x);
            x += step;
        }
        for d in 0..=64 {
            p.push(len - d.min(len));
        }
        p.sort();
        p.dedup();
        p
    };
    let mut fin: Option<(Outcome, usize)> = None;
    let mut prev_evs: Vec<String> = vec![];
    // the visitor-less `parse` entry point obeys the same laws (it is a separate function for Witnesses, and a separate
    // trait method for every Visit type)
    let sweep_parse = !matches!(T::NAME, "script" | "outpoint" | "txin" | "txout") && len <= 100_000;
    let mut fin_p: Option<(Outcome, usize)> = None;
    for &j in &points {
        let view: &'a [u8] = &b[..j];
        if sweep_parse {
            let o = parse_outcome::<T>(view, n);
            match (&fin_p, &o) {
                (_, Outcome::Panic) => return format!("FAIL:parse-panic@{}", j),
                (None, Outcome::Err(e)) if e == "MoreBytesNeeded" => {}
                (None, _) => fin_p = Some((o, j)),
                (Some((f, j0)), _) => {
                    if *f != o {
                        return format!("FAIL:parse-outcome-changes@{}(final-since-{})", j, j0);
                    }
                }
            }
        }
        let (o, evs) = outcome::<T>(view, n, None);
        if evs.len() < prev_evs.len() || evs[..prev_evs.len()] != prev_evs[..] {
            return format!("FAIL:callbacks-not-prefix@{}", j);
        }
        prev_evs = evs;
        match (&fin, &o) {
            (_, Outcome::Panic) => return format!("FAIL:panic@{}", j),
            (None, Outcome::Err(e)) if e == "MoreBytesNeeded" => {}
            (None, _) => fin = Some((o, j)),
            (Some((f, j0)), _) => {
                if *f != o {
                    return format!("FAIL:outcome-changes@{}(final-since-{})", j, j0);
                }
            }
        }
    }
    // an Ok outcome must become final exactly at its consumed length
    if let Some((Outcome::Ok(_, k), j0)) = &fin {
        if len <= ctx.sweep_cap && k != j0 {
            return format!("FAIL:ok-before-or-after-consumed(k={},first={})", k, j0);
        }
    }
    if let Some((Outcome::Ok(_, k), j0)) = &fin_p {
        if len <= ctx.sweep_cap && k != j0 {
            return format!("FAIL:parse-ok-before-or-after-consumed(k={},first={})", k, j0);
        }
    }
    // extension with other bytes, in other memory
    if let Some((f, _)) = &fin_p {
        let mut ext = b.to_vec();
        ext.extend_from_slice(&[0xff, 0x00, 0x01]);
        let ext = leak(ext);
        let o = {
            let ext: &'a [u8] = unsafe { &*(ext as *const [u8]) };
            parse_outcome::<T>(ext, n)
        };
        unleak(ext);
        if o != *f {
            return "FAIL:parse-extension-changes-outcome".into();
        }
    }
    if let Some((f, _)) = &fin {
        for suffix in [&[0x00u8][..], &[0xff, 0xff, 0xff][..], &[0x01, 0x00, 0xfd, 0x00, 0x00, 0x07][..]] {
            let mut ext = b.to_vec();
            ext.extend_from_slice(suffix);
            let ext = leak(ext);
            let o = {
                let ext: &'a [u8] = unsafe { &*(ext as *const [u8]) };
                outcome::<T>(ext, n, None).0
            };
            unleak(ext);
            if o != *f {
                return "FAIL:extension-changes-outcome".into();
            }
        }
    }
    "ok".into()
}

// ---------------------------------------------------------------- C09 break
pub fn break_oracle<'a, T: Ty<'a>>(b: &'a [u8], n: usize, k: usize, r: &Result<(), Error>, evs: &[String]) -> String {
    let (o_full, evs_full) = outcome::<T>(b, n, None);
    // index of the k-th breakable callback in the never-breaking run
    let breakable = |e: &str| e.starts_with("hdr(") || e.starts_with("tx(") || e.starts_with("in(") || e.starts_with("out(") || e.starts_with("w(");
    let mut seen = 0;
    let mut at: Option<usize> = None;
    for (i, e) in evs_full.iter().enumerate() {
        if breakable(e) {
            if seen == k {
                at = Some(i);
                break;
            }
            seen += 1;
        }
    }
    match at {
        Some(i) => {
            if *r != Err(Error::VisitBreak) {
                return "FAIL:no-VisitBreak".into();
            }
            if evs != &evs_full[..=i] {
                return "FAIL:callbacks-after-break-or-differ".into();
            }
        }
        None => {
            // never reached: identical to the never-breaking run
            let same = match (&o_full, r) {
                (Outcome::Ok(..), Ok(())) => true,
                (Outcome::Err(e), Err(e2)) => *e == err_name(e2),
                _ => false,
            };
            if !same || evs != &evs_full[..] {
                return "FAIL:unreached-break-changes-run".into();
            }
            if *r == Err(Error::VisitBreak) {
                return "FAIL:VisitBreak-without-break".into();
            }
        }
    }
    "ok".into()
}

// ---------------------------------------------------------------- rust-bitcoin (C03, C04, C10, C16, C19)
fn vi_len(n: u64) -> usize {
    match n {
        0..=0xFC => 1,
        0xFD..=0xFFFF => 3,
        0x10000..=0xFFFFFFFF => 5,
        _ => 9,
    }
}
fn rb_err_class(e: &encode::Error) -> &'static str {
    match e {
        encode::Error::Io(_) => "MoreBytesNeeded",
        encode::Error::NonMinimalVarInt => "NonMinimalVarInt",
        encode::Error::ParseFailed(s) if s.contains("witness flag set") => "SegwitFlagWithoutWitnesses",
        encode::Error::UnsupportedSegwitFlag(_) => "UnknownSegwitFlag",
        encode::Error::OversizedVectorAllocation { .. } => "Oversized",
        _ => "other",
    }
}
fn our_err_class(e: &Error) -> &'static str {
    match e {
        Error::MoreBytesNeeded => "MoreBytesNeeded",
        Error::NonMinimalVarInt => "NonMinimalVarInt",
        Error::SegwitFlagWithoutWitnesses => "SegwitFlagWithoutWitnesses",
        Error::UnknownSegwitFlag(_) => "UnknownSegwitFlag",
        Error::VisitBreak => "VisitBreak",
        Error::Other(_) => "Other",
    }
}

fn txin_ev(i: usize, o: usize, t: &bitcoin::TxIn) -> (String, usize) {
    let sl = t.script_sig.len();
    let l = 36 + vi_len(sl as u64) + sl + 4;
    (
        format!(
            "in({};v=@{}+{},prev=(v=@{}+36,txid=@{}+32,vout={}),ss=@{}+{},seq={})",
            i,
            o,
            l,
            o,
            o,
            t.previous_output.vout,
            o + 36 + vi_len(sl as u64),
            sl,
            t.sequence.0
        ),
        l,
    )
}
fn txout_ev(i: usize, o: usize, t: &bitcoin::TxOut) -> (String, usize) {
    let sl = t.script_pubkey.len();
    let l = 8 + vi_len(sl as u64) + sl;
    (format!("out({};v=@{}+{},value={},spk=@{}+{})", i, o, l, t.value.to_sat(), o + 8 + vi_len(sl as u64), sl), l)
}
/// the callback sequence the property prescribes, rebuilt from rust-bitcoin's decoded transaction
fn tx_events(tx: &bitcoin::Transaction, base: usize) -> (Vec<String>, usize) {
    let segwit = tx.input.is_empty() || tx.input.iter().any(|i| !i.witness.is_empty());
    let mut ev = vec![];
    let mut o = base + 4;
    if segwit {
        ev.push("ins(0)".to_string());
        o += 2;
    }
    let io_start = o;
    ev.push(format!("ins({})", tx.input.len()));
    o += vi_len(tx.input.len() as u64);
    for (i, t) in tx.input.iter().enumerate() {
        let (s, l) = txin_ev(i, o, t);
        ev.push(s);
        o += l;
    }
    ev.push(format!("outs({})", tx.output.len()));
    o += vi_len(tx.output.len() as u64);
    for (i, t) in tx.output.iter().enumerate() {
        let (s, l) = txout_ev(i, o, t);
        ev.push(s);
        o += l;
    }
    let io_len = o - io_start;
    if segwit {
        for (i, t) in tx.input.iter().enumerate() {
            ev.push(format!("w({})", i));
            ev.push(format!("wt({})", t.witness.len()));
            o += vi_len(t.witness.len() as u64);
            for (j, e) in t.witness.iter().enumerate() {
                o += vi_len(e.len() as u64);
                ev.push(format!("we({};@{}+{})", j, o, e.len()));
                o += e.len();
            }
            ev.push("wend".to_string());
        }
    }
    o += 4;
    let len = o - base;
    let pre = if segwit {
        format!("@{}+4|@{}+{}|@{}+4", base, base + 6, io_len, base + len - 4)
    } else {
        format!("@{}+{}|@+0|@+0", base, len)
    };
    ev.push(format!(
        "tx(v=@{}+{},ver={},lock={},pre={},w={},txid={})",
        base,
        len,
        tx.version.0,
        tx.lock_time.to_consensus_u32(),
        pre,
        tx.weight().to_wu(),
        hex(&tx.compute_txid().to_byte_array())
    ));
    (ev, len)
}
fn header_ev(h: &bitcoin::block::Header) -> String {
    format!(
        "hdr(v=@0+80,ver={},prev=@4+32,merkle=@36+32,time={},nonce={},hash={})",
        h.version.to_consensus(),
        h.time,
        h.nonce,
        hex(&h.block_hash().to_byte_array())
    )
}
fn ev_of_line(line: &str) -> &str {
    line.rsplit_once(" ev=").map(|x| x.1).unwrap_or("")
}
fn obj_of_line(line: &str) -> &str {
    // "visit r=ok obj=(...) rem=@..+.. ev=..."
    let Some(i) = line.find(" obj=(") else { return "" };
    let rest = &line[i + 6..];
    let Some(j) = rest.rfind(") rem=") else { return "" };
    &rest[..j]
}

macro_rules! accept_reject {
    ($D:ty, $b:expr, $ours:expr) => {{
        let theirs = deserialize_partial::<$D>($b);
        match (&theirs, $ours) {
            (Ok((_, k)), Ok(k2)) if k == k2 => None,
            (Ok((_, k)), Ok(k2)) => Some(format!("FAIL:consumed {} vs rust-bitcoin {}", k2, k)),
            (Err(_), Err(_)) => None,
            (Err(e), Ok(_)) if rb_err_class(e) == "Oversized" => Some("skip:rust-bitcoin-allocation-limit".to_string()),
            (Err(e), Ok(_)) => Some(format!("FAIL:we-accept,rust-bitcoin:{}", rb_err_class(e))),
            (Ok(_), Err(e)) => Some(format!("FAIL:rust-bitcoin-accepts,we:{}", our_err_class(e))),
        }
        .map(Err)
        .unwrap_or(Ok(theirs))
    }};
}

/// returns `ok`, `skip:<why>` or `FAIL:<what>`; `ours` is the consumed length or the error of the real crate
pub fn rb(name: &str, b: &[u8], n: usize, ours: &Result<usize, Error>, line: &str) -> String {
    if b.len() >= 4_000_000 {
        return "skip:above-4MB".into();
    }
    let r: Result<(), String> = (|| {
        let errclass = |theirs: &encode::Error, ours: &Error| -> Result<(), String> {
            let t = rb_err_class(theirs);
            // a segwit transaction without witnesses that is also cut before its lock time: either answer is right.
            // "cut before its lock time" is decided on the implementation: four more bytes turn the answer into
            // SegwitFlagWithoutWitnesses
            if t == "SegwitFlagWithoutWitnesses" && our_err_class(ours) == "MoreBytesNeeded" {
                let mut ext = b.to_vec();
                ext.extend_from_slice(&[0, 0, 0, 0]);
                let again = match name {
                    "tx" => bsl::Transaction::parse(&ext).map(|_| ()),
                    _ => bsl::Block::parse(&ext).map(|_| ()),
                };
                return if again == Err(Error::SegwitFlagWithoutWitnesses) {
                    Err("ok:sfww-cut".into())
                } else {
                    Err("FAIL:error-class we:MoreBytesNeeded rust-bitcoin:SegwitFlagWithoutWitnesses (input not cut before the lock time)".into())
                };
            }
            if t == "Oversized" || t == "other" || t == our_err_class(ours) {
                Ok(())
            } else {
                Err(format!("FAIL:error-class we:{} rust-bitcoin:{}", our_err_class(ours), t))
            }
        };
        match name {
            "script" => {
                let t = accept_reject!(bitcoin::ScriptBuf, b, ours)?;
                match (t, ours) {
                    (Ok((s, _)), Ok(_)) => {
                        let p = bsl::Script::parse(b).unwrap().parsed_owned();
                        if p.script() != s.as_bytes() {
                            return Err("FAIL:script-bytes".into());
                        }
                    }
                    (Err(e), Err(o)) => errclass(&e, o)?,
                    _ => {}
                }
            }
            "outpoint" => {
                let t = accept_reject!(bitcoin::OutPoint, b, ours)?;
                if let (Ok((o, _)), Ok(_)) = (t, ours) {
                    let p = bsl::OutPoint::parse(b).unwrap().parsed_owned();
                    let mut bad: Vec<&str> = vec![];
                    if p.txid() != &o.txid.to_byte_array()[..] || p.vout() != o.vout {
                        bad.push("outpoint-fields");
                    }
                    let a0 = crate::allocs();
                    let conv: bitcoin::OutPoint = (&p).into();
                    let conv_allocs = crate::allocs() - a0;
                    let conv2: bitcoin::OutPoint = p.clone().into();
                    if conv != o || conv2 != o || serialize(&conv) != p.as_ref() {
                        bad.push("outpoint-conversion");
                    }
                    // 36 bytes copied into a value without heap parts: nothing to allocate (C05)
                    if conv_allocs != 0 {
                        bad.push("outpoint-conversion-allocates");
                    }
                    if !bad.is_empty() {
                        return Err(format!("FAIL:{}", bad.join("+")));
                    }
                }
            }
            "txin" => {
                let t = accept_reject!(bitcoin::TxIn, b, ours)?;
                match (t, ours) {
                    (Ok((o, _)), Ok(_)) => {
                        let p = bsl::TxIn::parse(b).unwrap().parsed_owned();
                        if p.prevout().txid() != &o.previous_output.txid.to_byte_array()[..]
                            || p.prevout().vout() != o.previous_output.vout
                            || p.script_sig() != o.script_sig.as_bytes()
                            || p.sequence() != o.sequence.0
                        {
                            return Err("FAIL:txin-fields".into());
                        }
                        if serialize(&o) != p.as_ref() {
                            return Err("FAIL:txin-reserialize".into());
                        }
                    }
                    (Err(e), Err(o)) => errclass(&e, o)?,
                    _ => {}
                }
            }
            "txout" => {
                let t = accept_reject!(bitcoin::TxOut, b, ours)?;
                match (t, ours) {
                    (Ok((o, _)), Ok(_)) => {
                        let p = bsl::TxOut::parse(b).unwrap().parsed_owned();
                        // every failing aspect is reported (fields: C03; conversions: C19)
                        let mut bad: Vec<&str> = vec![];
                        if p.value() != o.value.to_sat() || p.script_pubkey() != o.script_pubkey.as_bytes() {
                            bad.push("txout-fields");
                        }
                        let conv: bitcoin::TxOut = (&p).into();
                        let conv2: bitcoin::TxOut = p.clone().into();
                        if conv != o || conv2 != o || serialize(&conv) != p.as_ref() {
                            bad.push("txout-conversion");
                        }
                        if p.as_bitcoin_script() != o.script_pubkey.as_script() {
                            bad.push("as_bitcoin_script");
                        }
                        if !bad.is_empty() {
                            return Err(format!("FAIL:{}", bad.join("+")));
                        }
                    }
                    (Err(e), Err(o)) => errclass(&e, o)?,
                    _ => {}
                }
            }
            "txins" => {
                let t = accept_reject!(Vec<bitcoin::TxIn>, b, ours)?;
                match (t, ours) {
                    (Ok((v, _)), Ok(_)) => {
                        let mut want = vec![format!("ins({})", v.len())];
                        let mut o = vi_len(v.len() as u64);
                        for (i, t) in v.iter().enumerate() {
                            let (s, l) = txin_ev(i, o, t);
                            want.push(s);
                            o += l;
                        }
                        if evs_s(&want) != ev_of_line(line) {
                            return Err("FAIL:txins-traversal".into());
                        }
                        let p = bsl::TxIns::parse(b).unwrap().parsed_owned();
                        if p.n() != v.len() || p.is_empty() != v.is_empty() {
                            return Err("FAIL:txins-count".into());
                        }
                    }
                    (Err(e), Err(o)) => errclass(&e, o)?,
                    _ => {}
                }
            }
            "txouts" => {
                let t = accept_reject!(Vec<bitcoin::TxOut>, b, ours)?;
                match (t, ours) {
                    (Ok((v, _)), Ok(_)) => {
                        let mut want = vec![format!("outs({})", v.len())];
                        let mut o = vi_len(v.len() as u64);
                        for (i, t) in v.iter().enumerate() {
                            let (s, l) = txout_ev(i, o, t);
                            want.push(s);
                            o += l;
                        }
                        if evs_s(&want) != ev_of_line(line) {
                            return Err("FAIL:txouts-traversal".into());
                        }
                        let p = bsl::TxOuts::parse(b).unwrap().parsed_owned();
                        if p.n() != v.len() || p.is_empty() != v.is_empty() {
                            return Err("FAIL:txouts-count".into());
                        }
                        // C17: the iterator yields the outputs the visitor saw, with exact remaining length
                        let mut it = p.iter();
                        for (i, t) in v.iter().enumerate() {
                            if it.size_hint() != (v.len() - i, Some(v.len() - i)) {
                                return Err(format!("FAIL:iterator-size_hint@{}", i));
                            }
                            let Some(x) = it.next() else { return Err("FAIL:iterator-short".into()) };
                            if x.value() != t.value.to_sat() || x.script_pubkey() != t.script_pubkey.as_bytes() {
                                return Err("FAIL:iterator-item".into());
                            }
                        }
                        if it.size_hint() != (0, Some(0)) || it.next().is_some() {
                            return Err("FAIL:iterator-end".into());
                        }
                        if (&p).into_iter().count() != v.len() {
                            return Err("FAIL:into_iter-count".into());
                        }
                        // the provided / specialised adaptors: nth(k) from a fresh iterator and after two next(); the
                        // remaining length afterwards; the length after running off the end
                        for start in [0usize, 2] {
                            for k in [0usize, 1, v.len().saturating_sub(1), v.len(), v.len() + 1, v.len() + 3] {
                                if start > v.len() {
                                    continue;
                                }
                                let r = pc(|| {
                                    let mut it = (&p).into_iter();
                                    for _ in 0..start {
                                        it.next();
                                    }
                                    let x = it.nth(k).map(|x| x.value());
                                    let after = it.size_hint();
                                    let after_none = {
                                        let mut it2 = (&p).into_iter();
                                        while it2.next().is_some() {}
                                        it2.size_hint()
                                    };
                                    (x, after, after_none)
                                });
                                let Ok((x, after, after_none)) = r else { return Err("FAIL:iterator-nth-or-len-panics".into()) };
                                let idx = start + k;
                                let want = v.get(idx).map(|t| t.value.to_sat());
                                let left = v.len().saturating_sub(idx + 1);
                                if x != want || after != (left, Some(left)) || after_none != (0, Some(0)) {
                                    return Err(format!("FAIL:iterator-nth({})-after-{}-next", k, start));
                                }
                            }
                        }
                    }
                    (Err(e), Err(o)) => errclass(&e, o)?,
                    _ => {}
                }
            }
            "witness" => {
                if let (Ok((w, k)), Ok(k2)) = (deserialize_partial::<bitcoin::Witness>(b), ours) {
                    if k != *k2 {
                        // the traversal is judged even when the consumed lengths differ (C04)
                        let mut want = vec![format!("wt({})", w.len())];
                        let mut o = vi_len(w.len() as u64);
                        for (j, e) in w.iter().enumerate() {
                            o += vi_len(e.len() as u64);
                            want.push(format!("we({};@{}+{})", j, o, e.len()));
                            o += e.len();
                        }
                        let t = if evs_s(&want) != ev_of_line(line) { "+witness-traversal" } else { "" };
                        return Err(format!("FAIL:consumed-{}-vs-rust-bitcoin-{}{}", k2, k, t));
                    }
                }
                let t = accept_reject!(bitcoin::Witness, b, ours)?;
                match (t, ours) {
                    (Ok((w, _)), Ok(_)) => {
                        let mut want = vec![format!("wt({})", w.len())];
                        let mut o = vi_len(w.len() as u64);
                        for (j, e) in w.iter().enumerate() {
                            o += vi_len(e.len() as u64);
                            want.push(format!("we({};@{}+{})", j, o, e.len()));
                            o += e.len();
                        }
                        if evs_s(&want) != ev_of_line(line) {
                            return Err("FAIL:witness-traversal".into());
                        }
                    }
                    (Err(e), Err(o)) => errclass(&e, o)?,
                    _ => {}
                }
            }
            "witnesses" => {
                // n witnesses one after the other
                let mut o = 0usize;
                let mut want: Vec<String> = vec![];
                let mut theirs_ok = true;
                let mut all_empty = true;
                for i in 0..n.min(b.len() + 1) {
                    match deserialize_partial::<bitcoin::Witness>(&b[o..]) {
                        Ok((w, k)) => {
                            want.push(format!("w({})", i));
                            want.push(format!("wt({})", w.len()));
                            let mut p = o + vi_len(w.len() as u64);
                            for (j, e) in w.iter().enumerate() {
                                p += vi_len(e.len() as u64);
                                want.push(format!("we({};@{}+{})", j, p, e.len()));
                                p += e.len();
                            }
                            want.push("wend".into());
                            if !w.is_empty() {
                                all_empty = false;
                            }
                            o += k;
                        }
                        Err(_) => {
                            theirs_ok = false;
                            break;
                        }
                    }
                }
                if n > b.len() + 1 {
                    theirs_ok = false;
                }
                match (theirs_ok, ours) {
                    (true, Ok(k)) => {
                        let trav = evs_s(&want) != ev_of_line(line);
                        if *k != o {
                            return Err(format!("FAIL:witnesses-consumed{}", if trav { "+witnesses-traversal" } else { "" }));
                        }
                        if trav {
                            return Err("FAIL:witnesses-traversal".into());
                        }
                        let p = bsl::Witnesses::parse(b, n).unwrap().parsed_owned();
                        if p.all_empty() != all_empty {
                            return Err("FAIL:all_empty".into());
                        }
                    }
                    (false, Err(_)) => {}
                    (true, Err(_)) => return Err("FAIL:rust-bitcoin-accepts".into()),
                    (false, Ok(_)) => return Err("FAIL:we-accept".into()),
                }
            }
            "tx" => {
                // both accept but consume different lengths: the derived quantities are compared all the same (the
                // bytes are a valid transaction, so its weight and txid are defined: C16, C10)
                if let (Ok((tx, k)), Ok(k2)) = (deserialize_partial::<bitcoin::Transaction>(b), ours) {
                    if k != *k2 {
                        let mut bad: Vec<String> = vec![format!("consumed-{}-vs-rust-bitcoin-{}", k2, k)];
                        {
                            // the callbacks before the final `transaction` one are the traversal of inputs / outputs /
                            // witnesses of this very transaction (C04)
                            let (want, _) = tx_events(&tx, 0);
                            let head = evs_s(&want[..want.len() - 1]);
                            if !ev_of_line(line).starts_with(head.as_str()) {
                                bad.push("tx-traversal".into());
                            }
                        }
                        let d = pc(|| {
                            let pr = bsl::Transaction::parse(b).ok()?;
                            let p = pr.parsed();
                            let id = p.txid();
                            let id: &[u8] = id.as_ref();
                            Some((p.weight() == tx.weight().to_wu(), id == &tx.compute_txid().to_byte_array()[..]))
                        });
                        match d {
                            Ok(Some((w, i))) => {
                                if !w {
                                    bad.push("tx-weight".into());
                                }
                                if !i {
                                    bad.push("txid".into());
                                }
                            }
                            Ok(None) => {}
                            Err(_) => bad.push("panic-in-accessor".into()),
                        }
                        return Err(format!("FAIL:{}", bad.join("+")));
                    }
                }
                let t = accept_reject!(bitcoin::Transaction, b, ours)?;
                match (t, ours) {
                    (Ok((tx, k)), Ok(_)) => {
                        let (want, len) = tx_events(&tx, 0);
                        if len != k {
                            return Err("FAIL:tx-length-arith".into());
                        }
                        // everything before the final `transaction` callback: the traversal of inputs/outputs/witnesses
                        let ours = ev_of_line(line);
                        let head = evs_s(&want[..want.len() - 1]);
                        let head = if want.len() > 1 { format!("{}|", head) } else { String::new() };
                        let Some(last_ours) = ours.strip_prefix(head.as_str()) else {
                            return Err("FAIL:tx-traversal-or-fields".into());
                        };
                        // the transaction callback itself, field by field
                        let last_want = want.last().unwrap();
                        let cut = |s: &str, a: &str, b: &str| -> String {
                            let i = s.find(a).map(|i| i + a.len()).unwrap_or(0);
                            let j = s[i..].find(b).map(|j| i + j).unwrap_or(s.len());
                            s[i..j].to_string()
                        };
                        let mut bad: Vec<&str> = vec![];
                        if cut(last_ours, "tx(", ",pre=") != cut(last_want, "tx(", ",pre=") {
                            bad.push("tx-fields(view/version/locktime)");
                        }
                        let obj = obj_of_line(line);
                        if cut(last_ours, ",pre=", ",w=") != cut(last_want, ",pre=", ",w=")
                            || cut(obj, ",pre=", ",w=") != cut(last_want, ",pre=", ",w=")
                        {
                            bad.push("tx-preimage");
                        }
                        if cut(last_ours, ",w=", ",txid=") != cut(last_want, ",w=", ",txid=")
                            || cut(obj, ",w=", ",txid=") != cut(last_want, ",w=", ",txid=")
                        {
                            bad.push("tx-weight");
                        }
                        if serialize(&tx) != &b[..k] {
                            bad.push("tx-reserialize");
                        }
                        // C10: txid from both backends == rust-bitcoin's
                        let want_txid = hex(&tx.compute_txid().to_byte_array());
                        if cut(obj, ",txid=", ")") != want_txid || cut(last_ours, ",txid=", ")") != want_txid {
                            bad.push("txid");
                        }
                        if !bad.is_empty() {
                            return Err(format!("FAIL:{}", bad.join("+")));
                        }
                    }
                    (Err(e), Err(o)) => errclass(&e, o)?,
                    _ => {}
                }
            }
            "header" => {
                let t = accept_reject!(bitcoin::block::Header, b, ours)?;
                if let (Ok((h, _)), Ok(_)) = (t, ours) {
                    let (w, o) = (header_ev(&h), ev_of_line(line).to_string());
                    if w != o {
                        let cutf = |s: &str| s.split(",hash=").next().unwrap_or("").to_string();
                        let cuth = |s: &str| s.split(",hash=").nth(1).unwrap_or("").to_string();
                        let mut bad: Vec<&str> = vec![];
                        if cutf(&w) != cutf(&o) {
                            bad.push("header-fields");
                        }
                        if cuth(&w) != cuth(&o) {
                            bad.push("header-hashes(in-the-callback)");
                        }
                        return Err(format!("FAIL:{}", bad.join("+")));
                    }
                    let p = bsl::BlockHeader::parse(b).unwrap().parsed_owned();
                    if p.prev_blockhash() != &h.prev_blockhash.to_byte_array()[..]
                        || p.merkle_root() != &h.merkle_root.to_byte_array()[..]
                        || AsRef::<[u8]>::as_ref(&p.block_hash()) != &h.block_hash().to_byte_array()[..]
                        || p.block_hash_sha2().as_slice() != &h.block_hash().to_byte_array()[..]
                    {
                        return Err("FAIL:header-hashes".into());
                    }
                }
            }
            "block" => {
                let t = accept_reject!(bitcoin::Block, b, ours)?;
                match (t, ours) {
                    (Ok((blk, k)), Ok(_)) => {
                        let mut want = vec![header_ev(&blk.header), format!("bb({})", blk.txdata.len())];
                        let mut o = 80 + vi_len(blk.txdata.len() as u64);
                        for tx in &blk.txdata {
                            let (e, l) = tx_events(tx, o);
                            want.extend(e);
                            o += l;
                        }
                        if o != k {
                            return Err("FAIL:block-length-arith".into());
                        }
                        if evs_s(&want) != ev_of_line(line) {
                            return Err("FAIL:block-traversal-or-fields".into());
                        }
                        let p = bsl::Block::parse(b).unwrap().parsed_owned();
                        if p.total_transactions() != blk.txdata.len()
                            || AsRef::<[u8]>::as_ref(&p.block_hash()) != &blk.block_hash().to_byte_array()[..]
                            || p.block_hash_sha2().as_slice() != &blk.block_hash().to_byte_array()[..]
                        {
                            return Err("FAIL:block-accessors".into());
                        }
                    }
                    (Err(e), Err(o)) => errclass(&e, o)?,
                    _ => {}
                }
            }
            _ => return Err("skip:no-rust-bitcoin-type".into()),
        }
        Ok(())
    })();
    match r {
        Ok(()) => "ok".into(),
        Err(s) => s,
    }
}

// ---------------------------------------------------------------- C19 FindTransaction
pub fn find_line(ctx: &Ctx, id: &[u8], b: &[u8]) -> String {
    let Ok(arr): Result<[u8; 32], _> = id.try_into() else { return "bad-op".into() };
    let txid = bitcoin::Txid::from_byte_array(arr);
    let mut v = bsl::FindTransaction::new(txid);
    let a0 = crate::allocs();
    let r = pc(|| bsl::Block::visit(b, &mut v).map(|_| ()));
    let find_allocs = crate::allocs() - a0;
    let found = v.tx_found();
    let fs = match &found {
        Some(tx) => format!("{}:{}", serialize(tx).len(), hex(&tx.compute_txid().to_byte_array())),
        None => "none".into(),
    };
    let rs = match &r {
        Err(_) => "panic".to_string(),
        Ok(Ok(())) => "ok".into(),
        Ok(Err(e)) => format!("err:{}", err_name(e)),
    };
    let mut line = format!("find r={} found={}", rs, fs);
    if ctx.oracles {
        // the first transaction of rust-bitcoin's decoding with that id (if the block decodes at all)
        let o = if b.len() >= 4_000_000 {
            "skip:above-4MB".to_string()
        } else {
            match deserialize_partial::<bitcoin::Block>(b) {
                Ok((blk, _)) => {
                    let first = blk.txdata.iter().find(|t| t.compute_txid() == txid);
                    match (first, &found, &r) {
                        (Some(t), Some(f), Ok(Err(Error::VisitBreak))) if t == f => {
                            // stops at it: count the transaction callbacks of a run that breaks there
                            "ok".to_string()
                        }
                        (None, None, Ok(Ok(()))) => "ok".into(),
                        _ => "FAIL:find-differs-from-rust-bitcoin".into(),
                    }
                }
                Err(_) => {
                    // invalid block: whatever was found must still be a transaction with that id
                    match &found {
                        Some(f) if f.compute_txid() != txid => "FAIL:found-wrong-id".into(),
                        _ => "ok".into(),
                    }
                }
            }
        };
        // the same searcher used for a second pass over the same block answers the same (a search that already
        // succeeded, then succeeds again at the same transaction)
        let o = if o == "ok" && b.len() < 200_000 {
            let again = pc(|| {
                let mut v2 = bsl::FindTransaction::new(txid);
                let r1 = bsl::Block::visit(b, &mut v2).map(|_| ());
                let r2 = bsl::Block::visit(b, &mut v2).map(|_| ());
                // ... and a block without transactions visited afterwards takes nothing away from what was found
                let mut empty = b[..80.min(b.len())].to_vec();
                empty.resize(80, 0);
                empty.push(0);
                let _ = bsl::Block::visit(&empty, &mut v2);
                (r1, r2, v2.tx_found())
            });
            match again {
                Ok((r1, r2, f2)) if Ok(r1.clone()) == r && r2 == r1 && f2 == found => o,
                _ => "FAIL:find-second-pass-with-the-same-searcher-differs".to_string(),
            }
        } else {
            o
        };
        line.push_str(&format!(" #find={}", o));
        // a search that finds nothing is a plain visit: no heap allocation (C05)
        if found.is_none() && r.is_ok() {
            line.push_str(&format!(" findalloc={}", find_allocs));
        }
    }
    line
}

// ---------------------------------------------------------------- C20 redb
pub fn redb_line(ctx: &Ctx, ty: &str, b: &[u8]) -> String {
    use bitcoin_slices::redb::{RedbKey, RedbValue};
    let bb = B::of(b);
    macro_rules! rt {
        ($T:ty, $RB:ty, $parse:expr, $f:path, $fw:expr, $table:expr) => {{
            match $parse {
                Ok(pr) => {
                    let o = pr.parsed_owned();
                    let bytes: &[u8] = <$T as RedbValue>::as_bytes(&o);
                    let a0 = crate::allocs();
                    let back = pc(|| <$T as RedbValue>::from_bytes(bytes));
                    let redb_allocs = crate::allocs() - a0;
                    let fw = <$T as RedbValue>::fixed_width();
                    let fws = match fw {
                        Some(n) => n.to_string(),
                        None => "none".into(),
                    };
                    let line = match &back {
                        Ok(x) => format!("redb r=ok obj=({}) fw={}", $f(&bb, x), fws),
                        Err(_) => format!("redb r=panic fw={}", fws),
                    };
                    if ctx.oracles {
                        let mut v = "ok".to_string();
                        if bytes.as_ptr() != o.as_ref().as_ptr() || bytes != o.as_ref() {
                            v = "FAIL:as_bytes!=as_ref".into();
                        }
                        match &back {
                            Ok(x) if *x == o => {}
                            _ => v = "FAIL:from_bytes(as_bytes(x))!=x".into(),
                        }
                        if fw != $fw {
                            v = "FAIL:fixed_width".into();
                        }
                        // "the database byte representation is exactly its serialized bytes": the serialization is
                        // what the reference decoder delimits in the input
                        if b.len() < 4_000_000 {
                            if let Ok((_, k)) = deserialize_partial::<$RB>(b) {
                                if bytes != &b[..k] {
                                    v = "FAIL:as_bytes-is-not-the-serialized-object".into();
                                }
                            }
                        }
                        if ctx.redb_real && v == "ok" {
                            let r = pc(|| {
                                use bitcoin_slices::redb::ReadableTable;
                                let f = tempfile::NamedTempFile::new().unwrap();
                                let db = bitcoin_slices::redb::Database::create(f.path()).unwrap();
                                let def: bitcoin_slices::redb::TableDefinition<u64, $T> =
                                    bitcoin_slices::redb::TableDefinition::new($table);
                                let w = db.begin_write().unwrap();
                                {
                                    let mut t = w.open_table(def).unwrap();
                                    t.insert(7u64, &o).unwrap();
                                }
                                w.commit().unwrap();
                                let r = db.begin_read().unwrap();
                                let t = r.open_table(def).unwrap();
                                let g = t.get(7u64).unwrap().unwrap();
                                let val = g.value();
                                let same: bool = val.as_ref() == o.as_ref() && val == o;
                                same
                            });
                            v = match r {
                                Ok(true) => "ok".into(),
                                Ok(false) => "FAIL:database-returns-other-value".into(),
                                Err(_) => "FAIL:database-panic".into(),
                            };
                        }
                        format!("{} #redb={} redballoc={}", line, v, if back.is_ok() { redb_allocs.to_string() } else { "panic".into() })
                    } else {
                        line
                    }
                }
                Err(_) => {
                    if ctx.oracles && deserialize_partial::<$RB>(b).map(|(_, k)| k == b.len()).unwrap_or(false) {
                        "redb r=unparsed #redb=FAIL:valid-stored-object-is-rejected(from_bytes-would-panic)".to_string()
                    } else {
                        "redb r=unparsed".to_string()
                    }
                }
            }
        }};
    }
    let _ = <bsl::OutPoint as RedbKey>::compare;
    match ty {
        "outpoint" => rt!(bsl::OutPoint, bitcoin::OutPoint, bsl::OutPoint::parse(b), fmt::outpoint_f, Some(36), "op"),
        "txout" => rt!(bsl::TxOut, bitcoin::TxOut, bsl::TxOut::parse(b), fmt::txout_f, None, "txout"),
        "txouts" => rt!(bsl::TxOuts, Vec<bitcoin::TxOut>, bsl::TxOuts::parse(b), fmt::txouts_f, None, "txouts"),
        "tx" => {
            let line = rt!(bsl::Transaction, bitcoin::Transaction, bsl::Transaction::parse(b), fmt::tx_fh, None, "tx");
            if ctx.oracles && b.len() < 4_000_000 {
                // a transaction rebuilt from its stored bytes: txid and weight against rust-bitcoin (C10, C16)
                let v = match (bsl::Transaction::parse(b), deserialize_partial::<bitcoin::Transaction>(b)) {
                    (Ok(pr), Ok((tx, _))) => {
                        let o = pr.parsed_owned();
                        match pc(|| {
                            let back = <bsl::Transaction as RedbValue>::from_bytes(<bsl::Transaction as RedbValue>::as_bytes(&o));
                            let id = back.txid();
                            let id: &[u8] = id.as_ref();
                            (id == &tx.compute_txid().to_byte_array()[..] && back.txid_sha2().as_slice() == id, back.weight() == tx.weight().to_wu())
                        }) {
                            Ok((true, true)) => "ok",
                            Ok((false, true)) => "FAIL:txid-of-rebuilt-transaction",
                            Ok((true, false)) => "FAIL:weight-of-rebuilt-transaction",
                            Ok((false, false)) => "FAIL:txid-and-weight-of-rebuilt-transaction",
                            Err(_) => "FAIL:panic",
                        }
                    }
                    _ => "na",
                };
                if line.contains(" #") {
                    format!("{} redbtx={}", line, v)
                } else {
                    format!("{} #redbtx={}", line, v)
                }
            } else {
                line
            }
        }
        _ => "bad-op".into(),
    }
}

/// `from_bytes` on stored bytes directly (output lists: only the count is re-read, so huge lists are cheap)
pub fn redbraw_line(ctx: &Ctx, b: &[u8]) -> String {
    use bitcoin_slices::redb::RedbValue;
    let bb = B::of(b);
    match pc(|| <bsl::TxOuts as RedbValue>::from_bytes(b)) {
        Ok(o) => {
            let line = format!("redbraw r=ok n={} v={}", o.n(), bb.sl(o.as_ref()));
            if ctx.oracles {
                // equal to what parsing the same bytes gives, when they parse
                let v = match bsl::TxOuts::parse(b) {
                    Ok(pr) if pr.remaining().is_empty() => {
                        if *pr.parsed() == o { "ok" } else { "FAIL:from_bytes(as_bytes(x))!=x" }
                    }
                    _ => "na",
                };
                format!("{} #redb={}", line, v)
            } else {
                line
            }
        }
        Err(_) => "redbraw r=panic".into(),
    }
}

// ---------------------------------------------------------------- cache (C06, C11, C12, C13)
pub fn cins_line(ctx: &mut Ctx, k: u64, v: &[u8]) -> String {
    let st: &mut CacheSt = &mut ctx.cache;
    if !st.keys.contains(&k) {
        st.keys.push(k);
    }
    // observations before
    let before: Vec<(u64, Option<Vec<u8>>)> = st.keys.iter().map(|x| (*x, st.cache.get(&WeakKey(*x)).map(|s| s.to_vec()))).collect();
    let len_before = st.cache.len();
    let full_before = st.cache.full();
    let layout_before = st.layout();
    let r = pc(|| st.cache.insert(WeakKey(k), &v));
    let rs = match &r {
        Err(_) => "panic".to_string(),
        Ok(Ok(n)) => format!("ok:{}", n),
        Ok(Err(e)) => match format!("{:?}", e).as_str() {
            "ValueAlreadyPresent" => "present".to_string(),
            "ValueLargerThanBuffer" => "toolarge".into(),
            x => format!("err:{}", x),
        },
    };
    let line = format!("cins r={} st={} len={} full={}", rs, st.layout(), st.cache.len(), st.cache.full());
    if !ctx.oracles {
        return line;
    }
    let st: &mut CacheSt = &mut ctx.cache;
    let mut fails: Vec<String> = vec![];
    // the reference log is kept from OBSERVATIONS (what get returns), never from the returned count, so that a
    // wrong count is reported as C13 only
    let was_retrievable = before.iter().any(|(x, g)| *x == k && g.is_some());
    let live_before = st.log.len() - st.live_from;
    let s_before: usize = st.log[st.live_from..].iter().map(|(_, x)| x.len()).sum();
    let mut inserted_ok = false;
    match &r {
        Err(_) => fails.push("C06:panic".into()),
        Ok(Err(_)) => {
            // C13: the right error, and nothing changes
            let want = if was_retrievable {
                "present"
            } else if v.len() > st.cap {
                "toolarge"
            } else {
                "none"
            };
            // when both apply either error is accepted (the property names both)
            if !(rs == want || (was_retrievable && v.len() > st.cap && rs == "toolarge")) {
                fails.push(format!("C13:error-is-{}-expected-{}", rs, want));
            }
            let after: Vec<(u64, Option<Vec<u8>>)> = st.keys.iter().map(|x| (*x, st.cache.get(&WeakKey(*x)).map(|s| s.to_vec()))).collect();
            if after != before || st.cache.len() != len_before || st.cache.full() != full_before || st.layout() != layout_before {
                fails.push("C13:failed-insert-changed-state".into());
            }
        }
        Ok(Ok(_)) => {
            if was_retrievable {
                fails.push("C13:present-key-accepted".into());
            }
            if v.len() > st.cap {
                fails.push("C13:too-long-value-accepted".into());
            }
            st.lmax = st.lmax.max(v.len());
            st.log.push((k, v.to_vec()));
            inserted_ok = true;
            // C06 read-your-write: the inserted key returns the inserted bytes immediately
            if pc(|| st.cache.get(&WeakKey(k)).map(|s| s.to_vec())) != Ok(Some(v.to_vec())) {
                fails.push(format!("C06:read-your-write-key{}", k));
            }
        }
    }
    // after every operation, over every key ever used: which log entries are live (observed)
    let n_log = st.log.len();
    let mut live: Vec<bool> = vec![false; n_log];
    let mut retrievable = 0usize;
    for key in st.keys.clone() {
        let got = pc(|| st.cache.get(&WeakKey(key)).map(|s| s.to_vec()));
        let Ok(got) = got else {
            fails.push("C06:get-panics".into());
            continue;
        };
        let latest = st.log.iter().enumerate().rev().find(|(_, (x, _))| *x == key);
        if let Some(g) = &got {
            retrievable += 1;
            match latest {
                Some((i, (_, val))) if val == g => live[i] = true,
                Some((i, _)) => {
                    live[i] = true;
                    fails.push(format!("C06:key{}-returns-other-bytes-than-its-latest-insertion", key));
                }
                None => fails.push(format!("C06:key{}-returns-bytes-but-was-never-inserted", key)),
            }
        }
        if pc(|| st.cache.contains(&WeakKey(key))) != Ok(got.is_some()) {
            fails.push("C13:contains!=get".into());
        }
    }
    // C11: the live entries are a contiguous most-recent suffix of the successful insertions
    let m = live.iter().position(|x| *x).unwrap_or(n_log);
    if let Some(j) = (m..n_log).find(|i| !live[*i]) {
        fails.push(format!("C11:entry{}-evicted-while-older-entry{}-is-retrievable", j, m));
    }
    // C11: an evicted entry stays absent (the oldest live entry never moves back)
    let prev_from = st.live_from;
    if m < prev_from {
        fails.push(format!("C11:evicted-entry{}-retrievable-again", m));
    }
    st.live_from = m;
    let live_now = n_log - m;
    if let Ok(Ok(n)) = &r {
        // C13: the count is exactly the number of previously retrievable keys made unretrievable
        let gone = (live_before + 1).saturating_sub(live_now);
        if *n != gone {
            fails.push(format!("C13:returned-count-{}-but-{}-keys-became-unretrievable", n, gone));
        }
        if gone > 0 {
            st.ever_evicted = true;
            // C12 pressure
            if !(s_before + v.len() > st.cap.saturating_sub(st.lmax.saturating_sub(1))) {
                fails.push(format!("C12:evicted-without-pressure(S={},x={},L={})", s_before, v.len(), st.lmax));
            }
        }
    } else if live_now != live_before && !inserted_ok {
        st.ever_evicted = st.ever_evicted || live_now < live_before;
    }
    if st.cache.len() != retrievable {
        fails.push(format!("C13:len={}-retrievable={}", st.cache.len(), retrievable));
    }
    if st.cache.full() != st.ever_evicted {
        fails.push(format!("C13:full={}-evicted-so-far={}", st.cache.full(), st.ever_evicted));
    }
    let s_now: usize = st.log[st.live_from..].iter().map(|(_, x)| x.len()).sum();
    if s_now > st.cap {
        fails.push("C12:total-exceeds-capacity".into());
    }
    // C12 retention: the most recent entries summing to <= cap - 2(L-1) are all live
    let budget = st.cap as i64 - 2 * (st.lmax as i64 - 1).max(0);
    let mut sum = 0i64;
    for (i, (_, val)) in st.log.iter().enumerate().rev() {
        sum += val.len() as i64;
        if sum > budget {
            break;
        }
        if i < st.live_from {
            fails.push(format!("C12:recent-entry-{}-not-retained(sum={},budget={})", i, sum, budget));
            break;
        }
    }
    // C06: ranges of distinct retrievable entries do not overlap (layout hook)
    let ranges = st.ranges().map(|x| x.2).unwrap_or_default();
    for i in 0..ranges.len() {
        for j in i + 1..ranges.len() {
            let (a, b2) = (ranges[i], ranges[j]);
            if a.0 < a.1 && b2.0 < b2.1 && a.0 < b2.1 && b2.0 < a.1 {
                fails.push("C06:ranges-overlap".into());
            }
        }
    }
    let v = if fails.is_empty() { "ok".to_string() } else { format!("FAIL:{}", fails.join(",")) };
    format!("{} #clog={}", line, v)
}

// ---------------------------------------------------------------- real data
pub fn gen_real(args: &[String]) {
    let what = args.first().map(|s| s.as_str()).unwrap_or("block");
    let block = bitcoin_test_data::blocks::mainnet_702861();
    match what {
        "block" => {
            println!("visit block n {}", hex(block));
        }
        "txs" => {
            // every transaction on its own, plus finds at several positions
            let max: usize = args.get(1).and_then(|s| s.parse().ok()).unwrap_or(usize::MAX);
            let (blk, _) = deserialize_partial::<bitcoin::Block>(block).unwrap();
            for (i, tx) in blk.txdata.iter().enumerate() {
                if i >= max {
                    break;
                }
                println!("visit tx n {}", hex(&serialize(tx)));
            }
        }
        "sub" => {
            // header + the first k transactions: small enough for the list-based model, still real data
            let (blk, _) = deserialize_partial::<bitcoin::Block>(block).unwrap();
            for k in [1usize, 7, 40] {
                let mut b = block[..80].to_vec();
                b.extend_from_slice(&serialize(&bitcoin::VarInt(k as u64)));
                for tx in &blk.txdata[..k] {
                    b.extend_from_slice(&serialize(tx));
                }
                println!("visit block n {}", hex(&b));
                println!("visit block b{} {}", 3 * k, hex(&b));
                for i in [0usize, k / 2, k - 1] {
                    println!("find {} {}", hex(&blk.txdata[i].compute_txid().to_byte_array()), hex(&b));
                }
                println!("find {} {}", hex(&[0x42u8; 32]), hex(&b));
            }
        }
        "find" => {
            let (blk, _) = deserialize_partial::<bitcoin::Block>(block).unwrap();
            for i in [0usize, 1, 17, blk.txdata.len() / 2, blk.txdata.len() - 1] {
                println!("find {} {}", hex(&blk.txdata[i].compute_txid().to_byte_array()), hex(block));
            }
            println!("find {} {}", hex(&[0x42u8; 32]), hex(block));
        }
        _ => {}
    }
}

/// inputs too large for the line protocol (thorough tier): built and checked in-process
pub fn big(args: &[String]) {
    let what = args.first().map(|s| s.as_str()).unwrap_or("");
    match what {
        // D5: a segwit transaction whose inputs+outputs take 2^32 bytes or more
        "tx4g" => {
            let script_len: u64 = 1 << 32;
            let mut b: Vec<u8> = Vec::with_capacity(script_len as usize + 200);
            b.extend_from_slice(&[2, 0, 0, 0, 0, 1, 1]);
            b.extend_from_slice(&[0x11; 32]);
            b.extend_from_slice(&[0, 0, 0, 0, 0]); // vout, empty script_sig
            b.extend_from_slice(&[0xff; 4]);
            b.push(1);
            b.extend_from_slice(&[1, 0, 0, 0, 0, 0, 0, 0]);
            b.push(0xff);
            b.extend_from_slice(&script_len.to_le_bytes());
            b.resize(b.len() + script_len as usize, 0x51);
            b.extend_from_slice(&[1, 1, 0x77]); // one witness with one element
            b.extend_from_slice(&[0, 0, 0, 0]);
            let r = pc(|| {
                let tx = bsl::Transaction::parse(&b).unwrap().parsed_owned();
                let total = b.len() as u64;
                let stripped = total - 2 - 3;
                let (x, y, z) = tx.txid_preimage();
                let pre_len = (x.len() + y.len() + z.len()) as u64;
                (tx.weight(), 3 * stripped + total, pre_len, stripped)
            });
            match r {
                Ok((w, ww, p, pp)) if w == ww && p == pp => println!("big tx4g ok weight={} preimage_len={}", w, p),
                Ok((w, ww, p, pp)) => println!("big tx4g FAIL weight={} expected={} preimage_len={} expected={}", w, ww, p, pp),
                Err(_) => println!("big tx4g FAIL panic"),
            }
        }
        // D6: FindTransaction on a block whose matching transaction is larger than 4,000,000 bytes
        "find4m" => {
            let mut tx = vec![1u8, 0, 0, 0, 1];
            tx.extend_from_slice(&[0x22; 32]);
            tx.extend_from_slice(&[0, 0, 0, 0, 0]);
            tx.extend_from_slice(&[0xff; 4]);
            tx.push(1);
            tx.extend_from_slice(&[5, 0, 0, 0, 0, 0, 0, 0]);
            tx.push(0xfe);
            tx.extend_from_slice(&4_100_000u32.to_le_bytes());
            tx.resize(tx.len() + 4_100_000, 0x6a);
            tx.extend_from_slice(&[0, 0, 0, 0]);
            let mut b = vec![0u8; 80];
            b.push(1);
            b.extend_from_slice(&tx);
            let r = pc(|| {
                let id = bsl::Transaction::parse(&tx).unwrap().parsed_owned().txid_sha2();
                let txid = bitcoin::Txid::from_slice(id.as_slice()).unwrap();
                let mut v = bsl::FindTransaction::new(txid);
                let r = bsl::Block::visit(&b, &mut v).map(|_| ());
                let f = v.tx_found();
                r == Err(Error::VisitBreak) && f.map(|t| serialize(&t) == tx).unwrap_or(false)
            });
            match r {
                Ok(true) => println!("big find4m ok"),
                Ok(false) => println!("big find4m FAIL wrong-result"),
                Err(_) => println!("big find4m FAIL panic"),
            }
        }
        // objects just above rust-bitcoin's 4,000,000-byte decoding cap: partition, fields, conversion, txid
        "obj4m" => {
            let len: usize = 4_000_100;
            let body: Vec<u8> = (0..len).map(|i| (i * 31 + 7) as u8).collect();
            let mut script = vec![0xfeu8];
            script.extend_from_slice(&(len as u32).to_le_bytes());
            script.extend_from_slice(&body);
            let mut txout = 12345u64.to_le_bytes().to_vec();
            txout.extend_from_slice(&script);
            let mut tx = vec![2u8, 0, 0, 0, 1];
            tx.extend_from_slice(&[0x33; 32]);
            tx.extend_from_slice(&[1, 0, 0, 0, 0]);
            tx.extend_from_slice(&[0xfd, 0xff, 0xff, 0xff]);
            tx.push(1);
            tx.extend_from_slice(&txout);
            tx.extend_from_slice(&[9, 0, 0, 0]);
            let mut fails: Vec<String> = vec![];
            let mut with_trailing = script.clone();
            with_trailing.extend_from_slice(&[0xaa, 0xbb]);
            match pc(|| bsl::Script::parse(&with_trailing).map(|p| (p.consumed(), p.remaining().len(), p.parsed().script().len()))) {
                Ok(Ok((k, r, l))) if k == script.len() && r == 2 && l == len => {}
                Ok(x) => fails.push(format!("script-consumed/partition:{:?}", x.map_err(|e| err_name(&e)))),
                Err(_) => fails.push("script-panic".into()),
            }
            match pc(|| {
                let p = bsl::TxOut::parse(&txout)?;
                let o = p.parsed();
                let conv: bitcoin::TxOut = o.into();
                Ok::<_, Error>((p.consumed(), o.value(), o.script_pubkey().len(), conv.value.to_sat(), conv.script_pubkey.len(), serialize(&conv) == txout))
            }) {
                Ok(Ok((k, v, l, cv, cl, same))) => {
                    if k != txout.len() || v != 12345 || l != len {
                        fails.push("txout-consumed/partition/fields".into());
                    }
                    if cv != 12345 || cl != len || !same {
                        fails.push("txout-conversion".into());
                    }
                }
                Ok(Err(e)) => fails.push(format!("txout-rejected:{}", err_name(&e))),
                Err(_) => fails.push("txout-conversion-panic".into()),
            }
            match pc(|| {
                let p = bsl::Transaction::parse(&tx)?;
                let t = p.parsed();
                let want: bitcoin::Transaction = bitcoin::consensus::deserialize(&tx).map_err(|_| Error::Other(1))?;
                let id = t.txid();
                let id: &[u8] = id.as_ref();
                Ok::<_, Error>((p.consumed(), t.weight() == want.weight().to_wu(), id == &want.compute_txid().to_byte_array()[..] && t.txid_sha2().as_slice() == id))
            }) {
                Ok(Ok((k, w, id))) => {
                    if k != tx.len() {
                        fails.push("tx-consumed/partition".into());
                    }
                    if !w {
                        fails.push("tx-weight".into());
                    }
                    if !id {
                        fails.push("txid".into());
                    }
                }
                Ok(Err(e)) => fails.push(format!("tx-rejected:{}", err_name(&e))),
                Err(_) => fails.push("tx-panic".into()),
            }
            // the database value round trip of the same objects (C20: no size is special there either)
            {
                use bitcoin_slices::redb::RedbValue;
                match pc(|| {
                    let p = bsl::Transaction::parse(&tx).ok()?;
                    let t = p.parsed();
                    let bytes = <bsl::Transaction as RedbValue>::as_bytes(t);
                    let back = <bsl::Transaction as RedbValue>::from_bytes(bytes);
                    let o = bsl::TxOut::parse(&txout).ok()?;
                    let ob = <bsl::TxOut as RedbValue>::from_bytes(<bsl::TxOut as RedbValue>::as_bytes(o.parsed()));
                    Some(back == *t && bytes == &tx[..] && ob == *o.parsed())
                }) {
                    Ok(Some(true)) => {}
                    Ok(_) => fails.push("redb-roundtrip-differs".into()),
                    Err(_) => fails.push("redb-roundtrip-panic".into()),
                }
            }
            if fails.is_empty() {
                println!("big obj4m ok");
            } else {
                println!("big obj4m FAIL {}", fails.join("+"));
            }
        }
        _ => println!("big {} unknown", what),
    }
}
