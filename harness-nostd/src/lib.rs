//! C05, compile-time half: the parsing core used from a `#![no_std]` static library with NO allocator.
//! Every parse / visit entry point and every accessor is instantiated here (with the empty visitor and with a
//! counting visitor), so their monomorphised code is in the archive; the check then looks for allocator symbols
//! in it. If the crate linked `alloc` in this configuration, rustc would refuse to build this library at all
//! ("no global memory allocator found").
#![no_std]
#![allow(deprecated)]

use bitcoin_slices::{bsl, number, Parse, Visit, Visitor};
use core::ops::ControlFlow;

#[panic_handler]
fn panic(_: &core::panic::PanicInfo) -> ! {
    loop {}
}

struct Count(u64);
impl Visitor for Count {
    fn visit_block_header(&mut self, h: &bsl::BlockHeader) -> ControlFlow<()> {
        self.0 ^= h.version() as u64 ^ h.time() as u64 ^ h.nonce() as u64 ^ h.prev_blockhash()[0] as u64 ^ h.merkle_root()[0] as u64;
        ControlFlow::Continue(())
    }
    fn visit_block_begin(&mut self, n: usize) {
        self.0 ^= n as u64;
    }
    fn visit_transaction(&mut self, tx: &bsl::Transaction) -> ControlFlow<()> {
        let (a, b, c) = tx.txid_preimage();
        self.0 ^= tx.version() as u64 ^ tx.locktime() as u64 ^ tx.weight() ^ (a.len() + b.len() + c.len()) as u64;
        ControlFlow::Continue(())
    }
    fn visit_tx_ins(&mut self, n: usize) {
        self.0 ^= n as u64;
    }
    fn visit_tx_in(&mut self, vin: usize, i: &bsl::TxIn) -> ControlFlow<()> {
        self.0 ^= vin as u64 ^ i.sequence() as u64 ^ i.prevout().vout() as u64 ^ i.prevout().txid()[0] as u64 ^ i.script_sig().len() as u64;
        ControlFlow::Continue(())
    }
    fn visit_tx_outs(&mut self, n: usize) {
        self.0 ^= n as u64;
    }
    fn visit_tx_out(&mut self, vout: usize, o: &bsl::TxOut) -> ControlFlow<()> {
        self.0 ^= vout as u64 ^ o.value() ^ o.script_pubkey().len() as u64;
        if vout == 7 {
            ControlFlow::Break(())
        } else {
            ControlFlow::Continue(())
        }
    }
    fn visit_witness(&mut self, vin: usize) -> ControlFlow<()> {
        self.0 ^= vin as u64;
        ControlFlow::Continue(())
    }
    fn visit_witness_total_element(&mut self, n: usize) {
        self.0 ^= n as u64;
    }
    fn visit_witness_element(&mut self, i: usize, e: &[u8]) {
        self.0 ^= i as u64 ^ e.len() as u64;
    }
    fn visit_witness_end(&mut self) {
        self.0 ^= 1;
    }
}

#[no_mangle]
pub extern "C" fn bs_nostd_run(ptr: *const u8, len: usize, n: usize) -> u64 {
    let b = unsafe { core::slice::from_raw_parts(ptr, len) };
    let mut v = Count(0);
    let mut x = 0u64;
    if let Ok(p) = bsl::Block::visit(b, &mut v) {
        x ^= p.consumed() as u64 ^ p.parsed().total_transactions() as u64 ^ p.parsed().header().time() as u64;
    }
    if let Ok(p) = bsl::Block::parse(b) {
        x ^= p.remaining().len() as u64;
    }
    if let Ok(p) = bsl::Transaction::visit(b, &mut v) {
        x ^= p.parsed().weight();
    }
    if let Ok(p) = bsl::BlockHeader::visit(b, &mut v) {
        x ^= p.parsed().nonce() as u64;
    }
    if let Ok(p) = bsl::TxIns::visit(b, &mut v) {
        x ^= p.parsed().n() as u64 ^ p.parsed().is_empty() as u64;
    }
    if let Ok(p) = bsl::TxOuts::visit(b, &mut v) {
        x ^= p.parsed().n() as u64 ^ p.parsed().is_empty() as u64;
        let mut it = p.parsed().iter();
        x ^= it.size_hint().0 as u64;
        for o in &mut it {
            x ^= o.value();
        }
        for o in p.parsed() {
            x ^= o.script_pubkey().len() as u64;
        }
    }
    if let Ok(p) = bsl::Witness::visit(b, &mut v) {
        x ^= p.parsed().is_empty() as u64;
    }
    if let Ok(p) = bsl::Witnesses::visit(b, n, &mut v) {
        x ^= p.parsed().all_empty() as u64;
    }
    if let Ok(p) = bsl::Witnesses::parse(b, n) {
        x ^= p.consumed() as u64;
    }
    if let Ok(p) = bsl::TxIn::parse(b) {
        x ^= p.parsed().sequence() as u64;
    }
    if let Ok(p) = bsl::TxOut::parse(b) {
        x ^= p.parsed().value();
    }
    if let Ok(p) = bsl::Script::parse(b) {
        x ^= p.parsed().script().len() as u64;
    }
    if let Ok(p) = bsl::OutPoint::parse(b) {
        x ^= p.parsed().vout() as u64;
    }
    let mut c = n;
    if let Ok(k) = bsl::scan_len(b, &mut c) {
        x ^= k ^ c as u64;
    }
    if let Ok(l) = bsl::parse_len(b) {
        x ^= l.n() ^ l.consumed() as u64 ^ l.slice_len() as u64;
    }
    if let Ok(p) = number::U64::parse(b) {
        let k: u64 = p.parsed().into();
        x ^= k;
    }
    if let Ok(p) = number::U32::parse(b) {
        let k: u32 = p.parsed().into();
        x ^= k as u64;
    }
    if let Ok(p) = number::I32::parse(b) {
        let k: i32 = p.parsed().into();
        x ^= k as u64;
    }
    if let Ok(p) = number::U16::parse(b) {
        let k: u16 = p.parsed().into();
        x ^= k as u64;
    }
    if let Ok(p) = number::U8::parse(b) {
        let k: u8 = p.parsed().into();
        x ^= k as u64;
    }
    x ^= number::read_u8(b).unwrap_or(0) as u64 ^ number::read_u16(b).unwrap_or(0) as u64 ^ number::read_u32(b).unwrap_or(0) as u64
        ^ number::read_i32(b).unwrap_or(0) as u64 ^ number::read_u64(b).unwrap_or(0);
    if let Ok(p) = bitcoin_slices::read_slice(b, n) {
        x ^= p.consumed() as u64;
    }
    x ^ v.0
}
