#!/usr/bin/env python3
"""generate single-site mutants of /repo/src (non-test code): prints JSON lines {id, file, line, col, old, new, kind}"""
import json, os, re, sys
SRC = sys.argv[1] if len(sys.argv) > 1 else "/repo/src"
files = ["bsl/len.rs", "bsl/script.rs", "bsl/out_point.rs", "bsl/tx_in.rs", "bsl/tx_ins.rs", "bsl/tx_out.rs", "bsl/tx_outs.rs",
         "bsl/witness.rs", "bsl/witnesses.rs", "bsl/transaction.rs", "bsl/block_header.rs", "bsl/block.rs", "number.rs", "slice.rs",
         "slice_cache.rs", "parse_result.rs", "visit.rs"]
REPL = [
    (r"(?<![<>=!-])<=(?!=)", ["<"], "rel"), (r"(?<![<>=!-])>=(?!=)", [">"], "rel"),
    (r"(?<![<>=!&|-])<(?![<=])", ["<="], "rel"), (r"(?<![<>=!&|-])>(?![>=])", [">="], "rel"),
    (r"==", ["!="], "eq"), (r"!=", ["=="], "eq"),
    (r"&&", ["||"], "logic"), (r"\|\|", ["&&"], "logic"),
    (r"(?<![+\w])\+(?![+=])", ["-"], "arith"), (r"(?<![-\w>])-(?![-=>])", ["+"], "arith"),
    (r"\+=", ["-=", "="], "assign"), (r"-=", ["+="], "assign"),
    (r"\bsaturating_add\b", ["wrapping_add"], "sat"), (r"\bsaturating_sub\b", ["wrapping_sub"], "sat"),
    (r"\btrue\b", ["false"], "bool"), (r"\bfalse\b", ["true"], "bool"),
    (r"ControlFlow::Break\(_\) =", ["ControlFlow::Continue(_) ="], "flow"),
    (r"ControlFlow::Break\(_\) =>", ["ControlFlow::Continue(_) =>"], "flow"),
    (r"\bu16::MAX\b", ["u8::MAX as u16"], "const"), (r"\bu32::MAX\b", ["u16::MAX as u32"], "const"),
    (r"\.is_empty\(\)", [".is_empty() == false"], "neg"),
    (r"(?<=visit_tx_in\()i(?=,)", ["0"], "index"), (r"(?<=visit_tx_out\()i(?=,)", ["0"], "index"),
    (r"(?<=visit_witness\()i(?=\))", ["0"], "index"), (r"(?<=visit_witness_element\()i(?=,)", ["0"], "index"),
    (r"\.first\(\)", [".last()"], "firstlast"),
    (r"from_le_bytes", ["from_be_bytes"], "endian"), (r"to_le_bytes", ["to_be_bytes"], "endian"),
    (r"(?<=if )!", [""], "unneg"),
    (r"\[(\w+)\.\.\]", ["[..\\1]"], "rangeswap"), (r"\[\.\.(\w+)\]", ["[\\1..]"], "rangeswap"),
    (r"\.remaining\(\)", [".parsed().as_ref()"], "remview"),
    (r"\binputs\b", ["outputs"], "swapvar"), (r"\boutputs\b", ["inputs"], "swapvar"),
    (r"\bbegin\b", ["end"], "swapvar"), (r"\.begin\(\)", [".end()"], "swapvar"), (r"\.end\(\)", [".begin()"], "swapvar"),
]
NUM = re.compile(r"(?<![\w#\"'])(0x[0-9A-Fa-f_]+|\d+)(?![\w\"'])(?!\.\d)(u8|u16|u32|u64|usize)?")
mid = 0
for f in files:
    p = os.path.join(SRC, f)
    if not os.path.exists(p):
        continue
    lines = open(p).read().split("\n")
    # stop at the test module
    end = len(lines)
    for i, l in enumerate(lines):
        if l.strip().startswith("#[cfg(test)]"):
            end = i
            break
    depth_attr = False
    for i in range(end):
        l = lines[i]
        code = l.split("//")[0]
        s = code.strip()
        if not s or s.startswith(("#", "///", "//!", "use ", "pub use", "mod ", "pub mod", "extern ")):
            continue
        # blank out string literals (keep positions) so that their contents are never mutated
        code = re.sub(r'"(?:[^"\\]|\\.)*"', lambda m: '"' + " " * (len(m.group(0)) - 2) + '"', code)
        if "type_name" in code or "TypeName" in code:
            continue
        for pat, news, kind in REPL:
            for m in re.finditer(pat, code):
                # skip generics / lifetimes / arrows / references
                ctx = code[max(0, m.start() - 2):m.end() + 2]
                if kind == "rel" and (re.search(r"[A-Za-z_>)]\s*<\s*[A-Z'&(]|<'|->|=>|<\w+>|Option<|Result<|Vec<|SResult<|ParseResult<|HashMap<|VecDeque<|Arc<|Box<|impl<|Self::|::<", code)):
                    continue
                if kind == "arith" and ("->" in ctx or "'" in ctx):
                    continue
                for new in news:
                    mid += 1
                    newtxt = m.expand(new) if "\\" in new else new
                    print(json.dumps({"id": mid, "file": f, "line": i + 1, "col": m.start(), "old": m.group(0), "new": newtxt, "kind": kind, "text": l.strip()[:120]}))
        for m in NUM.finditer(code):
            tok = m.group(1)
            try:
                v = int(tok.replace("_", ""), 0)
            except ValueError:
                continue
            if "[u8;" in code or "size_of" in code:
                continue
            for nv in ({v + 1, max(0, v - 1)} - {v}):
                new = (hex(nv) if tok.startswith("0x") else str(nv)) + (m.group(2) or "")
                mid += 1
                print(json.dumps({"id": mid, "file": f, "line": i + 1, "col": m.start(), "old": m.group(0), "new": new, "kind": "lit", "text": l.strip()[:120]}))
        # statement deletion: visitor calls and simple state updates
        if re.match(r"^(visit\.visit_\w+\(.*\);|self\.\w+ = .*;|removed \+= .*;|\*consumed \+= \d+;|consumed \+= .*;|all_empty = false;|self\.\w+ = self\.\w+\..*;)$", s):
            mid += 1
            print(json.dumps({"id": mid, "file": f, "line": i + 1, "col": 0, "old": l, "new": "", "kind": "del", "text": s[:120]}))
