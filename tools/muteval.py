#!/usr/bin/env python3
"""mutation analysis of the checks (development tool, not a registered check).

  tools/muteval.py prepare                 ops + model outputs of every quick family -> /tmp/mut/fam
  tools/muteval.py worker <i> <n>          processes mutants i, i+n, ... of /tmp/mutants.jsonl in its own copy of the
                                           repository (/tmp/mrepo-<i>) and of the harness (/tmp/mharness-<i>)
  tools/muteval.py report                  summary table

A mutant is *killed by the suite* if the unedited baseline tests fail, *not compiling* if the all-features build fails,
otherwise every property's quick families are evaluated exactly as ./check does (projection vs model, direct oracles)."""
import importlib.machinery, importlib.util, json, os, re, shutil, subprocess, sys, time

ROOT = "/verif"
sys.path.insert(0, ROOT)
loader = importlib.machinery.SourceFileLoader("chk", os.path.join(ROOT, "check"))
spec = importlib.util.spec_from_loader("chk", loader)
chk = importlib.util.module_from_spec(spec)
sys.argv = [sys.argv[0]] + sys.argv[1:]
loader.exec_module(chk)
from vlib import core  # noqa: E402

FAM_DIR = "/tmp/mut/fam"
RES_DIR = "/tmp/mut/res"
ALL_FAMS = sorted({f for fs in chk.FAMILIES.values() for f in fs if not f.startswith("big-")})
ENV = dict(os.environ, CARGO_NET_OFFLINE="true")


def sh(cmd, cwd=None, timeout=1800, env=None):
    return subprocess.run(cmd, shell=True, cwd=cwd, capture_output=True, text=True, timeout=timeout, env=env or ENV)


def prepare():
    os.makedirs(FAM_DIR, exist_ok=True)
    for fam in ALL_FAMS:
        ops, info = chk.family_ops(fam, "quick", 20260930)
        with open(f"{FAM_DIR}/{fam}.ops", "w") as f:
            f.write("\n".join(ops) + "\n")
        r = subprocess.run([core.BSMODEL], stdin=open(f"{FAM_DIR}/{fam}.ops"), capture_output=True, text=True)
        open(f"{FAM_DIR}/{fam}.model", "w").write(r.stdout)
        print(fam, len(ops), len(r.stdout.splitlines()))


def setup_worker(i):
    repo, har = f"/tmp/mrepo-{i}", f"/tmp/mharness-{i}"
    if not os.path.isdir(repo):
        sh(f"git -C /repo worktree add --detach {repo} HEAD")
    sh("git checkout -- .", cwd=repo)
    if not os.path.isdir(har):
        shutil.copytree(os.path.join(ROOT, "harness"), har, ignore=shutil.ignore_patterns("target"))
        t = open(f"{har}/Cargo.toml").read().replace('path = "/repo"', f'path = "{repo}"')
        open(f"{har}/Cargo.toml", "w").write(t)
        c = open(f"{har}/.cargo/config.toml").read().replace("/verif/build/target", f"/tmp/mtarget-{i}")
        open(f"{har}/.cargo/config.toml", "w").write(c)
    r = sh("cargo build --offline --profile verif", cwd=har)
    assert r.returncode == 0, r.stderr[-2000:]
    r = sh("cargo test --offline --lib --no-run", cwd=repo, env=dict(ENV, CARGO_TARGET_DIR=f"/tmp/mtarget-{i}-t"))
    return repo, har


def run_impl(binary, fam, timeout=400):
    ops = open(f"{FAM_DIR}/{fam}.ops").read().splitlines()
    flags = ["--sweep-cap=400"]
    try:
        r = subprocess.run([binary, "impl"] + flags, stdin=open(f"{FAM_DIR}/{fam}.ops"), capture_output=True, text=True, timeout=timeout)
        lines = r.stdout.splitlines()
        died = r.returncode != 0 or len(lines) != len(ops)
    except subprocess.TimeoutExpired as e:
        lines = (e.stdout or b"").decode(errors="replace").splitlines() if e.stdout else []
        died = True
    return ops, lines, died


def evaluate_all(impl_by_fam):
    """-> {pid: 'input' | 'noinput'} for the properties that would raise"""
    flagged = {}
    for pid, fams in chk.FAMILIES.items():
        verdict = None
        for fam in fams:
            if fam.startswith("big-") or fam not in impl_by_fam:
                continue
            ops, impl, died = impl_by_fam[fam]
            model = MODEL[fam]
            if died:
                # the implementation died / hung on some op: C01 has its failing input; others see a broken run
                verdict = "input" if pid == "C01" else (verdict or "noinput")
            for i, (op, a) in enumerate(zip(ops, impl)):
                b = model[i] if i < len(model) else ""
                if a == b:
                    continue
                core_a, sep, orcs = a.partition(" #")
                interesting = core_a != b or "FAIL" in orcs or re.search(r"alloc=(?!0\b)", orcs)
                if not interesting:
                    continue
                orc = {}
                for tok in orcs.split():
                    k, _, v = tok.partition("=")
                    orc[k] = v
                if core.oracle_fails(pid, op, orc, core_a) or (pid == "C14" and b.startswith("visit r=err:") and core_a.split()[1:2] != b.split()[1:2] and not (orc.get("sfwwcut") == "1" or orc.get("rb") == "ok:sfww-cut")):
                    verdict = "input"
                    break
                if core_a != b:
                    pa = core.proj(pid, op, core_a)
                    pb = core.proj(pid, op, b)
                    if pa != pb and "SegwitFlagWithoutWitnesses" in b and "MoreBytesNeeded" in core_a and (orc.get("rb") == "ok:sfww-cut" or orc.get("sfwwcut") == "1"):
                        pb2 = core.proj(pid, op, b.replace("err:SegwitFlagWithoutWitnesses", "err:MoreBytesNeeded"))
                        if pb2 == pa:
                            pb = pa
                    if pa != pb and not (pa is None or pb is None):
                        verdict = verdict or "noinput"
                    elif (pa is None) != (pb is None) and pid not in ("C02", "C10", "C16", "C17"):
                        verdict = verdict or "noinput"
            if verdict == "input":
                break
        if verdict:
            flagged[pid] = verdict
    return flagged


def worker(i, n):
    global MODEL
    os.makedirs(RES_DIR, exist_ok=True)
    MODEL = {fam: open(f"{FAM_DIR}/{fam}.model").read().splitlines() for fam in ALL_FAMS}
    repo, har = setup_worker(i)
    binary = f"/tmp/mtarget-{i}/verif/bsharness"
    muts = [json.loads(l) for l in open("/tmp/mutants.jsonl")]
    for m in muts[i::n]:
        out = f"{RES_DIR}/{m['id']}.json"
        if os.path.exists(out):
            continue
        t0 = time.time()
        path = f"{repo}/src/{m['file']}"
        lines = open(path).read().split("\n")
        l = lines[m["line"] - 1]
        if m["kind"] == "del":
            lines[m["line"] - 1] = ""
        else:
            assert l[m["col"]:m["col"] + len(m["old"])] == m["old"], (m, l)
            lines[m["line"] - 1] = l[:m["col"]] + m["new"] + l[m["col"] + len(m["old"]):]
        open(path, "w").write("\n".join(lines))
        res = dict(m)
        try:
            r = sh("cargo build --offline --profile verif", cwd=har, timeout=900)
            if r.returncode != 0:
                res["status"] = "nocompile"
            else:
                r = sh("cargo test --offline --lib 2>&1 | grep -E '^test result' | head -1", cwd=repo, timeout=900,
                       env=dict(ENV, CARGO_TARGET_DIR=f"/tmp/mtarget-{i}-t"))
                if "ok." not in r.stdout:
                    res["status"] = "killed-by-suite"
                else:
                    impl = {}
                    for fam in ALL_FAMS:
                        impl[fam] = run_impl(binary, fam)
                    fl = evaluate_all(impl)
                    # C19's big input and C05's no_std probe
                    r = subprocess.run([binary, "big", "find4m"], capture_output=True, text=True, timeout=300)
                    if " ok" not in r.stdout:
                        fl["C19"] = "input"
                    res["status"] = "survived-suite"
                    res["flagged"] = fl
        except Exception as e:  # noqa: BLE001
            res["status"] = "error"
            res["error"] = str(e)[:300]
        finally:
            sh(f"git checkout -- src/{m['file']}", cwd=repo)
        res["seconds"] = round(time.time() - t0, 1)
        json.dump(res, open(out, "w"))
        print(m["id"], m["file"], m["line"], m["kind"], res["status"], res.get("flagged"), res["seconds"], flush=True)


def report():
    import glob
    rs = [json.load(open(f)) for f in glob.glob(f"{RES_DIR}/*.json")]
    by = {}
    for r in rs:
        by.setdefault(r["status"], []).append(r)
    print({k: len(v) for k, v in by.items()})
    surv = by.get("survived-suite", [])
    und = [r for r in surv if not r.get("flagged")]
    print("survived the suite:", len(surv), " reported by some check:", len(surv) - len(und), " NOT reported:", len(und))
    for r in sorted(und, key=lambda r: (r["file"], r["line"])):
        print(f"  #{r['id']} {r['file']}:{r['line']} {r['kind']} {r['old']!r}->{r['new']!r} | {r['text']}")


if __name__ == "__main__":
    a = sys.argv[1]
    if a == "prepare":
        prepare()
    elif a == "worker":
        worker(int(sys.argv[2]), int(sys.argv[3]))
    else:
        report()
