#!/usr/bin/env python3
"""records the sha256 of /repo's sources (the tree the committed evidence was produced on) in tools/source.lock;
./check deepens its quick tier when the sources relevant to a property differ from this record"""
import hashlib, json, os, subprocess
files = {}
for d, _, fs in os.walk("/repo/src"):
    for f in fs:
        if f.endswith(".rs"):
            p = os.path.join(d, f)
            files[os.path.relpath(p, "/repo")] = hashlib.sha256(open(p, "rb").read()).hexdigest()[:16]
files["Cargo.toml"] = hashlib.sha256(open("/repo/Cargo.toml", "rb").read()).hexdigest()[:16]
head = subprocess.run(["git", "-C", "/repo", "rev-parse", "--short", "HEAD"], capture_output=True, text=True).stdout.strip()
json.dump({"head": head, "files": dict(sorted(files.items()))}, open(os.path.join(os.path.dirname(__file__), "source.lock"), "w"), indent=1)
print(len(files), "files at", head)
