#!/usr/bin/env python3
"""tools/seedtest.py <dir with patch.diff + demo.rs> <property ids to check ...>
 1. confirms the seeded change in a scratch worktree: baseline tests pass with it, the demo fails with it and passes without
 2. applies it to /repo, runs ./check for the given properties, reverts /repo
prints a JSON summary"""
import json, os, re, subprocess, sys, shutil, time
d = os.path.abspath(sys.argv[1]); pids = sys.argv[2:]
skip_confirm = os.environ.get("SKIP_CONFIRM") == "1"
def sh(cmd, cwd=None, timeout=3600):
    return subprocess.run(cmd, shell=True, cwd=cwd, capture_output=True, text=True, timeout=timeout, env=dict(os.environ, CARGO_NET_OFFLINE="true"))
out = {"dir": d}
demo = open(os.path.join(d, "demo.rs")).read()
m = re.search(r"cargo test[^\n`]*", demo)
democmd = m.group(0).strip() if m else 'cargo test --offline --features "slice_cache bitcoin sha2 bitcoin_hashes redb" --test demo'
if "--offline" not in democmd: democmd = democmd.replace("cargo test", "cargo test --offline")
out["democmd"] = democmd
if not skip_confirm:
    wt = f"/tmp/sv-{os.getpid()}"
    sh(f"git -C /repo worktree add --detach {wt} HEAD")
    try:
        r = sh(f"git apply {d}/patch.diff", cwd=wt); out["apply"] = r.returncode
        r = sh("cargo test --offline 2>&1 | grep -E 'test result|FAILED|error' | head", cwd=wt); out["baseline_with_patch"] = r.stdout.strip()
        os.makedirs(f"{wt}/tests", exist_ok=True); shutil.copy(f"{d}/demo.rs", f"{wt}/tests/demo.rs")
        r = sh(democmd + " 2>&1 | grep -E 'test result|panicked|error\\[' | head -5", cwd=wt); out["demo_with_patch"] = r.stdout.strip()
        sh("git checkout -- src", cwd=wt)
        r = sh(democmd + " 2>&1 | grep -E 'test result|panicked|error\\[' | head -5", cwd=wt); out["demo_without_patch"] = r.stdout.strip()
    finally:
        sh(f"git -C /repo worktree remove --force {wt}")
# against /repo
r = sh(f"git -C /repo status --short | grep -v '^??' | head"); 
if r.stdout.strip(): print("REPO DIRTY", r.stdout); sys.exit(3)
r = sh(f"git -C /repo apply {d}/patch.diff"); out["repo_apply"] = r.returncode
res = {}
try:
    for pid in pids:
        t = time.time()
        r = sh(f"./check {pid}", cwd="/verif", timeout=3600)
        lines = [l for l in r.stdout.splitlines() if l.startswith(("VIOLATION", "KNOWN", pid, "INFRA"))]
        res[pid] = {"rc": r.returncode, "out": [l[:600] for l in lines][:4], "s": round(time.time() - t, 1)}
finally:
    sh("git -C /repo checkout -- .")
out["checks"] = res
print(json.dumps(out, indent=1))
