#!/usr/bin/env python3
"""the non-test functions of /repo/src (public functions and trait-impl methods), as `file:name` keys; compared by
./check with tools/apimap.json, which says for each where it lives in the Lean model and which harness operation
exercises it. A function that appears in the source but not in the map is reported in the evidence (it is code the
model and the correspondence do not speak about); it is not by itself a violation."""
import json, os, re, sys


def surface(root="/repo"):
    out = set()
    for d, _, fs in os.walk(os.path.join(root, "src")):
        for f in sorted(fs):
            if not f.endswith(".rs"):
                continue
            p = os.path.join(d, f)
            rel = os.path.relpath(p, root)
            if rel.startswith("src/test"):
                continue
            src = open(p).read()
            cut = src.find("#[cfg(test)]")
            if cut >= 0:
                src = src[:cut]
            for m in re.finditer(r"^\s*(pub(?:\([a-z]+\))?\s+)?(?:const\s+)?fn\s+([A-Za-z_0-9]+)", src, flags=re.M):
                out.add(f"{rel}:{m.group(2)}")
    return sorted(out)


def compare(root="/repo"):
    m = json.load(open(os.path.join(os.path.dirname(os.path.abspath(__file__)), "apimap.json")))
    cur = surface(root)
    return {"functions_in_source": len(cur),
            "mapped_to_model": sum(1 for k in cur if k in m and m[k].get("lean")),
            "exercised_by_harness_only": sorted(k for k in cur if k in m and not m[k].get("lean") and m[k].get("op")),
            "outside_model_and_harness": sorted(k for k in cur if k in m and not m[k].get("lean") and not m[k].get("op")),
            "not_in_map": sorted(k for k in cur if k not in m),
            "in_map_but_gone": sorted(k for k in m if k not in cur)}


if __name__ == "__main__":
    if len(sys.argv) > 1 and sys.argv[1] == "list":
        print("\n".join(surface()))
    else:
        print(json.dumps(compare(), indent=1))
