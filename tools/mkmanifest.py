#!/usr/bin/env python3
"""(re)generate /verif/MANIFEST.json from the table below and the property theorem files that exist"""
import json, os, re, subprocess
ROOT = os.path.dirname(os.path.dirname(os.path.abspath(__file__)))
NOTE = json.load(open(os.path.join(ROOT, "tools", "levels.json")))
props = [json.loads(l) for l in open(os.path.join(ROOT, "properties.jsonl"))]
hooks_commit = subprocess.run(["git", "-C", "/repo", "log", "--format=%H", "--grep=verif hook"], capture_output=True, text=True).stdout.split()
checks, na = [], []
for p in props:
    pid = p["id"]
    n = NOTE.get(pid, {})
    path = os.path.join(ROOT, "lean", "BS", "Props", pid + ".lean")
    if not os.path.exists(path) or n.get("not_applicable"):
        na.append({"property_id": pid, "reason": n.get("not_applicable") or "property theorems not yet written (work in progress); not claimed until BS/Props/%s.lean exists" % pid})
        continue
    checks.append({
        "property_id": pid,
        "quick_cmd": f"./check {pid} --tier quick",
        "thorough_cmd": f"./check {pid} --tier thorough",
        "evidence_file": f"evidence/{pid}.json",
        "replay_cmd_template": f"./check {pid} --replay {{path}}",
        "engine": "lean4-proof+correspondence",
        "level_claimed": {"category": n.get("category", "proof"), "text": n["text"], "design_ref": n.get("design_ref", "DESIGN.md §6 " + pid)},
        "level_note": n["note"],
        "technique": n.get("technique", "Lean 4 theorems over a hand-written model + differential correspondence check (model vs real crate) + direct oracles"),
    })
m = {
    "version": 1,
    "setup_cmd": "./setup.sh",
    "hooks": {
        "guard": "--cfg bitcoin_slices_verif",
        "enable": "harness/.cargo/config.toml sets rustflags = [\"--cfg\", \"bitcoin_slices_verif\"] for the harness build (path dependency on /repo)",
        "baseline_off_cmd": "cd /repo && cargo test --workspace --no-fail-fast --offline",
        "source_commits": hooks_commit,
        "add_only": True,
    },
    "engines": [
        {"name": "lean4-proof+correspondence", "path": "lean/ harness/ check vlib/", "serves_properties": [c["property_id"] for c in checks],
         "kind_free_text": "Lean 4.33 theorems (BS/Props/<id>.lean, axioms audited per run) over a hand-written L1 model of the crate refined to an L2 specification; the model is tied to /repo by running the compiled Lean model (bsmodel) and the real crate (bsharness, rebuilt from /repo) on the same generated operations and comparing per-property projections; direct oracles on the implementation search for concrete failing inputs"}
    ],
    "checks": checks,
    "not_applicable": na,
    "notes": "See DESIGN.md. known_findings.json lists repaired defects (six 'fix:' commits in /repo).",
}
json.dump(m, open(os.path.join(ROOT, "MANIFEST.json"), "w"), indent=1)
print("claimed:", [c["property_id"] for c in checks], "not claimed:", [x["property_id"] for x in na])
