#!/usr/bin/env python3
"""assemble /verif/seeded/<name>/ from the sub-agents' outputs (/tmp/seed-Cxx/OUT/m*), my confirmations
(/tmp/confirm/*.json) and the check results (/tmp/seedres/*.json); writes seeded/README.md (table)"""
import glob, json, os, re, shutil
ROOT = "/verif/seeded"
rows = []
for d in sorted(glob.glob("/tmp/seed-C*/OUT/m*")) + sorted(glob.glob("/tmp/seed2-C*/OUT/m*")) + sorted(glob.glob("/tmp/seed3-C*/OUT/m*")) + sorted(glob.glob("/tmp/seed4-C*/OUT/m*")) + sorted(glob.glob("/tmp/seed5-C*/OUT/m*")):
    name = ("r5-" + d.replace("/tmp/seed5-", "") if d.startswith("/tmp/seed5-") else "r4-" + d.replace("/tmp/seed4-", "") if d.startswith("/tmp/seed4-") else "r3-" + d.replace("/tmp/seed3-", "") if d.startswith("/tmp/seed3-") else "r2-" + d.replace("/tmp/seed2-", "") if d.startswith("/tmp/seed2-") else d.replace("/tmp/seed-", "")).replace("/OUT/", "-")
    pid = name.replace("r2-", "").replace("r3-", "").replace("r4-", "").replace("r5-", "").split("-")[0]
    dst = os.path.join(ROOT, name)
    os.makedirs(dst, exist_ok=True)
    for f in ("patch.diff", "demo.rs", "README.md"):
        if os.path.exists(os.path.join(d, f)):
            shutil.copy(os.path.join(d, f), os.path.join(dst, f))
    conf = json.load(open(f"/tmp/confirm/{name}.json")) if os.path.exists(f"/tmp/confirm/{name}.json") else {}
    res = {}
    # latest result per property across batches (files are overwritten by later batches; keep history if present)
    for hist in sorted(glob.glob(f"/tmp/seedres/history/{name}.*.json")) + [f"/tmp/seedres/{name}.json"]:
        if os.path.exists(hist):
            try:
                for k, v in json.load(open(hist))["checks"].items():
                    res[k] = v
            except Exception:
                pass
    readme = open(os.path.join(dst, "README.md")).read() if os.path.exists(os.path.join(dst, "README.md")) else ""
    needs = ""
    m = re.search(r"(?is)(what (?:is|it) (?:needed|takes)[^\n]*\n+|needs?[^\n]*\n+|trigger[^\n]*\n+)(.{0,600})", readme)
    if m:
        needs = " ".join(m.group(2).split())[:500]
    def verdict(v):
        if v["rc"] == 0:
            return "not reported"
        return "VIOLATION, no-failing-input-found" if any("no-failing-input-found" in x for x in v["out"]) else "VIOLATION with replay input"
    meta = {
        "seed": name,
        "property_broken": pid,
        "origin": "written by a fresh sub-agent that was given only the text of the property and a scratch worktree of /repo",
        "needs_to_manifest": needs or "see README.md",
        "confirmed_by_me": {
            "how": "scratch worktree of /repo at 65a21f3: git apply patch.diff; cargo test --offline (baseline, unedited); demo.rs as tests/demo.rs with the command stated in it; git checkout -- src; demo again",
            "demo_command": conf.get("democmd"),
            "baseline_with_patch": conf.get("baseline_with_patch"),
            "demo_with_patch": conf.get("demo_with_patch"),
            "demo_without_patch": conf.get("demo_without_patch"),
        },
        "checks_run_with_patch_applied_to_repo": {k: {"verdict": verdict(v), "seconds": v["s"], "output": v["out"][:2]} for k, v in sorted(res.items())},
    }
    json.dump(meta, open(os.path.join(dst, "meta.json"), "w"), indent=1)
    rows.append((name, pid, meta))
# the six reverted fixes
WHAT = {
 "revert-D1-C06": ("055b343", "new(10); insert(1,[1;6]); insert(2,[2;6]): the value just inserted is evicted by its own insertion (two-step history, second value overlapping every older entry)"),
 "revert-D2-C06": ("63cd2b2", "new(10); insert(0,[]); insert(1,[1;5]); insert(2,[2;5]); insert(3,[3;3]): a zero-length oldest entry shields entries being overwritten (needs an empty value that is the oldest entry at a wrap)"),
 "revert-D3-C08": ("3680f45", "parse_len of a 9-byte compact size with n >= 2^64-9, then slice_len(): overflow"),
 "revert-D4-C17": ("8386f70", "any output list with >= 1 output: size_hint()/len() after next()"),
 "revert-D5-C16": ("45f79a1", "segwit transaction whose inputs+outputs take >= 2^32 bytes (4 GiB input; thorough tier only: bsharness big tx4g)"),
 "revert-D6-C19": ("48f1362", "block containing a transaction larger than 4,000,000 bytes, searched by its own txid"),
}
for d in sorted(glob.glob(os.path.join(ROOT, "revert-*"))):
    name = os.path.basename(d)
    pid = name.split("-")[-1]
    res = {}
    rp = f"/tmp/seedres/{name}.json"
    if os.path.exists(rp):
        try:
            res = json.load(open(rp))["checks"]
        except Exception:
            res = {}
    extra = {}
    for f in glob.glob(f"/tmp/seedres/{name.rsplit('-', 1)[0]}-C*.out"):
        k = f.split("-")[-1][:-4]
        t = open(f).read()
        extra[k] = {"verdict": "VIOLATION with replay input" if "VIOLATION" in t and "no-failing-input-found" not in t else ("VIOLATION, no-failing-input-found" if "VIOLATION" in t else "not reported"), "tier": "thorough", "output": [l[:300] for l in t.splitlines() if l.startswith(("VIOLATION", "C1"))][:2]}
    def verdict(v):
        if v["rc"] == 0:
            return "not reported"
        return "VIOLATION, no-failing-input-found" if any("no-failing-input-found" in x for x in v["out"]) else "VIOLATION with replay input"
    meta = {
        "seed": name, "property_broken": pid,
        "origin": f"the repaired defect put back: reverse of /repo commit {WHAT[name][0]} (not independent of my checks; kept so that the defect is known to be re-detected)",
        "needs_to_manifest": WHAT[name][1],
        "confirmed_by_me": {"how": "reproduced on the real crate before the fix (DESIGN §1); the fix commit message carries the failing input"},
        "checks_run_with_patch_applied_to_repo": dict({k: {"verdict": verdict(v), "seconds": v["s"], "output": v["out"][:2]} for k, v in sorted(res.items())}, **extra),
    }
    if res or extra or not os.path.exists(os.path.join(d, "meta.json")):
        json.dump(meta, open(os.path.join(d, "meta.json"), "w"), indent=1)
    rows.append((name, pid, json.load(open(os.path.join(d, "meta.json")))))
# behaviour-preserving rewrites (false-alarm experiment)
harmless = []
for d in sorted(glob.glob("/tmp/seed-H*/OUT/m*")):
    name = "harmless-" + d.replace("/tmp/seed-", "").replace("/OUT/", "-")
    dst = os.path.join(ROOT, name)
    os.makedirs(dst, exist_ok=True)
    for f in ("patch.diff", "README.md"):
        if os.path.exists(os.path.join(d, f)):
            shutil.copy(os.path.join(d, f), os.path.join(dst, f))
    key = name.replace("harmless-", "")
    first, final = {}, {}
    for f in sorted(glob.glob(f"/tmp/seedres/harmless1/harmless-{key}-C*.out")):
        k = f.rsplit("-", 1)[1][:-4]
        first[k] = "VIOLATION" if "VIOLATION" in open(f).read() else "ok"
    for f in sorted(glob.glob(f"/tmp/seedres/harmless-{key}-C*.out")):
        k = f.rsplit("-", 1)[1][:-4]
        final[k] = "VIOLATION" if "VIOLATION" in open(f).read() else "ok"
    meta = {"seed": name, "kind": "behaviour-preserving rewrite by a sub-agent (differentially tested against the original by its author)",
            "all_twenty_quick_checks_first_run": first,
            "alarms_on_first_run": sorted(k for k, v in first.items() if v != "ok"),
            "all_twenty_quick_checks_final_machinery": final,
            "alarms_with_final_machinery": sorted(k for k, v in final.items() if v != "ok")}
    json.dump(meta, open(os.path.join(dst, "meta.json"), "w"), indent=1)
    harmless.append((name, meta))
# the table is built from what is on disk under seeded/, so the tool can be re-run after the scratch worktrees are gone
rows = []
for mp in sorted(glob.glob(os.path.join(ROOT, "*", "meta.json"))):
    m = json.load(open(mp))
    n = os.path.basename(os.path.dirname(mp))
    if n.startswith("harmless"):
        continue
    rows.append((n, m.get("property_broken", "?"), m))
harmless = [(os.path.basename(os.path.dirname(mp)), json.load(open(mp))) for mp in sorted(glob.glob(os.path.join(ROOT, "harmless-*", "meta.json")))]
with open(os.path.join(ROOT, "README.md"), "w") as f:
    f.write("# Seeded changes\n\nEach directory holds `patch.diff` (apply with `git -C /repo apply`), the demonstration `demo.rs` and `meta.json`.\n"
            "`mN` seeds were written by fresh sub-agents that saw only the property text; `revert-D*` are the six repaired defects put back.\n"
            "Every seed compiles, passes the unedited baseline suite, fails its demonstration, and passes it when reverted (confirmed in scratch worktrees).\n\n"
            "| seed | written against | reported by (own property first) |\n|---|---|---|\n")
    for name, pid, meta in rows:
        ch = meta.get("checks_run_with_patch_applied_to_repo", {})
        def short(k):
            v = ch[k]["verdict"]
            return f"{k}: " + ("input" if "replay input" in v else "no-input" if "no-failing" in v else "—")
        order = ([pid] if pid in ch else []) + [k for k in sorted(ch) if k != pid]
        f.write(f"| {name} | {pid} | {', '.join(short(k) for k in order)} |\n")
    f.write("\n## Behaviour-preserving rewrites (false-alarm experiment)\n\n| rewrite | alarms on first run | re-run with the quick tier deepening on changed sources | final machinery |\n|---|---|---|---|\n")
    for name, meta in harmless:
        deep = meta.get('alarms_in_the_deepened_run')
        deep_s = "(first run already deepened)" if deep is None else (', '.join(deep) or 'none')
        f.write(f"| {name} | {', '.join(meta['alarms_on_first_run']) or 'none'} | {deep_s} | {', '.join(meta['alarms_with_final_machinery']) or 'none'} |\n")
    f.write("\n`input` = VIOLATION with a concrete failing input as replay; `no-input` = VIOLATION … no-failing-input-found (correspondence broken, oracles of that property pass); `—` = that check stayed green (the change does not touch that property's projection).\n")
print(len(rows), "seeds")
