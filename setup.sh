#!/bin/sh
# Build the framework from files on disk only (offline): the Lean model + theorems + driver, and the Rust harness
# against /repo's current working tree.
set -e
cd "$(dirname "$0")"
export CARGO_NET_OFFLINE=true
mkdir -p build evidence replays
[ -f harness/Cargo.lock ] || cp /repo/Cargo.lock harness/Cargo.lock
( cd lean && lake build BS BS.All bsmodel )
( cd harness && cargo build --offline --profile verif )
echo "setup ok"
