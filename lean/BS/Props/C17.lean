import BS.Lemmas.Lift
import BS.Lemmas.AccIter
/-
  C17 — the output iterator (`TxOuts::iter`, `TxOutIterator::next`, `size_hint`) yields exactly the outputs the visitor
  is shown, in order, then ends; `len()` counts down.
  Property theorems only. Helper lemmas and two helper definitions live in BS/Lemmas/AccIter.lean:
  `Acc.nexts j it` = call `next` `j` times, returning the items of the calls that answered `Some` and the iterator
  afterwards (any `Err`/panic of a call is propagated).
  No refinement hypothesis is used: what is needed about `TxOut::parse` / `scan_len` is proved directly
  (BS/Lemmas/AccOut.lean, BS/Props/C08.lean).
-/
namespace BS
open Spec

/-- Master statement. Let `decTxOuts` accept `s` (below 2^62 bytes) and return the view `o`. The visitor calls are
    `visit_tx_outs(n)` followed by `visit_tx_out(j, x_j)` for `j = 0 … n-1` (`xs = [x_0, …, x_{n-1}]`, `n = o.n`). Then
    `o.iter()` succeeds, and from that iterator
    (a) `collect` yields exactly `xs` — the very same views (same absolute offsets, bytes, values, scripts) —
        for every fuel `> n`, without error or panic;
    (b) for every `j ≤ n`, `j` calls of `next` yield `x_0 … x_{j-1}`, and afterwards `elements = n - j`;
    (c) after `n` calls the iterator sits at the end of the slice. -/
theorem C17_iter {s : Slice} {o : TxOutsV} {rem : Slice} (h : (decTxOuts s).res = .ok (o, rem)) (hs : s.len < 2 ^ 62) :
    ∃ (xs : List TxOutV) (it : IterV),
      xs.length = o.n ∧
      (decTxOuts s).trace = .txOuts o.n :: xs.mapIdx (fun j x => Event.txOut j x) ∧
      o.iter = .ok it ∧ it.outs = o ∧ it.elements = o.n ∧
      (∀ fuel, o.n < fuel → it.collect fuel = .ok xs) ∧
      (∀ j, j ≤ o.n → ∃ it', Acc.nexts j it = .ok (xs.take j, it') ∧ it'.elements = o.n - j ∧ it'.outs = o ∧
          (j = o.n → it'.offset = o.slice.len)) := by
  obtain ⟨l, hl, htr, hit, h1, h2⟩ := Acc.iter_of_dec h hs
  refine ⟨Acc.outsAt (s.base + compactWidth o.n) l, _, by rw [Acc.outsAt_length, hl], ?_, hit, rfl, rfl, h1, h2⟩
  rw [htr, Acc.evsAt_eq_mapIdx]
  simp

/-- the items: `iter()` succeeds and running the iterator to exhaustion gives exactly the outputs shown to a visitor
    (literally the same views), for every fuel `> n`; in particular no error and no panic -/
theorem C17_items {s : Slice} {o : TxOutsV} {rem : Slice} (h : (decTxOuts s).res = .ok (o, rem)) (hs : s.len < 2 ^ 62) :
    ∃ (xs : List TxOutV) (it : IterV),
      xs.length = o.n ∧
      (decTxOuts s).trace = .txOuts o.n :: xs.mapIdx (fun j x => Event.txOut j x) ∧
      o.iter = .ok it ∧ ∀ fuel, o.n < fuel → it.collect fuel = .ok xs := by
  obtain ⟨xs, it, a, b, c, _, _, d, _⟩ := C17_iter h hs
  exact ⟨xs, it, a, b, c, d⟩

/-- iteration ends: after the `n` items, `next` answers `None` and leaves the iterator unchanged (so every later call
    answers `None` too); nothing on the way panics -/
theorem C17_end {s : Slice} {o : TxOutsV} {rem : Slice} (h : (decTxOuts s).res = .ok (o, rem)) (hs : s.len < 2 ^ 62) :
    ∃ (xs : List TxOutV) (it it' : IterV),
      xs.length = o.n ∧ o.iter = .ok it ∧ Acc.nexts o.n it = .ok (xs, it') ∧ it'.next = .ok (none, it') := by
  obtain ⟨xs, it, a, _, c, _, _, _, e⟩ := C17_iter h hs
  obtain ⟨it', h1, _, h3, h4⟩ := e o.n (Nat.le_refl _)
  refine ⟨xs, it, it', a, c, ?_, ?_⟩
  · rw [h1, ← a, List.take_length]
  · apply Acc.next_end
    rw [h3, h4 rfl]; exact Nat.le_refl _

/-- `len()` / `size_hint()` count down: after `j ≤ n` calls of `next` they say `n - j` -/
theorem C17_len {s : Slice} {o : TxOutsV} {rem : Slice} (h : (decTxOuts s).res = .ok (o, rem)) (hs : s.len < 2 ^ 62) :
    ∃ (it : IterV), o.iter = .ok it ∧ it.sizeHint = (o.n, some o.n) ∧
      ∀ j, j ≤ o.n → ∃ l it', Acc.nexts j it = .ok (l, it') ∧ l.length = j ∧
        it'.sizeHint = (o.n - j, some (o.n - j)) := by
  obtain ⟨xs, it, a, _, c, _, d, _, e⟩ := C17_iter h hs
  refine ⟨it, c, by simp [IterV.sizeHint, d], ?_⟩
  intro j hj
  obtain ⟨it', h1, h2, _, _⟩ := e j hj
  exact ⟨xs.take j, it', h1, by simp [a, hj], by simp [IterV.sizeHint, h2]⟩

/-! the historical defect (before commit 8386f70 `next` never decremented `elements`) on the two-output list
    `Acc.twoOuts = 02 | 01 00.. 00 | 02 00.. 01 51` -/

/-- after one old `next` (which does yield the first output) the size hint is still 2 although one item is left … -/
theorem C17_old_len_stuck :
    TxOutsV.iter ⟨⟨0, Acc.twoOuts⟩, 2⟩ = .ok ⟨2, 1, ⟨⟨0, Acc.twoOuts⟩, 2⟩⟩ ∧
    (IterV.nextOld ⟨2, 1, ⟨⟨0, Acc.twoOuts⟩, 2⟩⟩).map' (fun r => (r.1.isSome, r.2.sizeHint)) =
      .ok (true, (2, some 2)) := by decide

/-- … whereas the repaired `next` says 1 -/
theorem C17_new_len_counts :
    (IterV.next ⟨2, 1, ⟨⟨0, Acc.twoOuts⟩, 2⟩⟩).map' (fun r => (r.1.isSome, r.2.sizeHint)) =
      .ok (true, (1, some 1)) := by decide

/-- non-vacuity: that list is accepted by the decoder (followed by an unrelated byte), with this very view -/
example : (decTxOuts ⟨0, Acc.twoOuts ++ [9]⟩).res = .ok (⟨⟨0, Acc.twoOuts⟩, 2⟩, ⟨20, [9]⟩) := by decide/-! ## L1 corollaries (generated by tools/genlift.py) -/
section L1
open BS.Ref BS.Lift

/-- the iterator of every output list the model of the code returns, under every visitor -/
theorem C17_L1_iter {σ : Type} {s : Slice} (hs : s.len < 2 ^ 62) {v : Visitor σ} {st st' : σ} {o : TxOutsV} {rem : Slice}
    (h : TxOuts.visit s v st = (st', .ok (o, rem))) :
    ∃ (xs : List TxOutV) (it : IterV),
      xs.length = o.n ∧
      (decTxOuts s).trace = .txOuts o.n :: xs.mapIdx (fun j x => Event.txOut j x) ∧
      o.iter = .ok it ∧ it.outs = o ∧ it.elements = o.n ∧
      (∀ fuel, o.n < fuel → it.collect fuel = .ok xs) ∧
      (∀ j, j ≤ o.n → ∃ it', Acc.nexts j it = .ok (xs.take j, it') ∧ it'.elements = o.n - j ∧ it'.outs = o ∧
          (j = o.n → it'.offset = o.slice.len)) :=
  C17_iter (ok_of_sim (fun v st => refine_txouts s hs v st) h) hs

/-- … and what the recording visitor saw is that trace -/
theorem C17_L1_visitor_saw (s : Slice) (hs : s.len < 2 ^ 62) :
    ((TxOuts.visit s) recorder []).1.reverse = (decTxOuts s).trace := by
  rw [recorder_eq (fun v st => refine_txouts s hs v st)]; simp

end L1

end BS
