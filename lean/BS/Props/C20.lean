import BS.Lemmas.Lift
import BS.Lemmas.AccLex
import BS.Lemmas.AccIter
import BS.Lemmas.AccFrame
/-
  C20 — redb glue: `RedbKey::compare` for `OutPoint` is the lexicographic byte order, `fixed_width`, and
  `from_bytes(as_bytes(x)) = x` round trips.
  Property theorems only (helper lemmas live in BS/Lemmas/AccLex.lean, AccOut.lean, AccTx.lean, AccFrame.lean).
-/
namespace BS
open Spec

/-! ### ordering -/

/-- `compare` answers `Equal` exactly on equal byte strings -/
theorem C20_cmp_eq (a b : Bytes) : lexCmp a b = .eq ↔ a = b := Acc.lexCmp_eq

/-- antisymmetry: `a < b` iff `b > a` -/
theorem C20_cmp_antisymm (a b : Bytes) : lexCmp a b = .lt ↔ lexCmp b a = .gt := Acc.lexCmp_lt_gt

/-- stronger form of antisymmetry: swapping the arguments swaps the answer -/
theorem C20_cmp_swap (a b : Bytes) : lexCmp b a = (lexCmp a b).swap := Acc.lexCmp_swap a b

/-- transitivity -/
theorem C20_cmp_trans (a b c : Bytes) (h1 : lexCmp a b = .lt) (h2 : lexCmp b c = .lt) : lexCmp a c = .lt :=
  Acc.lexCmp_trans h1 h2

/-- totality (with `C20_cmp_eq` and `C20_cmp_antisymm`: exactly one of `a < b`, `a = b`, `b < a`) -/
theorem C20_cmp_total (a b : Bytes) : lexCmp a b = .lt ∨ lexCmp a b = .eq ∨ lexCmp a b = .gt := by
  cases lexCmp a b <;> simp

/-- `compare` is the lexicographic order: `a < b` iff `a` is a proper prefix of `b`, or at the first position where
    they differ `a` has the smaller byte -/
theorem C20_cmp_lex (a b : Bytes) :
    lexCmp a b = .lt ↔
      (∃ y t, b = a ++ y :: t) ∨
      (∃ p x y a' b', a = p ++ x :: a' ∧ b = p ++ y :: b' ∧ x < y) := Acc.lexCmp_lt_iff

/-- `fixed_width()` : 36 for `OutPoint`, `None` for `TxOut` / `TxOuts` / `Transaction` -/
theorem C20_fixed_width : Redb.fixedWidthOutPoint = some 36 ∧ Redb.fixedWidthOther = none := ⟨rfl, rfl⟩

/-! ### round trips: `from_bytes(as_bytes(x)) = x` where `as_bytes(x)` is the object's own view `x.slice` -/

/-- `OutPoint`: the view is the 36 bytes at the front (the fixed width), and re-wrapping it gives the same object -/
theorem C20_roundtrip_outpoint {s : Slice} {o : OutPointV} {rem : Slice} (h : decOutPoint s = .ok (o, rem)) :
    o.slice = ⟨s.base, s.bytes.take 36⟩ ∧ some o.slice.len = Redb.fixedWidthOutPoint ∧
    Redb.outPointFromBytes o.slice = o := by
  unfold decOutPoint at h
  obtain ⟨⟨p, r⟩, h1, h⟩ := Acc.res_bind_ok.mp h
  simp only [Res.pure_eq, Res.ok.injEq, Prod.mk.injEq] at h
  obtain ⟨e1, _⟩ := h
  subst e1
  obtain ⟨_, _, hl⟩ := Acc.takeN_ok h1
  unfold takeN at h1
  split at h1
  · cases h1
  · cases h1
    exact ⟨rfl, by simpa [Slice.len, Redb.fixedWidthOutPoint] using hl, rfl⟩

/-- `TxOut` at L2: decoding the object's own view succeeds, gives the same object and consumes the view entirely
    (stability of `decTxOut` under truncating the input to the consumed prefix) -/
theorem C20_roundtrip_txout_spec {s : Slice} {o : TxOutV} {rem : Slice} (h : decTxOut s = .ok (o, rem)) :
    decTxOut o.slice = .ok (o, ⟨o.slice.base + o.slice.len, []⟩) := by
  obtain ⟨v8, body, h8, hb, _, ho⟩ := Acc.decTxOut_ok h
  subst ho
  have := Acc.decTxOut_append s.base v8 body [] h8 hb
  rw [List.append_nil] at this
  exact this

/-- `TxOut` through the implementation: `from_bytes` (which re-parses with `TxOut::parse` and `expect`s) returns the
    same object and does not panic, for inputs below 2^62 bytes -/
theorem C20_roundtrip_txout {s : Slice} {o : TxOutV} {rem : Slice} (h : decTxOut s = .ok (o, rem))
    (hs : s.len < 2 ^ 62) : Redb.txOutFromBytes o.slice = .ok o := by
  obtain ⟨v8, body, h8, hb, c, ho⟩ := Acc.decTxOut_ok h
  subst ho
  have hl : (Acc.encItem v8 body).length < 2 ^ 63 := by
    have := c.len
    unfold Slice.len at *
    omega
  have := Acc.TxOut_parse_append s.base v8 body [] h8 hl
  rw [List.append_nil] at this
  unfold Redb.txOutFromBytes
  show (match TxOut.parse ⟨s.base, Acc.encItem v8 body⟩ with
    | .ok (o, _) => Res.ok o | .err _ => .panic .expect | .panic p => .panic p) = _
  rw [this]

/-- `TxOuts`: `from_bytes` re-reads the count from the view and returns the same object; no panic -/
theorem C20_roundtrip_txouts {s : Slice} {o : TxOutsV} {rem : Slice} (h : (decTxOuts s).res = .ok (o, rem)) :
    Redb.txOutsFromBytes o.slice = .ok o := by
  obtain ⟨l, _, hn, _, _, ho, _⟩ := Acc.decTxOuts_ok h
  unfold Redb.txOutsFromBytes
  rw [ho, C08_complete o.n 0 s.base _ hn (by omega), ← ho]

/-- `Transaction` at L2: decoding the transaction's own view succeeds, gives the same transaction and consumes the view
    entirely (the decoder never looks past the transaction) -/
theorem C20_roundtrip_tx_spec {s : Slice} {t : TxV} {rem : Slice} (h : (decTransaction s).res = .ok (t, rem)) :
    (decTransaction t.slice).res = .ok (t, ⟨t.slice.base + t.slice.len, []⟩) :=
  Acc.decTransaction_view h

/-
  Full statement wanted:
    (decTransaction s).res = .ok (t, rem) → s.len < 2^62 → Redb.txFromBytes t.slice = .ok t
  (`from_bytes` re-parses with the L1 `Transaction::parse` and `expect`s). Proved below under the hypothesis `href`,
  which is the instance at `EmptyVisitor` of the L1 = L2 refinement theorem for `Transaction.visit` (proved elsewhere,
  not in these files); everything else — in particular that the L2 decoder accepts the truncated input with the same
  result — is proved here.
-/
theorem C20_roundtrip_tx_partial
    (href : ∀ s : Slice, s.len < 2 ^ 62 →
      Transaction.visit s emptyVisitor () = (decTransaction s).run emptyVisitor ())
    {s : Slice} {t : TxV} {rem : Slice} (h : (decTransaction s).res = .ok (t, rem)) (hs : s.len < 2 ^ 62) :
    Redb.txFromBytes t.slice = .ok t := by
  obtain ⟨_, _, _, _, _, _, L⟩ := Acc.tx_layout h
  have hl : t.slice.len < 2 ^ 62 := by
    have := L.cons.len
    unfold Slice.len at *; omega
  have hp : parseOf (Transaction.visit t.slice) = .ok (t, ⟨t.slice.base + t.slice.len, []⟩) := by
    unfold parseOf
    rw [href _ hl]
    unfold D.run
    rw [Acc.replay_empty, C20_roundtrip_tx_spec h]
  unfold Redb.txFromBytes
  rw [hp]

/-! non-vacuity -/
example : decTxOut ⟨3, [5,0,0,0,0,0,0,0, 1, 0x51, 9, 9]⟩ =
    .ok (⟨⟨3, [5,0,0,0,0,0,0,0, 1, 0x51]⟩, 5, ⟨⟨11, [1, 0x51]⟩, 1⟩⟩, ⟨13, [9, 9]⟩) := by decide
example : Redb.txOutFromBytes ⟨3, [5,0,0,0,0,0,0,0, 1, 0x51]⟩ =
    .ok ⟨⟨3, [5,0,0,0,0,0,0,0, 1, 0x51]⟩, 5, ⟨⟨11, [1, 0x51]⟩, 1⟩⟩ := by decide
example : Redb.txFromBytes ⟨5, Acc.exSegwitTx⟩ = .ok ⟨⟨5, Acc.exSegwitTx⟩, some 53⟩ := by decide
example : lexCmp [1, 2] [1, 2, 0] = .lt := by decide
example : lexCmp [1, 3] [1, 2, 0] = .gt := by decide/-! ## L1 corollaries (generated by tools/genlift.py) -/
section L1
open BS.Ref BS.Lift

/-- the full statement: `from_bytes(as_bytes(t))` re-parses to the same transaction, without panic -/
theorem C20_roundtrip_tx {s : Slice} {t : TxV} {rem : Slice} (h : (decTransaction s).res = .ok (t, rem)) (hs : s.len < 2 ^ 62) :
    Redb.txFromBytes t.slice = .ok t :=
  C20_roundtrip_tx_partial (fun s hs => refine_transaction s hs emptyVisitor ()) h hs

theorem C20_L1_roundtrip_tx {σ : Type} {s : Slice} (hs : s.len < 2 ^ 62) {v : Visitor σ} {st st' : σ} {t : TxV} {rem : Slice}
    (h : Transaction.visit s v st = (st', .ok (t, rem))) : Redb.txFromBytes t.slice = .ok t :=
  C20_roundtrip_tx (ok_of_sim (fun v st => refine_transaction s hs v st) h) hs

end L1

end BS
