import BS.Lemmas.CacheSize
/-
  C12 — space accounting: the live bytes fit, nothing is evicted early, evictions only happen under pressure,
  and recent insertions are retained.
  Property theorems only (helper lemmas live in BS/Lemmas/Cache*.lean; vocabulary as in C06.lean, plus
  `sizeL L` = total number of value bytes of a log, `maxLen L` = the largest value size in a log).
  `S` = `sizeL log`, `Lmax` = `max (maxLen (successes …)) v.length` (current insertion included).
-/
namespace BS
open Cache CacheProof

variable {κ : Type} [DecidableEq κ]

/-- the live bytes never exceed the capacity -/
theorem C12_total {c : Cache κ} {L : List (κ × Bytes)} (h : Inv c L) : sizeL L ≤ c.cap := by
  obtain ⟨G, rfl, hG⟩ := h
  exact invG_size_le hG

theorem C12_total_run (cap : Nat) (ops : List (κ × Bytes)) : sizeL (runOps cap ops).log ≤ cap := by
  have := C12_total (run_inv cap ops)
  rwa [run_cap] at this

/-- no early eviction: if all the values successfully inserted so far plus the new value fit in the capacity, an
    accepted insertion evicts nothing -/
theorem C12_no_early_eviction (cap : Nat) (ops : List (κ × Bytes)) (k : κ) (v : Bytes) (c' : Cache κ) (e : Nat)
    (hi : insert (runOps cap ops).c k v = (c', .ok e))
    (hfit : sizeL (successes cap ops) + v.length ≤ cap) : e = 0 := by
  obtain ⟨hinv, hcap, hnf, hf, _⟩ := run_inv12 cap ops
  unfold successes at hfit
  obtain ⟨f1, f2, _⟩ := hinv.inv.insert_full hi
  cases hc : (runOps cap ops).c.full with
  | true => have := hf hc; omega
  | false =>
    have hfp := hnf hc
    have hw : ¬ v.length + (runOps cap ops).c.fp > (runOps cap ops).c.cap := by rw [hfp, hcap]; omega
    have h2 := (f2 hw).2
    rcases Nat.eq_zero_or_pos e with h0 | h0
    · exact h0
    · have := f1.2 (Or.inr h0)
      rw [h2, hc] at this; cases this

/-- evictions only happen under pressure: if an accepted insertion evicts something, the live bytes plus the new
    value exceed `cap - (Lmax - 1)`, and more precisely already the entry evicted LAST (the `e`-th oldest, which
    occupies storage) together with the surviving entries and the new value exceed it -/
theorem C12_pressure (cap : Nat) (ops : List (κ × Bytes)) (k : κ) (v : Bytes) (c' : Cache κ) (e : Nat)
    (hi : insert (runOps cap ops).c k v = (c', .ok e)) (he : 0 < e) :
    sizeL (runOps cap ops).log + v.length > cap - (max (maxLen (successes cap ops)) v.length - 1) ∧
    ∃ p, (runOps cap ops).log[e - 1]? = some p ∧ 1 ≤ p.2.length ∧
      p.2.length + sizeL ((runOps cap ops).log.drop e) + v.length
        > cap - (max (maxLen (successes cap ops)) v.length - 1) := by
  obtain ⟨hinv, hcap, _⟩ := run_inv12 cap ops
  unfold successes
  obtain ⟨m, rfl⟩ : ∃ m, e = m + 1 := Nat.exists_eq_succ_of_ne_zero (by omega)
  obtain ⟨p, hp1, hp2, hp3⟩ := (hinv.insert_ok hi).2 m rfl
  rw [hcap] at hp3
  have h1 := sizeL_drop_getElem? _ m p hp1
  have h2 := sizeL_drop_le (runOps cap ops).log m
  refine ⟨by omega, p, by simpa using hp1, hp2, by omega⟩

/-- strong form of retention: every suffix of the successful insertions whose sizes sum to at most
    `cap - (Lmax - 1)` is still live (it is a suffix of the live log, so each of its keys returns its value) -/
theorem C12_retention_strong (cap : Nat) (ops : List (κ × Bytes)) (m : Nat)
    (hsz : sizeL ((successes cap ops).drop m) ≤ cap - (maxLen (successes cap ops) - 1)) :
    (∃ j, (successes cap ops).drop m = (runOps cap ops).log.drop j) ∧
    ∀ k v, (k, v) ∈ (successes cap ops).drop m → get (runOps cap ops).c k = .ok (some v) := by
  obtain ⟨hinv, _, _, _, n, hn, hlog, hret⟩ := run_inv12 cap ops
  unfold successes at hsz ⊢
  have hsuf : ∃ j, (runOps cap ops).succ.drop m = (runOps cap ops).log.drop j := by
    rcases Nat.lt_or_ge m n with hlt | hge
    · exfalso
      obtain ⟨p, hp1, hp2, hp3⟩ := hret (by omega)
      have h1 := sizeL_drop_getElem? _ (n - 1) p hp1
      have e1 : n - 1 + 1 = n := by omega
      rw [e1, ← hlog] at h1
      have h2 := sizeL_drop_mono (runOps cap ops).succ (show m ≤ n - 1 by omega)
      have h3 := maxLen_ge_of_mem _ p (List.mem_of_getElem? hp1)
      omega
    · refine ⟨m - n, ?_⟩
      rw [hlog, List.drop_drop]; congr 1; omega
  refine ⟨hsuf, fun k v hm => ?_⟩
  obtain ⟨j, hj⟩ := hsuf
  rw [hinv.inv.get, logGet_of_mem_nodup k v _ hinv.inv.nodup]
  rw [hj] at hm
  exact List.mem_of_mem_drop hm

/-- retention as specified: every suffix of the successful insertions whose sizes sum to at most
    `cap - 2 * (Lmax - 1)` is contained in the live log -/
theorem C12_retention (cap : Nat) (ops : List (κ × Bytes)) (m : Nat)
    (hsz : sizeL ((successes cap ops).drop m) ≤ cap - 2 * (maxLen (successes cap ops) - 1)) :
    (∃ j, (successes cap ops).drop m = (runOps cap ops).log.drop j) ∧
    ∀ k v, (k, v) ∈ (successes cap ops).drop m → get (runOps cap ops).c k = .ok (some v) :=
  C12_retention_strong cap ops m (by omega)

/-! ### satisfiability -/

/-- capacity 10, `Lmax = 5`: after `A(3) B(3) C(5) D(1)` the third insertion has wrapped and evicted `A, B`; the live
    entries are `C, D` (6 bytes `= cap - (Lmax - 1)`), so `C12_retention_strong` applies to the suffix `C, D` -/
example :
    let ops : List (Nat × Bytes) := [(1, [1, 1, 1]), (2, [2, 2, 2]), (3, [3, 3, 3, 3, 3]), (4, [4])]
    (runOps 10 ops).results = [.ok 0, .ok 0, .ok 2, .ok 0] ∧
    (runOps 10 ops).log = [(3, [3, 3, 3, 3, 3]), (4, [4])] ∧
    sizeL ((successes 10 ops).drop 2) = 6 ∧ maxLen (successes 10 ops) = 5 := by
  decide

/-- `C12_no_early_eviction` applies: 3 + 3 + 4 ≤ 10 -/
example :
    let ops : List (Nat × Bytes) := [(1, [1, 1, 1]), (2, [2, 2, 2])]
    sizeL (successes 10 ops) + 4 ≤ 10 ∧ (insert (runOps 10 ops).c 3 [3, 3, 3, 3]).2 = .ok 0 := by
  decide

/-- `C12_pressure` applies: the third insertion evicts 2 entries -/
example :
    let ops : List (Nat × Bytes) := [(1, [1, 1, 1]), (2, [2, 2, 2])]
    (insert (runOps 10 ops).c 3 [3, 3, 3, 3, 3]).2 = .ok 2 ∧ sizeL (runOps 10 ops).log + 5 > 10 - (5 - 1) := by
  decide

end BS
