import BS.Lemmas.Lift
import BS.Lemmas.EncNest
/-
  C14 — the error an L2 decoder reports identifies the first defect in byte order.
  Property theorems only (helper lemmas live in BS/Lemmas/Enc*.lean).
-/
namespace BS
open Spec Enc

/-! ### the decoders themselves never answer `VisitBreak` or `Other` and never panic
    (`VisitBreak` only arises when a decoder run is replayed against a visitor, `Spec.replay`) -/

/- `NeverBreakOther r` : `r ≠ err VisitBreak ∧ (∀ c, r ≠ err (Other c)) ∧ ∀ p, r ≠ panic p`;
   `OnlyBasic r` : `r` is ok, `err MoreBytesNeeded` or `err NonMinimalVarInt` (BS/Lemmas/EncDefs.lean) -/

theorem C14_onlyBasic_never {α : Type} {r : Res α} (h : OnlyBasic r) : NeverBreakOther r :=
  (Clean.iff r).1 ((Basic.iff r).2 h).clean

/-- everything below a transaction can only fail with `MoreBytesNeeded` or `NonMinimalVarInt` -/
theorem C14_only_basic_compact (s : Slice) : OnlyBasic (decCompact s) := (Basic.iff _).1 (decCompact_basic s)
theorem C14_only_basic_script (s : Slice) : OnlyBasic (decScript s) := (Basic.iff _).1 (decScript_basic s)
theorem C14_only_basic_outpoint (s : Slice) : OnlyBasic (decOutPoint s) := (Basic.iff _).1 (decOutPoint_basic s)
theorem C14_only_basic_txin (s : Slice) : OnlyBasic (decTxIn s) := (Basic.iff _).1 (decTxIn_basic s)
theorem C14_only_basic_txout (s : Slice) : OnlyBasic (decTxOut s) := (Basic.iff _).1 (decTxOut_basic s)
theorem C14_only_basic_txins (s : Slice) : OnlyBasic (decTxIns s).res := (Basic.iff _).1 (decTxIns_basic s)
theorem C14_only_basic_txouts (s : Slice) : OnlyBasic (decTxOuts s).res := (Basic.iff _).1 (decTxOuts_basic s)
theorem C14_only_basic_witness (s : Slice) : OnlyBasic (decWitness s).res := (Basic.iff _).1 (decWitness_basic s)
theorem C14_only_basic_witnesses (s : Slice) (n : Nat) : OnlyBasic (decWitnesses s n).res :=
  (Basic.iff _).1 (decWitnesses_basic s n)
theorem C14_only_basic_header (s : Slice) : OnlyBasic (decHeader s).res := (Basic.iff _).1 (decHeader_basic s)

theorem C14_never_break_other_compact (s : Slice) : NeverBreakOther (decCompact s) :=
  C14_onlyBasic_never (C14_only_basic_compact s)
theorem C14_never_break_other_script (s : Slice) : NeverBreakOther (decScript s) :=
  C14_onlyBasic_never (C14_only_basic_script s)
theorem C14_never_break_other_outpoint (s : Slice) : NeverBreakOther (decOutPoint s) :=
  C14_onlyBasic_never (C14_only_basic_outpoint s)
theorem C14_never_break_other_txin (s : Slice) : NeverBreakOther (decTxIn s) :=
  C14_onlyBasic_never (C14_only_basic_txin s)
theorem C14_never_break_other_txout (s : Slice) : NeverBreakOther (decTxOut s) :=
  C14_onlyBasic_never (C14_only_basic_txout s)
theorem C14_never_break_other_txins (s : Slice) : NeverBreakOther (decTxIns s).res :=
  C14_onlyBasic_never (C14_only_basic_txins s)
theorem C14_never_break_other_txouts (s : Slice) : NeverBreakOther (decTxOuts s).res :=
  C14_onlyBasic_never (C14_only_basic_txouts s)
theorem C14_never_break_other_witness (s : Slice) : NeverBreakOther (decWitness s).res :=
  C14_onlyBasic_never (C14_only_basic_witness s)
theorem C14_never_break_other_witnesses (s : Slice) (n : Nat) : NeverBreakOther (decWitnesses s n).res :=
  C14_onlyBasic_never (C14_only_basic_witnesses s n)
theorem C14_never_break_other_header (s : Slice) : NeverBreakOther (decHeader s).res :=
  C14_onlyBasic_never (C14_only_basic_header s)
theorem C14_never_break_other_transaction (s : Slice) : NeverBreakOther (decTransaction s).res :=
  (Clean.iff _).1 (decTransaction_clean s)
theorem C14_never_break_other_block (s : Slice) : NeverBreakOther (decBlock s).res :=
  (Clean.iff _).1 (decBlock_clean s)

/-! ### compact size -/

/-- `NonMinimalVarInt` exactly when the slice begins with a wider-than-minimal compact size -/
theorem C14_nonminimal_compact (s : Slice) :
    decCompact s = .err .nonMinimalVarInt ↔ ∃ b r, NonMinimalCompact b ∧ s.bytes = b ++ r := by
  constructor
  · intro h
    rcases decCompact_eq_err h with ⟨e, _⟩ | ⟨_, c, r, hc, hs⟩
    · cases e
    · exact ⟨c, r, hc, hs⟩
  · rintro ⟨c, r, hc, hs⟩
    obtain ⟨b, bs⟩ := s
    simp only at hs
    subst hs
    exact decCompact_nonminimal b r hc

/-- `MoreBytesNeeded` exactly when the slice is empty or is a marker byte followed by fewer payload bytes than the
    marker needs (the whole slice is then shorter than the encoding it announces) -/
theorem C14_short_compact (s : Slice) :
    decCompact s = .err .moreBytesNeeded ↔
      (s.bytes = [] ∨ (∃ t, s.bytes = 0xFD :: t ∧ t.length < 2) ∨ (∃ t, s.bytes = 0xFE :: t ∧ t.length < 4) ∨
        (∃ t, s.bytes = 0xFF :: t ∧ t.length < 8)) := by
  constructor
  · intro h
    rcases decCompact_eq_err h with ⟨_, hs⟩ | ⟨e, _⟩
    · exact hs
    · cases e
  · exact decCompact_short

/-- with completeness/soundness (C03) this is the full case analysis of a compact size: ok on a minimal encoding,
    `NonMinimalVarInt` on a complete non-minimal one, `MoreBytesNeeded` on a truncated one; nothing else -/
theorem C14_compact_cases (s : Slice) :
    (∃ n rem, decCompact s = .ok (n, rem)) ∨ decCompact s = .err .nonMinimalVarInt ∨
      decCompact s = .err .moreBytesNeeded := by
  rcases C14_only_basic_compact s with ⟨⟨n, rem⟩, h⟩ | h | h
  · exact .inl ⟨n, rem, h⟩
  · exact .inr (.inr h)
  · exact .inr (.inl h)

/-! ### the segwit flag -/

/-- `UnknownSegwitFlag f` exactly when the 4 version bytes are followed by the marker `00` and a flag byte `f ≠ 01` -/
theorem C14_flag (s : Slice) (f : UInt8) :
    (decTransaction s).res = .err (.unknownSegwitFlag f) ↔
      ∃ ver r, ver.length = 4 ∧ s.bytes = ver ++ [0x00, f] ++ r ∧ f ≠ 1 := by
  constructor
  · exact decTransaction_flag_bytes
  · rintro ⟨ver, r, hv, hs, hf⟩
    obtain ⟨b, bs⟩ := s
    simp only at hs
    subst hs
    exact decTransaction_flag_of_bytes b ver f r hv hf

/-- a well-formed segwit transaction whose witnesses are all empty (and which has an input) is rejected with
    `SegwitFlagWithoutWitnesses`, whatever follows the witnesses — even nothing (the lock time is not looked at) -/
theorem C14_no_witness (b : Nat) (ver : Bytes) (ins : List TxInS) (outs : List TxOutS) (r : Bytes)
    (hv : ver.length = 4) (hne : ins ≠ []) (hni : ins.length < 2 ^ 64) (hwi : ∀ x ∈ ins, x.WF)
    (hno : outs.length < 2 ^ 64) (hwo : ∀ x ∈ outs, x.WF) :
    (decTransaction ⟨b, ver ++ [0x00, 0x01] ++ encTxIns ins ++ encTxOuts outs ++
      List.replicate ins.length 0 ++ r⟩).res = .err .segwitFlagWithoutWitnesses :=
  decTransaction_nowit_of_bytes b ver ins outs r hv hne hni hwi hno hwo

/-- and that error only arises that way -/
theorem C14_no_witness_iff (s : Slice) :
    (decTransaction s).res = .err .segwitFlagWithoutWitnesses ↔
      ∃ (ver : Bytes) (ins : List TxInS) (outs : List TxOutS) (r : Bytes), ver.length = 4 ∧ ins ≠ [] ∧
        ins.length < 2 ^ 64 ∧ (∀ x ∈ ins, x.WF) ∧ outs.length < 2 ^ 64 ∧ (∀ x ∈ outs, x.WF) ∧
        s.bytes = ver ++ [0x00, 0x01] ++ encTxIns ins ++ encTxOuts outs ++ List.replicate ins.length 0 ++ r := by
  constructor
  · exact decTransaction_nowit_bytes
  · rintro ⟨ver, ins, outs, r, hv, hne, hni, hwi, hno, hwo, hs⟩
    obtain ⟨b, bs⟩ := s
    simp only at hs
    subst hs
    exact C14_no_witness b ver ins outs r hv hne hni hwi hno hwo

/-! ### nesting inside a transaction: with everything in front of a component well formed, the component's error is
    the transaction's error (so the reported error is that of the first defect in byte order) -/

theorem C14_tx_nesting_version {s : Slice} (h : s.bytes.length < 4) :
    (decTransaction s).res = .err .moreBytesNeeded := decTransaction_short h

theorem C14_tx_nesting_inputs (b : Nat) (ver r : Bytes) (e : Error) (hv : ver.length = 4)
    (h : (decTxIns ⟨b + 4, r⟩).res = .err e) : (decTransaction ⟨b, ver ++ r⟩).res = .err e :=
  decTransaction_err_inputs b ver r e hv h

theorem C14_tx_nesting_legacy_outputs (b : Nat) (ver : Bytes) (ins : List TxInS) (r : Bytes) (e : Error)
    (hv : ver.length = 4) (hne : ins ≠ []) (hni : ins.length < 2 ^ 64) (hwi : ∀ x ∈ ins, x.WF)
    (h : (decTxOuts ⟨b + 4 + (encTxIns ins).length, r⟩).res = .err e) :
    (decTransaction ⟨b, ver ++ encTxIns ins ++ r⟩).res = .err e :=
  decTransaction_err_legacy_outputs b ver ins r e hv hne hni hwi h

theorem C14_tx_nesting_legacy_locktime (b : Nat) (ver : Bytes) (ins : List TxInS) (outs : List TxOutS)
    (r : Bytes) (hv : ver.length = 4) (hne : ins ≠ []) (hni : ins.length < 2 ^ 64) (hwi : ∀ x ∈ ins, x.WF)
    (hno : outs.length < 2 ^ 64) (hwo : ∀ x ∈ outs, x.WF) (hr : r.length < 4) :
    (decTransaction ⟨b, ver ++ encTxIns ins ++ (encTxOuts outs ++ r)⟩).res = .err .moreBytesNeeded :=
  decTransaction_err_legacy_locktime b ver ins outs r hv hne hni hwi hno hwo hr

/-- marker without a flag byte -/
theorem C14_tx_nesting_no_flag (b : Nat) (ver : Bytes) (hv : ver.length = 4) :
    (decTransaction ⟨b, ver ++ [0x00]⟩).res = .err .moreBytesNeeded :=
  decTransaction_err_no_flag b ver hv

theorem C14_tx_nesting_segwit_inputs (b : Nat) (ver r : Bytes) (e : Error) (hv : ver.length = 4)
    (h : (decTxIns ⟨b + 6, r⟩).res = .err e) : (decTransaction ⟨b, ver ++ [0x00, 0x01] ++ r⟩).res = .err e :=
  decTransaction_err_segwit_inputs b ver r e hv h

theorem C14_tx_nesting_segwit_outputs (b : Nat) (ver : Bytes) (ins : List TxInS) (r : Bytes) (e : Error)
    (hv : ver.length = 4) (hni : ins.length < 2 ^ 64) (hwi : ∀ x ∈ ins, x.WF)
    (h : (decTxOuts ⟨b + 6 + (encTxIns ins).length, r⟩).res = .err e) :
    (decTransaction ⟨b, ver ++ [0x00, 0x01] ++ (encTxIns ins ++ r)⟩).res = .err e :=
  decTransaction_err_segwit_outputs b ver ins r e hv hni hwi h

theorem C14_tx_nesting_segwit_witnesses (b : Nat) (ver : Bytes) (ins : List TxInS) (outs : List TxOutS)
    (r : Bytes) (e : Error) (hv : ver.length = 4) (hni : ins.length < 2 ^ 64) (hwi : ∀ x ∈ ins, x.WF)
    (hno : outs.length < 2 ^ 64) (hwo : ∀ x ∈ outs, x.WF)
    (h : (decWitnesses ⟨b + 6 + (encTxIns ins).length + (encTxOuts outs).length, r⟩ ins.length).res = .err e) :
    (decTransaction ⟨b, ver ++ [0x00, 0x01] ++ (encTxIns ins ++ (encTxOuts outs ++ r))⟩).res = .err e :=
  decTransaction_err_segwit_witnesses b ver ins outs r e hv hni hwi hno hwo h

theorem C14_tx_nesting_segwit_locktime (b : Nat) (ver : Bytes) (ins : List TxInS) (outs : List TxOutS)
    (ws : List (List Bytes)) (r : Bytes) (hv : ver.length = 4) (hni : ins.length < 2 ^ 64) (hwi : ∀ x ∈ ins, x.WF)
    (hno : outs.length < 2 ^ 64) (hwo : ∀ x ∈ outs, x.WF) (hlen : ws.length = ins.length)
    (hww : ∀ w ∈ ws, witnessWF w) (hex : ins ≠ [] → ∃ w ∈ ws, w ≠ []) (hr : r.length < 4) :
    (decTransaction ⟨b, ver ++ [0x00, 0x01] ++ (encTxIns ins ++ (encTxOuts outs ++ (encWitnesses ws ++ r)))⟩).res =
      .err .moreBytesNeeded :=
  decTransaction_err_segwit_locktime b ver ins outs ws r hv hni hwi hno hwo hlen hww hex hr

/-! ### nesting inside a block -/

/-- a block whose header, count and first `l.length < n` transactions are well formed fails with exactly the error of
    the next transaction -/
theorem C14_block_nesting (b : Nat) (hd : HeaderS) (n : Nat) (l : List TxS) (r : Bytes) (e : Error)
    (hh : hd.WF) (hn : n < 2 ^ 64) (hw : ∀ t ∈ l, t.WF) (hl : l.length < n)
    (h : (decTransaction ⟨b + 80 + (encCompact n).length + (l.map encTx).flatten.length, r⟩).res = .err e) :
    (decBlock ⟨b, encHeader hd ++ encCompact n ++ (l.map encTx).flatten ++ r⟩).res = .err e :=
  decBlock_err_of b hd n l r e hh hn hw hl h

/-- conversely every block error is: a truncated header, the error of the transaction count, or the error of the first
    failing transaction (all transactions before it being well formed) -/
theorem C14_block_error_cases {s : Slice} {e : Error} (h : (decBlock s).res = .err e) :
    (e = .moreBytesNeeded ∧ s.bytes.length < 80) ∨
    (∃ (hd : HeaderS) (r : Bytes), hd.WF ∧ s.bytes = encHeader hd ++ r ∧ decCompact ⟨s.base + 80, r⟩ = .err e) ∨
    (∃ (hd : HeaderS) (n : Nat) (l : List TxS) (r : Bytes), hd.WF ∧ n < 2 ^ 64 ∧ (∀ t ∈ l, t.WF) ∧ l.length < n ∧
      s.bytes = encHeader hd ++ encCompact n ++ (l.map encTx).flatten ++ r ∧
      (decTransaction ⟨s.base + 80 + (encCompact n).length + (l.map encTx).flatten.length, r⟩).res = .err e) :=
  decBlock_eq_err h

/-! ### non-vacuity -/

example : decCompact ⟨0, [0xFD, 0x10, 0x00, 0x07]⟩ = .err .nonMinimalVarInt := by decide
example : decCompact ⟨0, [0xFE, 0x10, 0x00]⟩ = .err .moreBytesNeeded := by decide
example : (decTransaction ⟨0, [1, 0, 0, 0] ++ [0x00, 0x02] ++ [5, 5]⟩).res = .err (.unknownSegwitFlag 2) := by decide
/-- a non-minimal script length in the first input surfaces as the transaction's error -/
example : (decTransaction ⟨0, [1, 0, 0, 0] ++ ([1] ++ List.replicate 36 0 ++ [0xFD, 0x01, 0x00])⟩).res =
    .err .nonMinimalVarInt := by decide
/-- one input, no output, an empty witness, and nothing after it -/
example : (decTransaction ⟨0, [1, 0, 0, 0] ++ [0x00, 0x01] ++ encTxIns [⟨⟨List.replicate 32 0, 0⟩, [], 0⟩] ++
    encTxOuts [] ++ List.replicate 1 0 ++ []⟩).res = .err .segwitFlagWithoutWitnesses := by decide

/-! ## L1 corollaries (generated by tools/genlift.py) -/
section L1
open BS.Ref BS.Lift

/-- on the model of the code (parse = never-breaking visitor): never VisitBreak, Other or a panic -/
theorem C14_L1_never_break_other_transaction (s : Slice) (hs : s.len < 2 ^ 62) :
    NeverBreakOther (parseOf (Transaction.visit s)) := by
  rw [parseOf_transaction s hs]; exact C14_never_break_other_transaction s

theorem C14_L1_never_break_other_block (s : Slice) (hs : s.len < 2 ^ 62) :
    NeverBreakOther (parseOf (Block.visit s)) := by
  rw [parseOf_block s hs]; exact C14_never_break_other_block s

theorem C14_L1_flag (s : Slice) (hs : s.len < 2 ^ 62) (f : UInt8) :
    parseOf (Transaction.visit s) = .err (.unknownSegwitFlag f) ↔
      ∃ ver r, ver.length = 4 ∧ s.bytes = ver ++ [0x00, f] ++ r ∧ f ≠ 1 := by
  rw [parseOf_transaction s hs]; exact C14_flag s f

end L1

end BS
