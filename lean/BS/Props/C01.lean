import BS.Lemmas.RefAcc
import BS.Props.C08
/-
  C01 — Parsing untrusted bytes never panics and always terminates; the number of callbacks is bounded.
  Property theorems only (helper lemmas live in BS/Lemmas/Ref*.lean).

  Termination: every L1 parser is a total Lean function (the loops are structurally recursive on the number of
  iterations left), so there is nothing to state. "Bounded work" is stated as a bound on the number of visitor
  callbacks, linear in the input length whatever counts the bytes declare.
-/
namespace BS
open Spec Ref

/-! ### no panic: primitives -/

theorem C01_nopanic_scan (s : Slice) (c : Nat) (hc : c < 2 ^ 62) : (scanLen s c).1.isPanic = false :=
  C08_nopanic s c hc

theorem C01_nopanic_scanQ (s : Slice) (c : Nat) (hc : c < 2 ^ 62) : (scanLenQ s c).isPanic = false := by
  rcases scan_cases s c (by omega) with ⟨e, _, _, h⟩ | ⟨n, w, _, _, _, _, _, h, _⟩ <;> rw [h] <;> rfl

theorem C01_nopanic_splitAtChecked (s : Slice) (n : Nat) : (s.splitAtChecked n).isPanic = false := by
  rw [splitAtChecked_eq, takeN_eq]; split <;> rfl

theorem C01_nopanic_numread (w : Nat) (s : Slice) : (Num.read w s).isPanic = false := by
  rw [read_eq]; split <;> rfl

theorem C01_nopanic_numparse (w : Nat) (s : Slice) : (Num.parse w s).isPanic = false := by
  unfold Num.parse
  rw [splitAtChecked_eq, takeN_eq]
  by_cases h : s.len < w
  · rw [if_pos h]; rfl
  · rw [if_neg h]
    simp only []
    rw [if_pos (stake_len (by omega))]; rfl

/-! ### no panic: the four pure parsers -/

theorem C01_nopanic_script (s : Slice) (hs : s.len < 2 ^ 62) : (Script.parse s).isPanic = false := by
  rcases script_cases s hs with ⟨e, _, _, h⟩ | ⟨n, w, _, _, _, h⟩ <;> rw [h] <;> rfl

theorem C01_nopanic_outpoint (s : Slice) : (OutPoint.parse s).isPanic = false := by
  rcases outpoint_cases s with ⟨_, _, h⟩ | ⟨_, _, h⟩ <;> rw [h] <;> rfl

theorem C01_nopanic_txin (s : Slice) (hs : s.len < 2 ^ 62) : (TxIn.parse s).isPanic = false := by
  rcases txin_cases s hs with ⟨e, _, _, h⟩ | ⟨n, w, _, _, _, _, h⟩ <;> rw [h] <;> rfl

theorem C01_nopanic_txout (s : Slice) (hs : s.len < 2 ^ 62) : (TxOut.parse s).isPanic = false := by
  rcases txout_cases s hs with ⟨e, _, _, h⟩ | ⟨n, w, _, _, _, _, h⟩ <;> rw [h] <;> rfl

/-! ### no panic: the visits, for every visitor and visitor state -/

theorem C01_nopanic_txins {σ} (s : Slice) (hs : s.len < 2 ^ 62) (v : Visitor σ) (st : σ) :
    (TxIns.visit s v st).2.isPanic = false := by
  rw [refine_txins s hs]; exact run_nopanic _ _ _ (txins_out s hs).nopanic

theorem C01_nopanic_txouts {σ} (s : Slice) (hs : s.len < 2 ^ 62) (v : Visitor σ) (st : σ) :
    (TxOuts.visit s v st).2.isPanic = false := by
  rw [refine_txouts s hs]; exact run_nopanic _ _ _ (txouts_out s hs).nopanic

theorem C01_nopanic_witness {σ} (s : Slice) (hs : s.len < 2 ^ 62) (v : Visitor σ) (st : σ) :
    (Witness.visit s v st).2.isPanic = false := by
  rw [sim_witness s hs v st]
  refine run_nopanic _ _ _ ?_
  rw [witnessD_res]
  have := (witness_out s hs).nopanic
  cases h : (decWitness s).res <;> simp_all [Res.map', Res.isPanic]

/-- for every declared number of inputs `n` -/
theorem C01_nopanic_witnesses {σ} (s : Slice) (hs : s.len < 2 ^ 62) (n : Nat) (v : Visitor σ) (st : σ) :
    (Witnesses.visit s n v st).2.isPanic = false := by
  rw [refine_witnesses s hs]; exact run_nopanic _ _ _ (witnesses_out s hs n).nopanic

theorem C01_nopanic_transaction {σ} (s : Slice) (hs : s.len < 2 ^ 62) (v : Visitor σ) (st : σ) :
    (Transaction.visit s v st).2.isPanic = false := by
  rw [refine_transaction s hs]; exact run_nopanic _ _ _ (tx_out s hs).nopanic

theorem C01_nopanic_header {σ} (s : Slice) (v : Visitor σ) (st : σ) :
    (BlockHeader.visit s v st).2.isPanic = false := by
  rw [refine_header s]; exact run_nopanic _ _ _ (header_out s).nopanic

theorem C01_nopanic_block {σ} (s : Slice) (hs : s.len < 2 ^ 62) (v : Visitor σ) (st : σ) :
    (Block.visit s v st).2.isPanic = false := by
  rw [refine_block s hs]; exact run_nopanic _ _ _ (block_out s hs).nopanic

/-! ### bounded callbacks

  On L2: the length of the callback sequence. Through the refinement this is the number of `Visitor.step` calls
  L1 makes to a visitor that never breaks (`_L1` versions, with the counting visitor); a breaking visitor sees a
  prefix (C09). A loop that declares a huge count stops with `MoreBytesNeeded` as soon as the bytes run out,
  because every successful iteration consumes at least one byte. -/

theorem C01_callbacks_txins (s : Slice) (hs : s.len < 2 ^ 62) : (decTxIns s).trace.length ≤ 3 * s.len + 4 := by
  have := (txins_out s hs).trace_le (fun a k t _ _ ⟨_, _, _, _, h, _⟩ => by omega)
  omega

theorem C01_callbacks_txouts (s : Slice) (hs : s.len < 2 ^ 62) : (decTxOuts s).trace.length ≤ 3 * s.len + 4 := by
  have := (txouts_out s hs).trace_le (fun a k t _ _ ⟨_, _, _, _, h, _⟩ => by omega)
  omega

theorem C01_callbacks_witness (s : Slice) (hs : s.len < 2 ^ 62) : (decWitness s).trace.length ≤ 3 * s.len + 4 := by
  have := (witness_out s hs).trace_le (fun a k t _ _ ⟨_, _, _, h⟩ => by omega)
  omega

/-- the worst case: three callbacks per one-byte empty witness; holds for every declared count `n` -/
theorem C01_callbacks_witnesses (s : Slice) (hs : s.len < 2 ^ 62) (n : Nat) :
    (decWitnesses s n).trace.length ≤ 3 * s.len + 4 := by
  have := (witnesses_out s hs n).trace_le (fun a k t _ _ ⟨_, h⟩ => by omega)
  omega

theorem C01_callbacks_transaction (s : Slice) (hs : s.len < 2 ^ 62) :
    (decTransaction s).trace.length ≤ 3 * s.len + 4 := by
  have := (tx_out s hs).trace_le (fun a k t _ _ ⟨_, _, _, h, _⟩ => by omega)
  omega

theorem C01_callbacks_header (s : Slice) : (decHeader s).trace.length ≤ 3 * s.len + 4 := by
  have := (header_out s).trace_le (fun a k t _ _ ⟨h1, _, _, h⟩ => by omega)
  omega

theorem C01_callbacks_block (s : Slice) (hs : s.len < 2 ^ 62) : (decBlock s).trace.length ≤ 3 * s.len + 4 := by
  have := (block_out s hs).trace_le (fun a k t _ _ ⟨_, _, _, _, h⟩ => by omega)
  omega

/-- the same bounds as numbers of `Visitor.step` calls made by L1 (counting visitor, which never breaks) -/
theorem C01_callbacks_txins_L1 (s : Slice) (hs : s.len < 2 ^ 62) :
    (TxIns.visit s counter 0).1 ≤ 3 * s.len + 4 := by
  rw [sim_count (sim_txins s hs)]; exact C01_callbacks_txins s hs

theorem C01_callbacks_txouts_L1 (s : Slice) (hs : s.len < 2 ^ 62) :
    (TxOuts.visit s counter 0).1 ≤ 3 * s.len + 4 := by
  rw [sim_count (sim_txouts s hs)]; exact C01_callbacks_txouts s hs

theorem C01_callbacks_witness_L1 (s : Slice) (hs : s.len < 2 ^ 62) :
    (Witness.visit s counter 0).1 ≤ 3 * s.len + 4 := by
  rw [sim_count (sim_witness s hs), witnessD_trace]; exact C01_callbacks_witness s hs

theorem C01_callbacks_witnesses_L1 (s : Slice) (hs : s.len < 2 ^ 62) (n : Nat) :
    (Witnesses.visit s n counter 0).1 ≤ 3 * s.len + 4 := by
  rw [sim_count (sim_witnesses s hs n)]; exact C01_callbacks_witnesses s hs n

theorem C01_callbacks_transaction_L1 (s : Slice) (hs : s.len < 2 ^ 62) :
    (Transaction.visit s counter 0).1 ≤ 3 * s.len + 4 := by
  rw [sim_count (sim_transaction s hs)]; exact C01_callbacks_transaction s hs

theorem C01_callbacks_header_L1 (s : Slice) : (BlockHeader.visit s counter 0).1 ≤ 3 * s.len + 4 := by
  rw [sim_count (sim_header s)]; exact C01_callbacks_header s

theorem C01_callbacks_block_L1 (s : Slice) (hs : s.len < 2 ^ 62) :
    (Block.visit s counter 0).1 ≤ 3 * s.len + 4 := by
  rw [sim_count (sim_block s hs)]; exact C01_callbacks_block s hs

/-! ### accessors of a successfully parsed object never panic -/

theorem C01_acc_script (s : Slice) (hs : s.len < 2 ^ 62) (o : ScriptV) (r : Slice)
    (h : Script.parse s = .ok (o, r)) : ∃ x, o.script = .ok x := by
  rcases script_cases s hs with ⟨e, _, _, h2⟩ | ⟨n, w, _, hl, _, h2⟩
  · rw [h] at h2; cases h2
  · rw [h] at h2; cases h2
    exact ⟨_, from_ok (show w ≤ (stake s (w + n)).len by rw [stake_len hl]; omega)⟩

theorem C01_acc_txid (s : Slice) (o : OutPointV) (r : Slice) (h : OutPoint.parse s = .ok (o, r)) :
    ∃ x, o.txid = .ok x := by
  rcases outpoint_cases s with ⟨_, _, h2⟩ | ⟨hl, _, h2⟩
  · rw [h] at h2; cases h2
  · rw [h] at h2; cases h2
    exact ⟨_, to_ok (by rw [stake_len hl]; omega)⟩

theorem C01_acc_vout (s : Slice) (o : OutPointV) (r : Slice) (h : OutPoint.parse s = .ok (o, r)) :
    ∃ x, o.vout = .ok x := by
  rcases outpoint_cases s with ⟨_, _, h2⟩ | ⟨hl, _, h2⟩
  · rw [h] at h2; cases h2
  · rw [h] at h2; cases h2
    exact acc_vout (stake_len hl)

theorem C01_acc_scriptSigBytes (s : Slice) (hs : s.len < 2 ^ 62) (o : TxInV) (r : Slice)
    (h : TxIn.parse s = .ok (o, r)) : ∃ x, o.scriptSigBytes = .ok x := by
  rcases txin_cases s hs with ⟨e, _, _, h2⟩ | ⟨n, w, _, hok, hl, _, h2⟩
  · rw [h] at h2; cases h2
  · rw [h] at h2; cases h2
    exact ⟨_, from_ok (show w ≤ (stake (sdrop s 36) (w + n)).len by rw [stake_len (by simp; omega)]; omega)⟩

theorem C01_acc_scriptPubkeyBytes (s : Slice) (hs : s.len < 2 ^ 62) (o : TxOutV) (r : Slice)
    (h : TxOut.parse s = .ok (o, r)) : ∃ x, o.scriptPubkeyBytes = .ok x := by
  rcases txout_cases s hs with ⟨e, _, _, h2⟩ | ⟨n, w, _, hok, hl, _, h2⟩
  · rw [h] at h2; cases h2
  · rw [h] at h2; cases h2
    exact ⟨_, from_ok (show w ≤ (stake (sdrop s 8) (w + n)).len by rw [stake_len (by simp; omega)]; omega)⟩

/-- `TxIns::is_empty` on a visited list: no panic, and it answers whether the declared count is zero -/
theorem C01_acc_txins_isEmpty {σ} (s : Slice) (hs : s.len < 2 ^ 62) (v : Visitor σ) (st : σ) (o : TxInsV) (r : Slice)
    (h : (TxIns.visit s v st).2 = .ok (o, r)) : firstIsZero o.slice = .ok (o.n == 0) := by
  rw [refine_txins s hs] at h
  obtain ⟨k, _, _, _, _, _, hz, _⟩ := (txins_out s hs).ok (run_ok h)
  exact hz

theorem C01_acc_txouts_isEmpty {σ} (s : Slice) (hs : s.len < 2 ^ 62) (v : Visitor σ) (st : σ) (o : TxOutsV) (r : Slice)
    (h : (TxOuts.visit s v st).2 = .ok (o, r)) : firstIsZero o.slice = .ok (o.n == 0) := by
  rw [refine_txouts s hs] at h
  obtain ⟨k, _, _, _, _, _, hz, _⟩ := (txouts_out s hs).ok (run_ok h)
  exact hz

theorem C01_acc_witness_isEmpty {σ} (s : Slice) (hs : s.len < 2 ^ 62) (v : Visitor σ) (st : σ) (o : WitnessV) (r : Slice)
    (h : (Witness.visit s v st).2 = .ok (o, r)) : ∃ b, firstIsZero o.slice = .ok b := by
  rw [sim_witness s hs v st] at h
  have h2 := run_ok h
  rw [witnessD_res] at h2
  cases hd : (decWitness s).res with
  | ok a =>
    rw [hd] at h2
    obtain ⟨k, _, _, ha, _, hz, _⟩ := (witness_out s hs).ok hd
    simp only [Res.map'] at h2
    cases h2
    rw [ha]
    exact ⟨_, hz⟩
  | err e => rw [hd] at h2; cases h2
  | panic p => rw [hd] at h2; cases h2

theorem C01_acc_version {σ} (s : Slice) (hs : s.len < 2 ^ 62) (v : Visitor σ) (st : σ) (t : TxV) (r : Slice)
    (h : (Transaction.visit s v st).2 = .ok (t, r)) : ∃ x, t.version = .ok x := by
  rw [refine_transaction s hs] at h
  obtain ⟨k, _, hk, _, hsl, h10, _, _⟩ := (tx_out s hs).ok (run_ok h)
  exact acc_version t (by rw [hsl, stake_len hk]; omega)

theorem C01_acc_locktime {σ} (s : Slice) (hs : s.len < 2 ^ 62) (v : Visitor σ) (st : σ) (t : TxV) (r : Slice)
    (h : (Transaction.visit s v st).2 = .ok (t, r)) : ∃ x, t.locktime = .ok x := by
  rw [refine_transaction s hs] at h
  obtain ⟨k, _, hk, _, hsl, h10, _, _⟩ := (tx_out s hs).ok (run_ok h)
  exact acc_locktime t (by rw [hsl, stake_len hk]; omega)

theorem C01_acc_txidPreimage {σ} (s : Slice) (hs : s.len < 2 ^ 62) (v : Visitor σ) (st : σ) (t : TxV) (r : Slice)
    (h : (Transaction.visit s v st).2 = .ok (t, r)) : ∃ x, t.txidPreimage = .ok x := by
  rw [refine_transaction s hs] at h
  obtain ⟨k, _, hk, _, hsl, h10, _, hio⟩ := (tx_out s hs).ok (run_ok h)
  have hl : t.slice.len = k := by rw [hsl, stake_len hk]
  exact acc_txidPreimage t (by omega) (fun len hlen => by have := (hio len hlen).2; omega) (by omega)

theorem C01_acc_weight {σ} (s : Slice) (hs : s.len < 2 ^ 62) (v : Visitor σ) (st : σ) (t : TxV) (r : Slice)
    (h : (Transaction.visit s v st).2 = .ok (t, r)) : ∃ x, t.weight = .ok x := by
  rw [refine_transaction s hs] at h
  obtain ⟨k, _, hk, _, hsl, h10, _, hio⟩ := (tx_out s hs).ok (run_ok h)
  have hl : t.slice.len = k := by rw [hsl, stake_len hk]
  exact acc_weight t (fun len hlen => by have := (hio len hlen).2; omega) (by omega)

theorem C01_acc_prevBlockhash {σ} (s : Slice) (v : Visitor σ) (st : σ) (hd : HeaderV) (r : Slice)
    (h : (BlockHeader.visit s v st).2 = .ok (hd, r)) : ∃ x, hd.prevBlockhash = .ok x := by
  rw [refine_header s] at h
  obtain ⟨k, _, hk, rfl, _, hsl, _⟩ := (header_out s).ok (run_ok h)
  exact ⟨_, range_ok ⟨by omega, by rw [hsl, stake_len hk]; omega⟩⟩

theorem C01_acc_merkleRoot {σ} (s : Slice) (v : Visitor σ) (st : σ) (hd : HeaderV) (r : Slice)
    (h : (BlockHeader.visit s v st).2 = .ok (hd, r)) : ∃ x, hd.merkleRoot = .ok x := by
  rw [refine_header s] at h
  obtain ⟨k, _, hk, rfl, _, hsl, _⟩ := (header_out s).ok (run_ok h)
  exact ⟨_, range_ok ⟨by omega, by rw [hsl, stake_len hk]; omega⟩⟩

/-- the header of a visited block: its accessors do not panic either -/
theorem C01_acc_block_header {σ} (s : Slice) (hs : s.len < 2 ^ 62) (v : Visitor σ) (st : σ) (b : BlockV) (r : Slice)
    (h : (Block.visit s v st).2 = .ok (b, r)) :
    (∃ x, b.header.prevBlockhash = .ok x) ∧ (∃ x, b.header.merkleRoot = .ok x) := by
  rw [refine_block s hs] at h
  obtain ⟨k, _, hk, _, _, h81, hsl, _⟩ := (block_out s hs).ok (run_ok h)
  have : b.header.slice.len = 80 := by rw [hsl, stake_len (by omega)]
  exact ⟨⟨_, range_ok ⟨by omega, by omega⟩⟩, ⟨_, range_ok ⟨by omega, by omega⟩⟩⟩

/-! ### non-vacuity: a concrete legacy transaction (1 input, 1 output, 60 bytes) parses, with 5 callbacks -/

/-- version 1 · 1 input (null outpoint, empty script, sequence ffffffff) · 1 output (value 1, empty script) · locktime 0 -/
def C01_exampleTx : Bytes :=
  [1, 0, 0, 0, 1] ++ List.replicate 36 0 ++ [0, 255, 255, 255, 255, 1, 1, 0, 0, 0, 0, 0, 0, 0, 0, 0, 0, 0, 0]

example : (Transaction.visit ⟨0, C01_exampleTx⟩ emptyVisitor ()).2.isOk = true := by decide
example : (Transaction.visit ⟨0, C01_exampleTx⟩ counter 0).1 = 5 := by decide
example : (decTransaction ⟨0, C01_exampleTx⟩).trace.length = 5 := by decide
/-- a count of 2^64-1 witnesses on a 3-byte input stops after 3 witnesses, 9 callbacks, with `MoreBytesNeeded` -/
example : Witnesses.visit ⟨0, [0, 0, 0]⟩ (2 ^ 64 - 1) counter 0 = (10, .err .moreBytesNeeded) := by decide
example : (⟨0, C01_exampleTx⟩ : Slice).len < 2 ^ 62 := by decide

end BS
