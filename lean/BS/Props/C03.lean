import BS.Lemmas.Lift
import BS.Lemmas.EncBlock
/-
  C03 — the L2 reference decoders accept exactly the Bitcoin wire encodings.

  For every wire type X there are three theorems:
  * `C03_complete_X` : on `encX x ++ r` (at any base offset `b`, `x` well formed) the decoder answers `ok`, consumes
                       exactly `(encX x).length` bytes, and returns the canonical view `viewX b x`;
                       `C03_view_X` says what that view is: its slice is `⟨b, encX x⟩` (the very bytes) and every
                       field it exposes is the field of `x` (`fieldsX (viewX b x) = x`);
  * `C03_sound_X`    : whatever the decoder accepts begins with the encoding of a well-formed `x`, the remainder is
                       what follows that encoding, and the returned object is `viewX s.base x` (so `fieldsX o = x`);
  * `C03_unique_X`   : the encoders are prefix-free on well-formed values.

  `viewX`, `fieldsX` are defined in BS/Lemmas/EncDefs.lean (namespace `BS.Enc`).
  Property theorems only (helper lemmas live in BS/Lemmas/Enc*.lean).
-/
namespace BS
open Spec Enc

/-! ### compact size -/

theorem C03_complete_compact (b n : Nat) (r : Bytes) (hn : n < 2 ^ 64) :
    decCompact ⟨b, encCompact n ++ r⟩ = .ok (n, ⟨b + (encCompact n).length, r⟩) :=
  decCompact_enc b n r hn

theorem C03_sound_compact {s : Slice} {n : Nat} {rem : Slice} (h : decCompact s = .ok (n, rem)) :
    n < 2 ^ 64 ∧ s.bytes = encCompact n ++ rem.bytes ∧ rem.base = s.base + (encCompact n).length :=
  decCompact_eq_ok h

theorem C03_unique_compact {n n' : Nat} {r r' : Bytes} (hn : n < 2 ^ 64) (hn' : n' < 2 ^ 64)
    (h : encCompact n ++ r = encCompact n' ++ r') : n = n' ∧ r = r' :=
  encCompact_unique hn hn' h

/-! ### script (length-prefixed bytes) -/

theorem C03_complete_script (b : Nat) (x r : Bytes) (hx : x.length < 2 ^ 64) :
    decScript ⟨b, encVarBytes x ++ r⟩ = .ok (viewScript b x, ⟨b + (encVarBytes x).length, r⟩) :=
  decScript_enc b x r hx

/-- the view's slice is the whole encoding (prefix included), `from_` skips the prefix -/
theorem C03_view_script (b : Nat) (x : Bytes) :
    (viewScript b x).slice = ⟨b, encVarBytes x⟩ ∧ fieldsScript (viewScript b x) = x :=
  ⟨rfl, fields_viewScript b x⟩

theorem C03_sound_script {s : Slice} {o : ScriptV} {rem : Slice} (h : decScript s = .ok (o, rem)) :
    ∃ x : Bytes, x.length < 2 ^ 64 ∧ s.bytes = encVarBytes x ++ rem.bytes ∧
      rem.base = s.base + (encVarBytes x).length ∧ o = viewScript s.base x ∧ fieldsScript o = x := by
  obtain ⟨x, hw, e, hb, ho⟩ := decScript_eq_ok' h
  exact ⟨x, hw, e, hb, ho, by rw [ho, fields_viewScript]⟩

theorem C03_unique_script {x x' r r' : Bytes} (hx : x.length < 2 ^ 64) (hx' : x'.length < 2 ^ 64)
    (h : encVarBytes x ++ r = encVarBytes x' ++ r') : x = x' ∧ r = r' :=
  encVarBytes_unique hx hx' h

/-! ### outpoint -/

theorem C03_complete_outpoint (b : Nat) (x : OutPointS) (r : Bytes) (hx : x.WF) :
    decOutPoint ⟨b, encOutPoint x ++ r⟩ = .ok (viewOutPoint b x, ⟨b + (encOutPoint x).length, r⟩) :=
  decOutPoint_enc b x r hx

theorem C03_view_outpoint (b : Nat) {x : OutPointS} (hx : x.WF) :
    (viewOutPoint b x).slice = ⟨b, encOutPoint x⟩ ∧ fieldsOutPoint (viewOutPoint b x) = x :=
  ⟨rfl, fields_viewOutPoint b hx⟩

theorem C03_sound_outpoint {s : Slice} {o : OutPointV} {rem : Slice} (h : decOutPoint s = .ok (o, rem)) :
    ∃ x : OutPointS, x.WF ∧ s.bytes = encOutPoint x ++ rem.bytes ∧
      rem.base = s.base + (encOutPoint x).length ∧ o = viewOutPoint s.base x ∧ fieldsOutPoint o = x := by
  obtain ⟨x, hw, e, hb, ho⟩ := decOutPoint_eq_ok' h
  exact ⟨x, hw, e, hb, ho, by rw [ho, fields_viewOutPoint _ hw]⟩

theorem C03_unique_outpoint {x x' : OutPointS} {r r' : Bytes} (hx : x.WF) (hx' : x'.WF)
    (h : encOutPoint x ++ r = encOutPoint x' ++ r') : x = x' ∧ r = r' :=
  encOutPoint_unique hx hx' h

/-! ### transaction input -/

theorem C03_complete_txin (b : Nat) (x : TxInS) (r : Bytes) (hx : x.WF) :
    decTxIn ⟨b, encTxIn x ++ r⟩ = .ok (viewTxIn b x, ⟨b + (encTxIn x).length, r⟩) :=
  decTxIn_enc b x r hx

/-- slice = the very bytes; prevout / script sub-views sit at their offsets inside it; the fields are those of `x` -/
theorem C03_view_txin (b : Nat) {x : TxInS} (hx : x.WF) :
    (viewTxIn b x).slice = ⟨b, encTxIn x⟩ ∧
    (viewTxIn b x).prevout.slice = ⟨b, encOutPoint x.prevout⟩ ∧
    (viewTxIn b x).scriptSig.slice = ⟨b + 36, encVarBytes x.scriptSig⟩ ∧
    fieldsTxIn (viewTxIn b x) = x := by
  refine ⟨rfl, rfl, ?_, fields_viewTxIn b hx⟩
  simp only [viewTxIn, viewScript, encOutPoint_length hx.1]

theorem C03_sound_txin {s : Slice} {o : TxInV} {rem : Slice} (h : decTxIn s = .ok (o, rem)) :
    ∃ x : TxInS, x.WF ∧ s.bytes = encTxIn x ++ rem.bytes ∧
      rem.base = s.base + (encTxIn x).length ∧ o = viewTxIn s.base x ∧ fieldsTxIn o = x := by
  obtain ⟨x, hw, e, hb, ho⟩ := decTxIn_eq_ok' h
  exact ⟨x, hw, e, hb, ho, by rw [ho, fields_viewTxIn _ hw]⟩

theorem C03_unique_txin {x x' : TxInS} {r r' : Bytes} (hx : x.WF) (hx' : x'.WF)
    (h : encTxIn x ++ r = encTxIn x' ++ r') : x = x' ∧ r = r' :=
  encTxIn_unique hx hx' h

/-! ### transaction output -/

theorem C03_complete_txout (b : Nat) (x : TxOutS) (r : Bytes) (hx : x.WF) :
    decTxOut ⟨b, encTxOut x ++ r⟩ = .ok (viewTxOut b x, ⟨b + (encTxOut x).length, r⟩) :=
  decTxOut_enc b x r hx

theorem C03_view_txout (b : Nat) (x : TxOutS) :
    (viewTxOut b x).slice = ⟨b, encTxOut x⟩ ∧
    (viewTxOut b x).scriptPubkey.slice = ⟨b + 8, encVarBytes x.scriptPubkey⟩ ∧
    fieldsTxOut (viewTxOut b x) = x :=
  ⟨rfl, rfl, fields_viewTxOut b x⟩

theorem C03_sound_txout {s : Slice} {o : TxOutV} {rem : Slice} (h : decTxOut s = .ok (o, rem)) :
    ∃ x : TxOutS, x.WF ∧ s.bytes = encTxOut x ++ rem.bytes ∧
      rem.base = s.base + (encTxOut x).length ∧ o = viewTxOut s.base x ∧ fieldsTxOut o = x := by
  obtain ⟨x, hw, e, hb, ho⟩ := decTxOut_eq_ok' h
  exact ⟨x, hw, e, hb, ho, by rw [ho, fields_viewTxOut]⟩

theorem C03_unique_txout {x x' : TxOutS} {r r' : Bytes} (hx : x.WF) (hx' : x'.WF)
    (h : encTxOut x ++ r = encTxOut x' ++ r') : x = x' ∧ r = r' :=
  encTxOut_unique hx hx' h

/-! ### input list. The view exposes the slice and the count; the elements are delivered through callbacks (C04). -/

theorem C03_complete_txins (b : Nat) (l : List TxInS) (r : Bytes) (hn : l.length < 2 ^ 64) (hw : ∀ x ∈ l, x.WF) :
    (decTxIns ⟨b, encTxIns l ++ r⟩).res = .ok (viewTxIns b l, ⟨b + (encTxIns l).length, r⟩) := by
  rw [decTxIns_enc b l r hn hw]

theorem C03_view_txins (b : Nat) (l : List TxInS) :
    (viewTxIns b l).slice = ⟨b, encTxIns l⟩ ∧ (viewTxIns b l).n = l.length := ⟨rfl, rfl⟩

theorem C03_sound_txins {s : Slice} {o : TxInsV} {rem : Slice} (h : (decTxIns s).res = .ok (o, rem)) :
    ∃ l : List TxInS, l.length < 2 ^ 64 ∧ (∀ x ∈ l, x.WF) ∧ s.bytes = encTxIns l ++ rem.bytes ∧
      rem.base = s.base + (encTxIns l).length ∧ o = viewTxIns s.base l :=
  decTxIns_eq_ok' h

theorem C03_unique_txins {l l' : List TxInS} {r r' : Bytes} (hn : l.length < 2 ^ 64) (hw : ∀ x ∈ l, x.WF)
    (hn' : l'.length < 2 ^ 64) (hw' : ∀ x ∈ l', x.WF) (h : encTxIns l ++ r = encTxIns l' ++ r') :
    l = l' ∧ r = r' :=
  encTxIns_unique hn hw hn' hw' h

/-! ### output list -/

theorem C03_complete_txouts (b : Nat) (l : List TxOutS) (r : Bytes) (hn : l.length < 2 ^ 64)
    (hw : ∀ x ∈ l, x.WF) :
    (decTxOuts ⟨b, encTxOuts l ++ r⟩).res = .ok (viewTxOuts b l, ⟨b + (encTxOuts l).length, r⟩) := by
  rw [decTxOuts_enc b l r hn hw]

theorem C03_view_txouts (b : Nat) (l : List TxOutS) :
    (viewTxOuts b l).slice = ⟨b, encTxOuts l⟩ ∧ (viewTxOuts b l).n = l.length := ⟨rfl, rfl⟩

theorem C03_sound_txouts {s : Slice} {o : TxOutsV} {rem : Slice} (h : (decTxOuts s).res = .ok (o, rem)) :
    ∃ l : List TxOutS, l.length < 2 ^ 64 ∧ (∀ x ∈ l, x.WF) ∧ s.bytes = encTxOuts l ++ rem.bytes ∧
      rem.base = s.base + (encTxOuts l).length ∧ o = viewTxOuts s.base l :=
  decTxOuts_eq_ok' h

theorem C03_unique_txouts {l l' : List TxOutS} {r r' : Bytes} (hn : l.length < 2 ^ 64) (hw : ∀ x ∈ l, x.WF)
    (hn' : l'.length < 2 ^ 64) (hw' : ∀ x ∈ l', x.WF) (h : encTxOuts l ++ r = encTxOuts l' ++ r') :
    l = l' ∧ r = r' :=
  encTxOuts_unique hn hw hn' hw' h

/-! ### one witness (a counted list of length-prefixed elements); the decoder also says whether it is empty -/

theorem C03_complete_witness (b : Nat) (w : List Bytes) (r : Bytes) (hw : witnessWF w) :
    (decWitness ⟨b, encWitness w ++ r⟩).res =
      .ok (viewWitness b w, decide (w = []), ⟨b + (encWitness w).length, r⟩) := by
  rw [decWitness_enc b w r hw]

theorem C03_view_witness (b : Nat) (w : List Bytes) : (viewWitness b w).slice = ⟨b, encWitness w⟩ := rfl

theorem C03_sound_witness {s : Slice} {o : WitnessV} {em : Bool} {rem : Slice}
    (h : (decWitness s).res = .ok (o, em, rem)) :
    ∃ w : List Bytes, witnessWF w ∧ s.bytes = encWitness w ++ rem.bytes ∧
      rem.base = s.base + (encWitness w).length ∧ o = viewWitness s.base w ∧ em = decide (w = []) :=
  decWitness_eq_ok' h

theorem C03_unique_witness {w w' : List Bytes} {r r' : Bytes} (hw : witnessWF w) (hw' : witnessWF w')
    (h : encWitness w ++ r = encWitness w' ++ r') : w = w' ∧ r = r' :=
  encWitness_unique hw hw' h

/-! ### the witnesses of a transaction with `n` inputs: exactly `n` witnesses, no count on the wire -/

theorem C03_complete_witnesses (b : Nat) (ws : List (List Bytes)) (r : Bytes) (hw : ∀ w ∈ ws, witnessWF w) :
    (decWitnesses ⟨b, encWitnesses ws ++ r⟩ ws.length).res =
      .ok (viewWitnesses b ws, ⟨b + (encWitnesses ws).length, r⟩) := by
  rw [decWitnesses_enc b ws r hw]

theorem C03_view_witnesses (b : Nat) (ws : List (List Bytes)) :
    (viewWitnesses b ws).slice = ⟨b, encWitnesses ws⟩ ∧ (viewWitnesses b ws).allEmpty = ws.all (· = []) :=
  ⟨rfl, rfl⟩

theorem C03_sound_witnesses {s : Slice} {n : Nat} {o : WitnessesV} {rem : Slice}
    (h : (decWitnesses s n).res = .ok (o, rem)) :
    ∃ ws : List (List Bytes), ws.length = n ∧ (∀ w ∈ ws, witnessWF w) ∧
      s.bytes = encWitnesses ws ++ rem.bytes ∧ rem.base = s.base + (encWitnesses ws).length ∧
      o = viewWitnesses s.base ws :=
  decWitnesses_eq_ok' h

/-- prefix-free among witness lists of the same length (the count is not on the wire: it is the input count) -/
theorem C03_unique_witnesses {ws ws' : List (List Bytes)} {r r' : Bytes} (hl : ws.length = ws'.length)
    (hw : ∀ w ∈ ws, witnessWF w) (hw' : ∀ w ∈ ws', witnessWF w)
    (h : encWitnesses ws ++ r = encWitnesses ws' ++ r') : ws = ws' ∧ r = r' :=
  encWitnesses_unique hl hw hw' h

/-- without the length hypothesis it fails: an empty witness is the byte 00 -/
example : encWitnesses [] ++ [0] = encWitnesses [[]] ++ [] := by decide

/-! ### transaction: the legacy form (`witnesses = none`, at least one input) and the BIP144 form (`some ws`: marker 00,
    flag 01, one witness per input, and if there are inputs at least one non-empty witness); both are `TxS.WF`.
    The view exposes the slice and `ioLen`; everything else is delivered through callbacks (C04). -/

theorem C03_complete_transaction (b : Nat) (t : TxS) (r : Bytes) (ht : t.WF) :
    (decTransaction ⟨b, encTx t ++ r⟩).res = .ok (viewTx b t, ⟨b + (encTx t).length, r⟩) := by
  rw [decTransaction_enc b t r ht]

/-- slice = the very bytes; `ioLen = none` for the legacy form, the byte length of input list + output list for the
    segwit form -/
theorem C03_view_transaction (b : Nat) (t : TxS) :
    (viewTx b t).slice = ⟨b, encTx t⟩ ∧
    (t.witnesses = none → (viewTx b t).ioLen = none) ∧
    (∀ ws, t.witnesses = some ws →
      (viewTx b t).ioLen = some ((encTxIns t.inputs).length + (encTxOuts t.outputs).length)) := by
  refine ⟨rfl, ?_, ?_⟩
  · intro h; simp only [viewTx, h]
  · intro ws h; simp only [viewTx, h]

theorem C03_sound_transaction {s : Slice} {o : TxV} {rem : Slice} (h : (decTransaction s).res = .ok (o, rem)) :
    ∃ t : TxS, t.WF ∧ s.bytes = encTx t ++ rem.bytes ∧ rem.base = s.base + (encTx t).length ∧
      o = viewTx s.base t :=
  decTransaction_eq_ok' h

theorem C03_unique_transaction {t t' : TxS} {r r' : Bytes} (ht : t.WF) (ht' : t'.WF)
    (h : encTx t ++ r = encTx t' ++ r') : t = t' ∧ r = r' :=
  encTx_unique ht ht' h

/-- why `TxS.WF` demands an input for the legacy form: the legacy serialization of a transaction without inputs is
    not accepted as such — its count byte 00 is read as the segwit marker (here the next byte 01 is then the flag, and
    the bytes decode as a *different*, segwit, transaction or fail) -/
example :
    (decTransaction ⟨0, encTx ⟨1, [], [], none, 0⟩⟩).res = .err (.unknownSegwitFlag 0) := by decide

/-- uniqueness really needs that side condition: without it the two forms collide (the legacy bytes of an input-less
    transaction with one output begin with a well-formed segwit transaction without inputs and outputs) -/
example :
    encTx ⟨1, [], [⟨0, []⟩], none, 0⟩ ++ [] = encTx ⟨1, [], [], some [], 0⟩ ++ List.replicate 7 0 := by decide

/-! ### block header -/

theorem C03_complete_header (b : Nat) (x : HeaderS) (r : Bytes) (hx : x.WF) :
    (decHeader ⟨b, encHeader x ++ r⟩).res = .ok (viewHeader b x, ⟨b + (encHeader x).length, r⟩) := by
  rw [decHeader_enc b x r hx]

theorem C03_view_header (b : Nat) {x : HeaderS} (hx : x.WF) :
    (viewHeader b x).slice = ⟨b, encHeader x⟩ ∧ (encHeader x).length = 80 ∧ fieldsHeader (viewHeader b x) = x :=
  ⟨rfl, encHeader_length hx, fields_viewHeader b hx⟩

theorem C03_sound_header {s : Slice} {o : HeaderV} {rem : Slice} (h : (decHeader s).res = .ok (o, rem)) :
    ∃ x : HeaderS, x.WF ∧ s.bytes = encHeader x ++ rem.bytes ∧ rem.base = s.base + (encHeader x).length ∧
      o = viewHeader s.base x ∧ fieldsHeader o = x := by
  obtain ⟨x, hw, e, hb, ho⟩ := decHeader_eq_ok' h
  exact ⟨x, hw, e, hb, ho, by rw [ho, fields_viewHeader _ hw]⟩

theorem C03_unique_header {x x' : HeaderS} {r r' : Bytes} (hx : x.WF) (hx' : x'.WF)
    (h : encHeader x ++ r = encHeader x' ++ r') : x = x' ∧ r = r' :=
  encHeader_unique hx hx' h

/-! ### block -/

theorem C03_complete_block (b : Nat) (k : BlockS) (r : Bytes) (hk : k.WF) :
    (decBlock ⟨b, encBlock k ++ r⟩).res = .ok (viewBlock b k, ⟨b + (encBlock k).length, r⟩) := by
  rw [decBlock_enc b k r hk]

theorem C03_view_block (b : Nat) (k : BlockS) :
    (viewBlock b k).slice = ⟨b, encBlock k⟩ ∧ (viewBlock b k).header = viewHeader b k.header ∧
    (viewBlock b k).totalTxs = k.txs.length := ⟨rfl, rfl, rfl⟩

theorem C03_sound_block {s : Slice} {o : BlockV} {rem : Slice} (h : (decBlock s).res = .ok (o, rem)) :
    ∃ k : BlockS, k.WF ∧ s.bytes = encBlock k ++ rem.bytes ∧ rem.base = s.base + (encBlock k).length ∧
      o = viewBlock s.base k :=
  decBlock_eq_ok' h

theorem C03_unique_block {k k' : BlockS} {r r' : Bytes} (hk : k.WF) (hk' : k'.WF)
    (h : encBlock k ++ r = encBlock k' ++ r') : k = k' ∧ r = r' :=
  encBlock_unique hk hk' h

/-! ### non-vacuity: concrete well-formed values -/

example : exLegacy.WF := by
  refine ⟨by decide, by decide, by decide, by decide, by decide, ?_, ?_, by show exLegacy.inputs ≠ []; decide⟩
  · intro i hi
    simp only [exLegacy, List.mem_singleton] at hi
    subst hi
    exact ⟨⟨by decide, by decide⟩, by decide, by decide⟩
  · intro o ho
    simp only [exLegacy, List.mem_singleton] at ho
    subst ho
    exact ⟨by decide, by decide⟩

example : exSegwit.WF := by
  refine ⟨by decide, by decide, by decide, by decide, by decide, ?_, ?_, ?_⟩
  · intro i hi
    simp only [exSegwit, exLegacy, List.mem_singleton] at hi
    subst hi
    exact ⟨⟨by decide, by decide⟩, by decide, by decide⟩
  · intro o ho
    simp only [exSegwit, exLegacy, List.mem_singleton] at ho
    subst ho
    exact ⟨by decide, by decide⟩
  · show [[[0x30, 0x31]]].length = exSegwit.inputs.length ∧ _
    refine ⟨rfl, ?_, fun _ => ⟨_, List.mem_singleton.2 rfl, by decide⟩⟩
    intro w hw
    rw [List.mem_singleton.1 hw]
    exact ⟨by decide, by intro e he; rw [List.mem_singleton.1 he]; decide⟩

/-- a block of two transactions (one legacy, one segwit) decodes to its canonical view and leaves nothing -/
example : (decBlock ⟨0, encBlock exBlock⟩).res = .ok (viewBlock 0 exBlock, ⟨(encBlock exBlock).length, []⟩) := by
  decide +kernel

example : (decTransaction ⟨10, encTx exSegwit ++ [9, 9]⟩).res =
    .ok (viewTx 10 exSegwit, ⟨10 + (encTx exSegwit).length, [9, 9]⟩) := by decide

example : (decTxIn ⟨3, encTxIn ⟨⟨List.replicate 32 7, 5⟩, [1, 2, 3], 9⟩ ++ [1]⟩) =
    .ok (viewTxIn 3 ⟨⟨List.replicate 32 7, 5⟩, [1, 2, 3], 9⟩, ⟨3 + 44, [1]⟩) := by decide

/-! ## L1 corollaries (generated by tools/genlift.py) -/
section L1
open BS.Ref BS.Lift

/-- soundness for the model of the code, under every visitor: whatever `Transaction::visit` accepts begins with the
    encoding of a well-formed transaction, consumes exactly that encoding, and the object is the view of that value -/
theorem C03_L1_sound_transaction {σ : Type} {s : Slice} (hs : s.len < 2 ^ 62) {v : Visitor σ} {st st' : σ} {o : TxV} {rem : Slice}
    (h : Transaction.visit s v st = (st', .ok (o, rem))) :
    ∃ t : TxS, t.WF ∧ s.bytes = encTx t ++ rem.bytes ∧ rem.base = s.base + (encTx t).length ∧ o = viewTx s.base t :=
  C03_sound_transaction (ok_of_sim (fun v st => refine_transaction s hs v st) h)

/-- completeness for the model of the code: every encoding of a well-formed transaction, followed by anything, parses -/
theorem C03_L1_complete_transaction (b : Nat) (t : TxS) (r : Bytes) (ht : t.WF) (hl : (encTx t ++ r).length < 2 ^ 62) :
    parseOf (Transaction.visit ⟨b, encTx t ++ r⟩) = .ok (viewTx b t, ⟨b + (encTx t).length, r⟩) := by
  rw [parseOf_transaction _ (by simpa [Slice.len] using hl)]; exact C03_complete_transaction b t r ht

theorem C03_L1_sound_block {σ : Type} {s : Slice} (hs : s.len < 2 ^ 62) {v : Visitor σ} {st st' : σ} {o : BlockV} {rem : Slice}
    (h : Block.visit s v st = (st', .ok (o, rem))) :
    ∃ k : BlockS, k.WF ∧ s.bytes = encBlock k ++ rem.bytes ∧ rem.base = s.base + (encBlock k).length ∧ o = viewBlock s.base k :=
  C03_sound_block (ok_of_sim (fun v st => refine_block s hs v st) h)

theorem C03_L1_complete_block (b : Nat) (k : BlockS) (r : Bytes) (hk : k.WF) (hl : (encBlock k ++ r).length < 2 ^ 62) :
    parseOf (Block.visit ⟨b, encBlock k ++ r⟩) = .ok (viewBlock b k, ⟨b + (encBlock k).length, r⟩) := by
  rw [parseOf_block _ (by simpa [Slice.len] using hl)]; exact C03_complete_block b k r hk

/-- accept iff: the model of the code accepts a slice exactly when it begins with a well-formed encoding -/
theorem C03_L1_accepts_iff_transaction (s : Slice) (hs : s.len < 2 ^ 62) :
    (∃ o rem, parseOf (Transaction.visit s) = .ok (o, rem)) ↔ ∃ (t : TxS) (r : Bytes), t.WF ∧ s.bytes = encTx t ++ r := by
  rw [parseOf_transaction s hs]
  constructor
  · rintro ⟨o, rem, h⟩
    obtain ⟨t, ht, hb, _, _⟩ := C03_sound_transaction h
    exact ⟨t, rem.bytes, ht, hb⟩
  · rintro ⟨t, r, ht, hb⟩
    obtain ⟨b, bs⟩ := s
    simp only at hb; subst hb
    exact ⟨_, _, C03_complete_transaction b t r ht⟩

end L1

end BS
