import BS.Lemmas.FinFind
import BS.Lemmas.EncBlock
/-
  C19 — `Block::find` / the `FindTransaction` visitor: searching a block for a transaction id.

  `findVisitor` (BS/Impl/Extra.lean) overrides only `visit_transaction`: it computes `tx.txid()` (double SHA-256 of
  the txid preimage, `Sha256.sha256d` being the definition of double SHA-256), on a match stores the transaction's
  bytes and answers Break; `panicked` records a panic inside the callback. The search is
  `Block.visit s findVisitor ⟨id, none, false⟩`.

  Throughout `t := (Spec.decBlock s).trace` is the callback sequence of an undisturbed run over `s` and
  `r := (Spec.decBlock s).res` its result (L1 = L2 by `Ref.refine_block`, inputs below 2^62 bytes).
  Property theorems only. Helper lemmas: BS/Lemmas/FinTrace.lean (where `transaction` callbacks come from:
  `Fin.NoTx`, `Fin.TxShape`, `Fin.txEvents`), BS/Lemmas/FinFind.lean (the visitor on a callback sequence).
-/
namespace BS
open Spec

/-! ### structure: where `transaction` callbacks come from -/

/-- one transaction run makes exactly one `transaction` callback — the last callback of a successful run, carrying the
    object the run returns (everything before it is inputs / outputs / witness callbacks) — and none when it fails -/
theorem C19_transaction_single_event (s : Slice) :
    (∀ o rem, (decTransaction s).res = .ok (o, rem) →
      ∃ pre, (∀ e ∈ pre, ∀ tx, e ≠ Event.transaction tx) ∧ (decTransaction s).trace = pre ++ [.transaction o]) ∧
    ((∀ a, (decTransaction s).res ≠ .ok a) → ∀ e ∈ (decTransaction s).trace, ∀ tx, e ≠ Event.transaction tx) := by
  have key : ∀ {tr : List Event}, Fin.NoTx tr → ∀ e ∈ tr, ∀ tx, e ≠ Event.transaction tx := by
    intro tr h e he tx hx
    subst hx
    exact h.not_mem tx he
  refine ⟨fun o rem h => ?_, fun h => key (Fin.decTransaction_trace_fail h)⟩
  obtain ⟨pre, hp, e⟩ := Fin.decTransaction_trace_ok h
  exact ⟨pre, key hp, e⟩

/-- the transactions a transaction run shows to the visitor: the one it returns, or none -/
theorem C19_transaction_txEvents (s : Slice) :
    Fin.txEvents (decTransaction s).trace =
      match (decTransaction s).res with
      | .ok (o, _) => [o]
      | _ => [] :=
  Fin.decTransaction_txEvents s

/-- every `transaction tx` callback of a block run comes from a successful `decTransaction` on what is left of the
    input at that point (`s'`: a suffix of `s`, same absolute offsets), and `tx` is the object that run returns -/
theorem C19_tx_event_origin {s : Slice} {tx : TxV} (h : Event.transaction tx ∈ (decBlock s).trace) :
    ∃ s' rem pre, s.bytes = pre ++ s'.bytes ∧ s'.base = s.base + pre.length ∧ s'.len ≤ s.len ∧
      (decTransaction s').res = .ok (tx, rem) := by
  obtain ⟨s', rem, ⟨pre, e, b⟩, hl, hd⟩ := Fin.decBlock_tx_origin h
  exact ⟨s', rem, pre, e, b, hl, hd⟩

/-- … hence `txid()` never panics inside the callback: it is the double SHA-256 of the stripped serialization -/
theorem C19_tx_event_txid {s : Slice} (hs : s.len < 2 ^ 62) {tx : TxV}
    (h : Event.transaction tx ∈ (decBlock s).trace) : ∃ id, tx.txid = .ok id :=
  Fin.decBlock_tx_txid hs h

/-- … and the bytes of `tx` are the canonical encoding of a well-formed transaction -/
theorem C19_tx_event_is_encoding {s : Slice} {tx : TxV} (h : Event.transaction tx ∈ (decBlock s).trace) :
    ∃ x : TxS, x.WF ∧ tx.slice.bytes = encTx x := by
  obtain ⟨s', rem, _, _, hd⟩ := Fin.decBlock_tx_origin h
  obtain ⟨x, hw, _, _, rfl⟩ := Enc.decTransaction_eq_ok' hd
  exact ⟨x, hw, rfl⟩

/-! ### the search -/

/-- found: if position `i` of the callback sequence is the FIRST `transaction` callback whose transaction has id `id`,
    the search stores the bytes of that transaction, stops there with `VisitBreak`, and does not panic -/
theorem C19_find_found {s : Slice} (hs : s.len < 2 ^ 62) {id : Bytes} {i : Nat} {tx : TxV}
    (hi : (decBlock s).trace[i]? = some (.transaction tx)) (hid : tx.txid = .ok id)
    (hfirst : ∀ j tx', j < i → (decBlock s).trace[j]? = some (.transaction tx') → tx'.txid ≠ .ok id) :
    Block.visit s findVisitor ⟨id, none, false⟩ = (⟨id, some tx.slice.bytes, false⟩, .err .visitBreak) := by
  rw [Ref.refine_block s hs]
  exact Fin.find_run_found (decBlock s) (fun tx' h => Fin.decBlock_tx_txid hs h) ⟨hi, hid, hfirst⟩

/-- absent: if no transaction shown has id `id`, nothing is stored, nothing panics, and the visit's result is the
    plain decode result (`ok` for a valid block) -/
theorem C19_find_absent {s : Slice} (hs : s.len < 2 ^ 62) {id : Bytes}
    (h : ∀ tx, Event.transaction tx ∈ (decBlock s).trace → tx.txid ≠ .ok id) :
    Block.visit s findVisitor ⟨id, none, false⟩ = (⟨id, none, false⟩, (decBlock s).res) := by
  rw [Ref.refine_block s hs]
  exact Fin.find_run_absent (decBlock s) (fun tx' h => Fin.decBlock_tx_txid hs h) h

/-- the same with the callback sequence split at the match: `t = pre ++ transaction tx :: post`, no transaction of
    `pre` has the id -/
theorem C19_find_found_split {s : Slice} (hs : s.len < 2 ^ 62) {id : Bytes} {tx : TxV} {pre post : List Event}
    (ht : (decBlock s).trace = pre ++ Event.transaction tx :: post) (hid : tx.txid = .ok id)
    (hfirst : ∀ tx' ∈ Fin.txEvents pre, tx'.txid ≠ .ok id) :
    Block.visit s findVisitor ⟨id, none, false⟩ = (⟨id, some tx.slice.bytes, false⟩, .err .visitBreak) := by
  refine C19_find_found hs (i := pre.length) (by rw [ht]; simp) hid ?_
  intro j tx' hj hg
  rw [ht, List.getElem?_append_left hj] at hg
  exact hfirst tx' (Fin.mem_txEvents.2 (List.mem_of_getElem? hg))

/-- the two cases are exhaustive: the search is a function of the callback sequence -/
theorem C19_find_cases {s : Slice} (hs : s.len < 2 ^ 62) (id : Bytes) :
    (∃ (i : Nat) (tx : TxV), (decBlock s).trace[i]? = some (Event.transaction tx) ∧ tx.txid = .ok id ∧
        (∀ j tx', j < i → (decBlock s).trace[j]? = some (.transaction tx') → tx'.txid ≠ .ok id) ∧
        Block.visit s findVisitor ⟨id, none, false⟩ = (⟨id, some tx.slice.bytes, false⟩, .err .visitBreak)) ∨
    ((∀ tx, Event.transaction tx ∈ (decBlock s).trace → tx.txid ≠ .ok id) ∧
        Block.visit s findVisitor ⟨id, none, false⟩ = (⟨id, none, false⟩, (decBlock s).res)) := by
  by_cases h : ∃ tx, Event.transaction tx ∈ (decBlock s).trace ∧ tx.txid = .ok id
  · obtain ⟨i, tx, h1, h2, h3⟩ := Fin.exists_firstAt h
    exact .inl ⟨i, tx, h1, h2, h3, C19_find_found hs h1 h2 h3⟩
  · have h' : ∀ tx, Event.transaction tx ∈ (decBlock s).trace → tx.txid ≠ .ok id :=
      fun tx hm hx => h ⟨tx, hm, hx⟩
    exact .inr ⟨h', C19_find_absent hs h'⟩

/-- something is found exactly when some transaction shown to the visitor has the wanted id; the search never panics —
    neither inside the callback (`panicked`) nor in the parser (the result) -/
theorem C19_find_iff {s : Slice} (hs : s.len < 2 ^ 62) (id : Bytes) :
    ((Block.visit s findVisitor ⟨id, none, false⟩).1.found.isSome = true ↔
      ∃ tx ∈ Fin.txEvents (decBlock s).trace, tx.txid = .ok id) ∧
    (Block.visit s findVisitor ⟨id, none, false⟩).1.panicked = false ∧
    (Block.visit s findVisitor ⟨id, none, false⟩).1.toFind = id ∧
    (Block.visit s findVisitor ⟨id, none, false⟩).2.isPanic = false := by
  rcases C19_find_cases hs id with ⟨i, tx, h1, h2, _, hv⟩ | ⟨h, hv⟩
  · rw [hv]
    exact ⟨⟨fun _ => ⟨tx, Fin.mem_txEvents.2 (List.mem_of_getElem? h1), h2⟩, fun _ => rfl⟩, rfl, rfl, rfl⟩
  · rw [hv]
    refine ⟨⟨fun hf => (by cases hf), ?_⟩, rfl, rfl, ?_⟩
    · rintro ⟨tx, hm, hx⟩
      exact absurd hx (h tx (Fin.mem_txEvents.1 hm))
    · have hc := Enc.decBlock_clean s
      cases hr : (decBlock s).res with
      | ok a => rfl
      | err e => rfl
      | panic p => rw [hr] at hc; exact hc.elim

/-- the result of the search: `VisitBreak` exactly when found, otherwise the decode result -/
theorem C19_find_result {s : Slice} (hs : s.len < 2 ^ 62) (id : Bytes) :
    (Block.visit s findVisitor ⟨id, none, false⟩).2 =
      if (Block.visit s findVisitor ⟨id, none, false⟩).1.found.isSome then .err .visitBreak else (decBlock s).res := by
  rcases C19_find_cases hs id with ⟨i, tx, _, _, _, hv⟩ | ⟨_, hv⟩
  · rw [hv]; rfl
  · rw [hv]; rfl

/-! ### what is stored -/

/-- when something is found, it is the bytes of the first transaction callback with that id, and these are the bytes
    of the input at that transaction's range: the view `tx.slice` lies inside `s`; they are the canonical encoding of
    a well-formed transaction -/
theorem C19_found_is_tx_bytes {s : Slice} (hs : s.len < 2 ^ 62) {id b : Bytes}
    (h : (Block.visit s findVisitor ⟨id, none, false⟩).1.found = some b) :
    ∃ (i : Nat) (tx : TxV), (decBlock s).trace[i]? = some (Event.transaction tx) ∧ tx.txid = .ok id ∧
      (∀ j tx', j < i → (decBlock s).trace[j]? = some (.transaction tx') → tx'.txid ≠ .ok id) ∧
      b = tx.slice.bytes ∧
      s.base ≤ tx.slice.base ∧ tx.slice.base + tx.slice.len ≤ s.base + s.len ∧
      tx.slice.bytes = (s.bytes.drop (tx.slice.base - s.base)).take tx.slice.len ∧
      ∃ x : TxS, x.WF ∧ b = encTx x := by
  rcases C19_find_cases hs id with ⟨i, tx, h1, h2, h3, hv⟩ | ⟨_, hv⟩
  · rw [hv] at h
    simp only [Option.some.injEq] at h
    have hm : Event.transaction tx ∈ (decBlock s).trace := List.mem_of_getElem? h1
    obtain ⟨i1, i2, i3⟩ := Enc.decBlock_inside s _ hm tx.slice (by simp [Enc.Event.slices])
    obtain ⟨x, hw, hx⟩ := C19_tx_event_is_encoding hm
    exact ⟨i, tx, h1, h2, h3, h.symm, i1, i2, i3, x, hw, by rw [← h, hx]⟩
  · rw [hv] at h
    cases h

/-! ### non-vacuity: a block of two tiny transactions at offset 0 -/

/-- 12 bytes, segwit form, no inputs, no outputs -/
def C19_exTxA : Bytes := [1,0,0,0, 0,1, 0, 0, 0,0,0,0]
/-- 51 bytes, legacy form, one input (empty script), no outputs -/
def C19_exTxB : Bytes := [2,0,0,0, 1] ++ List.replicate 36 0xAB ++ [0, 0xFF,0xFF,0xFF,0xFF, 0, 7,0,0,0]
def C19_exBlock : Slice := ⟨0, List.replicate 80 0x11 ++ [2] ++ C19_exTxA ++ C19_exTxB⟩
/-- the first transaction twice -/
def C19_exBlockAA : Slice := ⟨0, List.replicate 80 0x11 ++ [2] ++ C19_exTxA ++ C19_exTxA⟩
def C19_exViewA : TxV := ⟨⟨81, C19_exTxA⟩, some 2⟩
def C19_exViewB : TxV := ⟨⟨93, C19_exTxB⟩, none⟩
/-- the id of A: the marker, flag (and witnesses) are not hashed -/
def C19_exIdA : Bytes := Sha256.sha256d [1,0,0,0, 0, 0, 0,0,0,0]
def C19_exIdB : Bytes := Sha256.sha256d C19_exTxB

example : (decBlock C19_exBlock).trace.length = 10 := by decide +kernel
example : Fin.txEvents (decBlock C19_exBlock).trace = [C19_exViewA, C19_exViewB] := by decide +kernel
example : (decBlock C19_exBlock).trace[5]? = some (.transaction C19_exViewA) := by decide +kernel
example : (decBlock C19_exBlock).trace[9]? = some (.transaction C19_exViewB) := by decide +kernel
/-- the ids, without evaluating SHA-256 -/
theorem C19_ex_txid : C19_exViewA.txid = .ok C19_exIdA ∧ C19_exViewB.txid = .ok C19_exIdB :=
  ⟨Fin.txid_of_preimage (by decide +kernel), Fin.txid_of_preimage (by decide +kernel)⟩

/-- searching for A (the first transaction; nothing to compare before it) -/
example : Block.visit C19_exBlock findVisitor ⟨C19_exIdA, none, false⟩ =
    (⟨C19_exIdA, some C19_exTxA, false⟩, .err .visitBreak) :=
  C19_find_found_split (s := C19_exBlock) (by decide +kernel) (tx := C19_exViewA)
    (pre := (decBlock C19_exBlock).trace.take 5) (post := (decBlock C19_exBlock).trace.drop 6)
    (by decide +kernel) C19_ex_txid.1 (by decide +kernel)

/-- searching for B: the hypotheses of `C19_find_found_split` hold with `pre` = the first nine callbacks
    (this one evaluates the two hashes: the id of A differs from the id of B) -/
example : Block.visit C19_exBlock findVisitor ⟨C19_exIdB, none, false⟩ =
    (⟨C19_exIdB, some C19_exTxB, false⟩, .err .visitBreak) :=
  C19_find_found_split (s := C19_exBlock) (by decide +kernel) (tx := C19_exViewB)
    (pre := (decBlock C19_exBlock).trace.take 9) (post := []) (by decide +kernel) C19_ex_txid.2
    (by decide +kernel)

/-- searching for A in the block that holds it twice: the first copy (offset 81) is the one found -/
example : (decBlock C19_exBlockAA).trace[5]? = some (.transaction C19_exViewA) ∧
    (decBlock C19_exBlockAA).trace[9]? = some (.transaction ⟨⟨93, C19_exTxA⟩, some 2⟩) ∧
    Block.visit C19_exBlockAA findVisitor ⟨C19_exIdA, none, false⟩ =
      (⟨C19_exIdA, some C19_exViewA.slice.bytes, false⟩, .err .visitBreak) :=
  ⟨by decide +kernel, by decide +kernel,
   C19_find_found_split (s := C19_exBlockAA) (by decide +kernel) (tx := C19_exViewA)
    (pre := (decBlock C19_exBlockAA).trace.take 5) (post := (decBlock C19_exBlockAA).trace.drop 6)
    (by decide +kernel) C19_ex_txid.1 (by decide +kernel)⟩

/-- searching for an id no transaction has (a wrong-length id: no hash needs to be evaluated) -/
example : Block.visit C19_exBlock findVisitor ⟨[], none, false⟩ =
    (⟨[], none, false⟩, .ok (⟨C19_exBlock, ⟨⟨0, List.replicate 80 0x11⟩, 286331153, 286331153, 286331153, 286331153⟩, 2⟩,
      ⟨144, []⟩)) := by
  rw [C19_find_absent (s := C19_exBlock) (by decide +kernel)]
  · decide +kernel
  · intro tx hm
    have hm' := Fin.mem_txEvents.2 hm
    have : ∀ tx ∈ Fin.txEvents (decBlock C19_exBlock).trace, tx.txid ≠ .ok [] := by decide +kernel
    exact this tx hm'

/-- the L1 model run directly (no theorem involved) agrees -/
example : Block.visit C19_exBlock findVisitor ⟨[], none, false⟩ =
    (⟨[], none, false⟩, .ok (⟨C19_exBlock, ⟨⟨0, List.replicate 80 0x11⟩, 286331153, 286331153, 286331153, 286331153⟩, 2⟩,
      ⟨144, []⟩)) := by decide +kernel
example : (Block.visit C19_exBlock findVisitor ⟨C19_exIdA, none, false⟩).1.found = some C19_exTxA := by decide +kernel

end BS
