import BS.Props.C19
import BS.Props.C03
import BS.Lemmas.ExtConv
import BS.Lemmas.ExtConvEv
import BS.Lemmas.Lift
/-
  C19 (continued) — conversions of parsed views to the rust-bitcoin value types (feature `bitcoin`), at the level the
  model can express. The conversions are defined in BS/Lemmas/ExtConv.lean exactly as the Rust code performs them, on
  top of the L1 accessors (which can panic):

    convOutPoint o = Txid::from_byte_array(o.txid().try_into().unwrap()), vout: o.vout()
    convTxOut o    = Amount::from_sat(o.value()), o.script_pubkey().to_vec().into()
    convScript v   = v.script().to_vec()
    convTxIn i     = previous_output: (&i.prevout()).into(), script_sig: i.script_sig().to_vec(), sequence

  The owned rust-bitcoin values are modelled by the abstract values of BS/Spec/Wire.lean, "re-serializing" by the
  canonical encoders there. For every view a decoder returns: the conversion never panics, the value it yields is
  well formed, re-serializes to exactly the bytes of the view, and is the value `fieldsX` reads from the exposed
  fields; and decoding the encoding of a well-formed value and converting gives that value back.
-/
namespace BS
open Spec Enc Ext

/-! ### L2: views returned by the reference decoders -/

theorem C19_conv_outpoint {s : Slice} {o : OutPointV} {rem : Slice} (h : decOutPoint s = .ok (o, rem)) :
    ∃ x, convOutPoint o = .ok x ∧ x.WF ∧ encOutPoint x = o.slice.bytes ∧ x = fieldsOutPoint o := by
  obtain ⟨x, hw, _, _, ho, hf⟩ := C03_sound_outpoint h
  subst ho
  exact ⟨x, convOutPoint_view _ hw, hw, rfl, hf.symm⟩

theorem C19_conv_script {s : Slice} {o : ScriptV} {rem : Slice} (h : decScript s = .ok (o, rem)) :
    ∃ x, convScript o = .ok x ∧ x.length < 2 ^ 64 ∧ encVarBytes x = o.slice.bytes ∧ x = fieldsScript o := by
  obtain ⟨x, hw, _, _, ho, hf⟩ := C03_sound_script h
  subst ho
  exact ⟨x, convScript_view _ x, hw, rfl, hf.symm⟩

theorem C19_conv_txout {s : Slice} {o : TxOutV} {rem : Slice} (h : decTxOut s = .ok (o, rem)) :
    ∃ x, convTxOut o = .ok x ∧ x.WF ∧ encTxOut x = o.slice.bytes ∧ x = fieldsTxOut o := by
  obtain ⟨x, hw, _, _, ho, hf⟩ := C03_sound_txout h
  subst ho
  exact ⟨x, convTxOut_view _ x, hw, rfl, hf.symm⟩

theorem C19_conv_txin {s : Slice} {o : TxInV} {rem : Slice} (h : decTxIn s = .ok (o, rem)) :
    ∃ x, convTxIn o = .ok x ∧ x.WF ∧ encTxIn x = o.slice.bytes ∧ x = fieldsTxIn o := by
  obtain ⟨x, hw, _, _, ho, hf⟩ := C03_sound_txin h
  subst ho
  exact ⟨x, convTxIn_view _ hw, hw, rfl, hf.symm⟩

/-- the value converted from the `prevout` sub-view of an input is the `prevout` of the converted input, and likewise
    for the script: converting commutes with taking sub-views -/
theorem C19_conv_txin_parts {s : Slice} {o : TxInV} {rem : Slice} (h : decTxIn s = .ok (o, rem)) :
    ∃ x, convTxIn o = .ok x ∧ convOutPoint o.prevout = .ok x.prevout ∧ convScript o.scriptSig = .ok x.scriptSig := by
  obtain ⟨x, hw, _, _, ho, _⟩ := C03_sound_txin h
  subst ho
  exact ⟨x, convTxIn_view _ hw, convOutPoint_view _ hw.1, convScript_view _ _⟩

theorem C19_conv_txout_parts {s : Slice} {o : TxOutV} {rem : Slice} (h : decTxOut s = .ok (o, rem)) :
    ∃ x, convTxOut o = .ok x ∧ x.value = o.value ∧ convScript o.scriptPubkey = .ok x.scriptPubkey := by
  obtain ⟨x, hw, _, _, ho, _⟩ := C03_sound_txout h
  subst ho
  exact ⟨x, convTxOut_view _ x, rfl, convScript_view _ _⟩

/-! ### round trip: encode a well-formed value, decode (anything may follow), convert -/

theorem C19_conv_complete_outpoint (b : Nat) (x : OutPointS) (r : Bytes) (hx : x.WF) :
    ∃ o, decOutPoint ⟨b, encOutPoint x ++ r⟩ = .ok (o, ⟨b + (encOutPoint x).length, r⟩) ∧ convOutPoint o = .ok x :=
  ⟨_, C03_complete_outpoint b x r hx, convOutPoint_view b hx⟩

theorem C19_conv_complete_script (b : Nat) (x r : Bytes) (hx : x.length < 2 ^ 64) :
    ∃ o, decScript ⟨b, encVarBytes x ++ r⟩ = .ok (o, ⟨b + (encVarBytes x).length, r⟩) ∧ convScript o = .ok x :=
  ⟨_, C03_complete_script b x r hx, convScript_view b x⟩

theorem C19_conv_complete_txout (b : Nat) (x : TxOutS) (r : Bytes) (hx : x.WF) :
    ∃ o, decTxOut ⟨b, encTxOut x ++ r⟩ = .ok (o, ⟨b + (encTxOut x).length, r⟩) ∧ convTxOut o = .ok x :=
  ⟨_, C03_complete_txout b x r hx, convTxOut_view b x⟩

theorem C19_conv_complete_txin (b : Nat) (x : TxInS) (r : Bytes) (hx : x.WF) :
    ∃ o, decTxIn ⟨b, encTxIn x ++ r⟩ = .ok (o, ⟨b + (encTxIn x).length, r⟩) ∧ convTxIn o = .ok x :=
  ⟨_, C03_complete_txin b x r hx, convTxIn_view b hx⟩

/-- the round trip as one equation in the `Res` monad -/
theorem C19_conv_roundtrip_outpoint (b : Nat) (x : OutPointS) (r : Bytes) (hx : x.WF) :
    (decOutPoint ⟨b, encOutPoint x ++ r⟩ >>= fun p => convOutPoint p.1) = .ok x := by
  rw [C03_complete_outpoint b x r hx]; exact convOutPoint_view b hx

theorem C19_conv_roundtrip_txout (b : Nat) (x : TxOutS) (r : Bytes) (hx : x.WF) :
    (decTxOut ⟨b, encTxOut x ++ r⟩ >>= fun p => convTxOut p.1) = .ok x := by
  rw [C03_complete_txout b x r hx]; exact convTxOut_view b x

/-- the converted value determines the bytes and vice versa: two parsed outputs convert to the same value exactly when
    their views hold the same bytes -/
theorem C19_conv_injective_txout {s s' : Slice} {o o' : TxOutV} {rem rem' : Slice}
    (h : decTxOut s = .ok (o, rem)) (h' : decTxOut s' = .ok (o', rem')) :
    convTxOut o = convTxOut o' ↔ o.slice.bytes = o'.slice.bytes := by
  obtain ⟨x, hc, hw, he, _⟩ := C19_conv_txout h
  obtain ⟨x', hc', hw', he', _⟩ := C19_conv_txout h'
  rw [hc, hc', ← he, ← he']
  constructor
  · intro hx; cases hx; rfl
  · intro hb
    have := (C03_unique_txout (r := []) (r' := []) hw hw' (by rw [hb])).1
    rw [this]

/-! ### L1: the views returned by the transcribed parsers `OutPoint::parse`, `Script::parse`, `TxOut::parse`,
    `TxIn::parse` -/

theorem C19_L1_conv_outpoint {s : Slice} {o : OutPointV} {rem : Slice} (h : OutPoint.parse s = .ok (o, rem)) :
    ∃ x, convOutPoint o = .ok x ∧ x.WF ∧ encOutPoint x = o.slice.bytes ∧ x = fieldsOutPoint o := by
  rw [Ref.refine_outpoint] at h; exact C19_conv_outpoint h

theorem C19_L1_conv_script {s : Slice} (hs : s.len < 2 ^ 62) {o : ScriptV} {rem : Slice}
    (h : Script.parse s = .ok (o, rem)) :
    ∃ x, convScript o = .ok x ∧ x.length < 2 ^ 64 ∧ encVarBytes x = o.slice.bytes ∧ x = fieldsScript o := by
  rw [Ref.refine_script s hs] at h; exact C19_conv_script h

theorem C19_L1_conv_txout {s : Slice} (hs : s.len < 2 ^ 62) {o : TxOutV} {rem : Slice}
    (h : TxOut.parse s = .ok (o, rem)) :
    ∃ x, convTxOut o = .ok x ∧ x.WF ∧ encTxOut x = o.slice.bytes ∧ x = fieldsTxOut o := by
  rw [Ref.refine_txout s hs] at h; exact C19_conv_txout h

theorem C19_L1_conv_txin {s : Slice} (hs : s.len < 2 ^ 62) {o : TxInV} {rem : Slice}
    (h : TxIn.parse s = .ok (o, rem)) :
    ∃ x, convTxIn o = .ok x ∧ x.WF ∧ encTxIn x = o.slice.bytes ∧ x = fieldsTxIn o := by
  rw [Ref.refine_txin s hs] at h; exact C19_conv_txin h

theorem C19_L1_conv_complete_outpoint (b : Nat) (x : OutPointS) (r : Bytes) (hx : x.WF) :
    ∃ o, OutPoint.parse ⟨b, encOutPoint x ++ r⟩ = .ok (o, ⟨b + (encOutPoint x).length, r⟩) ∧
      convOutPoint o = .ok x := by
  rw [Ref.refine_outpoint]; exact C19_conv_complete_outpoint b x r hx

theorem C19_L1_conv_complete_txout (b : Nat) (x : TxOutS) (r : Bytes) (hx : x.WF)
    (hl : (encTxOut x ++ r).length < 2 ^ 62) :
    ∃ o, TxOut.parse ⟨b, encTxOut x ++ r⟩ = .ok (o, ⟨b + (encTxOut x).length, r⟩) ∧ convTxOut o = .ok x := by
  rw [Ref.refine_txout _ (by simpa [Slice.len] using hl)]; exact C19_conv_complete_txout b x r hx

theorem C19_L1_conv_complete_txin (b : Nat) (x : TxInS) (r : Bytes) (hx : x.WF)
    (hl : (encTxIn x ++ r).length < 2 ^ 62) :
    ∃ o, TxIn.parse ⟨b, encTxIn x ++ r⟩ = .ok (o, ⟨b + (encTxIn x).length, r⟩) ∧ convTxIn o = .ok x := by
  rw [Ref.refine_txin _ (by simpa [Slice.len] using hl)]; exact C19_conv_complete_txin b x r hx

/-! ### inside a visitor: the objects the element callbacks deliver

  The conversions are typically called from `visit_tx_in` / `visit_tx_out`. Every such callback of every transaction
  or block run — successful or failing, so also the callbacks made before an error is detected — carries a view on
  which the conversion succeeds, yields a well-formed value, and that value re-serializes to the bytes of the view. -/

theorem C19_conv_callback_txin_transaction {s : Slice} {i : Nat} {o : TxInV}
    (h : Event.txIn i o ∈ (decTransaction s).trace) :
    ∃ x, convTxIn o = .ok x ∧ x.WF ∧ encTxIn x = o.slice.bytes ∧ x = fieldsTxIn o :=
  decTransaction_conv s _ h

theorem C19_conv_callback_txout_transaction {s : Slice} {i : Nat} {o : TxOutV}
    (h : Event.txOut i o ∈ (decTransaction s).trace) :
    ∃ x, convTxOut o = .ok x ∧ x.WF ∧ encTxOut x = o.slice.bytes ∧ x = fieldsTxOut o :=
  decTransaction_conv s _ h

theorem C19_conv_callback_txin_block {s : Slice} {i : Nat} {o : TxInV}
    (h : Event.txIn i o ∈ (decBlock s).trace) :
    ∃ x, convTxIn o = .ok x ∧ x.WF ∧ encTxIn x = o.slice.bytes ∧ x = fieldsTxIn o :=
  decBlock_conv s _ h

theorem C19_conv_callback_txout_block {s : Slice} {i : Nat} {o : TxOutV}
    (h : Event.txOut i o ∈ (decBlock s).trace) :
    ∃ x, convTxOut o = .ok x ∧ x.WF ∧ encTxOut x = o.slice.bytes ∧ x = fieldsTxOut o :=
  decBlock_conv s _ h

/-- on the model of the code: every `visit_tx_out` call the recording visitor receives during `Block::visit` -/
theorem C19_L1_conv_callback_txout_block {s : Slice} (hs : s.len < 2 ^ 62) {i : Nat} {o : TxOutV}
    (h : Event.txOut i o ∈ ((Block.visit s) recorder []).1) :
    ∃ x, convTxOut o = .ok x ∧ x.WF ∧ encTxOut x = o.slice.bytes ∧ x = fieldsTxOut o := by
  rw [Lift.recorder_eq (fun v st => Ref.refine_block s hs v st)] at h
  exact C19_conv_callback_txout_block (List.mem_reverse.1 h)

theorem C19_L1_conv_callback_txin_block {s : Slice} (hs : s.len < 2 ^ 62) {i : Nat} {o : TxInV}
    (h : Event.txIn i o ∈ ((Block.visit s) recorder []).1) :
    ∃ x, convTxIn o = .ok x ∧ x.WF ∧ encTxIn x = o.slice.bytes ∧ x = fieldsTxIn o := by
  rw [Lift.recorder_eq (fun v st => Ref.refine_block s hs v st)] at h
  exact C19_conv_callback_txin_block (List.mem_reverse.1 h)

theorem C19_L1_conv_callback_txout_transaction {s : Slice} (hs : s.len < 2 ^ 62) {i : Nat} {o : TxOutV}
    (h : Event.txOut i o ∈ ((Transaction.visit s) recorder []).1) :
    ∃ x, convTxOut o = .ok x ∧ x.WF ∧ encTxOut x = o.slice.bytes ∧ x = fieldsTxOut o := by
  rw [Lift.recorder_eq (fun v st => Ref.refine_transaction s hs v st)] at h
  exact C19_conv_callback_txout_transaction (List.mem_reverse.1 h)

theorem C19_L1_conv_callback_txin_transaction {s : Slice} (hs : s.len < 2 ^ 62) {i : Nat} {o : TxInV}
    (h : Event.txIn i o ∈ ((Transaction.visit s) recorder []).1) :
    ∃ x, convTxIn o = .ok x ∧ x.WF ∧ encTxIn x = o.slice.bytes ∧ x = fieldsTxIn o := by
  rw [Lift.recorder_eq (fun v st => Ref.refine_transaction s hs v st)] at h
  exact C19_conv_callback_txin_transaction (List.mem_reverse.1 h)

/-- the example block of C19: its run delivers one `visit_tx_in` callback (transaction B has one input) -/
example : (decBlock C19_exBlock).trace.countP (fun e => match e with | .txIn _ _ => true | _ => false) = 1 := by
  decide +kernel

/-! ### the conversions can panic on views no parser returns (so "never panics" above has content) -/

/-- a 35-byte "outpoint": `txid()` is fine but `vout()` indexes out of range -/
example : convOutPoint ⟨⟨0, List.replicate 35 0⟩⟩ = .panic .index := by decide
/-- a script view whose `from` lies beyond its slice -/
example : convScript ⟨⟨0, [0]⟩, 2⟩ = .panic .index := by decide

/-! ### non-vacuity -/

example : OutPoint.parse ⟨5, List.replicate 32 0xAB ++ [1, 0, 0, 0] ++ [9]⟩ =
    .ok (⟨⟨5, List.replicate 32 0xAB ++ [1, 0, 0, 0]⟩⟩, ⟨41, [9]⟩) := by decide
example : convOutPoint ⟨⟨5, List.replicate 32 0xAB ++ [1, 0, 0, 0]⟩⟩ = .ok ⟨List.replicate 32 0xAB, 1⟩ := by decide
example : (TxOut.parse ⟨0, encTxOut ⟨5000, [0x6A, 0x01]⟩ ++ [7]⟩ >>= fun p => convTxOut p.1) =
    .ok ⟨5000, [0x6A, 0x01]⟩ := by decide
example : (TxIn.parse ⟨0, encTxIn ⟨⟨List.replicate 32 7, 5⟩, [1, 2, 3], 9⟩⟩ >>= fun p => convTxIn p.1) =
    .ok ⟨⟨List.replicate 32 7, 5⟩, [1, 2, 3], 9⟩ := by decide
example : (⟨List.replicate 32 7, 5⟩ : OutPointS).WF := ⟨by decide, by decide⟩
example : (⟨5000, [0x6A, 0x01]⟩ : TxOutS).WF := ⟨by decide, by decide⟩

end BS
