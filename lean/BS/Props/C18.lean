import BS.Lemmas.AccNum
/-
  C18 — fixed-width little-endian number codecs (`U8`/`U16`/`U32`/`I32`/`U64`, `read_uN`, `to_len`).
  Property theorems only (helper lemmas live in BS/Lemmas/AccNum.lean). Widths are arbitrary (`w`) wherever the
  statement does not depend on the width; the crate instantiates `w ∈ {1, 2, 4, 8}`.
-/
namespace BS
open Spec

/-- wrap then unwrap is the identity on every value that fits the width (`From<uN> for UN`, `From<UN> for uN`) -/
theorem C18_wrap_unwrap (w n : Nat) (h : n < 256 ^ w) : Num.value (Num.wrap w n) = n := by
  unfold Num.value Num.wrap
  exact leN_toLE_of_lt h

/-- the signed variant: every `i32` survives `I32::from(i)` followed by `i32::from(..)` -/
theorem C18_wrap_unwrap_i32 (i : Int) (h1 : -(2 : Int) ^ 31 ≤ i) (h2 : i < 2 ^ 31) :
    Num.valueI32 (Num.wrap 4 (ofI32 i)) = i := by
  unfold Num.valueI32 Num.wrap
  have : ofI32 i < 256 ^ 4 := by have := ofI32_lt h1 h2; omega
  simp only [leN_toLE_of_lt this]
  exact toI32_ofI32 h1 h2

/-- `as_ref()` is the little-endian serialization and it has exactly `w` bytes -/
theorem C18_as_ref (w n : Nat) : Num.asRef (Num.wrap w n) = toLE w n ∧ (toLE w n).length = w :=
  ⟨rfl, toLE_length w n⟩

/-- unwrap then wrap is the identity on every `w`-byte array: together with `C18_wrap_unwrap` the codec is a
    bijection between `[u8; w]` and the values below `256^w` -/
theorem C18_unwrap_wrap (w : Nat) (bs : Bytes) (h : bs.length = w) : Num.wrap w (Num.value ⟨bs⟩) = ⟨bs⟩ := by
  unfold Num.wrap Num.value
  subst h
  rw [toLE_leN]

/-- the unwrapped value always fits the width -/
theorem C18_value_lt (w : Nat) (bs : Bytes) (h : bs.length = w) : Num.value ⟨bs⟩ < 256 ^ w := by
  subst h; exact leN_lt bs

/-- the signed codec is a bijection as well: every 4-byte array is the image of the `i32` it decodes to, and that
    `i32` is in range -/
theorem C18_unwrap_wrap_i32 (bs : Bytes) (h : bs.length = 4) :
    Num.wrap 4 (ofI32 (Num.valueI32 ⟨bs⟩)) = ⟨bs⟩ ∧
    -(2 : Int) ^ 31 ≤ Num.valueI32 ⟨bs⟩ ∧ Num.valueI32 ⟨bs⟩ < 2 ^ 31 := by
  have hl : leN bs < 2 ^ 32 := by have := leN_lt bs; rw [h] at this; omega
  refine ⟨?_, toI32_range hl⟩
  unfold Num.valueI32
  simp only [ofI32_toI32 hl]
  exact C18_unwrap_wrap 4 bs h

/-- `parse` of the serialization of `n` followed by anything: the number, and the rest of the input (absolute offset
    advanced by `w`). (The hypothesis `n < 256^w` is not needed for `parse`: it returns the bytes.) -/
theorem C18_parse (w n b : Nat) (r : Bytes) :
    Num.parse w ⟨b, toLE w n ++ r⟩ = .ok (Num.wrap w n, ⟨b + w, r⟩) :=
  Acc.parse_append w b (toLE w n) r (toLE_length w n)

/-- `parse` in general: any `w` bytes are accepted and come back unchanged -/
theorem C18_parse_bytes (w b : Nat) (p r : Bytes) (hp : p.length = w) :
    Num.parse w ⟨b, p ++ r⟩ = .ok (⟨p⟩, ⟨b + w, r⟩) :=
  Acc.parse_append w b p r hp

/-- `read_uN` of the serialization of `n` followed by anything is `n` -/
theorem C18_read (w n b : Nat) (r : Bytes) (h : n < 256 ^ w) : Num.read w ⟨b, toLE w n ++ r⟩ = .ok n := by
  rw [Acc.read_append w b (toLE w n) r (toLE_length w n), leN_toLE_of_lt h]

/-- `read_i32` of the serialization of `i` followed by anything is `i` -/
theorem C18_read_i32 (i : Int) (b : Nat) (r : Bytes) (h1 : -(2 : Int) ^ 31 ≤ i) (h2 : i < 2 ^ 31) :
    Num.readI32 ⟨b, toLE 4 (ofI32 i) ++ r⟩ = .ok i := by
  have : ofI32 i < 256 ^ 4 := by have := ofI32_lt h1 h2; omega
  unfold Num.readI32
  rw [C18_read 4 _ b r this]
  simp only [toI32_ofI32 h1 h2]

/-- fewer than `w` bytes: `MoreBytesNeeded` from both entry points -/
theorem C18_short (w : Nat) (s : Slice) (h : s.len < w) :
    Num.parse w s = .err .moreBytesNeeded ∧ Num.read w s = .err .moreBytesNeeded := by
  rw [Acc.parse_eq, Acc.read_eq]
  have : ¬ (w ≤ s.len) := by omega
  simp [this]

/-- at least `w` bytes: both entry points succeed (so the only error is `MoreBytesNeeded`, exactly on short input) -/
theorem C18_long (w : Nat) (s : Slice) (h : w ≤ s.len) :
    Num.parse w s = .ok (⟨s.bytes.take w⟩, ⟨s.base + w, s.bytes.drop w⟩) ∧ Num.read w s = .ok (leN (s.bytes.take w)) := by
  rw [Acc.parse_eq, Acc.read_eq]
  simp [h]

/-- no input makes `parse` / `read_uN` / `read_i32` panic (the `expect` on the array conversion is dead code) -/
theorem C18_nopanic (w : Nat) (s : Slice) :
    (Num.parse w s).isPanic = false ∧ (Num.read w s).isPanic = false ∧ (Num.readI32 s).isPanic = false := by
  refine ⟨?_, ?_, ?_⟩
  · rw [Acc.parse_eq]; split <;> rfl
  · rw [Acc.read_eq]; split <;> rfl
  · unfold Num.readI32; rw [Acc.read_eq]; by_cases h : 4 ≤ s.len <;> simp [h, Res.isPanic]

/-- `to_len` (the wide arms of a compact size): a `w`-byte payload (`w = 2, 4, 8`) is accepted — with total width
    `1 + w` and the payload's value — exactly when `1 + w` is the minimal compact-size width of the value, and it is
    rejected as `NonMinimalVarInt` otherwise. Never a panic. -/
theorem C18_to_len (w n : Nat) (hw : w = 2 ∨ w = 4 ∨ w = 8) (hn : n < 256 ^ w) :
    (Num.toLen w (Num.wrap w n) = .ok ⟨1 + w, n⟩ ↔ compactWidth n = 1 + w) ∧
    (compactWidth n ≠ 1 + w → Num.toLen w (Num.wrap w n) = .err .nonMinimalVarInt) := by
  have hv : leN (Num.wrap w n).arr = n := leN_toLE_of_lt hn
  unfold Num.toLen compactWidth
  simp only [hv]
  rcases hw with rfl | rfl | rfl
  · simp only [show ¬ (2 = 8) by omega, show ¬ (2 = 4) by omega, if_false]
    have : n < 65536 := by omega
    by_cases h : n ≥ 0xFD
    · simp [h, this, show ¬ n < 253 by omega]
    · simp [h, show n < 253 by omega]
  · simp only [show ¬ (4 = 8) by omega, if_false, if_true]
    have : n < 4294967296 := by omega
    by_cases h : n > 0xFFFF
    · simp [h, this, show ¬ n < 253 by omega, show ¬ n < 65536 by omega]
    · by_cases h2 : n < 253
      · simp [h, h2]
      · simp [h, h2, show n < 65536 by omega]
  · simp only [if_true]
    by_cases h : n > 0xFFFFFFFF
    · simp [h, show ¬ n < 253 by omega, show ¬ n < 65536 by omega, show ¬ n < 4294967296 by omega]
    · by_cases h2 : n < 253
      · simp [h, h2]
      · by_cases h3 : n < 65536
        · simp [h, h2, h3]
        · simp [h, h2, h3, show n < 4294967296 by omega]

/-- non-vacuity -/
example : Num.value (Num.wrap 4 0xDEADBEEF) = 0xDEADBEEF := by decide
example : Num.valueI32 (Num.wrap 4 (ofI32 (-2))) = -2 := by decide
example : Num.parse 2 ⟨7, toLE 2 0x1234 ++ [9]⟩ = .ok (⟨[0x34, 0x12]⟩, ⟨9, [9]⟩) := by decide
example : Num.read 8 ⟨0, [1, 2, 3]⟩ = .err .moreBytesNeeded := by decide
example : Num.toLen 4 (Num.wrap 4 0x10000) = .ok ⟨5, 0x10000⟩ := by decide
example : Num.toLen 4 (Num.wrap 4 0xFFFF) = .err .nonMinimalVarInt := by decide

end BS
