import BS.Lemmas.CacheRun
/-
  C06 — cache lookups return exactly the bytes that were inserted under that key, or nothing.
  Property theorems only (helper lemmas live in BS/Lemmas/Cache*.lean).

  Vocabulary (all in `BS.CacheProof`):
  * `logStep L k v r` — the ghost log of live `(key, value)` pairs (oldest first), updated from the PUBLIC result `r`
    of `insert c k v`: on `ok e` drop the `e` oldest and append `(k, v)`, otherwise unchanged;
  * `runOps cap ops : Run κ` — the history `ops` run from `Cache.new cap`: final state `.c`, ghost log `.log`,
    results `.results`, successful insertions `.succ` (= `successes cap ops`);
  * `logGet k L` — the value recorded under `k` in a log;
  * `Inv c L` — the ring-buffer invariant relating the concrete state to the ghost log (`InvG` + `Lay` + `Chain`).
  "Reachable state" is expressed as `Inv c L` (proved for every history by `C06_inv`), or directly on `runOps`.
-/
namespace BS
open Cache CacheProof

variable {κ : Type} [DecidableEq κ]

/-! ### the invariant -/

/-- the invariant holds for a fresh cache with the empty log -/
theorem C06_inv_new (cap : Nat) : Inv (Cache.new cap : Cache κ) [] := inv_new cap

/-- the invariant is preserved by every `insert` (whatever it returns), the ghost log being updated from the
    public result only -/
theorem C06_inv_step {c : Cache κ} {L : List (κ × Bytes)} (h : Inv c L) (k : κ) (v : Bytes) :
    Inv (insert c k v).1 (logStep L k v (insert c k v).2) := inv_step h k v

/-- hence the invariant holds after every history -/
theorem C06_inv (cap : Nat) (ops : List (κ × Bytes)) : Inv (runOps cap ops).c (runOps cap ops).log :=
  run_inv cap ops

/-! ### no panics -/

/-- `remove_range` never panics on a reachable state, for any range: every `expect` finds its key and the fuel of
    the outer loop (`insertions.length + 1`) is never exhausted -/
theorem C06_removeRange_total {c : Cache κ} {L : List (κ × Bytes)} (h : Inv c L) (r : Range) :
    ∃ c' n, removeRange c r = .ok (c', n) ∧ n ≤ L.length := by
  obtain ⟨G, rfl, hG⟩ := h
  refine ⟨_, _, removeRange_eq hG.ins hG.idx hG.nodup r, ?_⟩
  simpa using evictN_le r (G.map Ent.rng)

/-- on every reachable state of a cache with `2 * cap < 2^64` holding fewer than `2^64` entries, `insert` never
    panics (no failed `expect`, no exhausted fuel, no out-of-range copy, no overflowing addition), and `get` /
    `contains` never panic at all -/
theorem C06_nopanic {c : Cache κ} {L : List (κ × Bytes)} (h : Inv c L) (k : κ) (v : Bytes)
    (hcap : 2 * c.cap < USIZE) (hlen : L.length < USIZE) :
    (∀ p, (insert c k v).2 ≠ .panic p) ∧ (∀ k' p, get c k' ≠ .panic p) ∧ (∀ k' p, contains c k' ≠ .panic p) := by
  refine ⟨?_, ?_, ?_⟩
  · obtain ⟨G, rfl, hG⟩ := h
    intro p
    rcases insert_cases hG k v with ⟨_, h1⟩ | ⟨_, _, h1⟩ | ⟨_, _, _, h2⟩ | ⟨_, _, h1⟩
    · rw [h1]; intro h; cases h
    · rw [h1]; intro h; cases h
    · rw [List.length_map] at hlen; omega
    · rw [h1]; intro h; cases h
  · intro k' p; rw [h.get]; intro h; cases h
  · intro k' p; unfold contains; rw [h.get]; intro h; cases h

/-- the only panic `insert` can produce on a reachable state is the arithmetic overflow excluded above -/
theorem C06_panic_only_overflow {c : Cache κ} {L : List (κ × Bytes)} (h : Inv c L) (k : κ) (v : Bytes) (p : Panic)
    (hp : (insert c k v).2 = .panic p) : p = .overflow ∧ (USIZE ≤ 2 * c.cap ∨ USIZE ≤ L.length) := by
  obtain ⟨G, rfl, hG⟩ := h
  rcases insert_cases hG k v with ⟨_, h1⟩ | ⟨_, _, h1⟩ | ⟨_, _, h1, h2⟩ | ⟨_, _, h1⟩
  · rw [h1] at hp; cases hp
  · rw [h1] at hp; cases hp
  · rw [h1] at hp; cases hp; exact ⟨rfl, by rw [List.length_map]; exact h2⟩
  · rw [h1] at hp; cases hp

/-- history form: with `cap < 2^63` and fewer than `2^64` operations nothing ever panics -/
theorem C06_nopanic_run (cap : Nat) (ops : List (κ × Bytes)) (hcap : cap < 2 ^ 63) (hops : ops.length < 2 ^ 64) :
    (∀ p, CRes.panic p ∉ (runOps cap ops).results) ∧
    (∀ k p, get (runOps cap ops).c k ≠ .panic p) ∧ (∀ k p, contains (runOps cap ops).c k ≠ .panic p) := by
  refine ⟨?_, fun k p => ?_, fun k p => ?_⟩
  · revert hops
    refine snoc_induction (P := fun ops : List (κ × Bytes) => ops.length < 2 ^ 64 →
      ∀ p, CRes.panic p ∉ (runOps cap ops).results) ?_ ?_ ops
    · intro _ p h; cases h
    · intro ops op ih hops p
      rw [List.length_append] at hops
      rw [runOps_snoc]
      simp only [Run.step, List.mem_append, List.mem_singleton, not_or]
      refine ⟨ih (by omega) p, fun h => ?_⟩
      have hl := run_log_length_le cap ops
      have := (C06_nopanic (run_inv cap ops) op.1 op.2 (by rw [run_cap]; unfold USIZE; omega)
        (by unfold USIZE; simp only [List.length_cons, List.length_nil] at hops; omega)).1 p
      exact this h.symm
  · rw [(run_inv cap ops).get]; intro h; cases h
  · unfold contains; rw [(run_inv cap ops).get]; intro h; cases h

/-! ### lookups -/

/-- on every reachable state `get` returns exactly the value the ghost log records under the key, or nothing -/
theorem C06_get {c : Cache κ} {L : List (κ × Bytes)} (h : Inv c L) (k : κ) : get c k = .ok (logGet k L) :=
  h.get k

/-- history form of `C06_get` -/
theorem C06_get_run (cap : Nat) (ops : List (κ × Bytes)) (k : κ) :
    get (runOps cap ops).c k = .ok (logGet k (runOps cap ops).log) := (run_inv cap ops).get k

/-- a retrieved value is the value of the LATEST successful insertion under that key: `(k, v)` occurs in the list
    of successful insertions and no later successful insertion has key `k` -/
theorem C06_get_latest (cap : Nat) (ops : List (κ × Bytes)) (k : κ) (v : Bytes)
    (hg : get (runOps cap ops).c k = .ok (some v)) :
    ∃ pre post, successes cap ops = pre ++ (k, v) :: post ∧ k ∉ post.map Prod.fst := by
  have hinv := run_inv cap ops
  rw [hinv.get] at hg
  have hm : (k, v) ∈ (runOps cap ops).log := logGet_mem k v _ (by injection hg)
  obtain ⟨a, b, hab⟩ := List.append_of_mem hm
  obtain ⟨n, _, hn⟩ := run_suffix cap ops
  have hnd := hinv.nodup
  rw [hab, List.map_append, List.map_cons, List.nodup_append] at hnd
  refine ⟨(successes cap ops).take n ++ a, b, ?_, (List.nodup_cons.1 hnd.2.1).1⟩
  unfold successes
  rw [List.append_assoc, ← hab, hn, List.take_append_drop]

/-- nothing but the inserted bytes is ever returned: a retrieved value was inserted under that key -/
theorem C06_get_was_inserted (cap : Nat) (ops : List (κ × Bytes)) (k : κ) (v : Bytes)
    (hg : get (runOps cap ops).c k = .ok (some v)) : (k, v) ∈ successes cap ops := by
  obtain ⟨pre, post, h, _⟩ := C06_get_latest cap ops k v hg
  rw [h]; simp

/-- read your own write: after an accepted insert the key returns the inserted bytes -/
theorem C06_read_your_write {c : Cache κ} {L : List (κ × Bytes)} (h : Inv c L) {k : κ} {v : Bytes}
    {c' : Cache κ} {e : Nat} (hi : insert c k v = (c', .ok e)) : get c' k = .ok (some v) := by
  have h' := (h.insert_ok hi).2.2.2
  rw [h'.get, logGet_of_mem_nodup k v _ h'.nodup (by simp)]

/-- the ranges of two distinct retrievable keys with non-empty values do not overlap (and have the values' sizes) -/
theorem C06_disjoint {c : Cache κ} {L : List (κ × Bytes)} (h : Inv c L) {k1 k2 : κ} {v1 v2 : Bytes}
    (hk : k1 ≠ k2) (g1 : get c k1 = .ok (some v1)) (g2 : get c k2 = .ok (some v2)) (n1 : v1 ≠ []) (n2 : v2 ≠ []) :
    ∃ r1 r2, lookup k1 c.indexes = some r1 ∧ lookup k2 c.indexes = some r2 ∧
      r1.overlaps r2 = false ∧ r1.len = v1.length ∧ r2.len = v2.length := by
  rw [h.get] at g1 g2
  have m1 := logGet_mem k1 v1 _ (by injection g1)
  have m2 := logGet_mem k2 v2 _ (by injection g2)
  obtain ⟨G, rfl, hG⟩ := h
  obtain ⟨e1, he1, x1⟩ := List.mem_map.1 m1
  obtain ⟨e2, he2, x2⟩ := List.mem_map.1 m2
  simp only [Ent.kv, Prod.mk.injEq] at x1 x2
  obtain ⟨rfl, rfl⟩ := x1
  obtain ⟨rfl, rfl⟩ := x2
  have a1 := (hG.ent e1 he1).1
  have a2 := (hG.ent e2 he2).1
  have l1 : e1.val.length ≠ 0 := fun h => n1 (List.eq_nil_of_length_eq_zero h)
  have l2 : e2.val.length ≠ 0 := fun h => n2 (List.eq_nil_of_length_eq_zero h)
  refine ⟨e1.rng, e2.rng, hG.lookup_of_mem he1, hG.lookup_of_mem he2,
    invG_disjoint hG he1 he2 hk (by omega) (by omega), by unfold Range.len; omega, by unfold Range.len; omega⟩

/-! ### the two historical defects (pre-fix definitions) -/

/-- before commit 055b343 an insertion that wrapped could evict ITSELF: the call reports success (`ok 2`) but the
    key is not retrievable afterwards -/
theorem C06_old_self_eviction :
    let c0 : Cache Nat := Cache.new 10
    let c1 := (insertOld c0 1 (List.replicate 6 1)).1
    let r2 := insertOld c1 2 (List.replicate 6 2)
    r2.2 = .ok 2 ∧ get r2.1 2 = .ok none := by
  decide

/-- before commit 63cd2b2 a zero-length oldest entry stopped the eviction loop, and a later write silently
    overwrote live bytes: key 1 was inserted as `[1,1,1,1,1]` and now reads `[3,3,3,1,1]` -/
theorem C06_old_corruption :
    let c0 : Cache Nat := Cache.new 10
    let c1 := (insertOld c0 0 []).1
    let c2 := (insertOld c1 1 (List.replicate 5 1)).1
    let c3 := (insertOld c2 2 (List.replicate 5 2)).1
    let c4 := (insertOld c3 3 (List.replicate 3 3)).1
    get c4 1 = .ok (some [3, 3, 3, 1, 1]) := by
  decide

/-- the same two histories with the current `insert`: no self-eviction, no corruption -/
example :
    let c0 : Cache Nat := Cache.new 10
    let c1 := (insert c0 1 (List.replicate 6 1)).1
    let r2 := insert c1 2 (List.replicate 6 2)
    r2.2 = .ok 1 ∧ get r2.1 2 = .ok (some (List.replicate 6 2)) ∧ get r2.1 1 = .ok none := by
  decide

example :
    let c0 : Cache Nat := Cache.new 10
    let c1 := (insert c0 0 []).1
    let c2 := (insert c1 1 (List.replicate 5 1)).1
    let c3 := (insert c2 2 (List.replicate 5 2)).1
    let r4 := insert c3 3 (List.replicate 3 3)
    r4.2 = .ok 2 ∧ get r4.1 1 = .ok none ∧ get r4.1 2 = .ok (some [2, 2, 2, 2, 2]) ∧
    get r4.1 3 = .ok (some [3, 3, 3]) := by
  decide

/-! ### satisfiability of the hypotheses -/

/-- a concrete non-trivial history: the run-level statements apply to it and the log is what one expects -/
example :
    (runOps 4 [((1 : Nat), [1, 1]), (2, [2]), (3, []), (1, [9]), (4, [4, 4]), (5, [5, 5, 5, 5, 5])]).log
      = [(2, [2]), (3, []), (4, [4, 4])] ∧
    (runOps 4 [((1 : Nat), [1, 1]), (2, [2]), (3, []), (1, [9]), (4, [4, 4]), (5, [5, 5, 5, 5, 5])]).results
      = [.ok 0, .ok 0, .ok 0, .valueAlreadyPresent, .ok 1, .valueLargerThanBuffer] := by
  decide

example : get (runOps 4 [((1 : Nat), [1, 1]), (2, [2]), (3, []), (4, [4, 4])]).c 2 = .ok (some [2]) := by decide

end BS
