import BS.Lemmas.CacheRun
/-
  C11 — eviction is strictly first-in-first-out.
  Property theorems only (helper lemmas live in BS/Lemmas/Cache*.lean; vocabulary as in C06.lean).
-/
namespace BS
open Cache CacheProof

variable {κ : Type} [DecidableEq κ]

/-- one `insert` on a reachable state. Accepted (`ok e`): exactly the `e ≤ |log|` OLDEST live entries are dropped
    and the new entry becomes the newest. Refused (any other result): log and state are unchanged. -/
theorem C11_step {c : Cache κ} {L : List (κ × Bytes)} (h : Inv c L) (k : κ) (v : Bytes) :
    (∀ c' e, insert c k v = (c', .ok e) →
        e ≤ L.length ∧ logStep L k v (.ok e) = L.drop e ++ [(k, v)] ∧ Inv c' (L.drop e ++ [(k, v)])) ∧
    ((∀ e, (insert c k v).2 ≠ .ok e) →
        logStep L k v (insert c k v).2 = L ∧ (insert c k v).1 = c) := by
  refine ⟨fun c' e hi => ?_, fun hn => ?_⟩
  · obtain ⟨h1, _, _, h4⟩ := h.insert_ok hi
    exact ⟨h1, rfl, h4⟩
  · exact ⟨logStep_not_ok L k v _ hn, insert_not_ok_state h k v hn⟩

/-- the two ghost objects the properties are stated against are functions of the operations and their PUBLIC results
    only: `successes` keeps the operations answered `ok _`, the live log folds `logStep` over (operation, result) -/
theorem C11_ghost_public (cap : Nat) (ops : List (κ × Bytes)) :
    successes cap ops = (ops.zip (runOps cap ops).results).filterMap okOp ∧
    (runOps cap ops).log =
      (ops.zip (runOps cap ops).results).foldl (fun L p => logStep L p.1.1 p.1.2 p.2) [] ∧
    (runOps cap ops).results.length = ops.length :=
  ⟨successes_eq_filterMap cap ops, log_eq_foldl cap ops, run_results_length cap ops⟩

/-- on every history the live log is a suffix of the list of successful insertions, and the retrievable keys are
    exactly the keys of that suffix (with the values recorded there): an entry is never evicted while an older one
    is still retrievable -/
theorem C11_suffix (cap : Nat) (ops : List (κ × Bytes)) :
    ∃ n, n ≤ (successes cap ops).length ∧ (runOps cap ops).log = (successes cap ops).drop n ∧
      (∀ k, get (runOps cap ops).c k = .ok (logGet k ((successes cap ops).drop n))) ∧
      (∀ k, (∃ v, get (runOps cap ops).c k = .ok (some v)) ↔ k ∈ ((successes cap ops).drop n).map Prod.fst) := by
  unfold successes
  obtain ⟨n, hn, hl⟩ := run_suffix cap ops
  have hg := (run_inv cap ops).get
  rw [hl] at hg
  refine ⟨n, hn, hl, hg, fun k => ?_⟩
  rw [hg, ← logGet_isSome_iff]
  cases logGet k (List.drop n (runOps cap ops).succ) with
  | none => simp
  | some v => simp

/-- FIFO in terms of two insertions: if `(k₁, v₁)` was successfully inserted before `(k₂, v₂)`, neither key was
    successfully inserted again later, and `k₁` is still retrievable, then `k₂` is retrievable (with its value) -/
theorem C11_fifo (cap : Nat) (ops : List (κ × Bytes)) (k1 k2 : κ) (v1 v2 : Bytes) (pre mid post : List (κ × Bytes))
    (hs : successes cap ops = pre ++ (k1, v1) :: (mid ++ (k2, v2) :: post))
    (h1 : k1 ∉ (mid ++ (k2, v2) :: post).map Prod.fst)
    (hr : ∃ v, get (runOps cap ops).c k1 = .ok (some v)) :
    get (runOps cap ops).c k2 = .ok (some v2) := by
  obtain ⟨n, _, hl, hg, hk⟩ := C11_suffix cap ops
  have hnd := (run_inv cap ops).nodup
  rw [hl] at hnd
  have hm1 := (hk k1).1 hr
  rw [hg k2]
  congr 1
  apply logGet_of_mem_nodup k2 v2 _ hnd
  rw [hs] at hm1 ⊢
  by_cases hle : n ≤ pre.length
  · rw [List.drop_append_of_le_length hle]
    simp
  · exfalso
    have e1 : n = pre.length + (n - pre.length - 1 + 1) := by omega
    rw [e1, ← List.drop_drop, List.drop_left, List.drop_succ_cons, List.map_drop] at hm1
    exact h1 (List.mem_of_mem_drop hm1)

/-- once evicted, a key stays evicted until it is inserted again: inserting another key does not bring it back -/
theorem C11_stays_evicted {c : Cache κ} {L : List (κ × Bytes)} (h : Inv c L) {k k' : κ} (v : Bytes)
    (hk : get c k = .ok none) (hne : k' ≠ k) : get (insert c k' v).1 k = .ok none := by
  have hs := inv_step h k' v
  rw [hs.get]
  congr 1
  apply logGet_none
  rw [h.get] at hk
  have hk' : k ∉ L.map Prod.fst := by
    rw [← logGet_isSome_iff]
    have : logGet k L = none := by injection hk
    simp [this]
  cases hr : (insert c k' v).2 with
  | ok e =>
    simp only [logStep, List.map_append, List.map_cons, List.map_nil, List.mem_append, List.mem_singleton, not_or]
    refine ⟨fun hm => hk' ?_, fun e => hne e.symm⟩
    rw [List.map_drop] at hm
    exact List.mem_of_mem_drop hm
  | valueLargerThanBuffer => exact hk'
  | valueAlreadyPresent => exact hk'
  | panic p => exact hk'

/-! ### satisfiability -/

/-- capacity 4: the third insertion wraps and evicts the two oldest entries, in insertion order -/
example :
    (runOps 4 [((1 : Nat), [1, 1]), (2, [2]), (3, [3, 3, 3]), (4, [4])]).results = [.ok 0, .ok 0, .ok 2, .ok 0] ∧
    (runOps 4 [((1 : Nat), [1, 1]), (2, [2]), (3, [3, 3, 3]), (4, [4])]).log = [(3, [3, 3, 3]), (4, [4])] ∧
    successes 4 [((1 : Nat), [1, 1]), (2, [2]), (3, [3, 3, 3]), (4, [4])]
      = [(1, [1, 1]), (2, [2]), (3, [3, 3, 3]), (4, [4])] := by
  decide

example : get (runOps 4 [((1 : Nat), [1, 1]), (2, [2]), (3, [3, 3, 3])]).c 1 = .ok none := by decide

end BS
