import BS.Lemmas.RefAcc
/-
  C09 — A visitor's Break stops the visit at once and is reported as VisitBreak.
  Property theorems only (helper lemmas live in BS/Lemmas/Ref*.lean).

  Vocabulary (BS/Lemmas/RefBasic.lean, RefProps.lean):
  * `feed v st es`      : the visitor state after the callbacks `es` were delivered from state `st` (answers ignored);
  * `NoBreak v st es`   : delivering `es` from `st`, the visitor never answers Break on a breakable callback;
  * `Sim m d`           : the L1 visit `m` equals the L2 run `d` for every visitor and state (the refinement theorems);
  * `tap v`             : `v` instrumented to log every callback it receives; `recorder` logs and never breaks.
  Each fact is stated once for any refined pair `m`/`d` and then instantiated for the seven visit entry points, with
  `t := (Spec.decX s).trace` the callback sequence of an undisturbed run and `r := (Spec.decX s).res` its result.
-/
namespace BS
open Spec Ref

/-! ### generic statements -/

/-- Break at position `i` (the visitor did not break before, and answers Break on the breakable callback `t[i]`):
    the result is `VisitBreak` and the final visitor state is the state after exactly `t.take (i+1)`: no further
    callback of any kind is made. -/
theorem C09_break {σ α} {m : VM σ α} {d : D α} (href : Sim m d) (v : Visitor σ) (st : σ) (i : Nat)
    (hi : i < d.trace.length) (hb : d.trace[i].breakable = true) (hno : NoBreak v st (d.trace.take i))
    (hbr : (v.step (feed v st (d.trace.take i)) d.trace[i]).2 = true) :
    m v st = (feed v st (d.trace.take (i + 1)), .err .visitBreak) := by
  rw [href]; exact run_break d v st i hi hb hno hbr

/-- The callbacks delivered up to the break are `t.take (i+1)`: exactly the first `i+1` callbacks a never-breaking
    visitor (the recorder, which sees all of `t`) receives. -/
theorem C09_prefix_same {α} {m : (σ : Type) → VM σ α} {d : D α} (href : ∀ σ, Sim (m σ) d) {σ} (v : Visitor σ) (st : σ)
    (i : Nat) (hi : i < d.trace.length) (hb : d.trace[i].breakable = true) (hno : NoBreak v st (d.trace.take i))
    (hbr : (v.step (feed v st (d.trace.take i)) d.trace[i]).2 = true) :
    (m _ (tap v) (st, [])).1.2.reverse = d.trace.take (i + 1) ∧
    (m _ recorder []).1.reverse = d.trace ∧
    (m _ (tap v) (st, [])).1.2.reverse = ((m _ recorder []).1.reverse).take (i + 1) := by
  have h1 : (m _ (tap v) (st, [])).1.2.reverse = d.trace.take (i + 1) := by
    rw [href, run_break d (tap v) (st, []) i hi hb (noBreak_tap v st [] _ hno)
      (by rw [feed_tap]; exact hbr), feed_tap]
    simp
  have h2 : (m _ recorder []).1.reverse = d.trace := by
    rw [href, run_never d recorder [] (noBreak_of_never _ neverBreaks_recorder _ _), feed_recorder]
    simp
  exact ⟨h1, h2, by rw [h1, h2]⟩

/-- No Break along the run: the result is `r`, the visitor has seen all of `t`, and `r` is not `VisitBreak`
    (the decoders never produce `VisitBreak` or `Other` themselves). -/
theorem C09_never {σ α} {m : VM σ α} {d : D α} (href : Sim m d) (hd : ∀ e, d.res = .err e → DecErr e)
    (v : Visitor σ) (st : σ) (hno : NoBreak v st d.trace) :
    m v st = (feed v st d.trace, d.res) ∧ d.res ≠ .err .visitBreak ∧ ∀ k, d.res ≠ .err (.other k) := by
  refine ⟨by rw [href]; exact run_never d v st hno, fun h => (hd _ h).1 rfl, fun k h => (hd _ h).2 k rfl⟩

/-- A Break at position `i` wins whatever the undisturbed result is — also when it is an error (which is located
    after every callback of `t`, hence after the breaking one). -/
theorem C09_precedence {σ α} {m : VM σ α} {d : D α} (href : Sim m d) (v : Visitor σ) (st : σ) (i : Nat)
    (hi : i < d.trace.length) (hb : d.trace[i].breakable = true) (hno : NoBreak v st (d.trace.take i))
    (hbr : (v.step (feed v st (d.trace.take i)) d.trace[i]).2 = true) :
    (m v st).2 = .err .visitBreak ∧
    ∀ r : Res α, replay v st d.trace r = (feed v st (d.trace.take (i + 1)), .err .visitBreak) := by
  refine ⟨by rw [C09_break href v st i hi hb hno hbr], fun r => ?_⟩
  exact run_break ⟨d.trace, r⟩ v st i hi hb hno hbr

/-- the L2 decoders only fail with decoder errors -/
theorem C09_witnessD_err (s : Slice) (hs : s.len < 2 ^ 62) (e : Error) (h : (witnessD s).res = .err e) : DecErr e := by
  rw [witnessD_res] at h
  cases hd : (decWitness s).res with
  | ok a => rw [hd] at h; cases h
  | err e' => rw [hd] at h; cases h; exact (witness_out s hs).err hd
  | panic p => rw [hd] at h; cases h

/-! ### the seven visit entry points -/

theorem C09_break_txins {σ} (s : Slice) (hs : s.len < 2 ^ 62) (v : Visitor σ) (st : σ) (i : Nat)
    (hi : i < (decTxIns s).trace.length) (hb : (decTxIns s).trace[i].breakable = true)
    (hno : NoBreak v st ((decTxIns s).trace.take i))
    (hbr : (v.step (feed v st ((decTxIns s).trace.take i)) (decTxIns s).trace[i]).2 = true) :
    TxIns.visit s v st = (feed v st ((decTxIns s).trace.take (i + 1)), .err .visitBreak) :=
  C09_break (sim_txins s hs) v st i hi hb hno hbr

theorem C09_prefix_same_txins {σ} (s : Slice) (hs : s.len < 2 ^ 62) (v : Visitor σ) (st : σ) (i : Nat)
    (hi : i < (decTxIns s).trace.length) (hb : (decTxIns s).trace[i].breakable = true)
    (hno : NoBreak v st ((decTxIns s).trace.take i))
    (hbr : (v.step (feed v st ((decTxIns s).trace.take i)) (decTxIns s).trace[i]).2 = true) :
    (TxIns.visit s (tap v) (st, [])).1.2.reverse = (decTxIns s).trace.take (i + 1) ∧
    (TxIns.visit s recorder []).1.reverse = (decTxIns s).trace ∧
    (TxIns.visit s (tap v) (st, [])).1.2.reverse = ((TxIns.visit s recorder []).1.reverse).take (i + 1) :=
  C09_prefix_same (m := fun σ => (TxIns.visit s : VM σ _)) (fun _ => sim_txins s hs) v st i hi hb hno hbr

theorem C09_never_txins {σ} (s : Slice) (hs : s.len < 2 ^ 62) (v : Visitor σ) (st : σ)
    (hno : NoBreak v st (decTxIns s).trace) :
    TxIns.visit s v st = (feed v st (decTxIns s).trace, (decTxIns s).res) ∧
    (decTxIns s).res ≠ .err .visitBreak ∧ ∀ k, (decTxIns s).res ≠ .err (.other k) :=
  C09_never (sim_txins s hs) (fun _ h => (txins_out s hs).err h) v st hno

theorem C09_precedence_txins {σ} (s : Slice) (hs : s.len < 2 ^ 62) (v : Visitor σ) (st : σ) (i : Nat)
    (hi : i < (decTxIns s).trace.length) (hb : (decTxIns s).trace[i].breakable = true)
    (hno : NoBreak v st ((decTxIns s).trace.take i))
    (hbr : (v.step (feed v st ((decTxIns s).trace.take i)) (decTxIns s).trace[i]).2 = true) :
    (TxIns.visit s v st).2 = .err .visitBreak ∧
    ∀ r : Res (TxInsV × Slice), replay v st (decTxIns s).trace r = (feed v st ((decTxIns s).trace.take (i + 1)), .err .visitBreak) :=
  C09_precedence (sim_txins s hs) v st i hi hb hno hbr

theorem C09_break_txouts {σ} (s : Slice) (hs : s.len < 2 ^ 62) (v : Visitor σ) (st : σ) (i : Nat)
    (hi : i < (decTxOuts s).trace.length) (hb : (decTxOuts s).trace[i].breakable = true)
    (hno : NoBreak v st ((decTxOuts s).trace.take i))
    (hbr : (v.step (feed v st ((decTxOuts s).trace.take i)) (decTxOuts s).trace[i]).2 = true) :
    TxOuts.visit s v st = (feed v st ((decTxOuts s).trace.take (i + 1)), .err .visitBreak) :=
  C09_break (sim_txouts s hs) v st i hi hb hno hbr

theorem C09_prefix_same_txouts {σ} (s : Slice) (hs : s.len < 2 ^ 62) (v : Visitor σ) (st : σ) (i : Nat)
    (hi : i < (decTxOuts s).trace.length) (hb : (decTxOuts s).trace[i].breakable = true)
    (hno : NoBreak v st ((decTxOuts s).trace.take i))
    (hbr : (v.step (feed v st ((decTxOuts s).trace.take i)) (decTxOuts s).trace[i]).2 = true) :
    (TxOuts.visit s (tap v) (st, [])).1.2.reverse = (decTxOuts s).trace.take (i + 1) ∧
    (TxOuts.visit s recorder []).1.reverse = (decTxOuts s).trace ∧
    (TxOuts.visit s (tap v) (st, [])).1.2.reverse = ((TxOuts.visit s recorder []).1.reverse).take (i + 1) :=
  C09_prefix_same (m := fun σ => (TxOuts.visit s : VM σ _)) (fun _ => sim_txouts s hs) v st i hi hb hno hbr

theorem C09_never_txouts {σ} (s : Slice) (hs : s.len < 2 ^ 62) (v : Visitor σ) (st : σ)
    (hno : NoBreak v st (decTxOuts s).trace) :
    TxOuts.visit s v st = (feed v st (decTxOuts s).trace, (decTxOuts s).res) ∧
    (decTxOuts s).res ≠ .err .visitBreak ∧ ∀ k, (decTxOuts s).res ≠ .err (.other k) :=
  C09_never (sim_txouts s hs) (fun _ h => (txouts_out s hs).err h) v st hno

theorem C09_precedence_txouts {σ} (s : Slice) (hs : s.len < 2 ^ 62) (v : Visitor σ) (st : σ) (i : Nat)
    (hi : i < (decTxOuts s).trace.length) (hb : (decTxOuts s).trace[i].breakable = true)
    (hno : NoBreak v st ((decTxOuts s).trace.take i))
    (hbr : (v.step (feed v st ((decTxOuts s).trace.take i)) (decTxOuts s).trace[i]).2 = true) :
    (TxOuts.visit s v st).2 = .err .visitBreak ∧
    ∀ r : Res (TxOutsV × Slice), replay v st (decTxOuts s).trace r = (feed v st ((decTxOuts s).trace.take (i + 1)), .err .visitBreak) :=
  C09_precedence (sim_txouts s hs) v st i hi hb hno hbr

theorem C09_break_witness {σ} (s : Slice) (hs : s.len < 2 ^ 62) (v : Visitor σ) (st : σ) (i : Nat)
    (hi : i < (witnessD s).trace.length) (hb : (witnessD s).trace[i].breakable = true)
    (hno : NoBreak v st ((witnessD s).trace.take i))
    (hbr : (v.step (feed v st ((witnessD s).trace.take i)) (witnessD s).trace[i]).2 = true) :
    Witness.visit s v st = (feed v st ((witnessD s).trace.take (i + 1)), .err .visitBreak) :=
  C09_break (sim_witness s hs) v st i hi hb hno hbr

theorem C09_prefix_same_witness {σ} (s : Slice) (hs : s.len < 2 ^ 62) (v : Visitor σ) (st : σ) (i : Nat)
    (hi : i < (witnessD s).trace.length) (hb : (witnessD s).trace[i].breakable = true)
    (hno : NoBreak v st ((witnessD s).trace.take i))
    (hbr : (v.step (feed v st ((witnessD s).trace.take i)) (witnessD s).trace[i]).2 = true) :
    (Witness.visit s (tap v) (st, [])).1.2.reverse = (witnessD s).trace.take (i + 1) ∧
    (Witness.visit s recorder []).1.reverse = (witnessD s).trace ∧
    (Witness.visit s (tap v) (st, [])).1.2.reverse = ((Witness.visit s recorder []).1.reverse).take (i + 1) :=
  C09_prefix_same (m := fun σ => (Witness.visit s : VM σ _)) (fun _ => sim_witness s hs) v st i hi hb hno hbr

theorem C09_never_witness {σ} (s : Slice) (hs : s.len < 2 ^ 62) (v : Visitor σ) (st : σ)
    (hno : NoBreak v st (witnessD s).trace) :
    Witness.visit s v st = (feed v st (witnessD s).trace, (witnessD s).res) ∧
    (witnessD s).res ≠ .err .visitBreak ∧ ∀ k, (witnessD s).res ≠ .err (.other k) :=
  C09_never (sim_witness s hs) (C09_witnessD_err s hs) v st hno

theorem C09_precedence_witness {σ} (s : Slice) (hs : s.len < 2 ^ 62) (v : Visitor σ) (st : σ) (i : Nat)
    (hi : i < (witnessD s).trace.length) (hb : (witnessD s).trace[i].breakable = true)
    (hno : NoBreak v st ((witnessD s).trace.take i))
    (hbr : (v.step (feed v st ((witnessD s).trace.take i)) (witnessD s).trace[i]).2 = true) :
    (Witness.visit s v st).2 = .err .visitBreak ∧
    ∀ r : Res (WitnessV × Slice), replay v st (witnessD s).trace r = (feed v st ((witnessD s).trace.take (i + 1)), .err .visitBreak) :=
  C09_precedence (sim_witness s hs) v st i hi hb hno hbr

theorem C09_break_witnesses {σ} (s : Slice) (hs : s.len < 2 ^ 62) (n : Nat) (v : Visitor σ) (st : σ) (i : Nat)
    (hi : i < (decWitnesses s n).trace.length) (hb : (decWitnesses s n).trace[i].breakable = true)
    (hno : NoBreak v st ((decWitnesses s n).trace.take i))
    (hbr : (v.step (feed v st ((decWitnesses s n).trace.take i)) (decWitnesses s n).trace[i]).2 = true) :
    Witnesses.visit s n v st = (feed v st ((decWitnesses s n).trace.take (i + 1)), .err .visitBreak) :=
  C09_break (sim_witnesses s hs n) v st i hi hb hno hbr

theorem C09_prefix_same_witnesses {σ} (s : Slice) (hs : s.len < 2 ^ 62) (n : Nat) (v : Visitor σ) (st : σ) (i : Nat)
    (hi : i < (decWitnesses s n).trace.length) (hb : (decWitnesses s n).trace[i].breakable = true)
    (hno : NoBreak v st ((decWitnesses s n).trace.take i))
    (hbr : (v.step (feed v st ((decWitnesses s n).trace.take i)) (decWitnesses s n).trace[i]).2 = true) :
    (Witnesses.visit s n (tap v) (st, [])).1.2.reverse = (decWitnesses s n).trace.take (i + 1) ∧
    (Witnesses.visit s n recorder []).1.reverse = (decWitnesses s n).trace ∧
    (Witnesses.visit s n (tap v) (st, [])).1.2.reverse = ((Witnesses.visit s n recorder []).1.reverse).take (i + 1) :=
  C09_prefix_same (m := fun σ => (Witnesses.visit s n : VM σ _)) (fun _ => sim_witnesses s hs n) v st i hi hb hno hbr

theorem C09_never_witnesses {σ} (s : Slice) (hs : s.len < 2 ^ 62) (n : Nat) (v : Visitor σ) (st : σ)
    (hno : NoBreak v st (decWitnesses s n).trace) :
    Witnesses.visit s n v st = (feed v st (decWitnesses s n).trace, (decWitnesses s n).res) ∧
    (decWitnesses s n).res ≠ .err .visitBreak ∧ ∀ k, (decWitnesses s n).res ≠ .err (.other k) :=
  C09_never (sim_witnesses s hs n) (fun _ h => (witnesses_out s hs n).err h) v st hno

theorem C09_precedence_witnesses {σ} (s : Slice) (hs : s.len < 2 ^ 62) (n : Nat) (v : Visitor σ) (st : σ) (i : Nat)
    (hi : i < (decWitnesses s n).trace.length) (hb : (decWitnesses s n).trace[i].breakable = true)
    (hno : NoBreak v st ((decWitnesses s n).trace.take i))
    (hbr : (v.step (feed v st ((decWitnesses s n).trace.take i)) (decWitnesses s n).trace[i]).2 = true) :
    (Witnesses.visit s n v st).2 = .err .visitBreak ∧
    ∀ r : Res (WitnessesV × Slice), replay v st (decWitnesses s n).trace r = (feed v st ((decWitnesses s n).trace.take (i + 1)), .err .visitBreak) :=
  C09_precedence (sim_witnesses s hs n) v st i hi hb hno hbr

theorem C09_break_transaction {σ} (s : Slice) (hs : s.len < 2 ^ 62) (v : Visitor σ) (st : σ) (i : Nat)
    (hi : i < (decTransaction s).trace.length) (hb : (decTransaction s).trace[i].breakable = true)
    (hno : NoBreak v st ((decTransaction s).trace.take i))
    (hbr : (v.step (feed v st ((decTransaction s).trace.take i)) (decTransaction s).trace[i]).2 = true) :
    Transaction.visit s v st = (feed v st ((decTransaction s).trace.take (i + 1)), .err .visitBreak) :=
  C09_break (sim_transaction s hs) v st i hi hb hno hbr

theorem C09_prefix_same_transaction {σ} (s : Slice) (hs : s.len < 2 ^ 62) (v : Visitor σ) (st : σ) (i : Nat)
    (hi : i < (decTransaction s).trace.length) (hb : (decTransaction s).trace[i].breakable = true)
    (hno : NoBreak v st ((decTransaction s).trace.take i))
    (hbr : (v.step (feed v st ((decTransaction s).trace.take i)) (decTransaction s).trace[i]).2 = true) :
    (Transaction.visit s (tap v) (st, [])).1.2.reverse = (decTransaction s).trace.take (i + 1) ∧
    (Transaction.visit s recorder []).1.reverse = (decTransaction s).trace ∧
    (Transaction.visit s (tap v) (st, [])).1.2.reverse = ((Transaction.visit s recorder []).1.reverse).take (i + 1) :=
  C09_prefix_same (m := fun σ => (Transaction.visit s : VM σ _)) (fun _ => sim_transaction s hs) v st i hi hb hno hbr

theorem C09_never_transaction {σ} (s : Slice) (hs : s.len < 2 ^ 62) (v : Visitor σ) (st : σ)
    (hno : NoBreak v st (decTransaction s).trace) :
    Transaction.visit s v st = (feed v st (decTransaction s).trace, (decTransaction s).res) ∧
    (decTransaction s).res ≠ .err .visitBreak ∧ ∀ k, (decTransaction s).res ≠ .err (.other k) :=
  C09_never (sim_transaction s hs) (fun _ h => (tx_out s hs).err h) v st hno

theorem C09_precedence_transaction {σ} (s : Slice) (hs : s.len < 2 ^ 62) (v : Visitor σ) (st : σ) (i : Nat)
    (hi : i < (decTransaction s).trace.length) (hb : (decTransaction s).trace[i].breakable = true)
    (hno : NoBreak v st ((decTransaction s).trace.take i))
    (hbr : (v.step (feed v st ((decTransaction s).trace.take i)) (decTransaction s).trace[i]).2 = true) :
    (Transaction.visit s v st).2 = .err .visitBreak ∧
    ∀ r : Res (TxV × Slice), replay v st (decTransaction s).trace r = (feed v st ((decTransaction s).trace.take (i + 1)), .err .visitBreak) :=
  C09_precedence (sim_transaction s hs) v st i hi hb hno hbr

theorem C09_break_header {σ} (s : Slice) (v : Visitor σ) (st : σ) (i : Nat)
    (hi : i < (decHeader s).trace.length) (hb : (decHeader s).trace[i].breakable = true)
    (hno : NoBreak v st ((decHeader s).trace.take i))
    (hbr : (v.step (feed v st ((decHeader s).trace.take i)) (decHeader s).trace[i]).2 = true) :
    BlockHeader.visit s v st = (feed v st ((decHeader s).trace.take (i + 1)), .err .visitBreak) :=
  C09_break (sim_header s) v st i hi hb hno hbr

theorem C09_prefix_same_header {σ} (s : Slice) (v : Visitor σ) (st : σ) (i : Nat)
    (hi : i < (decHeader s).trace.length) (hb : (decHeader s).trace[i].breakable = true)
    (hno : NoBreak v st ((decHeader s).trace.take i))
    (hbr : (v.step (feed v st ((decHeader s).trace.take i)) (decHeader s).trace[i]).2 = true) :
    (BlockHeader.visit s (tap v) (st, [])).1.2.reverse = (decHeader s).trace.take (i + 1) ∧
    (BlockHeader.visit s recorder []).1.reverse = (decHeader s).trace ∧
    (BlockHeader.visit s (tap v) (st, [])).1.2.reverse = ((BlockHeader.visit s recorder []).1.reverse).take (i + 1) :=
  C09_prefix_same (m := fun σ => (BlockHeader.visit s : VM σ _)) (fun _ => sim_header s) v st i hi hb hno hbr

theorem C09_never_header {σ} (s : Slice) (v : Visitor σ) (st : σ)
    (hno : NoBreak v st (decHeader s).trace) :
    BlockHeader.visit s v st = (feed v st (decHeader s).trace, (decHeader s).res) ∧
    (decHeader s).res ≠ .err .visitBreak ∧ ∀ k, (decHeader s).res ≠ .err (.other k) :=
  C09_never (sim_header s) (fun _ h => (header_out s).err h) v st hno

theorem C09_precedence_header {σ} (s : Slice) (v : Visitor σ) (st : σ) (i : Nat)
    (hi : i < (decHeader s).trace.length) (hb : (decHeader s).trace[i].breakable = true)
    (hno : NoBreak v st ((decHeader s).trace.take i))
    (hbr : (v.step (feed v st ((decHeader s).trace.take i)) (decHeader s).trace[i]).2 = true) :
    (BlockHeader.visit s v st).2 = .err .visitBreak ∧
    ∀ r : Res (HeaderV × Slice), replay v st (decHeader s).trace r = (feed v st ((decHeader s).trace.take (i + 1)), .err .visitBreak) :=
  C09_precedence (sim_header s) v st i hi hb hno hbr

theorem C09_break_block {σ} (s : Slice) (hs : s.len < 2 ^ 62) (v : Visitor σ) (st : σ) (i : Nat)
    (hi : i < (decBlock s).trace.length) (hb : (decBlock s).trace[i].breakable = true)
    (hno : NoBreak v st ((decBlock s).trace.take i))
    (hbr : (v.step (feed v st ((decBlock s).trace.take i)) (decBlock s).trace[i]).2 = true) :
    Block.visit s v st = (feed v st ((decBlock s).trace.take (i + 1)), .err .visitBreak) :=
  C09_break (sim_block s hs) v st i hi hb hno hbr

theorem C09_prefix_same_block {σ} (s : Slice) (hs : s.len < 2 ^ 62) (v : Visitor σ) (st : σ) (i : Nat)
    (hi : i < (decBlock s).trace.length) (hb : (decBlock s).trace[i].breakable = true)
    (hno : NoBreak v st ((decBlock s).trace.take i))
    (hbr : (v.step (feed v st ((decBlock s).trace.take i)) (decBlock s).trace[i]).2 = true) :
    (Block.visit s (tap v) (st, [])).1.2.reverse = (decBlock s).trace.take (i + 1) ∧
    (Block.visit s recorder []).1.reverse = (decBlock s).trace ∧
    (Block.visit s (tap v) (st, [])).1.2.reverse = ((Block.visit s recorder []).1.reverse).take (i + 1) :=
  C09_prefix_same (m := fun σ => (Block.visit s : VM σ _)) (fun _ => sim_block s hs) v st i hi hb hno hbr

theorem C09_never_block {σ} (s : Slice) (hs : s.len < 2 ^ 62) (v : Visitor σ) (st : σ)
    (hno : NoBreak v st (decBlock s).trace) :
    Block.visit s v st = (feed v st (decBlock s).trace, (decBlock s).res) ∧
    (decBlock s).res ≠ .err .visitBreak ∧ ∀ k, (decBlock s).res ≠ .err (.other k) :=
  C09_never (sim_block s hs) (fun _ h => (block_out s hs).err h) v st hno

theorem C09_precedence_block {σ} (s : Slice) (hs : s.len < 2 ^ 62) (v : Visitor σ) (st : σ) (i : Nat)
    (hi : i < (decBlock s).trace.length) (hb : (decBlock s).trace[i].breakable = true)
    (hno : NoBreak v st ((decBlock s).trace.take i))
    (hbr : (v.step (feed v st ((decBlock s).trace.take i)) (decBlock s).trace[i]).2 = true) :
    (Block.visit s v st).2 = .err .visitBreak ∧
    ∀ r : Res (BlockV × Slice), replay v st (decBlock s).trace r = (feed v st ((decBlock s).trace.take (i + 1)), .err .visitBreak) :=
  C09_precedence (sim_block s hs) v st i hi hb hno hbr

/-! ### non-vacuity

  Two outputs are declared; the first (value 1, empty script) is complete, the second is truncated. A never-breaking
  visitor gets `MoreBytesNeeded`; a visitor that breaks on the first output gets `VisitBreak` (the Break wins over the
  later error) and receives no further callback. -/

def C09_exampleOuts : Slice := ⟨0, [2, 1, 0, 0, 0, 0, 0, 0, 0, 0, 7, 7, 7]⟩

example : (decTxOuts C09_exampleOuts).res = .err .moreBytesNeeded := by decide
example : (decTxOuts C09_exampleOuts).trace.length = 2 := by decide
example : ((decTxOuts C09_exampleOuts).trace[1]'(by decide)).breakable = true := by decide
example : NoBreak (breakAt 0) ([], 0) ((decTxOuts C09_exampleOuts).trace.take 1) :=
  (scanEv_noBreak _ _ _).1 (by decide)
example : ((breakAt 0).step (feed (breakAt 0) ([], 0) ((decTxOuts C09_exampleOuts).trace.take 1))
    ((decTxOuts C09_exampleOuts).trace[1]'(by decide))).2 = true := by decide
example : (TxOuts.visit C09_exampleOuts (breakAt 0) ([], 0)).2 = .err .visitBreak := by decide
example : (TxOuts.visit C09_exampleOuts recorder []).2 = .err .moreBytesNeeded := by decide
example : NoBreak recorder [] (decTxOuts C09_exampleOuts).trace := noBreak_of_never _ neverBreaks_recorder _ _

end BS
