import BS.Lemmas.Lift
import BS.Lemmas.EncTrav
/-
  C04 — the callback sequence of an L2 decoder is the in-order traversal of the decoded structure.

  The traversal `travX b x` is defined once, from the abstract value `x` and the base offset `b`
  (BS/Lemmas/EncDefs.lean): header, `blockBegin n`, then per transaction `txIns n` (for the segwit form an extra
  `txIns 0` first: the marker is first read as an empty input list), each `txIn i view`, `txOuts m`, each
  `txOut i view`, for the segwit form per input `witness i`, `witnessTotal k`, `witnessElement j slice`…,
  `witnessEnd`, and finally `transaction view`. Every view is the canonical view `viewX` (C03) at
  base + the encoded length of everything before it.
  Property theorems only (helper lemmas live in BS/Lemmas/Enc*.lean).
-/
namespace BS
open Spec Enc

/-! ### what the traversal is, element by element: the j-th element event carries index `j` and the canonical view at
    base + (count prefix) + the encoded length of the elements before it -/

theorem C04_trav_txins_nth (b : Nat) (l : List TxInS) (j : Nat) (x : TxInS) (h : l[j]? = some x) :
    (travTxIns b l).length = l.length + 1 ∧ (travTxIns b l)[0]? = some (.txIns l.length) ∧
    (travTxIns b l)[j + 1]? = some (.txIn j
      (viewTxIn (b + (encCompact l.length).length + ((l.take j).map encTxIn).flatten.length) x)) := by
  refine ⟨by simp [travTxIns, travTxInsFrom_length], rfl, ?_⟩
  have := travTxInsFrom_get l (b + (encCompact l.length).length) 0 j x h
  simpa [travTxIns] using this

theorem C04_trav_txouts_nth (b : Nat) (l : List TxOutS) (j : Nat) (x : TxOutS) (h : l[j]? = some x) :
    (travTxOuts b l).length = l.length + 1 ∧ (travTxOuts b l)[0]? = some (.txOuts l.length) ∧
    (travTxOuts b l)[j + 1]? = some (.txOut j
      (viewTxOut (b + (encCompact l.length).length + ((l.take j).map encTxOut).flatten.length) x)) := by
  refine ⟨by simp [travTxOuts, travTxOutsFrom_length], rfl, ?_⟩
  have := travTxOutsFrom_get l (b + (encCompact l.length).length) 0 j x h
  simpa [travTxOuts] using this

/-- a witness element's slice is its payload, without the length prefix -/
theorem C04_trav_witness_nth (b : Nat) (w : List Bytes) (j : Nat) (x : Bytes) (h : w[j]? = some x) :
    (travWitness b w).length = w.length + 1 ∧ (travWitness b w)[0]? = some (.witnessTotal w.length) ∧
    (travWitness b w)[j + 1]? = some (.witnessElement j
      ⟨b + (encCompact w.length).length + ((w.take j).map encVarBytes).flatten.length +
        (encCompact x.length).length, x⟩) := by
  refine ⟨by simp [travWitness, travWitElems_length], rfl, ?_⟩
  have := travWitElems_get w (b + (encCompact w.length).length) 0 j x h
  simpa [travWitness] using this

/-! ### successful runs deliver exactly the traversal -/

theorem C04_ok_txins (b : Nat) (l : List TxInS) (r : Bytes) (hn : l.length < 2 ^ 64) (hw : ∀ x ∈ l, x.WF) :
    (decTxIns ⟨b, encTxIns l ++ r⟩).trace = travTxIns b l := by
  rw [decTxIns_enc b l r hn hw]

theorem C04_ok_txouts (b : Nat) (l : List TxOutS) (r : Bytes) (hn : l.length < 2 ^ 64) (hw : ∀ x ∈ l, x.WF) :
    (decTxOuts ⟨b, encTxOuts l ++ r⟩).trace = travTxOuts b l := by
  rw [decTxOuts_enc b l r hn hw]

theorem C04_ok_witness (b : Nat) (w : List Bytes) (r : Bytes) (hw : witnessWF w) :
    (decWitness ⟨b, encWitness w ++ r⟩).trace = travWitness b w := by
  rw [decWitness_enc b w r hw]

theorem C04_ok_witnesses (b : Nat) (ws : List (List Bytes)) (r : Bytes) (hw : ∀ w ∈ ws, witnessWF w) :
    (decWitnesses ⟨b, encWitnesses ws ++ r⟩ ws.length).trace = travWitnesses b ws := by
  rw [decWitnesses_enc b ws r hw]

theorem C04_ok_transaction (b : Nat) (t : TxS) (r : Bytes) (ht : t.WF) :
    (decTransaction ⟨b, encTx t ++ r⟩).trace = travTx b t := by
  rw [decTransaction_enc b t r ht]

theorem C04_ok_header (b : Nat) (h : HeaderS) (r : Bytes) (hh : h.WF) :
    (decHeader ⟨b, encHeader h ++ r⟩).trace = travHeader b h := by
  rw [decHeader_enc b h r hh]

theorem C04_ok_block (b : Nat) (k : BlockS) (r : Bytes) (hk : k.WF) :
    (decBlock ⟨b, encBlock k ++ r⟩).trace = travBlock b k := by
  rw [decBlock_enc b k r hk]

/-- the same read from the decoder's side: whenever a decoder succeeds, its callbacks are the traversal of the value
    whose encoding it consumed (C03 soundness supplies the value) -/
theorem C04_ok_transaction_sound {s : Slice} {o : TxV} {rem : Slice} (h : (decTransaction s).res = .ok (o, rem)) :
    ∃ t : TxS, t.WF ∧ s.bytes = encTx t ++ rem.bytes ∧ (decTransaction s).trace = travTx s.base t := by
  obtain ⟨t, ht, e, _⟩ := decTransaction_eq_ok h
  refine ⟨t, ht, e, ?_⟩
  obtain ⟨b, bs⟩ := s
  simp only at e ⊢
  subst e
  rw [decTransaction_enc b t _ ht]

theorem C04_ok_block_sound {s : Slice} {o : BlockV} {rem : Slice} (h : (decBlock s).res = .ok (o, rem)) :
    ∃ k : BlockS, k.WF ∧ s.bytes = encBlock k ++ rem.bytes ∧ (decBlock s).trace = travBlock s.base k := by
  obtain ⟨k, hk, e, _⟩ := decBlock_eq_ok h
  refine ⟨k, hk, e, ?_⟩
  obtain ⟨b, bs⟩ := s
  simp only at e ⊢
  subst e
  rw [decBlock_enc b k _ hk]

/-! ### every run — successful or not — only hands out sub-slices of its input:
    `EventsInside tr s` : for every event of `tr` and every slice `t` it carries (`Event.slices`: the object's slice
    and the slices of its sub-views), `Inside t s`, i.e.
    `s.base ≤ t.base ∧ t.base + t.len ≤ s.base + s.len ∧ t.bytes = (s.bytes.drop (t.base - s.base)).take t.len` -/

theorem C04_events_inside_txins (s : Slice) : EventsInside (decTxIns s).trace s := decTxIns_inside s
theorem C04_events_inside_txouts (s : Slice) : EventsInside (decTxOuts s).trace s := decTxOuts_inside s
theorem C04_events_inside_witness (s : Slice) : EventsInside (decWitness s).trace s := decWitness_inside s
theorem C04_events_inside_witnesses (s : Slice) (n : Nat) : EventsInside (decWitnesses s n).trace s :=
  decWitnesses_inside s n
theorem C04_events_inside_transaction (s : Slice) : EventsInside (decTransaction s).trace s :=
  decTransaction_inside s
theorem C04_events_inside_header (s : Slice) : EventsInside (decHeader s).trace s := decHeader_inside s
theorem C04_events_inside_block (s : Slice) : EventsInside (decBlock s).trace s := decBlock_inside s

/-- `EventsInside` spelled out for one event -/
theorem C04_events_inside_unfold {tr : List Event} {s : Slice} (h : EventsInside tr s) {e : Event} (he : e ∈ tr)
    {t : Slice} (ht : t ∈ Event.slices e) :
    s.base ≤ t.base ∧ t.base + t.len ≤ s.base + s.len ∧ t.bytes = (s.bytes.drop (t.base - s.base)).take t.len :=
  h e he t ht

/-! ### failing runs: the callbacks made before the error are a prefix of the traversal of a well-formed value
    (the part of the value the run never reached is arbitrary); together with `C04_events_inside_X` every element
    event describes bytes actually present in the input.

    One error is special: `SegwitFlagWithoutWitnesses` is raised *after* inputs, outputs and all (empty) witnesses
    have been traversed, so the callbacks made are the complete traversal — minus the final `transaction` — of a value
    that is well formed except for having only empty witnesses (`AllEmptyWit`), and they are NOT a prefix of the
    traversal of any well-formed value (`C04_fail_prefix_transaction_nowit_not_wf`). The literal statement "prefix of
    the traversal of some well-formed value" therefore holds exactly for the other errors. -/

theorem C04_fail_prefix_txins {s : Slice} {e : Error} (h : (decTxIns s).res = .err e) :
    ∃ l : List TxInS, l.length < 2 ^ 64 ∧ (∀ x ∈ l, x.WF) ∧ (decTxIns s).trace <+: travTxIns s.base l :=
  decTxIns_fail h

theorem C04_fail_prefix_txouts {s : Slice} {e : Error} (h : (decTxOuts s).res = .err e) :
    ∃ l : List TxOutS, l.length < 2 ^ 64 ∧ (∀ x ∈ l, x.WF) ∧ (decTxOuts s).trace <+: travTxOuts s.base l :=
  decTxOuts_fail h

theorem C04_fail_prefix_witness {s : Slice} {e : Error} (h : (decWitness s).res = .err e) :
    ∃ w : List Bytes, witnessWF w ∧ (decWitness s).trace <+: travWitness s.base w := by
  obtain ⟨w, hw, _, hp⟩ := decWitness_fail h
  exact ⟨w, hw, hp⟩

theorem C04_fail_prefix_witnesses {s : Slice} {n : Nat} {e : Error} (h : (decWitnesses s n).res = .err e) :
    ∃ ws : List (List Bytes), ws.length = n ∧ (∀ w ∈ ws, witnessWF w) ∧
      (decWitnesses s n).trace <+: travWitnesses s.base ws := by
  obtain ⟨ws, hl, hw, _, hp⟩ := decWitnesses_fail h
  exact ⟨ws, hl, hw, hp⟩

theorem C04_fail_prefix_transaction {s : Slice} {e : Error} (h : (decTransaction s).res = .err e)
    (hne : e ≠ .segwitFlagWithoutWitnesses) :
    ∃ t : TxS, t.WF ∧ (decTransaction s).trace <+: travTx s.base t :=
  decTransaction_fail h hne

/-- the special error: the trace is the whole traversal but the last callback, of a value that is well formed
    except that all witnesses are empty -/
theorem C04_fail_prefix_transaction_nowit {s : Slice}
    (h : (decTransaction s).res = .err .segwitFlagWithoutWitnesses) :
    ∃ t : TxS, AllEmptyWit t ∧ (decTransaction s).trace ++ [.transaction (viewTx s.base t)] = travTx s.base t := by
  obtain ⟨t, h1, h2, h3⟩ := decTransaction_nowit_run h
  exact ⟨t, ⟨h1, h2⟩, h3⟩

/-- … and for that error the unrestricted statement is false -/
theorem C04_fail_prefix_transaction_nowit_not_wf {s : Slice}
    (h : (decTransaction s).res = .err .segwitFlagWithoutWitnesses) :
    ¬ ∃ t : TxS, t.WF ∧ (decTransaction s).trace <+: travTx s.base t :=
  decTransaction_nowit_not_prefix h

/-- a header makes its single callback only when it succeeds -/
theorem C04_fail_prefix_header {s : Slice} {e : Error} (h : (decHeader s).res = .err e) :
    (decHeader s).trace = [] := by
  unfold decHeader at h ⊢
  cases h1 : takeN s 80 with
  | ok x => rw [h1] at h; cases h
  | err e' => rfl
  | panic p => rfl

theorem C04_fail_prefix_block {s : Slice} {e : Error} (h : (decBlock s).res = .err e)
    (hne : e ≠ .segwitFlagWithoutWitnesses) :
    ∃ k : BlockS, k.WF ∧ (decBlock s).trace <+: travBlock s.base k :=
  decBlock_fail h hne

/-- the special error inside a block: every transaction of the completed block is well formed except the failing one,
    which is `AllEmptyWit` -/
theorem C04_fail_prefix_block_nowit {s : Slice} (h : (decBlock s).res = .err .segwitFlagWithoutWitnesses) :
    ∃ k : BlockS, k.header.WF ∧ k.txs.length < 2 ^ 64 ∧ (∀ t ∈ k.txs, t.WF ∨ AllEmptyWit t) ∧
      (decBlock s).trace <+: travBlock s.base k :=
  decBlock_fail_nowit h

/-! ### non-vacuity -/

example : (decTransaction ⟨10, encTx exSegwit ++ [9]⟩).trace = travTx 10 exSegwit := by decide
example : (travTx 10 exSegwit).length = 10 := by decide
/-- a truncated transaction still made callbacks, all inside the input -/
example : (decTransaction ⟨10, (encTx exSegwit).take 63⟩).trace.length = 7 ∧
    (decTransaction ⟨10, (encTx exSegwit).take 63⟩).res = .err .moreBytesNeeded := by decide

/-! ## L1 corollaries (generated by tools/genlift.py) -/
section L1
open BS.Ref BS.Lift

/-- on the model of the code: the recording visitor receives exactly the in-order traversal of the encoded value -/
theorem C04_L1_ok_transaction (b : Nat) (t : TxS) (r : Bytes) (ht : t.WF) (hl : (encTx t ++ r).length < 2 ^ 62) :
    ((Transaction.visit ⟨b, encTx t ++ r⟩) recorder []).1.reverse = travTx b t := by
  rw [recorder_eq (fun v st => refine_transaction _ (by simpa [Slice.len] using hl) v st)]
  simpa using C04_ok_transaction b t r ht

theorem C04_L1_ok_block (b : Nat) (k : BlockS) (r : Bytes) (hk : k.WF) (hl : (encBlock k ++ r).length < 2 ^ 62) :
    ((Block.visit ⟨b, encBlock k ++ r⟩) recorder []).1.reverse = travBlock b k := by
  rw [recorder_eq (fun v st => refine_block _ (by simpa [Slice.len] using hl) v st)]
  simpa using C04_ok_block b k r hk

/-- on the model of the code, for every input (valid or not): every slice handed to the recording visitor lies inside
    the input, with the input's bytes -/
theorem C04_L1_events_inside_block (s : Slice) (hs : s.len < 2 ^ 62) :
    EventsInside ((Block.visit s) recorder []).1.reverse s := by
  rw [recorder_eq (fun v st => refine_block s hs v st)]
  simpa using C04_events_inside_block s

theorem C04_L1_events_inside_transaction (s : Slice) (hs : s.len < 2 ^ 62) :
    EventsInside ((Transaction.visit s) recorder []).1.reverse s := by
  rw [recorder_eq (fun v st => refine_transaction s hs v st)]
  simpa using C04_events_inside_transaction s

end L1

end BS
