import BS.Lemmas.Lift
import BS.Lemmas.StabGen2
/-
  C02 on L2 — a successful parse splits its input exactly, and depends on nothing behind what it consumes.

    C02_partition_X     success on `s` → for some `k ≤ s.len` the returned view is `⟨s.base, s.bytes.take k⟩` (the first k
                        bytes *at the input's own offset*: the very same memory) and the remainder is
                        `⟨s.base + k, s.bytes.drop k⟩` (the rest, at its own offset)
    C02_remainder_X     (for the integer decoders, which return no view) the remainder is the rest of the input
    C02_suffix_indep_X  if parsing `p ++ x` succeeds leaving exactly `x`, then for every `y` parsing `p ++ y` succeeds with the
                        same object (and callbacks) leaving exactly `y`
  Property theorems only; the work is in BS/Lemmas/StabShape.lean (`post_dec*`), StabD/StabDec (`ext_dec*`), StabCut* (`tp_dec*`).
-/
namespace BS
open Spec

/-! ## decoders without callbacks -/

/-! ### `decLE w` -/
theorem C02_remainder_le (w : Nat) {s : Slice} {o : Nat} {rem : Slice} (h : decLE w s = .ok (o, rem)) :
    ∃ k, k ≤ s.len ∧ rem = ⟨s.base + k, s.bytes.drop k⟩ :=
  (Stab.post_decLE w s).2 (o, rem) h

theorem C02_suffix_indep_le (w : Nat) {b : Nat} {p x : Bytes} {o : Nat} {rem : Slice}
    (h : decLE w ⟨b, p ++ x⟩ = .ok (o, rem)) (hx : rem.bytes = x) (y : Bytes) :
    decLE w ⟨b, p ++ y⟩ = .ok (o, ⟨rem.base, y⟩) :=
  Stab.R_suffix_indep (f := decLE w) (Stab.ext_decLE w) (Stab.tp_decLE w) h hx y

/-! ### `decCompact` -/
theorem C02_remainder_compact {s : Slice} {o : Nat} {rem : Slice} (h : decCompact s = .ok (o, rem)) :
    ∃ k, k ≤ s.len ∧ rem = ⟨s.base + k, s.bytes.drop k⟩ :=
  (Stab.post_decCompact s).2 (o, rem) h

theorem C02_suffix_indep_compact {b : Nat} {p x : Bytes} {o : Nat} {rem : Slice}
    (h : decCompact ⟨b, p ++ x⟩ = .ok (o, rem)) (hx : rem.bytes = x) (y : Bytes) :
    decCompact ⟨b, p ++ y⟩ = .ok (o, ⟨rem.base, y⟩) :=
  Stab.R_suffix_indep Stab.ext_decCompact Stab.tp_decCompact h hx y

/-! ### `decScript` -/
theorem C02_partition_script {s : Slice} {o : ScriptV} {rem : Slice} (h : decScript s = .ok (o, rem)) :
    ∃ k, k ≤ s.len ∧ o.slice = ⟨s.base, s.bytes.take k⟩ ∧ rem = ⟨s.base + k, s.bytes.drop k⟩ :=
  (Stab.post_decScript s).2 (o, rem) h

theorem C02_suffix_indep_script {b : Nat} {p x : Bytes} {o : ScriptV} {rem : Slice}
    (h : decScript ⟨b, p ++ x⟩ = .ok (o, rem)) (hx : rem.bytes = x) (y : Bytes) :
    decScript ⟨b, p ++ y⟩ = .ok (o, ⟨rem.base, y⟩) :=
  Stab.R_suffix_indep Stab.ext_decScript Stab.tp_decScript h hx y

/-! ### `decOutPoint` -/
theorem C02_partition_outpoint {s : Slice} {o : OutPointV} {rem : Slice} (h : decOutPoint s = .ok (o, rem)) :
    ∃ k, k ≤ s.len ∧ o.slice = ⟨s.base, s.bytes.take k⟩ ∧ rem = ⟨s.base + k, s.bytes.drop k⟩ :=
  (Stab.post_decOutPoint s).2 (o, rem) h

theorem C02_suffix_indep_outpoint {b : Nat} {p x : Bytes} {o : OutPointV} {rem : Slice}
    (h : decOutPoint ⟨b, p ++ x⟩ = .ok (o, rem)) (hx : rem.bytes = x) (y : Bytes) :
    decOutPoint ⟨b, p ++ y⟩ = .ok (o, ⟨rem.base, y⟩) :=
  Stab.R_suffix_indep Stab.ext_decOutPoint Stab.tp_decOutPoint h hx y

/-! ### `decTxIn` -/
theorem C02_partition_txin {s : Slice} {o : TxInV} {rem : Slice} (h : decTxIn s = .ok (o, rem)) :
    ∃ k, k ≤ s.len ∧ o.slice = ⟨s.base, s.bytes.take k⟩ ∧ rem = ⟨s.base + k, s.bytes.drop k⟩ :=
  (Stab.post_decTxIn s).2 (o, rem) h

theorem C02_suffix_indep_txin {b : Nat} {p x : Bytes} {o : TxInV} {rem : Slice}
    (h : decTxIn ⟨b, p ++ x⟩ = .ok (o, rem)) (hx : rem.bytes = x) (y : Bytes) :
    decTxIn ⟨b, p ++ y⟩ = .ok (o, ⟨rem.base, y⟩) :=
  Stab.R_suffix_indep Stab.ext_decTxIn Stab.tp_decTxIn h hx y

/-! ### `decTxOut` -/
theorem C02_partition_txout {s : Slice} {o : TxOutV} {rem : Slice} (h : decTxOut s = .ok (o, rem)) :
    ∃ k, k ≤ s.len ∧ o.slice = ⟨s.base, s.bytes.take k⟩ ∧ rem = ⟨s.base + k, s.bytes.drop k⟩ :=
  (Stab.post_decTxOut s).2 (o, rem) h

theorem C02_suffix_indep_txout {b : Nat} {p x : Bytes} {o : TxOutV} {rem : Slice}
    (h : decTxOut ⟨b, p ++ x⟩ = .ok (o, rem)) (hx : rem.bytes = x) (y : Bytes) :
    decTxOut ⟨b, p ++ y⟩ = .ok (o, ⟨rem.base, y⟩) :=
  Stab.R_suffix_indep Stab.ext_decTxOut Stab.tp_decTxOut h hx y

/-! ## decoders with callbacks -/

/-! ### `decTxIns ·` -/
theorem C02_partition_txins {s : Slice} {o : TxInsV} {rem : Slice} (h : (decTxIns s).res = .ok (o, rem)) :
    ∃ k, k ≤ s.len ∧ o.slice = ⟨s.base, s.bytes.take k⟩ ∧ rem = ⟨s.base + k, s.bytes.drop k⟩ :=
  (Stab.post_decTxIns s).2 (o, rem) h

theorem C02_suffix_indep_txins {b : Nat} {p x : Bytes} {o : TxInsV} {rem : Slice}
    (h : (decTxIns ⟨b, p ++ x⟩).res = .ok (o, rem)) (hx : rem.bytes = x) (y : Bytes) :
    decTxIns ⟨b, p ++ y⟩ = ⟨(decTxIns ⟨b, p ++ x⟩).trace, .ok (o, ⟨rem.base, y⟩)⟩ :=
  Stab.D_suffix_indep Stab.ext_decTxIns Stab.tp_decTxIns h hx y

/-! ### `decTxOuts ·` -/
theorem C02_partition_txouts {s : Slice} {o : TxOutsV} {rem : Slice} (h : (decTxOuts s).res = .ok (o, rem)) :
    ∃ k, k ≤ s.len ∧ o.slice = ⟨s.base, s.bytes.take k⟩ ∧ rem = ⟨s.base + k, s.bytes.drop k⟩ :=
  (Stab.post_decTxOuts s).2 (o, rem) h

theorem C02_suffix_indep_txouts {b : Nat} {p x : Bytes} {o : TxOutsV} {rem : Slice}
    (h : (decTxOuts ⟨b, p ++ x⟩).res = .ok (o, rem)) (hx : rem.bytes = x) (y : Bytes) :
    decTxOuts ⟨b, p ++ y⟩ = ⟨(decTxOuts ⟨b, p ++ x⟩).trace, .ok (o, ⟨rem.base, y⟩)⟩ :=
  Stab.D_suffix_indep Stab.ext_decTxOuts Stab.tp_decTxOuts h hx y

/-! ### `decWitnesses · n` -/
theorem C02_partition_witnesses (n : Nat) {s : Slice} {o : WitnessesV} {rem : Slice} (h : (decWitnesses s n).res = .ok (o, rem)) :
    ∃ k, k ≤ s.len ∧ o.slice = ⟨s.base, s.bytes.take k⟩ ∧ rem = ⟨s.base + k, s.bytes.drop k⟩ :=
  (Stab.post_decWitnesses n s).2 (o, rem) h

theorem C02_suffix_indep_witnesses (n : Nat) {b : Nat} {p x : Bytes} {o : WitnessesV} {rem : Slice}
    (h : (decWitnesses ⟨b, p ++ x⟩ n).res = .ok (o, rem)) (hx : rem.bytes = x) (y : Bytes) :
    decWitnesses ⟨b, p ++ y⟩ n = ⟨(decWitnesses ⟨b, p ++ x⟩ n).trace, .ok (o, ⟨rem.base, y⟩)⟩ :=
  Stab.D_suffix_indep (d := fun s => decWitnesses s n) (Stab.ext_decWitnesses n) (Stab.tp_decWitnesses n) h hx y

/-! ### `decTransaction ·` -/
theorem C02_partition_transaction {s : Slice} {o : TxV} {rem : Slice} (h : (decTransaction s).res = .ok (o, rem)) :
    ∃ k, k ≤ s.len ∧ o.slice = ⟨s.base, s.bytes.take k⟩ ∧ rem = ⟨s.base + k, s.bytes.drop k⟩ :=
  (Stab.post_decTransaction s).2 (o, rem) h

theorem C02_suffix_indep_transaction {b : Nat} {p x : Bytes} {o : TxV} {rem : Slice}
    (h : (decTransaction ⟨b, p ++ x⟩).res = .ok (o, rem)) (hx : rem.bytes = x) (y : Bytes) :
    decTransaction ⟨b, p ++ y⟩ = ⟨(decTransaction ⟨b, p ++ x⟩).trace, .ok (o, ⟨rem.base, y⟩)⟩ :=
  Stab.D_suffix_indep Stab.ext_decTransaction Stab.tp_decTransaction h hx y

/-! ### `decHeader ·` -/
theorem C02_partition_header {s : Slice} {o : HeaderV} {rem : Slice} (h : (decHeader s).res = .ok (o, rem)) :
    ∃ k, k ≤ s.len ∧ o.slice = ⟨s.base, s.bytes.take k⟩ ∧ rem = ⟨s.base + k, s.bytes.drop k⟩ :=
  (Stab.post_decHeader s).2 (o, rem) h

theorem C02_suffix_indep_header {b : Nat} {p x : Bytes} {o : HeaderV} {rem : Slice}
    (h : (decHeader ⟨b, p ++ x⟩).res = .ok (o, rem)) (hx : rem.bytes = x) (y : Bytes) :
    decHeader ⟨b, p ++ y⟩ = ⟨(decHeader ⟨b, p ++ x⟩).trace, .ok (o, ⟨rem.base, y⟩)⟩ :=
  Stab.D_suffix_indep Stab.ext_decHeader Stab.tp_decHeader h hx y

/-! ### `decBlock ·` -/
theorem C02_partition_block {s : Slice} {o : BlockV} {rem : Slice} (h : (decBlock s).res = .ok (o, rem)) :
    ∃ k, k ≤ s.len ∧ o.slice = ⟨s.base, s.bytes.take k⟩ ∧ rem = ⟨s.base + k, s.bytes.drop k⟩ :=
  (Stab.post_decBlock s).2 (o, rem) h

theorem C02_suffix_indep_block {b : Nat} {p x : Bytes} {o : BlockV} {rem : Slice}
    (h : (decBlock ⟨b, p ++ x⟩).res = .ok (o, rem)) (hx : rem.bytes = x) (y : Bytes) :
    decBlock ⟨b, p ++ y⟩ = ⟨(decBlock ⟨b, p ++ x⟩).trace, .ok (o, ⟨rem.base, y⟩)⟩ :=
  Stab.D_suffix_indep Stab.ext_decBlock Stab.tp_decBlock h hx y

/-! ### `decWitness ·` (object, "has no elements" flag, remainder) -/
theorem C02_partition_witness {s : Slice} {o : WitnessV} {em : Bool} {rem : Slice}
    (h : (decWitness s).res = .ok (o, em, rem)) :
    ∃ k, k ≤ s.len ∧ o.slice = ⟨s.base, s.bytes.take k⟩ ∧ rem = ⟨s.base + k, s.bytes.drop k⟩ :=
  (Stab.post_decWitness s).2 (o, em, rem) h

theorem C02_suffix_indep_witness {b : Nat} {p x : Bytes} {o : WitnessV} {em : Bool} {rem : Slice}
    (h : (decWitness ⟨b, p ++ x⟩).res = .ok (o, em, rem)) (hx : rem.bytes = x) (y : Bytes) :
    decWitness ⟨b, p ++ y⟩ = ⟨(decWitness ⟨b, p ++ x⟩).trace, .ok (o, em, ⟨rem.base, y⟩)⟩ :=
  Stab.W_suffix_indep h hx y

/-! ## non-vacuity -/

/-- a 65-byte segwit transaction: marker 0, flag 1, one input, one output, one witness with one 1-byte element -/
def C02_exSegwit : Bytes :=
  [2,0,0,0, 0, 1, 1] ++ List.replicate 36 9 ++ [0, 0xFE,0xFF,0xFF,0xFF, 1, 5,0,0,0,0,0,0,0, 0, 1, 1, 0xAB, 0,0,0,0]

-- hypothesis of `C02_partition_transaction` / `C02_suffix_indep_transaction` at a non-zero base offset with trailing bytes:
-- the view starts at offset 100 (the input's), the remainder at offset 165
example : (decTransaction ⟨100, C02_exSegwit ++ [1, 2, 3]⟩).res
    = .ok (⟨⟨100, C02_exSegwit⟩, some 52⟩, ⟨165, [1, 2, 3]⟩) := by decide
example : decTxOut ⟨7, [5,0,0,0,0,0,0,0, 2, 0xAA, 0xBB, 0xCC]⟩
    = .ok (⟨⟨7, [5,0,0,0,0,0,0,0, 2, 0xAA, 0xBB]⟩, 5, ⟨⟨15, [2, 0xAA, 0xBB]⟩, 1⟩⟩, ⟨18, [0xCC]⟩) := by decide/-! ## L1 corollaries (generated by tools/genlift.py) -/
section L1
open BS.Ref BS.Lift

/-- `Script.parse` on the model of the code: the view is the first `k` bytes of the input at the input's own offset, the remainder the rest -/
theorem C02_L1_partition_script {s : Slice} (hs : s.len < 2 ^ 62) {o : ScriptV} {rem : Slice} (h : Script.parse s = .ok (o, rem)) :
    ∃ k, k ≤ s.len ∧ o.slice = ⟨s.base, s.bytes.take k⟩ ∧ rem = ⟨s.base + k, s.bytes.drop k⟩ :=
  C02_partition_script (by rw [← refine_script s hs]; exact h)

/-- `OutPoint.parse` on the model of the code: the view is the first `k` bytes of the input at the input's own offset, the remainder the rest -/
theorem C02_L1_partition_outpoint {s : Slice} {o : OutPointV} {rem : Slice} (h : OutPoint.parse s = .ok (o, rem)) :
    ∃ k, k ≤ s.len ∧ o.slice = ⟨s.base, s.bytes.take k⟩ ∧ rem = ⟨s.base + k, s.bytes.drop k⟩ :=
  C02_partition_outpoint (by rw [← refine_outpoint s]; exact h)

/-- `TxIn.parse` on the model of the code: the view is the first `k` bytes of the input at the input's own offset, the remainder the rest -/
theorem C02_L1_partition_txin {s : Slice} (hs : s.len < 2 ^ 62) {o : TxInV} {rem : Slice} (h : TxIn.parse s = .ok (o, rem)) :
    ∃ k, k ≤ s.len ∧ o.slice = ⟨s.base, s.bytes.take k⟩ ∧ rem = ⟨s.base + k, s.bytes.drop k⟩ :=
  C02_partition_txin (by rw [← refine_txin s hs]; exact h)

/-- `TxOut.parse` on the model of the code: the view is the first `k` bytes of the input at the input's own offset, the remainder the rest -/
theorem C02_L1_partition_txout {s : Slice} (hs : s.len < 2 ^ 62) {o : TxOutV} {rem : Slice} (h : TxOut.parse s = .ok (o, rem)) :
    ∃ k, k ≤ s.len ∧ o.slice = ⟨s.base, s.bytes.take k⟩ ∧ rem = ⟨s.base + k, s.bytes.drop k⟩ :=
  C02_partition_txout (by rw [← refine_txout s hs]; exact h)

/-- `TxIns.visit` under every visitor and visitor state -/
theorem C02_L1_partition_txins {σ : Type} {s : Slice} (hs : s.len < 2 ^ 62) {v : Visitor σ} {st st' : σ} {o : TxInsV} {rem : Slice}
    (h : TxIns.visit s v st = (st', .ok (o, rem))) : ∃ k, k ≤ s.len ∧ o.slice = ⟨s.base, s.bytes.take k⟩ ∧ rem = ⟨s.base + k, s.bytes.drop k⟩ :=
  C02_partition_txins (ok_of_sim (fun v st => refine_txins s hs v st) h)

/-- `TxOuts.visit` under every visitor and visitor state -/
theorem C02_L1_partition_txouts {σ : Type} {s : Slice} (hs : s.len < 2 ^ 62) {v : Visitor σ} {st st' : σ} {o : TxOutsV} {rem : Slice}
    (h : TxOuts.visit s v st = (st', .ok (o, rem))) : ∃ k, k ≤ s.len ∧ o.slice = ⟨s.base, s.bytes.take k⟩ ∧ rem = ⟨s.base + k, s.bytes.drop k⟩ :=
  C02_partition_txouts (ok_of_sim (fun v st => refine_txouts s hs v st) h)

/-- `Witnesses.visit` under every visitor and visitor state -/
theorem C02_L1_partition_witnesses {σ : Type} {s : Slice} {n : Nat} (hs : s.len < 2 ^ 62) {v : Visitor σ} {st st' : σ} {o : WitnessesV} {rem : Slice}
    (h : Witnesses.visit s n v st = (st', .ok (o, rem))) : ∃ k, k ≤ s.len ∧ o.slice = ⟨s.base, s.bytes.take k⟩ ∧ rem = ⟨s.base + k, s.bytes.drop k⟩ :=
  C02_partition_witnesses n (ok_of_sim (fun v st => refine_witnesses s hs n v st) h)

/-- `Transaction.visit` under every visitor and visitor state -/
theorem C02_L1_partition_transaction {σ : Type} {s : Slice} (hs : s.len < 2 ^ 62) {v : Visitor σ} {st st' : σ} {o : TxV} {rem : Slice}
    (h : Transaction.visit s v st = (st', .ok (o, rem))) : ∃ k, k ≤ s.len ∧ o.slice = ⟨s.base, s.bytes.take k⟩ ∧ rem = ⟨s.base + k, s.bytes.drop k⟩ :=
  C02_partition_transaction (ok_of_sim (fun v st => refine_transaction s hs v st) h)

/-- `BlockHeader.visit` under every visitor and visitor state -/
theorem C02_L1_partition_header {σ : Type} {s : Slice} {v : Visitor σ} {st st' : σ} {o : HeaderV} {rem : Slice}
    (h : BlockHeader.visit s v st = (st', .ok (o, rem))) : ∃ k, k ≤ s.len ∧ o.slice = ⟨s.base, s.bytes.take k⟩ ∧ rem = ⟨s.base + k, s.bytes.drop k⟩ :=
  C02_partition_header (ok_of_sim (fun v st => refine_header s v st) h)

/-- `Block.visit` under every visitor and visitor state -/
theorem C02_L1_partition_block {σ : Type} {s : Slice} (hs : s.len < 2 ^ 62) {v : Visitor σ} {st st' : σ} {o : BlockV} {rem : Slice}
    (h : Block.visit s v st = (st', .ok (o, rem))) : ∃ k, k ≤ s.len ∧ o.slice = ⟨s.base, s.bytes.take k⟩ ∧ rem = ⟨s.base + k, s.bytes.drop k⟩ :=
  C02_partition_block (ok_of_sim (fun v st => refine_block s hs v st) h)

theorem C02_L1_partition_witness {σ : Type} {s : Slice} (hs : s.len < 2 ^ 62) {v : Visitor σ} {st st' : σ} {o : WitnessV} {rem : Slice}
    (h : Witness.visit s v st = (st', .ok (o, rem))) : ∃ k, k ≤ s.len ∧ o.slice = ⟨s.base, s.bytes.take k⟩ ∧ rem = ⟨s.base + k, s.bytes.drop k⟩ := by
  have h1 := ok_of_sim (fun v st => sim_witness s hs v st) h
  rw [witnessD_res] at h1
  cases hd : (decWitness s).res with
  | ok x =>
    obtain ⟨o', em, rem'⟩ := x
    rw [hd] at h1
    simp only [Res.map'] at h1
    injection h1 with h1
    injection h1 with h2 h3
    subst h2; subst h3
    exact C02_partition_witness hd
  | err e => rw [hd] at h1; simp [Res.map'] at h1
  | panic q => rw [hd] at h1; simp [Res.map'] at h1

/-- parsing never looks at, or depends on, the bytes after the object: same object, whatever follows -/
theorem C02_L1_suffix_indep_txins {b : Nat} {p x y : Bytes} {o : TxInsV} {rem : Slice}
    (hx : (p ++ x).length < 2 ^ 62) (hy : (p ++ y).length < 2 ^ 62)
    (h : parseOf (TxIns.visit ⟨b, p ++ x⟩) = .ok (o, rem)) (hr : rem.bytes = x) :
    parseOf (TxIns.visit ⟨b, p ++ y⟩) = .ok (o, ⟨rem.base, y⟩) := by
  rw [parseOf_txins _ (by simpa [Slice.len] using hx)] at h
  rw [parseOf_txins _ (by simpa [Slice.len] using hy), C02_suffix_indep_txins h hr y]

/-- parsing never looks at, or depends on, the bytes after the object: same object, whatever follows -/
theorem C02_L1_suffix_indep_txouts {b : Nat} {p x y : Bytes} {o : TxOutsV} {rem : Slice}
    (hx : (p ++ x).length < 2 ^ 62) (hy : (p ++ y).length < 2 ^ 62)
    (h : parseOf (TxOuts.visit ⟨b, p ++ x⟩) = .ok (o, rem)) (hr : rem.bytes = x) :
    parseOf (TxOuts.visit ⟨b, p ++ y⟩) = .ok (o, ⟨rem.base, y⟩) := by
  rw [parseOf_txouts _ (by simpa [Slice.len] using hx)] at h
  rw [parseOf_txouts _ (by simpa [Slice.len] using hy), C02_suffix_indep_txouts h hr y]

/-- parsing never looks at, or depends on, the bytes after the object: same object, whatever follows -/
theorem C02_L1_suffix_indep_witnesses {b : Nat} {p x y : Bytes} {n : Nat} {o : WitnessesV} {rem : Slice}
    (hx : (p ++ x).length < 2 ^ 62) (hy : (p ++ y).length < 2 ^ 62)
    (h : parseOf (Witnesses.visit ⟨b, p ++ x⟩ n) = .ok (o, rem)) (hr : rem.bytes = x) :
    parseOf (Witnesses.visit ⟨b, p ++ y⟩ n) = .ok (o, ⟨rem.base, y⟩) := by
  rw [parseOf_witnesses _ (by simpa [Slice.len] using hx) n] at h
  rw [parseOf_witnesses _ (by simpa [Slice.len] using hy) n, C02_suffix_indep_witnesses n h hr y]

/-- parsing never looks at, or depends on, the bytes after the object: same object, whatever follows -/
theorem C02_L1_suffix_indep_transaction {b : Nat} {p x y : Bytes} {o : TxV} {rem : Slice}
    (hx : (p ++ x).length < 2 ^ 62) (hy : (p ++ y).length < 2 ^ 62)
    (h : parseOf (Transaction.visit ⟨b, p ++ x⟩) = .ok (o, rem)) (hr : rem.bytes = x) :
    parseOf (Transaction.visit ⟨b, p ++ y⟩) = .ok (o, ⟨rem.base, y⟩) := by
  rw [parseOf_transaction _ (by simpa [Slice.len] using hx)] at h
  rw [parseOf_transaction _ (by simpa [Slice.len] using hy), C02_suffix_indep_transaction h hr y]

/-- parsing never looks at, or depends on, the bytes after the object: same object, whatever follows -/
theorem C02_L1_suffix_indep_block {b : Nat} {p x y : Bytes} {o : BlockV} {rem : Slice}
    (hx : (p ++ x).length < 2 ^ 62) (hy : (p ++ y).length < 2 ^ 62)
    (h : parseOf (Block.visit ⟨b, p ++ x⟩) = .ok (o, rem)) (hr : rem.bytes = x) :
    parseOf (Block.visit ⟨b, p ++ y⟩) = .ok (o, ⟨rem.base, y⟩) := by
  rw [parseOf_block _ (by simpa [Slice.len] using hx)] at h
  rw [parseOf_block _ (by simpa [Slice.len] using hy), C02_suffix_indep_block h hr y]


end L1

end BS
