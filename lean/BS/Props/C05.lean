import BS.Lemmas.FinBorrow
import BS.Lemmas.Lift
import BS.Lemmas.AccIter
/-
  C05 — borrowed-only representation ("zero allocation").

  The Rust crate promises not to allocate: every parsed object and every callback argument is a borrowed sub-slice
  of the input plus a few scalars. A value-level model cannot exhibit an allocation; what is proved here is the
  representation claim behind it. With

    `Enc.Inside t s`  :=  `s.base ≤ t.base ∧ t.base + t.len ≤ s.base + s.len ∧
                           t.bytes = (s.bytes.drop (t.base - s.base)).take t.len`

  (`t` is the part of `s` at `t`'s absolute position, BS/Lemmas/EncDefs.lean), for EVERY input `s`:
  * `C05_result_borrowed_X`   : when the L2 decoder of X succeeds, every slice stored anywhere in the object it returns,
                                and the remainder, is `Inside s`;
  * `C05_events_borrowed_X`   : every slice inside every callback argument — of successful and of failing runs — is
                                `Inside s`;
  * `C05_accessors_borrowed_*`: every slice an accessor returns lies inside the object's own slice (hence inside the
                                input); the one exception is spelled out: in the legacy form, parts 2 and 3 of the
                                txid preimage are the static empty slice `&[]`, which borrows from nothing;
  * `C05_L1_result_borrowed_*`: the same for the L1 model of the code, through the refinement.
  Property theorems only; helper lemmas in BS/Lemmas/FinBorrow.lean (and BS/Lemmas/EncInside.lean for the callbacks).

  `C05_no_copy_in_model` (a remark, not a theorem). The theorems above speak about the *values* of the slices. That the
  L2 decoders never build a byte string any other way is a syntactic fact checked by reading BS/Spec/Decode.lean: the
  only places where a `Slice` is constructed are `viewOf` (`⟨s.base, s.bytes.take …⟩`), `takeN`
  (`⟨s.base, s.bytes.take n⟩`, `⟨s.base + n, s.bytes.drop n⟩`) and the one-byte step of `decCompact`
  (`⟨s.base + 1, s.bytes.drop 1⟩`): `take`/`drop` of the input with the matching offset, nothing is concatenated,
  mapped or copied. Likewise every L1 accessor of BS/Impl/Parse.lean is a `from_`/`to_`/`range` of the stored slice;
  the only slice literal is `Slice.staticEmpty`.
-/
namespace BS
open Spec Enc

/-! ### results: every slice of the returned object, and the remainder -/

theorem C05_result_borrowed_script {s : Slice} {o : ScriptV} {rem : Slice} (h : decScript s = .ok (o, rem)) :
    Inside o.slice s ∧ Inside rem s :=
  Fin.decScript_borrowed h

theorem C05_result_borrowed_outpoint {s : Slice} {o : OutPointV} {rem : Slice} (h : decOutPoint s = .ok (o, rem)) :
    Inside o.slice s ∧ Inside rem s :=
  Fin.decOutPoint_borrowed h

/-- an input stores three slices: its own, the outpoint's, the script's (the last two are parts of the first) -/
theorem C05_result_borrowed_txin {s : Slice} {o : TxInV} {rem : Slice} (h : decTxIn s = .ok (o, rem)) :
    Inside o.slice s ∧ Inside o.prevout.slice s ∧ Inside o.scriptSig.slice s ∧ Inside rem s ∧
    Inside o.prevout.slice o.slice ∧ Inside o.scriptSig.slice o.slice :=
  Fin.decTxIn_borrowed h

/-- an output stores two slices: its own and the script's (a part of the first) -/
theorem C05_result_borrowed_txout {s : Slice} {o : TxOutV} {rem : Slice} (h : decTxOut s = .ok (o, rem)) :
    Inside o.slice s ∧ Inside o.scriptPubkey.slice s ∧ Inside rem s ∧ Inside o.scriptPubkey.slice o.slice :=
  Fin.decTxOut_borrowed h

theorem C05_result_borrowed_txins {s : Slice} {o : TxInsV} {rem : Slice} (h : (decTxIns s).res = .ok (o, rem)) :
    Inside o.slice s ∧ Inside rem s :=
  Fin.decTxIns_borrowed h

theorem C05_result_borrowed_txouts {s : Slice} {o : TxOutsV} {rem : Slice} (h : (decTxOuts s).res = .ok (o, rem)) :
    Inside o.slice s ∧ Inside rem s :=
  Fin.decTxOuts_borrowed h

theorem C05_result_borrowed_witness {s : Slice} {o : WitnessV} {em : Bool} {rem : Slice}
    (h : (decWitness s).res = .ok (o, em, rem)) : Inside o.slice s ∧ Inside rem s :=
  Fin.decWitness_borrowed h

theorem C05_result_borrowed_witnesses {s : Slice} {n : Nat} {o : WitnessesV} {rem : Slice}
    (h : (decWitnesses s n).res = .ok (o, rem)) : Inside o.slice s ∧ Inside rem s :=
  Fin.decWitnesses_borrowed h

theorem C05_result_borrowed_transaction {s : Slice} {o : TxV} {rem : Slice}
    (h : (decTransaction s).res = .ok (o, rem)) : Inside o.slice s ∧ Inside rem s :=
  Fin.decTransaction_borrowed h

theorem C05_result_borrowed_header {s : Slice} {o : HeaderV} {rem : Slice} (h : (decHeader s).res = .ok (o, rem)) :
    Inside o.slice s ∧ Inside rem s :=
  Fin.decHeader_borrowed h

/-- a block stores two slices: its own and the header's (a part of the first) -/
theorem C05_result_borrowed_block {s : Slice} {o : BlockV} {rem : Slice} (h : (decBlock s).res = .ok (o, rem)) :
    Inside o.slice s ∧ Inside o.header.slice s ∧ Inside rem s ∧ Inside o.header.slice o.slice :=
  Fin.decBlock_borrowed h

/-! ### callbacks: `EventsInside tr s` = for every event of `tr` and every slice `t` it carries
    (`Enc.Event.slices`: header → its slice; transaction → its slice; input → its slice, the outpoint's, the script's;
    output → its slice, the script's; witness element → the element), `Inside t s`. Successful or not. -/

theorem C05_events_borrowed_txins (s : Slice) : EventsInside (decTxIns s).trace s := decTxIns_inside s
theorem C05_events_borrowed_txouts (s : Slice) : EventsInside (decTxOuts s).trace s := decTxOuts_inside s
theorem C05_events_borrowed_witness (s : Slice) : EventsInside (decWitness s).trace s := decWitness_inside s
theorem C05_events_borrowed_witnesses (s : Slice) (n : Nat) : EventsInside (decWitnesses s n).trace s :=
  decWitnesses_inside s n
theorem C05_events_borrowed_transaction (s : Slice) : EventsInside (decTransaction s).trace s :=
  decTransaction_inside s
theorem C05_events_borrowed_header (s : Slice) : EventsInside (decHeader s).trace s := decHeader_inside s
theorem C05_events_borrowed_block (s : Slice) : EventsInside (decBlock s).trace s := decBlock_inside s

/-- spelled out for the two element callbacks of a block run -/
theorem C05_events_borrowed_block_elems (s : Slice) :
    (∀ i x, Event.txIn i x ∈ (decBlock s).trace →
      Inside x.slice s ∧ Inside x.prevout.slice s ∧ Inside x.scriptSig.slice s) ∧
    (∀ i x, Event.txOut i x ∈ (decBlock s).trace → Inside x.slice s ∧ Inside x.scriptPubkey.slice s) ∧
    (∀ i e, Event.witnessElement i e ∈ (decBlock s).trace → Inside e s) ∧
    (∀ tx, Event.transaction tx ∈ (decBlock s).trace → Inside tx.slice s) ∧
    (∀ h, Event.blockHeader h ∈ (decBlock s).trace → Inside h.slice s) := by
  have H := decBlock_inside s
  refine ⟨fun i x hm => ⟨H _ hm _ ?_, H _ hm _ ?_, H _ hm _ ?_⟩, fun i x hm => ⟨H _ hm _ ?_, H _ hm _ ?_⟩,
    fun i e hm => H _ hm _ ?_, fun tx hm => H _ hm _ ?_, fun h hm => H _ hm _ ?_⟩ <;> simp [Event.slices]

/-! ### accessors -/

/-- `Script::script` = `&slice[from..]` -/
theorem C05_accessors_borrowed_script (v : ScriptV) {r : Slice} (h : v.script = .ok r) : Inside r v.slice :=
  Fin.from_inside h

/-- `OutPoint::txid` = `&slice[..32]` -/
theorem C05_accessors_borrowed_outpoint_txid (v : OutPointV) {r : Slice} (h : v.txid = .ok r) : Inside r v.slice :=
  Fin.to_inside h

/-- `TxIn::script_sig` of a decoded input: inside the script view, the input's own slice, and the decoder's input -/
theorem C05_accessors_borrowed_txin_script_sig {s : Slice} {v : TxInV} {rem r : Slice}
    (hd : decTxIn s = .ok (v, rem)) (h : v.scriptSigBytes = .ok r) :
    Inside r v.scriptSig.slice ∧ Inside r v.slice ∧ Inside r s := by
  have h0 : Inside r v.scriptSig.slice := Fin.from_inside h
  obtain ⟨b1, _, _, _, _, b6⟩ := Fin.decTxIn_borrowed hd
  exact ⟨h0, Fin.inside_trans h0 b6, Fin.inside_trans (Fin.inside_trans h0 b6) b1⟩

/-- `TxOut::script_pubkey` of a decoded output -/
theorem C05_accessors_borrowed_txout_script_pubkey {s : Slice} {v : TxOutV} {rem r : Slice}
    (hd : decTxOut s = .ok (v, rem)) (h : v.scriptPubkeyBytes = .ok r) :
    Inside r v.scriptPubkey.slice ∧ Inside r v.slice ∧ Inside r s := by
  have h0 : Inside r v.scriptPubkey.slice := Fin.from_inside h
  obtain ⟨b1, _, _, b4⟩ := Fin.decTxOut_borrowed hd
  exact ⟨h0, Fin.inside_trans h0 b4, Fin.inside_trans (Fin.inside_trans h0 b4) b1⟩

/-- `BlockHeader::prev_blockhash` = `&slice[4..36]`, `merkle_root` = `&slice[36..68]` -/
theorem C05_accessors_borrowed_header (v : HeaderV) :
    (∀ r, v.prevBlockhash = .ok r → Inside r v.slice) ∧ (∀ r, v.merkleRoot = .ok r → Inside r v.slice) :=
  ⟨fun _ h => Fin.range_inside h, fun _ h => Fin.range_inside h⟩

/-- `Transaction::txid_preimage`: in the segwit form three parts of the transaction's slice; in the legacy form the
    whole slice and twice the static empty slice `&[]` (`Slice.staticEmpty`, not part of the input) -/
theorem C05_accessors_borrowed_txid_preimage (t : TxV) {a b c : Slice} (h : t.txidPreimage = .ok (a, b, c)) :
    (∀ n, t.ioLen = some n → Inside a t.slice ∧ Inside b t.slice ∧ Inside c t.slice) ∧
    (t.ioLen = none → a = t.slice ∧ b = Slice.staticEmpty ∧ c = Slice.staticEmpty) :=
  ⟨fun _ hn => Fin.txidPreimage_segwit hn h, fun hn => Fin.txidPreimage_legacy hn h⟩

/-- … hence for a decoded transaction every part is inside the input or is the static empty slice -/
theorem C05_accessors_borrowed_txid_preimage_input {s : Slice} {t : TxV} {rem : Slice}
    (hd : (decTransaction s).res = .ok (t, rem)) {a b c : Slice} (h : t.txidPreimage = .ok (a, b, c)) :
    Inside a s ∧ (Inside b s ∨ b = Slice.staticEmpty) ∧ (Inside c s ∨ c = Slice.staticEmpty) := by
  have ht := (Fin.decTransaction_borrowed hd).1
  cases hn : t.ioLen with
  | none =>
    obtain ⟨rfl, hb, hc⟩ := Fin.txidPreimage_legacy hn h
    exact ⟨ht, .inr hb, .inr hc⟩
  | some n =>
    obtain ⟨ha, hb, hc⟩ := Fin.txidPreimage_segwit hn h
    exact ⟨Fin.inside_trans ha ht, .inl (Fin.inside_trans hb ht), .inl (Fin.inside_trans hc ht)⟩

/-- the output iterator: one `next` that yields an item yields views into the list's own slice, and carries that
    slice along unchanged (any iterator state over a slice below 2^62 bytes) -/
theorem C05_accessors_borrowed_iter_next {it it' : IterV} {x : TxOutV} (hl : it.outs.slice.len < 2 ^ 62)
    (h : it.next = .ok (some x, it')) :
    Inside x.slice it.outs.slice ∧ Inside x.scriptPubkey.slice it.outs.slice ∧ it'.outs = it.outs :=
  Fin.next_borrowed hl h

/-- … so every item of `for o in &tx_outs` over a decoded output list is a view into the list's slice and into the
    input (BS/Props/C17.lean shows the items are literally the views the visitor is shown) -/
theorem C05_accessors_borrowed_iter {s : Slice} {o : TxOutsV} {rem : Slice} (hs : s.len < 2 ^ 62)
    (hd : (decTxOuts s).res = .ok (o, rem)) {it : IterV} (hi : o.iter = .ok it) {fuel : Nat} {xs : List TxOutV}
    (hc : it.collect fuel = .ok xs) :
    ∀ x ∈ xs, Inside x.slice o.slice ∧ Inside x.scriptPubkey.slice o.slice ∧
      Inside x.slice s ∧ Inside x.scriptPubkey.slice s := by
  have ho := (Fin.decTxOuts_borrowed hd).1
  have hio := Fin.iter_outs hi
  have hl : it.outs.slice.len < 2 ^ 62 := by
    rw [hio]; have := Fin.inside_len_le ho; omega
  intro x hx
  obtain ⟨h1, h2⟩ := Fin.collect_borrowed fuel it xs hl hc x hx
  rw [hio] at h1 h2
  exact ⟨h1, h2, Fin.inside_trans h1 ho, Fin.inside_trans h2 ho⟩

/-! ### non-vacuity -/

example : (decTransaction ⟨10, encTx exSegwit ++ [9]⟩).res =
    .ok (⟨⟨10, encTx exSegwit⟩, some 55⟩, ⟨79, [9]⟩) := by decide
example : Inside (⟨15, [1, 2]⟩ : Slice) ⟨10, [0, 0, 0, 0, 0, 1, 2, 3]⟩ := by unfold Inside; decide
example : ¬ Inside (⟨15, [1, 2]⟩ : Slice) ⟨10, [0, 0, 0, 0, 0, 1, 3, 3]⟩ := by unfold Inside; decide
/-- segwit form: three genuine parts; legacy form: the static empty slice twice -/
example : TxV.txidPreimage ⟨⟨10, encTx exSegwit⟩, some 55⟩ =
    .ok (⟨10, (encTx exSegwit).take 4⟩, ⟨16, ((encTx exSegwit).drop 6).take 55⟩, ⟨75, (encTx exSegwit).drop 65⟩) := by
  decide
example : TxV.txidPreimage ⟨⟨10, encTx exLegacy⟩, none⟩ =
    .ok (⟨10, encTx exLegacy⟩, Slice.staticEmpty, Slice.staticEmpty) := by decide
/-- a failing run still only hands out sub-slices (`C05_events_borrowed_transaction` applies to it) -/
example : (decTransaction ⟨10, (encTx exSegwit).take 63⟩).res = .err .moreBytesNeeded ∧
    (decTransaction ⟨10, (encTx exSegwit).take 63⟩).trace.length = 7 := by decide

/-- the iterator over the two-output list of C17 (`02 | 01 00.. 00 | 02 00.. 01 51`) yields two items -/
example : (decTxOuts ⟨0, Acc.twoOuts ++ [9]⟩).res = .ok (⟨⟨0, Acc.twoOuts⟩, 2⟩, ⟨20, [9]⟩) ∧
    TxOutsV.iter ⟨⟨0, Acc.twoOuts⟩, 2⟩ = .ok ⟨2, 1, ⟨⟨0, Acc.twoOuts⟩, 2⟩⟩ ∧
    (IterV.collect 3 ⟨2, 1, ⟨⟨0, Acc.twoOuts⟩, 2⟩⟩).map' List.length = .ok 2 := by decide

/-! ## L1 corollaries: the model of the code, under every visitor -/
section L1
open BS.Ref BS.Lift

theorem C05_L1_result_borrowed_transaction {σ : Type} {s : Slice} (hs : s.len < 2 ^ 62) {v : Visitor σ} {st st' : σ}
    {o : TxV} {rem : Slice} (h : Transaction.visit s v st = (st', .ok (o, rem))) :
    Inside o.slice s ∧ Inside rem s :=
  C05_result_borrowed_transaction (ok_of_sim (fun v st => refine_transaction s hs v st) h)

theorem C05_L1_result_borrowed_block {σ : Type} {s : Slice} (hs : s.len < 2 ^ 62) {v : Visitor σ} {st st' : σ}
    {o : BlockV} {rem : Slice} (h : Block.visit s v st = (st', .ok (o, rem))) :
    Inside o.slice s ∧ Inside o.header.slice s ∧ Inside rem s ∧ Inside o.header.slice o.slice :=
  C05_result_borrowed_block (ok_of_sim (fun v st => refine_block s hs v st) h)

theorem C05_L1_result_borrowed_txouts {σ : Type} {s : Slice} (hs : s.len < 2 ^ 62) {v : Visitor σ} {st st' : σ}
    {o : TxOutsV} {rem : Slice} (h : TxOuts.visit s v st = (st', .ok (o, rem))) :
    Inside o.slice s ∧ Inside rem s :=
  C05_result_borrowed_txouts (ok_of_sim (fun v st => refine_txouts s hs v st) h)

theorem C05_L1_result_borrowed_txin {s : Slice} (hs : s.len < 2 ^ 62) {o : TxInV} {rem : Slice}
    (h : TxIn.parse s = .ok (o, rem)) :
    Inside o.slice s ∧ Inside o.prevout.slice s ∧ Inside o.scriptSig.slice s ∧ Inside rem s ∧
    Inside o.prevout.slice o.slice ∧ Inside o.scriptSig.slice o.slice :=
  C05_result_borrowed_txin (by rw [← refine_txin s hs]; exact h)

theorem C05_L1_result_borrowed_txout {s : Slice} (hs : s.len < 2 ^ 62) {o : TxOutV} {rem : Slice}
    (h : TxOut.parse s = .ok (o, rem)) :
    Inside o.slice s ∧ Inside o.scriptPubkey.slice s ∧ Inside rem s ∧ Inside o.scriptPubkey.slice o.slice :=
  C05_result_borrowed_txout (by rw [← refine_txout s hs]; exact h)

/-- what a visitor of the code is shown: the recording visitor's log is the L2 callback sequence, all of whose slices
    are inside the input -/
theorem C05_L1_events_borrowed_block (s : Slice) (hs : s.len < 2 ^ 62) :
    EventsInside ((Block.visit s) recorder []).1.reverse s := by
  rw [recorder_eq (fun v st => refine_block s hs v st)]
  simpa using C05_events_borrowed_block s

end L1

end BS
