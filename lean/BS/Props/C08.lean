import BS.Lemmas.Scan
/-
  C08 — compact-size integers decode canonically and both decoders agree.
  Property theorems only (helper lemmas live in BS/Lemmas).
-/
namespace BS
open Spec

/-- (i) completeness: the incremental decoder accepts the minimal encoding of every 64-bit value, whatever follows,
    returns the value and adds the width to the caller's counter (counter below 2^62) -/
theorem C08_complete (n c base : Nat) (r : Bytes) (hn : n < 2 ^ 64) (hc : c < 2 ^ 62) :
    scanLen ⟨base, encCompact n ++ r⟩ c = (.ok n, c + compactWidth n) := by
  unfold encCompact compactWidth
  by_cases h1 : n < 0xFD
  · have e1 : UInt8.ofNat n ≠ 0xFF := ofNat_ne_of_lt (by omega) (by simp; omega)
    have e2 : UInt8.ofNat n ≠ 0xFE := ofNat_ne_of_lt (by omega) (by simp; omega)
    have e3 : UInt8.ofNat n ≠ 0xFD := ofNat_ne_of_lt (by omega) (by simp; omega)
    have hv : (UInt8.ofNat n).toNat = n := ofNat_toNat_of_lt (by omega)
    simp [h1, scanLen, Slice.first?, e1, e2, e3, hv, addU_ok (show c + 1 < 2 ^ 64 by omega)]
  · by_cases h2 : n < 0x10000
    · have hl : leN (toLE 2 n) = n := leN_toLE_of_lt (by simpa using h2)
      simp only [h1, h2, if_false, if_true, List.cons_append]
      simp only [scanLen, Slice.first?, List.head?_cons, if_true]
      rw [scanWide_cons _ _ _ _ _ _ _ (toLE_length 2 n), hl]
      simp [show n ≥ 0xFD by omega, addU_ok (show c + (1 + 2) < 2 ^ 64 by omega)]
    · by_cases h3 : n < 0x100000000
      · have hl : leN (toLE 4 n) = n := leN_toLE_of_lt (by simpa using h3)
        simp only [h1, h2, h3, if_false, if_true, List.cons_append]
        simp only [scanLen, Slice.first?, List.head?_cons, if_true]
        rw [scanWide_cons _ _ _ _ _ _ _ (toLE_length 4 n), hl]
        simp [show n ≥ 0x10000 by omega, addU_ok (show c + (1 + 4) < 2 ^ 64 by omega)]
      · have hl : leN (toLE 8 n) = n := leN_toLE_of_lt (by simpa using hn)
        simp only [h1, h2, h3, if_false, List.cons_append]
        simp only [scanLen, Slice.first?, List.head?_cons, if_true]
        rw [scanWide_cons _ _ _ _ _ _ _ (toLE_length 8 n), hl]
        simp [show n ≥ 0x100000000 by omega, addU_ok (show c + (1 + 8) < 2 ^ 64 by omega)]

/-- the three possible outcomes of a wide arm, read off `scanWide` -/
theorem C08_wide_sound {s : Slice} {c w min n c' : Nat} (h : scanWide s c w min = (.ok n, c')) :
    ∃ p r, s.bytes.drop 1 = p ++ r ∧ p.length = w ∧ n = leN p ∧ min ≤ n ∧ c' = c + (1 + w) ∧ 1 ≤ s.bytes.length := by
  unfold scanWide Slice.get? Slice.len at h
  by_cases hl : 1 ≤ 1 + w ∧ 1 + w ≤ s.bytes.length
  · simp only [hl, and_self, if_true] at h
    have hlen : ((s.bytes.drop 1).take (1 + w - 1)).length = w := by simp; omega
    simp only [Slice.len, hlen, if_true] at h
    split at h
    · rename_i hmin
      cases ha : addU c (1 + w) with
      | ok c2 =>
        simp only [ha] at h
        obtain ⟨e1, e2⟩ := Prod.mk.inj h
        cases e1
        refine ⟨(s.bytes.drop 1).take w, (s.bytes.drop 1).drop w, (List.take_append_drop w _).symm, by simpa using hlen, by simp, ?_, ?_, by omega⟩
        · simpa using hmin
        · have := (addU_eq_ok ha).1; omega
      | err e => simp [ha] at h
      | panic q => simp [ha] at h
    · simp at h
  · have hl' : ¬ (1 + w ≤ s.bytes.length) := by omega
    simp [hl'] at h

/-- (ii) soundness: whatever the incremental decoder accepts starts with the minimal encoding of the value it returns,
    and the counter has advanced by exactly that encoding's width -/
theorem C08_sound {s : Slice} {c n c' : Nat} (h : scanLen s c = (.ok n, c')) :
    ∃ r, s.bytes = encCompact n ++ r ∧ c' = c + compactWidth n ∧ n < 2 ^ 64 := by
  unfold scanLen Slice.first? at h
  cases hb : s.bytes with
  | nil => simp [hb] at h
  | cons x t =>
    simp only [hb, List.head?_cons] at h
    by_cases x1 : x = 0xFF
    · simp only [x1, if_true] at h
      obtain ⟨p, r, hd, hp, hn, hmin, hc, _⟩ := C08_wide_sound h
      have hlt := leN_lt p
      rw [hp] at hlt
      have ht : t = p ++ r := by simpa [hb] using hd
      refine ⟨r, ?_, ?_, by omega⟩
      · unfold encCompact
        rw [if_neg (by omega), if_neg (by omega), if_neg (by omega), hn, ← hp, toLE_leN, x1, ht]; rfl
      · unfold compactWidth
        rw [if_neg (by omega), if_neg (by omega), if_neg (by omega)]; omega
    · by_cases x2 : x = 0xFE
      · simp only [x2, if_true, show ¬ ((0xFE : UInt8) = 0xFF) by decide, if_false] at h
        obtain ⟨p, r, hd, hp, hn, hmin, hc, _⟩ := C08_wide_sound h
        have hlt := leN_lt p
        rw [hp] at hlt
        have ht : t = p ++ r := by simpa [hb] using hd
        refine ⟨r, ?_, ?_, by omega⟩
        · unfold encCompact
          rw [if_neg (by omega), if_neg (by omega), if_pos (by omega), hn, ← hp, toLE_leN, x2, ht]; rfl
        · unfold compactWidth
          rw [if_neg (by omega), if_neg (by omega), if_pos (by omega)]; omega
      · by_cases x3 : x = 0xFD
        · simp only [x3, if_true, show ¬ ((0xFD : UInt8) = 0xFF) by decide, show ¬ ((0xFD : UInt8) = 0xFE) by decide, if_false] at h
          obtain ⟨p, r, hd, hp, hn, hmin, hc, _⟩ := C08_wide_sound h
          have hlt := leN_lt p
          rw [hp] at hlt
          have ht : t = p ++ r := by simpa [hb] using hd
          refine ⟨r, ?_, ?_, by omega⟩
          · unfold encCompact
            rw [if_neg (by omega), if_pos (by omega), hn, ← hp, toLE_leN, x3, ht]; rfl
          · unfold compactWidth
            rw [if_neg (by omega), if_pos (by omega)]; omega
        · simp only [x1, x2, x3, if_false] at h
          cases ha : addU c 1 with
          | ok c2 =>
            simp only [ha] at h
            obtain ⟨e1, e2⟩ := Prod.mk.inj h
            cases e1
            have hx : x.toNat < 0xFD := by
              have := x.toNat_lt
              have n1 : x.toNat ≠ 255 := fun e => x1 (by rw [← u8_eq_ofNat_toNat x, e]; rfl)
              have n2 : x.toNat ≠ 254 := fun e => x2 (by rw [← u8_eq_ofNat_toNat x, e]; rfl)
              have n3 : x.toNat ≠ 253 := fun e => x3 (by rw [← u8_eq_ofNat_toNat x, e]; rfl)
              omega
            refine ⟨t, ?_, ?_, by omega⟩
            · unfold encCompact; rw [if_pos hx, u8_eq_ofNat_toNat]; rfl
            · unfold compactWidth; rw [if_pos hx]
              have := (addU_eq_ok ha).1; omega
          | err e => simp [ha] at h
          | panic q => simp [ha] at h

/-- (iii) the caller's counter is untouched whenever the decoder does not succeed -/
theorem C08_counter_on_error (s : Slice) (c : Nat) (h : (scanLen s c).1.isOk = false) : (scanLen s c).2 = c := by
  have wide : ∀ w min, (scanWide s c w min).1.isOk = false → (scanWide s c w min).2 = c := by
    intro w min
    unfold scanWide
    cases s.get? 1 (1 + w) with
    | none => intro _; rfl
    | some p =>
      simp only
      by_cases h1 : p.len = w
      · simp only [h1, if_true]
        by_cases h2 : leN p.bytes ≥ min
        · simp only [h2, if_true]
          cases addU c (1 + w) <;> simp [Res.isOk]
        · simp only [h2, if_false]; intro _; trivial
      · simp only [h1, if_false]; intro _; trivial
  revert h
  unfold scanLen
  split
  · intro _; rfl
  · split
    · exact wide _ _
    · split
      · exact wide _ _
      · split
        · exact wide _ _
        · cases addU c 1 <;> simp [Res.isOk]

/-- (iv) no panic for counters below 2^62 -/
theorem C08_nopanic (s : Slice) (c : Nat) (hc : c < 2 ^ 62) : (scanLen s c).1.isPanic = false := by
  have wide : ∀ w min, w ≤ 8 → (scanWide s c w min).1.isPanic = false := by
    intro w min hw
    unfold scanWide Slice.get? Slice.len
    split
    · rfl
    · rename_i p hp
      split at hp
      · rename_i hl
        cases hp
        have : ((s.bytes.drop 1).take (1 + w - 1)).length = w := by simp; omega
        simp only [Slice.len, this, if_true]
        split
        · rw [addU_ok (by omega)]; rfl
        · rfl
      · cases hp
  unfold scanLen
  split
  · rfl
  · split
    · exact wide _ _ (by omega)
    · split
      · exact wide _ _ (by omega)
      · split
        · exact wide _ _ (by omega)
        · rw [addU_ok (by omega)]; rfl

/-- (v) too-short inputs need more bytes: an empty slice, or a marker without its full payload -/
theorem C08_short (s : Slice) (c : Nat)
    (h : s.bytes = [] ∨ (∃ t, s.bytes = 0xFD :: t ∧ t.length < 2) ∨ (∃ t, s.bytes = 0xFE :: t ∧ t.length < 4) ∨
         (∃ t, s.bytes = 0xFF :: t ∧ t.length < 8)) :
    scanLen s c = (.err .moreBytesNeeded, c) := by
  obtain ⟨base, bs⟩ := s
  rcases h with h | ⟨t, h, hl⟩ | ⟨t, h, hl⟩ | ⟨t, h, hl⟩ <;> simp only at h <;> subst h
  · simp [scanLen, Slice.first?]
  · simp only [scanLen, Slice.first?, List.head?_cons, if_true]
    exact scanWide_short _ _ _ _ _ (by simp; omega)
  · simp only [scanLen, Slice.first?, List.head?_cons, if_true]
    exact scanWide_short _ _ _ _ _ (by simp; omega)
  · simp only [scanLen, Slice.first?, List.head?_cons, if_true]
    exact scanWide_short _ _ _ _ _ (by simp; omega)

/-- (vi) wider-than-necessary encodings are rejected as non-minimal, counter untouched -/
theorem C08_nonminimal (base c : Nat) (b r : Bytes) (h : NonMinimalCompact b) :
    scanLen ⟨base, b ++ r⟩ c = (.err .nonMinimalVarInt, c) := by
  rcases h with ⟨p, hp, hv, rfl⟩ | ⟨p, hp, hv, rfl⟩ | ⟨p, hp, hv, rfl⟩
  · simp (decide := true) only [scanLen, Slice.first?, List.cons_append, List.head?_cons, if_true, if_false]
    rw [scanWide_cons _ _ _ _ _ _ _ hp, if_neg (by omega)]
  · simp (decide := true) only [scanLen, Slice.first?, List.cons_append, List.head?_cons, if_true, if_false]
    rw [scanWide_cons _ _ _ _ _ _ _ hp, if_neg (by omega)]
  · simp (decide := true) only [scanLen, Slice.first?, List.cons_append, List.head?_cons, if_true, if_false]
    rw [scanWide_cons _ _ _ _ _ _ _ hp, if_neg (by omega)]

/-- (vii) the header-plus-payload size is the exact sum when representable and saturates otherwise; never panics -/
theorem C08_slice_len (l : LenV) :
    l.sliceLen = .ok (if l.consumed + l.n < 2 ^ 64 then l.consumed + l.n else 2 ^ 64 - 1) := by
  rfl

/-- the defect repaired by commit 3680f45: before it, `slice_len` of the largest 9-byte compact size panicked -/
theorem C08_slice_len_old_panics : (LenV.sliceLenOld ⟨9, 2 ^ 64 - 1⟩).isPanic = true := by decide

/-- wide arm of `parse_len` written out -/
theorem parseLen_wide (base : Nat) (m : UInt8) (t : Bytes) (w : Nat) (_hw : w = 8 ∨ w = 4 ∨ w = 2) :
    (do let rest ← (⟨base, m :: t⟩ : Slice).from_ 1
        let (v, _) ← Num.parse w rest
        Num.toLen w v : Res LenV) =
    if t.length < w then .err .moreBytesNeeded else Num.toLen w ⟨t.take w⟩ := by
  have h1 : (⟨base, m :: t⟩ : Slice).from_ 1 = .ok ⟨base + 1, t⟩ := by
    simp [Slice.from_, Slice.len]
  rw [h1]
  simp only [Res.bind_ok]
  unfold Num.parse Slice.splitAtChecked Slice.splitAt Slice.len
  by_cases hl : t.length < w
  · simp [hl]
  · have hl' : w ≤ t.length := by omega
    simp only [hl, if_false, hl', if_true]
    have : (t.take w).length = w := by simp; omega
    simp [Slice.len, this]

/-- (viii) the deprecated decoder `parse_len` and the incremental decoder `scan_len` agree on every input -/
theorem C08_agree (s : Slice) :
    parseLen s = (match scanLen s 0 with
      | (.ok n, c) => .ok ⟨c, n⟩
      | (.err e, _) => .err e
      | (.panic p, _) => .panic p) := by
  obtain ⟨base, bs⟩ := s
  cases bs with
  | nil => simp [parseLen, scanLen, Slice.first?]
  | cons x t =>
    have wide : ∀ w min, (w = 8 ∧ min = 0x100000000) ∨ (w = 4 ∧ min = 0x10000) ∨ (w = 2 ∧ min = 0xFD) →
        (if t.length < w then Res.err Error.moreBytesNeeded else Num.toLen w ⟨t.take w⟩) =
        (match scanWide ⟨base, x :: t⟩ 0 w min with
          | (.ok n, c) => .ok ⟨c, n⟩
          | (.err e, _) => .err e
          | (.panic p, _) => .panic p) := by
      intro w min hwm
      by_cases hl : t.length < w
      · rw [if_pos hl, scanWide_short _ _ _ _ _ (by simp; omega)]
      · rw [if_neg hl]
        have hsplit : x :: t = x :: (t.take w ++ t.drop w) := by simp
        rw [hsplit, scanWide_cons _ _ _ _ _ _ _ (by simp; omega : (t.take w).length = w)]
        rcases hwm with ⟨rfl, rfl⟩ | ⟨rfl, rfl⟩ | ⟨rfl, rfl⟩
        · simp only [Num.toLen, if_true]
          by_cases hm : leN (t.take 8) ≥ 0x100000000
          · have : leN (t.take 8) > 0xFFFFFFFF := by omega
            simp [hm, this, addU, USIZE]
          · have : ¬ leN (t.take 8) > 0xFFFFFFFF := by omega
            simp [hm, this]
        · simp only [Num.toLen, show ¬ (4 = 8) by decide, if_false, if_true]
          by_cases hm : leN (t.take 4) ≥ 0x10000
          · have : leN (t.take 4) > 0xFFFF := by omega
            simp [hm, this, addU, USIZE]
          · have : ¬ leN (t.take 4) > 0xFFFF := by omega
            simp [hm, this]
        · simp only [Num.toLen, show ¬ (2 = 8) by decide, show ¬ (2 = 4) by decide, if_false]
          by_cases hm : leN (t.take 2) ≥ 0xFD
          · simp [hm, addU, USIZE]
          · simp [hm]
    unfold parseLen scanLen
    simp only [Slice.first?, List.head?_cons]
    by_cases x1 : x = 0xFF
    · simp only [x1, if_true]
      rw [parseLen_wide _ _ _ _ (Or.inl rfl)]
      exact x1 ▸ wide 8 _ (Or.inl ⟨rfl, rfl⟩)
    · by_cases x2 : x = 0xFE
      · simp only [x1, x2, if_true, if_false, show ¬ ((0xFE : UInt8) = 0xFF) by decide]
        rw [parseLen_wide _ _ _ _ (Or.inr (Or.inl rfl))]
        exact x2 ▸ wide 4 _ (Or.inr (Or.inl ⟨rfl, rfl⟩))
      · by_cases x3 : x = 0xFD
        · simp only [x3, if_true, if_false, show ¬ ((0xFD : UInt8) = 0xFF) by decide, show ¬ ((0xFD : UInt8) = 0xFE) by decide]
          rw [parseLen_wide _ _ _ _ (Or.inr (Or.inr rfl))]
          exact x3 ▸ wide 2 _ (Or.inr (Or.inr ⟨rfl, rfl⟩))
        · simp [x1, x2, x3, addU, USIZE]

/-- non-vacuity: the hypotheses of completeness / non-minimality are met by concrete inputs -/
example : scanLen ⟨0, encCompact 0x12345 ++ [7]⟩ 5 = (.ok 0x12345, 10) := by decide
example : NonMinimalCompact [0xFD, 0x01, 0x00] := Or.inl ⟨[0x01, 0x00], rfl, by decide, rfl⟩

end BS
