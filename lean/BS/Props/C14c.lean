import BS.Props.C07
import BS.Lemmas.StabThresh
/-
  C14 (extension) — "the error identifies the first defect in byte order", stated for every decoder at once.

  For an input `p` rejected with an error other than MoreBytesNeeded there is one position `k ≤ |p|` such that
    * every prefix shorter than `k` bytes answers MoreBytesNeeded  (nothing is wrong yet: more input could still help),
    * the first `k` bytes followed by *anything* are rejected with the same error and the same callbacks
      (so in particular every prefix of at least `k` bytes, and `p` itself).
  The error reported for `p` is therefore a function of its first `k` bytes, and `k` is the first position at which the
  input stops being a prefix of something the decoder could still accept: the defect the error names ends at byte `k`,
  and no byte after it has any influence. Together with the per-error characterisations of C14.lean (which say what the
  defect is) this is the property's "first defect in byte order" for arbitrarily nested structures.

  C14_first_defect_X      L2 decoder X (not for outpoints and headers: they can only answer MoreBytesNeeded, `C14_only_basic_*`)
  C14_L1_first_defect_X   the transcribed Rust (`parseOf (X.visit ·)`), inputs shorter than 2^62 bytes
  Proof: BS/Lemmas/StabThresh.lean (`StableG.first_defect`) from extension stability (BS/Lemmas/Stab*.lean).
-/
namespace BS
open Spec

theorem take_of_le_split {α : Type} (p : List α) {k j : Nat} (h : k ≤ j) : p.take j = p.take k ++ (p.take j).drop k := by
  have : (p.take j).take k = p.take k := by rw [List.take_take]; congr 1; omega
  rw [← this, List.take_append_drop]

/-! ### `decCompact` -/
theorem C14_first_defect_compact {b : Nat} {p : Bytes} {e : Error} (h : decCompact ⟨b, p⟩ = .err e) (hne : e ≠ .moreBytesNeeded) :
    ∃ k, k ≤ p.length ∧ (∀ j, j < k → decCompact ⟨b, p.take j⟩ = .err .moreBytesNeeded) ∧
      (∀ x, decCompact ⟨b, p.take k ++ x⟩ = .err e) ∧ (∀ j, k ≤ j → decCompact ⟨b, p.take j⟩ = .err e) := by
  obtain ⟨k, hk, hlt, hx⟩ := (Stab.stableG_pure Stab.ext_decCompact).first_defect (fun s q => (Stab.post_decCompact s).1 q) (b := b) (p := p) (er := e) h hne
  have hx' : ∀ x, decCompact ⟨b, p.take k ++ x⟩ = .err e := fun x => by
    have := congrArg D.res (hx x); simpa [D.lift, h] using this
  refine ⟨k, hk, hlt, hx', ?_⟩
  intro j hj
  rw [take_of_le_split p hj]; exact hx' _

/-! ### `decScript` -/
theorem C14_first_defect_script {b : Nat} {p : Bytes} {e : Error} (h : decScript ⟨b, p⟩ = .err e) (hne : e ≠ .moreBytesNeeded) :
    ∃ k, k ≤ p.length ∧ (∀ j, j < k → decScript ⟨b, p.take j⟩ = .err .moreBytesNeeded) ∧
      (∀ x, decScript ⟨b, p.take k ++ x⟩ = .err e) ∧ (∀ j, k ≤ j → decScript ⟨b, p.take j⟩ = .err e) := by
  obtain ⟨k, hk, hlt, hx⟩ := (Stab.stableG_pure Stab.ext_decScript).first_defect (fun s q => (Stab.post_decScript s).1 q) (b := b) (p := p) (er := e) h hne
  have hx' : ∀ x, decScript ⟨b, p.take k ++ x⟩ = .err e := fun x => by
    have := congrArg D.res (hx x); simpa [D.lift, h] using this
  refine ⟨k, hk, hlt, hx', ?_⟩
  intro j hj
  rw [take_of_le_split p hj]; exact hx' _

/-! ### `decTxIn` -/
theorem C14_first_defect_txin {b : Nat} {p : Bytes} {e : Error} (h : decTxIn ⟨b, p⟩ = .err e) (hne : e ≠ .moreBytesNeeded) :
    ∃ k, k ≤ p.length ∧ (∀ j, j < k → decTxIn ⟨b, p.take j⟩ = .err .moreBytesNeeded) ∧
      (∀ x, decTxIn ⟨b, p.take k ++ x⟩ = .err e) ∧ (∀ j, k ≤ j → decTxIn ⟨b, p.take j⟩ = .err e) := by
  obtain ⟨k, hk, hlt, hx⟩ := (Stab.stableG_pure Stab.ext_decTxIn).first_defect (fun s q => (Stab.post_decTxIn s).1 q) (b := b) (p := p) (er := e) h hne
  have hx' : ∀ x, decTxIn ⟨b, p.take k ++ x⟩ = .err e := fun x => by
    have := congrArg D.res (hx x); simpa [D.lift, h] using this
  refine ⟨k, hk, hlt, hx', ?_⟩
  intro j hj
  rw [take_of_le_split p hj]; exact hx' _

/-! ### `decTxOut` -/
theorem C14_first_defect_txout {b : Nat} {p : Bytes} {e : Error} (h : decTxOut ⟨b, p⟩ = .err e) (hne : e ≠ .moreBytesNeeded) :
    ∃ k, k ≤ p.length ∧ (∀ j, j < k → decTxOut ⟨b, p.take j⟩ = .err .moreBytesNeeded) ∧
      (∀ x, decTxOut ⟨b, p.take k ++ x⟩ = .err e) ∧ (∀ j, k ≤ j → decTxOut ⟨b, p.take j⟩ = .err e) := by
  obtain ⟨k, hk, hlt, hx⟩ := (Stab.stableG_pure Stab.ext_decTxOut).first_defect (fun s q => (Stab.post_decTxOut s).1 q) (b := b) (p := p) (er := e) h hne
  have hx' : ∀ x, decTxOut ⟨b, p.take k ++ x⟩ = .err e := fun x => by
    have := congrArg D.res (hx x); simpa [D.lift, h] using this
  refine ⟨k, hk, hlt, hx', ?_⟩
  intro j hj
  rw [take_of_le_split p hj]; exact hx' _

/-! ### `decTxIns` (result and callbacks) -/
theorem C14_first_defect_txins {b : Nat} {p : Bytes} {e : Error} (h : (decTxIns ⟨b, p⟩).res = .err e) (hne : e ≠ .moreBytesNeeded) :
    ∃ k, k ≤ p.length ∧ (∀ j, j < k → (decTxIns ⟨b, p.take j⟩).res = .err .moreBytesNeeded) ∧
      (∀ x, decTxIns ⟨b, p.take k ++ x⟩ = decTxIns ⟨b, p⟩) ∧ (∀ j, k ≤ j → decTxIns ⟨b, p.take j⟩ = decTxIns ⟨b, p⟩) := by
  obtain ⟨k, hk, hlt, hx⟩ := (Stab.stableG_pair Stab.ext_decTxIns).first_defect (fun s q => (Stab.post_decTxIns s).1 q) (b := b) (p := p) (er := e) h hne
  refine ⟨k, hk, hlt, hx, ?_⟩
  intro j hj
  rw [take_of_le_split p hj]; exact hx _

/-! ### `decTxOuts` (result and callbacks) -/
theorem C14_first_defect_txouts {b : Nat} {p : Bytes} {e : Error} (h : (decTxOuts ⟨b, p⟩).res = .err e) (hne : e ≠ .moreBytesNeeded) :
    ∃ k, k ≤ p.length ∧ (∀ j, j < k → (decTxOuts ⟨b, p.take j⟩).res = .err .moreBytesNeeded) ∧
      (∀ x, decTxOuts ⟨b, p.take k ++ x⟩ = decTxOuts ⟨b, p⟩) ∧ (∀ j, k ≤ j → decTxOuts ⟨b, p.take j⟩ = decTxOuts ⟨b, p⟩) := by
  obtain ⟨k, hk, hlt, hx⟩ := (Stab.stableG_pair Stab.ext_decTxOuts).first_defect (fun s q => (Stab.post_decTxOuts s).1 q) (b := b) (p := p) (er := e) h hne
  refine ⟨k, hk, hlt, hx, ?_⟩
  intro j hj
  rw [take_of_le_split p hj]; exact hx _

/-! ### `decWitness` (result and callbacks) -/
theorem C14_first_defect_witness {b : Nat} {p : Bytes} {e : Error} (h : (decWitness ⟨b, p⟩).res = .err e) (hne : e ≠ .moreBytesNeeded) :
    ∃ k, k ≤ p.length ∧ (∀ j, j < k → (decWitness ⟨b, p.take j⟩).res = .err .moreBytesNeeded) ∧
      (∀ x, decWitness ⟨b, p.take k ++ x⟩ = decWitness ⟨b, p⟩) ∧ (∀ j, k ≤ j → decWitness ⟨b, p.take j⟩ = decWitness ⟨b, p⟩) := by
  obtain ⟨k, hk, hlt, hx⟩ := (Stab.stableG_triple Stab.ext_decWitness).first_defect (fun s q => (Stab.post_decWitness s).1 q) (b := b) (p := p) (er := e) h hne
  refine ⟨k, hk, hlt, hx, ?_⟩
  intro j hj
  rw [take_of_le_split p hj]; exact hx _

/-! ### `decWitnesses · n` (result and callbacks) -/
theorem C14_first_defect_witnesses (n : Nat) {b : Nat} {p : Bytes} {e : Error} (h : (decWitnesses ⟨b, p⟩ n).res = .err e) (hne : e ≠ .moreBytesNeeded) :
    ∃ k, k ≤ p.length ∧ (∀ j, j < k → (decWitnesses ⟨b, p.take j⟩ n).res = .err .moreBytesNeeded) ∧
      (∀ x, decWitnesses ⟨b, p.take k ++ x⟩ n = decWitnesses ⟨b, p⟩ n) ∧ (∀ j, k ≤ j → decWitnesses ⟨b, p.take j⟩ n = decWitnesses ⟨b, p⟩ n) := by
  obtain ⟨k, hk, hlt, hx⟩ := (Stab.stableG_pair (d := fun s => decWitnesses s n) (Stab.ext_decWitnesses n)).first_defect (fun s q => (Stab.post_decWitnesses n s).1 q) (b := b) (p := p) (er := e) h hne
  refine ⟨k, hk, hlt, hx, ?_⟩
  intro j hj
  rw [take_of_le_split p hj]; exact hx _

/-! ### `decTransaction` (result and callbacks) -/
theorem C14_first_defect_transaction {b : Nat} {p : Bytes} {e : Error} (h : (decTransaction ⟨b, p⟩).res = .err e) (hne : e ≠ .moreBytesNeeded) :
    ∃ k, k ≤ p.length ∧ (∀ j, j < k → (decTransaction ⟨b, p.take j⟩).res = .err .moreBytesNeeded) ∧
      (∀ x, decTransaction ⟨b, p.take k ++ x⟩ = decTransaction ⟨b, p⟩) ∧ (∀ j, k ≤ j → decTransaction ⟨b, p.take j⟩ = decTransaction ⟨b, p⟩) := by
  obtain ⟨k, hk, hlt, hx⟩ := (Stab.stableG_pair Stab.ext_decTransaction).first_defect (fun s q => (Stab.post_decTransaction s).1 q) (b := b) (p := p) (er := e) h hne
  refine ⟨k, hk, hlt, hx, ?_⟩
  intro j hj
  rw [take_of_le_split p hj]; exact hx _

/-! ### `decBlock` (result and callbacks) -/
theorem C14_first_defect_block {b : Nat} {p : Bytes} {e : Error} (h : (decBlock ⟨b, p⟩).res = .err e) (hne : e ≠ .moreBytesNeeded) :
    ∃ k, k ≤ p.length ∧ (∀ j, j < k → (decBlock ⟨b, p.take j⟩).res = .err .moreBytesNeeded) ∧
      (∀ x, decBlock ⟨b, p.take k ++ x⟩ = decBlock ⟨b, p⟩) ∧ (∀ j, k ≤ j → decBlock ⟨b, p.take j⟩ = decBlock ⟨b, p⟩) := by
  obtain ⟨k, hk, hlt, hx⟩ := (Stab.stableG_pair Stab.ext_decBlock).first_defect (fun s q => (Stab.post_decBlock s).1 q) (b := b) (p := p) (er := e) h hne
  refine ⟨k, hk, hlt, hx, ?_⟩
  intro j hj
  rw [take_of_le_split p hj]; exact hx _

/-! ## the transcribed Rust (L1), through the refinement -/
open BS.Ref BS.Lift

theorem C14_L1_first_defect_transaction {b : Nat} {p : Bytes} {e : Error} (hp : p.length < 2 ^ 62)
    (h : parseOf (Transaction.visit ⟨b, p⟩) = .err e) (hne : e ≠ .moreBytesNeeded) :
    ∃ k, k ≤ p.length ∧ (∀ j, j < k → parseOf (Transaction.visit ⟨b, p.take j⟩) = .err .moreBytesNeeded) ∧
      (∀ x, (p.take k ++ x).length < 2 ^ 62 → parseOf (Transaction.visit ⟨b, p.take k ++ x⟩) = .err e) ∧
      (∀ j, k ≤ j → parseOf (Transaction.visit ⟨b, p.take j⟩) = .err e) := by
  rw [parseOf_transaction _ (by simpa [Slice.len] using hp)] at h
  obtain ⟨k, hk, hlt, hx, hge⟩ := C14_first_defect_transaction h hne
  refine ⟨k, hk, ?_, ?_, ?_⟩
  · intro j hj
    rw [parseOf_transaction _ (by simp [Slice.len]; omega)]; exact hlt j hj
  · intro x hxl
    rw [parseOf_transaction _ (by simpa [Slice.len] using hxl), hx x]; exact h
  · intro j hj
    rw [parseOf_transaction _ (by simp [Slice.len]; omega), hge j hj]; exact h

theorem C14_L1_first_defect_block {b : Nat} {p : Bytes} {e : Error} (hp : p.length < 2 ^ 62)
    (h : parseOf (Block.visit ⟨b, p⟩) = .err e) (hne : e ≠ .moreBytesNeeded) :
    ∃ k, k ≤ p.length ∧ (∀ j, j < k → parseOf (Block.visit ⟨b, p.take j⟩) = .err .moreBytesNeeded) ∧
      (∀ x, (p.take k ++ x).length < 2 ^ 62 → parseOf (Block.visit ⟨b, p.take k ++ x⟩) = .err e) ∧
      (∀ j, k ≤ j → parseOf (Block.visit ⟨b, p.take j⟩) = .err e) := by
  rw [parseOf_block _ (by simpa [Slice.len] using hp)] at h
  obtain ⟨k, hk, hlt, hx, hge⟩ := C14_first_defect_block h hne
  refine ⟨k, hk, ?_, ?_, ?_⟩
  · intro j hj
    rw [parseOf_block _ (by simp [Slice.len]; omega)]; exact hlt j hj
  · intro x hxl
    rw [parseOf_block _ (by simpa [Slice.len] using hxl), hx x]; exact h
  · intro j hj
    rw [parseOf_block _ (by simp [Slice.len]; omega), hge j hj]; exact h

theorem C14_L1_first_defect_txins {b : Nat} {p : Bytes} {e : Error} (hp : p.length < 2 ^ 62)
    (h : parseOf (TxIns.visit ⟨b, p⟩) = .err e) (hne : e ≠ .moreBytesNeeded) :
    ∃ k, k ≤ p.length ∧ (∀ j, j < k → parseOf (TxIns.visit ⟨b, p.take j⟩) = .err .moreBytesNeeded) ∧
      (∀ x, (p.take k ++ x).length < 2 ^ 62 → parseOf (TxIns.visit ⟨b, p.take k ++ x⟩) = .err e) ∧
      (∀ j, k ≤ j → parseOf (TxIns.visit ⟨b, p.take j⟩) = .err e) := by
  rw [parseOf_txins _ (by simpa [Slice.len] using hp)] at h
  obtain ⟨k, hk, hlt, hx, hge⟩ := C14_first_defect_txins h hne
  refine ⟨k, hk, ?_, ?_, ?_⟩
  · intro j hj
    rw [parseOf_txins _ (by simp [Slice.len]; omega)]; exact hlt j hj
  · intro x hxl
    rw [parseOf_txins _ (by simpa [Slice.len] using hxl), hx x]; exact h
  · intro j hj
    rw [parseOf_txins _ (by simp [Slice.len]; omega), hge j hj]; exact h

theorem C14_L1_first_defect_txouts {b : Nat} {p : Bytes} {e : Error} (hp : p.length < 2 ^ 62)
    (h : parseOf (TxOuts.visit ⟨b, p⟩) = .err e) (hne : e ≠ .moreBytesNeeded) :
    ∃ k, k ≤ p.length ∧ (∀ j, j < k → parseOf (TxOuts.visit ⟨b, p.take j⟩) = .err .moreBytesNeeded) ∧
      (∀ x, (p.take k ++ x).length < 2 ^ 62 → parseOf (TxOuts.visit ⟨b, p.take k ++ x⟩) = .err e) ∧
      (∀ j, k ≤ j → parseOf (TxOuts.visit ⟨b, p.take j⟩) = .err e) := by
  rw [parseOf_txouts _ (by simpa [Slice.len] using hp)] at h
  obtain ⟨k, hk, hlt, hx, hge⟩ := C14_first_defect_txouts h hne
  refine ⟨k, hk, ?_, ?_, ?_⟩
  · intro j hj
    rw [parseOf_txouts _ (by simp [Slice.len]; omega)]; exact hlt j hj
  · intro x hxl
    rw [parseOf_txouts _ (by simpa [Slice.len] using hxl), hx x]; exact h
  · intro j hj
    rw [parseOf_txouts _ (by simp [Slice.len]; omega), hge j hj]; exact h

theorem C14_L1_first_defect_witnesses (n : Nat) {b : Nat} {p : Bytes} {e : Error} (hp : p.length < 2 ^ 62)
    (h : parseOf (Witnesses.visit ⟨b, p⟩ n) = .err e) (hne : e ≠ .moreBytesNeeded) :
    ∃ k, k ≤ p.length ∧ (∀ j, j < k → parseOf (Witnesses.visit ⟨b, p.take j⟩ n) = .err .moreBytesNeeded) ∧
      (∀ x, (p.take k ++ x).length < 2 ^ 62 → parseOf (Witnesses.visit ⟨b, p.take k ++ x⟩ n) = .err e) ∧
      (∀ j, k ≤ j → parseOf (Witnesses.visit ⟨b, p.take j⟩ n) = .err e) := by
  rw [parseOf_witnesses _ (by simpa [Slice.len] using hp)] at h
  obtain ⟨k, hk, hlt, hx, hge⟩ := C14_first_defect_witnesses n h hne
  refine ⟨k, hk, ?_, ?_, ?_⟩
  · intro j hj
    rw [parseOf_witnesses _ (by simp [Slice.len]; omega)]; exact hlt j hj
  · intro x hxl
    rw [parseOf_witnesses _ (by simpa [Slice.len] using hxl), hx x]; exact h
  · intro j hj
    rw [parseOf_witnesses _ (by simp [Slice.len]; omega), hge j hj]; exact h

theorem C14_L1_first_defect_witness {b : Nat} {p : Bytes} {e : Error} (hp : p.length < 2 ^ 62)
    (h : parseOf (Witness.visit ⟨b, p⟩) = .err e) (hne : e ≠ .moreBytesNeeded) :
    ∃ k, k ≤ p.length ∧ (∀ j, j < k → parseOf (Witness.visit ⟨b, p.take j⟩) = .err .moreBytesNeeded) ∧
      (∀ x, (p.take k ++ x).length < 2 ^ 62 → parseOf (Witness.visit ⟨b, p.take k ++ x⟩) = .err e) ∧
      (∀ j, k ≤ j → parseOf (Witness.visit ⟨b, p.take j⟩) = .err e) := by
  have key : ∀ (q : Bytes) (e' : Error), q.length < 2 ^ 62 →
      (parseOf (Witness.visit ⟨b, q⟩) = .err e' ↔ (decWitness ⟨b, q⟩).res = .err e') := by
    intro q e' hq
    rw [parseOf_witness _ (by simpa [Slice.len] using hq)]
    cases (decWitness ⟨b, q⟩).res <;> simp [Res.map']
  have h' := (key p e hp).1 h
  obtain ⟨k, hk, hlt, hx, hge⟩ := C14_first_defect_witness h' hne
  refine ⟨k, hk, ?_, ?_, ?_⟩
  · intro j hj
    exact (key _ _ (by simp; omega)).2 (hlt j hj)
  · intro x hxl
    exact (key _ _ hxl).2 (by rw [hx x]; exact h')
  · intro j hj
    exact (key _ _ (by simp; omega)).2 (by rw [hge j hj]; exact h')

/-! ## non-vacuity: a transaction whose second input count byte makes a non-minimal compact size -/
example : ∃ e, (decTransaction ⟨0, [1, 0, 0, 0, 0xfd, 0x01, 0x00, 9, 9]⟩).res = .err e ∧ e ≠ .moreBytesNeeded :=
  ⟨.nonMinimalVarInt, by decide, by decide⟩

end BS
