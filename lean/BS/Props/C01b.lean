import BS.Props.C01
import BS.Lemmas.ExtProg
import BS.Lemmas.ExtErr
import BS.Lemmas.Lift
/-
  C01 (continued) — progress: "never loops without consuming input".

  Every successful element decode of the L2 decoders strictly consumes input. This is why every counted loop stops
  after at most `s.len + 1` iterations whatever count the bytes declare: a declared count larger than the number of
  bytes left always ends in an error, and the element callbacks made are paid for by the bytes consumed.
  No hypothesis on the input length is needed at L2 (nothing there can overflow); the last section lifts the
  statements to the L1 model (`s.len < 2 ^ 62`), for every visitor.
-/
namespace BS
open Spec Ref Ext

/-! ### every successful decode consumes input -/

/-- a compact size occupies 1, 3, 5 or 9 bytes -/
theorem C01_progress_compact {s : Slice} {n : Nat} {r : Slice} (h : decCompact s = .ok (n, r)) :
    r.len < s.len ∧ (s.len - r.len = 1 ∨ s.len - r.len = 3 ∨ s.len - r.len = 5 ∨ s.len - r.len = 9) := by
  have := (prog_decCompact s).2 _ h
  simp only [CW] at this
  omega

theorem C01_progress_script {s : Slice} {o : ScriptV} {r : Slice} (h : decScript s = .ok (o, r)) :
    r.len + 1 ≤ s.len := (prog_decScript s).2 _ h

theorem C01_progress_outpoint {s : Slice} {o : OutPointV} {r : Slice} (h : decOutPoint s = .ok (o, r)) :
    r.len + 36 = s.len := (prog_decOutPoint s).2 _ h

theorem C01_progress_txin {s : Slice} {o : TxInV} {r : Slice} (h : decTxIn s = .ok (o, r)) :
    r.len + 41 ≤ s.len := (prog_decTxIn s).2 _ h

theorem C01_progress_txout {s : Slice} {o : TxOutV} {r : Slice} (h : decTxOut s = .ok (o, r)) :
    r.len + 9 ≤ s.len := (prog_decTxOut s).2 _ h

/-- `n` witness elements consume at least `n` bytes: each has a length prefix of at least one byte -/
theorem C01_progress_witness_element {n i : Nat} {s r : Slice} (h : (decWitnessLoop n i s).res = .ok r) :
    r.len + n ≤ s.len :=
  ((cons_witnessLoop (fun _ => 0) (fun _ _ => Nat.zero_le _) n i s).ok _ h).1

/-- a whole witness consumes at least one byte (its element count) -/
theorem C01_progress_witness {s : Slice} {w : WitnessV} {e : Bool} {r : Slice}
    (h : (decWitness s).res = .ok (w, e, r)) : r.len + 1 ≤ s.len :=
  ((cons_witness (fun _ => 0) 0 (by omega) (fun _ => Nat.le_refl _) (fun _ _ => Nat.zero_le _) s).ok _ h).1

/-- a list of inputs: one byte for the count and 41 per input -/
theorem C01_progress_txins {s : Slice} {o : TxInsV} {r : Slice} (h : (decTxIns s).res = .ok (o, r)) :
    r.len + 1 + 41 * o.n ≤ s.len :=
  ((cons_txIns (fun _ => 0) 0 (by omega) (fun _ => Nat.le_refl _) (fun _ _ => Nat.zero_le _) s).ok _ h).1

theorem C01_progress_txouts {s : Slice} {o : TxOutsV} {r : Slice} (h : (decTxOuts s).res = .ok (o, r)) :
    r.len + 1 + 9 * o.n ≤ s.len :=
  ((cons_txOuts (fun _ => 0) 0 (by omega) (fun _ => Nat.le_refl _) (fun _ _ => Nat.zero_le _) s).ok _ h).1

/-- `n` witnesses consume at least `n` bytes -/
theorem C01_progress_witnesses {s : Slice} {n : Nat} {o : WitnessesV} {r : Slice}
    (h : (decWitnesses s n).res = .ok (o, r)) : r.len + n ≤ s.len :=
  ((cons_witnesses (fun _ => 0) 0 0 0 (by omega) (fun _ => Nat.le_refl _) (fun _ => Nat.le_refl _) (Nat.le_refl _)
    (fun _ _ => Nat.zero_le _) n s).ok _ h).1

theorem C01_progress_transaction {s : Slice} {t : TxV} {r : Slice} (h : (decTransaction s).res = .ok (t, r)) :
    r.len + 10 ≤ s.len :=
  ((cons_transaction (fun _ => 0) (fun _ _ => rfl) (fun _ => Nat.zero_le _) s).ok _ h).1

theorem C01_progress_header {s : Slice} {hd : HeaderV} {r : Slice} (h : (decHeader s).res = .ok (hd, r)) :
    r.len + 80 = s.len :=
  ((cons_header (fun _ => 0) (fun _ => Nat.zero_le _) s).ok _ h).1

/-- a block: 80 bytes of header, at least one byte of count and at least 10 bytes per declared transaction -/
theorem C01_progress_block {s : Slice} {b : BlockV} {r : Slice} (h : (decBlock s).res = .ok (b, r)) :
    r.len + 81 + 10 * b.totalTxs ≤ s.len :=
  ((cons_block (fun _ => 0) (fun _ _ => rfl) (fun _ => Nat.zero_le _) s).ok _ h).1

/-! ### the loops: `n` iterations to go on `L = s.len` bytes

  `_consumes`: a loop that succeeds has consumed at least (minimal element size) × `n` bytes;
  `_iterations`: so with `n > L` it cannot succeed — it ends in an error, whatever the bytes are
  (`_iterations_strong`: already when `n` × minimal element size exceeds `L`);
  `_callbacks`: and in every case (success or failure) the element callbacks made are at most `L`. -/

theorem C01_loop_consumes_txins {n i : Nat} {s r : Slice} (h : (decTxInsLoop n i s).res = .ok r) :
    r.len + 41 * n ≤ s.len :=
  ((cons_txInsLoop (fun _ => 0) (fun _ _ => Nat.zero_le _) n i s).ok _ h).1

theorem C01_loop_iterations_strong_txins (n i : Nat) (s : Slice) (h : s.len < 41 * n) :
    ∃ e, (decTxInsLoop n i s).res = .err e :=
  (cons_txInsLoop (fun _ => 0) (fun _ _ => Nat.zero_le _) n i s).fails (fun a t ⟨h1, _⟩ => by omega)

theorem C01_loop_iterations_txins (n i : Nat) (s : Slice) (h : s.len < n) :
    ∃ e, (decTxInsLoop n i s).res = .err e :=
  C01_loop_iterations_strong_txins n i s (by omega)

/-- the trace of the input loop consists of `visit_tx_in` callbacks only; each is paid for by 41 bytes -/
theorem C01_loop_callbacks_txins (n i : Nat) (s : Slice) :
    41 * (decTxInsLoop n i s).trace.length ≤ s.len ∧ (decTxInsLoop n i s).trace.length ≤ s.len := by
  have := (cons_txInsLoop (fun _ => 41) (fun _ _ => Nat.le_refl _) n i s).bound
  rw [wt_const] at this
  omega

theorem C01_loop_consumes_txouts {n i : Nat} {s r : Slice} (h : (decTxOutsLoop n i s).res = .ok r) :
    r.len + 9 * n ≤ s.len :=
  ((cons_txOutsLoop (fun _ => 0) (fun _ _ => Nat.zero_le _) n i s).ok _ h).1

theorem C01_loop_iterations_strong_txouts (n i : Nat) (s : Slice) (h : s.len < 9 * n) :
    ∃ e, (decTxOutsLoop n i s).res = .err e :=
  (cons_txOutsLoop (fun _ => 0) (fun _ _ => Nat.zero_le _) n i s).fails (fun a t ⟨h1, _⟩ => by omega)

theorem C01_loop_iterations_txouts (n i : Nat) (s : Slice) (h : s.len < n) :
    ∃ e, (decTxOutsLoop n i s).res = .err e :=
  C01_loop_iterations_strong_txouts n i s (by omega)

theorem C01_loop_callbacks_txouts (n i : Nat) (s : Slice) :
    9 * (decTxOutsLoop n i s).trace.length ≤ s.len ∧ (decTxOutsLoop n i s).trace.length ≤ s.len := by
  have := (cons_txOutsLoop (fun _ => 9) (fun _ _ => Nat.le_refl _) n i s).bound
  rw [wt_const] at this
  omega

theorem C01_loop_iterations_witness (n i : Nat) (s : Slice) (h : s.len < n) :
    ∃ e, (decWitnessLoop n i s).res = .err e :=
  (cons_witnessLoop (fun _ => 0) (fun _ _ => Nat.zero_le _) n i s).fails (fun a t ⟨h1, _⟩ => by omega)

/-- the trace of the element loop consists of `visit_witness_element` callbacks only -/
theorem C01_loop_callbacks_witness (n i : Nat) (s : Slice) : (decWitnessLoop n i s).trace.length ≤ s.len := by
  have := (cons_witnessLoop (fun _ => 1) (fun _ _ => Nat.le_refl _) n i s).bound
  rw [wt_const] at this
  omega

theorem C01_loop_consumes_witnesses {n i : Nat} {s : Slice} {ae : Bool} {r : Slice} {b : Bool}
    (h : (decWitnessesLoop n i s ae).res = .ok (r, b)) : r.len + n ≤ s.len :=
  ((cons_witnessesLoop (fun _ => 0) 0 0 0 (by omega) (fun _ => Nat.le_refl _) (fun _ => Nat.le_refl _) (Nat.le_refl _)
    (fun _ _ => Nat.zero_le _) n i s ae).ok _ h).1

theorem C01_loop_iterations_witnesses (n i : Nat) (s : Slice) (ae : Bool) (h : s.len < n) :
    ∃ e, (decWitnessesLoop n i s ae).res = .err e :=
  (cons_witnessesLoop (fun _ => 0) 0 0 0 (by omega) (fun _ => Nat.le_refl _) (fun _ => Nat.le_refl _) (Nat.le_refl _)
    (fun _ _ => Nat.zero_le _) n i s ae).fails (fun a t ⟨h1, _⟩ => by omega)

/-- whatever count is declared and however the loop ends: at most `L` witnesses are completed (`visit_witness_end`),
    at most `L + 1` are begun (`visit_witness` is called before the first byte of the witness is looked at),
    and at most `L` witness elements are delivered over all witnesses together -/
theorem C01_loop_callbacks_witnesses (n i : Nat) (s : Slice) (ae : Bool) :
    (decWitnessesLoop n i s ae).trace.countP isWitnessEndEv ≤ s.len ∧
    (decWitnessesLoop n i s ae).trace.countP isWitnessEv ≤ s.len + 1 ∧
    (decWitnessesLoop n i s ae).trace.countP isElementEv ≤ s.len := by
  refine ⟨?_, ?_, ?_⟩
  · have := (cons_witnessesLoop (fun e => if isWitnessEndEv e then 1 else 0) 0 0 1 (by omega)
      (fun _ => Nat.le_refl _) (fun _ => Nat.le_refl _) (Nat.le_refl _) (fun _ _ => Nat.zero_le _) n i s ae).bound
    rw [wt_ind] at this
    omega
  · have := (cons_witnessesLoop (fun e => if isWitnessEv e then 1 else 0) 1 0 0 (by omega)
      (fun _ => Nat.le_refl _) (fun _ => Nat.le_refl _) (Nat.le_refl _) (fun _ _ => Nat.zero_le _) n i s ae).bound
    rw [wt_ind] at this
    omega
  · have := (cons_witnessesLoop (fun e => if isElementEv e then 1 else 0) 0 0 0 (by omega)
      (fun _ => Nat.le_refl _) (fun _ => Nat.le_refl _) (Nat.le_refl _) (fun _ _ => Nat.le_refl _) n i s ae).bound
    rw [wt_ind] at this
    omega

theorem C01_loop_consumes_block {n : Nat} {s r : Slice} (h : (decBlockLoop n s).res = .ok r) :
    r.len + 10 * n ≤ s.len :=
  ((cons_blockLoop (fun _ => 0) (fun _ _ => rfl) (fun _ => Nat.zero_le _) n s).ok _ h).1

theorem C01_loop_iterations_strong_block (n : Nat) (s : Slice) (h : s.len < 10 * n) :
    ∃ e, (decBlockLoop n s).res = .err e :=
  (cons_blockLoop (fun _ => 0) (fun _ _ => rfl) (fun _ => Nat.zero_le _) n s).fails (fun a t ⟨h1, _⟩ => by omega)

theorem C01_loop_iterations_block (n : Nat) (s : Slice) (h : s.len < n) :
    ∃ e, (decBlockLoop n s).res = .err e :=
  C01_loop_iterations_strong_block n s (by omega)

/-- at most `L / 10` `visit_transaction` callbacks, whatever count is declared and however the loop ends -/
theorem C01_loop_callbacks_block (n : Nat) (s : Slice) :
    10 * (decBlockLoop n s).trace.countP isTransactionEv ≤ s.len ∧
    (decBlockLoop n s).trace.countP isTransactionEv ≤ s.len := by
  have := (cons_blockLoop (fun e => if isTransactionEv e then 10 else 0)
    (fun e he => by simp only [he]; rfl) (fun _ => Nat.le_refl _) n s).bound
  rw [wt_ind] at this
  omega

/-! ### which error: below a transaction only `MoreBytesNeeded` (the bytes ran out) or `NonMinimalVarInt` (a
    non-canonical length was met before they ran out); the block loop can in addition report the two segwit errors
    of a transaction, never `VisitBreak` / `Other` -/

theorem C01_loop_iterations_error_txins (n i : Nat) (s : Slice) (h : s.len < n) :
    (decTxInsLoop n i s).res = .err .moreBytesNeeded ∨ (decTxInsLoop n i s).res = .err .nonMinimalVarInt := by
  obtain ⟨e, he⟩ := C01_loop_iterations_txins n i s h
  rcases err_of_basic he (Enc.decTxInsLoop_basic n i s) with rfl | rfl
  · exact .inl he
  · exact .inr he

theorem C01_loop_iterations_error_txouts (n i : Nat) (s : Slice) (h : s.len < n) :
    (decTxOutsLoop n i s).res = .err .moreBytesNeeded ∨ (decTxOutsLoop n i s).res = .err .nonMinimalVarInt := by
  obtain ⟨e, he⟩ := C01_loop_iterations_txouts n i s h
  rcases err_of_basic he (Enc.decTxOutsLoop_basic n i s) with rfl | rfl
  · exact .inl he
  · exact .inr he

theorem C01_loop_iterations_error_witness (n i : Nat) (s : Slice) (h : s.len < n) :
    (decWitnessLoop n i s).res = .err .moreBytesNeeded ∨ (decWitnessLoop n i s).res = .err .nonMinimalVarInt := by
  obtain ⟨e, he⟩ := C01_loop_iterations_witness n i s h
  rcases err_of_basic he (Enc.decWitnessLoop_basic n i s) with rfl | rfl
  · exact .inl he
  · exact .inr he

theorem C01_loop_iterations_error_witnesses (n i : Nat) (s : Slice) (ae : Bool) (h : s.len < n) :
    (decWitnessesLoop n i s ae).res = .err .moreBytesNeeded ∨
    (decWitnessesLoop n i s ae).res = .err .nonMinimalVarInt := by
  obtain ⟨e, he⟩ := C01_loop_iterations_witnesses n i s ae h
  rcases err_of_basic he (Enc.decWitnessesLoop_basic n i s ae) with rfl | rfl
  · exact .inl he
  · exact .inr he

theorem C01_loop_iterations_error_block (n : Nat) (s : Slice) (h : s.len < n) :
    ∃ e, (decBlockLoop n s).res = .err e ∧ e ≠ .visitBreak ∧ ∀ c, e ≠ .other c := by
  obtain ⟨e, he⟩ := C01_loop_iterations_block n s h
  exact ⟨e, he, err_of_clean he (Enc.decBlockLoop_clean n s)⟩

/-! ### lifted to the L1 model: a declared count that exceeds the input makes the visit fail, for every visitor

  "Declared count" = what `scan_len` reads at the start of the list. The visit does not panic (C01) and cannot
  return `Ok`, so it returns an `Err` (a decoder error, or `VisitBreak` if the visitor breaks first). -/

theorem C01_L1_count_exceeding_input_fails_txins {σ} (s : Slice) (hs : s.len < 2 ^ 62) (n c : Nat)
    (hn : scanLenQ s 0 = .ok (n, c)) (h : s.len < n) (v : Visitor σ) (st : σ) :
    ∃ e, (TxIns.visit s v st).2 = .err e := by
  refine res_err_of_isPanic (C01_nopanic_txins s hs v st) ?_
  rintro ⟨o, r⟩ hok
  rw [refine_txins s hs] at hok
  have hd := run_ok hok
  obtain ⟨r0, h1, _⟩ := decTxIns_inv hd
  obtain ⟨r0', h2⟩ := scanLenQ_dec hn
  rw [h1] at h2
  cases h2
  have := C01_progress_txins hd
  omega

/-- … and `TxIns::parse` (no visitor that could break) reports `MoreBytesNeeded` or `NonMinimalVarInt` -/
theorem C01_L1_count_exceeding_input_parse_txins (s : Slice) (hs : s.len < 2 ^ 62) (n c : Nat)
    (hn : scanLenQ s 0 = .ok (n, c)) (h : s.len < n) :
    parseOf (TxIns.visit s) = .err .moreBytesNeeded ∨ parseOf (TxIns.visit s) = .err .nonMinimalVarInt := by
  obtain ⟨e, he⟩ := C01_L1_count_exceeding_input_fails_txins s hs n c hn h emptyVisitor ()
  have he' : parseOf (TxIns.visit s) = .err e := he
  have hb := Enc.decTxIns_basic s
  rw [← Lift.parseOf_txins s hs] at hb
  rcases err_of_basic he' hb with rfl | rfl
  · exact .inl he'
  · exact .inr he'

theorem C01_L1_count_exceeding_input_fails_txouts {σ} (s : Slice) (hs : s.len < 2 ^ 62) (n c : Nat)
    (hn : scanLenQ s 0 = .ok (n, c)) (h : s.len < n) (v : Visitor σ) (st : σ) :
    ∃ e, (TxOuts.visit s v st).2 = .err e := by
  refine res_err_of_isPanic (C01_nopanic_txouts s hs v st) ?_
  rintro ⟨o, r⟩ hok
  rw [refine_txouts s hs] at hok
  have hd := run_ok hok
  obtain ⟨r0, h1, _⟩ := decTxOuts_inv hd
  obtain ⟨r0', h2⟩ := scanLenQ_dec hn
  rw [h1] at h2
  cases h2
  have := C01_progress_txouts hd
  omega

/-- one witness: the declared number of elements -/
theorem C01_L1_count_exceeding_input_fails_witness {σ} (s : Slice) (hs : s.len < 2 ^ 62) (n c : Nat)
    (hn : scanLenQ s 0 = .ok (n, c)) (h : s.len < n) (v : Visitor σ) (st : σ) :
    ∃ e, (Witness.visit s v st).2 = .err e := by
  refine res_err_of_isPanic (C01_nopanic_witness s hs v st) ?_
  rintro ⟨o, r⟩ hok
  rw [sim_witness s hs v st] at hok
  have h2 := run_ok hok
  rw [witnessD_res] at h2
  cases hd : (decWitness s).res with
  | ok a =>
    obtain ⟨w, em, r'⟩ := a
    obtain ⟨n', r0, h1, hl⟩ := decWitness_inv hd
    obtain ⟨r0', h3⟩ := scanLenQ_dec hn
    rw [h1] at h3
    cases h3
    have := C01_progress_witness_element hl
    have := (C01_progress_compact h1).1
    omega
  | err e => rw [hd] at h2; cases h2
  | panic p => rw [hd] at h2; cases h2

/-- a block: the declared number of transactions, read by `scan_len` right after the 80-byte header -/
theorem C01_L1_count_exceeding_input_fails_block {σ} (s : Slice) (hs : s.len < 2 ^ 62) (n c : Nat)
    (hn : scanLenQ ⟨s.base + 80, s.bytes.drop 80⟩ 0 = .ok (n, c)) (h : s.len < n) (v : Visitor σ) (st : σ) :
    ∃ e, (Block.visit s v st).2 = .err e := by
  refine res_err_of_isPanic (C01_nopanic_block s hs v st) ?_
  rintro ⟨o, r⟩ hok
  rw [refine_block s hs] at hok
  have hd := run_ok hok
  obtain ⟨r1, h1, _⟩ := decBlock_inv hd
  obtain ⟨r0', h2⟩ := scanLenQ_dec hn
  rw [h1] at h2
  cases h2
  have := C01_progress_block hd
  omega

/-- `Witnesses::visit` is handed the count by its caller -/
theorem C01_L1_count_exceeding_input_fails_witnesses {σ} (s : Slice) (hs : s.len < 2 ^ 62) (n : Nat)
    (h : s.len < n) (v : Visitor σ) (st : σ) :
    ∃ e, (Witnesses.visit s n v st).2 = .err e := by
  refine res_err_of_isPanic (C01_nopanic_witnesses s hs n v st) ?_
  rintro ⟨o, r⟩ hok
  rw [refine_witnesses s hs] at hok
  have := C01_progress_witnesses (run_ok hok)
  omega

/-- a successful L1 visit of a transaction / block has consumed input: the remainder is strictly shorter -/
theorem C01_L1_progress_transaction {σ} (s : Slice) (hs : s.len < 2 ^ 62) (v : Visitor σ) (st : σ) (t : TxV)
    (r : Slice) (h : (Transaction.visit s v st).2 = .ok (t, r)) : r.len + 10 ≤ s.len := by
  rw [refine_transaction s hs] at h
  exact C01_progress_transaction (run_ok h)

theorem C01_L1_progress_block {σ} (s : Slice) (hs : s.len < 2 ^ 62) (v : Visitor σ) (st : σ) (b : BlockV)
    (r : Slice) (h : (Block.visit s v st).2 = .ok (b, r)) : r.len + 81 + 10 * b.totalTxs ≤ s.len := by
  rw [refine_block s hs] at h
  exact C01_progress_block (run_ok h)

/-! ### non-vacuity -/

/-- 3 inputs declared, 2 bytes follow: the loop stops at the first input with `MoreBytesNeeded` and no callback -/
example : (decTxInsLoop 3 0 ⟨1, [0, 0]⟩).res = .err .moreBytesNeeded := by decide
/-- a count of 2^64-1 elements on three one-byte (empty) elements: 3 callbacks, then `MoreBytesNeeded` -/
example : (decWitnessLoop (2 ^ 64 - 1) 0 ⟨0, [0, 0, 0]⟩).res = .err .moreBytesNeeded ∧
    (decWitnessLoop (2 ^ 64 - 1) 0 ⟨0, [0, 0, 0]⟩).trace.length = 3 := by decide
/-- the `L + 1` bound on `visit_witness` is attained: 3 bytes, 4 witnesses begun, 3 ended -/
example : (decWitnessesLoop 5 0 ⟨0, [0, 0, 0]⟩ true).trace.countP isWitnessEv = 4 ∧
    (decWitnessesLoop 5 0 ⟨0, [0, 0, 0]⟩ true).trace.countP isWitnessEndEv = 3 := by decide
/-- the compact widths all occur -/
example : decCompact ⟨0, [7, 9]⟩ = .ok (7, ⟨1, [9]⟩) := by decide
example : decCompact ⟨0, [0xFD, 0, 1, 9]⟩ = .ok (256, ⟨3, [9]⟩) := by decide
/-- the L1 statement on a concrete input: count 5 declared (`scan_len` reads 5), four bytes in all -/
example : scanLenQ ⟨0, [5, 0, 0, 0]⟩ 0 = .ok (5, 1) := by decide
example : (TxIns.visit ⟨0, [5, 0, 0, 0]⟩ recorder []).2 = .err .moreBytesNeeded := by decide
/-- a block header followed by a count of 200 and nothing else -/
example : scanLenQ ⟨80, ([200] : Bytes)⟩ 0 = .ok (200, 1) := by decide
example : (Block.visit ⟨0, List.replicate 80 0 ++ [200]⟩ recorder []).2 = .err .moreBytesNeeded := by decide
/-- the hypothesis of the progress theorems is satisfiable: the example transaction of C01 (60 bytes) -/
example : (decTransaction ⟨0, C01_exampleTx⟩).res.map' (fun p => p.2.len) = .ok 0 ∧
    (⟨0, C01_exampleTx⟩ : Slice).len = 60 := by decide

end BS
