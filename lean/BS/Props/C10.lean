import BS.Lemmas.Lift
import BS.Lemmas.AccView
/-
  C10 — what is hashed: the txid preimage is the witness-stripped serialization, the block hash is the double SHA-256
  of the 80 header bytes. `Sha256.sha256d` (BS/Sha256.lean) is the definition of double SHA-256.
  Property theorems only (helper lemmas: BS/Lemmas/AccTx.lean — byte layout `BS.Acc.TxLayout` of a decoded transaction,
  see the header of BS/Props/C16.lean for what it says — and BS/Lemmas/AccView.lean).
-/
namespace BS
open Spec

/-- every transaction the L2 decoder returns has the legacy or the segwit layout -/
theorem C10_layout {s : Slice} {t : TxV} {rem : Slice} (h : (decTransaction s).res = .ok (t, rem)) :
    ∃ ver mid ins outs wits lock, Acc.TxLayout s t rem ver mid ins outs wits lock :=
  Acc.tx_layout h

/-- the three preimage parts concatenate to version ‖ inputs ‖ outputs ‖ lock time: no marker, no flag, no witnesses.
    Never a panic (inputs below 2^62 bytes). -/
theorem C10_preimage {s : Slice} {t : TxV} {rem : Slice} {ver mid ins outs wits lock : Bytes}
    (L : Acc.TxLayout s t rem ver mid ins outs wits lock) (hs : s.len < 2 ^ 62) :
    t.preimageBytes = .ok (ver ++ ins ++ outs ++ lock) :=
  Acc.preimage_of_layout L hs

/-- in the legacy form the preimage is the whole transaction -/
theorem C10_preimage_legacy {s : Slice} {t : TxV} {rem : Slice} (h : (decTransaction s).res = .ok (t, rem))
    (hl : t.ioLen = none) : t.preimageBytes = .ok (s.bytes.take (s.len - rem.len)) := by
  obtain ⟨ver, mid, ins, outs, wits, lock, L⟩ := Acc.tx_layout h
  rw [← show t.slice.bytes = s.bytes.take (s.len - rem.len) by rw [L.slice_eq]]
  unfold TxV.preimageBytes TxV.txidPreimage
  rw [hl]
  simp [Slice.staticEmpty]

/-- the txid is the double SHA-256 of the stripped serialization -/
theorem C10_txid {s : Slice} {t : TxV} {rem : Slice} {ver mid ins outs wits lock : Bytes}
    (L : Acc.TxLayout s t rem ver mid ins outs wits lock) (hs : s.len < 2 ^ 62) :
    t.txid = .ok (Sha256.sha256d (ver ++ ins ++ outs ++ lock)) := by
  unfold TxV.txid
  rw [C10_preimage L hs]; rfl

/-- the same two facts directly from a successful decode -/
theorem C10_txid_dec {s : Slice} {t : TxV} {rem : Slice} (h : (decTransaction s).res = .ok (t, rem))
    (hs : s.len < 2 ^ 62) :
    ∃ ver mid ins outs wits lock, Acc.TxLayout s t rem ver mid ins outs wits lock ∧
      t.preimageBytes = .ok (ver ++ ins ++ outs ++ lock) ∧
      t.txid = .ok (Sha256.sha256d (ver ++ ins ++ outs ++ lock)) := by
  obtain ⟨ver, mid, ins, outs, wits, lock, L⟩ := Acc.tx_layout h
  exact ⟨ver, mid, ins, outs, wits, lock, L, C10_preimage L hs, C10_txid L hs⟩

/-- `version()` and `locktime()` read the first and the last four bytes; never a panic -/
theorem C10_version_locktime {s : Slice} {t : TxV} {rem : Slice} {ver mid ins outs wits lock : Bytes}
    (L : Acc.TxLayout s t rem ver mid ins outs wits lock) :
    t.version = .ok (toI32 (leN ver)) ∧ t.locktime = .ok (leN lock) :=
  ⟨Acc.version_of_layout L, Acc.locktime_of_layout L⟩

/-- the header view is the first 80 bytes and the block hash is their double SHA-256 -/
theorem C10_block_hash {s : Slice} {h : HeaderV} {rem : Slice} (hd : (decHeader s).res = .ok (h, rem)) :
    h.slice = ⟨s.base, s.bytes.take 80⟩ ∧ 80 ≤ s.len ∧ h.blockHash = Sha256.sha256d (s.bytes.take 80) := by
  unfold decHeader at hd
  obtain ⟨⟨p, r⟩, h1, hd⟩ := Acc.d_bind_res_ok.mp hd
  obtain ⟨_, _, hd⟩ := Acc.d_bind_res_ok.mp hd
  simp only [Acc.d_pure_res, Res.ok.injEq, Prod.mk.injEq] at hd
  obtain ⟨e1, e2⟩ := hd
  simp only [Acc.d_lift_res] at h1
  unfold takeN at h1
  split at h1
  · cases h1
  · rename_i hl
    cases h1
    subst e1
    exact ⟨rfl, by omega, rfl⟩

/-- `Block::block_hash` is the hash of the first 80 bytes of the block -/
theorem C10_block_hash_block {s : Slice} {b : BlockV} {rem : Slice} (hd : (decBlock s).res = .ok (b, rem)) :
    b.header.slice = ⟨s.base, s.bytes.take 80⟩ ∧ b.blockHash = Sha256.sha256d (s.bytes.take 80) := by
  unfold decBlock at hd
  obtain ⟨⟨h, r⟩, h1, hd⟩ := Acc.d_bind_res_ok.mp hd
  obtain ⟨⟨n, r1⟩, _, hd⟩ := Acc.d_bind_res_ok.mp hd
  obtain ⟨_, _, hd⟩ := Acc.d_bind_res_ok.mp hd
  obtain ⟨rem', _, hd⟩ := Acc.d_bind_res_ok.mp hd
  simp only [Acc.d_pure_res, Res.ok.injEq, Prod.mk.injEq] at hd
  obtain ⟨e1, e2⟩ := hd
  subst e1
  obtain ⟨a, _, c⟩ := C10_block_hash h1
  exact ⟨a, c⟩

/-! non-vacuity: a legacy and a segwit transaction (one input, one output) followed by two unrelated bytes -/

example : (decTransaction ⟨5, Acc.exLegacyTx ++ [7,7]⟩).res = .ok (⟨⟨5, Acc.exLegacyTx⟩, none⟩, ⟨66, [7,7]⟩) := by decide
example : (decTransaction ⟨5, Acc.exSegwitTx ++ [7,7]⟩).res = .ok (⟨⟨5, Acc.exSegwitTx⟩, some 53⟩, ⟨71, [7,7]⟩) := by decide
example : TxV.preimageBytes ⟨⟨5, Acc.exSegwitTx⟩, some 53⟩ = .ok Acc.exStrippedTx := by decide
example : TxV.version ⟨⟨5, Acc.exSegwitTx⟩, some 53⟩ = .ok 2 ∧ TxV.locktime ⟨⟨5, Acc.exSegwitTx⟩, some 53⟩ = .ok 9 := by decide
example : ((decHeader ⟨3, List.replicate 81 0x11⟩).res.isOk) = true := by decide/-! ### the reference SHA-256 is SHA-256: FIPS 180-4 test vectors, evaluated by the kernel -/

theorem C10_sha256_vector_abc : Sha256.sha256 [0x61, 0x62, 0x63] =
    [0xba,0x78,0x16,0xbf,0x8f,0x01,0xcf,0xea,0x41,0x41,0x40,0xde,0x5d,0xae,0x22,0x23,
     0xb0,0x03,0x61,0xa3,0x96,0x17,0x7a,0x9c,0xb4,0x10,0xff,0x61,0xf2,0x00,0x15,0xad] := by decide +kernel

theorem C10_sha256_vector_empty : Sha256.sha256 [] =
    [0xe3,0xb0,0xc4,0x42,0x98,0xfc,0x1c,0x14,0x9a,0xfb,0xf4,0xc8,0x99,0x6f,0xb9,0x24,
     0x27,0xae,0x41,0xe4,0x64,0x9b,0x93,0x4c,0xa4,0x95,0x99,0x1b,0x78,0x52,0xb8,0x55] := by decide +kernel

/-- the 56-byte two-block vector "abcdbcdecdefdefgefghfghighijhijkijkljklmklmnlmnomnopnopq" -/
theorem C10_sha256_vector_two_blocks : Sha256.sha256
    [0x61,0x62,0x63,0x64,0x62,0x63,0x64,0x65,0x63,0x64,0x65,0x66,0x64,0x65,0x66,0x67,0x65,0x66,0x67,0x68,0x66,0x67,0x68,0x69,
     0x67,0x68,0x69,0x6a,0x68,0x69,0x6a,0x6b,0x69,0x6a,0x6b,0x6c,0x6a,0x6b,0x6c,0x6d,0x6b,0x6c,0x6d,0x6e,0x6c,0x6d,0x6e,0x6f,
     0x6d,0x6e,0x6f,0x70,0x6e,0x6f,0x70,0x71] =
    [0x24,0x8d,0x6a,0x61,0xd2,0x06,0x38,0xb8,0xe5,0xc0,0x26,0x93,0x0c,0x3e,0x60,0x39,
     0xa3,0x3c,0xe4,0x59,0x64,0xff,0x21,0x67,0xf6,0xec,0xed,0xd4,0x19,0xdb,0x06,0xc1] := by decide +kernel

/-! ## L1 corollaries (generated by tools/genlift.py) -/
section L1
open BS.Ref BS.Lift

/-- for every transaction the model of the code returns, under every visitor: preimage and txid -/
theorem C10_L1_txid {σ : Type} {s : Slice} (hs : s.len < 2 ^ 62) {v : Visitor σ} {st st' : σ} {t : TxV} {rem : Slice}
    (h : Transaction.visit s v st = (st', .ok (t, rem))) :
    ∃ ver mid ins outs wits lock, Acc.TxLayout s t rem ver mid ins outs wits lock ∧
      t.preimageBytes = .ok (ver ++ ins ++ outs ++ lock) ∧
      t.txid = .ok (Sha256.sha256d (ver ++ ins ++ outs ++ lock)) :=
  C10_txid_dec (ok_of_sim (fun v st => refine_transaction s hs v st) h) hs

theorem C10_L1_preimage_legacy {σ : Type} {s : Slice} (hs : s.len < 2 ^ 62) {v : Visitor σ} {st st' : σ} {t : TxV} {rem : Slice}
    (h : Transaction.visit s v st = (st', .ok (t, rem))) (hl : t.ioLen = none) :
    t.preimageBytes = .ok (s.bytes.take (s.len - rem.len)) :=
  C10_preimage_legacy (ok_of_sim (fun v st => refine_transaction s hs v st) h) hl

theorem C10_L1_block_hash_header {σ : Type} {s : Slice} {v : Visitor σ} {st st' : σ} {h : HeaderV} {rem : Slice}
    (hv : BlockHeader.visit s v st = (st', .ok (h, rem))) :
    h.slice = ⟨s.base, s.bytes.take 80⟩ ∧ 80 ≤ s.len ∧ h.blockHash = Sha256.sha256d (s.bytes.take 80) :=
  C10_block_hash (ok_of_sim (fun v st => refine_header s v st) hv)

theorem C10_L1_block_hash_block {σ : Type} {s : Slice} (hs : s.len < 2 ^ 62) {v : Visitor σ} {st st' : σ} {b : BlockV} {rem : Slice}
    (hv : Block.visit s v st = (st', .ok (b, rem))) :
    b.header.slice = ⟨s.base, s.bytes.take 80⟩ ∧ b.blockHash = Sha256.sha256d (s.bytes.take 80) :=
  C10_block_hash_block (ok_of_sim (fun v st => refine_block s hs v st) hv)

end L1

end BS
