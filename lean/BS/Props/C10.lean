import BS.Lemmas.Lift
import BS.Lemmas.AccView
/-
  C10 — what is hashed: the txid preimage is the witness-stripped serialization, the block hash is the double SHA-256
  of the 80 header bytes. `Sha256.sha256d` (BS/Sha256.lean) is the definition of double SHA-256.
  Property theorems only (helper lemmas: BS/Lemmas/AccTx.lean — byte layout `BS.Acc.TxLayout` of a decoded transaction,
  see the header of BS/Props/C16.lean for what it says — and BS/Lemmas/AccView.lean).
-/
namespace BS
open Spec

/-- every transaction the L2 decoder returns has the legacy or the segwit layout -/
theorem C10_layout {s : Slice} {t : TxV} {rem : Slice} (h : (decTransaction s).res = .ok (t, rem)) :
    ∃ ver mid ins outs wits lock, Acc.TxLayout s t rem ver mid ins outs wits lock :=
  Acc.tx_layout h

/-- the three preimage parts concatenate to version ‖ inputs ‖ outputs ‖ lock time: no marker, no flag, no witnesses.
    Never a panic (inputs below 2^62 bytes). -/
theorem C10_preimage {s : Slice} {t : TxV} {rem : Slice} {ver mid ins outs wits lock : Bytes}
    (L : Acc.TxLayout s t rem ver mid ins outs wits lock) (hs : s.len < 2 ^ 62) :
    t.preimageBytes = .ok (ver ++ ins ++ outs ++ lock) :=
  Acc.preimage_of_layout L hs

/-- in the legacy form the preimage is the whole transaction -/
theorem C10_preimage_legacy {s : Slice} {t : TxV} {rem : Slice} (h : (decTransaction s).res = .ok (t, rem))
    (hl : t.ioLen = none) : t.preimageBytes = .ok (s.bytes.take (s.len - rem.len)) := by
  obtain ⟨ver, mid, ins, outs, wits, lock, L⟩ := Acc.tx_layout h
  rw [← show t.slice.bytes = s.bytes.take (s.len - rem.len) by rw [L.slice_eq]]
  unfold TxV.preimageBytes TxV.txidPreimage
  rw [hl]
  simp [Slice.staticEmpty]

/-- the txid is the double SHA-256 of the stripped serialization -/
theorem C10_txid {s : Slice} {t : TxV} {rem : Slice} {ver mid ins outs wits lock : Bytes}
    (L : Acc.TxLayout s t rem ver mid ins outs wits lock) (hs : s.len < 2 ^ 62) :
    t.txid = .ok (Sha256.sha256d (ver ++ ins ++ outs ++ lock)) := by
  unfold TxV.txid
  rw [C10_preimage L hs]; rfl

/-- the same two facts directly from a successful decode -/
theorem C10_txid_dec {s : Slice} {t : TxV} {rem : Slice} (h : (decTransaction s).res = .ok (t, rem))
    (hs : s.len < 2 ^ 62) :
    ∃ ver mid ins outs wits lock, Acc.TxLayout s t rem ver mid ins outs wits lock ∧
      t.preimageBytes = .ok (ver ++ ins ++ outs ++ lock) ∧
      t.txid = .ok (Sha256.sha256d (ver ++ ins ++ outs ++ lock)) := by
  obtain ⟨ver, mid, ins, outs, wits, lock, L⟩ := Acc.tx_layout h
  exact ⟨ver, mid, ins, outs, wits, lock, L, C10_preimage L hs, C10_txid L hs⟩

/-- `version()` and `locktime()` read the first and the last four bytes; never a panic -/
theorem C10_version_locktime {s : Slice} {t : TxV} {rem : Slice} {ver mid ins outs wits lock : Bytes}
    (L : Acc.TxLayout s t rem ver mid ins outs wits lock) :
    t.version = .ok (toI32 (leN ver)) ∧ t.locktime = .ok (leN lock) :=
  ⟨Acc.version_of_layout L, Acc.locktime_of_layout L⟩

/-- the header view is the first 80 bytes and the block hash is their double SHA-256 -/
theorem C10_block_hash {s : Slice} {h : HeaderV} {rem : Slice} (hd : (decHeader s).res = .ok (h, rem)) :
    h.slice = ⟨s.base, s.bytes.take 80⟩ ∧ 80 ≤ s.len ∧ h.blockHash = Sha256.sha256d (s.bytes.take 80) := by
  unfold decHeader at hd
  obtain ⟨⟨p, r⟩, h1, hd⟩ := Acc.d_bind_res_ok.mp hd
  obtain ⟨_, _, hd⟩ := Acc.d_bind_res_ok.mp hd
  simp only [Acc.d_pure_res, Res.ok.injEq, Prod.mk.injEq] at hd
  obtain ⟨e1, e2⟩ := hd
  simp only [Acc.d_lift_res] at h1
  unfold takeN at h1
  split at h1
  · cases h1
  · rename_i hl
    cases h1
    subst e1
    exact ⟨rfl, by omega, rfl⟩

/-- `Block::block_hash` is the hash of the first 80 bytes of the block -/
theorem C10_block_hash_block {s : Slice} {b : BlockV} {rem : Slice} (hd : (decBlock s).res = .ok (b, rem)) :
    b.header.slice = ⟨s.base, s.bytes.take 80⟩ ∧ b.blockHash = Sha256.sha256d (s.bytes.take 80) := by
  unfold decBlock at hd
  obtain ⟨⟨h, r⟩, h1, hd⟩ := Acc.d_bind_res_ok.mp hd
  obtain ⟨⟨n, r1⟩, _, hd⟩ := Acc.d_bind_res_ok.mp hd
  obtain ⟨_, _, hd⟩ := Acc.d_bind_res_ok.mp hd
  obtain ⟨rem', _, hd⟩ := Acc.d_bind_res_ok.mp hd
  simp only [Acc.d_pure_res, Res.ok.injEq, Prod.mk.injEq] at hd
  obtain ⟨e1, e2⟩ := hd
  subst e1
  obtain ⟨a, _, c⟩ := C10_block_hash h1
  exact ⟨a, c⟩

/-! non-vacuity: a legacy and a segwit transaction (one input, one output) followed by two unrelated bytes -/

example : (decTransaction ⟨5, Acc.exLegacyTx ++ [7,7]⟩).res = .ok (⟨⟨5, Acc.exLegacyTx⟩, none⟩, ⟨66, [7,7]⟩) := by decide
example : (decTransaction ⟨5, Acc.exSegwitTx ++ [7,7]⟩).res = .ok (⟨⟨5, Acc.exSegwitTx⟩, some 53⟩, ⟨71, [7,7]⟩) := by decide
example : TxV.preimageBytes ⟨⟨5, Acc.exSegwitTx⟩, some 53⟩ = .ok Acc.exStrippedTx := by decide
example : TxV.version ⟨⟨5, Acc.exSegwitTx⟩, some 53⟩ = .ok 2 ∧ TxV.locktime ⟨⟨5, Acc.exSegwitTx⟩, some 53⟩ = .ok 9 := by decide
example : ((decHeader ⟨3, List.replicate 81 0x11⟩).res.isOk) = true := by decide/-! ## L1 corollaries (generated by tools/genlift.py) -/
section L1
open BS.Ref BS.Lift

/-- for every transaction the model of the code returns, under every visitor: preimage and txid -/
theorem C10_L1_txid {σ : Type} {s : Slice} (hs : s.len < 2 ^ 62) {v : Visitor σ} {st st' : σ} {t : TxV} {rem : Slice}
    (h : Transaction.visit s v st = (st', .ok (t, rem))) :
    ∃ ver mid ins outs wits lock, Acc.TxLayout s t rem ver mid ins outs wits lock ∧
      t.preimageBytes = .ok (ver ++ ins ++ outs ++ lock) ∧
      t.txid = .ok (Sha256.sha256d (ver ++ ins ++ outs ++ lock)) :=
  C10_txid_dec (ok_of_sim (fun v st => refine_transaction s hs v st) h) hs

theorem C10_L1_preimage_legacy {σ : Type} {s : Slice} (hs : s.len < 2 ^ 62) {v : Visitor σ} {st st' : σ} {t : TxV} {rem : Slice}
    (h : Transaction.visit s v st = (st', .ok (t, rem))) (hl : t.ioLen = none) :
    t.preimageBytes = .ok (s.bytes.take (s.len - rem.len)) :=
  C10_preimage_legacy (ok_of_sim (fun v st => refine_transaction s hs v st) h) hl

theorem C10_L1_block_hash_header {σ : Type} {s : Slice} {v : Visitor σ} {st st' : σ} {h : HeaderV} {rem : Slice}
    (hv : BlockHeader.visit s v st = (st', .ok (h, rem))) :
    h.slice = ⟨s.base, s.bytes.take 80⟩ ∧ 80 ≤ s.len ∧ h.blockHash = Sha256.sha256d (s.bytes.take 80) :=
  C10_block_hash (ok_of_sim (fun v st => refine_header s v st) hv)

theorem C10_L1_block_hash_block {σ : Type} {s : Slice} (hs : s.len < 2 ^ 62) {v : Visitor σ} {st st' : σ} {b : BlockV} {rem : Slice}
    (hv : Block.visit s v st = (st', .ok (b, rem))) :
    b.header.slice = ⟨s.base, s.bytes.take 80⟩ ∧ b.blockHash = Sha256.sha256d (s.bytes.take 80) :=
  C10_block_hash_block (ok_of_sim (fun v st => refine_block s hs v st) hv)

end L1

end BS
