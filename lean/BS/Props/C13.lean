import BS.Lemmas.CacheRun
/-
  C13 — errors change nothing; the eviction count, `len` and the `full` flag are exact.
  Property theorems only (helper lemmas live in BS/Lemmas/Cache*.lean; vocabulary as in C06.lean).
  "`k` is retrievable" is `k ∈ L.map Prod.fst` for the ghost log `L` (equivalently `get c k = ok (some _)`, C06_get).
-/
namespace BS
open Cache CacheProof

variable {κ : Type} [DecidableEq κ]

/-- retrievable = in the ghost log -/
theorem C13_retrievable_iff {c : Cache κ} {L : List (κ × Bytes)} (h : Inv c L) (k : κ) :
    (∃ v, get c k = .ok (some v)) ↔ k ∈ L.map Prod.fst := by
  rw [h.get, ← logGet_isSome_iff]
  cases logGet k L with
  | none => simp
  | some v => simp

/-- inserting a retrievable key is refused and the state is literally unchanged -/
theorem C13_present {c : Cache κ} {L : List (κ × Bytes)} (h : Inv c L) {k : κ} (v : Bytes)
    (hk : k ∈ L.map Prod.fst) : insert c k v = (c, .valueAlreadyPresent) := by
  obtain ⟨G, rfl, hG⟩ := h
  exact insert_present hG v (by rw [← map_kv_fst]; exact hk)

/-- inserting a value longer than the capacity under a non-retrievable key is refused, state unchanged -/
theorem C13_too_long {c : Cache κ} {L : List (κ × Bytes)} (h : Inv c L) {k : κ} {v : Bytes}
    (hk : k ∉ L.map Prod.fst) (hv : v.length > c.cap) : insert c k v = (c, .valueLargerThanBuffer) := by
  obtain ⟨G, rfl, hG⟩ := h
  exact insert_tooLong hG (by rw [← map_kv_fst]; exact hk) hv

/-- every other insertion is accepted (given `2 * cap < 2^64` and fewer than `2^64` live entries, without which the
    checked additions of the Rust code could overflow) -/
theorem C13_accepts {c : Cache κ} {L : List (κ × Bytes)} (h : Inv c L) {k : κ} {v : Bytes}
    (hk : k ∉ L.map Prod.fst) (hv : v.length ≤ c.cap) (hcap : 2 * c.cap < USIZE) (hlen : L.length < USIZE) :
    ∃ c' e, insert c k v = (c', .ok e) := by
  obtain ⟨G, rfl, hG⟩ := h
  rcases insert_accept hG (by rw [← map_kv_fst]; exact hk) hv with ⟨_, h2⟩ | h1
  · rw [List.length_map] at hlen; omega
  · exact ⟨_, _, h1⟩

/-- the three outcomes are decided by exactly these conditions (no bound needed for the two errors) -/
theorem C13_result_iff {c : Cache κ} {L : List (κ × Bytes)} (h : Inv c L) (k : κ) (v : Bytes)
    (hcap : 2 * c.cap < USIZE) (hlen : L.length < USIZE) :
    ((insert c k v).2 = .valueAlreadyPresent ↔ k ∈ L.map Prod.fst) ∧
    ((insert c k v).2 = .valueLargerThanBuffer ↔ k ∉ L.map Prod.fst ∧ v.length > c.cap) ∧
    ((∃ e, (insert c k v).2 = .ok e) ↔ k ∉ L.map Prod.fst ∧ v.length ≤ c.cap) := by
  by_cases hk : k ∈ L.map Prod.fst
  · rw [C13_present h v hk]; simp [hk]
  · by_cases hv : v.length > c.cap
    · rw [C13_too_long h hk hv]; simp [hk, hv]
    · obtain ⟨c', e, hi⟩ := C13_accepts h hk (Nat.le_of_not_gt hv) hcap hlen
      rw [hi]; simp [hk, hv]; omega

/-- an evicted (or never inserted) key can be inserted again, and is then retrievable with the new value -/
theorem C13_reinsert {c : Cache κ} {L : List (κ × Bytes)} (h : Inv c L) {k : κ} {v : Bytes}
    (hk : get c k = .ok none) (hv : v.length ≤ c.cap) (hcap : 2 * c.cap < USIZE) (hlen : L.length < USIZE) :
    ∃ c' e, insert c k v = (c', .ok e) ∧ get c' k = .ok (some v) := by
  have hk' : k ∉ L.map Prod.fst := by
    rw [← C13_retrievable_iff h]; rintro ⟨v', hv'⟩; rw [hk] at hv'; cases hv'
  obtain ⟨c', e, hi⟩ := C13_accepts h hk' hv hcap hlen
  refine ⟨c', e, hi, ?_⟩
  have h' := (h.insert_ok hi).2.2.2
  rw [h'.get, logGet_of_mem_nodup k v _ h'.nodup (by simp)]

/-- the returned count is exactly the number of previously retrievable keys that are no longer retrievable:
    the `e` oldest entries (distinct keys) are gone, all the others are kept with their values -/
theorem C13_count {c : Cache κ} {L : List (κ × Bytes)} (h : Inv c L) {k : κ} {v : Bytes} {c' : Cache κ} {e : Nat}
    (hi : insert c k v = (c', .ok e)) :
    e ≤ L.length ∧ (L.map Prod.fst).Nodup ∧ (L.take e).length = e ∧
    (∀ k0 ∈ (L.take e).map Prod.fst, get c' k0 = .ok none) ∧
    (∀ k0 v0, (k0, v0) ∈ L.drop e → get c' k0 = .ok (some v0)) ∧
    (logStep L k v (.ok e)).length = L.length - e + 1 ∧ c'.len = c.len - e + 1 := by
  obtain ⟨h1, h2, _, h4⟩ := h.insert_ok hi
  have hnd := h.nodup
  have hnd' := h4.nodup
  refine ⟨h1, hnd, by simp; omega, ?_, ?_, by simp [logStep], by rw [h4.len, h.len]; simp⟩
  · intro k0 hk0
    rw [h4.get]; congr 1
    apply logGet_none
    have hL : L.map Prod.fst = (L.take e).map Prod.fst ++ (L.drop e).map Prod.fst := by
      rw [← List.map_append, List.take_append_drop]
    rw [hL, List.nodup_append] at hnd
    simp only [List.map_append, List.map_cons, List.map_nil, List.mem_append, List.mem_singleton, not_or]
    refine ⟨fun hm => hnd.2.2 k0 hk0 k0 hm rfl, fun e0 => h2 ?_⟩
    rw [← e0, hL]; exact List.mem_append_left _ hk0
  · intro k0 v0 hm
    rw [h4.get, logGet_of_mem_nodup k0 v0 _ hnd' (List.mem_append_left _ hm)]

/-- `len` is the number of retrievable keys -/
theorem C13_len {c : Cache κ} {L : List (κ × Bytes)} (h : Inv c L) : c.len = L.length := h.len

theorem C13_len_run (cap : Nat) (ops : List (κ × Bytes)) : (runOps cap ops).c.len = (runOps cap ops).log.length :=
  (run_inv cap ops).len

/-- `contains` answers exactly whether `get` returns something -/
theorem C13_contains {c : Cache κ} {L : List (κ × Bytes)} (h : Inv c L) (k : κ) :
    contains c k = .ok (decide (k ∈ L.map Prod.fst)) ∧
    ∃ o, get c k = .ok o ∧ contains c k = .ok o.isSome := by
  have hc : contains c k = .ok (logGet k L).isSome := by unfold contains; rw [h.get]
  refine ⟨?_, _, h.get k, hc⟩
  rw [hc]; congr 1
  have := logGet_isSome_iff k L
  cases hd : decide (k ∈ L.map Prod.fst) with
  | true => exact this.2 (of_decide_eq_true hd)
  | false =>
    have hn := of_decide_eq_false hd
    cases ho : (logGet k L).isSome with
    | true => exact absurd (this.1 ho) hn
    | false => rfl

/-- one step of the full flag: it is set by a wrap, a wrap always evicts, and nothing is evicted while it is unset -/
theorem C13_full_step {c : Cache κ} {L : List (κ × Bytes)} (h : Inv c L) {k : κ} {v : Bytes} {c' : Cache κ} {e : Nat}
    (hi : insert c k v = (c', .ok e)) : c'.full = true ↔ (c.full = true ∨ 0 < e) :=
  (h.insert_full hi).1

/-- on every history the full flag is false until the first eviction and true ever after:
    `full = true` iff some earlier insertion returned a count `> 0` -/
theorem C13_full (cap : Nat) (ops : List (κ × Bytes)) :
    (runOps cap ops).c.full = true ↔ ∃ e, 0 < e ∧ CRes.ok e ∈ (runOps cap ops).results :=
  run_full cap ops

/-! ### satisfiability -/

example :
    let r := runOps 4 [((1 : Nat), [1, 1]), (2, [2]), (1, [7]), (9, [0, 0, 0, 0, 0]), (3, [3, 3])]
    r.results = [.ok 0, .ok 0, .valueAlreadyPresent, .valueLargerThanBuffer, .ok 1] ∧ r.c.full = true ∧
    r.c.len = 2 ∧ contains r.c 1 = .ok false ∧ contains r.c 2 = .ok true := by
  decide

example : (runOps 4 [((1 : Nat), [1, 1]), (2, [2]), (3, [])]).c.full = false := by decide

end BS
