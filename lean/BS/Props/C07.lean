import BS.Lemmas.Lift
import BS.Lemmas.StabGen2
import BS.Lemmas.StabRun
/-
  C07 — prefix / extension stability of the L2 reference decoders (BS/Spec/Decode.lean).

  "If a parse succeeds consuming k bytes, parsing any shorter prefix yields MoreBytesNeeded and parsing those k bytes
   followed by anything yields the same object. If a parse fails with any error other than MoreBytesNeeded, every
   extension of the input fails with that same error; if it fails with MoreBytesNeeded, so does every prefix of it. The
   callbacks delivered on a prefix of an input are a prefix of the callbacks delivered on the whole input."

  A slice is `⟨base, bytes⟩`; "the input `p` followed by `x`" is `⟨b, p ++ x⟩`. For every decoder X:
    C07_extend_ok_X      success on `p`            → on `p ++ x`: same object (same views), same callbacks, remainder grown by `x`
    C07_final_error_X    error ≠ MoreBytesNeeded   → on `p ++ x`: same error, same callbacks
    C07_exact_X          success on `p` consuming k bytes → on `p.take k ++ y`: same object, same callbacks, remainder `y`
                         ("parsing those k bytes followed by anything yields the same object"; needs truncation stability,
                          BS/Lemmas/StabCut*.lean: a decoder never looks at bytes it does not consume)
    C07_mbn_downward_X   MoreBytesNeeded on `p ++ x` → MoreBytesNeeded on `p`
    C07_prefix_of_ok_X   success on `p` consuming k bytes → MoreBytesNeeded on `p.take j` for every `j < k`
    C07_trace_prefix_X   callbacks on `p` are a prefix of the callbacks on `p ++ x` (unconditionally; callback-making decoders only)
    C07_never_panics_X   L2 has no partial operation
    C07_stable_X         the packaged form (`Stab.Stable` / `Stab.StableD`)
  C07_loop_X           extension stability of the counted loops, for every count `n` (relation `Stab.Ext`, BS/Lemmas/Stab.lean)
    C07_delivered_*      the same for what a (possibly breaking) visitor really receives through `D.run`
  Property theorems only; the work is in BS/Lemmas/Stab*.lean (`Ext`, `Ext.bind`, `ext_dec*` extension; `Post`, `post_dec*`
  shape / no panic; `TP`, `tp_dec*` truncation).
-/
namespace BS
open Spec

/-! ## decoders without callbacks -/

/-! ### `decLE w` -/
theorem C07_extend_ok_le (w : Nat) {b : Nat} {p : Bytes} {o : Nat} {rem : Slice}
    (h : decLE w ⟨b, p⟩ = .ok (o, rem)) (x : Bytes) :
    decLE w ⟨b, p ++ x⟩ = .ok (o, ⟨rem.base, rem.bytes ++ x⟩) :=
  Stab.R_extend_ok (f := decLE w) (Stab.ext_decLE w) h x

theorem C07_exact_le (w : Nat) {b : Nat} {p : Bytes} {o : Nat} {rem : Slice}
    (h : decLE w ⟨b, p⟩ = .ok (o, rem)) (y : Bytes) :
    decLE w ⟨b, p.take (p.length - rem.bytes.length) ++ y⟩ = .ok (o, ⟨rem.base, y⟩) :=
  Stab.R_exact (f := decLE w) (Stab.ext_decLE w) (Stab.tp_decLE w) h y

theorem C07_final_error_le (w : Nat) {b : Nat} {p : Bytes} {e : Error}
    (h : decLE w ⟨b, p⟩ = .err e) (hne : e ≠ .moreBytesNeeded) (x : Bytes) :
    decLE w ⟨b, p ++ x⟩ = .err e :=
  (Stab.R_final_error (f := decLE w) (Stab.ext_decLE w) h hne x).trans h

theorem C07_mbn_downward_le (w : Nat) {b : Nat} {p x : Bytes}
    (h : decLE w ⟨b, p ++ x⟩ = .err .moreBytesNeeded) : decLE w ⟨b, p⟩ = .err .moreBytesNeeded :=
  Stab.R_mbn_downward (f := decLE w) (Stab.ext_decLE w) h

theorem C07_prefix_of_ok_le (w : Nat) {b : Nat} {p : Bytes} {o : Nat} {rem : Slice}
    (h : decLE w ⟨b, p⟩ = .ok (o, rem)) (j : Nat) (hj : j < p.length - rem.bytes.length) :
    decLE w ⟨b, p.take j⟩ = .err .moreBytesNeeded :=
  Stab.R_prefix_of_ok (f := decLE w) (Stab.ext_decLE w) h j hj

theorem C07_never_panics_le (w : Nat) (s : Slice) (q : Panic) : decLE w s ≠ .panic q :=
  (Stab.post_decLE w s).1 q

theorem C07_stable_le (w : Nat) : Stab.Stable (decLE w) := Stab.stable_of_ext (Stab.ext_decLE w)

/-! ### `decCompact` -/
theorem C07_extend_ok_compact {b : Nat} {p : Bytes} {o : Nat} {rem : Slice}
    (h : decCompact ⟨b, p⟩ = .ok (o, rem)) (x : Bytes) :
    decCompact ⟨b, p ++ x⟩ = .ok (o, ⟨rem.base, rem.bytes ++ x⟩) :=
  Stab.R_extend_ok Stab.ext_decCompact h x

theorem C07_exact_compact {b : Nat} {p : Bytes} {o : Nat} {rem : Slice}
    (h : decCompact ⟨b, p⟩ = .ok (o, rem)) (y : Bytes) :
    decCompact ⟨b, p.take (p.length - rem.bytes.length) ++ y⟩ = .ok (o, ⟨rem.base, y⟩) :=
  Stab.R_exact Stab.ext_decCompact Stab.tp_decCompact h y

theorem C07_final_error_compact {b : Nat} {p : Bytes} {e : Error}
    (h : decCompact ⟨b, p⟩ = .err e) (hne : e ≠ .moreBytesNeeded) (x : Bytes) :
    decCompact ⟨b, p ++ x⟩ = .err e :=
  (Stab.R_final_error Stab.ext_decCompact h hne x).trans h

theorem C07_mbn_downward_compact {b : Nat} {p x : Bytes}
    (h : decCompact ⟨b, p ++ x⟩ = .err .moreBytesNeeded) : decCompact ⟨b, p⟩ = .err .moreBytesNeeded :=
  Stab.R_mbn_downward Stab.ext_decCompact h

theorem C07_prefix_of_ok_compact {b : Nat} {p : Bytes} {o : Nat} {rem : Slice}
    (h : decCompact ⟨b, p⟩ = .ok (o, rem)) (j : Nat) (hj : j < p.length - rem.bytes.length) :
    decCompact ⟨b, p.take j⟩ = .err .moreBytesNeeded :=
  Stab.R_prefix_of_ok Stab.ext_decCompact h j hj

theorem C07_never_panics_compact (s : Slice) (q : Panic) : decCompact s ≠ .panic q :=
  (Stab.post_decCompact s).1 q

theorem C07_stable_compact : Stab.Stable (decCompact) := Stab.stable_of_ext Stab.ext_decCompact

/-! ### `decScript` -/
theorem C07_extend_ok_script {b : Nat} {p : Bytes} {o : ScriptV} {rem : Slice}
    (h : decScript ⟨b, p⟩ = .ok (o, rem)) (x : Bytes) :
    decScript ⟨b, p ++ x⟩ = .ok (o, ⟨rem.base, rem.bytes ++ x⟩) :=
  Stab.R_extend_ok Stab.ext_decScript h x

theorem C07_exact_script {b : Nat} {p : Bytes} {o : ScriptV} {rem : Slice}
    (h : decScript ⟨b, p⟩ = .ok (o, rem)) (y : Bytes) :
    decScript ⟨b, p.take (p.length - rem.bytes.length) ++ y⟩ = .ok (o, ⟨rem.base, y⟩) :=
  Stab.R_exact Stab.ext_decScript Stab.tp_decScript h y

theorem C07_final_error_script {b : Nat} {p : Bytes} {e : Error}
    (h : decScript ⟨b, p⟩ = .err e) (hne : e ≠ .moreBytesNeeded) (x : Bytes) :
    decScript ⟨b, p ++ x⟩ = .err e :=
  (Stab.R_final_error Stab.ext_decScript h hne x).trans h

theorem C07_mbn_downward_script {b : Nat} {p x : Bytes}
    (h : decScript ⟨b, p ++ x⟩ = .err .moreBytesNeeded) : decScript ⟨b, p⟩ = .err .moreBytesNeeded :=
  Stab.R_mbn_downward Stab.ext_decScript h

theorem C07_prefix_of_ok_script {b : Nat} {p : Bytes} {o : ScriptV} {rem : Slice}
    (h : decScript ⟨b, p⟩ = .ok (o, rem)) (j : Nat) (hj : j < p.length - rem.bytes.length) :
    decScript ⟨b, p.take j⟩ = .err .moreBytesNeeded :=
  Stab.R_prefix_of_ok Stab.ext_decScript h j hj

theorem C07_never_panics_script (s : Slice) (q : Panic) : decScript s ≠ .panic q :=
  (Stab.post_decScript s).1 q

theorem C07_stable_script : Stab.Stable (decScript) := Stab.stable_of_ext Stab.ext_decScript

/-! ### `decOutPoint` -/
theorem C07_extend_ok_outpoint {b : Nat} {p : Bytes} {o : OutPointV} {rem : Slice}
    (h : decOutPoint ⟨b, p⟩ = .ok (o, rem)) (x : Bytes) :
    decOutPoint ⟨b, p ++ x⟩ = .ok (o, ⟨rem.base, rem.bytes ++ x⟩) :=
  Stab.R_extend_ok Stab.ext_decOutPoint h x

theorem C07_exact_outpoint {b : Nat} {p : Bytes} {o : OutPointV} {rem : Slice}
    (h : decOutPoint ⟨b, p⟩ = .ok (o, rem)) (y : Bytes) :
    decOutPoint ⟨b, p.take (p.length - rem.bytes.length) ++ y⟩ = .ok (o, ⟨rem.base, y⟩) :=
  Stab.R_exact Stab.ext_decOutPoint Stab.tp_decOutPoint h y

theorem C07_final_error_outpoint {b : Nat} {p : Bytes} {e : Error}
    (h : decOutPoint ⟨b, p⟩ = .err e) (hne : e ≠ .moreBytesNeeded) (x : Bytes) :
    decOutPoint ⟨b, p ++ x⟩ = .err e :=
  (Stab.R_final_error Stab.ext_decOutPoint h hne x).trans h

theorem C07_mbn_downward_outpoint {b : Nat} {p x : Bytes}
    (h : decOutPoint ⟨b, p ++ x⟩ = .err .moreBytesNeeded) : decOutPoint ⟨b, p⟩ = .err .moreBytesNeeded :=
  Stab.R_mbn_downward Stab.ext_decOutPoint h

theorem C07_prefix_of_ok_outpoint {b : Nat} {p : Bytes} {o : OutPointV} {rem : Slice}
    (h : decOutPoint ⟨b, p⟩ = .ok (o, rem)) (j : Nat) (hj : j < p.length - rem.bytes.length) :
    decOutPoint ⟨b, p.take j⟩ = .err .moreBytesNeeded :=
  Stab.R_prefix_of_ok Stab.ext_decOutPoint h j hj

theorem C07_never_panics_outpoint (s : Slice) (q : Panic) : decOutPoint s ≠ .panic q :=
  (Stab.post_decOutPoint s).1 q

theorem C07_stable_outpoint : Stab.Stable (decOutPoint) := Stab.stable_of_ext Stab.ext_decOutPoint

/-! ### `decTxIn` -/
theorem C07_extend_ok_txin {b : Nat} {p : Bytes} {o : TxInV} {rem : Slice}
    (h : decTxIn ⟨b, p⟩ = .ok (o, rem)) (x : Bytes) :
    decTxIn ⟨b, p ++ x⟩ = .ok (o, ⟨rem.base, rem.bytes ++ x⟩) :=
  Stab.R_extend_ok Stab.ext_decTxIn h x

theorem C07_exact_txin {b : Nat} {p : Bytes} {o : TxInV} {rem : Slice}
    (h : decTxIn ⟨b, p⟩ = .ok (o, rem)) (y : Bytes) :
    decTxIn ⟨b, p.take (p.length - rem.bytes.length) ++ y⟩ = .ok (o, ⟨rem.base, y⟩) :=
  Stab.R_exact Stab.ext_decTxIn Stab.tp_decTxIn h y

theorem C07_final_error_txin {b : Nat} {p : Bytes} {e : Error}
    (h : decTxIn ⟨b, p⟩ = .err e) (hne : e ≠ .moreBytesNeeded) (x : Bytes) :
    decTxIn ⟨b, p ++ x⟩ = .err e :=
  (Stab.R_final_error Stab.ext_decTxIn h hne x).trans h

theorem C07_mbn_downward_txin {b : Nat} {p x : Bytes}
    (h : decTxIn ⟨b, p ++ x⟩ = .err .moreBytesNeeded) : decTxIn ⟨b, p⟩ = .err .moreBytesNeeded :=
  Stab.R_mbn_downward Stab.ext_decTxIn h

theorem C07_prefix_of_ok_txin {b : Nat} {p : Bytes} {o : TxInV} {rem : Slice}
    (h : decTxIn ⟨b, p⟩ = .ok (o, rem)) (j : Nat) (hj : j < p.length - rem.bytes.length) :
    decTxIn ⟨b, p.take j⟩ = .err .moreBytesNeeded :=
  Stab.R_prefix_of_ok Stab.ext_decTxIn h j hj

theorem C07_never_panics_txin (s : Slice) (q : Panic) : decTxIn s ≠ .panic q :=
  (Stab.post_decTxIn s).1 q

theorem C07_stable_txin : Stab.Stable (decTxIn) := Stab.stable_of_ext Stab.ext_decTxIn

/-! ### `decTxOut` -/
theorem C07_extend_ok_txout {b : Nat} {p : Bytes} {o : TxOutV} {rem : Slice}
    (h : decTxOut ⟨b, p⟩ = .ok (o, rem)) (x : Bytes) :
    decTxOut ⟨b, p ++ x⟩ = .ok (o, ⟨rem.base, rem.bytes ++ x⟩) :=
  Stab.R_extend_ok Stab.ext_decTxOut h x

theorem C07_exact_txout {b : Nat} {p : Bytes} {o : TxOutV} {rem : Slice}
    (h : decTxOut ⟨b, p⟩ = .ok (o, rem)) (y : Bytes) :
    decTxOut ⟨b, p.take (p.length - rem.bytes.length) ++ y⟩ = .ok (o, ⟨rem.base, y⟩) :=
  Stab.R_exact Stab.ext_decTxOut Stab.tp_decTxOut h y

theorem C07_final_error_txout {b : Nat} {p : Bytes} {e : Error}
    (h : decTxOut ⟨b, p⟩ = .err e) (hne : e ≠ .moreBytesNeeded) (x : Bytes) :
    decTxOut ⟨b, p ++ x⟩ = .err e :=
  (Stab.R_final_error Stab.ext_decTxOut h hne x).trans h

theorem C07_mbn_downward_txout {b : Nat} {p x : Bytes}
    (h : decTxOut ⟨b, p ++ x⟩ = .err .moreBytesNeeded) : decTxOut ⟨b, p⟩ = .err .moreBytesNeeded :=
  Stab.R_mbn_downward Stab.ext_decTxOut h

theorem C07_prefix_of_ok_txout {b : Nat} {p : Bytes} {o : TxOutV} {rem : Slice}
    (h : decTxOut ⟨b, p⟩ = .ok (o, rem)) (j : Nat) (hj : j < p.length - rem.bytes.length) :
    decTxOut ⟨b, p.take j⟩ = .err .moreBytesNeeded :=
  Stab.R_prefix_of_ok Stab.ext_decTxOut h j hj

theorem C07_never_panics_txout (s : Slice) (q : Panic) : decTxOut s ≠ .panic q :=
  (Stab.post_decTxOut s).1 q

theorem C07_stable_txout : Stab.Stable (decTxOut) := Stab.stable_of_ext Stab.ext_decTxOut

/-! ## decoders with callbacks -/

/-! ### `decTxIns ·` -/
theorem C07_extend_ok_txins {b : Nat} {p : Bytes} {o : TxInsV} {rem : Slice}
    (h : (decTxIns ⟨b, p⟩).res = .ok (o, rem)) (x : Bytes) :
    decTxIns ⟨b, p ++ x⟩ = ⟨(decTxIns ⟨b, p⟩).trace, .ok (o, ⟨rem.base, rem.bytes ++ x⟩)⟩ :=
  Stab.D_extend_ok Stab.ext_decTxIns h x

theorem C07_exact_txins {b : Nat} {p : Bytes} {o : TxInsV} {rem : Slice}
    (h : (decTxIns ⟨b, p⟩).res = .ok (o, rem)) (y : Bytes) :
    decTxIns ⟨b, p.take (p.length - rem.bytes.length) ++ y⟩ = ⟨(decTxIns ⟨b, p⟩).trace, .ok (o, ⟨rem.base, y⟩)⟩ :=
  Stab.D_exact Stab.ext_decTxIns Stab.tp_decTxIns h y

theorem C07_final_error_txins {b : Nat} {p : Bytes} {e : Error}
    (h : (decTxIns ⟨b, p⟩).res = .err e) (hne : e ≠ .moreBytesNeeded) (x : Bytes) :
    decTxIns ⟨b, p ++ x⟩ = decTxIns ⟨b, p⟩ :=
  Stab.D_final_error Stab.ext_decTxIns h hne x

theorem C07_mbn_downward_txins {b : Nat} {p x : Bytes}
    (h : (decTxIns ⟨b, p ++ x⟩).res = .err .moreBytesNeeded) : (decTxIns ⟨b, p⟩).res = .err .moreBytesNeeded :=
  Stab.D_mbn_downward Stab.ext_decTxIns h

theorem C07_prefix_of_ok_txins {b : Nat} {p : Bytes} {o : TxInsV} {rem : Slice}
    (h : (decTxIns ⟨b, p⟩).res = .ok (o, rem)) (j : Nat) (hj : j < p.length - rem.bytes.length) :
    (decTxIns ⟨b, p.take j⟩).res = .err .moreBytesNeeded :=
  Stab.D_prefix_of_ok Stab.ext_decTxIns h j hj

theorem C07_trace_prefix_txins (b : Nat) (p x : Bytes) :
    (decTxIns ⟨b, p⟩).trace <+: (decTxIns ⟨b, p ++ x⟩).trace :=
  Stab.D_trace_prefix Stab.ext_decTxIns b p x

theorem C07_never_panics_txins (s : Slice) (q : Panic) : (decTxIns s).res ≠ .panic q :=
  (Stab.post_decTxIns s).1 q

theorem C07_stable_txins : Stab.StableD decTxIns := Stab.stableD_of_ext Stab.ext_decTxIns

/-! ### `decTxOuts ·` -/
theorem C07_extend_ok_txouts {b : Nat} {p : Bytes} {o : TxOutsV} {rem : Slice}
    (h : (decTxOuts ⟨b, p⟩).res = .ok (o, rem)) (x : Bytes) :
    decTxOuts ⟨b, p ++ x⟩ = ⟨(decTxOuts ⟨b, p⟩).trace, .ok (o, ⟨rem.base, rem.bytes ++ x⟩)⟩ :=
  Stab.D_extend_ok Stab.ext_decTxOuts h x

theorem C07_exact_txouts {b : Nat} {p : Bytes} {o : TxOutsV} {rem : Slice}
    (h : (decTxOuts ⟨b, p⟩).res = .ok (o, rem)) (y : Bytes) :
    decTxOuts ⟨b, p.take (p.length - rem.bytes.length) ++ y⟩ = ⟨(decTxOuts ⟨b, p⟩).trace, .ok (o, ⟨rem.base, y⟩)⟩ :=
  Stab.D_exact Stab.ext_decTxOuts Stab.tp_decTxOuts h y

theorem C07_final_error_txouts {b : Nat} {p : Bytes} {e : Error}
    (h : (decTxOuts ⟨b, p⟩).res = .err e) (hne : e ≠ .moreBytesNeeded) (x : Bytes) :
    decTxOuts ⟨b, p ++ x⟩ = decTxOuts ⟨b, p⟩ :=
  Stab.D_final_error Stab.ext_decTxOuts h hne x

theorem C07_mbn_downward_txouts {b : Nat} {p x : Bytes}
    (h : (decTxOuts ⟨b, p ++ x⟩).res = .err .moreBytesNeeded) : (decTxOuts ⟨b, p⟩).res = .err .moreBytesNeeded :=
  Stab.D_mbn_downward Stab.ext_decTxOuts h

theorem C07_prefix_of_ok_txouts {b : Nat} {p : Bytes} {o : TxOutsV} {rem : Slice}
    (h : (decTxOuts ⟨b, p⟩).res = .ok (o, rem)) (j : Nat) (hj : j < p.length - rem.bytes.length) :
    (decTxOuts ⟨b, p.take j⟩).res = .err .moreBytesNeeded :=
  Stab.D_prefix_of_ok Stab.ext_decTxOuts h j hj

theorem C07_trace_prefix_txouts (b : Nat) (p x : Bytes) :
    (decTxOuts ⟨b, p⟩).trace <+: (decTxOuts ⟨b, p ++ x⟩).trace :=
  Stab.D_trace_prefix Stab.ext_decTxOuts b p x

theorem C07_never_panics_txouts (s : Slice) (q : Panic) : (decTxOuts s).res ≠ .panic q :=
  (Stab.post_decTxOuts s).1 q

theorem C07_stable_txouts : Stab.StableD decTxOuts := Stab.stableD_of_ext Stab.ext_decTxOuts

/-! ### `decWitnesses · n` -/
theorem C07_extend_ok_witnesses (n : Nat) {b : Nat} {p : Bytes} {o : WitnessesV} {rem : Slice}
    (h : (decWitnesses ⟨b, p⟩ n).res = .ok (o, rem)) (x : Bytes) :
    decWitnesses ⟨b, p ++ x⟩ n = ⟨(decWitnesses ⟨b, p⟩ n).trace, .ok (o, ⟨rem.base, rem.bytes ++ x⟩)⟩ :=
  Stab.D_extend_ok (d := fun s => decWitnesses s n) (Stab.ext_decWitnesses n) h x

theorem C07_exact_witnesses (n : Nat) {b : Nat} {p : Bytes} {o : WitnessesV} {rem : Slice}
    (h : (decWitnesses ⟨b, p⟩ n).res = .ok (o, rem)) (y : Bytes) :
    decWitnesses ⟨b, p.take (p.length - rem.bytes.length) ++ y⟩ n = ⟨(decWitnesses ⟨b, p⟩ n).trace, .ok (o, ⟨rem.base, y⟩)⟩ :=
  Stab.D_exact (d := fun s => decWitnesses s n) (Stab.ext_decWitnesses n) (Stab.tp_decWitnesses n) h y

theorem C07_final_error_witnesses (n : Nat) {b : Nat} {p : Bytes} {e : Error}
    (h : (decWitnesses ⟨b, p⟩ n).res = .err e) (hne : e ≠ .moreBytesNeeded) (x : Bytes) :
    decWitnesses ⟨b, p ++ x⟩ n = decWitnesses ⟨b, p⟩ n :=
  Stab.D_final_error (d := fun s => decWitnesses s n) (Stab.ext_decWitnesses n) h hne x

theorem C07_mbn_downward_witnesses (n : Nat) {b : Nat} {p x : Bytes}
    (h : (decWitnesses ⟨b, p ++ x⟩ n).res = .err .moreBytesNeeded) : (decWitnesses ⟨b, p⟩ n).res = .err .moreBytesNeeded :=
  Stab.D_mbn_downward (d := fun s => decWitnesses s n) (Stab.ext_decWitnesses n) h

theorem C07_prefix_of_ok_witnesses (n : Nat) {b : Nat} {p : Bytes} {o : WitnessesV} {rem : Slice}
    (h : (decWitnesses ⟨b, p⟩ n).res = .ok (o, rem)) (j : Nat) (hj : j < p.length - rem.bytes.length) :
    (decWitnesses ⟨b, p.take j⟩ n).res = .err .moreBytesNeeded :=
  Stab.D_prefix_of_ok (d := fun s => decWitnesses s n) (Stab.ext_decWitnesses n) h j hj

theorem C07_trace_prefix_witnesses (n : Nat) (b : Nat) (p x : Bytes) :
    (decWitnesses ⟨b, p⟩ n).trace <+: (decWitnesses ⟨b, p ++ x⟩ n).trace :=
  Stab.D_trace_prefix (d := fun s => decWitnesses s n) (Stab.ext_decWitnesses n) b p x

theorem C07_never_panics_witnesses (n : Nat) (s : Slice) (q : Panic) : (decWitnesses s n).res ≠ .panic q :=
  (Stab.post_decWitnesses n s).1 q

theorem C07_stable_witnesses (n : Nat) : Stab.StableD (fun s => decWitnesses s n) := Stab.stableD_of_ext (Stab.ext_decWitnesses n)

/-! ### `decTransaction ·` -/
theorem C07_extend_ok_transaction {b : Nat} {p : Bytes} {o : TxV} {rem : Slice}
    (h : (decTransaction ⟨b, p⟩).res = .ok (o, rem)) (x : Bytes) :
    decTransaction ⟨b, p ++ x⟩ = ⟨(decTransaction ⟨b, p⟩).trace, .ok (o, ⟨rem.base, rem.bytes ++ x⟩)⟩ :=
  Stab.D_extend_ok Stab.ext_decTransaction h x

theorem C07_exact_transaction {b : Nat} {p : Bytes} {o : TxV} {rem : Slice}
    (h : (decTransaction ⟨b, p⟩).res = .ok (o, rem)) (y : Bytes) :
    decTransaction ⟨b, p.take (p.length - rem.bytes.length) ++ y⟩ = ⟨(decTransaction ⟨b, p⟩).trace, .ok (o, ⟨rem.base, y⟩)⟩ :=
  Stab.D_exact Stab.ext_decTransaction Stab.tp_decTransaction h y

theorem C07_final_error_transaction {b : Nat} {p : Bytes} {e : Error}
    (h : (decTransaction ⟨b, p⟩).res = .err e) (hne : e ≠ .moreBytesNeeded) (x : Bytes) :
    decTransaction ⟨b, p ++ x⟩ = decTransaction ⟨b, p⟩ :=
  Stab.D_final_error Stab.ext_decTransaction h hne x

theorem C07_mbn_downward_transaction {b : Nat} {p x : Bytes}
    (h : (decTransaction ⟨b, p ++ x⟩).res = .err .moreBytesNeeded) : (decTransaction ⟨b, p⟩).res = .err .moreBytesNeeded :=
  Stab.D_mbn_downward Stab.ext_decTransaction h

theorem C07_prefix_of_ok_transaction {b : Nat} {p : Bytes} {o : TxV} {rem : Slice}
    (h : (decTransaction ⟨b, p⟩).res = .ok (o, rem)) (j : Nat) (hj : j < p.length - rem.bytes.length) :
    (decTransaction ⟨b, p.take j⟩).res = .err .moreBytesNeeded :=
  Stab.D_prefix_of_ok Stab.ext_decTransaction h j hj

theorem C07_trace_prefix_transaction (b : Nat) (p x : Bytes) :
    (decTransaction ⟨b, p⟩).trace <+: (decTransaction ⟨b, p ++ x⟩).trace :=
  Stab.D_trace_prefix Stab.ext_decTransaction b p x

theorem C07_never_panics_transaction (s : Slice) (q : Panic) : (decTransaction s).res ≠ .panic q :=
  (Stab.post_decTransaction s).1 q

theorem C07_stable_transaction : Stab.StableD decTransaction := Stab.stableD_of_ext Stab.ext_decTransaction

/-! ### `decHeader ·` -/
theorem C07_extend_ok_header {b : Nat} {p : Bytes} {o : HeaderV} {rem : Slice}
    (h : (decHeader ⟨b, p⟩).res = .ok (o, rem)) (x : Bytes) :
    decHeader ⟨b, p ++ x⟩ = ⟨(decHeader ⟨b, p⟩).trace, .ok (o, ⟨rem.base, rem.bytes ++ x⟩)⟩ :=
  Stab.D_extend_ok Stab.ext_decHeader h x

theorem C07_exact_header {b : Nat} {p : Bytes} {o : HeaderV} {rem : Slice}
    (h : (decHeader ⟨b, p⟩).res = .ok (o, rem)) (y : Bytes) :
    decHeader ⟨b, p.take (p.length - rem.bytes.length) ++ y⟩ = ⟨(decHeader ⟨b, p⟩).trace, .ok (o, ⟨rem.base, y⟩)⟩ :=
  Stab.D_exact Stab.ext_decHeader Stab.tp_decHeader h y

theorem C07_final_error_header {b : Nat} {p : Bytes} {e : Error}
    (h : (decHeader ⟨b, p⟩).res = .err e) (hne : e ≠ .moreBytesNeeded) (x : Bytes) :
    decHeader ⟨b, p ++ x⟩ = decHeader ⟨b, p⟩ :=
  Stab.D_final_error Stab.ext_decHeader h hne x

theorem C07_mbn_downward_header {b : Nat} {p x : Bytes}
    (h : (decHeader ⟨b, p ++ x⟩).res = .err .moreBytesNeeded) : (decHeader ⟨b, p⟩).res = .err .moreBytesNeeded :=
  Stab.D_mbn_downward Stab.ext_decHeader h

theorem C07_prefix_of_ok_header {b : Nat} {p : Bytes} {o : HeaderV} {rem : Slice}
    (h : (decHeader ⟨b, p⟩).res = .ok (o, rem)) (j : Nat) (hj : j < p.length - rem.bytes.length) :
    (decHeader ⟨b, p.take j⟩).res = .err .moreBytesNeeded :=
  Stab.D_prefix_of_ok Stab.ext_decHeader h j hj

theorem C07_trace_prefix_header (b : Nat) (p x : Bytes) :
    (decHeader ⟨b, p⟩).trace <+: (decHeader ⟨b, p ++ x⟩).trace :=
  Stab.D_trace_prefix Stab.ext_decHeader b p x

theorem C07_never_panics_header (s : Slice) (q : Panic) : (decHeader s).res ≠ .panic q :=
  (Stab.post_decHeader s).1 q

theorem C07_stable_header : Stab.StableD decHeader := Stab.stableD_of_ext Stab.ext_decHeader

/-! ### `decBlock ·` -/
theorem C07_extend_ok_block {b : Nat} {p : Bytes} {o : BlockV} {rem : Slice}
    (h : (decBlock ⟨b, p⟩).res = .ok (o, rem)) (x : Bytes) :
    decBlock ⟨b, p ++ x⟩ = ⟨(decBlock ⟨b, p⟩).trace, .ok (o, ⟨rem.base, rem.bytes ++ x⟩)⟩ :=
  Stab.D_extend_ok Stab.ext_decBlock h x

theorem C07_exact_block {b : Nat} {p : Bytes} {o : BlockV} {rem : Slice}
    (h : (decBlock ⟨b, p⟩).res = .ok (o, rem)) (y : Bytes) :
    decBlock ⟨b, p.take (p.length - rem.bytes.length) ++ y⟩ = ⟨(decBlock ⟨b, p⟩).trace, .ok (o, ⟨rem.base, y⟩)⟩ :=
  Stab.D_exact Stab.ext_decBlock Stab.tp_decBlock h y

theorem C07_final_error_block {b : Nat} {p : Bytes} {e : Error}
    (h : (decBlock ⟨b, p⟩).res = .err e) (hne : e ≠ .moreBytesNeeded) (x : Bytes) :
    decBlock ⟨b, p ++ x⟩ = decBlock ⟨b, p⟩ :=
  Stab.D_final_error Stab.ext_decBlock h hne x

theorem C07_mbn_downward_block {b : Nat} {p x : Bytes}
    (h : (decBlock ⟨b, p ++ x⟩).res = .err .moreBytesNeeded) : (decBlock ⟨b, p⟩).res = .err .moreBytesNeeded :=
  Stab.D_mbn_downward Stab.ext_decBlock h

theorem C07_prefix_of_ok_block {b : Nat} {p : Bytes} {o : BlockV} {rem : Slice}
    (h : (decBlock ⟨b, p⟩).res = .ok (o, rem)) (j : Nat) (hj : j < p.length - rem.bytes.length) :
    (decBlock ⟨b, p.take j⟩).res = .err .moreBytesNeeded :=
  Stab.D_prefix_of_ok Stab.ext_decBlock h j hj

theorem C07_trace_prefix_block (b : Nat) (p x : Bytes) :
    (decBlock ⟨b, p⟩).trace <+: (decBlock ⟨b, p ++ x⟩).trace :=
  Stab.D_trace_prefix Stab.ext_decBlock b p x

theorem C07_never_panics_block (s : Slice) (q : Panic) : (decBlock s).res ≠ .panic q :=
  (Stab.post_decBlock s).1 q

theorem C07_stable_block : Stab.StableD decBlock := Stab.stableD_of_ext Stab.ext_decBlock

/-! ### `decWitness ·` (object, "has no elements" flag, remainder) -/
theorem C07_extend_ok_witness {b : Nat} {p : Bytes} {o : WitnessV} {em : Bool} {rem : Slice}
    (h : (decWitness ⟨b, p⟩).res = .ok (o, em, rem)) (x : Bytes) :
    decWitness ⟨b, p ++ x⟩ = ⟨(decWitness ⟨b, p⟩).trace, .ok (o, em, ⟨rem.base, rem.bytes ++ x⟩)⟩ :=
  (Stab.stableG_triple Stab.ext_decWitness).extend_ok h x

theorem C07_exact_witness {b : Nat} {p : Bytes} {o : WitnessV} {em : Bool} {rem : Slice}
    (h : (decWitness ⟨b, p⟩).res = .ok (o, em, rem)) (y : Bytes) :
    decWitness ⟨b, p.take (p.length - rem.bytes.length) ++ y⟩
      = ⟨(decWitness ⟨b, p⟩).trace, .ok (o, em, ⟨rem.base, y⟩)⟩ :=
  Stab.W_exact h y

theorem C07_final_error_witness {b : Nat} {p : Bytes} {e : Error}
    (h : (decWitness ⟨b, p⟩).res = .err e) (hne : e ≠ .moreBytesNeeded) (x : Bytes) :
    decWitness ⟨b, p ++ x⟩ = decWitness ⟨b, p⟩ :=
  (Stab.stableG_triple Stab.ext_decWitness).final_error h hne x

theorem C07_mbn_downward_witness {b : Nat} {p x : Bytes}
    (h : (decWitness ⟨b, p ++ x⟩).res = .err .moreBytesNeeded) : (decWitness ⟨b, p⟩).res = .err .moreBytesNeeded :=
  (Stab.stableG_triple Stab.ext_decWitness).mbn_downward (s := ⟨b, p⟩) h

theorem C07_prefix_of_ok_witness {b : Nat} {p : Bytes} {o : WitnessV} {em : Bool} {rem : Slice}
    (h : (decWitness ⟨b, p⟩).res = .ok (o, em, rem)) (j : Nat) (hj : j < p.length - rem.bytes.length) :
    (decWitness ⟨b, p.take j⟩).res = .err .moreBytesNeeded :=
  (Stab.stableG_triple Stab.ext_decWitness).prefix_of_ok h j hj

theorem C07_trace_prefix_witness (b : Nat) (p x : Bytes) :
    (decWitness ⟨b, p⟩).trace <+: (decWitness ⟨b, p ++ x⟩).trace :=
  (Stab.stableG_triple Stab.ext_decWitness).trace_prefix ⟨b, p⟩ x

theorem C07_never_panics_witness (s : Slice) (q : Panic) : (decWitness s).res ≠ .panic q :=
  (Stab.post_decWitness s).1 q

/-! ## the counted loops, for every count

  `Stab.Ext e d d'`: if `d` did not stop with `MoreBytesNeeded` then `d'` has the same callbacks and the result `e`-mapped
  (here: remainder grown by `x`); if it did, the callbacks of `d` are a prefix of those of `d'`. -/

theorem C07_loop_txins (n i : Nat) (s : Slice) (x : Bytes) :
    Stab.Ext (fun r => Stab.extS r x) (decTxInsLoop n i s) (decTxInsLoop n i (Stab.extS s x)) :=
  Stab.ext_decTxInsLoop n i s x

theorem C07_loop_txouts (n i : Nat) (s : Slice) (x : Bytes) :
    Stab.Ext (fun r => Stab.extS r x) (decTxOutsLoop n i s) (decTxOutsLoop n i (Stab.extS s x)) :=
  Stab.ext_decTxOutsLoop n i s x

theorem C07_loop_witness (n i : Nat) (s : Slice) (x : Bytes) :
    Stab.Ext (fun r => Stab.extS r x) (decWitnessLoop n i s) (decWitnessLoop n i (Stab.extS s x)) :=
  Stab.ext_decWitnessLoop n i s x

theorem C07_loop_witnesses (n i : Nat) (s : Slice) (allEmpty : Bool) (x : Bytes) :
    Stab.Ext (fun p => (Stab.extS p.1 x, p.2)) (decWitnessesLoop n i s allEmpty) (decWitnessesLoop n i (Stab.extS s x) allEmpty) :=
  Stab.ext_decWitnessesLoop n i s allEmpty x

theorem C07_loop_block (n : Nat) (s : Slice) (x : Bytes) :
    Stab.Ext (fun r => Stab.extS r x) (decBlockLoop n s) (decBlockLoop n (Stab.extS s x)) :=
  Stab.ext_decBlockLoop n s x

/-! ## what a visitor receives

  `D.run d v st = replay v st d.trace d.res` feeds the callbacks to the visitor and stops at the first `Break`;
  `Stab.delivered v st t` is the list of calls really made (`C07_delivered_faithful`: the visitor's final state is the state
  after exactly these calls; `Stab.replay_res`: the answer is `VisitBreak` iff one of them broke). -/

theorem C07_delivered_faithful {σ α : Type} (d : D α) (v : Visitor σ) (st : σ) :
    (d.run v st).1 = (Stab.delivered v st d.trace).foldl (fun s e => (v.step s e).1) st :=
  Stab.replay_state v st d.trace d.res

/-- whatever the visitor does (including breaking), the calls it receives on a shorter callback sequence are a prefix of
    the calls it receives on a longer one -/
theorem C07_delivered_mono {σ : Type} (v : Visitor σ) (st : σ) {t1 t2 : List Event} (h : t1 <+: t2) :
    Stab.delivered v st t1 <+: Stab.delivered v st t2 :=
  Stab.delivered_prefix v st h

theorem C07_delivered_prefix_txins {σ : Type} (v : Visitor σ) (st : σ) (b : Nat) (p x : Bytes) :
    Stab.delivered v st (decTxIns ⟨b, p⟩).trace <+: Stab.delivered v st (decTxIns ⟨b, p ++ x⟩).trace :=
  Stab.delivered_prefix v st (C07_trace_prefix_txins b p x)

theorem C07_delivered_prefix_txouts {σ : Type} (v : Visitor σ) (st : σ) (b : Nat) (p x : Bytes) :
    Stab.delivered v st (decTxOuts ⟨b, p⟩).trace <+: Stab.delivered v st (decTxOuts ⟨b, p ++ x⟩).trace :=
  Stab.delivered_prefix v st (C07_trace_prefix_txouts b p x)

theorem C07_delivered_prefix_witnesses {σ : Type} (v : Visitor σ) (st : σ) (n : Nat) (b : Nat) (p x : Bytes) :
    Stab.delivered v st (decWitnesses ⟨b, p⟩ n).trace <+: Stab.delivered v st (decWitnesses ⟨b, p ++ x⟩ n).trace :=
  Stab.delivered_prefix v st (C07_trace_prefix_witnesses n b p x)

theorem C07_delivered_prefix_transaction {σ : Type} (v : Visitor σ) (st : σ) (b : Nat) (p x : Bytes) :
    Stab.delivered v st (decTransaction ⟨b, p⟩).trace <+: Stab.delivered v st (decTransaction ⟨b, p ++ x⟩).trace :=
  Stab.delivered_prefix v st (C07_trace_prefix_transaction b p x)

theorem C07_delivered_prefix_header {σ : Type} (v : Visitor σ) (st : σ) (b : Nat) (p x : Bytes) :
    Stab.delivered v st (decHeader ⟨b, p⟩).trace <+: Stab.delivered v st (decHeader ⟨b, p ++ x⟩).trace :=
  Stab.delivered_prefix v st (C07_trace_prefix_header b p x)

theorem C07_delivered_prefix_block {σ : Type} (v : Visitor σ) (st : σ) (b : Nat) (p x : Bytes) :
    Stab.delivered v st (decBlock ⟨b, p⟩).trace <+: Stab.delivered v st (decBlock ⟨b, p ++ x⟩).trace :=
  Stab.delivered_prefix v st (C07_trace_prefix_block b p x)

theorem C07_delivered_prefix_witness {σ : Type} (v : Visitor σ) (st : σ) (b : Nat) (p x : Bytes) :
    Stab.delivered v st (decWitness ⟨b, p⟩).trace <+: Stab.delivered v st (decWitness ⟨b, p ++ x⟩).trace :=
  Stab.delivered_prefix v st (C07_trace_prefix_witness b p x)

/-- with the recording visitor (never breaks; log newest first): the log of a prefix is the older part of the log of the whole -/
theorem C07_recorder_prefix_transaction (b : Nat) (p x : Bytes) :
    ((decTransaction ⟨b, p⟩).run recorder []).1.reverse <+: ((decTransaction ⟨b, p ++ x⟩).run recorder []).1.reverse := by
  simp only [D.run, Stab.replay_recorder, List.append_nil, List.reverse_reverse]
  exact C07_trace_prefix_transaction b p x

theorem C07_recorder_prefix_block (b : Nat) (p x : Bytes) :
    ((decBlock ⟨b, p⟩).run recorder []).1.reverse <+: ((decBlock ⟨b, p ++ x⟩).run recorder []).1.reverse := by
  simp only [D.run, Stab.replay_recorder, List.append_nil, List.reverse_reverse]
  exact C07_trace_prefix_block b p x

/-! ## non-vacuity: the hypotheses are met by concrete inputs -/

/-- a 60-byte legacy transaction: version 1, one input (empty script), one output (empty script), locktime 0 -/
def C07_exTx : Bytes :=
  [1,0,0,0, 1] ++ List.replicate 36 7 ++ [0, 0xFF,0xFF,0xFF,0xFF, 1, 5,0,0,0,0,0,0,0, 0, 0,0,0,0]

/-- a 65-byte segwit transaction: marker 0, flag 1, one input, one output, one witness with one 1-byte element -/
def C07_exSegwit : Bytes :=
  [2,0,0,0, 0, 1, 1] ++ List.replicate 36 9 ++ [0, 0xFE,0xFF,0xFF,0xFF, 1, 5,0,0,0,0,0,0,0, 0, 1, 1, 0xAB, 0,0,0,0]

-- success (hypothesis of `C07_extend_ok_transaction` / `C07_prefix_of_ok_transaction`), at a non-zero base offset
example : (decTransaction ⟨10, C07_exTx⟩).res = .ok (⟨⟨10, C07_exTx⟩, none⟩, ⟨70, []⟩) := by decide
example : (decTransaction ⟨10, C07_exTx⟩).trace.length = 5 := by decide
example : (decTransaction ⟨0, C07_exSegwit ++ [1, 2, 3]⟩).res
    = .ok (⟨⟨0, C07_exSegwit⟩, some 52⟩, ⟨C07_exSegwit.length, [1, 2, 3]⟩) := by decide
example : (decTransaction ⟨0, C07_exSegwit⟩).trace.length = 10 := by decide
-- a final error (hypothesis of `C07_final_error_*`)
example : (decTransaction ⟨0, [1,0,0,0, 0, 2]⟩).res = .err (.unknownSegwitFlag 2) := by decide
example : decCompact ⟨0, [0xFD, 1, 0]⟩ = .err .nonMinimalVarInt := by decide
example : (decTransaction ⟨0, [2,0,0,0, 0, 1, 1] ++ List.replicate 36 9 ++ [0, 0xFE,0xFF,0xFF,0xFF, 0, 0]⟩).res
    = .err .segwitFlagWithoutWitnesses := by decide
-- MoreBytesNeeded with some callbacks already made (hypothesis of `C07_mbn_downward_*`, strict case of `C07_trace_prefix_*`)
example : (decTransaction ⟨0, C07_exTx.take 50⟩).res = .err .moreBytesNeeded := by decide
example : (decTransaction ⟨0, C07_exTx.take 50⟩).trace.length = 3 := by decide
-- a block: header, two transactions
example : ((decBlock ⟨0, List.replicate 80 0 ++ [2] ++ C07_exTx ++ C07_exSegwit ++ [0xEE]⟩).res.map' (fun r => (r.1.totalTxs, r.2)))
    = .ok (2, ⟨206, [0xEE]⟩) := by decide +kernel/-! ## L1 corollaries (generated by tools/genlift.py) -/
section L1
open BS.Ref BS.Lift

theorem C07_L1_extend_ok_txins {b : Nat} {p x : Bytes} {o : TxInsV} {rem : Slice} (hp : p.length < 2 ^ 62) (hpx : (p ++ x).length < 2 ^ 62) 
    (h : parseOf (TxIns.visit ⟨b, p⟩) = .ok (o, rem)) :
    parseOf (TxIns.visit ⟨b, p ++ x⟩) = .ok (o, ⟨rem.base, rem.bytes ++ x⟩) := by
  rw [parseOf_txins _ (by simpa [Slice.len] using hp)] at h
  rw [parseOf_txins _ (by simpa [Slice.len] using hpx), C07_extend_ok_txins h x]

theorem C07_L1_final_error_txins {b : Nat} {p x : Bytes} {e : Error} (hp : p.length < 2 ^ 62) (hpx : (p ++ x).length < 2 ^ 62) 
    (h : parseOf (TxIns.visit ⟨b, p⟩) = .err e) (hne : e ≠ .moreBytesNeeded) :
    parseOf (TxIns.visit ⟨b, p ++ x⟩) = .err e := by
  rw [parseOf_txins _ (by simpa [Slice.len] using hp)] at h
  rw [parseOf_txins _ (by simpa [Slice.len] using hpx), C07_final_error_txins h hne x, h]

theorem C07_L1_mbn_downward_txins {b : Nat} {p x : Bytes} (hp : p.length < 2 ^ 62) (hpx : (p ++ x).length < 2 ^ 62) 
    (h : parseOf (TxIns.visit ⟨b, p ++ x⟩) = .err .moreBytesNeeded) :
    parseOf (TxIns.visit ⟨b, p⟩) = .err .moreBytesNeeded := by
  rw [parseOf_txins _ (by simpa [Slice.len] using hpx)] at h
  rw [parseOf_txins _ (by simpa [Slice.len] using hp)]; exact C07_mbn_downward_txins h

theorem C07_L1_prefix_of_ok_txins {b : Nat} {p : Bytes} {o : TxInsV} {rem : Slice} (hp : p.length < 2 ^ 62) 
    (h : parseOf (TxIns.visit ⟨b, p⟩) = .ok (o, rem)) (j : Nat) (hj : j < p.length - rem.bytes.length) :
    parseOf (TxIns.visit ⟨b, p.take j⟩) = .err .moreBytesNeeded := by
  rw [parseOf_txins _ (by simpa [Slice.len] using hp)] at h
  rw [parseOf_txins _ (by simp [Slice.len]; omega)]; exact C07_prefix_of_ok_txins h j hj

/-- the callbacks a recording visitor receives on a prefix are a prefix of those it receives on the whole input -/
theorem C07_L1_trace_prefix_txins (b : Nat) (p x : Bytes) (hp : p.length < 2 ^ 62) (hpx : (p ++ x).length < 2 ^ 62) :
    ((TxIns.visit ⟨b, p⟩) recorder []).1.reverse <+: ((TxIns.visit ⟨b, p ++ x⟩) recorder []).1.reverse := by
  rw [recorder_eq (fun v st => refine_txins _ (by simpa [Slice.len] using hp) v st),
      recorder_eq (fun v st => refine_txins _ (by simpa [Slice.len] using hpx) v st)]
  simpa using C07_trace_prefix_txins b p x

theorem C07_L1_extend_ok_txouts {b : Nat} {p x : Bytes} {o : TxOutsV} {rem : Slice} (hp : p.length < 2 ^ 62) (hpx : (p ++ x).length < 2 ^ 62) 
    (h : parseOf (TxOuts.visit ⟨b, p⟩) = .ok (o, rem)) :
    parseOf (TxOuts.visit ⟨b, p ++ x⟩) = .ok (o, ⟨rem.base, rem.bytes ++ x⟩) := by
  rw [parseOf_txouts _ (by simpa [Slice.len] using hp)] at h
  rw [parseOf_txouts _ (by simpa [Slice.len] using hpx), C07_extend_ok_txouts h x]

theorem C07_L1_final_error_txouts {b : Nat} {p x : Bytes} {e : Error} (hp : p.length < 2 ^ 62) (hpx : (p ++ x).length < 2 ^ 62) 
    (h : parseOf (TxOuts.visit ⟨b, p⟩) = .err e) (hne : e ≠ .moreBytesNeeded) :
    parseOf (TxOuts.visit ⟨b, p ++ x⟩) = .err e := by
  rw [parseOf_txouts _ (by simpa [Slice.len] using hp)] at h
  rw [parseOf_txouts _ (by simpa [Slice.len] using hpx), C07_final_error_txouts h hne x, h]

theorem C07_L1_mbn_downward_txouts {b : Nat} {p x : Bytes} (hp : p.length < 2 ^ 62) (hpx : (p ++ x).length < 2 ^ 62) 
    (h : parseOf (TxOuts.visit ⟨b, p ++ x⟩) = .err .moreBytesNeeded) :
    parseOf (TxOuts.visit ⟨b, p⟩) = .err .moreBytesNeeded := by
  rw [parseOf_txouts _ (by simpa [Slice.len] using hpx)] at h
  rw [parseOf_txouts _ (by simpa [Slice.len] using hp)]; exact C07_mbn_downward_txouts h

theorem C07_L1_prefix_of_ok_txouts {b : Nat} {p : Bytes} {o : TxOutsV} {rem : Slice} (hp : p.length < 2 ^ 62) 
    (h : parseOf (TxOuts.visit ⟨b, p⟩) = .ok (o, rem)) (j : Nat) (hj : j < p.length - rem.bytes.length) :
    parseOf (TxOuts.visit ⟨b, p.take j⟩) = .err .moreBytesNeeded := by
  rw [parseOf_txouts _ (by simpa [Slice.len] using hp)] at h
  rw [parseOf_txouts _ (by simp [Slice.len]; omega)]; exact C07_prefix_of_ok_txouts h j hj

/-- the callbacks a recording visitor receives on a prefix are a prefix of those it receives on the whole input -/
theorem C07_L1_trace_prefix_txouts (b : Nat) (p x : Bytes) (hp : p.length < 2 ^ 62) (hpx : (p ++ x).length < 2 ^ 62) :
    ((TxOuts.visit ⟨b, p⟩) recorder []).1.reverse <+: ((TxOuts.visit ⟨b, p ++ x⟩) recorder []).1.reverse := by
  rw [recorder_eq (fun v st => refine_txouts _ (by simpa [Slice.len] using hp) v st),
      recorder_eq (fun v st => refine_txouts _ (by simpa [Slice.len] using hpx) v st)]
  simpa using C07_trace_prefix_txouts b p x

theorem C07_L1_extend_ok_witnesses {b : Nat} {p x : Bytes} {n : Nat} {o : WitnessesV} {rem : Slice} (hp : p.length < 2 ^ 62) (hpx : (p ++ x).length < 2 ^ 62) 
    (h : parseOf (Witnesses.visit ⟨b, p⟩ n) = .ok (o, rem)) :
    parseOf (Witnesses.visit ⟨b, p ++ x⟩ n) = .ok (o, ⟨rem.base, rem.bytes ++ x⟩) := by
  rw [parseOf_witnesses _ (by simpa [Slice.len] using hp) n] at h
  rw [parseOf_witnesses _ (by simpa [Slice.len] using hpx) n, C07_extend_ok_witnesses n h x]

theorem C07_L1_final_error_witnesses {b : Nat} {p x : Bytes} {n : Nat} {e : Error} (hp : p.length < 2 ^ 62) (hpx : (p ++ x).length < 2 ^ 62) 
    (h : parseOf (Witnesses.visit ⟨b, p⟩ n) = .err e) (hne : e ≠ .moreBytesNeeded) :
    parseOf (Witnesses.visit ⟨b, p ++ x⟩ n) = .err e := by
  rw [parseOf_witnesses _ (by simpa [Slice.len] using hp) n] at h
  rw [parseOf_witnesses _ (by simpa [Slice.len] using hpx) n, C07_final_error_witnesses n h hne x, h]

theorem C07_L1_mbn_downward_witnesses {b : Nat} {p x : Bytes} {n : Nat} (hp : p.length < 2 ^ 62) (hpx : (p ++ x).length < 2 ^ 62) 
    (h : parseOf (Witnesses.visit ⟨b, p ++ x⟩ n) = .err .moreBytesNeeded) :
    parseOf (Witnesses.visit ⟨b, p⟩ n) = .err .moreBytesNeeded := by
  rw [parseOf_witnesses _ (by simpa [Slice.len] using hpx) n] at h
  rw [parseOf_witnesses _ (by simpa [Slice.len] using hp) n]; exact C07_mbn_downward_witnesses n h

theorem C07_L1_prefix_of_ok_witnesses {b : Nat} {p : Bytes} {n : Nat} {o : WitnessesV} {rem : Slice} (hp : p.length < 2 ^ 62) 
    (h : parseOf (Witnesses.visit ⟨b, p⟩ n) = .ok (o, rem)) (j : Nat) (hj : j < p.length - rem.bytes.length) :
    parseOf (Witnesses.visit ⟨b, p.take j⟩ n) = .err .moreBytesNeeded := by
  rw [parseOf_witnesses _ (by simpa [Slice.len] using hp) n] at h
  rw [parseOf_witnesses _ (by simp [Slice.len]; omega) n]; exact C07_prefix_of_ok_witnesses n h j hj

/-- the callbacks a recording visitor receives on a prefix are a prefix of those it receives on the whole input -/
theorem C07_L1_trace_prefix_witnesses (b : Nat) (p x : Bytes) {n : Nat} (hp : p.length < 2 ^ 62) (hpx : (p ++ x).length < 2 ^ 62) :
    ((Witnesses.visit ⟨b, p⟩ n) recorder []).1.reverse <+: ((Witnesses.visit ⟨b, p ++ x⟩ n) recorder []).1.reverse := by
  rw [recorder_eq (fun v st => refine_witnesses _ (by simpa [Slice.len] using hp) n v st),
      recorder_eq (fun v st => refine_witnesses _ (by simpa [Slice.len] using hpx) n v st)]
  simpa using C07_trace_prefix_witnesses n b p x

theorem C07_L1_extend_ok_transaction {b : Nat} {p x : Bytes} {o : TxV} {rem : Slice} (hp : p.length < 2 ^ 62) (hpx : (p ++ x).length < 2 ^ 62) 
    (h : parseOf (Transaction.visit ⟨b, p⟩) = .ok (o, rem)) :
    parseOf (Transaction.visit ⟨b, p ++ x⟩) = .ok (o, ⟨rem.base, rem.bytes ++ x⟩) := by
  rw [parseOf_transaction _ (by simpa [Slice.len] using hp)] at h
  rw [parseOf_transaction _ (by simpa [Slice.len] using hpx), C07_extend_ok_transaction h x]

theorem C07_L1_final_error_transaction {b : Nat} {p x : Bytes} {e : Error} (hp : p.length < 2 ^ 62) (hpx : (p ++ x).length < 2 ^ 62) 
    (h : parseOf (Transaction.visit ⟨b, p⟩) = .err e) (hne : e ≠ .moreBytesNeeded) :
    parseOf (Transaction.visit ⟨b, p ++ x⟩) = .err e := by
  rw [parseOf_transaction _ (by simpa [Slice.len] using hp)] at h
  rw [parseOf_transaction _ (by simpa [Slice.len] using hpx), C07_final_error_transaction h hne x, h]

theorem C07_L1_mbn_downward_transaction {b : Nat} {p x : Bytes} (hp : p.length < 2 ^ 62) (hpx : (p ++ x).length < 2 ^ 62) 
    (h : parseOf (Transaction.visit ⟨b, p ++ x⟩) = .err .moreBytesNeeded) :
    parseOf (Transaction.visit ⟨b, p⟩) = .err .moreBytesNeeded := by
  rw [parseOf_transaction _ (by simpa [Slice.len] using hpx)] at h
  rw [parseOf_transaction _ (by simpa [Slice.len] using hp)]; exact C07_mbn_downward_transaction h

theorem C07_L1_prefix_of_ok_transaction {b : Nat} {p : Bytes} {o : TxV} {rem : Slice} (hp : p.length < 2 ^ 62) 
    (h : parseOf (Transaction.visit ⟨b, p⟩) = .ok (o, rem)) (j : Nat) (hj : j < p.length - rem.bytes.length) :
    parseOf (Transaction.visit ⟨b, p.take j⟩) = .err .moreBytesNeeded := by
  rw [parseOf_transaction _ (by simpa [Slice.len] using hp)] at h
  rw [parseOf_transaction _ (by simp [Slice.len]; omega)]; exact C07_prefix_of_ok_transaction h j hj

/-- the callbacks a recording visitor receives on a prefix are a prefix of those it receives on the whole input -/
theorem C07_L1_trace_prefix_transaction (b : Nat) (p x : Bytes) (hp : p.length < 2 ^ 62) (hpx : (p ++ x).length < 2 ^ 62) :
    ((Transaction.visit ⟨b, p⟩) recorder []).1.reverse <+: ((Transaction.visit ⟨b, p ++ x⟩) recorder []).1.reverse := by
  rw [recorder_eq (fun v st => refine_transaction _ (by simpa [Slice.len] using hp) v st),
      recorder_eq (fun v st => refine_transaction _ (by simpa [Slice.len] using hpx) v st)]
  simpa using C07_trace_prefix_transaction b p x

theorem C07_L1_extend_ok_header {b : Nat} {p x : Bytes} {o : HeaderV} {rem : Slice} 
    (h : parseOf (BlockHeader.visit ⟨b, p⟩) = .ok (o, rem)) :
    parseOf (BlockHeader.visit ⟨b, p ++ x⟩) = .ok (o, ⟨rem.base, rem.bytes ++ x⟩) := by
  rw [parseOf_header _] at h
  rw [parseOf_header _, C07_extend_ok_header h x]

theorem C07_L1_final_error_header {b : Nat} {p x : Bytes} {e : Error} 
    (h : parseOf (BlockHeader.visit ⟨b, p⟩) = .err e) (hne : e ≠ .moreBytesNeeded) :
    parseOf (BlockHeader.visit ⟨b, p ++ x⟩) = .err e := by
  rw [parseOf_header _] at h
  rw [parseOf_header _, C07_final_error_header h hne x, h]

theorem C07_L1_mbn_downward_header {b : Nat} {p x : Bytes} 
    (h : parseOf (BlockHeader.visit ⟨b, p ++ x⟩) = .err .moreBytesNeeded) :
    parseOf (BlockHeader.visit ⟨b, p⟩) = .err .moreBytesNeeded := by
  rw [parseOf_header _] at h
  rw [parseOf_header _]; exact C07_mbn_downward_header h

theorem C07_L1_prefix_of_ok_header {b : Nat} {p : Bytes} {o : HeaderV} {rem : Slice} 
    (h : parseOf (BlockHeader.visit ⟨b, p⟩) = .ok (o, rem)) (j : Nat) (hj : j < p.length - rem.bytes.length) :
    parseOf (BlockHeader.visit ⟨b, p.take j⟩) = .err .moreBytesNeeded := by
  rw [parseOf_header _] at h
  rw [parseOf_header _ ]; exact C07_prefix_of_ok_header h j hj

/-- the callbacks a recording visitor receives on a prefix are a prefix of those it receives on the whole input -/
theorem C07_L1_trace_prefix_header (b : Nat) (p x : Bytes) :
    ((BlockHeader.visit ⟨b, p⟩) recorder []).1.reverse <+: ((BlockHeader.visit ⟨b, p ++ x⟩) recorder []).1.reverse := by
  rw [recorder_eq (fun v st => refine_header _ v st),
      recorder_eq (fun v st => refine_header _ v st)]
  simpa using C07_trace_prefix_header b p x

theorem C07_L1_extend_ok_block {b : Nat} {p x : Bytes} {o : BlockV} {rem : Slice} (hp : p.length < 2 ^ 62) (hpx : (p ++ x).length < 2 ^ 62) 
    (h : parseOf (Block.visit ⟨b, p⟩) = .ok (o, rem)) :
    parseOf (Block.visit ⟨b, p ++ x⟩) = .ok (o, ⟨rem.base, rem.bytes ++ x⟩) := by
  rw [parseOf_block _ (by simpa [Slice.len] using hp)] at h
  rw [parseOf_block _ (by simpa [Slice.len] using hpx), C07_extend_ok_block h x]

theorem C07_L1_final_error_block {b : Nat} {p x : Bytes} {e : Error} (hp : p.length < 2 ^ 62) (hpx : (p ++ x).length < 2 ^ 62) 
    (h : parseOf (Block.visit ⟨b, p⟩) = .err e) (hne : e ≠ .moreBytesNeeded) :
    parseOf (Block.visit ⟨b, p ++ x⟩) = .err e := by
  rw [parseOf_block _ (by simpa [Slice.len] using hp)] at h
  rw [parseOf_block _ (by simpa [Slice.len] using hpx), C07_final_error_block h hne x, h]

theorem C07_L1_mbn_downward_block {b : Nat} {p x : Bytes} (hp : p.length < 2 ^ 62) (hpx : (p ++ x).length < 2 ^ 62) 
    (h : parseOf (Block.visit ⟨b, p ++ x⟩) = .err .moreBytesNeeded) :
    parseOf (Block.visit ⟨b, p⟩) = .err .moreBytesNeeded := by
  rw [parseOf_block _ (by simpa [Slice.len] using hpx)] at h
  rw [parseOf_block _ (by simpa [Slice.len] using hp)]; exact C07_mbn_downward_block h

theorem C07_L1_prefix_of_ok_block {b : Nat} {p : Bytes} {o : BlockV} {rem : Slice} (hp : p.length < 2 ^ 62) 
    (h : parseOf (Block.visit ⟨b, p⟩) = .ok (o, rem)) (j : Nat) (hj : j < p.length - rem.bytes.length) :
    parseOf (Block.visit ⟨b, p.take j⟩) = .err .moreBytesNeeded := by
  rw [parseOf_block _ (by simpa [Slice.len] using hp)] at h
  rw [parseOf_block _ (by simp [Slice.len]; omega)]; exact C07_prefix_of_ok_block h j hj

/-- the callbacks a recording visitor receives on a prefix are a prefix of those it receives on the whole input -/
theorem C07_L1_trace_prefix_block (b : Nat) (p x : Bytes) (hp : p.length < 2 ^ 62) (hpx : (p ++ x).length < 2 ^ 62) :
    ((Block.visit ⟨b, p⟩) recorder []).1.reverse <+: ((Block.visit ⟨b, p ++ x⟩) recorder []).1.reverse := by
  rw [recorder_eq (fun v st => refine_block _ (by simpa [Slice.len] using hp) v st),
      recorder_eq (fun v st => refine_block _ (by simpa [Slice.len] using hpx) v st)]
  simpa using C07_trace_prefix_block b p x


end L1

end BS
