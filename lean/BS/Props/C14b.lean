import BS.Props.C14
/-
  C14 (continued) — the error characterisation on the L1 model (the code as transcribed).

  `parseOf (X.visit s)` is `X::parse` (the visit under `EmptyVisitor`). Under the only hypothesis `s.len < 2 ^ 62`
  it is the L2 result (`Lift.parseOf_*`), so every L2 statement of BS/Props/C14.lean holds for the code; where an L2
  statement has a hypothesis about a component decoder (`decTxIns`, `decTxOuts`, `decWitnesses`, `decTransaction`,
  `decCompact`) the L1 version has it about the corresponding parser of the code (`TxIns::parse`, …, `scan_len`).
-/
namespace BS
open Spec Enc
open BS.Ref BS.Lift

/-! ### `scan_len` -/

/-- `scan_len(..)?` fails exactly when `scan_len` does, and with the same error -/
theorem C14_L1_scanLenQ_err (s : Slice) (c : Nat) (e : Error) :
    scanLenQ s c = .err e ↔ (scanLen s c).1 = .err e := by
  unfold scanLenQ
  rcases scanLen s c with ⟨r, c'⟩
  cases r <;> simp

/-- the error of `scan_len` (whatever the caller's counter, as long as it cannot overflow) is the error of the
    reference compact-size decoder -/
theorem C14_L1_scan_err (s : Slice) (c : Nat) (hc : c + 9 < 2 ^ 64) (e : Error) :
    (scanLen s c).1 = .err e ↔ decCompact s = .err e := by
  rw [← C14_L1_scanLenQ_err, scanLenQ_eq s c hc]
  cases decCompact s <;> simp

/-- `NonMinimalVarInt` exactly when the slice begins with a wider-than-minimal compact size -/
theorem C14_L1_nonminimal_compact (s : Slice) :
    (scanLen s 0).1 = .err .nonMinimalVarInt ↔ ∃ b r, NonMinimalCompact b ∧ s.bytes = b ++ r := by
  rw [C14_L1_scan_err s 0 (by omega)]; exact C14_nonminimal_compact s

/-- the same for every counter value that occurs (`consumed + 9` does not overflow) -/
theorem C14_L1_nonminimal_compact_at (s : Slice) (c : Nat) (hc : c + 9 < 2 ^ 64) :
    (scanLen s c).1 = .err .nonMinimalVarInt ↔ ∃ b r, NonMinimalCompact b ∧ s.bytes = b ++ r := by
  rw [C14_L1_scan_err s c hc]; exact C14_nonminimal_compact s

theorem C14_L1_short_compact (s : Slice) :
    (scanLen s 0).1 = .err .moreBytesNeeded ↔
      (s.bytes = [] ∨ (∃ t, s.bytes = 0xFD :: t ∧ t.length < 2) ∨ (∃ t, s.bytes = 0xFE :: t ∧ t.length < 4) ∨
        (∃ t, s.bytes = 0xFF :: t ∧ t.length < 8)) := by
  rw [C14_L1_scan_err s 0 (by omega)]; exact C14_short_compact s

/-- ok, `NonMinimalVarInt` or `MoreBytesNeeded`; nothing else, in particular no panic -/
theorem C14_L1_compact_cases (s : Slice) :
    (∃ n c, scanLenQ s 0 = .ok (n, c)) ∨ scanLenQ s 0 = .err .nonMinimalVarInt ∨
      scanLenQ s 0 = .err .moreBytesNeeded := by
  rw [scanLenQ_eq s 0 (by omega)]
  rcases C14_compact_cases s with ⟨n, rem, h⟩ | h | h
  · rw [h]; exact .inl ⟨_, _, rfl⟩
  · rw [h]; exact .inr (.inl rfl)
  · rw [h]; exact .inr (.inr rfl)

/-! ### below a transaction: only `MoreBytesNeeded` or `NonMinimalVarInt` -/

theorem C14_L1_only_basic_txins (s : Slice) (hs : s.len < 2 ^ 62) : OnlyBasic (parseOf (TxIns.visit s)) := by
  rw [parseOf_txins s hs]; exact C14_only_basic_txins s
theorem C14_L1_only_basic_txouts (s : Slice) (hs : s.len < 2 ^ 62) : OnlyBasic (parseOf (TxOuts.visit s)) := by
  rw [parseOf_txouts s hs]; exact C14_only_basic_txouts s
theorem C14_L1_only_basic_witnesses (s : Slice) (hs : s.len < 2 ^ 62) (n : Nat) :
    OnlyBasic (parseOf (Witnesses.visit s n)) := by
  rw [parseOf_witnesses s hs]; exact C14_only_basic_witnesses s n
theorem C14_L1_only_basic_header (s : Slice) : OnlyBasic (parseOf (BlockHeader.visit s)) := by
  rw [parseOf_header s]; exact C14_only_basic_header s
theorem C14_L1_only_basic_script (s : Slice) (hs : s.len < 2 ^ 62) : OnlyBasic (Script.parse s) := by
  rw [refine_script s hs]; exact C14_only_basic_script s
theorem C14_L1_only_basic_outpoint (s : Slice) : OnlyBasic (OutPoint.parse s) := by
  rw [refine_outpoint s]; exact C14_only_basic_outpoint s
theorem C14_L1_only_basic_txin (s : Slice) (hs : s.len < 2 ^ 62) : OnlyBasic (TxIn.parse s) := by
  rw [refine_txin s hs]; exact C14_only_basic_txin s
theorem C14_L1_only_basic_txout (s : Slice) (hs : s.len < 2 ^ 62) : OnlyBasic (TxOut.parse s) := by
  rw [refine_txout s hs]; exact C14_only_basic_txout s

/-! ### `SegwitFlagWithoutWitnesses` -/

theorem C14_L1_no_witness (b : Nat) (ver : Bytes) (ins : List TxInS) (outs : List TxOutS) (r : Bytes)
    (hv : ver.length = 4) (hne : ins ≠ []) (hni : ins.length < 2 ^ 64) (hwi : ∀ x ∈ ins, x.WF)
    (hno : outs.length < 2 ^ 64) (hwo : ∀ x ∈ outs, x.WF)
    (hl : (ver ++ [0x00, 0x01] ++ encTxIns ins ++ encTxOuts outs ++ List.replicate ins.length 0 ++ r).length < 2 ^ 62) :
    parseOf (Transaction.visit ⟨b, ver ++ [0x00, 0x01] ++ encTxIns ins ++ encTxOuts outs ++
      List.replicate ins.length 0 ++ r⟩) = .err .segwitFlagWithoutWitnesses := by
  rw [parseOf_transaction _ (by simpa [Slice.len] using hl)]; exact C14_no_witness b ver ins outs r hv hne hni hwi hno hwo

theorem C14_L1_no_witness_iff (s : Slice) (hs : s.len < 2 ^ 62) :
    parseOf (Transaction.visit s) = .err .segwitFlagWithoutWitnesses ↔
      ∃ (ver : Bytes) (ins : List TxInS) (outs : List TxOutS) (r : Bytes), ver.length = 4 ∧ ins ≠ [] ∧
        ins.length < 2 ^ 64 ∧ (∀ x ∈ ins, x.WF) ∧ outs.length < 2 ^ 64 ∧ (∀ x ∈ outs, x.WF) ∧
        s.bytes = ver ++ [0x00, 0x01] ++ encTxIns ins ++ encTxOuts outs ++ List.replicate ins.length 0 ++ r := by
  rw [parseOf_transaction s hs]; exact C14_no_witness_iff s

/-! ### nesting inside a transaction: with everything in front of a component well formed, the error of the
    component's parser is the error of `Transaction::parse` -/

theorem C14_L1_tx_nesting_version {s : Slice} (h : s.bytes.length < 4) :
    parseOf (Transaction.visit s) = .err .moreBytesNeeded := by
  rw [parseOf_transaction s (by simp only [Slice.len]; omega)]; exact C14_tx_nesting_version h

theorem C14_L1_tx_nesting_inputs (b : Nat) (ver r : Bytes) (e : Error) (hv : ver.length = 4)
    (hl : (ver ++ r).length < 2 ^ 62)
    (h : parseOf (TxIns.visit ⟨b + 4, r⟩) = .err e) : parseOf (Transaction.visit ⟨b, ver ++ r⟩) = .err e := by
  rw [parseOf_txins _ (by simp only [Slice.len, List.length_append] at hl ⊢; omega)] at h
  rw [parseOf_transaction _ (by simpa [Slice.len] using hl)]
  exact C14_tx_nesting_inputs b ver r e hv h

theorem C14_L1_tx_nesting_legacy_outputs (b : Nat) (ver : Bytes) (ins : List TxInS) (r : Bytes) (e : Error)
    (hv : ver.length = 4) (hne : ins ≠ []) (hni : ins.length < 2 ^ 64) (hwi : ∀ x ∈ ins, x.WF)
    (hl : (ver ++ encTxIns ins ++ r).length < 2 ^ 62)
    (h : parseOf (TxOuts.visit ⟨b + 4 + (encTxIns ins).length, r⟩) = .err e) :
    parseOf (Transaction.visit ⟨b, ver ++ encTxIns ins ++ r⟩) = .err e := by
  rw [parseOf_txouts _ (by simp only [Slice.len, List.length_append] at hl ⊢; omega)] at h
  rw [parseOf_transaction _ (by simpa [Slice.len] using hl)]
  exact C14_tx_nesting_legacy_outputs b ver ins r e hv hne hni hwi h

theorem C14_L1_tx_nesting_legacy_locktime (b : Nat) (ver : Bytes) (ins : List TxInS) (outs : List TxOutS)
    (r : Bytes) (hv : ver.length = 4) (hne : ins ≠ []) (hni : ins.length < 2 ^ 64) (hwi : ∀ x ∈ ins, x.WF)
    (hno : outs.length < 2 ^ 64) (hwo : ∀ x ∈ outs, x.WF) (hr : r.length < 4)
    (hl : (ver ++ encTxIns ins ++ (encTxOuts outs ++ r)).length < 2 ^ 62) :
    parseOf (Transaction.visit ⟨b, ver ++ encTxIns ins ++ (encTxOuts outs ++ r)⟩) = .err .moreBytesNeeded := by
  rw [parseOf_transaction _ (by simpa [Slice.len] using hl)]
  exact C14_tx_nesting_legacy_locktime b ver ins outs r hv hne hni hwi hno hwo hr

theorem C14_L1_tx_nesting_no_flag (b : Nat) (ver : Bytes) (hv : ver.length = 4) :
    parseOf (Transaction.visit ⟨b, ver ++ [0x00]⟩) = .err .moreBytesNeeded := by
  rw [parseOf_transaction _ (by simp only [Slice.len, List.length_append, hv]; decide)]
  exact C14_tx_nesting_no_flag b ver hv

theorem C14_L1_tx_nesting_segwit_inputs (b : Nat) (ver r : Bytes) (e : Error) (hv : ver.length = 4)
    (hl : (ver ++ [0x00, 0x01] ++ r).length < 2 ^ 62)
    (h : parseOf (TxIns.visit ⟨b + 6, r⟩) = .err e) :
    parseOf (Transaction.visit ⟨b, ver ++ [0x00, 0x01] ++ r⟩) = .err e := by
  rw [parseOf_txins _ (by simp only [Slice.len, List.length_append] at hl ⊢; omega)] at h
  rw [parseOf_transaction _ (by simpa [Slice.len] using hl)]
  exact C14_tx_nesting_segwit_inputs b ver r e hv h

theorem C14_L1_tx_nesting_segwit_outputs (b : Nat) (ver : Bytes) (ins : List TxInS) (r : Bytes) (e : Error)
    (hv : ver.length = 4) (hni : ins.length < 2 ^ 64) (hwi : ∀ x ∈ ins, x.WF)
    (hl : (ver ++ [0x00, 0x01] ++ (encTxIns ins ++ r)).length < 2 ^ 62)
    (h : parseOf (TxOuts.visit ⟨b + 6 + (encTxIns ins).length, r⟩) = .err e) :
    parseOf (Transaction.visit ⟨b, ver ++ [0x00, 0x01] ++ (encTxIns ins ++ r)⟩) = .err e := by
  rw [parseOf_txouts _ (by simp only [Slice.len, List.length_append] at hl ⊢; omega)] at h
  rw [parseOf_transaction _ (by simpa [Slice.len] using hl)]
  exact C14_tx_nesting_segwit_outputs b ver ins r e hv hni hwi h

theorem C14_L1_tx_nesting_segwit_witnesses (b : Nat) (ver : Bytes) (ins : List TxInS) (outs : List TxOutS)
    (r : Bytes) (e : Error) (hv : ver.length = 4) (hni : ins.length < 2 ^ 64) (hwi : ∀ x ∈ ins, x.WF)
    (hno : outs.length < 2 ^ 64) (hwo : ∀ x ∈ outs, x.WF)
    (hl : (ver ++ [0x00, 0x01] ++ (encTxIns ins ++ (encTxOuts outs ++ r))).length < 2 ^ 62)
    (h : parseOf (Witnesses.visit ⟨b + 6 + (encTxIns ins).length + (encTxOuts outs).length, r⟩ ins.length) = .err e) :
    parseOf (Transaction.visit ⟨b, ver ++ [0x00, 0x01] ++ (encTxIns ins ++ (encTxOuts outs ++ r))⟩) = .err e := by
  rw [parseOf_witnesses _ (by simp only [Slice.len, List.length_append] at hl ⊢; omega)] at h
  rw [parseOf_transaction _ (by simpa [Slice.len] using hl)]
  exact C14_tx_nesting_segwit_witnesses b ver ins outs r e hv hni hwi hno hwo h

theorem C14_L1_tx_nesting_segwit_locktime (b : Nat) (ver : Bytes) (ins : List TxInS) (outs : List TxOutS)
    (ws : List (List Bytes)) (r : Bytes) (hv : ver.length = 4) (hni : ins.length < 2 ^ 64) (hwi : ∀ x ∈ ins, x.WF)
    (hno : outs.length < 2 ^ 64) (hwo : ∀ x ∈ outs, x.WF) (hlen : ws.length = ins.length)
    (hww : ∀ w ∈ ws, witnessWF w) (hex : ins ≠ [] → ∃ w ∈ ws, w ≠ []) (hr : r.length < 4)
    (hl : (ver ++ [0x00, 0x01] ++ (encTxIns ins ++ (encTxOuts outs ++ (encWitnesses ws ++ r)))).length < 2 ^ 62) :
    parseOf (Transaction.visit
      ⟨b, ver ++ [0x00, 0x01] ++ (encTxIns ins ++ (encTxOuts outs ++ (encWitnesses ws ++ r)))⟩) =
      .err .moreBytesNeeded := by
  rw [parseOf_transaction _ (by simpa [Slice.len] using hl)]
  exact C14_tx_nesting_segwit_locktime b ver ins outs ws r hv hni hwi hno hwo hlen hww hex hr

/-! ### nesting inside a block -/

/-- a block whose header, count and first `l.length < n` transactions are well formed fails with exactly the error
    `Transaction::parse` reports on what follows -/
theorem C14_L1_block_nesting (b : Nat) (hd : HeaderS) (n : Nat) (l : List TxS) (r : Bytes) (e : Error)
    (hh : hd.WF) (hn : n < 2 ^ 64) (hw : ∀ t ∈ l, t.WF) (hl : l.length < n)
    (hlen : (encHeader hd ++ encCompact n ++ (l.map encTx).flatten ++ r).length < 2 ^ 62)
    (h : parseOf (Transaction.visit ⟨b + 80 + (encCompact n).length + (l.map encTx).flatten.length, r⟩) = .err e) :
    parseOf (Block.visit ⟨b, encHeader hd ++ encCompact n ++ (l.map encTx).flatten ++ r⟩) = .err e := by
  rw [parseOf_transaction _ (by simp only [Slice.len, List.length_append] at hlen ⊢; omega)] at h
  rw [parseOf_block _ (by simpa [Slice.len] using hlen)]
  exact C14_block_nesting b hd n l r e hh hn hw hl h

/-- conversely every error of `Block::parse` is: a truncated header, the error of `scan_len` on the transaction
    count, or the error of `Transaction::parse` on the first failing transaction (all transactions before it being
    well formed) -/
theorem C14_L1_block_error_cases {s : Slice} (hs : s.len < 2 ^ 62) {e : Error}
    (h : parseOf (Block.visit s) = .err e) :
    (e = .moreBytesNeeded ∧ s.bytes.length < 80) ∨
    (∃ (hd : HeaderS) (r : Bytes), hd.WF ∧ s.bytes = encHeader hd ++ r ∧ (scanLen ⟨s.base + 80, r⟩ 0).1 = .err e) ∨
    (∃ (hd : HeaderS) (n : Nat) (l : List TxS) (r : Bytes), hd.WF ∧ n < 2 ^ 64 ∧ (∀ t ∈ l, t.WF) ∧ l.length < n ∧
      s.bytes = encHeader hd ++ encCompact n ++ (l.map encTx).flatten ++ r ∧
      parseOf (Transaction.visit ⟨s.base + 80 + (encCompact n).length + (l.map encTx).flatten.length, r⟩) =
        .err e) := by
  rw [parseOf_block s hs] at h
  rcases C14_block_error_cases h with h1 | ⟨hd, r, hw, hb, hc⟩ | ⟨hd, n, l, r, hw, hn, hl, hlen, hb, ht⟩
  · exact .inl h1
  · exact .inr (.inl ⟨hd, r, hw, hb, (C14_L1_scan_err _ 0 (by omega) e).2 hc⟩)
  · refine .inr (.inr ⟨hd, n, l, r, hw, hn, hl, hlen, hb, ?_⟩)
    have hs' : s.bytes.length < 2 ^ 62 := hs
    have hr : r.length ≤ s.bytes.length := by rw [hb]; simp only [List.length_append]; omega
    rw [parseOf_transaction _ (by simp only [Slice.len]; omega)]
    exact ht

/-! ### non-vacuity: the L1 model run directly -/

example : (scanLen ⟨0, [0xFD, 0x10, 0x00, 0x07]⟩ 0).1 = .err .nonMinimalVarInt := by decide
example : NonMinimalCompact [0xFD, 0x10, 0x00] := .inl ⟨[0x10, 0x00], rfl, by decide, rfl⟩
example : (scanLen ⟨0, [0xFE, 0x10, 0x00]⟩ 0).1 = .err .moreBytesNeeded := by decide
/-- a non-minimal script length in the first input surfaces as the transaction's error -/
example : parseOf (TxIns.visit ⟨4, [1] ++ List.replicate 36 0 ++ [0xFD, 0x01, 0x00]⟩) = .err .nonMinimalVarInt := by
  decide
example : parseOf (Transaction.visit ⟨0, [1, 0, 0, 0] ++ ([1] ++ List.replicate 36 0 ++ [0xFD, 0x01, 0x00])⟩) =
    .err .nonMinimalVarInt := by decide
/-- one input, no output, an empty witness, and nothing after it -/
example : parseOf (Transaction.visit ⟨0, [1, 0, 0, 0] ++ [0x00, 0x01] ++ encTxIns [⟨⟨List.replicate 32 0, 0⟩, [], 0⟩] ++
    encTxOuts [] ++ List.replicate 1 0 ++ []⟩) = .err .segwitFlagWithoutWitnesses := by decide
/-- a block: well-formed header, count 1, then a transaction cut after its version -/
example : parseOf (Block.visit ⟨0, encHeader exHeader ++ encCompact 1 ++ (([] : List TxS).map encTx).flatten ++ [1, 0, 0]⟩) =
    .err .moreBytesNeeded := by decide

end BS
