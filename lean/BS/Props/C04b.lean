import BS.Props.C04
/-
  C04 (continued) — the traversal statements on the L1 model (the code as transcribed), under the recording visitor.

  `recorder` never breaks and remembers every callback, newest first; `(X.visit s recorder []).1.reverse` is therefore
  the sequence of visitor-method calls the code makes on input `s`, in order. `parseOf (X.visit s)` is `X::parse`
  (= the visit under `EmptyVisitor`); the recording run has the same result (`C04_L1_recorder_result_*`).
  The only hypothesis is `s.len < 2 ^ 62` (inputs below 4 EiB), under which L1 = L2 (`Ref.refine_*`).
-/
namespace BS
open Spec Enc
open BS.Ref BS.Lift

/-! ### the recording run and `parse` have the same result -/

theorem C04_L1_recorder_result_transaction (s : Slice) (hs : s.len < 2 ^ 62) :
    ((Transaction.visit s) recorder []).2 = parseOf (Transaction.visit s) := by
  rw [recorder_eq (fun v st => refine_transaction s hs v st), parseOf_transaction s hs]

theorem C04_L1_recorder_result_block (s : Slice) (hs : s.len < 2 ^ 62) :
    ((Block.visit s) recorder []).2 = parseOf (Block.visit s) := by
  rw [recorder_eq (fun v st => refine_block s hs v st), parseOf_block s hs]

/-! ### successful runs deliver exactly the traversal -/

theorem C04_L1_ok_txins (b : Nat) (l : List TxInS) (r : Bytes) (hn : l.length < 2 ^ 64) (hw : ∀ x ∈ l, x.WF)
    (hl : (encTxIns l ++ r).length < 2 ^ 62) :
    ((TxIns.visit ⟨b, encTxIns l ++ r⟩) recorder []).1.reverse = travTxIns b l := by
  rw [recorder_eq (fun v st => refine_txins _ (by simpa [Slice.len] using hl) v st)]
  simpa using C04_ok_txins b l r hn hw

theorem C04_L1_ok_txouts (b : Nat) (l : List TxOutS) (r : Bytes) (hn : l.length < 2 ^ 64) (hw : ∀ x ∈ l, x.WF)
    (hl : (encTxOuts l ++ r).length < 2 ^ 62) :
    ((TxOuts.visit ⟨b, encTxOuts l ++ r⟩) recorder []).1.reverse = travTxOuts b l := by
  rw [recorder_eq (fun v st => refine_txouts _ (by simpa [Slice.len] using hl) v st)]
  simpa using C04_ok_txouts b l r hn hw

theorem C04_L1_ok_witness (b : Nat) (w : List Bytes) (r : Bytes) (hw : witnessWF w)
    (hl : (encWitness w ++ r).length < 2 ^ 62) :
    ((Witness.visit ⟨b, encWitness w ++ r⟩) recorder []).1.reverse = travWitness b w := by
  rw [recorder_eq (sim_witness _ (by simpa [Slice.len] using hl)), witnessD_trace]
  simpa using C04_ok_witness b w r hw

/-- `Witnesses::visit` is told the number of inputs by its caller: `ws.length` here -/
theorem C04_L1_ok_witnesses (b : Nat) (ws : List (List Bytes)) (r : Bytes) (hw : ∀ w ∈ ws, witnessWF w)
    (hl : (encWitnesses ws ++ r).length < 2 ^ 62) :
    ((Witnesses.visit ⟨b, encWitnesses ws ++ r⟩ ws.length) recorder []).1.reverse = travWitnesses b ws := by
  rw [recorder_eq (fun v st => refine_witnesses _ (by simpa [Slice.len] using hl) _ v st)]
  simpa using C04_ok_witnesses b ws r hw

theorem C04_L1_ok_header (b : Nat) (h : HeaderS) (r : Bytes) (hh : h.WF) :
    ((BlockHeader.visit ⟨b, encHeader h ++ r⟩) recorder []).1.reverse = travHeader b h := by
  rw [recorder_eq (fun v st => refine_header _ v st)]
  simpa using C04_ok_header b h r hh

/-- read from the code's side: whenever `Transaction::parse` accepts `s`, the recording visitor has received the
    in-order traversal of the well-formed transaction whose encoding was consumed -/
theorem C04_L1_ok_transaction_sound {s : Slice} (hs : s.len < 2 ^ 62) {o : TxV} {rem : Slice}
    (h : parseOf (Transaction.visit s) = .ok (o, rem)) :
    ∃ t : TxS, t.WF ∧ s.bytes = encTx t ++ rem.bytes ∧
      ((Transaction.visit s) recorder []).1.reverse = travTx s.base t := by
  rw [parseOf_transaction s hs] at h
  rw [recorder_eq (fun v st => refine_transaction s hs v st)]
  simpa using C04_ok_transaction_sound h

theorem C04_L1_ok_block_sound {s : Slice} (hs : s.len < 2 ^ 62) {o : BlockV} {rem : Slice}
    (h : parseOf (Block.visit s) = .ok (o, rem)) :
    ∃ k : BlockS, k.WF ∧ s.bytes = encBlock k ++ rem.bytes ∧
      ((Block.visit s) recorder []).1.reverse = travBlock s.base k := by
  rw [parseOf_block s hs] at h
  rw [recorder_eq (fun v st => refine_block s hs v st)]
  simpa using C04_ok_block_sound h

/-! ### failing runs: the callbacks the recorder received before the error are a prefix of the traversal of a
    well-formed value — except for `SegwitFlagWithoutWitnesses`, which is raised after everything but the final
    `visit_transaction` has been delivered (see BS/Props/C04.lean) -/

theorem C04_L1_fail_prefix_txins {s : Slice} (hs : s.len < 2 ^ 62) {e : Error}
    (h : parseOf (TxIns.visit s) = .err e) :
    ∃ l : List TxInS, l.length < 2 ^ 64 ∧ (∀ x ∈ l, x.WF) ∧
      ((TxIns.visit s) recorder []).1.reverse <+: travTxIns s.base l := by
  rw [parseOf_txins s hs] at h
  rw [recorder_eq (fun v st => refine_txins s hs v st)]
  simpa using C04_fail_prefix_txins h

theorem C04_L1_fail_prefix_txouts {s : Slice} (hs : s.len < 2 ^ 62) {e : Error}
    (h : parseOf (TxOuts.visit s) = .err e) :
    ∃ l : List TxOutS, l.length < 2 ^ 64 ∧ (∀ x ∈ l, x.WF) ∧
      ((TxOuts.visit s) recorder []).1.reverse <+: travTxOuts s.base l := by
  rw [parseOf_txouts s hs] at h
  rw [recorder_eq (fun v st => refine_txouts s hs v st)]
  simpa using C04_fail_prefix_txouts h

theorem C04_L1_fail_prefix_witnesses {s : Slice} (hs : s.len < 2 ^ 62) {n : Nat} {e : Error}
    (h : parseOf (Witnesses.visit s n) = .err e) :
    ∃ ws : List (List Bytes), ws.length = n ∧ (∀ w ∈ ws, witnessWF w) ∧
      ((Witnesses.visit s n) recorder []).1.reverse <+: travWitnesses s.base ws := by
  rw [parseOf_witnesses s hs] at h
  rw [recorder_eq (fun v st => refine_witnesses s hs n v st)]
  simpa using C04_fail_prefix_witnesses h

theorem C04_L1_fail_prefix_transaction {s : Slice} (hs : s.len < 2 ^ 62) {e : Error}
    (h : parseOf (Transaction.visit s) = .err e) (hne : e ≠ .segwitFlagWithoutWitnesses) :
    ∃ t : TxS, t.WF ∧ ((Transaction.visit s) recorder []).1.reverse <+: travTx s.base t := by
  rw [parseOf_transaction s hs] at h
  rw [recorder_eq (fun v st => refine_transaction s hs v st)]
  simpa using C04_fail_prefix_transaction h hne

/-- the special error: the recorder has received the whole traversal but the last callback, of a value that is well
    formed except that all its witnesses are empty -/
theorem C04_L1_fail_prefix_transaction_nowit {s : Slice} (hs : s.len < 2 ^ 62)
    (h : parseOf (Transaction.visit s) = .err .segwitFlagWithoutWitnesses) :
    ∃ t : TxS, AllEmptyWit t ∧
      ((Transaction.visit s) recorder []).1.reverse ++ [.transaction (viewTx s.base t)] = travTx s.base t := by
  rw [parseOf_transaction s hs] at h
  rw [recorder_eq (fun v st => refine_transaction s hs v st)]
  simpa using C04_fail_prefix_transaction_nowit h

/-- … and for that error the unrestricted statement is false on L1 as well -/
theorem C04_L1_fail_prefix_transaction_nowit_not_wf {s : Slice} (hs : s.len < 2 ^ 62)
    (h : parseOf (Transaction.visit s) = .err .segwitFlagWithoutWitnesses) :
    ¬ ∃ t : TxS, t.WF ∧ ((Transaction.visit s) recorder []).1.reverse <+: travTx s.base t := by
  rw [parseOf_transaction s hs] at h
  rw [recorder_eq (fun v st => refine_transaction s hs v st)]
  simpa using C04_fail_prefix_transaction_nowit_not_wf h

/-- a header makes its single callback only when it succeeds (no bound on the input needed) -/
theorem C04_L1_fail_prefix_header {s : Slice} {e : Error} (h : parseOf (BlockHeader.visit s) = .err e) :
    ((BlockHeader.visit s) recorder []).1 = [] := by
  rw [parseOf_header s] at h
  rw [recorder_eq (fun v st => refine_header s v st)]
  simpa using C04_fail_prefix_header h

theorem C04_L1_fail_prefix_block {s : Slice} (hs : s.len < 2 ^ 62) {e : Error}
    (h : parseOf (Block.visit s) = .err e) (hne : e ≠ .segwitFlagWithoutWitnesses) :
    ∃ k : BlockS, k.WF ∧ ((Block.visit s) recorder []).1.reverse <+: travBlock s.base k := by
  rw [parseOf_block s hs] at h
  rw [recorder_eq (fun v st => refine_block s hs v st)]
  simpa using C04_fail_prefix_block h hne

theorem C04_L1_fail_prefix_block_nowit {s : Slice} (hs : s.len < 2 ^ 62)
    (h : parseOf (Block.visit s) = .err .segwitFlagWithoutWitnesses) :
    ∃ k : BlockS, k.header.WF ∧ k.txs.length < 2 ^ 64 ∧ (∀ t ∈ k.txs, t.WF ∨ AllEmptyWit t) ∧
      ((Block.visit s) recorder []).1.reverse <+: travBlock s.base k := by
  rw [parseOf_block s hs] at h
  rw [recorder_eq (fun v st => refine_block s hs v st)]
  simpa using C04_fail_prefix_block_nowit h

/-! ### every slice handed to the recording visitor lies inside the input (remaining list types) -/

theorem C04_L1_events_inside_txins (s : Slice) (hs : s.len < 2 ^ 62) :
    EventsInside ((TxIns.visit s) recorder []).1.reverse s := by
  rw [recorder_eq (fun v st => refine_txins s hs v st)]
  simpa using C04_events_inside_txins s

theorem C04_L1_events_inside_txouts (s : Slice) (hs : s.len < 2 ^ 62) :
    EventsInside ((TxOuts.visit s) recorder []).1.reverse s := by
  rw [recorder_eq (fun v st => refine_txouts s hs v st)]
  simpa using C04_events_inside_txouts s

theorem C04_L1_events_inside_witnesses (s : Slice) (hs : s.len < 2 ^ 62) (n : Nat) :
    EventsInside ((Witnesses.visit s n) recorder []).1.reverse s := by
  rw [recorder_eq (fun v st => refine_witnesses s hs n v st)]
  simpa using C04_events_inside_witnesses s n

/-! ### non-vacuity: the L1 model run directly on concrete inputs -/

/-- a truncated segwit transaction: `MoreBytesNeeded` after 7 callbacks, which are the first 7 of the traversal -/
example : parseOf (Transaction.visit ⟨10, (encTx exSegwit).take 63⟩) = .err .moreBytesNeeded := by decide
example : ((Transaction.visit ⟨10, (encTx exSegwit).take 63⟩) recorder []).1.reverse = (travTx 10 exSegwit).take 7 := by
  decide
/-- the special error: one input, an empty witness -/
def C04_exNoWit : Bytes :=
  [1, 0, 0, 0, 0, 1, 1] ++ List.replicate 36 0 ++ [0, 255, 255, 255, 255, 0, 0, 0, 0, 0, 0]
example : parseOf (Transaction.visit ⟨0, C04_exNoWit⟩) = .err .segwitFlagWithoutWitnesses := by decide
example : ((Transaction.visit ⟨0, C04_exNoWit⟩) recorder []).1.length = 7 := by decide
example : (⟨0, C04_exNoWit⟩ : Slice).len < 2 ^ 62 := by decide
example : ((Witnesses.visit ⟨3, encWitnesses [[[1, 2]], []] ++ [7]⟩ 2) recorder []).1.reverse =
    travWitnesses 3 [[[1, 2]], []] := by decide

end BS
