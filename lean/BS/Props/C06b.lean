import BS.Props.C06
import BS.Props.C11
import BS.Props.C12
import BS.Props.C03
import BS.Lemmas.ExtCache
/-
  C06 (continued) — cache: what `get` returns after later insertions, what failed insertions leave alone,
  the degenerate capacity 0, a few monotone facts, and the `get`-then-`parse` composition.
  Vocabulary as in BS/Props/C06.lean (`Inv`, `runOps`, `successes`, `logGet`) and BS/Props/C12.lean (`sizeL`, `maxLen`).
-/
namespace BS
open Cache CacheProof Ext

variable {κ : Type} [DecidableEq κ]

/-! ### retention, per key -/

/-- if `(k, v)` was successfully inserted and the sizes of all LATER successful insertions (`post`, zero-length ones
    included — they count 0) together with `v.length` sum to at most `cap - (Lmax - 1)`, where `Lmax` is the largest
    value size successfully inserted in the history, then `k` still returns `v`
    (`C12_retention_strong`, read for one key) -/
theorem C06_get_after_later_inserts (cap : Nat) (ops : List (κ × Bytes)) (k : κ) (v : Bytes)
    (pre post : List (κ × Bytes)) (hs : successes cap ops = pre ++ (k, v) :: post)
    (hsz : v.length + sizeL post ≤ cap - (maxLen (successes cap ops) - 1)) :
    get (runOps cap ops).c k = .ok (some v) := by
  have hd : (successes cap ops).drop pre.length = (k, v) :: post := by rw [hs, List.drop_left]
  refine (C12_retention_strong cap ops pre.length ?_).2 k v ?_
  · rw [hd]; exact hsz
  · rw [hd]; exact List.mem_cons_self

/-- … and then `k` has not been successfully inserted again since, and everything inserted after it is live too -/
theorem C06_get_after_later_inserts_all (cap : Nat) (ops : List (κ × Bytes)) (k : κ) (v : Bytes)
    (pre post : List (κ × Bytes)) (hs : successes cap ops = pre ++ (k, v) :: post)
    (hsz : v.length + sizeL post ≤ cap - (maxLen (successes cap ops) - 1)) :
    k ∉ post.map Prod.fst ∧ ∀ k' v', (k', v') ∈ post → get (runOps cap ops).c k' = .ok (some v') := by
  have hd : (successes cap ops).drop pre.length = (k, v) :: post := by rw [hs, List.drop_left]
  obtain ⟨⟨j, hj⟩, hall⟩ := C12_retention_strong cap ops pre.length (by rw [hd]; exact hsz)
  refine ⟨?_, fun k' v' hm => hall k' v' (by rw [hd]; exact List.mem_cons_of_mem _ hm)⟩
  have hnd := (run_inv cap ops).nodup
  have hnd' : (((runOps cap ops).log.drop j).map Prod.fst).Nodup := by
    rw [List.map_drop]
    exact (List.drop_sublist _ _).nodup hnd
  rw [← hj, hd, List.map_cons, List.nodup_cons] at hnd'
  exact hnd'.1

/-- the bound is sharp in the sense of C12: capacity 10, `Lmax = 5`; `A(3) B(3) C(5)`: the third insertion wraps
    and evicts `A` although `3 + 3 + 5 = 11` exceeds the capacity by one only — `3 + (3 + 5) > 10 - 4` -/
example :
    let ops : List (Nat × Bytes) := [(1, [1, 1, 1]), (2, [2, 2, 2]), (3, [3, 3, 3, 3, 3])]
    successes 10 ops = [] ++ (1, [1, 1, 1]) :: [(2, [2, 2, 2]), (3, [3, 3, 3, 3, 3])] ∧
    get (runOps 10 ops).c 1 = .ok none ∧ maxLen (successes 10 ops) = 5 := by decide

/-- the hypotheses are satisfiable: `C(5) D(1)` after the wrap, `5 + 1 ≤ 10 - 4` -/
example :
    let ops : List (Nat × Bytes) := [(1, [1, 1, 1]), (2, [2, 2, 2]), (3, [3, 3, 3, 3, 3]), (4, [4])]
    successes 10 ops = [(1, [1, 1, 1]), (2, [2, 2, 2])] ++ (3, [3, 3, 3, 3, 3]) :: [(4, [4])] ∧
    [3, 3, 3, 3, 3].length + sizeL [((4 : Nat), ([4] : Bytes))] ≤ 10 - (maxLen (successes 10 ops) - 1) ∧
    get (runOps 10 ops).c 3 = .ok (some [3, 3, 3, 3, 3]) := by decide

/-! ### failed insertions -/

/-- an insert that is not accepted (`ValueAlreadyPresent`, `ValueLargerThanBuffer`, or a panic) leaves the state
    literally unchanged, hence every `get`, `contains` and `len` -/
theorem C06_values_unchanged_by_failed_insert {c : Cache κ} {L : List (κ × Bytes)} (h : Inv c L) (k : κ) (v : Bytes)
    (hf : ∀ e, (insert c k v).2 ≠ .ok e) :
    (∀ k', get (insert c k v).1 k' = get c k') ∧ (∀ k', contains (insert c k v).1 k' = contains c k') ∧
    (insert c k v).1.len = c.len ∧ (insert c k v).1 = c := by
  have hc := ((C11_step h k v).2 hf).2
  rw [hc]
  exact ⟨fun _ => rfl, fun _ => rfl, rfl, rfl⟩

/-- the two ways an insert is refused, in the order the code checks them: a key that is retrievable is refused with
    `ValueAlreadyPresent` whatever the value; otherwise a value longer than the capacity with `ValueLargerThanBuffer` -/
theorem C06_refused {c : Cache κ} {L : List (κ × Bytes)} (h : Inv c L) (k : κ) (v : Bytes) :
    ((∃ w, get c k = .ok (some w)) → insert c k v = (c, .valueAlreadyPresent)) ∧
    (get c k = .ok none → v.length > c.cap → insert c k v = (c, .valueLargerThanBuffer)) := by
  have hiff := h.lookup_isSome k
  rw [← logGet_isSome_iff] at hiff
  refine ⟨fun ⟨w, hw⟩ => ?_, fun hn hv => ?_⟩
  · rw [h.get] at hw
    have : (logGet k L).isSome = true := by injection hw with hw; rw [hw]; rfl
    unfold Cache.insert
    rw [if_pos (hiff.2 this)]
  · rw [h.get] at hn
    have : ¬ (lookup k c.indexes).isSome = true := by
      intro hl
      have := hiff.1 hl
      injection hn with hn
      rw [hn] at this; cases this
    unfold Cache.insert
    rw [if_neg this, if_pos hv]

/-! ### capacity 0

  The literal statement "with `cap = 0` every insert of a non-empty value fails with `ValueLargerThanBuffer`" is
  false: the presence check comes first, so a non-empty value under a key that is present (necessarily with the
  empty value) is refused with `ValueAlreadyPresent` (witness below). What holds: it is never accepted, and under a
  key that is not present the error is `ValueLargerThanBuffer`. -/

/-- the counterexample to the literal statement -/
example : (insert (runOps 0 [((7 : Nat), ([] : Bytes))]).c 7 [1]).2 = .valueAlreadyPresent := by decide

theorem C06_capacity_zero (ops : List (κ × Bytes)) (k : κ) (v : Bytes) :
    -- a non-empty value is never accepted, and the state does not change
    (v ≠ [] → (∀ e, (insert (runOps 0 ops).c k v).2 ≠ .ok e) ∧ (insert (runOps 0 ops).c k v).1 = (runOps 0 ops).c) ∧
    -- under a key that is not present it is refused with `ValueLargerThanBuffer`
    (v ≠ [] → get (runOps 0 ops).c k = .ok none →
      insert (runOps 0 ops).c k v = ((runOps 0 ops).c, .valueLargerThanBuffer)) ∧
    -- under a key that is present, with `ValueAlreadyPresent`
    ((∃ w, get (runOps 0 ops).c k = .ok (some w)) →
      insert (runOps 0 ops).c k v = ((runOps 0 ops).c, .valueAlreadyPresent)) ∧
    -- the empty value under a key that is not present is accepted, evicts nothing, and is retrievable as `some []`
    (get (runOps 0 ops).c k = .ok none → ops.length < 2 ^ 64 →
      ∃ c', insert (runOps 0 ops).c k [] = (c', .ok 0) ∧ get c' k = .ok (some [])) := by
  have hinv := run_inv (κ := κ) 0 ops
  have hcap := run_cap (κ := κ) 0 ops
  have hpos : v ≠ [] → v.length > (runOps 0 ops).c.cap := by
    intro hv
    rw [hcap]
    exact List.length_pos_iff.2 hv
  have hnever : v ≠ [] → ∀ e, (insert (runOps 0 ops).c k v).2 ≠ .ok e := by
    intro hv e he
    have hi : insert (runOps 0 ops).c k v = ((insert (runOps 0 ops).c k v).1, .ok e) := by rw [← he]
    have := (hinv.insert_ok hi).2.2.1
    have := hpos hv
    omega
  refine ⟨fun hv => ⟨hnever hv, ((C11_step hinv k v).2 (hnever hv)).2⟩,
    fun hv hn => (C06_refused hinv k v).2 hn (hpos hv), (C06_refused hinv k v).1, fun hn hlen => ?_⟩
  -- the empty value
  have hnp := (C06_nopanic hinv k [] (by rw [hcap]; decide)
    (by have := run_log_length_le (κ := κ) 0 ops; unfold USIZE; omega)).1
  have hiff := hinv.lookup_isSome k
  rw [← logGet_isSome_iff] at hiff
  have hfresh : ¬ (lookup k (runOps 0 ops).c.indexes).isSome = true := by
    intro hl
    have := hiff.1 hl
    rw [hinv.get] at hn
    injection hn with hn
    rw [hn] at this; cases this
  cases hr : (insert (runOps 0 ops).c k []).2 with
  | ok e =>
    have hi : insert (runOps 0 ops).c k [] = ((insert (runOps 0 ops).c k []).1, .ok e) := by rw [← hr]
    have he : e = 0 := by
      rcases Nat.eq_zero_or_pos e with h0 | h0
      · exact h0
      · exfalso
        obtain ⟨_, p, hp1, hp2, _⟩ := C12_pressure 0 ops k [] _ e hi h0
        have h1 := sizeL_ge_of_mem _ p (List.mem_of_getElem? hp1)
        have h2 := C12_total_run (κ := κ) 0 ops
        omega
    subst he
    exact ⟨_, hi, C06_read_your_write hinv hi⟩
  | valueLargerThanBuffer =>
    exfalso
    unfold Cache.insert at hr
    rw [if_neg hfresh, if_neg (by simp)] at hr
    split at hr <;> cases hr
  | valueAlreadyPresent =>
    exfalso
    unfold Cache.insert at hr
    rw [if_neg hfresh, if_neg (by simp)] at hr
    split at hr <;> cases hr
  | panic p => exact absurd hr (hnp p)

/-- so a cache of capacity 0 only ever holds empty values -/
theorem C06_capacity_zero_values (ops : List (κ × Bytes)) (k : κ) (w : Bytes)
    (h : get (runOps 0 ops).c k = .ok (some w)) : w = [] := by
  have hm := C06_get_was_inserted 0 ops k w h
  have := succ_len_le 0 ops (k, w) hm
  exact List.eq_nil_of_length_eq_zero (by simpa using this)

example :
    (runOps 0 [((1 : Nat), ([] : Bytes)), (2, [5]), (3, []), (1, [])]).results =
      [.ok 0, .valueLargerThanBuffer, .ok 0, .valueAlreadyPresent] ∧
    get (runOps 0 [((1 : Nat), ([] : Bytes)), (2, [5]), (3, []), (1, [])]).c 3 = .ok (some []) := by decide

/-! ### monotone facts -/

/-- the capacity never changes -/
theorem C06_cap_constant {c : Cache κ} {L : List (κ × Bytes)} (h : Inv c L) (k : κ) (v : Bytes) :
    (insert c k v).1.cap = c.cap := h.insert_cap k v

/-- every value a reachable state can return fits the capacity -/
theorem C06_value_fits (cap : Nat) (ops : List (κ × Bytes)) (k : κ) (w : Bytes)
    (h : get (runOps cap ops).c k = .ok (some w)) : w.length ≤ cap :=
  succ_len_le cap ops (k, w) (C06_get_was_inserted cap ops k w h)

/-- once the buffer has wrapped it stays `full` -/
theorem C06_full_monotone {c : Cache κ} {L : List (κ × Bytes)} (h : Inv c L) (k : κ) (v : Bytes)
    (hf : c.full = true) : (insert c k v).1.full = true := by
  by_cases hok : ∃ e, (insert c k v).2 = .ok e
  · obtain ⟨e, he⟩ := hok
    have hi : insert c k v = ((insert c k v).1, .ok e) := by rw [← he]
    exact (h.insert_full hi).1.2 (Or.inl hf)
  · rw [((C11_step h k v).2 (fun e he => hok ⟨e, he⟩)).2]; exact hf

/-- continuing a history only appends to the list of successful insertions and to the list of results -/
theorem C06_history_monotone (cap : Nat) (ops more : List (κ × Bytes)) :
    successes cap ops <+: successes cap (ops ++ more) ∧
    (runOps cap ops).results <+: (runOps cap (ops ++ more)).results :=
  run_prefix cap ops more

/-- the number of live entries grows by at most one per insert, and only an accepted insert changes it:
    `len' = len - e + 1` -/
theorem C06_len_step {c : Cache κ} {L : List (κ × Bytes)} (h : Inv c L) (k : κ) (v : Bytes) :
    (∀ c' e, insert c k v = (c', .ok e) → e ≤ c.len ∧ c'.len = c.len - e + 1) ∧
    ((∀ e, (insert c k v).2 ≠ .ok e) → (insert c k v).1.len = c.len) := by
  refine ⟨fun c' e hi => ?_, fun hf => (C06_values_unchanged_by_failed_insert h k v hf).2.2.1⟩
  obtain ⟨h1, _, _, h4⟩ := h.insert_ok hi
  rw [h4.len, h.len]
  refine ⟨h1, ?_⟩
  simp only [List.length_append, List.length_drop, List.length_cons, List.length_nil]

/-! ### `get` then `parse` (the `get_value`-style use of the cache: values are serialized objects) -/

/-- store the encoding of a well-formed transaction: reading the key back and parsing the bytes (as the code does,
    from a fresh slice at offset 0) yields the view of that transaction and consumes all the bytes -/
theorem C06_get_parse_transaction {c : Cache κ} {L : List (κ × Bytes)} (h : Inv c L) {k : κ} {t : Spec.TxS}
    (ht : t.WF) (hl : (Spec.encTx t).length < 2 ^ 62) {c' : Cache κ} {e : Nat}
    (hi : insert c k (Spec.encTx t) = (c', .ok e)) :
    ∃ b, get c' k = .ok (some b) ∧
      parseOf (Transaction.visit ⟨0, b⟩) = .ok (Enc.viewTx 0 t, ⟨(Spec.encTx t).length, []⟩) := by
  refine ⟨_, C06_read_your_write h hi, ?_⟩
  have := C03_L1_complete_transaction 0 t [] ht (by simpa using hl)
  simpa using this

/-- history form: the same after any number of later insertions within the retention bound -/
theorem C06_get_parse_transaction_later (cap : Nat) (ops : List (κ × Bytes)) (k : κ) (t : Spec.TxS)
    (ht : t.WF) (hl : (Spec.encTx t).length < 2 ^ 62) (pre post : List (κ × Bytes))
    (hs : successes cap ops = pre ++ (k, Spec.encTx t) :: post)
    (hsz : (Spec.encTx t).length + sizeL post ≤ cap - (maxLen (successes cap ops) - 1)) :
    ∃ b, get (runOps cap ops).c k = .ok (some b) ∧
      parseOf (Transaction.visit ⟨0, b⟩) = .ok (Enc.viewTx 0 t, ⟨(Spec.encTx t).length, []⟩) := by
  refine ⟨_, C06_get_after_later_inserts cap ops k _ pre post hs hsz, ?_⟩
  have := C03_L1_complete_transaction 0 t [] ht (by simpa using hl)
  simpa using this

/-- conversely whatever parses after a `get` was inserted under that key: the cache never makes bytes up -/
theorem C06_get_parse_sound (cap : Nat) (ops : List (κ × Bytes)) (k : κ) (b : Bytes) (o : TxV) (rem : Slice)
    (hg : get (runOps cap ops).c k = .ok (some b)) (hb : b.length < 2 ^ 62)
    (hp : parseOf (Transaction.visit ⟨0, b⟩) = .ok (o, rem)) :
    (k, b) ∈ successes cap ops ∧ ∃ t : Spec.TxS, t.WF ∧ b = Spec.encTx t ++ rem.bytes ∧ o = Enc.viewTx 0 t := by
  refine ⟨C06_get_was_inserted cap ops k b hg, ?_⟩
  rw [Lift.parseOf_transaction _ (by simpa [Slice.len] using hb)] at hp
  obtain ⟨t, ht, h1, _, h2⟩ := C03_sound_transaction hp
  exact ⟨t, ht, h1, h2⟩

example :
    let c0 : Cache Nat := Cache.new 200
    let r := insert c0 7 (Spec.encTx Enc.exSegwit)
    r.2 = .ok 0 ∧ get r.1 7 = .ok (some (Spec.encTx Enc.exSegwit)) ∧
    (parseOf (Transaction.visit ⟨0, Spec.encTx Enc.exSegwit⟩)).isOk = true := by decide +kernel

end BS
