import BS.Lemmas.RefAcc
/-
  C15 — The result of a visit is independent of the visitor (first half; re-parsing is stated elsewhere).
  For a visitor that never answers Break on a breakable callback, the result of `X.visit` is the result of
  `X::parse` (= the visit with `EmptyVisitor`), and both are the result of the L2 reference decoder.
  Property theorems only (helper lemmas live in BS/Lemmas/Ref*.lean).
-/
namespace BS
open Spec Ref

/-- generic statement for any L1 visit `m` refined by an L2 run `d` -/
theorem C15_indep {α} {m : (σ : Type) → VM σ α} {d : D α} (href : ∀ σ, Sim (m σ) d) {σ} (v : Visitor σ)
    (hv : ∀ st e, e.breakable = true → (v.step st e).2 = false) (st : σ) :
    (m σ v st).2 = parseOf (m Unit) ∧ parseOf (m Unit) = d.res := by
  have h1 : (m σ v st).2 = d.res := by
    rw [href, run_never d v st (noBreak_of_never v hv _ _)]
  have h2 : parseOf (m Unit) = d.res := by
    unfold parseOf
    rw [href, run_never d emptyVisitor () (noBreak_of_never _ neverBreaks_empty _ _)]
  exact ⟨by rw [h1, h2], h2⟩

/-- all never-breaking visitors also receive the same callbacks: the whole L2 trace -/
theorem C15_indep_callbacks {σ α} {m : VM σ α} {d : D α} (href : Sim m d) (v : Visitor σ)
    (hv : ∀ st e, e.breakable = true → (v.step st e).2 = false) (st : σ) :
    (m v st).1 = feed v st d.trace := by
  rw [href, run_never d v st (noBreak_of_never v hv _ _)]

theorem C15_indep_txins {σ} (s : Slice) (hs : s.len < 2 ^ 62) (v : Visitor σ)
    (hv : ∀ st e, e.breakable = true → (v.step st e).2 = false) (st : σ) :
    (TxIns.visit s v st).2 = parseOf (TxIns.visit s) ∧ parseOf (TxIns.visit s) = (decTxIns s).res :=
  C15_indep (m := fun σ => (TxIns.visit s : VM σ _)) (fun _ => sim_txins s hs) v hv st

theorem C15_indep_txouts {σ} (s : Slice) (hs : s.len < 2 ^ 62) (v : Visitor σ)
    (hv : ∀ st e, e.breakable = true → (v.step st e).2 = false) (st : σ) :
    (TxOuts.visit s v st).2 = parseOf (TxOuts.visit s) ∧ parseOf (TxOuts.visit s) = (decTxOuts s).res :=
  C15_indep (m := fun σ => (TxOuts.visit s : VM σ _)) (fun _ => sim_txouts s hs) v hv st

theorem C15_indep_witnesses {σ} (s : Slice) (hs : s.len < 2 ^ 62) (n : Nat) (v : Visitor σ)
    (hv : ∀ st e, e.breakable = true → (v.step st e).2 = false) (st : σ) :
    (Witnesses.visit s n v st).2 = parseOf (Witnesses.visit s n) ∧ parseOf (Witnesses.visit s n) = (decWitnesses s n).res :=
  C15_indep (m := fun σ => (Witnesses.visit s n : VM σ _)) (fun _ => sim_witnesses s hs n) v hv st

theorem C15_indep_transaction {σ} (s : Slice) (hs : s.len < 2 ^ 62) (v : Visitor σ)
    (hv : ∀ st e, e.breakable = true → (v.step st e).2 = false) (st : σ) :
    (Transaction.visit s v st).2 = parseOf (Transaction.visit s) ∧ parseOf (Transaction.visit s) = (decTransaction s).res :=
  C15_indep (m := fun σ => (Transaction.visit s : VM σ _)) (fun _ => sim_transaction s hs) v hv st

theorem C15_indep_header {σ} (s : Slice) (v : Visitor σ)
    (hv : ∀ st e, e.breakable = true → (v.step st e).2 = false) (st : σ) :
    (BlockHeader.visit s v st).2 = parseOf (BlockHeader.visit s) ∧ parseOf (BlockHeader.visit s) = (decHeader s).res :=
  C15_indep (m := fun σ => (BlockHeader.visit s : VM σ _)) (fun _ => sim_header s) v hv st

theorem C15_indep_block {σ} (s : Slice) (hs : s.len < 2 ^ 62) (v : Visitor σ)
    (hv : ∀ st e, e.breakable = true → (v.step st e).2 = false) (st : σ) :
    (Block.visit s v st).2 = parseOf (Block.visit s) ∧ parseOf (Block.visit s) = (decBlock s).res :=
  C15_indep (m := fun σ => (Block.visit s : VM σ _)) (fun _ => sim_block s hs) v hv st

/-- the witness decoder of L2 also returns the `is_empty` flag, dropped here -/
theorem C15_indep_witness {σ} (s : Slice) (hs : s.len < 2 ^ 62) (v : Visitor σ)
    (hv : ∀ st e, e.breakable = true → (v.step st e).2 = false) (st : σ) :
    (Witness.visit s v st).2 = parseOf (Witness.visit s) ∧
    parseOf (Witness.visit s) = (decWitness s).res.map' (fun x => (x.1, x.2.2)) := by
  rw [← witnessD_res]
  exact C15_indep (m := fun σ => (Witness.visit s : VM σ _)) (fun _ => sim_witness s hs) v hv st

/-! ### non-vacuity: the recorder and the counting visitor never break; on a concrete transaction they get the
    same result as `parse` -/

def C15_exampleTx : Slice :=
  ⟨0, [1, 0, 0, 0, 1] ++ List.replicate 36 0 ++ [0, 255, 255, 255, 255, 1, 1, 0, 0, 0, 0, 0, 0, 0, 0, 0, 0, 0, 0]⟩

example : ∀ st e, e.breakable = true → (recorder.step st e).2 = false := fun _ _ _ => rfl
example : ∀ st e, e.breakable = true → (counter.step st e).2 = false := fun _ _ _ => rfl
example : (parseOf (Transaction.visit C15_exampleTx)).isOk = true := by decide
example : (Transaction.visit C15_exampleTx recorder []).2 = parseOf (Transaction.visit C15_exampleTx) := by decide
/-- a breaking visitor does get a different result: the hypothesis cannot be dropped -/
example : (Transaction.visit C15_exampleTx (breakAt 0) ([], 0)).2 ≠ parseOf (Transaction.visit C15_exampleTx) := by
  decide

end BS
