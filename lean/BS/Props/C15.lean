import BS.Props.C07
import BS.Props.C02
import BS.Lemmas.Lift
import BS.Lemmas.RefAcc
/-
  C15 — The result of a visit is independent of the visitor (first half; re-parsing is stated elsewhere).
  For a visitor that never answers Break on a breakable callback, the result of `X.visit` is the result of
  `X::parse` (= the visit with `EmptyVisitor`), and both are the result of the L2 reference decoder.
  Property theorems only (helper lemmas live in BS/Lemmas/Ref*.lean).
-/
namespace BS
open Spec Ref

/-- generic statement for any L1 visit `m` refined by an L2 run `d` -/
theorem C15_indep {α} {m : (σ : Type) → VM σ α} {d : D α} (href : ∀ σ, Sim (m σ) d) {σ} (v : Visitor σ)
    (hv : ∀ st e, e.breakable = true → (v.step st e).2 = false) (st : σ) :
    (m σ v st).2 = parseOf (m Unit) ∧ parseOf (m Unit) = d.res := by
  have h1 : (m σ v st).2 = d.res := by
    rw [href, run_never d v st (noBreak_of_never v hv _ _)]
  have h2 : parseOf (m Unit) = d.res := by
    unfold parseOf
    rw [href, run_never d emptyVisitor () (noBreak_of_never _ neverBreaks_empty _ _)]
  exact ⟨by rw [h1, h2], h2⟩

/-- all never-breaking visitors also receive the same callbacks: the whole L2 trace -/
theorem C15_indep_callbacks {σ α} {m : VM σ α} {d : D α} (href : Sim m d) (v : Visitor σ)
    (hv : ∀ st e, e.breakable = true → (v.step st e).2 = false) (st : σ) :
    (m v st).1 = feed v st d.trace := by
  rw [href, run_never d v st (noBreak_of_never v hv _ _)]

theorem C15_indep_txins {σ} (s : Slice) (hs : s.len < 2 ^ 62) (v : Visitor σ)
    (hv : ∀ st e, e.breakable = true → (v.step st e).2 = false) (st : σ) :
    (TxIns.visit s v st).2 = parseOf (TxIns.visit s) ∧ parseOf (TxIns.visit s) = (decTxIns s).res :=
  C15_indep (m := fun σ => (TxIns.visit s : VM σ _)) (fun _ => sim_txins s hs) v hv st

theorem C15_indep_txouts {σ} (s : Slice) (hs : s.len < 2 ^ 62) (v : Visitor σ)
    (hv : ∀ st e, e.breakable = true → (v.step st e).2 = false) (st : σ) :
    (TxOuts.visit s v st).2 = parseOf (TxOuts.visit s) ∧ parseOf (TxOuts.visit s) = (decTxOuts s).res :=
  C15_indep (m := fun σ => (TxOuts.visit s : VM σ _)) (fun _ => sim_txouts s hs) v hv st

theorem C15_indep_witnesses {σ} (s : Slice) (hs : s.len < 2 ^ 62) (n : Nat) (v : Visitor σ)
    (hv : ∀ st e, e.breakable = true → (v.step st e).2 = false) (st : σ) :
    (Witnesses.visit s n v st).2 = parseOf (Witnesses.visit s n) ∧ parseOf (Witnesses.visit s n) = (decWitnesses s n).res :=
  C15_indep (m := fun σ => (Witnesses.visit s n : VM σ _)) (fun _ => sim_witnesses s hs n) v hv st

theorem C15_indep_transaction {σ} (s : Slice) (hs : s.len < 2 ^ 62) (v : Visitor σ)
    (hv : ∀ st e, e.breakable = true → (v.step st e).2 = false) (st : σ) :
    (Transaction.visit s v st).2 = parseOf (Transaction.visit s) ∧ parseOf (Transaction.visit s) = (decTransaction s).res :=
  C15_indep (m := fun σ => (Transaction.visit s : VM σ _)) (fun _ => sim_transaction s hs) v hv st

theorem C15_indep_header {σ} (s : Slice) (v : Visitor σ)
    (hv : ∀ st e, e.breakable = true → (v.step st e).2 = false) (st : σ) :
    (BlockHeader.visit s v st).2 = parseOf (BlockHeader.visit s) ∧ parseOf (BlockHeader.visit s) = (decHeader s).res :=
  C15_indep (m := fun σ => (BlockHeader.visit s : VM σ _)) (fun _ => sim_header s) v hv st

theorem C15_indep_block {σ} (s : Slice) (hs : s.len < 2 ^ 62) (v : Visitor σ)
    (hv : ∀ st e, e.breakable = true → (v.step st e).2 = false) (st : σ) :
    (Block.visit s v st).2 = parseOf (Block.visit s) ∧ parseOf (Block.visit s) = (decBlock s).res :=
  C15_indep (m := fun σ => (Block.visit s : VM σ _)) (fun _ => sim_block s hs) v hv st

/-- the witness decoder of L2 also returns the `is_empty` flag, dropped here -/
theorem C15_indep_witness {σ} (s : Slice) (hs : s.len < 2 ^ 62) (v : Visitor σ)
    (hv : ∀ st e, e.breakable = true → (v.step st e).2 = false) (st : σ) :
    (Witness.visit s v st).2 = parseOf (Witness.visit s) ∧
    parseOf (Witness.visit s) = (decWitness s).res.map' (fun x => (x.1, x.2.2)) := by
  rw [← witnessD_res]
  exact C15_indep (m := fun σ => (Witness.visit s : VM σ _)) (fun _ => sim_witness s hs) v hv st

/-! ### non-vacuity: the recorder and the counting visitor never break; on a concrete transaction they get the
    same result as `parse` -/

def C15_exampleTx : Slice :=
  ⟨0, [1, 0, 0, 0, 1] ++ List.replicate 36 0 ++ [0, 255, 255, 255, 255, 1, 1, 0, 0, 0, 0, 0, 0, 0, 0, 0, 0, 0, 0]⟩

example : ∀ st e, e.breakable = true → (recorder.step st e).2 = false := fun _ _ _ => rfl
example : ∀ st e, e.breakable = true → (counter.step st e).2 = false := fun _ _ _ => rfl
example : (parseOf (Transaction.visit C15_exampleTx)).isOk = true := by decide
example : (Transaction.visit C15_exampleTx recorder []).2 = parseOf (Transaction.visit C15_exampleTx) := by decide
/-- a breaking visitor does get a different result: the hypothesis cannot be dropped -/
example : (Transaction.visit C15_exampleTx (breakAt 0) ([], 0)).2 ≠ parseOf (Transaction.visit C15_exampleTx) := by
  decide/-! ## L1 corollaries (generated by tools/genlift.py) -/
section L1
open BS.Ref BS.Lift

/-- re-parsing the view of a parsed object: the same object, an empty remainder and the same callback sequence -/
theorem C15_reparse_txins {s : Slice} {o : TxInsV} {rem : Slice} (h : (decTxIns s).res = .ok (o, rem)) :
    decTxIns o.slice = ⟨(decTxIns s).trace, .ok (o, ⟨rem.base, []⟩)⟩ := by
  obtain ⟨k, hk, ho, hr⟩ := C02_partition_txins h
  obtain ⟨b, p⟩ := s
  have hlen : p.length - rem.bytes.length = k := by
    rw [hr]; simp [Slice.len] at hk ⊢; omega
  have := C07_exact_txins h []
  rw [hlen, List.append_nil] at this
  rw [ho]; exact this

/-- re-parsing the view of a parsed object: the same object, an empty remainder and the same callback sequence -/
theorem C15_reparse_txouts {s : Slice} {o : TxOutsV} {rem : Slice} (h : (decTxOuts s).res = .ok (o, rem)) :
    decTxOuts o.slice = ⟨(decTxOuts s).trace, .ok (o, ⟨rem.base, []⟩)⟩ := by
  obtain ⟨k, hk, ho, hr⟩ := C02_partition_txouts h
  obtain ⟨b, p⟩ := s
  have hlen : p.length - rem.bytes.length = k := by
    rw [hr]; simp [Slice.len] at hk ⊢; omega
  have := C07_exact_txouts h []
  rw [hlen, List.append_nil] at this
  rw [ho]; exact this

/-- re-parsing the view of a parsed object: the same object, an empty remainder and the same callback sequence -/
theorem C15_reparse_witnesses (n : Nat) {s : Slice} {o : WitnessesV} {rem : Slice} (h : (decWitnesses s n).res = .ok (o, rem)) :
    decWitnesses o.slice n = ⟨(decWitnesses s n).trace, .ok (o, ⟨rem.base, []⟩)⟩ := by
  obtain ⟨k, hk, ho, hr⟩ := C02_partition_witnesses n h
  obtain ⟨b, p⟩ := s
  have hlen : p.length - rem.bytes.length = k := by
    rw [hr]; simp [Slice.len] at hk ⊢; omega
  have := C07_exact_witnesses n h []
  rw [hlen, List.append_nil] at this
  rw [ho]; exact this

/-- re-parsing the view of a parsed object: the same object, an empty remainder and the same callback sequence -/
theorem C15_reparse_transaction {s : Slice} {o : TxV} {rem : Slice} (h : (decTransaction s).res = .ok (o, rem)) :
    decTransaction o.slice = ⟨(decTransaction s).trace, .ok (o, ⟨rem.base, []⟩)⟩ := by
  obtain ⟨k, hk, ho, hr⟩ := C02_partition_transaction h
  obtain ⟨b, p⟩ := s
  have hlen : p.length - rem.bytes.length = k := by
    rw [hr]; simp [Slice.len] at hk ⊢; omega
  have := C07_exact_transaction h []
  rw [hlen, List.append_nil] at this
  rw [ho]; exact this

/-- re-parsing the view of a parsed object: the same object, an empty remainder and the same callback sequence -/
theorem C15_reparse_header {s : Slice} {o : HeaderV} {rem : Slice} (h : (decHeader s).res = .ok (o, rem)) :
    decHeader o.slice = ⟨(decHeader s).trace, .ok (o, ⟨rem.base, []⟩)⟩ := by
  obtain ⟨k, hk, ho, hr⟩ := C02_partition_header h
  obtain ⟨b, p⟩ := s
  have hlen : p.length - rem.bytes.length = k := by
    rw [hr]; simp [Slice.len] at hk ⊢; omega
  have := C07_exact_header h []
  rw [hlen, List.append_nil] at this
  rw [ho]; exact this

/-- re-parsing the view of a parsed object: the same object, an empty remainder and the same callback sequence -/
theorem C15_reparse_block {s : Slice} {o : BlockV} {rem : Slice} (h : (decBlock s).res = .ok (o, rem)) :
    decBlock o.slice = ⟨(decBlock s).trace, .ok (o, ⟨rem.base, []⟩)⟩ := by
  obtain ⟨k, hk, ho, hr⟩ := C02_partition_block h
  obtain ⟨b, p⟩ := s
  have hlen : p.length - rem.bytes.length = k := by
    rw [hr]; simp [Slice.len] at hk ⊢; omega
  have := C07_exact_block h []
  rw [hlen, List.append_nil] at this
  rw [ho]; exact this

theorem C15_reparse_script {s : Slice} {o : ScriptV} {rem : Slice} (h : decScript s = .ok (o, rem)) :
    decScript o.slice = .ok (o, ⟨rem.base, []⟩) := by
  obtain ⟨k, hk, ho, hr⟩ := C02_partition_script h
  obtain ⟨b, p⟩ := s
  have hlen : p.length - rem.bytes.length = k := by
    rw [hr]; simp [Slice.len] at hk ⊢; omega
  have := C07_exact_script h []
  rw [hlen, List.append_nil] at this
  rw [ho]; exact this

theorem C15_reparse_outpoint {s : Slice} {o : OutPointV} {rem : Slice} (h : decOutPoint s = .ok (o, rem)) :
    decOutPoint o.slice = .ok (o, ⟨rem.base, []⟩) := by
  obtain ⟨k, hk, ho, hr⟩ := C02_partition_outpoint h
  obtain ⟨b, p⟩ := s
  have hlen : p.length - rem.bytes.length = k := by
    rw [hr]; simp [Slice.len] at hk ⊢; omega
  have := C07_exact_outpoint h []
  rw [hlen, List.append_nil] at this
  rw [ho]; exact this

theorem C15_reparse_txin {s : Slice} {o : TxInV} {rem : Slice} (h : decTxIn s = .ok (o, rem)) :
    decTxIn o.slice = .ok (o, ⟨rem.base, []⟩) := by
  obtain ⟨k, hk, ho, hr⟩ := C02_partition_txin h
  obtain ⟨b, p⟩ := s
  have hlen : p.length - rem.bytes.length = k := by
    rw [hr]; simp [Slice.len] at hk ⊢; omega
  have := C07_exact_txin h []
  rw [hlen, List.append_nil] at this
  rw [ho]; exact this

theorem C15_reparse_txout {s : Slice} {o : TxOutV} {rem : Slice} (h : decTxOut s = .ok (o, rem)) :
    decTxOut o.slice = .ok (o, ⟨rem.base, []⟩) := by
  obtain ⟨k, hk, ho, hr⟩ := C02_partition_txout h
  obtain ⟨b, p⟩ := s
  have hlen : p.length - rem.bytes.length = k := by
    rw [hr]; simp [Slice.len] at hk ⊢; omega
  have := C07_exact_txout h []
  rw [hlen, List.append_nil] at this
  rw [ho]; exact this

/-- on the model of the code: parse an input, then `parse` / `self_visit` the object's own bytes — equal object, empty
    remainder, and the recording visitor receives the same callbacks as on the original input -/
theorem C15_L1_reparse_txins {s : Slice} (hs : s.len < 2 ^ 62) {o : TxInsV} {rem : Slice}
    (h : parseOf (TxIns.visit s) = .ok (o, rem)) :
    parseOf (TxIns.visit o.slice) = .ok (o, ⟨rem.base, []⟩) ∧
    (TxIns.visit o.slice) recorder [] = (((TxIns.visit s) recorder []).1, .ok (o, ⟨rem.base, []⟩)) := by
  rw [parseOf_txins s hs] at h
  obtain ⟨k, hk, ho, _⟩ := C02_partition_txins h
  have hl : o.slice.len < 2 ^ 62 := by
    rw [ho]; show (s.bytes.take k).length < 2 ^ 62
    rw [List.length_take]; unfold Slice.len at hs hk; omega
  have hre := C15_reparse_txins h
  refine ⟨by rw [parseOf_txins _ hl, hre], ?_⟩
  rw [recorder_eq (fun v st => refine_txins _ hl v st), recorder_eq (fun v st => refine_txins s hs v st), hre]

/-- on the model of the code: parse an input, then `parse` / `self_visit` the object's own bytes — equal object, empty
    remainder, and the recording visitor receives the same callbacks as on the original input -/
theorem C15_L1_reparse_txouts {s : Slice} (hs : s.len < 2 ^ 62) {o : TxOutsV} {rem : Slice}
    (h : parseOf (TxOuts.visit s) = .ok (o, rem)) :
    parseOf (TxOuts.visit o.slice) = .ok (o, ⟨rem.base, []⟩) ∧
    (TxOuts.visit o.slice) recorder [] = (((TxOuts.visit s) recorder []).1, .ok (o, ⟨rem.base, []⟩)) := by
  rw [parseOf_txouts s hs] at h
  obtain ⟨k, hk, ho, _⟩ := C02_partition_txouts h
  have hl : o.slice.len < 2 ^ 62 := by
    rw [ho]; show (s.bytes.take k).length < 2 ^ 62
    rw [List.length_take]; unfold Slice.len at hs hk; omega
  have hre := C15_reparse_txouts h
  refine ⟨by rw [parseOf_txouts _ hl, hre], ?_⟩
  rw [recorder_eq (fun v st => refine_txouts _ hl v st), recorder_eq (fun v st => refine_txouts s hs v st), hre]

/-- on the model of the code: parse an input, then `parse` / `self_visit` the object's own bytes — equal object, empty
    remainder, and the recording visitor receives the same callbacks as on the original input -/
theorem C15_L1_reparse_witnesses {s : Slice} {n : Nat} (hs : s.len < 2 ^ 62) {o : WitnessesV} {rem : Slice}
    (h : parseOf (Witnesses.visit s n) = .ok (o, rem)) :
    parseOf (Witnesses.visit o.slice n) = .ok (o, ⟨rem.base, []⟩) ∧
    (Witnesses.visit o.slice n) recorder [] = (((Witnesses.visit s n) recorder []).1, .ok (o, ⟨rem.base, []⟩)) := by
  rw [parseOf_witnesses s hs n] at h
  obtain ⟨k, hk, ho, _⟩ := C02_partition_witnesses n h
  have hl : o.slice.len < 2 ^ 62 := by
    rw [ho]; show (s.bytes.take k).length < 2 ^ 62
    rw [List.length_take]; unfold Slice.len at hs hk; omega
  have hre := C15_reparse_witnesses n h
  refine ⟨by rw [parseOf_witnesses _ hl n, hre], ?_⟩
  rw [recorder_eq (fun v st => refine_witnesses _ hl n v st), recorder_eq (fun v st => refine_witnesses s hs n v st), hre]

/-- on the model of the code: parse an input, then `parse` / `self_visit` the object's own bytes — equal object, empty
    remainder, and the recording visitor receives the same callbacks as on the original input -/
theorem C15_L1_reparse_transaction {s : Slice} (hs : s.len < 2 ^ 62) {o : TxV} {rem : Slice}
    (h : parseOf (Transaction.visit s) = .ok (o, rem)) :
    parseOf (Transaction.visit o.slice) = .ok (o, ⟨rem.base, []⟩) ∧
    (Transaction.visit o.slice) recorder [] = (((Transaction.visit s) recorder []).1, .ok (o, ⟨rem.base, []⟩)) := by
  rw [parseOf_transaction s hs] at h
  obtain ⟨k, hk, ho, _⟩ := C02_partition_transaction h
  have hl : o.slice.len < 2 ^ 62 := by
    rw [ho]; show (s.bytes.take k).length < 2 ^ 62
    rw [List.length_take]; unfold Slice.len at hs hk; omega
  have hre := C15_reparse_transaction h
  refine ⟨by rw [parseOf_transaction _ hl, hre], ?_⟩
  rw [recorder_eq (fun v st => refine_transaction _ hl v st), recorder_eq (fun v st => refine_transaction s hs v st), hre]

/-- on the model of the code: parse an input, then `parse` / `self_visit` the object's own bytes — equal object, empty
    remainder, and the recording visitor receives the same callbacks as on the original input -/
theorem C15_L1_reparse_block {s : Slice} (hs : s.len < 2 ^ 62) {o : BlockV} {rem : Slice}
    (h : parseOf (Block.visit s) = .ok (o, rem)) :
    parseOf (Block.visit o.slice) = .ok (o, ⟨rem.base, []⟩) ∧
    (Block.visit o.slice) recorder [] = (((Block.visit s) recorder []).1, .ok (o, ⟨rem.base, []⟩)) := by
  rw [parseOf_block s hs] at h
  obtain ⟨k, hk, ho, _⟩ := C02_partition_block h
  have hl : o.slice.len < 2 ^ 62 := by
    rw [ho]; show (s.bytes.take k).length < 2 ^ 62
    rw [List.length_take]; unfold Slice.len at hs hk; omega
  have hre := C15_reparse_block h
  refine ⟨by rw [parseOf_block _ hl, hre], ?_⟩
  rw [recorder_eq (fun v st => refine_block _ hl v st), recorder_eq (fun v st => refine_block s hs v st), hre]


end L1

end BS
