import BS.Impl.Num
/-
  Views (the parsed objects of src/bsl/*), visitor events (src/visit.rs), and the visitor monad.
-/
namespace BS

/-- `Script { slice, from }` (script.rs:10-13) -/
structure ScriptV where
  slice : Slice
  from_ : Nat
  deriving DecidableEq, Repr, Inhabited

/-- `OutPoint { slice }` (out_point.rs:5-7) -/
structure OutPointV where
  slice : Slice
  deriving DecidableEq, Repr, Inhabited

/-- `TxIn { slice, prevout, script_sig, sequence }` (tx_in.rs:9-14) -/
structure TxInV where
  slice : Slice
  prevout : OutPointV
  scriptSig : ScriptV
  sequence : Nat
  deriving DecidableEq, Repr, Inhabited

/-- `TxOut { slice, value, script_pubkey }` (tx_out.rs:7-11) -/
structure TxOutV where
  slice : Slice
  value : Nat
  scriptPubkey : ScriptV
  deriving DecidableEq, Repr, Inhabited

/-- `TxIns { slice, n }` (tx_ins.rs:9-12) -/
structure TxInsV where
  slice : Slice
  n : Nat
  deriving DecidableEq, Repr, Inhabited

/-- `TxOuts { slice, n }` (tx_outs.rs:9-12) -/
structure TxOutsV where
  slice : Slice
  n : Nat
  deriving DecidableEq, Repr, Inhabited

/-- `Witness { slice }` (witness.rs:8-10) -/
structure WitnessV where
  slice : Slice
  deriving DecidableEq, Repr, Inhabited

/-- `Witnesses { slice, all_empty }` (witnesses.rs:8-11) -/
structure WitnessesV where
  slice : Slice
  allEmpty : Bool
  deriving DecidableEq, Repr, Inhabited

/-- `Transaction { slice, inputs_outputs_len : Option<NonZeroUsize> }` (transaction.rs:11-17) -/
structure TxV where
  slice : Slice
  ioLen : Option Nat
  deriving DecidableEq, Repr, Inhabited

/-- `BlockHeader { slice, version, time, bits, nonce }` (block_header.rs:10-16) -/
structure HeaderV where
  slice : Slice
  version : Int
  time : Nat
  bits : Nat
  nonce : Nat
  deriving DecidableEq, Repr, Inhabited

/-- `Block { slice, header, total_txs }` (block.rs:7-11) -/
structure BlockV where
  slice : Slice
  header : HeaderV
  totalTxs : Nat
  deriving DecidableEq, Repr, Inhabited

/-- one call of a `Visitor` method (visit.rs:60-93) -/
inductive Event where
  | blockHeader (h : HeaderV)
  | blockBegin (total : Nat)
  | transaction (tx : TxV)
  | txIns (total : Nat)
  | txIn (vin : Nat) (i : TxInV)
  | txOuts (total : Nat)
  | txOut (vout : Nat) (o : TxOutV)
  | witness (vin : Nat)
  | witnessTotal (n : Nat)
  | witnessElement (i : Nat) (e : Slice)
  | witnessEnd
  deriving DecidableEq, Repr, Inhabited

/-- the methods that return `ControlFlow<()>` -/
def Event.breakable : Event → Bool
  | .blockHeader _ | .transaction _ | .txIn _ _ | .txOut _ _ | .witness _ => true
  | _ => false

/-- a user visitor: an arbitrary state machine; `true` = `ControlFlow::Break(())`.
    What it returns for a method whose Rust signature returns `()` is never looked at. -/
structure Visitor (σ : Type) where
  step : σ → Event → σ × Bool

/-- a visit: runs against a visitor and its state, returns the new state and the result -/
def VM (σ α : Type) : Type := Visitor σ → σ → σ × Res α

namespace VM
variable {σ α β : Type}

@[inline] def pure' (a : α) : VM σ α := fun _ st => (st, .ok a)

@[inline] def bind' (m : VM σ α) (f : α → VM σ β) : VM σ β := fun v st =>
  match m v st with
  | (st', .ok a) => f a v st'
  | (st', .err e) => (st', .err e)
  | (st', .panic p) => (st', .panic p)

instance : Monad (VM σ) where
  pure := pure'
  bind := bind'

/-- a computation that does not touch the visitor (every `?` on a plain `Result`) -/
@[inline] def lift (r : Res α) : VM σ α := fun _ st => (st, r)

/-- call a visitor method that returns `()` -/
@[inline] def emitN (e : Event) : VM σ Unit := fun v st => ((v.step st e).1, .ok ())

/-- call a visitor method that returns `ControlFlow<()>` and `return Err(VisitBreak)` on `Break` -/
@[inline] def emitB (e : Event) : VM σ Unit := fun v st =>
  let r := v.step st e
  if r.2 then (r.1, .err .visitBreak) else (r.1, .ok ())
end VM

/-- `EmptyVisitor` (visit.rs:100-101) -/
def emptyVisitor : Visitor Unit := ⟨fun _ _ => ((), false)⟩

/-- the recording visitor: never breaks, remembers every call (newest first) -/
def recorder : Visitor (List Event) := ⟨fun st e => (e :: st, false)⟩

/-- records every call and breaks at the `k`-th breakable one (0-based); state = (log newest first, breakable calls seen) -/
def breakAt (k : Nat) : Visitor (List Event × Nat) :=
  ⟨fun st e =>
    if e.breakable then ((e :: st.1, st.2 + 1), st.2 == k) else ((e :: st.1, st.2), false)⟩

end BS
