import BS.Impl.Visit
/-
  L1: the parsers of src/bsl/*, transcribed statement by statement.
  `X.consumed()` is `parsed.as_ref().len()` (parse_result.rs:31-33).
-/
namespace BS
open VM

/-- `Script::parse` (script.rs:17-29) -/
def Script.parse (s : Slice) : Res (ScriptV × Slice) := do
  let (n, consumed) ← scanLenQ s 0
  let (scriptBytes, remaining) ← s.splitAtChecked (satAdd consumed n)
  pure (⟨scriptBytes, consumed⟩, remaining)

/-- `Script::script` (script.rs:33-35): `&self.slice[self.from..]` -/
def ScriptV.script (v : ScriptV) : Res Slice := v.slice.from_ v.from_

/-- `OutPoint::parse` (out_point.rs:18-21) -/
def OutPoint.parse (s : Slice) : Res (OutPointV × Slice) := do
  let (sl, remaining) ← s.splitAtChecked 36
  pure (⟨sl⟩, remaining)

/-- `OutPoint::txid` (out_point.rs:25-27) -/
def OutPointV.txid (v : OutPointV) : Res Slice := v.slice.to_ 32
/-- `OutPoint::vout` (out_point.rs:29-35) -/
def OutPointV.vout (v : OutPointV) : Res Nat := do
  let a ← v.slice.range 32 36
  if a.len = 4 then pure (leN a.bytes) else .panic .expect

/-- `TxIn::parse` (tx_in.rs:17-29) -/
def TxIn.parse (s : Slice) : Res (TxInV × Slice) := do
  let (outPoint, r1) ← OutPoint.parse s
  let (script, r2) ← Script.parse r1
  let sequence ← Num.read 4 r2
  let consumed ← addU script.slice.len 40
  let sl ← s.to_ consumed
  let rem ← s.from_ consumed
  pure (⟨sl, outPoint, script, sequence⟩, rem)

def TxInV.scriptSigBytes (v : TxInV) : Res Slice := v.scriptSig.script

/-- `TxOut::parse` (tx_out.rs:13-25) -/
def TxOut.parse (s : Slice) : Res (TxOutV × Slice) := do
  let value ← Num.read 8 s
  let rest ← s.from_ 8
  let (script, remaining) ← Script.parse rest
  let consumed ← addU 8 script.slice.len
  let sl ← s.to_ consumed
  pure (⟨sl, value, script⟩, remaining)

def TxOutV.scriptPubkeyBytes (v : TxOutV) : Res Slice := v.scriptPubkey.script

/-- the `for i in 0..total_inputs` loop of `TxIns::visit` (tx_ins.rs:19-25): `rem` iterations left -/
def TxIns.loop {σ} (s : Slice) : (rem i consumed : Nat) → VM σ Nat
  | 0, _, consumed => pure consumed
  | rem + 1, i, consumed => do
    let sub ← lift (s.from_ consumed)
    let (txIn, _) ← lift (TxIn.parse sub)
    let consumed ← lift (addU consumed txIn.slice.len)
    emitB (.txIn i txIn)
    TxIns.loop s rem (i + 1) consumed

/-- `TxIns::visit` (tx_ins.rs:15-35) -/
def TxIns.visit {σ} (s : Slice) : VM σ (TxInsV × Slice) := do
  let (total, consumed) ← lift (scanLenQ s 0)
  emitN (.txIns total)
  let consumed ← TxIns.loop s total 0 consumed
  let rem ← lift (s.from_ consumed)
  let sl ← lift (s.to_ consumed)
  pure (⟨sl, total⟩, rem)

/-- `TxIns::is_empty` / `TxOuts::is_empty` / `Witness::is_empty`: `self.slice[0] == 0` -/
def firstIsZero (s : Slice) : Res Bool := do
  let b ← s.index 0
  pure (b == 0)

/-- the loop of `TxOuts::visit` (tx_outs.rs:21-27) -/
def TxOuts.loop {σ} (s : Slice) : (rem i consumed : Nat) → VM σ Nat
  | 0, _, consumed => pure consumed
  | rem + 1, i, consumed => do
    let sub ← lift (s.from_ consumed)
    let (txOut, _) ← lift (TxOut.parse sub)
    let consumed ← lift (addU consumed txOut.slice.len)
    emitB (.txOut i txOut)
    TxOuts.loop s rem (i + 1) consumed

/-- `TxOuts::visit` (tx_outs.rs:15-36) -/
def TxOuts.visit {σ} (s : Slice) : VM σ (TxOutsV × Slice) := do
  let (total, consumed) ← lift (scanLenQ s 0)
  emitN (.txOuts total)
  let consumed ← TxOuts.loop s total 0 consumed
  let rem ← lift (s.from_ consumed)
  let sl ← lift (s.to_ consumed)
  pure (⟨sl, total⟩, rem)

/-- the loop of `Witness::visit` (witness.rs:26-33) -/
def Witness.loop {σ} (s : Slice) : (rem i consumed : Nat) → VM σ Nat
  | 0, _, consumed => pure consumed
  | rem + 1, i, consumed => do
    let sub ← lift (s.from_ consumed)
    let (len, consumed) ← lift (scanLenQ sub consumed)
    let el ← lift (match s.get? consumed (satAdd consumed len) with
                   | some e => Res.ok e
                   | none => Res.err .moreBytesNeeded)
    let consumed ← lift (addU consumed len)
    emitN (.witnessElement i el)
    Witness.loop s rem (i + 1) consumed

/-- `Witness::visit` (witness.rs:20-40) -/
def Witness.visit {σ} (s : Slice) : VM σ (WitnessV × Slice) := do
  let (n, consumed) ← lift (scanLenQ s 0)
  emitN (.witnessTotal n)
  let consumed ← Witness.loop s n 0 consumed
  let sl ← lift (s.to_ consumed)
  let rem ← lift (s.from_ consumed)
  pure (⟨sl⟩, rem)

/-- the loop of `Witnesses::visit` (witnesses.rs:34-48): carries `remaining`, `consumed`, `all_empty` -/
def Witnesses.loop {σ} : (rem i : Nat) → (remaining : Slice) → (consumed : Nat) → (allEmpty : Bool) →
    VM σ (Nat × Bool)
  | 0, _, _, consumed, allEmpty => pure (consumed, allEmpty)
  | rem + 1, i, remaining, consumed, allEmpty => do
    emitB (.witness i)
    let (w, r) ← Witness.visit remaining
    emitN .witnessEnd
    let consumed ← lift (addU consumed w.slice.len)
    let e ← lift (firstIsZero w.slice)
    Witnesses.loop rem (i + 1) r consumed (if !e then false else allEmpty)

/-- `Witnesses::visit` (witnesses.rs:25-54) -/
def Witnesses.visit {σ} (s : Slice) (totalInputs : Nat) : VM σ (WitnessesV × Slice) := do
  let (consumed, allEmpty) ← Witnesses.loop totalInputs 0 s 0 true
  let sl ← lift (s.to_ consumed)
  let rem ← lift (s.from_ consumed)
  pure (⟨sl, allEmpty⟩, rem)

/-- `NonZeroUsize::new` -/
def nonZero (n : Nat) : Option Nat := if n = 0 then none else some n

/-- `match visit.visit_transaction(&tx) { Continue => Ok(..), Break => Err(VisitBreak) }` -/
def Transaction.finish {σ} (s : Slice) (consumed : Nat) (tx : TxV) : VM σ (TxV × Slice) := do
  emitB (.transaction tx)
  let rem ← lift (s.from_ consumed)
  pure (tx, rem)

/-- `Transaction::visit` (transaction.rs:20-64) -/
def Transaction.visit {σ} (s : Slice) : VM σ (TxV × Slice) := do
  let _version ← lift (Num.readI32 s)
  let s4 ← lift (s.from_ 4)
  let (inputs, r) ← TxIns.visit s4
  if ← lift (firstIsZero inputs.slice) then
    let segwitFlag ← lift (Num.read 1 r)
    if segwitFlag = 1 then
      let r1 ← lift (r.from_ 1)
      let (inputs, r2) ← TxIns.visit r1
      let (outputs, r3) ← TxOuts.visit r2
      let (witnesses, r4) ← Witnesses.visit r3 inputs.n
      let insEmpty ← lift (firstIsZero inputs.slice)
      if !insEmpty && witnesses.allEmpty then
        lift (.err .segwitFlagWithoutWitnesses)
      else
        let _locktime ← lift (Num.read 4 r4)
        let c ← lift (addU 10 inputs.slice.len)
        let c ← lift (addU c outputs.slice.len)
        let consumed ← lift (addU c witnesses.slice.len)
        let ioLen ← lift (addU inputs.slice.len outputs.slice.len)
        let sl ← lift (s.to_ consumed)
        Transaction.finish s consumed ⟨sl, nonZero ioLen⟩
    else
      lift (.err (.unknownSegwitFlag (UInt8.ofNat segwitFlag)))
  else
    let (outputs, r1) ← TxOuts.visit r
    let _locktime ← lift (Num.read 4 r1)
    let c ← lift (addU inputs.slice.len outputs.slice.len)
    let consumed ← lift (addU c 8)
    let sl ← lift (s.to_ consumed)
    Transaction.finish s consumed ⟨sl, none⟩

/-- `BlockHeader::visit` (block_header.rs:19-39) -/
def BlockHeader.visit {σ} (s : Slice) : VM σ (HeaderV × Slice) := do
  if s.len < 80 then lift (.err .moreBytesNeeded) else
  let expect {α} (r : Res α) : Res α := match r with
    | .err _ => .panic .expect
    | x => x
  let version ← lift (do let a ← s.range 0 4; expect (Num.readI32 a))
  let time ← lift (do let a ← s.range 68 72; expect (Num.read 4 a))
  let bits ← lift (do let a ← s.range 72 76; expect (Num.read 4 a))
  let nonce ← lift (do let a ← s.range 76 80; expect (Num.read 4 a))
  let sl ← lift (s.to_ 80)
  let header : HeaderV := ⟨sl, version, time, bits, nonce⟩
  emitB (.blockHeader header)
  let rem ← lift (s.from_ 80)
  pure (header, rem)

/-- the loop of `Block::visit` (block.rs:21-24) -/
def Block.loop {σ} (s : Slice) : (rem consumed : Nat) → VM σ Nat
  | 0, consumed => pure consumed
  | rem + 1, consumed => do
    let sub ← lift (s.from_ consumed)
    let (tx, _) ← Transaction.visit sub
    let consumed ← lift (addU consumed tx.slice.len)
    Block.loop s rem consumed

/-- `Block::visit` (block.rs:14-34) -/
def Block.visit {σ} (s : Slice) : VM σ (BlockV × Slice) := do
  let (header, r) ← BlockHeader.visit s
  let (totalTxs, consumed) ← lift (scanLenQ r 0)
  let consumed ← lift (addU consumed 80)
  emitN (.blockBegin totalTxs)
  let consumed ← Block.loop s totalTxs consumed
  let (sl, remaining) ← lift (s.splitAt consumed)
  pure (⟨sl, header, totalTxs⟩, remaining)

/-- `Parse::parse` for a `Visit` type: `visit` with `EmptyVisitor` (visit.rs:45-49) -/
def parseOf {α} (m : VM Unit α) : Res α := (m emptyVisitor ()).2

/-! ### accessors -/

/-- `Transaction::version` (transaction.rs:68-70) -/
def TxV.version (t : TxV) : Res Int := do
  let a ← t.slice.to_ 4
  match Num.readI32 a with
  | .err _ => .panic .expect
  | x => x

/-- `Transaction::locktime` (transaction.rs:73-76) -/
def TxV.locktime (t : TxV) : Res Nat := do
  let from_ ← subU t.slice.len 4
  let a ← t.slice.from_ from_
  match Num.read 4 a with
  | .err _ => .panic .expect
  | x => x

/-- `Transaction::txid_preimage` (transaction.rs:82-94) -/
def TxV.txidPreimage (t : TxV) : Res (Slice × Slice × Slice) :=
  match t.ioLen with
  | some len => do
    let a ← t.slice.to_ 4
    let e ← addU len 6
    let b ← t.slice.range 6 e
    let f ← subU t.slice.len 4
    let c ← t.slice.from_ f
    pure (a, b, c)
  | none => pure (t.slice, Slice.staticEmpty, Slice.staticEmpty)

/-- `Transaction::weight` (transaction.rs:126-135), u64 arithmetic -/
def TxV.weight (t : TxV) : Res Nat :=
  let total := t.slice.len
  match t.ioLen with
  | some n => do
    let b ← addU n 4
    let base ← addU b 4
    let b3 ← mulU base 3
    addU b3 total
  | none => mulU total 4

/-- `BlockHeader::prev_blockhash` / `merkle_root` (block_header.rs:49-56) -/
def HeaderV.prevBlockhash (h : HeaderV) : Res Slice := h.slice.range 4 36
def HeaderV.merkleRoot (h : HeaderV) : Res Slice := h.slice.range 36 68

end BS
