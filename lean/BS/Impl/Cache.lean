import BS.Impl.Basic
/-
  L1 model of src/slice_cache.rs (feature `slice_cache`).
  `HashMap<Arc<K>, Range>` is an association list with distinct keys (lookup / insert-absent / remove),
  `VecDeque<Arc<K>>` is a list whose head is the *back* of the deque (the oldest key): `push_front` appends
  at the end, `pop_back` removes the head, `iter().rev()` walks the list from the head.
-/
namespace BS

/-- `private::Range { begin, end }` (slice_cache.rs:52-56) -/
structure Range where
  begin_ : Nat
  end_ : Nat
  deriving DecidableEq, Repr, Inhabited

namespace Range
/-- `Range::from_begin_end` (slice_cache.rs:59-65) -/
def fromBeginEnd (b e : Nat) : Option Range := if e > b then some ⟨b, e⟩ else none
/-- `Range::from_begin_len` (slice_cache.rs:67-72) -/
def fromBeginLen (b l : Nat) : Range := ⟨b, b + l⟩
/-- `Range::overlaps` (slice_cache.rs:81-83) -/
def overlaps (a b : Range) : Bool := a.begin_ < b.end_ && b.begin_ < a.end_
def isEmpty (a : Range) : Bool := a.begin_ == a.end_
def len (a : Range) : Nat := a.end_ - a.begin_
end Range

/-- `slice_cache::Error`, the success count, or a panic -/
inductive CRes where
  | ok (removed : Nat)
  | valueLargerThanBuffer
  | valueAlreadyPresent
  | panic (p : Panic)
  deriving DecidableEq, Repr, Inhabited

/-- `SliceCache<K>` (slice_cache.rs:30-50); the capacity is `buffer.length` -/
structure Cache (κ : Type) where
  buffer : Bytes
  fp : Nat
  indexes : List (κ × Range)
  insertions : List κ
  full : Bool
  deriving Repr

namespace Cache
variable {κ : Type} [DecidableEq κ]

instance : DecidableEq (Cache κ) := fun a b => by
  cases a; cases b; simp only [Cache.mk.injEq]; exact inferInstance

/-- `SliceCache::new` (slice_cache.rs:94-109) -/
def new (size : Nat) : Cache κ := ⟨List.replicate size 0, 0, [], [], false⟩

def cap (c : Cache κ) : Nat := c.buffer.length

/-- `HashMap::get` -/
def lookup (k : κ) : List (κ × Range) → Option Range
  | [] => none
  | (k', r) :: rest => if k' = k then some r else lookup k rest

/-- `HashMap::remove` -/
def erase (k : κ) : List (κ × Range) → List (κ × Range)
  | [] => []
  | (k', r) :: rest => if k' = k then rest else (k', r) :: erase k rest

/-- the inner `for (i, key) in self.insertions.iter().rev().enumerate()` of `remove_range` after commit 63cd2b2:
    skip zero-length entries; at the oldest entry that occupies storage answer `i + 1` if it overlaps, else 0 -/
def scanOldest (idx : List (κ × Range)) (r : Range) : List κ → Nat → Res Nat
  | [], _ => .ok 0
  | k :: rest, i =>
    match lookup k idx with
    | none => .panic .expect
    | some rg =>
      if rg.begin_ = rg.end_ then scanOldest idx r rest (i + 1)
      else if r.overlaps rg then .ok (i + 1) else .ok 0

/-- `for _ in 0..to_remove { pop_back().expect; indexes.remove(&back).expect }` -/
def popOldest : Nat → List (κ × Range) → List κ → Res (List (κ × Range) × List κ)
  | 0, idx, ins => .ok (idx, ins)
  | n + 1, idx, ins =>
    match ins with
    | [] => .panic .expect
    | k :: rest =>
      match lookup k idx with
      | none => .panic .expect
      | some _ => popOldest n (erase k idx) rest

/-- the outer `loop` of `remove_range` (slice_cache.rs:205-236); every productive iteration pops at least one
    entry, so `insertions.length + 1` iterations always suffice (`fuel` exhaustion is unreachable) -/
def removeLoop (r : Range) : Nat → List (κ × Range) → List κ → Nat → Res (List (κ × Range) × List κ × Nat)
  | 0, _, _, _ => .panic .expect
  | fuel + 1, idx, ins, removed =>
    match scanOldest idx r ins 0 with
    | .ok 0 => .ok (idx, ins, removed)
    | .ok n =>
      match popOldest n idx ins with
      | .ok (idx', ins') => removeLoop r fuel idx' ins' (removed + n)
      | .err e => .err e
      | .panic p => .panic p
    | .err e => .err e
    | .panic p => .panic p

/-- `remove_range` -/
def removeRange (c : Cache κ) (r : Range) : Res (Cache κ × Nat) :=
  match removeLoop r (c.insertions.length + 1) c.indexes c.insertions 0 with
  | .ok (idx, ins, n) => .ok ({ c with indexes := idx, insertions := ins }, n)
  | .err e => .err e
  | .panic p => .panic p

/-- `remove_range` as it was before commit 63cd2b2: stop at the first (oldest) entry that does not overlap -/
def removeLoopOld (r : Range) : List (κ × Range) → List κ → Nat → Res (List (κ × Range) × List κ × Nat)
  | idx, [], removed => .ok (idx, [], removed)
  | idx, k :: rest, removed =>
    match lookup k idx with
    | none => .panic .expect
    | some rg =>
      if r.overlaps rg then removeLoopOld r (erase k idx) rest (removed + 1)
      else .ok (idx, k :: rest, removed)

def removeRangeOld (c : Cache κ) (r : Range) : Res (Cache κ × Nat) :=
  match removeLoopOld r c.indexes c.insertions 0 with
  | .ok (idx, ins, n) => .ok ({ c with indexes := idx, insertions := ins }, n)
  | .err e => .err e
  | .panic p => .panic p

/-- `self.buffer[begin..end].copy_from_slice(value)` -/
def copyIn (buf : Bytes) (b e : Nat) (value : Bytes) : Res Bytes :=
  if b ≤ e ∧ e ≤ buf.length ∧ value.length = e - b then .ok (buf.take b ++ value ++ buf.drop e)
  else .panic .index

/-- the body of `insert` after the two error checks (slice_cache.rs:124-160), in the `Res` monad -/
def insertCore (c : Cache κ) (key : κ) (value : Bytes) : Res (Cache κ × Nat) := do
  let sum ← addU value.length c.fp
  let (c, removed) ←
    if sum > c.cap then do
      let (c, r) ← match Range.fromBeginEnd c.fp c.cap with
        | some rg => removeRange c rg
        | none => pure (c, 0)
      pure ({ c with fp := 0, full := true }, r)
    else pure (c, 0)
  let begin_ := c.fp
  let end_ ← addU begin_ value.length
  let insertedRange := Range.fromBeginLen begin_ value.length
  let (c, r2) ← removeRange c insertedRange
  let removed ← addU removed r2
  let buf ← copyIn c.buffer begin_ end_ value
  pure ({ c with buffer := buf, fp := end_,
                 indexes := (key, insertedRange) :: c.indexes,
                 insertions := c.insertions ++ [key] }, removed)

/-- `SliceCache::insert` (slice_cache.rs:113-160): new state and result; the state is unchanged on an error -/
def insert (c : Cache κ) (key : κ) (value : Bytes) : Cache κ × CRes :=
  if (lookup key c.indexes).isSome then (c, .valueAlreadyPresent)
  else if value.length > c.cap then (c, .valueLargerThanBuffer)
  else match insertCore c key value with
    | .ok (c', n) => (c', .ok n)
    | .err _ => (c, .panic .expect)
    | .panic p => (c, .panic p)

/-- `insert` as it was before commits 055b343 / 63cd2b2 (push first, then evict with the old loop, guarded by
    `insertions.len() > 1`) — kept to state the two defects as theorems -/
def insertOld (c : Cache κ) (key : κ) (value : Bytes) : Cache κ × CRes :=
  if (lookup key c.indexes).isSome then (c, .valueAlreadyPresent)
  else if value.length > c.cap then (c, .valueLargerThanBuffer)
  else
    let r : Res (Cache κ × Nat) := do
      let (c, removed) ←
        if value.length + c.fp > c.cap then do
          let (c, r) ← match Range.fromBeginEnd c.fp c.cap with
            | some rg => removeRangeOld c rg
            | none => pure (c, 0)
          pure ({ c with fp := 0, full := true }, r)
        else pure (c, 0)
      let begin_ := c.fp
      let end_ := begin_ + value.length
      let buf ← copyIn c.buffer begin_ end_ value
      let insertedRange := Range.fromBeginLen begin_ value.length
      let c : Cache κ := { c with buffer := buf, fp := end_, indexes := (key, insertedRange) :: c.indexes, insertions := c.insertions ++ [key] }
      if c.insertions.length > 1 then do
        let (c, r2) ← removeRangeOld c insertedRange
        pure (c, removed + r2)
      else pure (c, removed)
    match r with
    | .ok (c', n) => (c', .ok n)
    | .err _ => (c, .panic .expect)
    | .panic p => (c, .panic p)

/-- `SliceCache::get` (slice_cache.rs:163-181): `Some(&self.buffer[begin..end])` -/
def get (c : Cache κ) (k : κ) : Res (Option Bytes) :=
  match lookup k c.indexes with
  | none => .ok none
  | some r =>
    if r.begin_ ≤ r.end_ ∧ r.end_ ≤ c.buffer.length then
      .ok (some ((c.buffer.drop r.begin_).take (r.end_ - r.begin_)))
    else .panic .index

/-- `contains` (slice_cache.rs:184-186) -/
def contains (c : Cache κ) (k : κ) : Res Bool :=
  match c.get k with
  | .ok o => .ok o.isSome
  | .err e => .err e
  | .panic p => .panic p

/-- `len` (slice_cache.rs:198-200): `self.indexes.len()` -/
def len (c : Cache κ) : Nat := c.indexes.length

/-- `verif_layout` hook: free pointer, full flag, ranges oldest → newest -/
def layout (c : Cache κ) : Nat × Bool × List (Option Range) :=
  (c.fp, c.full, c.insertions.map (fun k => lookup k c.indexes))

end Cache
end BS
