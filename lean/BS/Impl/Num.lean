import BS.Impl.Basic
/-
  src/number.rs : U8/U16/U32/I32/U64 newtypes over `[u8; N]`, `read_uN`, `to_len`.
  src/bsl/len.rs : `Len`, `parse_len` (deprecated), `scan_len`, `Len::slice_len`.
-/
namespace BS

/-- `U8`, `U16`, `U32`, `I32`, `U64`: an owned `[u8; N]` (a copy, not a borrow of the input) -/
structure NumV where
  arr : Bytes
  deriving DecidableEq, Repr, Inhabited

/-- `Len` (src/bsl/len.rs:10-13) -/
structure LenV where
  consumed : Nat
  n : Nat
  deriving DecidableEq, Repr, Inhabited

namespace Num
/-- `impl_number!` `visit` (number.rs:51-63) and `U8::parse` (number.rs:36-41): `read_slice(slice, N)?`,
    then `try_into().expect(..)` (the array conversion fails iff the length is not `N`). -/
def parse (w : Nat) (s : Slice) : Res (NumV × Slice) :=
  match s.splitAtChecked w with
  | .ok (p, rem) => if p.len = w then .ok (⟨p.bytes⟩, rem) else .panic .expect
  | .err e => .err e
  | .panic p => .panic p

/-- `From<UN> for uN` : `from_le_bytes` -/
def value (v : NumV) : Nat := leN v.arr
/-- `From<I32> for i32` -/
def valueI32 (v : NumV) : Int := toI32 (leN v.arr)
/-- `From<uN> for UN` : `to_le_bytes` -/
def wrap (w : Nat) (n : Nat) : NumV := ⟨toLE w n⟩
/-- `AsRef<[u8]>` -/
def asRef (v : NumV) : Bytes := v.arr

/-- `read_u8` : `slice.first().cloned().ok_or(MoreBytesNeeded)`;
    `read_u16/u32/i32/u64` : `slice.get(..N).ok_or(MoreBytesNeeded)?.try_into().expect(..)` then `from_le_bytes` -/
def read (w : Nat) (s : Slice) : Res Nat :=
  match s.get? 0 w with
  | some p => if p.len = w then .ok (leN p.bytes) else .panic .expect
  | none => .err .moreBytesNeeded

def readI32 (s : Slice) : Res Int :=
  match read 4 s with
  | .ok n => .ok (toI32 n)
  | .err e => .err e
  | .panic p => .panic p

/-- `U64::to_len` / `U32::to_len` / `U16::to_len` (number.rs:95-130): `w` is the array width 8 / 4 / 2 -/
def toLen (w : Nat) (v : NumV) : Res LenV :=
  let n := leN v.arr
  if w = 8 then (if n > 0xFFFFFFFF then .ok ⟨9, n⟩ else .err .nonMinimalVarInt)
  else if w = 4 then (if n > 0xFFFF then .ok ⟨5, n⟩ else .err .nonMinimalVarInt)
  else (if n ≥ 0xFD then .ok ⟨3, n⟩ else .err .nonMinimalVarInt)
end Num

/-- `parse_len` (len.rs:19-30) -/
def parseLen (s : Slice) : Res LenV :=
  match s.first? with
  | none => .err .moreBytesNeeded
  | some x =>
    let wide (w : Nat) : Res LenV := do
      let rest ← s.from_ 1
      let (v, _) ← Num.parse w rest
      Num.toLen w v
    if x = 0xFF then wide 8
    else if x = 0xFE then wide 4
    else if x = 0xFD then wide 2
    else .ok ⟨1, x.toNat⟩

/-- one wide arm of `scan_len` (len.rs:36-78): `slice.get(1..1+w).ok_or(MoreBytesNeeded)?`, `try_into().expect`,
    `from_le_bytes`, minimality test, `*consumed += 1+w`. The counter is returned in every case. -/
def scanWide (s : Slice) (consumed w min : Nat) : Res Nat × Nat :=
  match s.get? 1 (1 + w) with
  | none => (.err .moreBytesNeeded, consumed)
  | some p =>
    if p.len = w then
      let n := leN p.bytes
      if n ≥ min then
        match addU consumed (1 + w) with
        | .ok c => (.ok n, c)
        | .err e => (.err e, consumed)
        | .panic q => (.panic q, consumed)
      else (.err .nonMinimalVarInt, consumed)
    else (.panic .expect, consumed)

/-- `scan_len(slice, &mut consumed)` (len.rs:34-86): result and the counter afterwards -/
def scanLen (s : Slice) (consumed : Nat) : Res Nat × Nat :=
  match s.first? with
  | none => (.err .moreBytesNeeded, consumed)
  | some x =>
    if x = 0xFF then scanWide s consumed 8 0x100000000
    else if x = 0xFE then scanWide s consumed 4 0x10000
    else if x = 0xFD then scanWide s consumed 2 0xFD
    else
      match addU consumed 1 with
      | .ok c => (.ok x.toNat, c)
      | .err e => (.err e, consumed)
      | .panic q => (.panic q, consumed)

/-- `scan_len(..)?` as used by every caller: value and new counter, or early return -/
def scanLenQ (s : Slice) (consumed : Nat) : Res (Nat × Nat) :=
  match scanLen s consumed with
  | (.ok n, c) => .ok (n, c)
  | (.err e, _) => .err e
  | (.panic p, _) => .panic p

namespace LenV
/-- `Len::slice_len` (len.rs:98-100) after the fix: `self.consumed.saturating_add(self.n as usize)` -/
def sliceLen (l : LenV) : Res Nat := .ok (satAdd l.consumed l.n)
/-- `Len::slice_len` as it was before commit 3680f45: `self.consumed + self.n as usize` -/
def sliceLenOld (l : LenV) : Res Nat := addU l.consumed l.n
end LenV

end BS
