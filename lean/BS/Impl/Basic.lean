/-
  L1 machine semantics: the Rust primitives the crate uses, with their panics.
  Everything here is import-free (core Lean only) so that the driver links as a `lean_exe`.

  usize / u64 are `Nat` with explicit range side conditions; `addU` / `subU` are the checked
  `+` / `-` of a build with overflow checks on (they *panic*), `satAdd` is `saturating_add`.
  A slice is a fat pointer: the absolute offset of its first byte inside the original input,
  and its contents.
-/
namespace BS

abbrev Bytes := List UInt8

/-- `bitcoin_slices::Error` (src/error.rs) -/
inductive Error where
  | moreBytesNeeded
  | unknownSegwitFlag (f : UInt8)
  | segwitFlagWithoutWitnesses
  | nonMinimalVarInt
  | visitBreak
  | other (code : Nat)
  deriving DecidableEq, Repr, Inhabited

/-- what a Rust panic was about -/
inductive Panic where
  | overflow     -- `attempt to add with overflow` (overflow-checks on)
  | underflow    -- `attempt to subtract with overflow`
  | index        -- slice index out of range
  | expect       -- `expect` / `unwrap` on None / Err
  deriving DecidableEq, Repr, Inhabited

/-- `Result<α, Error>` plus unwinding -/
inductive Res (α : Type) where
  | ok (a : α)
  | err (e : Error)
  | panic (p : Panic)
  deriving DecidableEq, Repr

namespace Res
@[inline] def bind {α β} (r : Res α) (f : α → Res β) : Res β :=
  match r with
  | ok a => f a
  | err e => err e
  | panic p => panic p

instance : Monad Res where
  pure := Res.ok
  bind := Res.bind

def isPanic {α} : Res α → Bool
  | panic _ => true
  | _ => false

def isOk {α} : Res α → Bool
  | ok _ => true
  | _ => false

def map' {α β} (f : α → β) : Res α → Res β
  | ok a => ok (f a)
  | err e => err e
  | panic p => panic p

@[simp] theorem bind_ok {α β} (a : α) (f : α → Res β) : (Res.ok a >>= f) = f a := rfl
@[simp] theorem bind_err {α β} (e : Error) (f : α → Res β) : (Res.err e >>= f) = Res.err e := rfl
@[simp] theorem bind_panic {α β} (p : Panic) (f : α → Res β) : (Res.panic p >>= f) = Res.panic p := rfl
@[simp] theorem pure_eq {α} (a : α) : (pure a : Res α) = Res.ok a := rfl
end Res

/-- `usize::MAX + 1` on the 64-bit targets the properties are about -/
def USIZE : Nat := 2 ^ 64

/-- usize `+` with overflow checks on -/
def addU (a b : Nat) : Res Nat :=
  if a + b < USIZE then .ok (a + b) else .panic .overflow

/-- usize `-` with overflow checks on -/
def subU (a b : Nat) : Res Nat :=
  if b ≤ a then .ok (a - b) else .panic .underflow

/-- usize `*` with overflow checks on (u64 in `weight`) -/
def mulU (a b : Nat) : Res Nat :=
  if a * b < USIZE then .ok (a * b) else .panic .overflow

/-- `usize::saturating_add` -/
def satAdd (a b : Nat) : Nat :=
  if a + b < USIZE then a + b else USIZE - 1

/-- `usize::saturating_sub` -/
def satSub (a b : Nat) : Nat := a - b

/-- a borrowed sub-slice of the input: absolute offset of its first byte + contents -/
structure Slice where
  base : Nat
  bytes : Bytes
  deriving DecidableEq, Repr, Inhabited

namespace Slice
@[inline] def len (s : Slice) : Nat := s.bytes.length

/-- `&s[a..]` -/
def from_ (s : Slice) (a : Nat) : Res Slice :=
  if a ≤ s.len then .ok ⟨s.base + a, s.bytes.drop a⟩ else .panic .index

/-- `&s[..a]` -/
def to_ (s : Slice) (a : Nat) : Res Slice :=
  if a ≤ s.len then .ok ⟨s.base, s.bytes.take a⟩ else .panic .index

/-- `&s[a..b]` -/
def range (s : Slice) (a b : Nat) : Res Slice :=
  if a ≤ b ∧ b ≤ s.len then .ok ⟨s.base + a, (s.bytes.drop a).take (b - a)⟩ else .panic .index

/-- `s.get(a..b)` -/
def get? (s : Slice) (a b : Nat) : Option Slice :=
  if a ≤ b ∧ b ≤ s.len then some ⟨s.base + a, (s.bytes.drop a).take (b - a)⟩ else none

/-- `s[i]` -/
def index (s : Slice) (i : Nat) : Res UInt8 :=
  match s.bytes[i]? with
  | some b => .ok b
  | none => .panic .index

/-- `s.first()` -/
def first? (s : Slice) : Option UInt8 := s.bytes.head?

/-- `s.split_at(n)`: panics when `n > len` -/
def splitAt (s : Slice) (n : Nat) : Res (Slice × Slice) :=
  if n ≤ s.len then .ok (⟨s.base, s.bytes.take n⟩, ⟨s.base + n, s.bytes.drop n⟩) else .panic .index

/-- src/slice.rs `split_at_checked` (and the deprecated `read_slice`, same body) -/
def splitAtChecked (s : Slice) (n : Nat) : Res (Slice × Slice) :=
  if s.len < n then .err .moreBytesNeeded else s.splitAt n

/-- the `&[]` literal: a static empty slice that is not part of the input -/
def staticEmpty : Slice := ⟨0, []⟩
end Slice

/-- little-endian value of a byte string (`uN::from_le_bytes`) -/
def leN : Bytes → Nat
  | [] => 0
  | b :: bs => b.toNat + 256 * leN bs

/-- `w` little-endian bytes of `n` (`uN::to_le_bytes`) -/
def toLE : Nat → Nat → Bytes
  | 0, _ => []
  | w + 1, n => UInt8.ofNat (n % 256) :: toLE w (n / 256)

/-- `i32::from_le_bytes`: two's complement of the 32-bit pattern -/
def toI32 (n : Nat) : Int :=
  if n < 2 ^ 31 then (n : Int) else (n : Int) - (2 ^ 32 : Nat)

/-- the 32-bit pattern of an `i32` -/
def ofI32 (i : Int) : Nat :=
  if 0 ≤ i then i.toNat else (i + (2 ^ 32 : Nat)).toNat

end BS
