import BS.Impl.Parse
import BS.Sha256
/-
  L1, feature-gated glue: output iterator (tx_outs.rs:37-101), hashing helpers
  (transaction.rs:96-124, block_header.rs:65-90), redb trait functions, FindTransaction (block.rs:70-112).
-/
namespace BS

/-- `TxOutIterator { elements, offset, tx_outs }` (tx_outs.rs:69-73) -/
structure IterV where
  elements : Nat
  offset : Nat
  outs : TxOutsV
  deriving DecidableEq, Repr, Inhabited

/-- `TxOuts::iter` (tx_outs.rs:51-59); `IntoIterator for &TxOuts` calls it -/
def TxOutsV.iter (o : TxOutsV) : Res IterV :=
  match scanLen o.slice 0 with
  | (.ok len, consumed) => .ok ⟨len, consumed, o⟩
  | (.err _, _) => .panic .expect
  | (.panic p, _) => .panic p

/-- `TxOutIterator::next` (tx_outs.rs:78-88) after commit 8386f70 -/
def IterV.next (it : IterV) : Res (Option TxOutV × IterV) :=
  if it.offset ≥ it.outs.slice.len then .ok (none, it)
  else do
    let sub ← it.outs.slice.from_ it.offset
    match TxOut.parse sub with
    | .ok (o, _) => do
      let off ← addU it.offset o.slice.len
      pure (some o, { it with offset := off, elements := satSub it.elements 1 })
    | .err _ => .panic .expect
    | .panic p => .panic p

/-- `next` as it was before commit 8386f70 (never decrements `elements`) -/
def IterV.nextOld (it : IterV) : Res (Option TxOutV × IterV) :=
  match it.next with
  | .ok (o, it') => .ok (o, { it' with elements := it.elements })
  | x => x

/-- `size_hint` (tx_outs.rs:90-92); `ExactSizeIterator::len` is its lower bound -/
def IterV.sizeHint (it : IterV) : Nat × Option Nat := (it.elements, some it.elements)

/-- run the iterator to exhaustion (at most `fuel` calls of `next`) -/
def IterV.collect : Nat → IterV → Res (List TxOutV)
  | 0, _ => .ok []
  | fuel + 1, it =>
    match it.next with
    | .ok (none, _) => .ok []
    | .ok (some o, it') =>
      match IterV.collect fuel it' with
      | .ok l => .ok (o :: l)
      | x => x
    | .err e => .err e
    | .panic p => .panic p

/-! ### hashing -/

/-- what both engines are fed: the three preimage parts, in order (streaming = concatenation) -/
def TxV.preimageBytes (t : TxV) : Res Bytes := do
  let (a, b, c) ← t.txidPreimage
  pure (a.bytes ++ b.bytes ++ c.bytes)

/-- `Transaction::txid` / `txid_sha2` -/
def TxV.txid (t : TxV) : Res Bytes := do
  let p ← t.preimageBytes
  pure (Sha256.sha256d p)

/-- `BlockHeader::block_hash` / `block_hash_sha2`; `Block::block_hash*` delegate to the header -/
def HeaderV.blockHash (h : HeaderV) : Bytes := Sha256.sha256d h.slice.bytes
def BlockV.blockHash (b : BlockV) : Bytes := b.header.blockHash

/-! ### redb -/

/-- `RedbKey::compare for OutPoint` : `data1.cmp(data2)` = lexicographic order of the bytes -/
def lexCmp : Bytes → Bytes → Ordering
  | [], [] => .eq
  | [], _ :: _ => .lt
  | _ :: _, [] => .gt
  | a :: as, b :: bs => if a < b then .lt else if b < a then .gt else lexCmp as bs

/-- `RedbValue::from_bytes` for `OutPoint` (unvalidated wrap, out_point.rs:58-63) -/
def Redb.outPointFromBytes (d : Slice) : OutPointV := ⟨d⟩
/-- … for `TxOut` (tx_out.rs:66-72): `TxOut::parse(data).expect(..).parsed_owned()` -/
def Redb.txOutFromBytes (d : Slice) : Res TxOutV :=
  match TxOut.parse d with
  | .ok (o, _) => .ok o
  | .err _ => .panic .expect
  | .panic p => .panic p
/-- … for `TxOuts` (tx_outs.rs:124-130): only the count is re-read -/
def Redb.txOutsFromBytes (d : Slice) : Res TxOutsV :=
  match scanLen d 0 with
  | (.ok n, _) => .ok ⟨d, n⟩
  | (.err _, _) => .panic .expect
  | (.panic p, _) => .panic p
/-- … for `Transaction` (transaction.rs:158-173) -/
def Redb.txFromBytes (d : Slice) : Res TxV :=
  match parseOf (Transaction.visit d) with
  | .ok (t, _) => .ok t
  | .err _ => .panic .expect
  | .panic p => .panic p
/-- `fixed_width` -/
def Redb.fixedWidthOutPoint : Option Nat := some 36
def Redb.fixedWidthOther : Option Nat := none

/-! ### FindTransaction -/

/-- `FindTransaction { to_find, tx_found }`; `tx_found` holds the bytes handed to rust-bitcoin's decoder
    (the decoder itself is outside the model). A panic inside the callback is recorded in `panicked`. -/
structure FindSt where
  toFind : Bytes
  found : Option Bytes
  panicked : Bool
  deriving DecidableEq, Repr, Inhabited

/-- `impl Visitor for FindTransaction` (block.rs:94-110): only `visit_transaction` is overridden -/
def findVisitor : Visitor FindSt :=
  ⟨fun st e =>
    match e with
    | .transaction tx =>
      match tx.txid with
      | .ok id => if st.toFind = id then ({ st with found := some tx.slice.bytes }, true) else (st, false)
      | _ => ({ st with panicked := true }, true)
    | _ => (st, false)⟩

end BS
