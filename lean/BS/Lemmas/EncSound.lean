import BS.Lemmas.EncUnique
/-
  soundness with the returned object pinned down: whatever a decoder accepts is the canonical view of the value
  whose encoding it consumed
-/
namespace BS.Enc
open BS BS.Spec

theorem decCompact_eq_ok' {s : Slice} {n : Nat} {rem : Slice} (h : decCompact s = .ok (n, rem)) :
    n < 2 ^ 64 ∧ s.bytes = encCompact n ++ rem.bytes ∧ rem.base = s.base + (encCompact n).length :=
  decCompact_eq_ok h

theorem decScript_eq_ok' {s : Slice} {o : ScriptV} {rem : Slice} (h : decScript s = .ok (o, rem)) :
    ∃ x : Bytes, x.length < 2 ^ 64 ∧ s.bytes = encVarBytes x ++ rem.bytes ∧
      rem.base = s.base + (encVarBytes x).length ∧ o = viewScript s.base x := by
  obtain ⟨x, hw, e, hb⟩ := decScript_eq_ok h
  refine ⟨x, hw, e, hb, ?_⟩
  obtain ⟨b, bs⟩ := s
  simp only at e hb ⊢
  subst e
  rw [decScript_enc b x _ hw] at h
  exact (Prod.mk.inj (Res.ok.inj h)).1.symm

theorem decOutPoint_eq_ok' {s : Slice} {o : OutPointV} {rem : Slice} (h : decOutPoint s = .ok (o, rem)) :
    ∃ x : OutPointS, x.WF ∧ s.bytes = encOutPoint x ++ rem.bytes ∧
      rem.base = s.base + (encOutPoint x).length ∧ o = viewOutPoint s.base x := by
  obtain ⟨x, hw, e, hb⟩ := decOutPoint_eq_ok h
  refine ⟨x, hw, e, hb, ?_⟩
  obtain ⟨b, bs⟩ := s
  simp only at e hb ⊢
  subst e
  rw [decOutPoint_enc b x _ hw] at h
  exact (Prod.mk.inj (Res.ok.inj h)).1.symm

theorem decTxIn_eq_ok' {s : Slice} {o : TxInV} {rem : Slice} (h : decTxIn s = .ok (o, rem)) :
    ∃ x : TxInS, x.WF ∧ s.bytes = encTxIn x ++ rem.bytes ∧
      rem.base = s.base + (encTxIn x).length ∧ o = viewTxIn s.base x := by
  obtain ⟨x, hw, e, hb⟩ := decTxIn_eq_ok h
  refine ⟨x, hw, e, hb, ?_⟩
  obtain ⟨b, bs⟩ := s
  simp only at e hb ⊢
  subst e
  rw [decTxIn_enc b x _ hw] at h
  exact (Prod.mk.inj (Res.ok.inj h)).1.symm

theorem decTxOut_eq_ok' {s : Slice} {o : TxOutV} {rem : Slice} (h : decTxOut s = .ok (o, rem)) :
    ∃ x : TxOutS, x.WF ∧ s.bytes = encTxOut x ++ rem.bytes ∧
      rem.base = s.base + (encTxOut x).length ∧ o = viewTxOut s.base x := by
  obtain ⟨x, hw, e, hb⟩ := decTxOut_eq_ok h
  refine ⟨x, hw, e, hb, ?_⟩
  obtain ⟨b, bs⟩ := s
  simp only at e hb ⊢
  subst e
  rw [decTxOut_enc b x _ hw] at h
  exact (Prod.mk.inj (Res.ok.inj h)).1.symm

theorem decTxIns_eq_ok' {s : Slice} {o : TxInsV} {rem : Slice} (h : (decTxIns s).res = .ok (o, rem)) :
    ∃ l : List TxInS, l.length < 2 ^ 64 ∧ (∀ x ∈ l, x.WF) ∧ s.bytes = encTxIns l ++ rem.bytes ∧
      rem.base = s.base + (encTxIns l).length ∧ o = viewTxIns s.base l := by
  obtain ⟨x, hn, hw, e, hb⟩ := decTxIns_eq_ok h
  refine ⟨x, hn, hw, e, hb, ?_⟩
  obtain ⟨b, bs⟩ := s
  simp only at e hb ⊢
  subst e
  rw [decTxIns_enc b x _ hn hw] at h
  exact (Prod.mk.inj (Res.ok.inj h)).1.symm

theorem decTxOuts_eq_ok' {s : Slice} {o : TxOutsV} {rem : Slice} (h : (decTxOuts s).res = .ok (o, rem)) :
    ∃ l : List TxOutS, l.length < 2 ^ 64 ∧ (∀ x ∈ l, x.WF) ∧ s.bytes = encTxOuts l ++ rem.bytes ∧
      rem.base = s.base + (encTxOuts l).length ∧ o = viewTxOuts s.base l := by
  obtain ⟨x, hn, hw, e, hb⟩ := decTxOuts_eq_ok h
  refine ⟨x, hn, hw, e, hb, ?_⟩
  obtain ⟨b, bs⟩ := s
  simp only at e hb ⊢
  subst e
  rw [decTxOuts_enc b x _ hn hw] at h
  exact (Prod.mk.inj (Res.ok.inj h)).1.symm

theorem decWitness_eq_ok' {s : Slice} {o : WitnessV} {em : Bool} {rem : Slice}
    (h : (decWitness s).res = .ok (o, em, rem)) :
    ∃ w : List Bytes, witnessWF w ∧ s.bytes = encWitness w ++ rem.bytes ∧
      rem.base = s.base + (encWitness w).length ∧ o = viewWitness s.base w ∧ em = decide (w = []) := by
  obtain ⟨x, hw, e, hb⟩ := decWitness_eq_ok h
  refine ⟨x, hw, e, hb, ?_⟩
  obtain ⟨b, bs⟩ := s
  simp only at e hb ⊢
  subst e
  rw [decWitness_enc b x _ hw] at h
  have h' := Prod.mk.inj (Res.ok.inj h)
  exact ⟨h'.1.symm, (Prod.mk.inj h'.2).1.symm⟩

theorem decWitnesses_eq_ok' {s : Slice} {n : Nat} {o : WitnessesV} {rem : Slice}
    (h : (decWitnesses s n).res = .ok (o, rem)) :
    ∃ ws : List (List Bytes), ws.length = n ∧ (∀ w ∈ ws, witnessWF w) ∧
      s.bytes = encWitnesses ws ++ rem.bytes ∧ rem.base = s.base + (encWitnesses ws).length ∧
      o = viewWitnesses s.base ws := by
  obtain ⟨x, hn, hw, e, hb⟩ := decWitnesses_eq_ok h
  refine ⟨x, hn, hw, e, hb, ?_⟩
  obtain ⟨b, bs⟩ := s
  simp only at e hb ⊢
  subst e hn
  rw [decWitnesses_enc b x _ hw] at h
  exact (Prod.mk.inj (Res.ok.inj h)).1.symm

end BS.Enc
