import BS.Lemmas.EncInside
/-
  failing runs: the callbacks made before the error are a prefix of the traversal of a well-formed value
-/
namespace BS.Enc
open BS BS.Spec

theorem D_bind_trace_ok {α β} {m : D α} {f : α → D β} {a : α} (h : m.res = .ok a) :
    (m >>= f).trace = m.trace ++ (f a).trace := by rw [D_bind_ok h]

theorem D_bind_trace_err {α β} {m : D α} {f : α → D β} {e : Error} (h : m.res = .err e) :
    (m >>= f).trace = m.trace := by rw [D_bind_err h]

/-- well-formed fillers for the part of a list a failing run never reached -/
def dTxIn : TxInS := ⟨⟨List.replicate 32 0, 0⟩, [], 0⟩
def dTxOut : TxOutS := ⟨0, []⟩
def dTx : TxS := ⟨0, [dTxIn], [], none, 0⟩

theorem dTxIn_WF : dTxIn.WF := ⟨⟨by decide, by decide⟩, by decide, by decide⟩
theorem dTxOut_WF : dTxOut.WF := ⟨by decide, by decide⟩
theorem dTx_WF : dTx.WF := by
  refine ⟨by decide, by decide, by decide, by decide, by decide, ?_, ?_, by show dTx.inputs ≠ []; decide⟩
  · intro i hi
    simp only [dTx, List.mem_singleton] at hi
    subst hi; exact dTxIn_WF
  · intro o ho; simp [dTx] at ho

theorem forall_mem_replicate {α} {P : α → Prop} {n : Nat} {a : α} (h : P a) : ∀ x ∈ List.replicate n a, P x := by
  intro x hx; rw [(List.mem_replicate.1 hx).2]; exact h

/-! ### txins -/

theorem decTxInsLoop_fail : ∀ (n i : Nat) (s : Slice) (e : Error), (decTxInsLoop n i s).res = .err e →
    ∃ l : List TxInS, l.length = n ∧ (∀ x ∈ l, x.WF) ∧ (decTxInsLoop n i s).trace <+: travTxInsFrom s.base i l := by
  intro n
  induction n with
  | zero => intro i s e h; cases h
  | succ n ih =>
    intro i s e h
    rw [decTxInsLoop] at h ⊢
    cases h1 : decTxIn s with
    | ok xr =>
      obtain ⟨x, r⟩ := xr
      rw [h1] at h
      simp only [D_lift_ok_bind, D_emit_bind] at h ⊢
      obtain ⟨x', hx', e1, b1, rfl⟩ := decTxIn_eq_ok' h1
      obtain ⟨l, hl, hw, hp⟩ := ih _ _ _ h
      refine ⟨x' :: l, by simp [hl], ?_, ?_⟩
      · intro y hy
        rcases List.mem_cons.1 hy with rfl | hy
        · exact hx'
        · exact hw y hy
      · rw [travTxInsFrom, List.cons_prefix_cons, ← b1]
        exact ⟨rfl, hp⟩
    | err e' =>
      simp only [D_lift_err_bind]
      exact ⟨List.replicate (n + 1) dTxIn, by simp, forall_mem_replicate dTxIn_WF, List.nil_prefix⟩
    | panic p => rw [h1] at h; cases h

theorem decTxIns_fail {s : Slice} {e : Error} (h : (decTxIns s).res = .err e) :
    ∃ l : List TxInS, l.length < 2 ^ 64 ∧ (∀ x ∈ l, x.WF) ∧ (decTxIns s).trace <+: travTxIns s.base l := by
  unfold decTxIns at h ⊢
  cases h1 : decCompact s with
  | ok nr =>
    obtain ⟨n, r⟩ := nr
    rw [h1] at h
    simp only [D_lift_ok_bind, D_emit_bind] at h ⊢
    obtain ⟨hn, e1, b1⟩ := decCompact_eq_ok h1
    rcases D_bind_res_eq_err h with h2 | ⟨_, _, h2⟩
    · rw [D_bind_trace_err h2]
      obtain ⟨l, hl, hw, hp⟩ := decTxInsLoop_fail _ _ _ _ h2
      subst hl
      refine ⟨l, hn, hw, ?_⟩
      rw [travTxIns, List.cons_prefix_cons, ← b1]
      exact ⟨rfl, hp⟩
    · cases h2
  | err e' =>
    simp only [D_lift_err_bind]
    exact ⟨[], by simp, by simp, List.nil_prefix⟩
  | panic p => rw [h1] at h; cases h

/-! ### txouts -/

theorem decTxOutsLoop_fail : ∀ (n i : Nat) (s : Slice) (e : Error), (decTxOutsLoop n i s).res = .err e →
    ∃ l : List TxOutS, l.length = n ∧ (∀ x ∈ l, x.WF) ∧ (decTxOutsLoop n i s).trace <+: travTxOutsFrom s.base i l := by
  intro n
  induction n with
  | zero => intro i s e h; cases h
  | succ n ih =>
    intro i s e h
    rw [decTxOutsLoop] at h ⊢
    cases h1 : decTxOut s with
    | ok xr =>
      obtain ⟨x, r⟩ := xr
      rw [h1] at h
      simp only [D_lift_ok_bind, D_emit_bind] at h ⊢
      obtain ⟨x', hx', e1, b1, rfl⟩ := decTxOut_eq_ok' h1
      obtain ⟨l, hl, hw, hp⟩ := ih _ _ _ h
      refine ⟨x' :: l, by simp [hl], ?_, ?_⟩
      · intro y hy
        rcases List.mem_cons.1 hy with rfl | hy
        · exact hx'
        · exact hw y hy
      · rw [travTxOutsFrom, List.cons_prefix_cons, ← b1]
        exact ⟨rfl, hp⟩
    | err e' =>
      simp only [D_lift_err_bind]
      exact ⟨List.replicate (n + 1) dTxOut, by simp, forall_mem_replicate dTxOut_WF, List.nil_prefix⟩
    | panic p => rw [h1] at h; cases h

theorem decTxOuts_fail {s : Slice} {e : Error} (h : (decTxOuts s).res = .err e) :
    ∃ l : List TxOutS, l.length < 2 ^ 64 ∧ (∀ x ∈ l, x.WF) ∧ (decTxOuts s).trace <+: travTxOuts s.base l := by
  unfold decTxOuts at h ⊢
  cases h1 : decCompact s with
  | ok nr =>
    obtain ⟨n, r⟩ := nr
    rw [h1] at h
    simp only [D_lift_ok_bind, D_emit_bind] at h ⊢
    obtain ⟨hn, e1, b1⟩ := decCompact_eq_ok h1
    rcases D_bind_res_eq_err h with h2 | ⟨_, _, h2⟩
    · rw [D_bind_trace_err h2]
      obtain ⟨l, hl, hw, hp⟩ := decTxOutsLoop_fail _ _ _ _ h2
      subst hl
      refine ⟨l, hn, hw, ?_⟩
      rw [travTxOuts, List.cons_prefix_cons, ← b1]
      exact ⟨rfl, hp⟩
    · cases h2
  | err e' =>
    simp only [D_lift_err_bind]
    exact ⟨[], by simp, by simp, List.nil_prefix⟩
  | panic p => rw [h1] at h; cases h

/-! ### witness -/

theorem decWitnessLoop_fail : ∀ (n i : Nat) (s : Slice) (e : Error), (decWitnessLoop n i s).res = .err e →
    ∃ w : List Bytes, w.length = n ∧ (∀ x ∈ w, x.length < 2 ^ 64) ∧
      (decWitnessLoop n i s).trace <+: travWitElems s.base i w := by
  intro n
  induction n with
  | zero => intro i s e h; cases h
  | succ n ih =>
    intro i s e h
    have dummy : ∃ w : List Bytes, w.length = n + 1 ∧ (∀ x ∈ w, x.length < 2 ^ 64) ∧
        ([] : List Event) <+: travWitElems s.base i w :=
      ⟨List.replicate (n + 1) [], by simp, forall_mem_replicate (by decide), List.nil_prefix⟩
    rw [decWitnessLoop] at h ⊢
    cases h1 : decCompact s with
    | ok xr =>
      obtain ⟨len, r⟩ := xr
      rw [h1] at h
      simp only [D_lift_ok_bind] at h ⊢
      obtain ⟨hn, e1, b1⟩ := decCompact_eq_ok h1
      cases h2 : takeN r len with
      | ok er =>
        obtain ⟨el, r'⟩ := er
        rw [h2] at h
        simp only [D_lift_ok_bind, D_emit_bind] at h ⊢
        obtain ⟨e2, hp, b2, b3⟩ := takeN_eq_ok h2
        obtain ⟨l, hl, hw, hpre⟩ := ih _ _ _ h
        refine ⟨el.bytes :: l, by simp [hl], ?_, ?_⟩
        · intro y hy
          rcases List.mem_cons.1 hy with rfl | hy
          · omega
          · exact hw y hy
        · rw [travWitElems, List.cons_prefix_cons]
          refine ⟨?_, ?_⟩
          · obtain ⟨eb, ebs⟩ := el
            simp only at hp b2 ⊢
            rw [hp, b2, b1]
          · have : s.base + (encVarBytes el.bytes).length = r'.base := by
              simp only [encVarBytes, List.length_append, hp]; omega
            rw [this]; exact hpre
      | err e' => simp only [D_lift_err_bind]; exact dummy
      | panic p => rw [h2] at h; cases h
    | err e' => simp only [D_lift_err_bind]; exact dummy
    | panic p => rw [h1] at h; cases h

/-- the completed witness can always be chosen non-empty -/
theorem decWitness_fail {s : Slice} {e : Error} (h : (decWitness s).res = .err e) :
    ∃ w : List Bytes, witnessWF w ∧ w ≠ [] ∧ (decWitness s).trace <+: travWitness s.base w := by
  unfold decWitness at h ⊢
  cases h1 : decCompact s with
  | ok nr =>
    obtain ⟨n, r⟩ := nr
    rw [h1] at h
    simp only [D_lift_ok_bind, D_emit_bind] at h ⊢
    obtain ⟨hn, e1, b1⟩ := decCompact_eq_ok h1
    rcases D_bind_res_eq_err h with h2 | ⟨_, _, h2⟩
    · rw [D_bind_trace_err h2]
      obtain ⟨l, hl, hw, hp⟩ := decWitnessLoop_fail _ _ _ _ h2
      subst hl
      refine ⟨l, ⟨hn, hw⟩, ?_, ?_⟩
      · intro h0; subst h0; cases h2
      · rw [travWitness, List.cons_prefix_cons, ← b1]
        exact ⟨rfl, hp⟩
    · cases h2
  | err e' =>
    simp only [D_lift_err_bind]
    exact ⟨[[]], ⟨by decide, by simp⟩, by simp, List.nil_prefix⟩
  | panic p => rw [h1] at h; cases h

/-- a successful witness run in full -/
theorem decWitness_ok_run {s : Slice} {o : WitnessV} {em : Bool} {rem : Slice}
    (h : (decWitness s).res = .ok (o, em, rem)) :
    ∃ w : List Bytes, witnessWF w ∧ rem.base = s.base + (encWitness w).length ∧
      (decWitness s).trace = travWitness s.base w := by
  obtain ⟨w, hw, e, hb⟩ := decWitness_eq_ok h
  refine ⟨w, hw, hb, ?_⟩
  obtain ⟨b, bs⟩ := s
  simp only at e ⊢
  subst e
  rw [decWitness_enc b w _ hw]

theorem decWitnessesLoop_fail : ∀ (n i : Nat) (s : Slice) (ae : Bool) (e : Error),
    (decWitnessesLoop n i s ae).res = .err e →
    ∃ ws : List (List Bytes), ws.length = n ∧ (∀ w ∈ ws, witnessWF w) ∧ (∃ w ∈ ws, w ≠ []) ∧
      (decWitnessesLoop n i s ae).trace <+: travWitnessesFrom s.base i ws := by
  intro n
  induction n with
  | zero => intro i s ae e h; cases h
  | succ n ih =>
    intro i s ae e h
    rw [decWitnessesLoop] at h ⊢
    simp only [D_emit_bind] at h ⊢
    rcases D_bind_res_eq_err h with h1 | ⟨⟨o, em, r⟩, h1, h2⟩
    · rw [D_bind_trace_err h1]
      obtain ⟨w, hw, hne, hp⟩ := decWitness_fail h1
      refine ⟨w :: List.replicate n [], by simp, ?_, ⟨w, List.mem_cons_self, hne⟩, ?_⟩
      · intro y hy
        rcases List.mem_cons.1 hy with rfl | hy
        · exact hw
        · exact forall_mem_replicate witnessWF_nil y hy
      · rw [travWitnessesFrom, List.cons_prefix_cons]
        exact ⟨rfl, List.IsPrefix.trans hp (List.prefix_append _ _)⟩
    · rw [D_bind_trace_ok h1]
      simp only at h2 ⊢
      obtain ⟨w, hw, hb, htr⟩ := decWitness_ok_run h1
      obtain ⟨ws, hl, hws, ⟨w', hw'm, hw'n⟩, hp⟩ := ih _ _ _ _ h2
      refine ⟨w :: ws, by simp [hl], ?_, ⟨w', List.mem_cons_of_mem _ hw'm, hw'n⟩, ?_⟩
      · intro y hy
        rcases List.mem_cons.1 hy with rfl | hy
        · exact hw
        · exact hws y hy
      · rw [travWitnessesFrom, List.cons_prefix_cons, htr, List.prefix_append_right_inj, List.cons_prefix_cons,
          ← hb]
        exact ⟨rfl, rfl, hp⟩

theorem decWitnesses_fail {s : Slice} {n : Nat} {e : Error} (h : (decWitnesses s n).res = .err e) :
    ∃ ws : List (List Bytes), ws.length = n ∧ (∀ w ∈ ws, witnessWF w) ∧ (∃ w ∈ ws, w ≠ []) ∧
      (decWitnesses s n).trace <+: travWitnesses s.base ws := by
  unfold decWitnesses at h ⊢
  rcases D_bind_res_eq_err h with h1 | ⟨⟨_, _⟩, _, h2⟩
  · rw [D_bind_trace_err h1]
    exact decWitnessesLoop_fail _ _ _ _ _ h1
  · cases h2

/-! ### successful runs in full -/

theorem decTxIns_ok_run {s : Slice} {o : TxInsV} {rem : Slice} (h : (decTxIns s).res = .ok (o, rem)) :
    ∃ l : List TxInS, l.length < 2 ^ 64 ∧ (∀ x ∈ l, x.WF) ∧ rem.base = s.base + (encTxIns l).length ∧
      o = viewTxIns s.base l ∧ (decTxIns s).trace = travTxIns s.base l := by
  obtain ⟨l, hn, hw, e, hb, ho⟩ := decTxIns_eq_ok' h
  refine ⟨l, hn, hw, hb, ho, ?_⟩
  obtain ⟨b, bs⟩ := s
  simp only at e ⊢
  subst e
  rw [decTxIns_enc b l _ hn hw]

theorem decTxOuts_ok_run {s : Slice} {o : TxOutsV} {rem : Slice} (h : (decTxOuts s).res = .ok (o, rem)) :
    ∃ l : List TxOutS, l.length < 2 ^ 64 ∧ (∀ x ∈ l, x.WF) ∧ rem.base = s.base + (encTxOuts l).length ∧
      o = viewTxOuts s.base l ∧ (decTxOuts s).trace = travTxOuts s.base l := by
  obtain ⟨l, hn, hw, e, hb, ho⟩ := decTxOuts_eq_ok' h
  refine ⟨l, hn, hw, hb, ho, ?_⟩
  obtain ⟨b, bs⟩ := s
  simp only at e ⊢
  subst e
  rw [decTxOuts_enc b l _ hn hw]

theorem decWitnesses_ok_run {s : Slice} {n : Nat} {o : WitnessesV} {rem : Slice}
    (h : (decWitnesses s n).res = .ok (o, rem)) :
    ∃ ws : List (List Bytes), ws.length = n ∧ (∀ w ∈ ws, witnessWF w) ∧
      rem.base = s.base + (encWitnesses ws).length ∧ o = viewWitnesses s.base ws ∧
      (decWitnesses s n).trace = travWitnesses s.base ws := by
  obtain ⟨ws, hn, hw, e, hb, ho⟩ := decWitnesses_eq_ok' h
  refine ⟨ws, hn, hw, hb, ho, ?_⟩
  obtain ⟨b, bs⟩ := s
  simp only at e ⊢
  subst e hn
  rw [decWitnesses_enc b ws _ hw]

theorem decTransaction_ok_run {s : Slice} {o : TxV} {rem : Slice} (h : (decTransaction s).res = .ok (o, rem)) :
    ∃ t : TxS, t.WF ∧ rem.base = s.base + (encTx t).length ∧ (decTransaction s).trace = travTx s.base t := by
  obtain ⟨t, ht, e, hb⟩ := decTransaction_eq_ok h
  refine ⟨t, ht, hb, ?_⟩
  obtain ⟨b, bs⟩ := s
  simp only at e ⊢
  subst e
  rw [decTransaction_enc b t _ ht]

/-! ### transaction -/

theorem txLegTail_fail {s r : Slice} {e : Error} (h : (txLegTail s r).res = .err e) :
    ∃ outs : List TxOutS, outs.length < 2 ^ 64 ∧ (∀ x ∈ outs, x.WF) ∧
      (txLegTail s r).trace <+: travTxOuts r.base outs := by
  unfold txLegTail at h ⊢
  rcases D_bind_res_eq_err h with h1 | ⟨⟨ov, r1⟩, h1, h2⟩
  · rw [D_bind_trace_err h1]
    exact decTxOuts_fail h1
  · rw [D_bind_trace_ok h1]
    obtain ⟨outs, hn, hw, hb, _, htr⟩ := decTxOuts_ok_run h1
    refine ⟨outs, hn, hw, ?_⟩
    rw [htr]
    simp only at h2 ⊢
    cases h3 : decLE 4 r1 with
    | ok x => rw [h3] at h2; cases h2
    | err e' => simp only [D_lift_err_bind, List.append_nil]; exact List.prefix_refl _
    | panic p => rw [h3] at h2; cases h2

theorem witnessWF_one : witnessWF [[]] := ⟨by decide, by simp⟩

theorem txSegTail_fail {s r1 : Slice} {e : Error} (h : (txSegTail s r1).res = .err e)
    (hne : e ≠ .segwitFlagWithoutWitnesses) :
    ∃ (ins : List TxInS) (outs : List TxOutS) (ws : List (List Bytes)),
      ins.length < 2 ^ 64 ∧ (∀ x ∈ ins, x.WF) ∧ outs.length < 2 ^ 64 ∧ (∀ x ∈ outs, x.WF) ∧
      ws.length = ins.length ∧ (∀ w ∈ ws, witnessWF w) ∧ (ins ≠ [] → ∃ w ∈ ws, w ≠ []) ∧
      (txSegTail s r1).trace <+: travTxIns r1.base ins ++ (travTxOuts (r1.base + (encTxIns ins).length) outs ++
        travWitnesses (r1.base + (encTxIns ins).length + (encTxOuts outs).length) ws) := by
  have fill : ∀ ins : List TxInS, (List.replicate ins.length [([] : Bytes)]).length = ins.length ∧
      (∀ w ∈ List.replicate ins.length [([] : Bytes)], witnessWF w) ∧
      (ins ≠ [] → ∃ w ∈ List.replicate ins.length [([] : Bytes)], w ≠ []) := by
    intro ins
    refine ⟨by simp, forall_mem_replicate witnessWF_one, ?_⟩
    intro hi
    refine ⟨[[]], ?_, by simp⟩
    rw [List.mem_replicate]
    exact ⟨fun h0 => hi (List.length_eq_zero_iff.1 h0), rfl⟩
  unfold txSegTail at h ⊢
  rcases D_bind_res_eq_err h with h1 | ⟨⟨iv, r2⟩, h1, h⟩
  · rw [D_bind_trace_err h1]
    obtain ⟨ins, hni, hwi, hp⟩ := decTxIns_fail h1
    obtain ⟨f1, f2, f3⟩ := fill ins
    exact ⟨ins, [], _, hni, hwi, by simp, by simp, f1, f2, f3, hp.trans (List.prefix_append _ _)⟩
  rw [D_bind_trace_ok h1]
  obtain ⟨ins, hni, hwi, b1, rfl, htr1⟩ := decTxIns_ok_run h1
  rw [htr1]
  simp only at h ⊢
  rcases D_bind_res_eq_err h with h2 | ⟨⟨ov, r3⟩, h2, h⟩
  · rw [D_bind_trace_err h2]
    obtain ⟨outs, hno, hwo, hp⟩ := decTxOuts_fail h2
    obtain ⟨f1, f2, f3⟩ := fill ins
    refine ⟨ins, outs, _, hni, hwi, hno, hwo, f1, f2, f3, ?_⟩
    rw [List.prefix_append_right_inj, ← b1]
    exact hp.trans (List.prefix_append _ _)
  rw [D_bind_trace_ok h2]
  obtain ⟨outs, hno, hwo, b2, rfl, htr2⟩ := decTxOuts_ok_run h2
  rw [htr2]
  simp only at h ⊢
  rcases D_bind_res_eq_err h with h3 | ⟨⟨wv, r4⟩, h3, h⟩
  · rw [D_bind_trace_err h3]
    obtain ⟨ws, hlen, hww, hex, hp⟩ := decWitnesses_fail h3
    refine ⟨ins, outs, ws, hni, hwi, hno, hwo, hlen, hww, fun _ => hex, ?_⟩
    rw [List.prefix_append_right_inj, ← b1, List.prefix_append_right_inj, ← b2]
    exact hp
  rw [D_bind_trace_ok h3]
  obtain ⟨ws, hlen, hww, b3, rfl, htr3⟩ := decWitnesses_ok_run h3
  rw [htr3]
  simp only at h ⊢
  split at h
  · exact (hne (by simpa using h.symm)).elim
  · rename_i hc
    rw [if_neg hc]
    refine ⟨ins, outs, ws, hni, hwi, hno, hwo, hlen, hww, ?_, ?_⟩
    · intro hi
      apply Classical.byContradiction
      intro hno'
      apply hc
      refine ⟨?_, ?_⟩
      · simp only [viewTxIns]; intro h0; exact hi (List.length_eq_zero_iff.1 h0)
      · simp only [viewWitnesses, List.all_eq_true, decide_eq_true_eq]
        intro w hw
        apply Classical.byContradiction
        intro hne'
        exact hno' ⟨w, hw, hne'⟩
    · rw [List.prefix_append_right_inj, ← b1, List.prefix_append_right_inj, ← b2]
      cases h4 : decLE 4 r4 with
      | ok x => rw [h4] at h; cases h
      | err e' => simp only [D_lift_err_bind, List.append_nil]; exact List.prefix_refl _
      | panic p => rw [h4] at h; cases h

/-- the one error that is raised after a complete traversal of inputs, outputs and (all empty) witnesses -/
theorem txSegTail_nowit_run {s r1 : Slice} (h : (txSegTail s r1).res = .err .segwitFlagWithoutWitnesses) :
    ∃ (ins : List TxInS) (outs : List TxOutS), ins ≠ [] ∧
      ins.length < 2 ^ 64 ∧ (∀ x ∈ ins, x.WF) ∧ outs.length < 2 ^ 64 ∧ (∀ x ∈ outs, x.WF) ∧
      (txSegTail s r1).trace = travTxIns r1.base ins ++ (travTxOuts (r1.base + (encTxIns ins).length) outs ++
        travWitnesses (r1.base + (encTxIns ins).length + (encTxOuts outs).length)
          (List.replicate ins.length [])) := by
  unfold txSegTail at h ⊢
  rcases D_bind_res_eq_err h with h1 | ⟨⟨iv, r2⟩, h1, h⟩
  · rcases (decTxIns_basic r1).err_cases h1 with e | e <;> cases e
  rw [D_bind_trace_ok h1]
  obtain ⟨ins, hni, hwi, b1, rfl, htr1⟩ := decTxIns_ok_run h1
  rw [htr1]
  simp only at h ⊢
  rcases D_bind_res_eq_err h with h2 | ⟨⟨ov, r3⟩, h2, h⟩
  · rcases (decTxOuts_basic r2).err_cases h2 with e | e <;> cases e
  rw [D_bind_trace_ok h2]
  obtain ⟨outs, hno, hwo, b2, rfl, htr2⟩ := decTxOuts_ok_run h2
  rw [htr2]
  simp only at h ⊢
  rcases D_bind_res_eq_err h with h3 | ⟨⟨wv, r4⟩, h3, h⟩
  · rcases (decWitnesses_basic r3 _).err_cases h3 with e | e <;> cases e
  rw [D_bind_trace_ok h3]
  obtain ⟨ws, hlen, hww, b3, rfl, htr3⟩ := decWitnesses_ok_run h3
  rw [htr3]
  simp only at h ⊢
  split at h
  · rename_i hc
    rw [if_pos hc]
    obtain ⟨hc1, hc2⟩ := hc
    simp only [viewWitnesses, List.all_eq_true, decide_eq_true_eq] at hc2
    simp only [viewTxIns] at hc1 hlen
    refine ⟨ins, outs, fun h0 => hc1 (by rw [h0]; rfl), hni, hwi, hno, hwo, ?_⟩
    rw [← hlen, ← all_empty_eq_replicate hc2, ← b1, ← b2]
    simp
  · rcases D_bind_res_eq_err h with h4 | ⟨⟨lock, rem⟩, h4, h⟩
    · rcases (decLE_basic 4 r4).err_cases h4 with e | e <;> cases e
    · rcases D_bind_res_eq_err h with h5 | ⟨_, _, h⟩
      · cases h5
      · cases h

/-- the segwit transaction without inputs, outputs, witnesses -/
def dSeg : TxS := ⟨0, [], [], some [], 0⟩
theorem dSeg_WF : dSeg.WF := by
  refine ⟨by decide, by decide, by decide, by decide, by decide, by simp [dSeg], by simp [dSeg], ?_⟩
  show ([] : List (List Bytes)).length = dSeg.inputs.length ∧ _
  exact ⟨rfl, by simp, fun h => (h rfl).elim⟩

theorem prefix_txIns0_dSeg (b : Nat) {tr : List Event} (h : tr <+: [.txIns 0]) : tr <+: travTx b dSeg := by
  refine h.trans ?_
  simp only [travTx, dSeg]
  exact ⟨_, rfl⟩

theorem wf_legacy0 {l : List TxInS} {outs : List TxOutS} (hnl : l.length < 2 ^ 64) (hwl : ∀ x ∈ l, x.WF)
    (hno : outs.length < 2 ^ 64) (hwo : ∀ x ∈ outs, x.WF) (hl : l ≠ []) : TxS.WF ⟨0, l, outs, none, 0⟩ :=
  ⟨by show -(2 : Int) ^ 31 ≤ 0; decide, by show (0 : Int) < 2 ^ 31; decide, by show 0 < 2 ^ 32; decide,
    hnl, hno, hwl, hwo, hl⟩

theorem wf_segwit0 {l : List TxInS} {outs : List TxOutS} {ws : List (List Bytes)} (hnl : l.length < 2 ^ 64)
    (hwl : ∀ x ∈ l, x.WF) (hno : outs.length < 2 ^ 64) (hwo : ∀ x ∈ outs, x.WF) (hlen : ws.length = l.length)
    (hww : ∀ w ∈ ws, witnessWF w) (hex : l ≠ [] → ∃ w ∈ ws, w ≠ []) : TxS.WF ⟨0, l, outs, some ws, 0⟩ :=
  ⟨by show -(2 : Int) ^ 31 ≤ 0; decide, by show (0 : Int) < 2 ^ 31; decide, by show 0 < 2 ^ 32; decide,
    hnl, hno, hwl, hwo, hlen, hww, hex⟩

theorem decTransaction_fail {s : Slice} {e : Error} (h : (decTransaction s).res = .err e)
    (hne : e ≠ .segwitFlagWithoutWitnesses) :
    ∃ t : TxS, t.WF ∧ (decTransaction s).trace <+: travTx s.base t := by
  rw [decTransaction_eq] at h ⊢
  cases h1 : decLE 4 s with
  | panic p => rw [h1] at h; cases h
  | err e' => simp only [D_lift_err_bind]; exact ⟨dTx, dTx_WF, List.nil_prefix⟩
  | ok x =>
    obtain ⟨ver, s4⟩ := x
    rw [h1] at h
    simp only [D_lift_ok_bind] at h ⊢
    obtain ⟨_, _, b0⟩ := decLE_eq_ok h1
    rcases D_bind_res_eq_err h with h2 | ⟨⟨iv, r⟩, h2, h⟩
    · rw [D_bind_trace_err h2]
      obtain ⟨l, hnl, hwl, hp⟩ := decTxIns_fail h2
      cases l with
      | nil =>
        refine ⟨dSeg, dSeg_WF, prefix_txIns0_dSeg _ ?_⟩
        simpa [travTxIns, travTxInsFrom] using hp
      | cons x l =>
        refine ⟨⟨0, x :: l, [], none, 0⟩, wf_legacy0 hnl hwl (by simp) (by simp) (by simp), ?_⟩
        simp only [travTx, List.append_assoc]
        rw [← b0]
        exact hp.trans (List.prefix_append _ _)
    rw [D_bind_trace_ok h2]
    obtain ⟨l, hnl, hwl, b1, rfl, htr1⟩ := decTxIns_ok_run h2
    rw [htr1]
    simp only at h ⊢
    split at h
    · rename_i hz
      rw [if_pos hz]
      have hl0 : l = [] := List.length_eq_zero_iff.1 hz
      subst hl0
      unfold txFlag at h ⊢
      cases h3 : decLE 1 r with
      | panic p => rw [h3] at h; cases h
      | err e' =>
        simp only [D_lift_err_bind, List.append_nil]
        exact ⟨dSeg, dSeg_WF, prefix_txIns0_dSeg _ (List.prefix_refl _)⟩
      | ok y =>
        obtain ⟨flag, r1⟩ := y
        rw [h3] at h
        simp only [D_lift_ok_bind] at h ⊢
        obtain ⟨_, _, b2⟩ := decLE_eq_ok h3
        split at h
        · rename_i hf
          rw [if_pos hf]
          obtain ⟨ins, outs, ws, hni, hwi, hno, hwo, hlen, hww, hex, hp⟩ := txSegTail_fail h hne
          refine ⟨⟨0, ins, outs, some ws, 0⟩, wf_segwit0 hni hwi hno hwo hlen hww hex, ?_⟩
          simp only [travTx, travTxIns, travTxInsFrom, List.cons_append, List.nil_append, List.append_assoc,
            List.cons_prefix_cons, List.length_nil, true_and]
          have e6 : r1.base = s.base + 6 := by
            have : (encTxIns ([] : List TxInS)).length = 1 := by decide
            omega
          rw [e6] at hp
          refine hp.trans ?_
          simp only [travTxIns, List.cons_append, List.cons_prefix_cons, true_and, List.prefix_append_right_inj]
          exact List.prefix_append _ _
        · rename_i hf
          rw [if_neg hf]
          simp only [D_lift_trace, List.append_nil]
          exact ⟨dSeg, dSeg_WF, prefix_txIns0_dSeg _ (List.prefix_refl _)⟩
    · rename_i hz
      rw [if_neg hz]
      obtain ⟨outs, hno, hwo, hp⟩ := txLegTail_fail h
      have hl : l ≠ [] := fun h0 => hz (by rw [h0]; rfl)
      refine ⟨⟨0, l, outs, none, 0⟩, wf_legacy0 hnl hwl hno hwo hl, ?_⟩
      simp only [travTx, List.append_assoc]
      rw [← b0, List.prefix_append_right_inj, ← b1]
      exact hp.trans (List.prefix_append _ _)

/-- `SegwitFlagWithoutWitnesses` is raised after the *complete* traversal (all but the final `transaction` callback)
    of a transaction that is well formed except that all its witnesses are empty -/
theorem decTransaction_nowit_run {s : Slice} (h : (decTransaction s).res = .err .segwitFlagWithoutWitnesses) :
    ∃ t : TxS, TxS.WF { t with witnesses := none } ∧ t.witnesses = some (List.replicate t.inputs.length []) ∧
      (decTransaction s).trace ++ [.transaction (viewTx s.base t)] = travTx s.base t := by
  rw [decTransaction_eq] at h ⊢
  rcases D_bind_res_eq_err h with h1 | ⟨⟨ver, s4⟩, h1, h⟩
  · rcases (decLE_basic 4 s).err_cases h1 with e | e <;> cases e
  rw [D_bind_trace_ok h1]
  obtain ⟨_, _, b0⟩ := decLE_eq_ok h1
  simp only [D_lift_trace, List.nil_append] at h ⊢
  rcases D_bind_res_eq_err h with h2 | ⟨⟨iv, r⟩, h2, h⟩
  · rcases (decTxIns_basic s4).err_cases h2 with e | e <;> cases e
  rw [D_bind_trace_ok h2]
  obtain ⟨l, hnl, hwl, b1, rfl, htr1⟩ := decTxIns_ok_run h2
  rw [htr1]
  simp only at h ⊢
  split at h
  · rename_i hz
    rw [if_pos hz]
    have hl0 : l = [] := List.length_eq_zero_iff.1 hz
    subst hl0
    unfold txFlag at h ⊢
    rcases D_bind_res_eq_err h with h3 | ⟨⟨flag, r1⟩, h3, h⟩
    · rcases (decLE_basic 1 r).err_cases h3 with e | e <;> cases e
    rw [D_bind_trace_ok h3]
    obtain ⟨_, _, b2⟩ := decLE_eq_ok h3
    simp only [D_lift_trace, List.nil_append] at h ⊢
    split at h
    · rename_i hf
      rw [if_pos hf]
      obtain ⟨ins, outs, hne, hni, hwi, hno, hwo, htr⟩ := txSegTail_nowit_run h
      refine ⟨⟨0, ins, outs, some (List.replicate ins.length []), 0⟩, wf_legacy0 hni hwi hno hwo hne, rfl, ?_⟩
      have e6 : r1.base = s.base + 6 := by
        have : (encTxIns ([] : List TxInS)).length = 1 := by decide
        omega
      rw [htr, e6]
      simp only [travTx, travTxIns, travTxInsFrom, List.cons_append, List.nil_append, List.append_assoc,
        List.length_nil]
    · cases h
  · rcases (txLegTail_basic s r).err_cases h with e | e <;> cases e

/-! ### block -/

theorem decBlockLoop_fail_gen (P : TxS → Prop) (hP : ∀ t : TxS, t.WF → P t) (e : Error)
    (hfail : ∀ s' : Slice, (decTransaction s').res = .err e →
      ∃ t, P t ∧ (decTransaction s').trace <+: travTx s'.base t) :
    ∀ (n : Nat) (s : Slice), (decBlockLoop n s).res = .err e →
    ∃ l : List TxS, l.length = n ∧ (∀ t ∈ l, P t) ∧ (decBlockLoop n s).trace <+: travTxs s.base l := by
  intro n
  induction n with
  | zero => intro s h; cases h
  | succ n ih =>
    intro s h
    rw [decBlockLoop] at h ⊢
    rcases D_bind_res_eq_err h with h1 | ⟨⟨o, r⟩, h1, h2⟩
    · rw [D_bind_trace_err h1]
      obtain ⟨t, ht, hp⟩ := hfail s h1
      refine ⟨t :: List.replicate n dTx, by simp, ?_, ?_⟩
      · intro y hy
        rcases List.mem_cons.1 hy with rfl | hy
        · exact ht
        · exact forall_mem_replicate (hP _ dTx_WF) y hy
      · rw [travTxs]; exact hp.trans (List.prefix_append _ _)
    · rw [D_bind_trace_ok h1]
      obtain ⟨t, ht, hb, htr⟩ := decTransaction_ok_run h1
      obtain ⟨l, hl, hw, hp⟩ := ih _ h2
      refine ⟨t :: l, by simp [hl], ?_, ?_⟩
      · intro y hy
        rcases List.mem_cons.1 hy with rfl | hy
        · exact hP _ ht
        · exact hw y hy
      · rw [travTxs, htr, List.prefix_append_right_inj, ← hb]; exact hp

theorem exHeader_WF : exHeader.WF := ⟨by decide, by decide, by decide, by decide, by decide, by decide, by decide⟩

theorem decBlock_fail_gen (P : TxS → Prop) (hP : ∀ t : TxS, t.WF → P t) {e : Error}
    (hfail : ∀ s' : Slice, (decTransaction s').res = .err e →
      ∃ t, P t ∧ (decTransaction s').trace <+: travTx s'.base t)
    {s : Slice} (h : (decBlock s).res = .err e) :
    ∃ k : BlockS, k.header.WF ∧ k.txs.length < 2 ^ 64 ∧ (∀ t ∈ k.txs, P t) ∧
      (decBlock s).trace <+: travBlock s.base k := by
  unfold decBlock at h ⊢
  rcases D_bind_res_eq_err h with h0 | ⟨⟨hv, r⟩, h0, h⟩
  · rw [D_bind_trace_err h0]
    have : (decHeader s).trace = [] := by
      unfold decHeader at h0 ⊢
      cases h1 : takeN s 80 with
      | ok x => rw [h1] at h0; cases h0
      | err e' => rfl
      | panic p => rfl
    rw [this]
    exact ⟨⟨exHeader, []⟩, exHeader_WF, by decide, by simp, List.nil_prefix⟩
  rw [D_bind_trace_ok h0]
  obtain ⟨hd, hh, e0, b0, rfl⟩ := decHeader_eq_ok' h0
  have htr0 : (decHeader s).trace = travHeader s.base hd := by
    obtain ⟨b, bs⟩ := s
    simp only at e0 ⊢
    subst e0
    rw [decHeader_enc b hd _ hh]
  rw [htr0, encHeader_length hh] at *
  simp only at h ⊢
  cases h1 : decCompact r with
  | panic p => rw [h1] at h; cases h
  | err e' =>
    simp only [D_lift_err_bind, List.append_nil]
    refine ⟨⟨hd, []⟩, hh, by show 0 < 2 ^ 64; decide, by simp, ?_⟩
    simp only [travHeader, travBlock, List.cons_prefix_cons, true_and]
    exact List.nil_prefix
  | ok x =>
    obtain ⟨n, r1⟩ := x
    rw [h1] at h
    simp only [D_lift_ok_bind, D_emit_bind] at h ⊢
    obtain ⟨hn, e1, b1⟩ := decCompact_eq_ok h1
    rcases D_bind_res_eq_err h with h2 | ⟨_, _, h2⟩
    · rw [D_bind_trace_err h2]
      obtain ⟨l, hl, hw, hp⟩ := decBlockLoop_fail_gen P hP e hfail _ _ h2
      subst hl
      refine ⟨⟨hd, l⟩, hh, hn, hw, ?_⟩
      simp only [travHeader, travBlock, List.cons_append, List.nil_append, List.cons_prefix_cons, true_and]
      have : r1.base = s.base + 80 + (encCompact l.length).length := by omega
      rw [← this]; exact hp
    · cases h2

theorem decBlock_fail {s : Slice} {e : Error} (h : (decBlock s).res = .err e)
    (hne : e ≠ .segwitFlagWithoutWitnesses) :
    ∃ k : BlockS, k.WF ∧ (decBlock s).trace <+: travBlock s.base k := by
  obtain ⟨k, h1, h2, h3, h4⟩ := decBlock_fail_gen TxS.WF (fun _ h => h)
    (fun s' h' => decTransaction_fail h' hne) h
  exact ⟨k, ⟨h1, h2, h3⟩, h4⟩

/-- the `SegwitFlagWithoutWitnesses` case: the offending transaction is `AllEmptyWit`, all others are well formed -/
theorem decBlock_fail_nowit {s : Slice} (h : (decBlock s).res = .err .segwitFlagWithoutWitnesses) :
    ∃ k : BlockS, k.header.WF ∧ k.txs.length < 2 ^ 64 ∧ (∀ t ∈ k.txs, t.WF ∨ AllEmptyWit t) ∧
      (decBlock s).trace <+: travBlock s.base k := by
  refine decBlock_fail_gen (fun t => t.WF ∨ AllEmptyWit t) (fun _ h => .inl h) ?_ h
  intro s' h'
  obtain ⟨t, h1, h2, h3⟩ := decTransaction_nowit_run h'
  exact ⟨t, .inr ⟨h1, h2⟩, ⟨_, h3⟩⟩

/-! ### the `SegwitFlagWithoutWitnesses` trace is not a prefix of the traversal of any well-formed transaction -/

theorem travTxInsFrom_length (l : List TxInS) : ∀ b i, (travTxInsFrom b i l).length = l.length := by
  induction l with
  | nil => intro b i; rfl
  | cons x l ih => intro b i; simp [travTxInsFrom, ih]

theorem travTxOutsFrom_length (l : List TxOutS) : ∀ b i, (travTxOutsFrom b i l).length = l.length := by
  induction l with
  | nil => intro b i; rfl
  | cons x l ih => intro b i; simp [travTxOutsFrom, ih]

theorem prefix_append_of_length_eq {α} {a a' x y : List α} (hl : a.length = a'.length) (h : a ++ x <+: a' ++ y) :
    x <+: y := by
  obtain ⟨t, ht⟩ := h
  rw [List.append_assoc] at ht
  obtain ⟨_, h2⟩ := List.append_inj ht hl
  exact ⟨t, h2⟩

theorem all_empty_of_prefix : ∀ (n : Nat) (b b' i : Nat) (ws : List (List Bytes)) (tl : List Event), ws.length = n →
    travWitnessesFrom b i (List.replicate n []) <+: travWitnessesFrom b' i ws ++ tl → ∀ w ∈ ws, w = [] := by
  intro n
  induction n with
  | zero =>
    intro b b' i ws tl hl _ w hw
    rw [List.length_eq_zero_iff.1 hl] at hw; cases hw
  | succ n ih =>
    intro b b' i ws tl hl hp
    cases ws with
    | nil => simp at hl
    | cons w ws =>
      rw [List.replicate_succ, travWitnessesFrom, travWitnessesFrom] at hp
      simp only [travWitness, travWitElems, List.cons_append, List.nil_append, List.cons_prefix_cons,
        List.length_nil] at hp
      obtain ⟨_, hw0, hp⟩ := hp
      have hw : w = [] := by
        have : w.length = 0 := by injection hw0 with h; exact h.symm
        exact List.length_eq_zero_iff.1 this
      subst hw
      simp only [travWitElems, List.nil_append, List.cons_append, List.cons_prefix_cons, true_and] at hp
      intro w' hw'
      rcases List.mem_cons.1 hw' with rfl | hw'
      · rfl
      · exact ih _ _ _ ws tl (by simpa using hl) hp w' hw'

theorem decTransaction_nowit_not_prefix {s : Slice}
    (h : (decTransaction s).res = .err .segwitFlagWithoutWitnesses) :
    ¬ ∃ t : TxS, t.WF ∧ (decTransaction s).trace <+: travTx s.base t := by
  rintro ⟨t, ht, hp⟩
  obtain ⟨t0, hw0, hwit0, htr⟩ := decTransaction_nowit_run h
  obtain ⟨v0, ins0, outs0, wit0, lock0⟩ := t0
  simp only at hwit0
  subst hwit0
  have hne0 : ins0 ≠ [] := hw0.2.2.2.2.2.2.2
  simp only [travTx] at htr
  have htr' : (decTransaction s).trace = .txIns 0 :: (travTxIns (s.base + 6) ins0 ++
      travTxOuts (s.base + 6 + (encTxIns ins0).length) outs0 ++
      travWitnesses (s.base + 6 + (encTxIns ins0).length + (encTxOuts outs0).length)
        (List.replicate ins0.length [])) := by
    apply List.append_cancel_right (bs := [.transaction (viewTx s.base ⟨v0, ins0, outs0, some (List.replicate ins0.length []), lock0⟩)])
    rw [htr]; simp
  rw [htr'] at hp
  obtain ⟨v, ins, outs, wit, lock⟩ := t
  obtain ⟨_, _, _, _, _, _, _, hwit⟩ := ht
  cases wit with
  | none =>
    simp only at hwit
    simp only [travTx, travTxIns, List.cons_append, List.cons_prefix_cons] at hp
    have : ins.length = 0 := by
      have := hp.1; injection this with h; exact h.symm
    exact hwit (List.length_eq_zero_iff.1 this)
  | some ws =>
    simp only at hwit
    obtain ⟨hlen, _, hex⟩ := hwit
    simp only [travTx, travTxIns, travTxOuts, List.cons_append, List.cons_prefix_cons, List.append_assoc,
      true_and] at hp
    obtain ⟨hi, hp⟩ := hp
    have hil : ins0.length = ins.length := by injection hi
    have hp := prefix_append_of_length_eq (by rw [travTxInsFrom_length, travTxInsFrom_length, hil]) hp
    simp only [List.cons_prefix_cons] at hp
    obtain ⟨ho, hp⟩ := hp
    have hol : outs0.length = outs.length := by injection ho
    have hp := prefix_append_of_length_eq (by rw [travTxOutsFrom_length, travTxOutsFrom_length, hol]) hp
    have hall := all_empty_of_prefix ins0.length _ _ 0 ws _ (by rw [hlen, hil]) hp
    have hne : ins ≠ [] := by
      intro h0; apply hne0; apply List.length_eq_zero_iff.1; rw [hil, h0]; rfl
    obtain ⟨w, hwm, hwn⟩ := hex hne
    exact hwn (hall w hwm)

end BS.Enc
