import BS.Lemmas.EncBasic
/-
  Definitions used to state C03 / C04 / C14 for the L2 decoders:
  * `viewX b x`   : the object a decoder must return for the abstract value `x` whose encoding starts at offset `b`
  * `fieldsX v`   : the abstract value read back from the fields a view exposes
  * `travX b x`   : the in-order traversal (callback sequence) of `x` encoded at offset `b`
  * `Inside t s`  : slice `t` is a sub-slice of `s` (position and contents)
-/
namespace BS.Enc
open BS BS.Spec

/-! ### canonical views -/

def viewScript (b : Nat) (s : Bytes) : ScriptV := ⟨⟨b, encVarBytes s⟩, (encCompact s.length).length⟩
def viewOutPoint (b : Nat) (o : OutPointS) : OutPointV := ⟨⟨b, encOutPoint o⟩⟩
def viewTxIn (b : Nat) (i : TxInS) : TxInV :=
  ⟨⟨b, encTxIn i⟩, viewOutPoint b i.prevout, viewScript (b + (encOutPoint i.prevout).length) i.scriptSig, i.sequence⟩
def viewTxOut (b : Nat) (o : TxOutS) : TxOutV := ⟨⟨b, encTxOut o⟩, o.value, viewScript (b + 8) o.scriptPubkey⟩
def viewTxIns (b : Nat) (l : List TxInS) : TxInsV := ⟨⟨b, encTxIns l⟩, l.length⟩
def viewTxOuts (b : Nat) (l : List TxOutS) : TxOutsV := ⟨⟨b, encTxOuts l⟩, l.length⟩
def viewWitness (b : Nat) (w : List Bytes) : WitnessV := ⟨⟨b, encWitness w⟩⟩
def viewWitnesses (b : Nat) (ws : List (List Bytes)) : WitnessesV := ⟨⟨b, encWitnesses ws⟩, ws.all (· = [])⟩
/-- `ioLen` is `none` for the legacy form and the byte length of inputs + outputs for the segwit form -/
def viewTx (b : Nat) (t : TxS) : TxV :=
  ⟨⟨b, encTx t⟩, match t.witnesses with
                 | none => none
                 | some _ => some ((encTxIns t.inputs).length + (encTxOuts t.outputs).length)⟩
def viewHeader (b : Nat) (h : HeaderS) : HeaderV := ⟨⟨b, encHeader h⟩, h.version, h.time, h.bits, h.nonce⟩
def viewBlock (b : Nat) (k : BlockS) : BlockV := ⟨⟨b, encBlock k⟩, viewHeader b k.header, k.txs.length⟩

/-! ### reading the abstract value back from the exposed fields -/

def fieldsScript (v : ScriptV) : Bytes := v.slice.bytes.drop v.from_
def fieldsOutPoint (v : OutPointV) : OutPointS := ⟨v.slice.bytes.take 32, leN (v.slice.bytes.drop 32)⟩
def fieldsTxIn (v : TxInV) : TxInS := ⟨fieldsOutPoint v.prevout, fieldsScript v.scriptSig, v.sequence⟩
def fieldsTxOut (v : TxOutV) : TxOutS := ⟨v.value, fieldsScript v.scriptPubkey⟩
def fieldsHeader (v : HeaderV) : HeaderS :=
  ⟨v.version, (v.slice.bytes.drop 4).take 32, (v.slice.bytes.drop 36).take 32, v.time, v.bits, v.nonce⟩

/-! ### the in-order traversal -/

def travTxInsFrom : (b i : Nat) → List TxInS → List Event
  | _, _, [] => []
  | b, i, x :: l => .txIn i (viewTxIn b x) :: travTxInsFrom (b + (encTxIn x).length) (i + 1) l

def travTxIns (b : Nat) (l : List TxInS) : List Event :=
  .txIns l.length :: travTxInsFrom (b + (encCompact l.length).length) 0 l

def travTxOutsFrom : (b i : Nat) → List TxOutS → List Event
  | _, _, [] => []
  | b, i, x :: l => .txOut i (viewTxOut b x) :: travTxOutsFrom (b + (encTxOut x).length) (i + 1) l

def travTxOuts (b : Nat) (l : List TxOutS) : List Event :=
  .txOuts l.length :: travTxOutsFrom (b + (encCompact l.length).length) 0 l

/-- witness elements: the slice of an element excludes its length prefix -/
def travWitElems : (b i : Nat) → List Bytes → List Event
  | _, _, [] => []
  | b, i, e :: w =>
    .witnessElement i ⟨b + (encCompact e.length).length, e⟩ :: travWitElems (b + (encVarBytes e).length) (i + 1) w

def travWitness (b : Nat) (w : List Bytes) : List Event :=
  .witnessTotal w.length :: travWitElems (b + (encCompact w.length).length) 0 w

def travWitnessesFrom : (b i : Nat) → List (List Bytes) → List Event
  | _, _, [] => []
  | b, i, w :: ws =>
    .witness i :: (travWitness b w ++ .witnessEnd :: travWitnessesFrom (b + (encWitness w).length) (i + 1) ws)

def travWitnesses (b : Nat) (ws : List (List Bytes)) : List Event := travWitnessesFrom b 0 ws

/-- legacy: inputs, outputs, `transaction`; segwit: `txIns 0` (the marker read as an empty input list), inputs,
    outputs, witnesses, `transaction` -/
def travTx (b : Nat) (t : TxS) : List Event :=
  match t.witnesses with
  | none =>
    travTxIns (b + 4) t.inputs ++ travTxOuts (b + 4 + (encTxIns t.inputs).length) t.outputs ++
      [.transaction (viewTx b t)]
  | some ws =>
    .txIns 0 :: (travTxIns (b + 6) t.inputs ++ travTxOuts (b + 6 + (encTxIns t.inputs).length) t.outputs ++
      travWitnesses (b + 6 + (encTxIns t.inputs).length + (encTxOuts t.outputs).length) ws ++
      [.transaction (viewTx b t)])

def travTxs : (b : Nat) → List TxS → List Event
  | _, [] => []
  | b, t :: l => travTx b t ++ travTxs (b + (encTx t).length) l

def travHeader (b : Nat) (h : HeaderS) : List Event := [.blockHeader (viewHeader b h)]

def travBlock (b : Nat) (k : BlockS) : List Event :=
  .blockHeader (viewHeader b k.header) :: .blockBegin k.txs.length ::
    travTxs (b + 80 + (encCompact k.txs.length).length) k.txs

/-! ### sub-slices -/

/-- `t` is the part of `s` at `t`'s absolute position -/
def Inside (t s : Slice) : Prop :=
  s.base ≤ t.base ∧ t.base + t.len ≤ s.base + s.len ∧ t.bytes = (s.bytes.drop (t.base - s.base)).take t.len

/-- every slice an event carries -/
def Event.slices : Event → List Slice
  | .blockHeader h => [h.slice]
  | .transaction tx => [tx.slice]
  | .txIn _ i => [i.slice, i.prevout.slice, i.scriptSig.slice]
  | .txOut _ o => [o.slice, o.scriptPubkey.slice]
  | .witnessElement _ e => [e]
  | _ => []

/-- every slice of every event of the trace lies inside `s` -/
def EventsInside (tr : List Event) (s : Slice) : Prop := ∀ e ∈ tr, ∀ t ∈ Event.slices e, Inside t s

/-- a segwit transaction that is well formed except that all its witnesses are empty although it has inputs
    (the values `SegwitFlagWithoutWitnesses` is about) -/
def AllEmptyWit (t : TxS) : Prop :=
  TxS.WF { t with witnesses := none } ∧ t.witnesses = some (List.replicate t.inputs.length [])

/-! ### error classes (C14) -/

/-- a result that is not `VisitBreak`, not `Other`, not a panic -/
def NeverBreakOther {α : Type} (r : Res α) : Prop :=
  r ≠ .err .visitBreak ∧ (∀ c, r ≠ .err (.other c)) ∧ ∀ p, r ≠ .panic p

/-- ok, `MoreBytesNeeded` or `NonMinimalVarInt` -/
def OnlyBasic {α : Type} (r : Res α) : Prop :=
  (∃ a, r = .ok a) ∨ r = .err .moreBytesNeeded ∨ r = .err .nonMinimalVarInt

/-! ### concrete values for the non-vacuity examples -/

/-- a legacy transaction with one input and one output -/
def exLegacy : TxS :=
  ⟨2, [⟨⟨List.replicate 32 0xAB, 1⟩, [0x51], 0xFFFFFFFF⟩], [⟨5000, [0x6A, 0x01]⟩], none, 7⟩
/-- the same with a one-element witness -/
def exSegwit : TxS := { exLegacy with witnesses := some [[[0x30, 0x31]]] }
def exHeader : HeaderS := ⟨1, List.replicate 32 1, List.replicate 32 2, 3, 4, 5⟩
def exBlock : BlockS := ⟨exHeader, [exLegacy, exSegwit]⟩

end BS.Enc

