import BS.Lemmas.StabCut
/-
  Truncation stability (`TP`) of the callback-making L2 decoders.
-/
namespace BS.Stab
open BS BS.Spec

theorem tp_decTxInsLoop (n : Nat) : ∀ (i : Nat) (s : Slice) (c : Nat),
    TP s c (fun r => r) (fun r => cutS r c) (decTxInsLoop n i (cutS s c)) (decTxInsLoop n i s) := by
  induction n with
  | zero => intro i s c; exact TP.pure (Suffix.refl _) (fun _ => rfl)
  | succ n ih =>
    intro i s c
    simp only [decTxInsLoop]
    refine TP.bind (TP.lift (tp_decTxIn s c)) ?_
    rintro ⟨t, r⟩ _ h1
    refine TP.emit_bind _ ?_
    exact ih (i + 1) r c

theorem tp_decTxIns (s : Slice) (c : Nat) : TP s c Prod.snd (tP c) (decTxIns (cutS s c)) (decTxIns s) := by
  unfold decTxIns
  refine TP.bind (TP.lift (tp_decCompact s c)) ?_
  rintro ⟨n, r⟩ _ h1
  refine TP.emit_bind _ ?_
  refine TP.bind (tp_decTxInsLoop n 0 r c) ?_
  intro rem _ h2
  refine TP.pure (Suffix.refl _) ?_
  intro hc
  have hs : Suffix s rem := Suffix.trans h1 h2
  simp only [viewOf_cut hs hc]

theorem tp_decTxOutsLoop (n : Nat) : ∀ (i : Nat) (s : Slice) (c : Nat),
    TP s c (fun r => r) (fun r => cutS r c) (decTxOutsLoop n i (cutS s c)) (decTxOutsLoop n i s) := by
  induction n with
  | zero => intro i s c; exact TP.pure (Suffix.refl _) (fun _ => rfl)
  | succ n ih =>
    intro i s c
    simp only [decTxOutsLoop]
    refine TP.bind (TP.lift (tp_decTxOut s c)) ?_
    rintro ⟨t, r⟩ _ h1
    refine TP.emit_bind _ ?_
    exact ih (i + 1) r c

theorem tp_decTxOuts (s : Slice) (c : Nat) : TP s c Prod.snd (tP c) (decTxOuts (cutS s c)) (decTxOuts s) := by
  unfold decTxOuts
  refine TP.bind (TP.lift (tp_decCompact s c)) ?_
  rintro ⟨n, r⟩ _ h1
  refine TP.emit_bind _ ?_
  refine TP.bind (tp_decTxOutsLoop n 0 r c) ?_
  intro rem _ h2
  refine TP.pure (Suffix.refl _) ?_
  intro hc
  have hs : Suffix s rem := Suffix.trans h1 h2
  simp only [viewOf_cut hs hc]

theorem tp_decWitnessLoop (n : Nat) : ∀ (i : Nat) (s : Slice) (c : Nat),
    TP s c (fun r => r) (fun r => cutS r c) (decWitnessLoop n i (cutS s c)) (decWitnessLoop n i s) := by
  induction n with
  | zero => intro i s c; exact TP.pure (Suffix.refl _) (fun _ => rfl)
  | succ n ih =>
    intro i s c
    simp only [decWitnessLoop]
    refine TP.bind (TP.lift (tp_decCompact s c)) ?_
    rintro ⟨len, r⟩ _ h1
    refine TP.bind (TP.lift (tp_takeN r len c)) ?_
    rintro ⟨el, r'⟩ _ h2
    refine TP.emit_bind _ ?_
    exact ih (i + 1) r' c

theorem tp_decWitness (s : Slice) (c : Nat) :
    TP s c (fun p => p.2.2) (tP3 c) (decWitness (cutS s c)) (decWitness s) := by
  unfold decWitness
  refine TP.bind (TP.lift (tp_decCompact s c)) ?_
  rintro ⟨n, r⟩ _ h1
  refine TP.emit_bind _ ?_
  refine TP.bind (tp_decWitnessLoop n 0 r c) ?_
  intro rem _ h2
  refine TP.pure (Suffix.refl _) ?_
  intro hc
  have hs : Suffix s rem := Suffix.trans h1 h2
  simp only [viewOf_cut hs hc]

theorem tp_decWitnessesLoop (n : Nat) : ∀ (i : Nat) (s : Slice) (ae : Bool) (c : Nat),
    TP s c Prod.fst (tPl c) (decWitnessesLoop n i (cutS s c) ae) (decWitnessesLoop n i s ae) := by
  induction n with
  | zero => intro i s ae c; exact TP.pure (Suffix.refl _) (fun _ => rfl)
  | succ n ih =>
    intro i s ae c
    simp only [decWitnessesLoop]
    refine TP.emit_bind _ ?_
    refine TP.bind (tp_decWitness s c) ?_
    rintro ⟨w, em, r⟩ _ h1
    refine TP.emit_bind _ ?_
    exact ih (i + 1) r _ c

theorem tp_decWitnesses (n : Nat) (s : Slice) (c : Nat) :
    TP s c Prod.snd (tP c) (decWitnesses (cutS s c) n) (decWitnesses s n) := by
  unfold decWitnesses
  refine TP.bind (tp_decWitnessesLoop n 0 s true c) ?_
  rintro ⟨rem, ae⟩ _ h1
  refine TP.pure (Suffix.refl _) ?_
  intro hc
  simp only [viewOf_cut h1 hc]

theorem tp_decHeader (s : Slice) (c : Nat) : TP s c Prod.snd (tP c) (decHeader (cutS s c)) (decHeader s) := by
  unfold decHeader
  refine TP.bind (TP.lift (tp_takeN s 80 c)) ?_
  rintro ⟨p, rem⟩ _ h1
  refine TP.emit_bind _ ?_
  exact TP.pure (Suffix.refl _) (fun _ => rfl)

theorem tp_decTransaction (s : Slice) (c : Nat) :
    TP s c Prod.snd (tP c) (decTransaction (cutS s c)) (decTransaction s) := by
  unfold decTransaction
  refine TP.bind (TP.lift (tp_decLE 4 s c)) ?_
  rintro ⟨ver, s4⟩ _ h1
  refine TP.bind (tp_decTxIns s4 c) ?_
  rintro ⟨ins, r⟩ _ h2
  have hr : Suffix s r := Suffix.trans h1 h2
  dsimp only
  by_cases h0 : ins.n = 0
  · rw [if_pos h0, if_pos h0]
    refine TP.bind (TP.lift (tp_decLE 1 r c)) ?_
    rintro ⟨flag, r1⟩ _ h3
    dsimp only
    by_cases hf : flag = 1
    · rw [if_pos hf, if_pos hf]
      refine TP.bind (tp_decTxIns r1 c) ?_
      rintro ⟨ins2, r2⟩ _ h4
      refine TP.bind (tp_decTxOuts r2 c) ?_
      rintro ⟨outs, r3⟩ _ h5
      refine TP.bind (tp_decWitnesses ins2.n r3 c) ?_
      rintro ⟨wits, r4⟩ _ h6
      dsimp only
      by_cases hw : ins2.n ≠ 0 ∧ wits.allEmpty = true
      · rw [if_pos hw, if_pos hw]
        exact TP.err _ _
      · rw [if_neg hw, if_neg hw]
        refine TP.bind (TP.lift (tp_decLE 4 r4 c)) ?_
        rintro ⟨lock, rem⟩ _ h7
        dsimp only
        have hs : Suffix s rem :=
          Suffix.trans hr (Suffix.trans h3 (Suffix.trans h4 (Suffix.trans h5 (Suffix.trans h6 h7))))
        by_cases hc : c ≤ rem.len
        · rw [viewOf_cut hs hc]
          refine TP.emit_bind _ ?_
          exact TP.pure (Suffix.refl _) (fun _ => rfl)
        · refine TP.emit_bind2 _ _ ?_
          exact TP.pure (Suffix.refl _) (fun hc' => (hc hc').elim)
    · rw [if_neg hf, if_neg hf]
      exact TP.err _ _
  · rw [if_neg h0, if_neg h0]
    refine TP.bind (tp_decTxOuts r c) ?_
    rintro ⟨outs, r1⟩ _ h3
    refine TP.bind (TP.lift (tp_decLE 4 r1 c)) ?_
    rintro ⟨lock, rem⟩ _ h4
    dsimp only
    have hs : Suffix s rem := Suffix.trans hr (Suffix.trans h3 h4)
    by_cases hc : c ≤ rem.len
    · rw [viewOf_cut hs hc]
      refine TP.emit_bind _ ?_
      exact TP.pure (Suffix.refl _) (fun _ => rfl)
    · refine TP.emit_bind2 _ _ ?_
      exact TP.pure (Suffix.refl _) (fun hc' => (hc hc').elim)

theorem tp_decBlockLoop (n : Nat) : ∀ (s : Slice) (c : Nat),
    TP s c (fun r => r) (fun r => cutS r c) (decBlockLoop n (cutS s c)) (decBlockLoop n s) := by
  induction n with
  | zero => intro s c; exact TP.pure (Suffix.refl _) (fun _ => rfl)
  | succ n ih =>
    intro s c
    simp only [decBlockLoop]
    refine TP.bind (tp_decTransaction s c) ?_
    rintro ⟨t, r⟩ _ h1
    exact ih r c

theorem tp_decBlock (s : Slice) (c : Nat) : TP s c Prod.snd (tP c) (decBlock (cutS s c)) (decBlock s) := by
  unfold decBlock
  refine TP.bind (tp_decHeader s c) ?_
  rintro ⟨h, r⟩ _ h1
  refine TP.bind (TP.lift (tp_decCompact r c)) ?_
  rintro ⟨n, r1⟩ _ h2
  refine TP.emit_bind _ ?_
  refine TP.bind (tp_decBlockLoop n r1 c) ?_
  intro rem _ h3
  refine TP.pure (Suffix.refl _) ?_
  intro hc
  have hs : Suffix s rem := Suffix.trans h1 (Suffix.trans h2 h3)
  simp only [viewOf_cut hs hc]

end BS.Stab
