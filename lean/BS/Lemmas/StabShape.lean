import BS.Lemmas.Stab
/-
  Remainder shape / exact partition / no panic for the L2 decoders, as Hoare-style postconditions:
  `Post d P` = the run `d` does not panic and, when it succeeds, its result satisfies `P`.
  For every decoder the postcondition is `Part s view rem`: the returned view is the first `k` bytes of the input *with
  the input's own base offset* and the remainder is the rest (`Suffix`), for some `k ≤ s.len`.
-/
namespace BS.Stab
open BS BS.Spec

/-- `r` is what is left of `s` after consuming `k` bytes -/
def Suffix (s r : Slice) : Prop := ∃ k, k ≤ s.len ∧ r = ⟨s.base + k, s.bytes.drop k⟩

/-- `v` and `r` split `s` exactly -/
def Part (s v r : Slice) : Prop := ∃ k, k ≤ s.len ∧ v = ⟨s.base, s.bytes.take k⟩ ∧ r = ⟨s.base + k, s.bytes.drop k⟩

theorem Suffix.refl (s : Slice) : Suffix s s := ⟨0, Nat.zero_le _, by simp⟩

theorem Suffix.trans {s r t : Slice} (h1 : Suffix s r) (h2 : Suffix r t) : Suffix s t := by
  obtain ⟨k, hk, rfl⟩ := h1
  obtain ⟨j, hj, rfl⟩ := h2
  have hj' : j ≤ s.bytes.length - k := by simpa [Slice.len] using hj
  have hk' : k ≤ s.bytes.length := hk
  refine ⟨k + j, by simp only [Slice.len]; omega, ?_⟩
  simp only [List.drop_drop, Nat.add_assoc]

theorem Part.suffix {s v r : Slice} (h : Part s v r) : Suffix s r := by
  obtain ⟨k, hk, _, hr⟩ := h; exact ⟨k, hk, hr⟩

theorem Suffix.len_le {s r : Slice} (h : Suffix s r) : r.len ≤ s.len := by
  obtain ⟨k, hk, rfl⟩ := h
  simp only [Slice.len, List.length_drop]; omega

theorem part_viewOf {s r : Slice} (h : Suffix s r) : Part s (viewOf s r) r := by
  obtain ⟨k, hk, rfl⟩ := h
  refine ⟨k, hk, ?_, rfl⟩
  simp only [viewOf, Slice.len, List.length_drop] at hk ⊢
  have : s.bytes.length - (s.bytes.length - k) = k := by omega
  rw [this]

/-! ### postconditions -/

def PostR {α : Type} (r : Res α) (P : α → Prop) : Prop := (∀ q, r ≠ .panic q) ∧ ∀ a, r = .ok a → P a

def Post {α : Type} (d : D α) (P : α → Prop) : Prop := (∀ q, d.res ≠ .panic q) ∧ ∀ a, d.res = .ok a → P a

section
variable {α β : Type}

theorem PostR.ok {a : α} {P : α → Prop} (h : P a) : PostR (.ok a) P :=
  ⟨fun _ h' => (by cases h'), fun _ h' => by cases h'; exact h⟩

theorem PostR.pure {a : α} {P : α → Prop} (h : P a) : PostR (Pure.pure a) P := PostR.ok h

theorem PostR.err (e : Error) (P : α → Prop) : PostR (.err e) P :=
  ⟨fun _ h' => (by cases h'), fun _ h' => by cases h'⟩

theorem PostR.bind {m : Res α} {f : α → Res β} {P : α → Prop} {Q : β → Prop}
    (hm : PostR m P) (hf : ∀ a, P a → PostR (f a) Q) : PostR (m >>= f) Q := by
  cases m with
  | ok a => exact hf a (hm.2 a rfl)
  | err e => exact PostR.err _ _
  | panic q => exact (hm.1 q rfl).elim

theorem PostR.mono {r : Res α} {P Q : α → Prop} (h : PostR r P) (hpq : ∀ a, P a → Q a) : PostR r Q :=
  ⟨h.1, fun a ha => hpq a (h.2 a ha)⟩

theorem Post.lift {r : Res α} {P : α → Prop} (h : PostR r P) : Post (D.lift r) P := h

theorem Post.emit (ev : Event) : Post (D.emit ev) (fun _ => True) :=
  ⟨fun _ h' => (by cases h'), fun _ _ => trivial⟩

theorem Post.pure {a : α} {P : α → Prop} (h : P a) : Post (Pure.pure a : D α) P :=
  ⟨fun _ h' => (by cases h'), fun _ h' => by cases h'; exact h⟩

theorem Post.err (e : Error) (P : α → Prop) : Post (D.lift (.err e)) P :=
  ⟨fun _ h' => (by cases h'), fun _ h' => by cases h'⟩

theorem Post.bind {m : D α} {f : α → D β} {P : α → Prop} {Q : β → Prop}
    (hm : Post m P) (hf : ∀ a, P a → Post (f a) Q) : Post (m >>= f) Q := by
  cases hr : m.res with
  | ok a =>
    rw [D.bind_ok hr]
    exact hf a (hm.2 a hr)
  | err e =>
    rw [D.bind_err hr]
    exact ⟨fun _ h' => (by cases h'), fun _ h' => by cases h'⟩
  | panic q => exact (hm.1 q hr).elim

theorem Post.mono {d : D α} {P Q : α → Prop} (h : Post d P) (hpq : ∀ a, P a → Q a) : Post d Q :=
  ⟨h.1, fun a ha => hpq a (h.2 a ha)⟩
end

/-! ### primitives -/

theorem post_takeN (s : Slice) (n : Nat) : PostR (takeN s n) (fun p => Part s p.1 p.2) := by
  unfold takeN
  split
  · exact PostR.err _ _
  · exact PostR.ok ⟨n, by omega, rfl, rfl⟩

theorem post_decLE (w : Nat) (s : Slice) : PostR (decLE w s) (fun p => Suffix s p.2) := by
  unfold decLE
  have h := post_takeN s w
  cases ht : takeN s w with
  | ok a =>
    obtain ⟨p, r⟩ := a
    exact PostR.ok (h.2 _ ht).suffix
  | err e => exact PostR.err _ _
  | panic q => exact (h.1 q ht).elim

theorem post_decCompact (s : Slice) : PostR (decCompact s) (fun p => Suffix s p.2) := by
  unfold decCompact
  split
  · exact PostR.err _ _
  · rename_i c t hb
    have h1 : Suffix s ⟨s.base + 1, s.bytes.drop 1⟩ := ⟨1, by simp [Slice.len, hb], rfl⟩
    have hw : ∀ w min, PostR (match decLE w ⟨s.base + 1, s.bytes.drop 1⟩ with
        | .ok (n, r) => if n ≥ min then Res.ok (n, r) else .err .nonMinimalVarInt
        | .err e => .err e
        | .panic p => .panic p) (fun p => Suffix s p.2) := by
      intro w min
      have h := post_decLE w ⟨s.base + 1, s.bytes.drop 1⟩
      cases ht : decLE w ⟨s.base + 1, s.bytes.drop 1⟩ with
      | ok a =>
        obtain ⟨n, r⟩ := a
        dsimp only
        split
        · exact PostR.ok (h1.trans (h.2 _ ht))
        · exact PostR.err _ _
      | err e => exact PostR.err _ _
      | panic q => exact (h.1 q ht).elim
    dsimp only
    split
    · exact hw _ _
    · split
      · exact hw _ _
      · split
        · exact hw _ _
        · exact PostR.ok h1

/-! ### pure composite decoders -/

theorem post_decScript (s : Slice) : PostR (decScript s) (fun p => Part s p.1.slice p.2) := by
  unfold decScript
  refine PostR.bind (post_decCompact s) ?_
  rintro ⟨n, r⟩ h1
  refine PostR.bind (post_takeN r n) ?_
  rintro ⟨p, rem⟩ h2
  exact PostR.pure (part_viewOf (h1.trans h2.suffix))

theorem post_decOutPoint (s : Slice) : PostR (decOutPoint s) (fun p => Part s p.1.slice p.2) := by
  unfold decOutPoint
  refine PostR.bind (post_takeN s 36) ?_
  rintro ⟨p, rem⟩ h1
  exact PostR.pure h1

theorem post_decTxIn (s : Slice) : PostR (decTxIn s) (fun p => Part s p.1.slice p.2) := by
  unfold decTxIn
  refine PostR.bind (post_decOutPoint s) ?_
  rintro ⟨op, r1⟩ h1
  refine PostR.bind (post_decScript r1) ?_
  rintro ⟨sc, r2⟩ h2
  refine PostR.bind (post_decLE 4 r2) ?_
  rintro ⟨sq, rem⟩ h3
  exact PostR.pure (part_viewOf (h1.suffix.trans (h2.suffix.trans h3)))

theorem post_decTxOut (s : Slice) : PostR (decTxOut s) (fun p => Part s p.1.slice p.2) := by
  unfold decTxOut
  refine PostR.bind (post_decLE 8 s) ?_
  rintro ⟨v, r1⟩ h1
  refine PostR.bind (post_decScript r1) ?_
  rintro ⟨sc, rem⟩ h2
  exact PostR.pure (part_viewOf (h1.trans h2.suffix))

/-! ### decoders with callbacks -/

theorem post_decTxInsLoop (n : Nat) : ∀ (i : Nat) (s : Slice), Post (decTxInsLoop n i s) (fun r => Suffix s r) := by
  induction n with
  | zero => intro i s; exact Post.pure (Suffix.refl s)
  | succ n ih =>
    intro i s
    simp only [decTxInsLoop]
    refine Post.bind (Post.lift (post_decTxIn s)) ?_
    rintro ⟨t, r⟩ h1
    refine Post.bind (Post.emit _) ?_
    intro _ _
    exact (ih (i + 1) r).mono (fun _ h => h1.suffix.trans h)

theorem post_decTxIns (s : Slice) : Post (decTxIns s) (fun p => Part s p.1.slice p.2) := by
  unfold decTxIns
  refine Post.bind (Post.lift (post_decCompact s)) ?_
  rintro ⟨n, r⟩ h1
  refine Post.bind (Post.emit _) ?_
  intro _ _
  refine Post.bind (post_decTxInsLoop n 0 r) ?_
  intro rem h2
  exact Post.pure (part_viewOf (h1.trans h2))

theorem post_decTxOutsLoop (n : Nat) : ∀ (i : Nat) (s : Slice), Post (decTxOutsLoop n i s) (fun r => Suffix s r) := by
  induction n with
  | zero => intro i s; exact Post.pure (Suffix.refl s)
  | succ n ih =>
    intro i s
    simp only [decTxOutsLoop]
    refine Post.bind (Post.lift (post_decTxOut s)) ?_
    rintro ⟨t, r⟩ h1
    refine Post.bind (Post.emit _) ?_
    intro _ _
    exact (ih (i + 1) r).mono (fun _ h => h1.suffix.trans h)

theorem post_decTxOuts (s : Slice) : Post (decTxOuts s) (fun p => Part s p.1.slice p.2) := by
  unfold decTxOuts
  refine Post.bind (Post.lift (post_decCompact s)) ?_
  rintro ⟨n, r⟩ h1
  refine Post.bind (Post.emit _) ?_
  intro _ _
  refine Post.bind (post_decTxOutsLoop n 0 r) ?_
  intro rem h2
  exact Post.pure (part_viewOf (h1.trans h2))

theorem post_decWitnessLoop (n : Nat) : ∀ (i : Nat) (s : Slice), Post (decWitnessLoop n i s) (fun r => Suffix s r) := by
  induction n with
  | zero => intro i s; exact Post.pure (Suffix.refl s)
  | succ n ih =>
    intro i s
    simp only [decWitnessLoop]
    refine Post.bind (Post.lift (post_decCompact s)) ?_
    rintro ⟨len, r⟩ h1
    refine Post.bind (Post.lift (post_takeN r len)) ?_
    rintro ⟨el, r'⟩ h2
    refine Post.bind (Post.emit _) ?_
    intro _ _
    exact (ih (i + 1) r').mono (fun _ h => h1.trans (h2.suffix.trans h))

theorem post_decWitness (s : Slice) : Post (decWitness s) (fun p => Part s p.1.slice p.2.2) := by
  unfold decWitness
  refine Post.bind (Post.lift (post_decCompact s)) ?_
  rintro ⟨n, r⟩ h1
  refine Post.bind (Post.emit _) ?_
  intro _ _
  refine Post.bind (post_decWitnessLoop n 0 r) ?_
  intro rem h2
  exact Post.pure (part_viewOf (h1.trans h2))

theorem post_decWitnessesLoop (n : Nat) : ∀ (i : Nat) (s : Slice) (ae : Bool),
    Post (decWitnessesLoop n i s ae) (fun p => Suffix s p.1) := by
  induction n with
  | zero => intro i s ae; exact Post.pure (Suffix.refl s)
  | succ n ih =>
    intro i s ae
    simp only [decWitnessesLoop]
    refine Post.bind (Post.emit _) ?_
    intro _ _
    refine Post.bind (post_decWitness s) ?_
    rintro ⟨w, em, r⟩ h1
    refine Post.bind (Post.emit _) ?_
    intro _ _
    exact (ih (i + 1) r _).mono (fun _ h => h1.suffix.trans h)

theorem post_decWitnesses (n : Nat) (s : Slice) : Post (decWitnesses s n) (fun p => Part s p.1.slice p.2) := by
  unfold decWitnesses
  refine Post.bind (post_decWitnessesLoop n 0 s true) ?_
  rintro ⟨rem, ae⟩ h1
  exact Post.pure (part_viewOf h1)

theorem post_decHeader (s : Slice) : Post (decHeader s) (fun p => Part s p.1.slice p.2) := by
  unfold decHeader
  refine Post.bind (Post.lift (post_takeN s 80)) ?_
  rintro ⟨p, rem⟩ h1
  refine Post.bind (Post.emit _) ?_
  intro _ _
  exact Post.pure h1

theorem post_decTransaction (s : Slice) : Post (decTransaction s) (fun p => Part s p.1.slice p.2) := by
  unfold decTransaction
  refine Post.bind (Post.lift (post_decLE 4 s)) ?_
  rintro ⟨ver, s4⟩ h1
  refine Post.bind (post_decTxIns s4) ?_
  rintro ⟨ins, r⟩ h2
  have hr : Suffix s r := h1.trans h2.suffix
  dsimp only
  split
  · refine Post.bind (Post.lift (post_decLE 1 r)) ?_
    rintro ⟨flag, r1⟩ h3
    dsimp only
    split
    · refine Post.bind (post_decTxIns r1) ?_
      rintro ⟨ins2, r2⟩ h4
      refine Post.bind (post_decTxOuts r2) ?_
      rintro ⟨outs, r3⟩ h5
      refine Post.bind (post_decWitnesses ins2.n r3) ?_
      rintro ⟨wits, r4⟩ h6
      dsimp only
      split
      · exact Post.err _ _
      · refine Post.bind (Post.lift (post_decLE 4 r4)) ?_
        rintro ⟨lock, rem⟩ h7
        refine Post.bind (Post.emit _) ?_
        intro _ _
        exact Post.pure (part_viewOf
          (hr.trans (h3.trans (h4.suffix.trans (h5.suffix.trans (h6.suffix.trans h7))))))
    · exact Post.err _ _
  · refine Post.bind (post_decTxOuts r) ?_
    rintro ⟨outs, r1⟩ h3
    refine Post.bind (Post.lift (post_decLE 4 r1)) ?_
    rintro ⟨lock, rem⟩ h4
    refine Post.bind (Post.emit _) ?_
    intro _ _
    exact Post.pure (part_viewOf (hr.trans (h3.suffix.trans h4)))

theorem post_decBlockLoop (n : Nat) : ∀ (s : Slice), Post (decBlockLoop n s) (fun r => Suffix s r) := by
  induction n with
  | zero => intro s; exact Post.pure (Suffix.refl s)
  | succ n ih =>
    intro s
    simp only [decBlockLoop]
    refine Post.bind (post_decTransaction s) ?_
    rintro ⟨t, r⟩ h1
    exact (ih r).mono (fun _ h => h1.suffix.trans h)

theorem post_decBlock (s : Slice) : Post (decBlock s) (fun p => Part s p.1.slice p.2) := by
  unfold decBlock
  refine Post.bind (post_decHeader s) ?_
  rintro ⟨h, r⟩ h1
  refine Post.bind (Post.lift (post_decCompact r)) ?_
  rintro ⟨n, r1⟩ h2
  refine Post.bind (Post.emit _) ?_
  intro _ _
  refine Post.bind (post_decBlockLoop n r1) ?_
  intro rem h3
  exact Post.pure (part_viewOf (h1.suffix.trans (h2.trans h3)))

end BS.Stab
