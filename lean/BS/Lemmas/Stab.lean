import BS.Spec.Decode
/-
  Prefix / extension stability of the L2 reference decoders: the framework.

  `extS s x` is "the input `s` followed by `x`". A decoder run `d'` on the extended input *extends* the run `d` on
  the original input (`Ext e d d'`) when
    * `d` did not stop with `MoreBytesNeeded`  →  `d'` made the very same callbacks and has the same result, except
      that the remainder inside the result grew by `x` (the map `e` on results says where the remainder sits);
    * `d` stopped with `MoreBytesNeeded`       →  the callbacks of `d` are a prefix of those of `d'`.
  `Ext` is preserved by sequencing (`Ext.bind`), which is all the decoders are made of.
-/
namespace BS.Stab
open BS BS.Spec

/-- the slice `s` followed by the bytes `x` -/
def extS (s : Slice) (x : Bytes) : Slice := ⟨s.base, s.bytes ++ x⟩

@[simp] theorem extS_base (s : Slice) (x : Bytes) : (extS s x).base = s.base := rfl
@[simp] theorem extS_bytes (s : Slice) (x : Bytes) : (extS s x).bytes = s.bytes ++ x := rfl
@[simp] theorem extS_len (s : Slice) (x : Bytes) : (extS s x).len = s.len + x.length := by
  simp [extS, Slice.len]
@[simp] theorem extS_mk (b : Nat) (bs x : Bytes) : extS ⟨b, bs⟩ x = ⟨b, bs ++ x⟩ := rfl

/-- object + remainder: only the remainder grows -/
@[reducible] def eP {α : Type} (x : Bytes) (p : α × Slice) : α × Slice := (p.1, extS p.2 x)
@[simp] theorem eP_mk {α : Type} (x : Bytes) (a : α) (r : Slice) : eP x (a, r) = (a, extS r x) := rfl

/-- object + flag + remainder (`decWitness`) -/
@[reducible] def eP3 {α β : Type} (x : Bytes) (p : α × β × Slice) : α × β × Slice := (p.1, p.2.1, extS p.2.2 x)
@[simp] theorem eP3_mk {α β : Type} (x : Bytes) (a : α) (b : β) (r : Slice) : eP3 x (a, b, r) = (a, b, extS r x) := rfl

/-- remainder + flag (`decWitnessesLoop`) -/
@[reducible] def ePl {β : Type} (x : Bytes) (p : Slice × β) : Slice × β := (extS p.1 x, p.2)
@[simp] theorem ePl_mk {β : Type} (x : Bytes) (r : Slice) (b : β) : ePl x (r, b) = (extS r x, b) := rfl

/-! ### the `D` monad -/
section D
variable {α β : Type}

theorem D.bind_def (m : D α) (f : α → D β) : (m >>= f) = D.bind' m f := rfl

theorem D.bind_ok {m : D α} {a : α} (h : m.res = .ok a) (f : α → D β) :
    (m >>= f) = ⟨m.trace ++ (f a).trace, (f a).res⟩ := by
  simp only [D.bind_def, D.bind', h]

theorem D.bind_err {m : D α} {e : Error} (h : m.res = .err e) (f : α → D β) :
    (m >>= f) = ⟨m.trace, .err e⟩ := by
  simp only [D.bind_def, D.bind', h]

theorem D.bind_panic {m : D α} {p : Panic} (h : m.res = .panic p) (f : α → D β) :
    (m >>= f) = ⟨m.trace, .panic p⟩ := by
  simp only [D.bind_def, D.bind', h]

theorem D.pure_def (a : α) : (pure a : D α) = ⟨[], .ok a⟩ := rfl

theorem D.trace_prefix_bind (m : D α) (f : α → D β) : m.trace <+: (m >>= f).trace := by
  cases h : m.res with
  | ok a => rw [D.bind_ok h]; exact List.prefix_append _ _
  | err e => rw [D.bind_err h]; exact List.prefix_refl _
  | panic p => rw [D.bind_panic h]; exact List.prefix_refl _

/-- inversion of a successful bind -/
theorem D.bind_res_ok_inv {m : D α} {f : α → D β} {b : β} (h : (m >>= f).res = .ok b) :
    ∃ a, m.res = .ok a ∧ (f a).res = .ok b := by
  cases hm : m.res with
  | ok a => rw [D.bind_ok hm] at h; exact ⟨a, rfl, h⟩
  | err e => rw [D.bind_err hm] at h; cases h
  | panic p => rw [D.bind_panic hm] at h; cases h

theorem D.ext_eq {d d' : D α} (h1 : d.trace = d'.trace) (h2 : d.res = d'.res) : d = d' := by
  cases d; cases d'; simp_all
end D

theorem Res.bind_ok_inv {α β : Type} {m : Res α} {f : α → Res β} {b : β} (h : (m >>= f) = .ok b) :
    ∃ a, m = .ok a ∧ f a = .ok b := by
  cases m with
  | ok a => exact ⟨a, rfl, h⟩
  | err e => cases h
  | panic p => cases h

@[simp] theorem map'_ok {α β : Type} (e : α → β) (a : α) : Res.map' e (.ok a) = .ok (e a) := rfl
@[simp] theorem map'_err {α β : Type} (e : α → β) (er : Error) : Res.map' e (.err er) = .err er := rfl
@[simp] theorem map'_panic {α β : Type} (e : α → β) (p : Panic) : Res.map' e (.panic p) = .panic p := rfl

/-! ### the extension relation -/

/-- pure results -/
def ExtR {α : Type} (e : α → α) (r r' : Res α) : Prop :=
  r ≠ .err .moreBytesNeeded → r' = Res.map' e r

/-- runs with callbacks -/
def Ext {α : Type} (e : α → α) (d d' : D α) : Prop :=
  (d.res ≠ .err .moreBytesNeeded → d' = ⟨d.trace, Res.map' e d.res⟩) ∧
  (d.res = .err .moreBytesNeeded → d.trace <+: d'.trace)

section
variable {α β : Type}

theorem ExtR.mbn (e : α → α) (r' : Res α) : ExtR e (.err .moreBytesNeeded) r' := fun h => (h rfl).elim

theorem ExtR.ok {e : α → α} {a a' : α} (h : a' = e a) : ExtR e (.ok a) (.ok a') := fun _ => by rw [h]; rfl

theorem ExtR.pure {e : α → α} {a a' : α} (h : a' = e a) : ExtR e (Pure.pure a) (Pure.pure a') := ExtR.ok h

theorem ExtR.err (e : α → α) (er : Error) : ExtR e (.err er) (.err er) := fun _ => rfl

theorem ExtR.panic (e : α → α) (p : Panic) : ExtR e (.panic p) (.panic p) := fun _ => rfl

theorem ExtR.bind {e : α → α} {e2 : β → β} {m m' : Res α} {f f' : α → Res β}
    (hm : ExtR e m m') (hf : ∀ a, m = .ok a → ExtR e2 (f a) (f' (e a))) : ExtR e2 (m >>= f) (m' >>= f') := by
  cases m with
  | ok a =>
    have h1 : m' = .ok (e a) := hm (by simp)
    subst h1
    exact hf a rfl
  | err er =>
    by_cases her : er = .moreBytesNeeded
    · subst her; exact ExtR.mbn _ _
    · have h1 : m' = .err er := hm (by simpa using her)
      subst h1; exact ExtR.err _ _
  | panic p =>
    have h1 : m' = .panic p := hm (by simp)
    subst h1; exact ExtR.panic _ _

/-- a pure step inside a run -/
theorem Ext.lift {e : α → α} {r r' : Res α} (h : ExtR e r r') : Ext e (D.lift r) (D.lift r') := by
  constructor
  · intro hne
    have := h hne
    simp only [D.lift] at *
    rw [this]
  · intro _; exact List.prefix_refl _

theorem Ext.emit (ev : Event) : Ext (fun u : Unit => u) (D.emit ev) (D.emit ev) := by
  constructor
  · intro _; rfl
  · intro h; cases h

theorem Ext.pure {e : α → α} {a a' : α} (h : a' = e a) : Ext e (Pure.pure a : D α) (Pure.pure a') := by
  constructor
  · intro _; rw [h]; rfl
  · intro h; cases h

theorem Ext.bind {e : α → α} {e2 : β → β} {m m' : D α} {f f' : α → D β}
    (hm : Ext e m m') (hf : ∀ a, m.res = .ok a → Ext e2 (f a) (f' (e a))) : Ext e2 (m >>= f) (m' >>= f') := by
  cases hr : m.res with
  | ok a =>
    have h1 : m' = ⟨m.trace, .ok (e a)⟩ := by
      have := hm.1 (by rw [hr]; simp)
      rw [this, hr]; rfl
    subst h1
    rw [D.bind_ok hr, D.bind_ok (m := (⟨m.trace, .ok (e a)⟩ : D α)) rfl]
    obtain ⟨g1, g2⟩ := hf a hr
    constructor
    · intro hne
      rw [g1 hne]
    · intro heq
      exact (List.prefix_append_right_inj _).2 (g2 heq)
  | err er =>
    rw [D.bind_err hr]
    by_cases her : er = .moreBytesNeeded
    · subst her
      constructor
      · intro h; exact (h rfl).elim
      · intro _; exact (hm.2 hr).trans (D.trace_prefix_bind _ _)
    · have h1 : m' = ⟨m.trace, .err er⟩ := by
        have := hm.1 (by rw [hr]; simpa using her)
        rw [this, hr]; rfl
      subst h1
      rw [D.bind_err (m := (⟨m.trace, .err er⟩ : D α)) rfl]
      constructor
      · intro _; rfl
      · intro h; exact (her (by cases h; rfl)).elim
  | panic p =>
    rw [D.bind_panic hr]
    have h1 : m' = ⟨m.trace, .panic p⟩ := by
      have := hm.1 (by rw [hr]; simp)
      rw [this, hr]; rfl
    subst h1
    rw [D.bind_panic (m := (⟨m.trace, .panic p⟩ : D α)) rfl]
    constructor
    · intro _; rfl
    · intro h; cases h

/-- a final (non-`MoreBytesNeeded`) error -/
theorem Ext.err (e : α → α) {er : Error} (h : er ≠ .moreBytesNeeded) :
    Ext e (D.lift (.err er)) (D.lift (.err er)) := by
  constructor
  · intro _; rfl
  · intro h'; exact (h (by cases h'; rfl)).elim

/-- unconditional: the callbacks on the input are a prefix of the callbacks on the extended input -/
theorem Ext.trace_prefix {e : α → α} {d d' : D α} (h : Ext e d d') : d.trace <+: d'.trace := by
  by_cases hm : d.res = .err .moreBytesNeeded
  · exact h.2 hm
  · rw [h.1 hm]; exact List.prefix_refl _
end

/-! ### views are stable -/

theorem viewOf_ext (s rem : Slice) (x : Bytes) : viewOf (extS s x) (extS rem x) = viewOf s rem := by
  simp only [viewOf, extS_len, extS_base, extS_bytes]
  have : s.len + x.length - (rem.len + x.length) = s.len - rem.len := by omega
  rw [this, List.take_append_of_le_length]
  simp only [Slice.len]; omega

theorem len_sub_ext (s r : Slice) (x : Bytes) : (extS s x).len - (extS r x).len = s.len - r.len := by
  simp only [extS_len]; omega

end BS.Stab
