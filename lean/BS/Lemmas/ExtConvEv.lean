import BS.Lemmas.ExtConv
import BS.Lemmas.EncTx
/-
  The conversions on the objects the element callbacks deliver: every `visit_tx_in` / `visit_tx_out` callback of any
  decoder run (successful or not) carries a view on which the conversion to the rust-bitcoin value succeeds.
  `AllEv P tr`: every event of `tr` satisfies `P`; it goes through the decoders like `Enc.EventsInside`.
-/
namespace BS.Ext
open BS BS.Spec BS.Enc

/-- what converting the object carried by an element callback does -/
def ConvEv : Event → Prop
  | .txIn _ i => ∃ x : TxInS, convTxIn i = .ok x ∧ x.WF ∧ encTxIn x = i.slice.bytes ∧ x = fieldsTxIn i
  | .txOut _ o => ∃ x : TxOutS, convTxOut o = .ok x ∧ x.WF ∧ encTxOut x = o.slice.bytes ∧ x = fieldsTxOut o
  | _ => True

def AllEv (P : Event → Prop) (tr : List Event) : Prop := ∀ e ∈ tr, P e

section
variable {P : Event → Prop}

theorem AllEv.nil : AllEv P [] := fun _ h => by cases h

theorem AllEv.cons {e : Event} {tr : List Event} (he : P e) (h : AllEv P tr) : AllEv P (e :: tr) := by
  intro x hx
  rcases List.mem_cons.1 hx with rfl | hx
  · exact he
  · exact h x hx

theorem AllEv_bind {α β} {m : D α} {f : α → D β} (hm : AllEv P m.trace)
    (hf : ∀ a, m.res = .ok a → AllEv P (f a).trace) : AllEv P (m >>= f).trace := by
  intro e he
  rcases D_bind_trace_mem he with h | ⟨a, ha, h⟩
  · exact hm e h
  · exact hf a ha e h

theorem AllEv_lift_bind {α β} {r : Res α} {f : α → D β} (hf : ∀ a, r = .ok a → AllEv P (f a).trace) :
    AllEv P (D.lift r >>= f).trace :=
  AllEv_bind AllEv.nil hf

theorem AllEv_emit_bind {β} {e : Event} {f : Unit → D β} (he : P e) (hf : AllEv P (f ()).trace) :
    AllEv P (D.emit e >>= f).trace := by
  rw [D_emit_bind]
  exact AllEv.cons he hf

theorem AllEv_pure {α} (a : α) : AllEv P (pure a : D α).trace := AllEv.nil
end

theorem conv_of_decTxIn {s : Slice} {i : Nat} {o : TxInV} {rem : Slice} (h : decTxIn s = .ok (o, rem)) :
    ConvEv (.txIn i o) := by
  obtain ⟨x, hw, _, _, ho⟩ := decTxIn_eq_ok' h
  subst ho
  exact ⟨x, convTxIn_view _ hw, hw, rfl, (fields_viewTxIn _ hw).symm⟩

theorem conv_of_decTxOut {s : Slice} {i : Nat} {o : TxOutV} {rem : Slice} (h : decTxOut s = .ok (o, rem)) :
    ConvEv (.txOut i o) := by
  obtain ⟨x, hw, _, _, ho⟩ := decTxOut_eq_ok' h
  subst ho
  exact ⟨x, convTxOut_view _ x, hw, rfl, (fields_viewTxOut _ x).symm⟩

theorem decTxInsLoop_conv : ∀ (n i : Nat) (s : Slice), AllEv ConvEv (decTxInsLoop n i s).trace := by
  intro n
  induction n with
  | zero => intro i s; exact AllEv.nil
  | succ n ih =>
    intro i s
    rw [decTxInsLoop]
    refine AllEv_lift_bind fun ⟨x, r⟩ hx => ?_
    exact AllEv_emit_bind (conv_of_decTxIn hx) (ih _ r)

theorem decTxIns_conv (s : Slice) : AllEv ConvEv (decTxIns s).trace := by
  unfold decTxIns
  refine AllEv_lift_bind fun ⟨n, r⟩ _ => ?_
  refine AllEv_emit_bind trivial ?_
  exact AllEv_bind (decTxInsLoop_conv n 0 r) fun _ _ => AllEv_pure _

theorem decTxOutsLoop_conv : ∀ (n i : Nat) (s : Slice), AllEv ConvEv (decTxOutsLoop n i s).trace := by
  intro n
  induction n with
  | zero => intro i s; exact AllEv.nil
  | succ n ih =>
    intro i s
    rw [decTxOutsLoop]
    refine AllEv_lift_bind fun ⟨x, r⟩ hx => ?_
    exact AllEv_emit_bind (conv_of_decTxOut hx) (ih _ r)

theorem decTxOuts_conv (s : Slice) : AllEv ConvEv (decTxOuts s).trace := by
  unfold decTxOuts
  refine AllEv_lift_bind fun ⟨n, r⟩ _ => ?_
  refine AllEv_emit_bind trivial ?_
  exact AllEv_bind (decTxOutsLoop_conv n 0 r) fun _ _ => AllEv_pure _

theorem decWitnessLoop_conv : ∀ (n i : Nat) (s : Slice), AllEv ConvEv (decWitnessLoop n i s).trace := by
  intro n
  induction n with
  | zero => intro i s; exact AllEv.nil
  | succ n ih =>
    intro i s
    rw [decWitnessLoop]
    refine AllEv_lift_bind fun ⟨len, r⟩ _ => ?_
    refine AllEv_lift_bind fun ⟨el, r'⟩ _ => ?_
    exact AllEv_emit_bind trivial (ih _ r')

theorem decWitness_conv (s : Slice) : AllEv ConvEv (decWitness s).trace := by
  unfold decWitness
  refine AllEv_lift_bind fun ⟨n, r⟩ _ => ?_
  refine AllEv_emit_bind trivial ?_
  exact AllEv_bind (decWitnessLoop_conv n 0 r) fun _ _ => AllEv_pure _

theorem decWitnessesLoop_conv : ∀ (n i : Nat) (s : Slice) (ae : Bool),
    AllEv ConvEv (decWitnessesLoop n i s ae).trace := by
  intro n
  induction n with
  | zero => intro i s ae; exact AllEv.nil
  | succ n ih =>
    intro i s ae
    rw [decWitnessesLoop]
    refine AllEv_emit_bind trivial ?_
    refine AllEv_bind (decWitness_conv s) fun ⟨o, em, r⟩ _ => ?_
    exact AllEv_emit_bind trivial (ih _ r _)

theorem decWitnesses_conv (s : Slice) (n : Nat) : AllEv ConvEv (decWitnesses s n).trace := by
  unfold decWitnesses
  exact AllEv_bind (decWitnessesLoop_conv n 0 s true) fun ⟨_, _⟩ _ => AllEv_pure _

theorem txLegTail_conv (s r : Slice) : AllEv ConvEv (txLegTail s r).trace := by
  unfold txLegTail
  refine AllEv_bind (decTxOuts_conv r) fun ⟨ov, r1⟩ _ => ?_
  refine AllEv_lift_bind fun ⟨lock, rem⟩ _ => ?_
  exact AllEv_emit_bind trivial (AllEv_pure _)

theorem txSegTail_conv (s r1 : Slice) : AllEv ConvEv (txSegTail s r1).trace := by
  unfold txSegTail
  refine AllEv_bind (decTxIns_conv r1) fun ⟨iv, r2⟩ _ => ?_
  refine AllEv_bind (decTxOuts_conv r2) fun ⟨ov, r3⟩ _ => ?_
  refine AllEv_bind (decWitnesses_conv r3 _) fun ⟨wv, r4⟩ _ => ?_
  simp only
  split
  · exact AllEv.nil
  · refine AllEv_lift_bind fun ⟨lock, rem⟩ _ => ?_
    exact AllEv_emit_bind trivial (AllEv_pure _)

theorem decTransaction_conv (s : Slice) : AllEv ConvEv (decTransaction s).trace := by
  rw [decTransaction_eq]
  refine AllEv_lift_bind fun ⟨ver, s4⟩ _ => ?_
  refine AllEv_bind (decTxIns_conv s4) fun ⟨iv, r⟩ _ => ?_
  simp only
  split
  · unfold txFlag
    refine AllEv_lift_bind fun ⟨flag, r1⟩ _ => ?_
    simp only
    split
    · exact txSegTail_conv s r1
    · exact AllEv.nil
  · exact txLegTail_conv s r

theorem decHeader_conv (s : Slice) : AllEv ConvEv (decHeader s).trace := by
  unfold decHeader
  refine AllEv_lift_bind fun ⟨p, rem⟩ _ => ?_
  exact AllEv_emit_bind trivial (AllEv_pure _)

theorem decBlockLoop_conv : ∀ (n : Nat) (s : Slice), AllEv ConvEv (decBlockLoop n s).trace := by
  intro n
  induction n with
  | zero => intro s; exact AllEv.nil
  | succ n ih =>
    intro s
    rw [decBlockLoop]
    exact AllEv_bind (decTransaction_conv s) fun ⟨t, r⟩ _ => ih r

theorem decBlock_conv (s : Slice) : AllEv ConvEv (decBlock s).trace := by
  unfold decBlock
  refine AllEv_bind (decHeader_conv s) fun ⟨h, r⟩ _ => ?_
  refine AllEv_lift_bind fun ⟨n, r1⟩ _ => ?_
  refine AllEv_emit_bind trivial ?_
  exact AllEv_bind (decBlockLoop_conv n r1) fun _ _ => AllEv_pure _

end BS.Ext
