import BS.Lemmas.EncErr
/-
  nesting inside a transaction: with everything in front of a component well formed, the component's error is the
  transaction's error
-/
namespace BS.Enc
open BS BS.Spec

theorem decTransaction_short {s : Slice} (h : s.bytes.length < 4) :
    (decTransaction s).res = .err .moreBytesNeeded := by
  rw [decTransaction_eq, decLE_short h]; rfl

theorem decTransaction_err_inputs (b : Nat) (ver r : Bytes) (e : Error) (hv : ver.length = 4)
    (h : (decTxIns ⟨b + 4, r⟩).res = .err e) : (decTransaction ⟨b, ver ++ r⟩).res = .err e := by
  rw [decTransaction_eq, decLE_append 4 b ver r hv]
  simp only [D_lift_ok_bind]
  exact D_bind_res_err h

/-- the legacy form up to and including a non-empty input list -/
theorem decTransaction_legacy_step (b : Nat) (ver : Bytes) (ins : List TxInS) (r : Bytes) (hv : ver.length = 4)
    (hne : ins ≠ []) (hni : ins.length < 2 ^ 64) (hwi : ∀ x ∈ ins, x.WF) :
    (decTransaction ⟨b, ver ++ encTxIns ins ++ r⟩).res =
      (txLegTail ⟨b, ver ++ encTxIns ins ++ r⟩ ⟨b + 4 + (encTxIns ins).length, r⟩).res := by
  rw [decTransaction_eq]
  rw [List.append_assoc, decLE_append 4 b ver _ hv]
  simp only [D_lift_ok_bind]
  rw [decTxIns_enc _ _ _ hni hwi]
  simp only [D_mk_ok_bind]
  rw [if_neg]
  simp only [viewTxIns]
  intro h0; exact hne (List.length_eq_zero_iff.1 h0)

theorem decTransaction_err_legacy_outputs (b : Nat) (ver : Bytes) (ins : List TxInS) (r : Bytes) (e : Error)
    (hv : ver.length = 4) (hne : ins ≠ []) (hni : ins.length < 2 ^ 64) (hwi : ∀ x ∈ ins, x.WF)
    (h : (decTxOuts ⟨b + 4 + (encTxIns ins).length, r⟩).res = .err e) :
    (decTransaction ⟨b, ver ++ encTxIns ins ++ r⟩).res = .err e := by
  rw [decTransaction_legacy_step b ver ins r hv hne hni hwi]
  unfold txLegTail
  exact D_bind_res_err h

theorem decTransaction_err_legacy_locktime (b : Nat) (ver : Bytes) (ins : List TxInS) (outs : List TxOutS)
    (r : Bytes) (hv : ver.length = 4) (hne : ins ≠ []) (hni : ins.length < 2 ^ 64) (hwi : ∀ x ∈ ins, x.WF)
    (hno : outs.length < 2 ^ 64) (hwo : ∀ x ∈ outs, x.WF) (hr : r.length < 4) :
    (decTransaction ⟨b, ver ++ encTxIns ins ++ (encTxOuts outs ++ r)⟩).res = .err .moreBytesNeeded := by
  rw [decTransaction_legacy_step b ver ins _ hv hne hni hwi]
  unfold txLegTail
  rw [decTxOuts_enc _ _ _ hno hwo]
  simp only [D_mk_ok_bind]
  rw [decLE_short (by simpa using hr)]
  rfl

/-- version, marker and nothing else -/
theorem decTransaction_err_no_flag (b : Nat) (ver : Bytes) (hv : ver.length = 4) :
    (decTransaction ⟨b, ver ++ [0x00]⟩).res = .err .moreBytesNeeded := by
  rw [decTransaction_eq, decLE_append 4 b ver _ hv]
  simp only [D_lift_ok_bind]
  rw [decTxIns_marker]
  simp only [D_mk_ok_bind]
  rw [if_pos (show (viewTxIns (b + 4) []).n = 0 from rfl)]
  unfold txFlag
  rw [decLE_short (by simp)]
  rfl

/-- the segwit form up to and including the flag -/
theorem decTransaction_segwit_step (b : Nat) (ver r : Bytes) (hv : ver.length = 4) :
    (decTransaction ⟨b, ver ++ [0x00, 0x01] ++ r⟩).res =
      (txSegTail ⟨b, ver ++ [0x00, 0x01] ++ r⟩ ⟨b + 6, r⟩).res := by
  rw [decTransaction_eq]
  simp only [List.append_assoc, List.cons_append, List.nil_append]
  rw [decLE_append 4 b ver _ hv]
  simp only [D_lift_ok_bind]
  rw [decTxIns_marker]
  simp only [D_mk_ok_bind]
  rw [if_pos (show (viewTxIns (b + 4) []).n = 0 from rfl)]
  unfold txFlag
  rw [decLE1_cons]
  simp only [D_lift_ok_bind]
  rw [if_pos (show (1 : UInt8).toNat = 1 from rfl)]

theorem decTransaction_err_segwit_inputs (b : Nat) (ver r : Bytes) (e : Error) (hv : ver.length = 4)
    (h : (decTxIns ⟨b + 6, r⟩).res = .err e) : (decTransaction ⟨b, ver ++ [0x00, 0x01] ++ r⟩).res = .err e := by
  rw [decTransaction_segwit_step b ver r hv]
  unfold txSegTail
  exact D_bind_res_err h

theorem decTransaction_err_segwit_outputs (b : Nat) (ver : Bytes) (ins : List TxInS) (r : Bytes) (e : Error)
    (hv : ver.length = 4) (hni : ins.length < 2 ^ 64) (hwi : ∀ x ∈ ins, x.WF)
    (h : (decTxOuts ⟨b + 6 + (encTxIns ins).length, r⟩).res = .err e) :
    (decTransaction ⟨b, ver ++ [0x00, 0x01] ++ (encTxIns ins ++ r)⟩).res = .err e := by
  rw [decTransaction_segwit_step b ver _ hv]
  unfold txSegTail
  rw [decTxIns_enc _ _ _ hni hwi]
  simp only [D_mk_ok_bind]
  exact D_bind_res_err h

theorem decTransaction_err_segwit_witnesses (b : Nat) (ver : Bytes) (ins : List TxInS) (outs : List TxOutS)
    (r : Bytes) (e : Error) (hv : ver.length = 4) (hni : ins.length < 2 ^ 64) (hwi : ∀ x ∈ ins, x.WF)
    (hno : outs.length < 2 ^ 64) (hwo : ∀ x ∈ outs, x.WF)
    (h : (decWitnesses ⟨b + 6 + (encTxIns ins).length + (encTxOuts outs).length, r⟩ ins.length).res = .err e) :
    (decTransaction ⟨b, ver ++ [0x00, 0x01] ++ (encTxIns ins ++ (encTxOuts outs ++ r))⟩).res = .err e := by
  rw [decTransaction_segwit_step b ver _ hv]
  unfold txSegTail
  rw [decTxIns_enc _ _ _ hni hwi]
  simp only [D_mk_ok_bind]
  rw [decTxOuts_enc _ _ _ hno hwo]
  simp only [D_mk_ok_bind]
  exact D_bind_res_err h

theorem decTransaction_err_segwit_locktime (b : Nat) (ver : Bytes) (ins : List TxInS) (outs : List TxOutS)
    (ws : List (List Bytes)) (r : Bytes) (hv : ver.length = 4) (hni : ins.length < 2 ^ 64) (hwi : ∀ x ∈ ins, x.WF)
    (hno : outs.length < 2 ^ 64) (hwo : ∀ x ∈ outs, x.WF) (hlen : ws.length = ins.length)
    (hww : ∀ w ∈ ws, witnessWF w) (hex : ins ≠ [] → ∃ w ∈ ws, w ≠ []) (hr : r.length < 4) :
    (decTransaction ⟨b, ver ++ [0x00, 0x01] ++ (encTxIns ins ++ (encTxOuts outs ++ (encWitnesses ws ++ r)))⟩).res =
      .err .moreBytesNeeded := by
  rw [decTransaction_segwit_step b ver _ hv]
  unfold txSegTail
  rw [decTxIns_enc _ _ _ hni hwi]
  simp only [D_mk_ok_bind]
  rw [decTxOuts_enc _ _ _ hno hwo]
  simp only [D_mk_ok_bind]
  have hvn : (viewTxIns (b + 6) ins).n = ws.length := hlen.symm
  rw [hvn, decWitnesses_enc _ _ _ hww]
  simp only [D_mk_ok_bind]
  rw [if_neg, decLE_short (by simpa using hr)]
  · rfl
  · rintro ⟨h1, h2⟩
    have hi : ins ≠ [] := by
      intro h; rw [h] at hlen; exact h1 hlen
    obtain ⟨w, hwm, hwn⟩ := hex hi
    simp only [viewWitnesses, List.all_eq_true, decide_eq_true_eq] at h2
    exact hwn (h2 w hwm)

end BS.Enc
