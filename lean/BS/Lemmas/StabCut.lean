import BS.Lemmas.StabShape
/-
  Truncation stability of the L2 decoders: a decoder never looks at bytes it does not consume.
  If a run on `s'` succeeds and leaves at least `c` bytes, the run on `s'` without its last `c` bytes (`cutS s' c`)
  succeeds with the same object and the remainder without its last `c` bytes.
  (Not a consequence of extension stability: a decoder peeking one byte ahead would be extension-stable.)

  `TP idx c sel t d d'` relates the run `d'` on the long input and the run `d` on the cut input:
    (A) the remainder `sel a'` of a successful `d'` is a suffix of `idx`,
    (B) if it keeps at least `c` bytes, `d` succeeds with `t a'` (= `a'` with the remainder cut by `c`).
-/
namespace BS.Stab
open BS BS.Spec

/-- `s` without its last `c` bytes -/
def cutS (s : Slice) (c : Nat) : Slice := ⟨s.base, s.bytes.take (s.len - c)⟩

@[simp] theorem cutS_base (s : Slice) (c : Nat) : (cutS s c).base = s.base := rfl
theorem cutS_len (s : Slice) (c : Nat) : (cutS s c).len = s.len - c := by
  simp only [cutS, Slice.len, List.length_take]; omega

@[reducible] def tP {α : Type} (c : Nat) (p : α × Slice) : α × Slice := (p.1, cutS p.2 c)
@[reducible] def tP3 {α β : Type} (c : Nat) (p : α × β × Slice) : α × β × Slice := (p.1, p.2.1, cutS p.2.2 c)
@[reducible] def tPl {β : Type} (c : Nat) (p : Slice × β) : Slice × β := (cutS p.1 c, p.2)

theorem cutS_suffix {s r : Slice} {c : Nat} (h : Suffix s r) (hc : c ≤ r.len) : Suffix (cutS s c) (cutS r c) := by
  obtain ⟨k, hk, rfl⟩ := h
  have hl : c ≤ s.bytes.length - k := by simpa [Slice.len] using hc
  have hk' : k ≤ s.bytes.length := hk
  refine ⟨k, by rw [cutS_len]; simp only [Slice.len]; omega, ?_⟩
  simp only [cutS, Slice.len, List.length_drop, List.drop_take, Slice.mk.injEq, true_and]
  congr 1; omega

theorem viewOf_cut {s r : Slice} {c : Nat} (h : Suffix s r) (hc : c ≤ r.len) :
    viewOf (cutS s c) (cutS r c) = viewOf s r := by
  have hle := h.len_le
  simp only [viewOf, cutS_len, cutS_base]
  have : s.len - c - (r.len - c) = s.len - r.len := by omega
  rw [this]
  simp only [cutS, List.take_take, Slice.mk.injEq, true_and]
  congr 1; omega

theorem len_sub_cut {s r : Slice} {c : Nat} (h : Suffix s r) (hc : c ≤ r.len) :
    (cutS s c).len - (cutS r c).len = s.len - r.len := by
  have hle := h.len_le
  simp only [cutS_len]; omega

/-- a long input is its cut followed by its last `c` bytes -/
theorem extS_cutS (s : Slice) (c : Nat) : extS (cutS s c) (s.bytes.drop (s.len - c)) = s := by
  simp [extS, cutS]

/-! ### the relation -/

def TPR {α : Type} (idx : Slice) (c : Nat) (sel : α → Slice) (t : α → α) (r r' : Res α) : Prop :=
  (∀ a', r' = .ok a' → Suffix idx (sel a')) ∧ (∀ a', r' = .ok a' → c ≤ (sel a').len → r = .ok (t a'))

def TP {α : Type} (idx : Slice) (c : Nat) (sel : α → Slice) (t : α → α) (d d' : D α) : Prop :=
  (∀ a', d'.res = .ok a' → Suffix idx (sel a')) ∧ (∀ a', d'.res = .ok a' → c ≤ (sel a').len → d.res = .ok (t a'))

section
variable {α β : Type} {idx : Slice} {c : Nat} {sel : α → Slice} {t : α → α} {sel2 : β → Slice} {t2 : β → β}

theorem TPR.ok {a a' : α} (hA : Suffix idx (sel a')) (hB : c ≤ (sel a').len → a = t a') :
    TPR idx c sel t (.ok a) (.ok a') :=
  ⟨fun _ h => by cases h; exact hA, fun _ h hc => by cases h; rw [hB hc]⟩

theorem TPR.pure {a a' : α} (hA : Suffix idx (sel a')) (hB : c ≤ (sel a').len → a = t a') :
    TPR idx c sel t (Pure.pure a) (Pure.pure a') := TPR.ok hA hB

theorem TPR.err (r : Res α) (e : Error) : TPR idx c sel t r (.err e) :=
  ⟨fun _ h => (by cases h), fun _ h => (by cases h)⟩

theorem TPR.panic (r : Res α) (q : Panic) : TPR idx c sel t r (.panic q) :=
  ⟨fun _ h => (by cases h), fun _ h => (by cases h)⟩

theorem TPR.bind {m m' : Res α} {f f' : α → Res β} (hm : TPR idx c sel t m m')
    (hf : ∀ a1', m' = .ok a1' → Suffix idx (sel a1') → TPR (sel a1') c sel2 t2 (f (t a1')) (f' a1')) :
    TPR idx c sel2 t2 (m >>= f) (m' >>= f') := by
  cases m' with
  | ok a1' =>
    have hs1 := hm.1 a1' rfl
    have hk := hf a1' rfl hs1
    constructor
    · intro a2' h
      exact hs1.trans (hk.1 a2' h)
    · intro a2' h hc
      have hle := (hk.1 a2' h).len_le
      have hmr := hm.2 a1' rfl (Nat.le_trans hc hle)
      rw [hmr]
      exact hk.2 a2' h hc
  | err e => exact TPR.err _ _
  | panic q => exact TPR.panic _ _

theorem TP.lift {r r' : Res α} (h : TPR idx c sel t r r') : TP idx c sel t (D.lift r) (D.lift r') := h

theorem TP.pure {a a' : α} (hA : Suffix idx (sel a')) (hB : c ≤ (sel a').len → a = t a') :
    TP idx c sel t (Pure.pure a : D α) (Pure.pure a') :=
  ⟨fun _ h => by cases h; exact hA, fun _ h hc => by cases h; rw [hB hc]; rfl⟩

theorem TP.err (d : D α) (e : Error) : TP idx c sel t d (D.lift (.err e)) :=
  ⟨fun _ h => (by cases h), fun _ h => (by cases h)⟩

theorem TP.bind {m m' : D α} {f f' : α → D β} (hm : TP idx c sel t m m')
    (hf : ∀ a1', m'.res = .ok a1' → Suffix idx (sel a1') → TP (sel a1') c sel2 t2 (f (t a1')) (f' a1')) :
    TP idx c sel2 t2 (m >>= f) (m' >>= f') := by
  cases hr : m'.res with
  | ok a1' =>
    have hs1 := hm.1 a1' hr
    have hk := hf a1' hr hs1
    rw [D.bind_ok hr]
    constructor
    · intro a2' h
      exact hs1.trans (hk.1 a2' h)
    · intro a2' h hc
      have hle := (hk.1 a2' h).len_le
      have hmr := hm.2 a1' hr (Nat.le_trans hc hle)
      rw [D.bind_ok hmr]
      exact hk.2 a2' h hc
  | err e =>
    rw [D.bind_err hr]
    exact ⟨fun _ h => (by cases h), fun _ h => (by cases h)⟩
  | panic q =>
    rw [D.bind_panic hr]
    exact ⟨fun _ h => (by cases h), fun _ h => (by cases h)⟩

theorem TP.emit_bind2 (ev ev' : Event) {k k' : Unit → D α} (h : TP idx c sel t (k ()) (k' ())) :
    TP idx c sel t (D.emit ev >>= k) (D.emit ev' >>= k') := by
  rw [D.bind_ok (m := D.emit ev) (a := ()) rfl, D.bind_ok (m := D.emit ev') (a := ()) rfl]
  exact h

theorem TP.emit_bind (ev : Event) {k k' : Unit → D α} (h : TP idx c sel t (k ()) (k' ())) :
    TP idx c sel t (D.emit ev >>= k) (D.emit ev >>= k') := TP.emit_bind2 ev ev h
end

/-! ### primitives -/

theorem tp_takeN (s : Slice) (n c : Nat) : TPR s c Prod.snd (tP c) (takeN (cutS s c) n) (takeN s n) := by
  unfold takeN
  by_cases h : s.len < n
  · rw [if_pos h]; exact TPR.err _ _
  · rw [if_neg h]
    constructor
    · intro a' ha; cases ha; exact ⟨n, by omega, rfl⟩
    · intro a' ha hc
      cases ha
      have hl : c ≤ s.bytes.length - n := by simpa [Slice.len] using hc
      have hn : n ≤ s.bytes.length := by simp only [Slice.len] at h; omega
      rw [if_neg (by rw [cutS_len]; simp only [Slice.len]; omega)]
      simp only [cutS, Slice.len, List.take_take, List.drop_take, List.length_drop, Res.ok.injEq, Prod.mk.injEq,
        Slice.mk.injEq, true_and]
      constructor
      · congr 1; omega
      · congr 1; omega

theorem tp_decLE (w : Nat) (s : Slice) (c : Nat) : TPR s c Prod.snd (tP c) (decLE w (cutS s c)) (decLE w s) := by
  unfold decLE
  have h := tp_takeN s w c
  cases ht : takeN s w with
  | ok a =>
    obtain ⟨p, r⟩ := a
    constructor
    · intro a' ha; cases ha; exact h.1 _ ht
    · intro a' ha hc
      cases ha
      rw [h.2 _ ht hc]
  | err e => exact TPR.err _ _
  | panic q => exact TPR.panic _ _

/-- one wide arm of `decCompact` (same as `Stab.wide`, restated here to keep this file independent of StabDec) -/
def wideC (s : Slice) (w min : Nat) : Res (Nat × Slice) :=
  match decLE w s with
  | .ok (n, r) => if n ≥ min then .ok (n, r) else .err .nonMinimalVarInt
  | .err e => .err e
  | .panic p => .panic p

theorem tp_wideC (s : Slice) (w min c : Nat) : TPR s c Prod.snd (tP c) (wideC (cutS s c) w min) (wideC s w min) := by
  unfold wideC
  have h := tp_decLE w s c
  cases ht : decLE w s with
  | ok a =>
    obtain ⟨n, r⟩ := a
    dsimp only
    by_cases hm : n ≥ min
    · rw [if_pos hm]
      constructor
      · intro a' ha; cases ha; exact h.1 _ ht
      · intro a' ha hc
        cases ha
        rw [h.2 _ ht hc]
        dsimp only
        rw [if_pos hm]
    · rw [if_neg hm]; exact TPR.err _ _
  | err e => exact TPR.err _ _
  | panic q => exact TPR.panic _ _

theorem decCompact_cons' (b : Nat) (c : UInt8) (t : Bytes) :
    decCompact ⟨b, c :: t⟩ =
      if c = 0xFF then wideC ⟨b + 1, t⟩ 8 0x100000000
      else if c = 0xFE then wideC ⟨b + 1, t⟩ 4 0x10000
      else if c = 0xFD then wideC ⟨b + 1, t⟩ 2 0xFD
      else .ok (c.toNat, ⟨b + 1, t⟩) := by
  simp only [decCompact, wideC, List.drop_one, List.tail_cons]
  rfl

theorem tp_decCompact (s : Slice) (c : Nat) : TPR s c Prod.snd (tP c) (decCompact (cutS s c)) (decCompact s) := by
  obtain ⟨b, bs⟩ := s
  cases bs with
  | nil => exact TPR.err _ _
  | cons x tl =>
    have hstep : Suffix ⟨b, x :: tl⟩ ⟨b + 1, tl⟩ := ⟨1, by simp [Slice.len], rfl⟩
    -- (A) from the shape lemma
    have hA : ∀ a', decCompact ⟨b, x :: tl⟩ = .ok a' → Suffix ⟨b, x :: tl⟩ a'.2 := (post_decCompact _).2
    refine ⟨hA, ?_⟩
    intro a' ha hc
    have hle : a'.2.len ≤ tl.length := by
      have ha2 := ha
      rw [decCompact_cons'] at ha2
      have hlen : ∀ w min a, wideC ⟨b + 1, tl⟩ w min = .ok a → a.2.len ≤ tl.length := by
        intro w min a hw
        exact ((tp_wideC ⟨b + 1, tl⟩ w min 0).1 a hw).len_le
      split at ha2
      · exact hlen _ _ _ ha2
      · split at ha2
        · exact hlen _ _ _ ha2
        · split at ha2
          · exact hlen _ _ _ ha2
          · cases ha2; exact Nat.le_refl _
    have hcut : cutS ⟨b, x :: tl⟩ c = ⟨b, x :: (cutS ⟨b + 1, tl⟩ c).bytes⟩ := by
      have : (x :: tl).length - c = (tl.length - c) + 1 := by simp only [List.length_cons]; omega
      simp only [cutS, Slice.len, this, List.take_succ_cons]
    rw [hcut, decCompact_cons']
    rw [decCompact_cons'] at ha
    have hw : ∀ w min, wideC ⟨b + 1, tl⟩ w min = .ok a' →
        wideC ⟨b + 1, (cutS ⟨b + 1, tl⟩ c).bytes⟩ w min = .ok (tP c a') := by
      intro w min hw
      exact (tp_wideC ⟨b + 1, tl⟩ w min c).2 a' hw hc
    split
    · rename_i h1; rw [if_pos h1] at ha; exact hw _ _ ha
    · rename_i h1; rw [if_neg h1] at ha
      split
      · rename_i h2; rw [if_pos h2] at ha; exact hw _ _ ha
      · rename_i h2; rw [if_neg h2] at ha
        split
        · rename_i h3; rw [if_pos h3] at ha; exact hw _ _ ha
        · rename_i h3; rw [if_neg h3] at ha
          cases ha
          rfl

/-! ### pure composite decoders -/

theorem tp_decScript (s : Slice) (c : Nat) : TPR s c Prod.snd (tP c) (decScript (cutS s c)) (decScript s) := by
  unfold decScript
  refine TPR.bind (tp_decCompact s c) ?_
  rintro ⟨n, r⟩ _ h1
  refine TPR.bind (tp_takeN r n c) ?_
  rintro ⟨p, rem⟩ _ h2
  refine TPR.pure (Suffix.refl _) ?_
  intro hc
  have hs : Suffix s rem := Suffix.trans h1 h2
  have hc1 : c ≤ r.len := Nat.le_trans hc (Suffix.len_le h2)
  simp only [viewOf_cut hs hc, len_sub_cut h1 hc1]

theorem tp_decOutPoint (s : Slice) (c : Nat) : TPR s c Prod.snd (tP c) (decOutPoint (cutS s c)) (decOutPoint s) := by
  unfold decOutPoint
  refine TPR.bind (tp_takeN s 36 c) ?_
  rintro ⟨p, rem⟩ _ h1
  exact TPR.pure (Suffix.refl _) (fun _ => rfl)

theorem tp_decTxIn (s : Slice) (c : Nat) : TPR s c Prod.snd (tP c) (decTxIn (cutS s c)) (decTxIn s) := by
  unfold decTxIn
  refine TPR.bind (tp_decOutPoint s c) ?_
  rintro ⟨op, r1⟩ _ h1
  refine TPR.bind (tp_decScript r1 c) ?_
  rintro ⟨sc, r2⟩ _ h2
  refine TPR.bind (tp_decLE 4 r2 c) ?_
  rintro ⟨sq, rem⟩ _ h3
  refine TPR.pure (Suffix.refl _) ?_
  intro hc
  have hs : Suffix s rem := Suffix.trans h1 (Suffix.trans h2 h3)
  simp only [viewOf_cut hs hc]

theorem tp_decTxOut (s : Slice) (c : Nat) : TPR s c Prod.snd (tP c) (decTxOut (cutS s c)) (decTxOut s) := by
  unfold decTxOut
  refine TPR.bind (tp_decLE 8 s c) ?_
  rintro ⟨v, r1⟩ _ h1
  refine TPR.bind (tp_decScript r1 c) ?_
  rintro ⟨sc, rem⟩ _ h2
  refine TPR.pure (Suffix.refl _) ?_
  intro hc
  have hs : Suffix s rem := Suffix.trans h1 h2
  simp only [viewOf_cut hs hc]

end BS.Stab
