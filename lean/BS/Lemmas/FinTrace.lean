import BS.Lemmas.EncInside
import BS.Lemmas.AccView
/-
  helper lemmas for C19: where the `transaction` callbacks of the L2 decoders come from.
  * `NoTx tr`      : no event of `tr` is a `transaction` callback
  * `TxShape d`    : a run of type `D (TxV × Slice)` that, when it succeeds with `(o, _)`, made callbacks
                     `pre ++ [.transaction o]` with `NoTx pre`, and made no `transaction` callback when it fails
  * `decTransaction_shape`, `decBlock_tx_origin` : the structure lemmas
-/
namespace BS.Fin
open BS BS.Spec BS.Enc

/-- is this the `visit_transaction` callback? -/
def isTx : Event → Bool
  | .transaction _ => true
  | _ => false

/-- the argument of a `visit_transaction` callback -/
def txOf : Event → Option TxV
  | .transaction tx => some tx
  | _ => none

/-- the transactions shown to the visitor, in order -/
def txEvents (tr : List Event) : List TxV := tr.filterMap txOf

theorem mem_txEvents {tr : List Event} {tx : TxV} : tx ∈ txEvents tr ↔ Event.transaction tx ∈ tr := by
  unfold txEvents
  rw [List.mem_filterMap]
  constructor
  · rintro ⟨e, he, h⟩
    cases e <;> simp only [txOf, Option.some.injEq, reduceCtorEq] at h
    subst h; exact he
  · intro h
    exact ⟨_, h, rfl⟩

/-- no `transaction` callback in `tr` -/
def NoTx (tr : List Event) : Prop := ∀ e ∈ tr, isTx e = false

theorem NoTx.nil : NoTx [] := fun _ h => by cases h

theorem NoTx.cons {e : Event} {tr : List Event} (he : isTx e = false) (h : NoTx tr) : NoTx (e :: tr) := by
  intro e' he'
  rcases List.mem_cons.1 he' with rfl | he'
  · exact he
  · exact h e' he'

theorem NoTx.append {a b : List Event} (ha : NoTx a) (hb : NoTx b) : NoTx (a ++ b) := by
  intro e he
  rcases List.mem_append.1 he with h | h
  · exact ha e h
  · exact hb e h

theorem NoTx.not_mem {tr : List Event} (h : NoTx tr) (tx : TxV) : Event.transaction tx ∉ tr := by
  intro hm
  have := h _ hm
  simp [isTx] at this

theorem NoTx.txEvents_nil {tr : List Event} (h : NoTx tr) : BS.Fin.txEvents tr = [] := by
  cases hx : BS.Fin.txEvents tr with
  | nil => rfl
  | cons a l =>
    have : a ∈ BS.Fin.txEvents tr := by rw [hx]; exact List.mem_cons_self
    exact absurd (mem_txEvents.1 this) (h.not_mem a)

theorem NoTx_bind {α β} {m : D α} {f : α → D β} (hm : NoTx m.trace) (hf : ∀ a, m.res = .ok a → NoTx (f a).trace) :
    NoTx (m >>= f).trace := by
  intro e he
  rcases D_bind_trace_mem he with h | ⟨a, ha, h⟩
  · exact hm e h
  · exact hf a ha e h

theorem NoTx_lift_bind {α β} {r : Res α} {f : α → D β} (hf : ∀ a, r = .ok a → NoTx (f a).trace) :
    NoTx (D.lift r >>= f).trace :=
  NoTx_bind NoTx.nil hf

theorem NoTx_emit_bind {β} {e : Event} {f : Unit → D β} (he : isTx e = false) (hf : NoTx (f ()).trace) :
    NoTx (D.emit e >>= f).trace := by
  rw [D_emit_bind]
  exact NoTx.cons he hf

theorem NoTx_pure {α} (a : α) : NoTx (pure a : D α).trace := NoTx.nil

/-! ### the list decoders make no `transaction` callback -/

theorem decTxInsLoop_noTx : ∀ (n i : Nat) (s : Slice), NoTx (decTxInsLoop n i s).trace := by
  intro n
  induction n with
  | zero => intro i s; exact NoTx.nil
  | succ n ih =>
    intro i s
    rw [decTxInsLoop]
    refine NoTx_lift_bind fun ⟨x, r⟩ _ => ?_
    exact NoTx_emit_bind rfl (ih _ r)

theorem decTxIns_noTx (s : Slice) : NoTx (decTxIns s).trace := by
  unfold decTxIns
  refine NoTx_lift_bind fun ⟨n, r⟩ _ => ?_
  refine NoTx_emit_bind rfl ?_
  exact NoTx_bind (decTxInsLoop_noTx n 0 r) fun _ _ => NoTx_pure _

theorem decTxOutsLoop_noTx : ∀ (n i : Nat) (s : Slice), NoTx (decTxOutsLoop n i s).trace := by
  intro n
  induction n with
  | zero => intro i s; exact NoTx.nil
  | succ n ih =>
    intro i s
    rw [decTxOutsLoop]
    refine NoTx_lift_bind fun ⟨x, r⟩ _ => ?_
    exact NoTx_emit_bind rfl (ih _ r)

theorem decTxOuts_noTx (s : Slice) : NoTx (decTxOuts s).trace := by
  unfold decTxOuts
  refine NoTx_lift_bind fun ⟨n, r⟩ _ => ?_
  refine NoTx_emit_bind rfl ?_
  exact NoTx_bind (decTxOutsLoop_noTx n 0 r) fun _ _ => NoTx_pure _

theorem decWitnessLoop_noTx : ∀ (n i : Nat) (s : Slice), NoTx (decWitnessLoop n i s).trace := by
  intro n
  induction n with
  | zero => intro i s; exact NoTx.nil
  | succ n ih =>
    intro i s
    rw [decWitnessLoop]
    refine NoTx_lift_bind fun ⟨len, r⟩ _ => ?_
    refine NoTx_lift_bind fun ⟨el, r'⟩ _ => ?_
    exact NoTx_emit_bind rfl (ih _ r')

theorem decWitness_noTx (s : Slice) : NoTx (decWitness s).trace := by
  unfold decWitness
  refine NoTx_lift_bind fun ⟨n, r⟩ _ => ?_
  refine NoTx_emit_bind rfl ?_
  exact NoTx_bind (decWitnessLoop_noTx n 0 r) fun _ _ => NoTx_pure _

theorem decWitnessesLoop_noTx : ∀ (n i : Nat) (s : Slice) (ae : Bool), NoTx (decWitnessesLoop n i s ae).trace := by
  intro n
  induction n with
  | zero => intro i s ae; exact NoTx.nil
  | succ n ih =>
    intro i s ae
    rw [decWitnessesLoop]
    refine NoTx_emit_bind rfl ?_
    refine NoTx_bind (decWitness_noTx s) fun ⟨o, em, r⟩ _ => ?_
    exact NoTx_emit_bind rfl (ih _ r _)

theorem decWitnesses_noTx (s : Slice) (n : Nat) : NoTx (decWitnesses s n).trace := by
  unfold decWitnesses
  exact NoTx_bind (decWitnessesLoop_noTx n 0 s true) fun ⟨_, _⟩ _ => NoTx_pure _

theorem decHeader_noTx (s : Slice) : NoTx (decHeader s).trace := by
  unfold decHeader
  refine NoTx_lift_bind fun ⟨p, rem⟩ _ => ?_
  exact NoTx_emit_bind rfl (NoTx_pure _)

/-! ### the shape of a transaction run -/

/-- a successful run ends with the single `transaction` callback, carrying the object returned;
    a failing run makes none -/
def TxShape (d : D (TxV × Slice)) : Prop :=
  (∀ o rem, d.res = .ok (o, rem) → ∃ pre, NoTx pre ∧ d.trace = pre ++ [.transaction o]) ∧
  ((∀ a, d.res ≠ .ok a) → NoTx d.trace)

theorem TxShape_bind {α} {m : D α} {f : α → D (TxV × Slice)} (hm : NoTx m.trace)
    (hf : ∀ a, m.res = .ok a → TxShape (f a)) : TxShape (m >>= f) := by
  cases h : m.res with
  | ok a =>
    rw [D_bind_ok h]
    obtain ⟨h1, h2⟩ := hf a h
    refine ⟨fun o rem ho => ?_, fun hno => ?_⟩
    · obtain ⟨pre, hp, e⟩ := h1 o rem ho
      exact ⟨m.trace ++ pre, hm.append hp, by simp only [e, List.append_assoc]⟩
    · exact hm.append (h2 hno)
  | err e =>
    rw [D_bind_err h]
    exact ⟨fun o rem ho => (by cases ho), fun _ => hm⟩
  | panic p =>
    rw [D_bind_panic h]
    exact ⟨fun o rem ho => (by cases ho), fun _ => hm⟩

theorem TxShape_lift_bind {α} {r : Res α} {f : α → D (TxV × Slice)} (hf : ∀ a, r = .ok a → TxShape (f a)) :
    TxShape (D.lift r >>= f) :=
  TxShape_bind NoTx.nil hf

theorem TxShape_fail (e : Error) : TxShape (D.lift (.err e)) :=
  ⟨fun o rem ho => (by cases ho), fun _ => NoTx.nil⟩

theorem TxShape_finish (tx : TxV) (rem : Slice) :
    TxShape (D.emit (.transaction tx) >>= fun _ => (pure (tx, rem) : D (TxV × Slice))) := by
  rw [D_emit_bind]
  refine ⟨fun o rem' ho => ?_, fun hno => absurd rfl (hno (tx, rem))⟩
  cases ho
  exact ⟨[], NoTx.nil, rfl⟩

theorem txLegTail_shape (s r : Slice) : TxShape (txLegTail s r) := by
  unfold txLegTail
  refine TxShape_bind (decTxOuts_noTx r) fun ⟨ov, r1⟩ _ => ?_
  refine TxShape_lift_bind fun ⟨lock, rem⟩ _ => ?_
  exact TxShape_finish _ _

theorem txSegTail_shape (s r1 : Slice) : TxShape (txSegTail s r1) := by
  unfold txSegTail
  refine TxShape_bind (decTxIns_noTx r1) fun ⟨iv, r2⟩ _ => ?_
  refine TxShape_bind (decTxOuts_noTx r2) fun ⟨ov, r3⟩ _ => ?_
  refine TxShape_bind (decWitnesses_noTx r3 _) fun ⟨wv, r4⟩ _ => ?_
  simp only
  split
  · exact TxShape_fail _
  · refine TxShape_lift_bind fun ⟨lock, rem⟩ _ => ?_
    exact TxShape_finish _ _

/-- structure lemma (transaction): `decTransaction` makes exactly one `transaction` callback, as the last callback of
    a successful run and with the object it returns, and none in a failing run -/
theorem decTransaction_shape (s : Slice) : TxShape (decTransaction s) := by
  rw [decTransaction_eq]
  refine TxShape_lift_bind fun ⟨ver, s4⟩ _ => ?_
  refine TxShape_bind (decTxIns_noTx s4) fun ⟨iv, r⟩ _ => ?_
  simp only
  split
  · unfold txFlag
    refine TxShape_lift_bind fun ⟨flag, r1⟩ _ => ?_
    simp only
    split
    · exact txSegTail_shape s r1
    · exact TxShape_fail _
  · exact txLegTail_shape s r

theorem decTransaction_trace_ok {s : Slice} {o : TxV} {rem : Slice} (h : (decTransaction s).res = .ok (o, rem)) :
    ∃ pre, NoTx pre ∧ (decTransaction s).trace = pre ++ [.transaction o] :=
  (decTransaction_shape s).1 o rem h

theorem decTransaction_trace_fail {s : Slice} (h : ∀ a, (decTransaction s).res ≠ .ok a) :
    NoTx (decTransaction s).trace :=
  (decTransaction_shape s).2 h

/-- the `transaction` callbacks of one transaction run: the returned object, or nothing -/
theorem decTransaction_txEvents (s : Slice) :
    txEvents (decTransaction s).trace =
      match (decTransaction s).res with
      | .ok (o, _) => [o]
      | _ => [] := by
  cases h : (decTransaction s).res with
  | ok a =>
    obtain ⟨o, rem⟩ := a
    obtain ⟨pre, hp, e⟩ := decTransaction_trace_ok h
    simp only [e, txEvents, List.filterMap_append]
    have := hp.txEvents_nil
    unfold txEvents at this
    rw [this]; rfl
  | err e =>
    exact (decTransaction_trace_fail (by rw [h]; intro a ha; cases ha)).txEvents_nil
  | panic p =>
    exact (decTransaction_trace_fail (by rw [h]; intro a ha; cases ha)).txEvents_nil

/-- a `transaction` callback of a transaction run carries the object the run returns -/
theorem decTransaction_tx_mem {s : Slice} {tx : TxV} (h : Event.transaction tx ∈ (decTransaction s).trace) :
    ∃ rem, (decTransaction s).res = .ok (tx, rem) := by
  cases hr : (decTransaction s).res with
  | ok a =>
    obtain ⟨o, rem⟩ := a
    obtain ⟨pre, hp, e⟩ := decTransaction_trace_ok hr
    rw [e] at h
    rcases List.mem_append.1 h with h | h
    · exact absurd h (hp.not_mem tx)
    · simp only [List.mem_singleton, Event.transaction.injEq] at h
      subst h
      exact ⟨rem, rfl⟩
  | err e =>
    exact absurd h ((decTransaction_trace_fail (by rw [hr]; intro a ha; cases ha)).not_mem tx)
  | panic p =>
    exact absurd h ((decTransaction_trace_fail (by rw [hr]; intro a ha; cases ha)).not_mem tx)

/-! ### the block -/

theorem suffix_len_le {rem s : Slice} (h : Suffix rem s) : rem.len ≤ s.len := by
  obtain ⟨p, e, _⟩ := h
  simp only [Slice.len, e, List.length_append]
  omega

theorem decBlockLoop_tx_origin : ∀ (n : Nat) (s : Slice) (tx : TxV), Event.transaction tx ∈ (decBlockLoop n s).trace →
    ∃ s' rem, Suffix s' s ∧ (decTransaction s').res = .ok (tx, rem) := by
  intro n
  induction n with
  | zero => intro s tx h; cases h
  | succ n ih =>
    intro s tx h
    rw [decBlockLoop] at h
    rcases D_bind_trace_mem h with h | ⟨⟨o, r⟩, h1, h⟩
    · obtain ⟨rem, hr⟩ := decTransaction_tx_mem h
      exact ⟨s, rem, Suffix.refl s, hr⟩
    · obtain ⟨_, _, e, b⟩ := decTransaction_eq_ok h1
      obtain ⟨s', rem, hs', hr⟩ := ih r tx h
      exact ⟨s', rem, hs'.trans (suffix_of_eq e b), hr⟩

/-- structure lemma (block): every `transaction` callback of a block run comes from a successful `decTransaction`
    on a suffix `s'` of the input (what is left of it when that transaction starts) -/
theorem decBlock_tx_origin {s : Slice} {tx : TxV} (h : Event.transaction tx ∈ (decBlock s).trace) :
    ∃ s' rem, Suffix s' s ∧ s'.len ≤ s.len ∧ (decTransaction s').res = .ok (tx, rem) := by
  unfold decBlock at h
  rcases D_bind_trace_mem h with h | ⟨⟨hv, r⟩, h0, h⟩
  · exact absurd h ((decHeader_noTx s).not_mem tx)
  · obtain ⟨_, _, e0, b0⟩ := decHeader_eq_ok h0
    have hr : Suffix r s := suffix_of_eq e0 b0
    rcases D_bind_trace_mem h with h | ⟨⟨n, r1⟩, h1, h⟩
    · cases h
    · obtain ⟨_, e1, b1⟩ := decCompact_eq_ok h1
      have hr1 : Suffix r1 s := (suffix_of_eq e1 b1).trans hr
      simp only [D_emit_bind, List.mem_cons, reduceCtorEq, false_or] at h
      rcases D_bind_trace_mem h with h | ⟨_, _, h⟩
      · obtain ⟨s', rem, hs', hd⟩ := decBlockLoop_tx_origin n r1 tx h
        exact ⟨s', rem, hs'.trans hr1, suffix_len_le (hs'.trans hr1), hd⟩
      · cases h

/-- every transaction shown to the visitor of a block has a txid: `txid()` cannot panic on it -/
theorem decBlock_tx_txid {s : Slice} (hs : s.len < 2 ^ 62) {tx : TxV} (h : Event.transaction tx ∈ (decBlock s).trace) :
    ∃ id, tx.txid = .ok id := by
  obtain ⟨s', rem, _, hl, hd⟩ := decBlock_tx_origin h
  obtain ⟨ver, mid, ins, outs, wits, lock, L⟩ := Acc.tx_layout hd
  refine ⟨Sha256.sha256d (ver ++ ins ++ outs ++ lock), ?_⟩
  unfold TxV.txid
  rw [Acc.preimage_of_layout L (by omega)]; rfl

end BS.Fin
