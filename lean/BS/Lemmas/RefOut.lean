import BS.Lemmas.RefPure
/-
  Refinement L1 ⊑ L2, part 4: what an L2 run can produce (`Out`): a decoder error or a value and an offset, and how
  many callbacks it made relative to the bytes it consumed.
-/
namespace BS.Ref
open BS BS.Spec VM

/-- An L2 run `d` that started at offset `c` of `s` either fails with a decoder error after at most
    `3 * (bytes left) + F` callbacks, or succeeds at an offset `k ≥ c` with `P value k (number of callbacks)`. -/
def Out {α} (s : Slice) (c : Nat) (d : D α) (F : Nat) (P : α → Nat → Nat → Prop) : Prop :=
  (∃ e, DecErr e ∧ d.res = .err e ∧ d.trace.length ≤ 3 * (s.len - c) + F) ∨
  (∃ a k, c ≤ k ∧ k ≤ s.len ∧ d.res = .ok a ∧ P a k d.trace.length)

theorem Out.mono {α} {s : Slice} {c : Nat} {d : D α} {F F' : Nat} {P Q : α → Nat → Nat → Prop}
    (h : Out s c d F P) (hF : F ≤ F') (hPQ : ∀ a k t, c ≤ k → k ≤ s.len → P a k t → Q a k t) : Out s c d F' Q := by
  rcases h with ⟨e, he, hr, ht⟩ | ⟨a, k, h1, h2, hr, hp⟩
  · exact .inl ⟨e, he, hr, by omega⟩
  · exact .inr ⟨a, k, h1, h2, hr, hPQ _ _ _ h1 h2 hp⟩

theorem Out.ok {α} {s : Slice} {c : Nat} {d : D α} {F : Nat} {P : α → Nat → Nat → Prop} {a : α}
    (h : Out s c d F P) (hr : d.res = .ok a) : ∃ k, c ≤ k ∧ k ≤ s.len ∧ P a k d.trace.length := by
  rcases h with ⟨e, _, hr', _⟩ | ⟨a', k, h1, h2, hr', hp⟩
  · rw [hr] at hr'; cases hr'
  · rw [hr] at hr'; cases hr'; exact ⟨k, h1, h2, hp⟩

theorem Out.err {α} {s : Slice} {c : Nat} {d : D α} {F : Nat} {P : α → Nat → Nat → Prop} {e : Error}
    (h : Out s c d F P) (hr : d.res = .err e) : DecErr e := by
  rcases h with ⟨e', he, hr', _⟩ | ⟨a', k, h1, h2, hr', hp⟩
  · rw [hr] at hr'; cases hr'; exact he
  · rw [hr] at hr'; cases hr'

theorem Out.nopanic {α} {s : Slice} {c : Nat} {d : D α} {F : Nat} {P : α → Nat → Nat → Prop}
    (h : Out s c d F P) : d.res.isPanic = false := by
  rcases h with ⟨e', he, hr', _⟩ | ⟨a', k, h1, h2, hr', hp⟩ <;> rw [hr'] <;> rfl

/-- total number of callbacks, whatever happens -/
theorem Out.trace_le {α} {s : Slice} {c : Nat} {d : D α} {F : Nat} {P : α → Nat → Nat → Prop}
    (h : Out s c d F P) (hP : ∀ a k t, c ≤ k → k ≤ s.len → P a k t → t ≤ 3 * (k - c) + F) :
    d.trace.length ≤ 3 * (s.len - c) + F := by
  rcases h with ⟨e', he, hr', ht⟩ | ⟨a', k, h1, h2, hr', hp⟩
  · exact ht
  · have := hP _ _ _ h1 h2 hp; omega

theorem out_bind {α β} {s : Slice} {c : Nat} {d : D α} {g : α → D β} {F F' : Nat}
    {P : α → Nat → Nat → Prop} {Q : β → Nat → Nat → Prop}
    (h1 : Out s c d F P)
    (h3 : ∀ a k t, c ≤ k → k ≤ s.len → P a k t → t + F' ≤ 3 * (k - c) + F)
    (h2 : ∀ a k t, c ≤ k → k ≤ s.len → d.res = .ok a → P a k t →
      Out s k (g a) F' (fun b k' t' => Q b k' (t + t'))) :
    Out s c (d >>= g) F Q := by
  rcases h1 with ⟨e, he, hr, ht⟩ | ⟨a, k, hk1, hk2, hr, hp⟩
  · rw [d_bind_err g hr]
    exact .inl ⟨e, he, rfl, ht⟩
  · obtain ⟨ht, hres⟩ := d_bind_trace_ok g hr
    have h3' := h3 _ _ _ hk1 hk2 hp
    rcases h2 a k _ hk1 hk2 hr hp with ⟨e, he, hr', ht'⟩ | ⟨b, k', hk1', hk2', hr', hq⟩
    · refine .inl ⟨e, he, by rw [hres, hr'], ?_⟩
      rw [ht, List.length_append]; omega
    · refine .inr ⟨b, k', by omega, hk2', by rw [hres, hr'], ?_⟩
      rw [ht, List.length_append]; exact hq

theorem out_pure {α} (s : Slice) (c : Nat) (hc : c ≤ s.len) (a : α) (F : Nat) :
    Out s c (pure a : D α) F (fun a' k t => a' = a ∧ k = c ∧ t = 0) :=
  .inr ⟨a, c, Nat.le_refl _, hc, rfl, rfl, rfl, rfl⟩

theorem out_emit (s : Slice) (c : Nat) (hc : c ≤ s.len) (e : Event) (F : Nat) :
    Out s c (D.emit e) F (fun _ k t => k = c ∧ t = 1) :=
  .inr ⟨(), c, Nat.le_refl _, hc, rfl, rfl, rfl⟩

theorem out_lift_err {α} (s : Slice) (c : Nat) (e : Error) (he : DecErr e) (F : Nat) (P : α → Nat → Nat → Prop) :
    Out s c (D.lift (.err e : Res α)) F P :=
  .inl ⟨e, he, rfl, by simp [D.lift]⟩

/-- move a statement about `sdrop s c` seen as a slice of its own to a statement about `s` at offset `c` -/
theorem out_shift {α} {s : Slice} {c : Nat} (hc : c ≤ s.len) {d : D α} {F : Nat} {P : α → Nat → Nat → Prop}
    (h : Out (sdrop s c) 0 d F P) : Out s c d F (fun a k t => c ≤ k ∧ P a (k - c) t) := by
  rcases h with ⟨e, he, hr, ht⟩ | ⟨a, k, hk1, hk2, hr, hp⟩
  · exact .inl ⟨e, he, hr, by simpa using ht⟩
  · simp only [sdrop_len] at hk2
    exact .inr ⟨a, c + k, by omega, by omega, hr, by omega, by rwa [Nat.add_sub_cancel_left]⟩

/-! ### primitive steps -/

theorem out_compact (s : Slice) (c : Nat) (hc : c ≤ s.len) (F : Nat) :
    Out s c (D.lift (decCompact (sdrop s c))) F
      (fun a k t => ∃ w, ScanOk (sdrop s c) 0 a.1 w ∧ k = c + w ∧ a.2 = sdrop s k ∧ t = 0) := by
  rcases scan_cases (sdrop s c) 0 (by omega) with ⟨e, he, h1, _⟩ | ⟨n, w, hok⟩
  · rw [h1]; exact out_lift_err _ _ _ he _ _
  · have ⟨_, _, hwl, _, h1, _⟩ := hok
    simp only [sdrop_len] at hwl
    rw [h1]
    exact .inr ⟨_, c + w, by omega, by omega, rfl, w, hok, rfl, by simp, rfl⟩

theorem out_decLE (s : Slice) (c : Nat) (hc : c ≤ s.len) (w : Nat) (F : Nat) :
    Out s c (D.lift (decLE w (sdrop s c))) F
      (fun a k t => k = c + w ∧ a = (leN ((sdrop s c).bytes.take w), sdrop s k) ∧ t = 0) := by
  rw [decLE_eq]
  by_cases h : (sdrop s c).len < w
  · rw [if_pos h]; exact out_lift_err _ _ _ decErr_more _ _
  · rw [if_neg h]
    simp only [sdrop_len] at h
    exact .inr ⟨_, c + w, by omega, by omega, rfl, rfl, by simp, rfl⟩

theorem out_takeN (s : Slice) (c : Nat) (hc : c ≤ s.len) (n : Nat) (F : Nat) :
    Out s c (D.lift (takeN (sdrop s c) n)) F
      (fun a k t => k = c + n ∧ a = (stake (sdrop s c) n, sdrop s k) ∧ t = 0) := by
  rw [takeN_eq]
  by_cases h : (sdrop s c).len < n
  · rw [if_pos h]; exact out_lift_err _ _ _ decErr_more _ _
  · rw [if_neg h]
    simp only [sdrop_len] at h
    exact .inr ⟨_, c + n, by omega, by omega, rfl, rfl, by simp, rfl⟩

theorem out_txin (s : Slice) (hs : s.len < 2 ^ 62) (c : Nat) (hc : c ≤ s.len) (F : Nat) :
    Out s c (D.lift (decTxIn (sdrop s c))) F
      (fun a k t => c + 41 ≤ k ∧ a.2 = sdrop s k ∧ a.1.slice = stake (sdrop s c) (k - c) ∧ t = 0) := by
  rcases txin_cases (sdrop s c) (by simp; omega) with ⟨e, he, h1, _⟩ | ⟨n, w, _, hok, hk, h1, _⟩
  · rw [h1]; exact out_lift_err _ _ _ he _ _
  · have ⟨_, _, hwl, _⟩ := hok
    simp only [sdrop_len] at hwl hk
    rw [h1]
    refine .inr ⟨_, c + (36 + (w + n) + 4), by omega, by omega, rfl, by omega, by simp, ?_, rfl⟩
    simp only [Nat.add_sub_cancel_left]

theorem out_txout (s : Slice) (hs : s.len < 2 ^ 62) (c : Nat) (hc : c ≤ s.len) (F : Nat) :
    Out s c (D.lift (decTxOut (sdrop s c))) F
      (fun a k t => c + 9 ≤ k ∧ a.2 = sdrop s k ∧ a.1.slice = stake (sdrop s c) (k - c) ∧ t = 0) := by
  rcases txout_cases (sdrop s c) (by simp; omega) with ⟨e, he, h1, _⟩ | ⟨n, w, _, hok, hk, h1, _⟩
  · rw [h1]; exact out_lift_err _ _ _ he _ _
  · have ⟨_, _, hwl, _⟩ := hok
    simp only [sdrop_len] at hwl hk
    rw [h1]
    refine .inr ⟨_, c + (8 + (w + n)), by omega, by omega, rfl, by omega, by simp, ?_, rfl⟩
    simp only [Nat.add_sub_cancel_left]

end BS.Ref
