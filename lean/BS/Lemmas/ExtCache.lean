import BS.Lemmas.CacheSize
/-
  Small additions to the cache lemmas: sizes of members, histories only grow.
-/
set_option linter.unusedSectionVars false
namespace BS.Ext
open BS Cache CacheProof

variable {κ : Type} [DecidableEq κ]

theorem sizeL_ge_of_mem : ∀ (L : List (κ × Bytes)) (p : κ × Bytes), p ∈ L → p.2.length ≤ sizeL L
  | [], _, h => by cases h
  | q :: L, p, h => by
    simp only [sizeL]
    rcases List.mem_cons.1 h with rfl | h
    · omega
    · have := sizeL_ge_of_mem L p h; omega

theorem sizeL_cons (p : κ × Bytes) (L : List (κ × Bytes)) : sizeL (p :: L) = p.2.length + sizeL L := rfl

theorem step_succ_prefix (s : Run κ) (op : κ × Bytes) : s.succ <+: (s.step op).succ := by
  unfold Run.step
  cases (insert s.c op.1 op.2).2 with
  | ok e => exact List.prefix_append _ _
  | _ => exact List.prefix_refl _

theorem step_results (s : Run κ) (op : κ × Bytes) : (s.step op).results = s.results ++ [(insert s.c op.1 op.2).2] := rfl

theorem runOps_append (cap : Nat) (ops more : List (κ × Bytes)) :
    runOps cap (ops ++ more) = more.foldl Run.step (runOps cap ops) := by
  simp [runOps, List.foldl_append]

/-- the list of successful insertions and the list of results of a history only grow when the history is continued -/
theorem run_prefix (cap : Nat) (ops : List (κ × Bytes)) : ∀ more : List (κ × Bytes),
    (runOps cap ops).succ <+: (runOps cap (ops ++ more)).succ ∧
    (runOps cap ops).results <+: (runOps cap (ops ++ more)).results := by
  apply snoc_induction
  · rw [List.append_nil]; exact ⟨List.prefix_refl _, List.prefix_refl _⟩
  · intro more op ih
    rw [← List.append_assoc, runOps_snoc]
    refine ⟨List.IsPrefix.trans ih.1 (step_succ_prefix _ _), List.IsPrefix.trans ih.2 ?_⟩
    rw [step_results]; exact List.prefix_append _ _

/-- a reachable state never holds a value longer than the capacity: every accepted value fits -/
theorem succ_len_le (cap : Nat) : ∀ ops : List (κ × Bytes), ∀ p ∈ (runOps cap ops).succ, p.2.length ≤ cap := by
  apply snoc_induction
  · intro p hp; rw [runOps_nil] at hp; cases hp
  · intro ops op ih p hp
    rw [runOps_snoc] at hp
    cases hr : (insert (runOps cap ops).c op.1 op.2).2 with
    | ok e =>
      have hs : ((runOps cap ops).step op).succ = (runOps cap ops).succ ++ [op] := by
        simp only [Run.step, hr]
      rw [hs, List.mem_append, List.mem_singleton] at hp
      rcases hp with hp | rfl
      · exact ih p hp
      · have hi : insert (runOps cap ops).c p.1 p.2 = ((insert (runOps cap ops).c p.1 p.2).1, .ok e) := by
          rw [← hr]
        have := ((run_inv cap ops).insert_ok hi).2.2.1
        rwa [run_cap] at this
    | valueLargerThanBuffer =>
      have hs : ((runOps cap ops).step op).succ = (runOps cap ops).succ := by simp only [Run.step, hr]
      rw [hs] at hp; exact ih p hp
    | valueAlreadyPresent =>
      have hs : ((runOps cap ops).step op).succ = (runOps cap ops).succ := by simp only [Run.step, hr]
      rw [hs] at hp; exact ih p hp
    | panic q =>
      have hs : ((runOps cap ops).step op).succ = (runOps cap ops).succ := by simp only [Run.step, hr]
      rw [hs] at hp; exact ih p hp

end BS.Ext
