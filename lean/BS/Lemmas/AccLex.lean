import BS.Impl.Extra
/- helper lemmas for C20: `lexCmp` is the lexicographic order -/
namespace BS.Acc
open BS

theorem u8_lt_irrefl (a : UInt8) : ¬ a < a := by
  rw [UInt8.lt_iff_toNat_lt]; omega

theorem u8_eq_of_not_lt {a b : UInt8} (h1 : ¬ a < b) (h2 : ¬ b < a) : a = b := by
  rw [UInt8.lt_iff_toNat_lt] at h1 h2
  apply UInt8.toNat_inj.mp; omega

theorem u8_lt_asymm {a b : UInt8} (h : a < b) : ¬ b < a := by
  rw [UInt8.lt_iff_toNat_lt] at *; omega

theorem u8_lt_trans {a b c : UInt8} (h1 : a < b) (h2 : b < c) : a < c := by
  rw [UInt8.lt_iff_toNat_lt] at *; omega

@[simp] theorem lexCmp_nil_nil : lexCmp [] [] = .eq := rfl
@[simp] theorem lexCmp_nil_cons (b : UInt8) (bs : Bytes) : lexCmp [] (b :: bs) = .lt := rfl
@[simp] theorem lexCmp_cons_nil (a : UInt8) (as : Bytes) : lexCmp (a :: as) [] = .gt := rfl
theorem lexCmp_cons_cons (a b : UInt8) (as bs : Bytes) :
    lexCmp (a :: as) (b :: bs) = if a < b then .lt else if b < a then .gt else lexCmp as bs := rfl

theorem lexCmp_refl (a : Bytes) : lexCmp a a = .eq := by
  induction a with
  | nil => rfl
  | cons x a ih => simp [lexCmp_cons_cons, ih]

theorem lexCmp_eq {a b : Bytes} : lexCmp a b = .eq ↔ a = b := by
  constructor
  · intro h
    induction a generalizing b with
    | nil => cases b with
      | nil => rfl
      | cons y b => simp at h
    | cons x a ih => cases b with
      | nil => simp at h
      | cons y b =>
        rw [lexCmp_cons_cons] at h
        by_cases h1 : x < y
        · simp [h1] at h
        · by_cases h2 : y < x
          · simp [h1, h2] at h
          · simp only [h1, h2, if_false] at h
            rw [u8_eq_of_not_lt h1 h2, ih h]
  · rintro rfl; exact lexCmp_refl a

theorem lexCmp_swap (a b : Bytes) : lexCmp b a = (lexCmp a b).swap := by
  induction a generalizing b with
  | nil => cases b <;> rfl
  | cons x a ih => cases b with
    | nil => rfl
    | cons y b =>
      rw [lexCmp_cons_cons, lexCmp_cons_cons]
      by_cases h1 : x < y
      · simp [h1, u8_lt_asymm h1]
      · by_cases h2 : y < x
        · simp [h1, h2]
        · simp [h1, h2, ih]

theorem lexCmp_lt_gt {a b : Bytes} : lexCmp a b = .lt ↔ lexCmp b a = .gt := by
  rw [lexCmp_swap a b]
  cases lexCmp a b <;> simp [Ordering.swap]

theorem lexCmp_trans {a b c : Bytes} (h1 : lexCmp a b = .lt) (h2 : lexCmp b c = .lt) : lexCmp a c = .lt := by
  induction a generalizing b c with
  | nil => cases c with
    | nil => cases b <;> simp at h1 h2
    | cons z c => rfl
  | cons x a ih => cases b with
    | nil => simp at h1
    | cons y b => cases c with
      | nil => simp at h2
      | cons z c =>
        rw [lexCmp_cons_cons] at h1 h2 ⊢
        by_cases xy : x < y
        · by_cases yz : y < z
          · simp [u8_lt_trans xy yz]
          · by_cases zy : z < y
            · simp [yz, zy] at h2
            · have : y = z := u8_eq_of_not_lt yz zy
              subst this; simp [xy]
        · by_cases yx : y < x
          · simp [xy, yx] at h1
          · have : x = y := u8_eq_of_not_lt xy yx
            subst this
            simp only [xy, if_false] at h1
            by_cases xz : x < z
            · simp [xz]
            · by_cases zx : z < x
              · simp [xz, zx] at h2
              · simp only [xz, zx, if_false] at h2 ⊢
                exact ih h1 h2

/-- characterisation: proper prefix, or a first differing position with the smaller byte on the left -/
theorem lexCmp_lt_iff {a b : Bytes} :
    lexCmp a b = .lt ↔
      (∃ y t, b = a ++ y :: t) ∨
      (∃ p x y a' b', a = p ++ x :: a' ∧ b = p ++ y :: b' ∧ x < y) := by
  induction a generalizing b with
  | nil =>
    cases b with
    | nil =>
      simp only [lexCmp_nil_nil, reduceCtorEq, false_iff, not_or, not_exists]
      refine ⟨by intro y t h; simp at h, ?_⟩
      intro p x y a' b' h; simp at h
    | cons y b =>
      simp only [lexCmp_nil_cons, true_iff]
      exact Or.inl ⟨y, b, rfl⟩
  | cons x a ih =>
    cases b with
    | nil =>
      simp only [lexCmp_cons_nil, reduceCtorEq, false_iff, not_or, not_exists]
      refine ⟨by intro y t h; simp at h, ?_⟩
      intro p x y a' b' h; simp at h
    | cons y b =>
      rw [lexCmp_cons_cons]
      by_cases xy : x < y
      · simp only [xy, if_true, true_iff]
        exact Or.inr ⟨[], x, y, a, b, rfl, rfl, xy⟩
      · by_cases yx : y < x
        · simp only [xy, yx, if_true, if_false, reduceCtorEq, false_iff, not_or, not_exists]
          constructor
          · intro y' t h
            simp only [List.cons_append, List.cons.injEq] at h
            rw [h.1] at yx; exact u8_lt_irrefl _ yx
          · intro p x' y' a' b' ⟨h1, h2, h3⟩
            cases p with
            | nil =>
              simp only [List.nil_append, List.cons.injEq] at h1 h2
              rw [h1.1, h2.1] at xy; exact xy h3
            | cons z p =>
              simp only [List.cons_append, List.cons.injEq] at h1 h2
              rw [h1.1, h2.1] at yx; exact u8_lt_irrefl _ yx
        · have e : x = y := u8_eq_of_not_lt xy yx
          subst e
          simp only [xy, if_false]
          rw [ih]
          constructor
          · rintro (⟨y', t, h⟩ | ⟨p, x', y', a', b', h1, h2, h3⟩)
            · exact Or.inl ⟨y', t, by simp [h]⟩
            · exact Or.inr ⟨x :: p, x', y', a', b', by simp [h1], by simp [h2], h3⟩
          · rintro (⟨y', t, h⟩ | ⟨p, x', y', a', b', h1, h2, h3⟩)
            · exact Or.inl ⟨y', t, by simpa using h⟩
            · cases p with
              | nil =>
                simp only [List.nil_append, List.cons.injEq] at h1 h2
                rw [← h1.1, ← h2.1] at h3; exact absurd h3 xy
              | cons z p =>
                simp only [List.cons_append, List.cons.injEq] at h1 h2
                exact Or.inr ⟨p, x', y', a', b', h1.2, h2.2, h3⟩

end BS.Acc
