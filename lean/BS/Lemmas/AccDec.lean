import BS.Props.C08
import BS.Spec.Decode
import BS.Lemmas.AccNum
/- helper lemmas about the L2 decoders: what an accepted input looks like (`Cons s v rem`: the decoder consumed
   exactly the bytes `v` from the front of `s`) -/
namespace BS.Acc
open BS BS.Spec

/-! ### the monads -/

theorem res_bind_ok {α β} {r : Res α} {f : α → Res β} {b : β} :
    (r >>= f) = .ok b ↔ ∃ a, r = .ok a ∧ f a = .ok b := by
  cases r with
  | ok a => simp
  | err e => simp
  | panic p => simp

theorem d_bind_res_ok {α β} {m : D α} {f : α → D β} {b : β} :
    (m >>= f).res = .ok b ↔ ∃ a, m.res = .ok a ∧ (f a).res = .ok b := by
  show (D.bind' m f).res = .ok b ↔ _
  unfold D.bind'
  cases h : m.res with
  | ok a => simp
  | err e => simp
  | panic p => simp

theorem d_bind_trace {α β} {m : D α} {f : α → D β} {a : α} (h : m.res = .ok a) :
    (m >>= f).trace = m.trace ++ (f a).trace := by
  show (D.bind' m f).trace = _
  unfold D.bind'
  simp [h]

theorem d_bind_res {α β} {m : D α} {f : α → D β} {a : α} (h : m.res = .ok a) :
    (m >>= f).res = (f a).res := by
  show (D.bind' m f).res = _
  unfold D.bind'
  simp [h]

@[simp] theorem d_pure_res {α} (a : α) : (pure a : D α).res = .ok a := rfl
@[simp] theorem d_pure_trace {α} (a : α) : (pure a : D α).trace = [] := rfl
@[simp] theorem d_lift_res {α} (r : Res α) : (D.lift r).res = r := rfl
@[simp] theorem d_lift_trace {α} (r : Res α) : (D.lift r).trace = [] := rfl
@[simp] theorem d_emit_res (e : Event) : (D.emit e).res = .ok () := rfl
@[simp] theorem d_emit_trace (e : Event) : (D.emit e).trace = [e] := rfl

/-! ### consumed prefixes -/

/-- a decoder that was handed `s` consumed exactly the bytes `v` and left `r` -/
def Cons (s : Slice) (v : Bytes) (r : Slice) : Prop :=
  s.bytes = v ++ r.bytes ∧ r.base = s.base + v.length

theorem Cons.refl (s : Slice) : Cons s [] s := ⟨rfl, rfl⟩

theorem Cons.trans {s r t : Slice} {v w : Bytes} (h1 : Cons s v r) (h2 : Cons r w t) : Cons s (v ++ w) t := by
  obtain ⟨a1, b1⟩ := h1
  obtain ⟨a2, b2⟩ := h2
  refine ⟨by rw [a1, a2, List.append_assoc], ?_⟩
  rw [b2, b1, List.length_append]; omega

theorem Cons.len {s r : Slice} {v : Bytes} (h : Cons s v r) : s.len = v.length + r.len := by
  unfold Slice.len; rw [h.1, List.length_append]

theorem Cons.viewOf {s r : Slice} {v : Bytes} (h : Cons s v r) : viewOf s r = ⟨s.base, v⟩ := by
  unfold Spec.viewOf
  have := h.len
  rw [show s.len - r.len = v.length by omega, h.1]
  simp

theorem Cons.rem_eq {s r : Slice} {v : Bytes} (h : Cons s v r) : r = ⟨s.base + v.length, s.bytes.drop v.length⟩ := by
  obtain ⟨b, bs⟩ := r
  obtain ⟨h1, h2⟩ := h
  simp only at h1 h2
  rw [h1, h2]; simp

theorem Cons.mk' (b : Nat) (v r : Bytes) : Cons ⟨b, v ++ r⟩ v ⟨b + v.length, r⟩ := ⟨rfl, rfl⟩

/-! ### primitives -/

theorem takeN_ok {s : Slice} {n : Nat} {p r : Slice} (h : takeN s n = .ok (p, r)) :
    Cons s p.bytes r ∧ p.base = s.base ∧ p.bytes.length = n := by
  unfold takeN at h
  split at h
  · cases h
  · rename_i hl
    cases h
    unfold Slice.len at hl
    refine ⟨⟨by simp, by simp; omega⟩, rfl, by simp; omega⟩

theorem takeN_append (b : Nat) (p r : Bytes) {n : Nat} (hp : p.length = n) :
    takeN ⟨b, p ++ r⟩ n = .ok (⟨b, p⟩, ⟨b + n, r⟩) := by
  unfold takeN Slice.len
  have : ¬ ((p ++ r).length < n) := by simp [hp]
  simp only [this, if_false, take_append_len p r hp, drop_append_len p r hp]

theorem decLE_ok {w : Nat} {s : Slice} {n : Nat} {r : Slice} (h : decLE w s = .ok (n, r)) :
    ∃ v, Cons s v r ∧ v.length = w ∧ n = leN v := by
  unfold decLE at h
  cases ht : takeN s w with
  | ok x =>
    obtain ⟨p, r'⟩ := x
    simp only [ht] at h
    cases h
    obtain ⟨a, _, c⟩ := takeN_ok ht
    exact ⟨p.bytes, a, c, rfl⟩
  | err e => simp [ht] at h
  | panic q => simp [ht] at h

theorem decLE_append (w b : Nat) (p r : Bytes) (hp : p.length = w) :
    decLE w ⟨b, p ++ r⟩ = .ok (leN p, ⟨b + w, r⟩) := by
  unfold decLE
  rw [takeN_append b p r hp]

theorem encCompact_length (n : Nat) : (encCompact n).length = compactWidth n := by
  unfold encCompact compactWidth
  split
  · rfl
  · split
    · simp
    · split <;> simp

theorem compactWidth_pos (n : Nat) : 1 ≤ compactWidth n := by
  unfold compactWidth; split
  · omega
  · split
    · omega
    · split <;> omega

theorem compactWidth_le (n : Nat) : compactWidth n ≤ 9 := by
  unfold compactWidth; split
  · omega
  · split
    · omega
    · split <;> omega


/-! ### compact size -/

theorem decCompact_wide_ok {b : Nat} {t : Bytes} {w min n : Nat} {r : Slice} {m : UInt8}
    (h : (match decLE w ⟨b + 1, t⟩ with
      | .ok (n, r) => if n ≥ min then Res.ok (n, r) else .err .nonMinimalVarInt
      | .err e => .err e
      | .panic p => .panic p) = .ok (n, r)) :
    Cons ⟨b, m :: t⟩ (m :: toLE w n) r ∧ min ≤ n ∧ n < 256 ^ w := by
  cases hd : decLE w ⟨b + 1, t⟩ with
  | ok x =>
    obtain ⟨n', r'⟩ := x
    simp only [hd] at h
    split at h
    · rename_i hmin
      cases h
      obtain ⟨v, hc, hl, hn⟩ := decLE_ok hd
      have hlt := leN_lt v
      rw [hl] at hlt
      refine ⟨⟨?_, ?_⟩, by omega, by omega⟩
      · have := hc.1
        simp only at this
        rw [hn, ← hl, toLE_leN, this]; rfl
      · have := hc.2
        simp only at this
        rw [this]; simp [hl]; omega
    · cases h
  | err e => simp [hd] at h
  | panic q => simp [hd] at h

theorem u8_small {x : UInt8} (x1 : x ≠ 0xFF) (x2 : x ≠ 0xFE) (x3 : x ≠ 0xFD) : x.toNat < 0xFD := by
  have := x.toNat_lt
  have n1 : x.toNat ≠ 255 := fun e => x1 (by rw [← u8_eq_ofNat_toNat x, e]; rfl)
  have n2 : x.toNat ≠ 254 := fun e => x2 (by rw [← u8_eq_ofNat_toNat x, e]; rfl)
  have n3 : x.toNat ≠ 253 := fun e => x3 (by rw [← u8_eq_ofNat_toNat x, e]; rfl)
  omega

/-- what `decCompact` accepts is the minimal encoding of what it returns -/
theorem decCompact_ok {s : Slice} {n : Nat} {r : Slice} (h : decCompact s = .ok (n, r)) :
    Cons s (encCompact n) r ∧ n < 2 ^ 64 := by
  obtain ⟨b, bs⟩ := s
  unfold decCompact at h
  cases bs with
  | nil => simp at h
  | cons x t =>
    simp only [List.drop_one, List.tail_cons] at h
    by_cases x1 : x = 0xFF
    · simp only [x1, if_true] at h
      obtain ⟨hc, hmin, hlt⟩ := decCompact_wide_ok (m := 0xFF) h
      refine ⟨?_, by omega⟩
      unfold encCompact
      rw [if_neg (by omega), if_neg (by omega), if_neg (by omega), x1]; exact hc
    · by_cases x2 : x = 0xFE
      · simp only [x2, if_true, show ¬ ((0xFE : UInt8) = 0xFF) by decide, if_false] at h
        obtain ⟨hc, hmin, hlt⟩ := decCompact_wide_ok (m := 0xFE) h
        refine ⟨?_, by omega⟩
        unfold encCompact
        rw [if_neg (by omega), if_neg (by omega), if_pos (by omega), x2]; exact hc
      · by_cases x3 : x = 0xFD
        · simp only [x3, if_true, show ¬ ((0xFD : UInt8) = 0xFF) by decide, show ¬ ((0xFD : UInt8) = 0xFE) by decide, if_false] at h
          obtain ⟨hc, hmin, hlt⟩ := decCompact_wide_ok (m := 0xFD) h
          refine ⟨?_, by omega⟩
          unfold encCompact
          rw [if_neg (by omega), if_pos (by omega), x3]; exact hc
        · simp only [x1, x2, x3, if_false] at h
          cases h
          have hx := u8_small x1 x2 x3
          refine ⟨?_, by omega⟩
          unfold encCompact
          rw [if_pos hx, u8_eq_ofNat_toNat]
          exact ⟨rfl, rfl⟩

/-- `decCompact` accepts the minimal encoding of every 64-bit value, whatever follows -/
theorem decCompact_append (b n : Nat) (rest : Bytes) (hn : n < 2 ^ 64) :
    decCompact ⟨b, encCompact n ++ rest⟩ = .ok (n, ⟨b + compactWidth n, rest⟩) := by
  unfold encCompact compactWidth decCompact
  by_cases h1 : n < 0xFD
  · have e1 : UInt8.ofNat n ≠ 0xFF := ofNat_ne_of_lt (by omega) (by simp; omega)
    have e2 : UInt8.ofNat n ≠ 0xFE := ofNat_ne_of_lt (by omega) (by simp; omega)
    have e3 : UInt8.ofNat n ≠ 0xFD := ofNat_ne_of_lt (by omega) (by simp; omega)
    have hv : (UInt8.ofNat n).toNat = n := ofNat_toNat_of_lt (by omega)
    simp [h1, e1, e2, e3, hv]
  · by_cases h2 : n < 0x10000
    · have hl : leN (toLE 2 n) = n := leN_toLE_of_lt (by simpa using h2)
      simp only [h1, h2, if_false, if_true, List.cons_append, List.drop_one, List.tail_cons]
      rw [decLE_append 2 _ _ _ (toLE_length 2 n), hl]
      simp (decide := true) [show n ≥ 0xFD by omega, Nat.add_assoc]
    · by_cases h3 : n < 0x100000000
      · have hl : leN (toLE 4 n) = n := leN_toLE_of_lt (by simpa using h3)
        simp only [h1, h2, h3, if_false, if_true, List.cons_append, List.drop_one, List.tail_cons]
        rw [decLE_append 4 _ _ _ (toLE_length 4 n), hl]
        simp (decide := true) [show n ≥ 0x10000 by omega, Nat.add_assoc]
      · have hl : leN (toLE 8 n) = n := leN_toLE_of_lt (by simpa using hn)
        simp only [h1, h2, h3, if_false, if_true, List.cons_append, List.drop_one, List.tail_cons]
        rw [decLE_append 8 _ _ _ (toLE_length 8 n), hl]
        simp (decide := true) [show n ≥ 0x100000000 by omega, Nat.add_assoc]

end BS.Acc
