import BS.Lemmas.Scan
import BS.Spec.Decode
/-
  helper lemmas for the L2 reference decoders: the `Res` / `D` monads, `takeN`, `decLE`, `decCompact`
-/
namespace BS.Enc
open BS BS.Spec

/-! ### the `Res` monad -/

theorem res_bind_eq_ok {α β} {m : Res α} {f : α → Res β} {b : β} (h : (m >>= f) = .ok b) :
    ∃ a, m = .ok a ∧ f a = .ok b := by
  cases m with
  | ok a => exact ⟨a, rfl, h⟩
  | err e => cases h
  | panic p => cases h

theorem res_bind_eq_err {α β} {m : Res α} {f : α → Res β} {e : Error} (h : (m >>= f) = .err e) :
    m = .err e ∨ ∃ a, m = .ok a ∧ f a = .err e := by
  cases m with
  | ok a => exact .inr ⟨a, rfl, h⟩
  | err e' => left; simpa using h
  | panic p => cases h

/-- a result that is `ok`, `MoreBytesNeeded` or `NonMinimalVarInt` (what every decoder below a transaction answers) -/
def Basic {α} : Res α → Prop
  | .ok _ => True
  | .err .moreBytesNeeded => True
  | .err .nonMinimalVarInt => True
  | _ => False

/-- a result that is not a panic, not `VisitBreak`, not `Other` -/
def Clean {α} : Res α → Prop
  | .ok _ => True
  | .err .visitBreak => False
  | .err (.other _) => False
  | .err _ => True
  | .panic _ => False

theorem Basic.err_cast {α β} {e : Error} (h : Basic (@Res.err α e)) : Basic (@Res.err β e) := by
  cases e <;> first | trivial | exact h.elim

theorem Clean.err_cast {α β} {e : Error} (h : Clean (@Res.err α e)) : Clean (@Res.err β e) := by
  cases e <;> first | trivial | exact h.elim

theorem Basic.clean {α} {r : Res α} (h : Basic r) : Clean r := by
  cases r with
  | ok a => trivial
  | err e => cases e <;> first | trivial | exact h.elim
  | panic p => exact h.elim

theorem Basic.bind {α β} {m : Res α} {f : α → Res β} (hm : Basic m) (hf : ∀ a, Basic (f a)) : Basic (m >>= f) := by
  cases m with
  | ok a => exact hf a
  | err e => exact hm.err_cast
  | panic p => exact hm.elim

theorem Clean.bind {α β} {m : Res α} {f : α → Res β} (hm : Clean m) (hf : ∀ a, Clean (f a)) : Clean (m >>= f) := by
  cases m with
  | ok a => exact hf a
  | err e => exact hm.err_cast
  | panic p => exact hm.elim

theorem Clean.iff {α} (r : Res α) :
    Clean r ↔ r ≠ .err .visitBreak ∧ (∀ c, r ≠ .err (.other c)) ∧ ∀ p, r ≠ .panic p := by
  cases r with
  | ok a => simp [Clean]
  | err e => cases e <;> simp [Clean]
  | panic p => simp [Clean]

theorem Basic.iff {α} (r : Res α) :
    Basic r ↔ (∃ a, r = .ok a) ∨ r = .err .moreBytesNeeded ∨ r = .err .nonMinimalVarInt := by
  cases r with
  | ok a => simp [Basic]
  | err e => cases e <;> simp [Basic]
  | panic p => simp [Basic]

/-! ### the `D` monad -/

@[simp] theorem D_pure {α} (a : α) : (pure a : D α) = ⟨[], .ok a⟩ := rfl

theorem D_bind_def {α β} (m : D α) (f : α → D β) : (m >>= f) = D.bind' m f := rfl

theorem D_bind_ok {α β} {m : D α} {f : α → D β} {a : α} (h : m.res = .ok a) :
    (m >>= f) = ⟨m.trace ++ (f a).trace, (f a).res⟩ := by
  rw [D_bind_def]; unfold D.bind'; rw [h]

theorem D_bind_err {α β} {m : D α} {f : α → D β} {e : Error} (h : m.res = .err e) :
    (m >>= f) = ⟨m.trace, .err e⟩ := by
  rw [D_bind_def]; unfold D.bind'; rw [h]

theorem D_bind_panic {α β} {m : D α} {f : α → D β} {p : Panic} (h : m.res = .panic p) :
    (m >>= f) = ⟨m.trace, .panic p⟩ := by
  rw [D_bind_def]; unfold D.bind'; rw [h]

/-- bind after a fully known run -/
@[simp] theorem D_mk_ok_bind {α β} (t : List Event) (a : α) (f : α → D β) :
    ((⟨t, .ok a⟩ : D α) >>= f) = ⟨t ++ (f a).trace, (f a).res⟩ := rfl

@[simp] theorem D_mk_err_bind {α β} (t : List Event) (e : Error) (f : α → D β) :
    ((⟨t, .err e⟩ : D α) >>= f) = ⟨t, .err e⟩ := rfl

@[simp] theorem D_lift_ok_bind {α β} (a : α) (f : α → D β) : (D.lift (.ok a) >>= f) = f a := rfl
@[simp] theorem D_lift_err_bind {α β} (e : Error) (f : α → D β) :
    ((D.lift (.err e) : D α) >>= f) = ⟨[], .err e⟩ := rfl
@[simp] theorem D_lift_panic_bind {α β} (p : Panic) (f : α → D β) :
    ((D.lift (.panic p) : D α) >>= f) = ⟨[], .panic p⟩ := rfl
@[simp] theorem D_emit_bind {β} (e : Event) (f : Unit → D β) :
    (D.emit e >>= f) = ⟨e :: (f ()).trace, (f ()).res⟩ := rfl
@[simp] theorem D_lift_res {α} (r : Res α) : (D.lift r).res = r := rfl
@[simp] theorem D_lift_trace {α} (r : Res α) : (D.lift r).trace = [] := rfl

theorem D_bind_res_eq_ok {α β} {m : D α} {f : α → D β} {b : β} (h : (m >>= f).res = .ok b) :
    ∃ a, m.res = .ok a ∧ (f a).res = .ok b := by
  cases hm : m.res with
  | ok a => rw [D_bind_ok hm] at h; exact ⟨a, rfl, h⟩
  | err e => rw [D_bind_err hm] at h; cases h
  | panic p => rw [D_bind_panic hm] at h; cases h

theorem D_bind_res_eq_err {α β} {m : D α} {f : α → D β} {e : Error} (h : (m >>= f).res = .err e) :
    m.res = .err e ∨ ∃ a, m.res = .ok a ∧ (f a).res = .err e := by
  cases hm : m.res with
  | ok a => rw [D_bind_ok hm] at h; exact .inr ⟨a, rfl, h⟩
  | err e' => rw [D_bind_err hm] at h; left; simpa using h
  | panic p => rw [D_bind_panic hm] at h; cases h

theorem D_bind_res_err {α β} {m : D α} {f : α → D β} {e : Error} (h : m.res = .err e) : (m >>= f).res = .err e := by
  rw [D_bind_err h]

theorem D_bind_res_ok {α β} {m : D α} {f : α → D β} {a : α} (h : m.res = .ok a) : (m >>= f).res = (f a).res := by
  rw [D_bind_ok h]

theorem D_Basic_bind {α β} {m : D α} {f : α → D β} (hm : Basic m.res) (hf : ∀ a, Basic (f a).res) :
    Basic (m >>= f).res := by
  cases h : m.res with
  | ok a => rw [D_bind_ok h]; exact hf a
  | err e => rw [D_bind_err h]; rw [h] at hm; exact hm.err_cast
  | panic p => rw [h] at hm; exact hm.elim

theorem D_Clean_bind {α β} {m : D α} {f : α → D β} (hm : Clean m.res) (hf : ∀ a, Clean (f a).res) :
    Clean (m >>= f).res := by
  cases h : m.res with
  | ok a => rw [D_bind_ok h]; exact hf a
  | err e => rw [D_bind_err h]; rw [h] at hm; exact hm.err_cast
  | panic p => rw [h] at hm; exact hm.elim

/-- every event of a bind comes from the first run or, when that succeeded, from the second -/
theorem D_bind_trace_mem {α β} {m : D α} {f : α → D β} {ev : Event} (h : ev ∈ (m >>= f).trace) :
    ev ∈ m.trace ∨ ∃ a, m.res = .ok a ∧ ev ∈ (f a).trace := by
  cases hm : m.res with
  | ok a =>
    rw [D_bind_ok hm] at h
    rcases List.mem_append.1 h with h | h
    · exact .inl h
    · exact .inr ⟨a, rfl, h⟩
  | err e => rw [D_bind_err hm] at h; exact .inl h
  | panic p => rw [D_bind_panic hm] at h; exact .inl h

/-! ### slices -/

theorem viewOf_append (b b' : Nat) (e r : Bytes) : viewOf ⟨b, e ++ r⟩ ⟨b', r⟩ = ⟨b, e⟩ := by
  simp [viewOf, Slice.len]

theorem len_sub_append (b b' : Nat) (e r : Bytes) : (Slice.len ⟨b, e ++ r⟩) - (Slice.len ⟨b', r⟩) = e.length := by
  simp [Slice.len]

/-! ### `takeN`, `decLE` -/

theorem takeN_append (b : Nat) (p r : Bytes) : takeN ⟨b, p ++ r⟩ p.length = .ok (⟨b, p⟩, ⟨b + p.length, r⟩) := by
  simp [takeN, Slice.len]

theorem takeN_append' (b n : Nat) (p r : Bytes) (h : p.length = n) :
    takeN ⟨b, p ++ r⟩ n = .ok (⟨b, p⟩, ⟨b + n, r⟩) := by
  subst h; exact takeN_append b p r

theorem takeN_short {s : Slice} {n : Nat} (h : s.bytes.length < n) : takeN s n = .err .moreBytesNeeded := by
  simp [takeN, Slice.len, h]

theorem takeN_eq_ok {s : Slice} {n : Nat} {p rem : Slice} (h : takeN s n = .ok (p, rem)) :
    s.bytes = p.bytes ++ rem.bytes ∧ p.bytes.length = n ∧ p.base = s.base ∧ rem.base = s.base + n := by
  unfold takeN Slice.len at h
  split at h
  · cases h
  · cases h
    refine ⟨(List.take_append_drop n _).symm, ?_, rfl, rfl⟩
    simp; omega

theorem takeN_eq_err {s : Slice} {n : Nat} {e : Error} (h : takeN s n = .err e) :
    e = .moreBytesNeeded ∧ s.bytes.length < n := by
  unfold takeN Slice.len at h
  split at h
  · cases h; exact ⟨rfl, by assumption⟩
  · cases h

theorem takeN_basic (s : Slice) (n : Nat) : Basic (takeN s n) := by
  unfold takeN; split <;> trivial

theorem decLE_append (w b : Nat) (p r : Bytes) (h : p.length = w) :
    decLE w ⟨b, p ++ r⟩ = .ok (leN p, ⟨b + w, r⟩) := by
  unfold decLE; rw [takeN_append' b w p r h]

theorem decLE_toLE (w b n : Nat) (r : Bytes) (h : n < 256 ^ w) :
    decLE w ⟨b, toLE w n ++ r⟩ = .ok (n, ⟨b + w, r⟩) := by
  rw [decLE_append w b _ r (toLE_length w n), leN_toLE_of_lt h]

theorem decLE_short {w : Nat} {s : Slice} (h : s.bytes.length < w) : decLE w s = .err .moreBytesNeeded := by
  unfold decLE; rw [takeN_short h]

theorem decLE_eq_ok {w : Nat} {s : Slice} {n : Nat} {rem : Slice} (h : decLE w s = .ok (n, rem)) :
    s.bytes = toLE w n ++ rem.bytes ∧ n < 256 ^ w ∧ rem.base = s.base + w := by
  unfold decLE at h
  cases ht : takeN s w with
  | ok pr =>
    obtain ⟨p, r⟩ := pr
    rw [ht] at h
    cases h
    obtain ⟨h1, h2, _, h4⟩ := takeN_eq_ok ht
    refine ⟨?_, ?_, h4⟩
    · rw [← h2, toLE_leN]; exact h1
    · rw [← h2]; exact leN_lt _
  | err e => rw [ht] at h; cases h
  | panic q => rw [ht] at h; cases h

theorem decLE_eq_err {w : Nat} {s : Slice} {e : Error} (h : decLE w s = .err e) :
    e = .moreBytesNeeded ∧ s.bytes.length < w := by
  unfold decLE at h
  cases ht : takeN s w with
  | ok pr => rw [ht] at h; cases h
  | err e' => rw [ht] at h; cases h; exact takeN_eq_err ht
  | panic q => rw [ht] at h; cases h

theorem decLE_basic (w : Nat) (s : Slice) : Basic (decLE w s) := by
  unfold decLE
  have := takeN_basic s w
  cases h : takeN s w with
  | ok pr => trivial
  | err e => rw [h] at this; exact this.err_cast
  | panic q => rw [h] at this; exact this.elim

/-! ### `decCompact` -/

/-- the wide arm of `decCompact` as a stand-alone function of the bytes after the marker -/
def wide (b : Nat) (t : Bytes) (w min : Nat) : Res (Nat × Slice) :=
  match decLE w ⟨b + 1, t⟩ with
  | .ok (n, r) => if n ≥ min then .ok (n, r) else .err .nonMinimalVarInt
  | .err e => .err e
  | .panic p => .panic p

theorem decCompact_nil (b : Nat) : decCompact ⟨b, []⟩ = .err .moreBytesNeeded := rfl

theorem decCompact_cons (b : Nat) (x : UInt8) (t : Bytes) :
    decCompact ⟨b, x :: t⟩ =
      if x = 0xFF then wide b t 8 0x100000000
      else if x = 0xFE then wide b t 4 0x10000
      else if x = 0xFD then wide b t 2 0xFD
      else .ok (x.toNat, ⟨b + 1, t⟩) := rfl

theorem wide_append (b w min : Nat) (p r : Bytes) (h : p.length = w) :
    wide b (p ++ r) w min = if leN p ≥ min then .ok (leN p, ⟨b + 1 + w, r⟩) else .err .nonMinimalVarInt := by
  unfold wide; rw [decLE_append w (b + 1) p r h]

theorem wide_short {b w min : Nat} {t : Bytes} (h : t.length < w) : wide b t w min = .err .moreBytesNeeded := by
  unfold wide; rw [decLE_short (by simpa using h)]

theorem wide_eq_ok {b w min : Nat} {t : Bytes} {n : Nat} {rem : Slice} (h : wide b t w min = .ok (n, rem)) :
    t = toLE w n ++ rem.bytes ∧ n < 256 ^ w ∧ min ≤ n ∧ rem.base = b + 1 + w := by
  unfold wide at h
  cases hd : decLE w ⟨b + 1, t⟩ with
  | ok nr =>
    obtain ⟨n', r'⟩ := nr
    rw [hd] at h
    simp only at h
    split at h
    · cases h
      obtain ⟨h1, h2, h3⟩ := decLE_eq_ok hd
      exact ⟨h1, h2, by assumption, h3⟩
    · cases h
  | err e => rw [hd] at h; cases h
  | panic q => rw [hd] at h; cases h

theorem wide_eq_err {b w min : Nat} {t : Bytes} {e : Error} (h : wide b t w min = .err e) :
    (e = .moreBytesNeeded ∧ t.length < w) ∨
    (e = .nonMinimalVarInt ∧ ∃ p r, t = p ++ r ∧ p.length = w ∧ leN p < min) := by
  unfold wide at h
  cases hd : decLE w ⟨b + 1, t⟩ with
  | ok nr =>
    obtain ⟨n', r'⟩ := nr
    rw [hd] at h
    simp only at h
    split at h
    · cases h
    · cases h
      obtain ⟨h1, h2, h3⟩ := decLE_eq_ok hd
      refine .inr ⟨rfl, toLE w n', r'.bytes, h1, toLE_length _ _, ?_⟩
      rw [leN_toLE_of_lt h2]; omega
  | err e' =>
    rw [hd] at h; cases h
    exact .inl (decLE_eq_err hd)
  | panic q => rw [hd] at h; cases h

theorem wide_basic (b w min : Nat) (t : Bytes) : Basic (wide b t w min) := by
  unfold wide
  have := decLE_basic w ⟨b + 1, t⟩
  cases h : decLE w ⟨b + 1, t⟩ with
  | ok nr => simp only; split <;> trivial
  | err e => rw [h] at this; exact this
  | panic q => rw [h] at this; exact this.elim

theorem decCompact_basic (s : Slice) : Basic (decCompact s) := by
  obtain ⟨b, bs⟩ := s
  cases bs with
  | nil => trivial
  | cons x t =>
    rw [decCompact_cons]
    split
    · exact wide_basic _ _ _ _
    · split
      · exact wide_basic _ _ _ _
      · split
        · exact wide_basic _ _ _ _
        · trivial

theorem encCompact_length (n : Nat) : (encCompact n).length = compactWidth n := by
  unfold encCompact compactWidth
  split
  · rfl
  · split
    · simp
    · split <;> simp

theorem compactWidth_pos (n : Nat) : 0 < compactWidth n := by
  unfold compactWidth; split
  · omega
  · split
    · omega
    · split <;> omega

theorem compactWidth_le (n : Nat) : compactWidth n ≤ 9 := by
  unfold compactWidth; split
  · omega
  · split
    · omega
    · split <;> omega

/-- completeness of `decCompact` -/
theorem decCompact_enc (b n : Nat) (r : Bytes) (hn : n < 2 ^ 64) :
    decCompact ⟨b, encCompact n ++ r⟩ = .ok (n, ⟨b + (encCompact n).length, r⟩) := by
  rw [encCompact_length]
  unfold encCompact compactWidth
  by_cases h1 : n < 0xFD
  · have e1 : UInt8.ofNat n ≠ 0xFF := ofNat_ne_of_lt (by omega) (by simp; omega)
    have e2 : UInt8.ofNat n ≠ 0xFE := ofNat_ne_of_lt (by omega) (by simp; omega)
    have e3 : UInt8.ofNat n ≠ 0xFD := ofNat_ne_of_lt (by omega) (by simp; omega)
    have hv : (UInt8.ofNat n).toNat = n := ofNat_toNat_of_lt (by omega)
    simp only [h1, if_true, List.cons_append, List.nil_append, decCompact_cons, e1, e2, e3, if_false, hv]
  · by_cases h2 : n < 0x10000
    · have hl : leN (toLE 2 n) = n := leN_toLE_of_lt (by simpa using h2)
      simp only [h1, h2, if_false, if_true, List.cons_append, decCompact_cons]
      rw [if_neg (by decide), if_neg (by decide), wide_append _ _ _ _ _ (toLE_length 2 n), hl, if_pos (by omega)]
    · by_cases h3 : n < 0x100000000
      · have hl : leN (toLE 4 n) = n := leN_toLE_of_lt (by simpa using h3)
        simp only [h1, h2, h3, if_false, if_true, List.cons_append, decCompact_cons]
        rw [if_neg (by decide), wide_append _ _ _ _ _ (toLE_length 4 n), hl, if_pos (by omega)]
      · have hl : leN (toLE 8 n) = n := leN_toLE_of_lt (by simpa using hn)
        simp only [h1, h2, h3, if_false, List.cons_append, decCompact_cons, if_true]
        rw [wide_append _ _ _ _ _ (toLE_length 8 n), hl, if_pos (by omega)]

theorem u8_toNat_lt_of_ne {x : UInt8} (x1 : x ≠ 0xFF) (x2 : x ≠ 0xFE) (x3 : x ≠ 0xFD) : x.toNat < 0xFD := by
  have := x.toNat_lt
  have n1 : x.toNat ≠ 255 := fun e => x1 (by rw [← u8_eq_ofNat_toNat x, e]; rfl)
  have n2 : x.toNat ≠ 254 := fun e => x2 (by rw [← u8_eq_ofNat_toNat x, e]; rfl)
  have n3 : x.toNat ≠ 253 := fun e => x3 (by rw [← u8_eq_ofNat_toNat x, e]; rfl)
  omega

/-- soundness of `decCompact` -/
theorem decCompact_eq_ok {s : Slice} {n : Nat} {rem : Slice} (h : decCompact s = .ok (n, rem)) :
    n < 2 ^ 64 ∧ s.bytes = encCompact n ++ rem.bytes ∧ rem.base = s.base + (encCompact n).length := by
  obtain ⟨b, bs⟩ := s
  rw [encCompact_length]
  cases bs with
  | nil => cases h
  | cons x t =>
    rw [decCompact_cons] at h
    by_cases x1 : x = 0xFF
    · rw [if_pos x1] at h
      obtain ⟨ht, hlt, hmin, hb⟩ := wide_eq_ok h
      refine ⟨by omega, ?_, ?_⟩
      · unfold encCompact
        rw [if_neg (by omega), if_neg (by omega), if_neg (by omega), x1, ht]; rfl
      · unfold compactWidth
        rw [if_neg (by omega), if_neg (by omega), if_neg (by omega)]; simp only; omega
    · rw [if_neg x1] at h
      by_cases x2 : x = 0xFE
      · rw [if_pos x2] at h
        obtain ⟨ht, hlt, hmin, hb⟩ := wide_eq_ok h
        refine ⟨by omega, ?_, ?_⟩
        · unfold encCompact
          rw [if_neg (by omega), if_neg (by omega), if_pos (by omega), x2, ht]; rfl
        · unfold compactWidth
          rw [if_neg (by omega), if_neg (by omega), if_pos (by omega)]; simp only; omega
      · rw [if_neg x2] at h
        by_cases x3 : x = 0xFD
        · rw [if_pos x3] at h
          obtain ⟨ht, hlt, hmin, hb⟩ := wide_eq_ok h
          refine ⟨by omega, ?_, ?_⟩
          · unfold encCompact
            rw [if_neg (by omega), if_pos (by omega), x3, ht]; rfl
          · unfold compactWidth
            rw [if_neg (by omega), if_pos (by omega)]; simp only; omega
        · rw [if_neg x3] at h
          cases h
          have hx := u8_toNat_lt_of_ne x1 x2 x3
          refine ⟨by omega, ?_, ?_⟩
          · unfold encCompact; rw [if_pos hx, u8_eq_ofNat_toNat]; rfl
          · unfold compactWidth; rw [if_pos hx]

/-- the errors of `decCompact`, read off the bytes -/
theorem decCompact_eq_err {s : Slice} {e : Error} (h : decCompact s = .err e) :
    (e = .moreBytesNeeded ∧ (s.bytes = [] ∨ (∃ t, s.bytes = 0xFD :: t ∧ t.length < 2) ∨
        (∃ t, s.bytes = 0xFE :: t ∧ t.length < 4) ∨ (∃ t, s.bytes = 0xFF :: t ∧ t.length < 8))) ∨
    (e = .nonMinimalVarInt ∧ ∃ c r, NonMinimalCompact c ∧ s.bytes = c ++ r) := by
  obtain ⟨b, bs⟩ := s
  cases bs with
  | nil => cases h; exact .inl ⟨rfl, .inl rfl⟩
  | cons x t =>
    rw [decCompact_cons] at h
    by_cases x1 : x = 0xFF
    · rw [if_pos x1] at h
      rcases wide_eq_err h with ⟨he, hl⟩ | ⟨he, p, r, ht, hp, hv⟩
      · exact .inl ⟨he, .inr (.inr (.inr ⟨t, by rw [x1], hl⟩))⟩
      · exact .inr ⟨he, 0xFF :: p, r, .inr (.inr ⟨p, hp, hv, rfl⟩), by rw [x1, ht]; rfl⟩
    · rw [if_neg x1] at h
      by_cases x2 : x = 0xFE
      · rw [if_pos x2] at h
        rcases wide_eq_err h with ⟨he, hl⟩ | ⟨he, p, r, ht, hp, hv⟩
        · exact .inl ⟨he, .inr (.inr (.inl ⟨t, by rw [x2], hl⟩))⟩
        · exact .inr ⟨he, 0xFE :: p, r, .inr (.inl ⟨p, hp, hv, rfl⟩), by rw [x2, ht]; rfl⟩
      · rw [if_neg x2] at h
        by_cases x3 : x = 0xFD
        · rw [if_pos x3] at h
          rcases wide_eq_err h with ⟨he, hl⟩ | ⟨he, p, r, ht, hp, hv⟩
          · exact .inl ⟨he, .inr (.inl ⟨t, by rw [x3], hl⟩)⟩
          · exact .inr ⟨he, 0xFD :: p, r, .inl ⟨p, hp, hv, rfl⟩, by rw [x3, ht]; rfl⟩
        · rw [if_neg x3] at h; cases h

/-- too-short inputs -/
theorem decCompact_short {s : Slice}
    (h : s.bytes = [] ∨ (∃ t, s.bytes = 0xFD :: t ∧ t.length < 2) ∨ (∃ t, s.bytes = 0xFE :: t ∧ t.length < 4) ∨
         (∃ t, s.bytes = 0xFF :: t ∧ t.length < 8)) :
    decCompact s = .err .moreBytesNeeded := by
  obtain ⟨b, bs⟩ := s
  rcases h with h | ⟨t, h, hl⟩ | ⟨t, h, hl⟩ | ⟨t, h, hl⟩ <;> simp only at h <;> subst h
  · rfl
  · rw [decCompact_cons, if_neg (by decide), if_neg (by decide), if_pos rfl, wide_short hl]
  · rw [decCompact_cons, if_neg (by decide), if_pos rfl, wide_short hl]
  · rw [decCompact_cons, if_pos rfl, wide_short hl]

/-- non-minimal encodings -/
theorem decCompact_nonminimal (b : Nat) {c : Bytes} (r : Bytes) (h : NonMinimalCompact c) :
    decCompact ⟨b, c ++ r⟩ = .err .nonMinimalVarInt := by
  rcases h with ⟨p, hp, hv, rfl⟩ | ⟨p, hp, hv, rfl⟩ | ⟨p, hp, hv, rfl⟩
  · rw [List.cons_append, decCompact_cons, if_neg (by decide), if_neg (by decide), if_pos rfl,
      wide_append _ _ _ _ _ hp, if_neg (by omega)]
  · rw [List.cons_append, decCompact_cons, if_neg (by decide), if_pos rfl,
      wide_append _ _ _ _ _ hp, if_neg (by omega)]
  · rw [List.cons_append, decCompact_cons, if_pos rfl, wide_append _ _ _ _ _ hp, if_neg (by omega)]

/-- first byte of a compact size is zero exactly for the value zero -/
theorem encCompact_zero : encCompact 0 = [0] := by decide

theorem encCompact_head_ne_zero {n : Nat} (h : n ≠ 0) : ∃ x t, encCompact n = x :: t ∧ x ≠ 0 := by
  unfold encCompact
  split
  · rename_i h1
    refine ⟨_, _, rfl, ofNat_ne_of_lt (by omega) (by simpa using h)⟩
  · split
    · exact ⟨_, _, rfl, by decide⟩
    · split
      · exact ⟨_, _, rfl, by decide⟩
      · exact ⟨_, _, rfl, by decide⟩

end BS.Enc

