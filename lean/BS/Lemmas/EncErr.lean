import BS.Lemmas.EncBlock
/-
  error analysis of the L2 decoders (for C14)
-/
namespace BS.Enc
open BS BS.Spec

theorem Basic.err_cases {α} {r : Res α} {e : Error} (hb : Basic r) (h : r = .err e) :
    e = .moreBytesNeeded ∨ e = .nonMinimalVarInt := by
  subst h
  cases e <;> first | exact hb.elim | exact .inl rfl | exact .inr rfl

/-! ### error classes of the transaction decoder -/

theorem txLegTail_basic (s r : Slice) : Basic (txLegTail s r).res := by
  unfold txLegTail
  refine D_Basic_bind (decTxOuts_basic r) fun ⟨_, r1⟩ => D_Basic_bind (decLE_basic 4 r1) fun ⟨_, _⟩ =>
    D_Basic_bind (m := D.emit _) trivial fun _ => trivial

/-- ok, the two basic errors, or `SegwitFlagWithoutWitnesses` -/
def SegClass {α} : Res α → Prop
  | .ok _ => True
  | .err .moreBytesNeeded => True
  | .err .nonMinimalVarInt => True
  | .err .segwitFlagWithoutWitnesses => True
  | _ => False

theorem Basic.seg {α} {r : Res α} (h : Basic r) : SegClass r := by
  cases r with
  | ok a => trivial
  | err e => cases e <;> first | trivial | exact h.elim
  | panic p => exact h.elim

theorem SegClass.clean {α} {r : Res α} (h : SegClass r) : Clean r := by
  cases r with
  | ok a => trivial
  | err e => cases e <;> first | trivial | exact h.elim
  | panic p => exact h.elim

theorem SegClass.err_cast {α β} {e : Error} (h : SegClass (@Res.err α e)) : SegClass (@Res.err β e) := by
  cases e <;> first | trivial | exact h.elim

theorem D_SegClass_bind {α β} {m : D α} {f : α → D β} (hm : SegClass m.res) (hf : ∀ a, SegClass (f a).res) :
    SegClass (m >>= f).res := by
  cases h : m.res with
  | ok a => rw [D_bind_ok h]; exact hf a
  | err e => rw [D_bind_err h]; rw [h] at hm; exact hm.err_cast
  | panic p => rw [h] at hm; exact hm.elim

theorem txSegTail_seg (s r1 : Slice) : SegClass (txSegTail s r1).res := by
  unfold txSegTail
  refine D_SegClass_bind (decTxIns_basic r1).seg fun ⟨iv, r2⟩ => D_SegClass_bind (decTxOuts_basic r2).seg
    fun ⟨ov, r3⟩ => D_SegClass_bind (decWitnesses_basic r3 _).seg fun ⟨wv, r4⟩ => ?_
  simp only
  split
  · trivial
  · exact D_SegClass_bind (decLE_basic 4 r4).seg fun ⟨_, _⟩ => D_SegClass_bind (m := D.emit _) trivial fun _ => trivial

theorem SegClass.err_cases {α} {r : Res α} {e : Error} (hb : SegClass r) (h : r = .err e) :
    e = .moreBytesNeeded ∨ e = .nonMinimalVarInt ∨ e = .segwitFlagWithoutWitnesses := by
  subst h
  cases e <;> first | exact hb.elim | exact .inl rfl | exact .inr (.inl rfl) | exact .inr (.inr rfl)

theorem txFlag_clean (s r : Slice) : Clean (txFlag s r).res := by
  unfold txFlag
  refine D_Clean_bind (decLE_basic 1 r).clean fun ⟨flag, r1⟩ => ?_
  simp only
  split
  · exact (txSegTail_seg s r1).clean
  · trivial

theorem decTransaction_clean (s : Slice) : Clean (decTransaction s).res := by
  rw [decTransaction_eq]
  refine D_Clean_bind (decLE_basic 4 s).clean fun ⟨_, s4⟩ => D_Clean_bind (decTxIns_basic s4).clean
    fun ⟨iv, r⟩ => ?_
  simp only
  split
  · exact txFlag_clean s r
  · exact (txLegTail_basic s r).clean

theorem decBlockLoop_clean : ∀ (n : Nat) (s : Slice), Clean (decBlockLoop n s).res := by
  intro n
  induction n with
  | zero => intro s; trivial
  | succ n ih =>
    intro s
    rw [decBlockLoop]
    exact D_Clean_bind (decTransaction_clean s) fun ⟨_, r⟩ => ih r

theorem decBlock_clean (s : Slice) : Clean (decBlock s).res := by
  unfold decBlock
  refine D_Clean_bind (decHeader_basic s).clean fun ⟨_, r⟩ => D_Clean_bind (decCompact_basic r).clean
    fun ⟨n, r1⟩ => D_Clean_bind (m := D.emit _) trivial fun _ => D_Clean_bind (decBlockLoop_clean n r1)
    fun _ => trivial

/-! ### the segwit marker is an empty input list -/

theorem decTxIns_marker (b : Nat) (t : Bytes) :
    decTxIns ⟨b, 0x00 :: t⟩ = ⟨[.txIns 0], .ok (viewTxIns b [], ⟨b + 1, t⟩)⟩ := by
  have h0 := decTxIns_enc b [] t (by simp) (by simp)
  have e0 : encTxIns [] = [0x00] := by decide
  rw [e0] at h0
  exact h0

theorem decLE1_cons (b : Nat) (x : UInt8) (t : Bytes) : decLE 1 ⟨b, x :: t⟩ = .ok (x.toNat, ⟨b + 1, t⟩) := by
  have := decLE_append 1 b [x] t rfl
  simpa [leN] using this

theorem u8_toNat_eq_one {x : UInt8} : x.toNat = 1 ↔ x = 1 := by
  constructor
  · intro h; rw [← u8_eq_ofNat_toNat x, h]; rfl
  · intro h; rw [h]; rfl

/-! ### `UnknownSegwitFlag` -/

theorem decTransaction_flag_of_bytes (b : Nat) (ver : Bytes) (f : UInt8) (r : Bytes) (hv : ver.length = 4)
    (hf : f ≠ 1) : (decTransaction ⟨b, ver ++ [0x00, f] ++ r⟩).res = .err (.unknownSegwitFlag f) := by
  rw [decTransaction_eq]
  simp only [List.append_assoc, List.cons_append, List.nil_append]
  rw [decLE_append 4 b ver _ hv]
  simp only [D_lift_ok_bind]
  rw [decTxIns_marker]
  simp only [D_mk_ok_bind]
  rw [if_pos (show (viewTxIns (b + 4) []).n = 0 from rfl)]
  unfold txFlag
  rw [decLE1_cons]
  simp only [D_lift_ok_bind]
  rw [if_neg (by rw [u8_toNat_eq_one]; exact hf)]
  simp only [D_lift_res, u8_eq_ofNat_toNat]

theorem decTransaction_flag_bytes {s : Slice} {f : UInt8}
    (h : (decTransaction s).res = .err (.unknownSegwitFlag f)) :
    ∃ ver r, ver.length = 4 ∧ s.bytes = ver ++ [0x00, f] ++ r ∧ f ≠ 1 := by
  rw [decTransaction_eq] at h
  rcases D_bind_res_eq_err h with h1 | ⟨⟨ver, s4⟩, h1, h⟩
  · rcases (decLE_basic 4 s).err_cases h1 with e | e <;> cases e
  rcases D_bind_res_eq_err h with h2 | ⟨⟨iv, r⟩, h2, h⟩
  · rcases (decTxIns_basic s4).err_cases h2 with e | e <;> cases e
  obtain ⟨e1, hver, b1⟩ := decLE_eq_ok h1
  obtain ⟨l, hnl, hwl, e2, b2, rfl⟩ := decTxIns_eq_ok' h2
  simp only at h
  split at h
  · rename_i hz
    have hl0 : l = [] := List.length_eq_zero_iff.1 hz
    subst hl0
    unfold txFlag at h
    rcases D_bind_res_eq_err h with h3 | ⟨⟨flag, r1⟩, h3, h⟩
    · rcases (decLE_basic 1 r).err_cases h3 with e | e <;> cases e
    obtain ⟨e3, hf, b3⟩ := decLE_eq_ok h3
    simp only at h
    split at h
    · rcases (txSegTail_seg s r1).err_cases h with e | e | e <;> cases e
    · rename_i hf1
      simp only [D_lift_res] at h
      have hfe : UInt8.ofNat flag = f := by injection h with h; injection h
      have hflag : flag = f.toNat := by
        rw [← hfe, ofNat_toNat_of_lt (by omega)]
      refine ⟨toLE 4 ver, r1.bytes, toLE_length _ _, ?_, ?_⟩
      · have e0 : encTxIns [] = [0x00] := by decide
        have e1' : toLE 1 flag = [f] := by
          simp only [toLE]
          rw [Nat.mod_eq_of_lt (by omega), hfe]
        rw [e1, e2, e3, e0, e1']
        simp
      · intro hf1'
        apply hf1
        rw [hflag, hf1']; rfl
  · rcases (txLegTail_basic s r).err_cases h with e | e <;> cases e

/-! ### `SegwitFlagWithoutWitnesses` -/

theorem encWitnesses_replicate (n : Nat) : encWitnesses (List.replicate n []) = List.replicate n 0 := by
  induction n with
  | zero => rfl
  | succ n ih =>
    rw [List.replicate_succ, encWitnesses_cons, ih, List.replicate_succ]
    rfl

theorem all_empty_eq_replicate {ws : List (List Bytes)} (h : ∀ w ∈ ws, w = []) : ws = List.replicate ws.length [] := by
  induction ws with
  | nil => rfl
  | cons w ws ih =>
    rw [List.length_cons, List.replicate_succ, h w List.mem_cons_self,
      ← ih (fun y hy => h y (List.mem_cons_of_mem _ hy))]

theorem witnessWF_nil : witnessWF [] := ⟨by decide, by simp⟩

theorem txSegTail_nowit_of_bytes (s : Slice) (b : Nat) (ins : List TxInS) (outs : List TxOutS) (r : Bytes)
    (hne : ins ≠ []) (hni : ins.length < 2 ^ 64) (hwi : ∀ x ∈ ins, x.WF)
    (hno : outs.length < 2 ^ 64) (hwo : ∀ x ∈ outs, x.WF) :
    (txSegTail s ⟨b, encTxIns ins ++ (encTxOuts outs ++ (List.replicate ins.length 0 ++ r))⟩).res =
      .err .segwitFlagWithoutWitnesses := by
  unfold txSegTail
  rw [decTxIns_enc _ _ _ hni hwi]
  simp only [D_mk_ok_bind]
  rw [decTxOuts_enc _ _ _ hno hwo]
  simp only [D_mk_ok_bind]
  have hvn : (viewTxIns b ins).n = (List.replicate ins.length ([] : List Bytes)).length := by
    simp [viewTxIns]
  have hww : ∀ w ∈ List.replicate ins.length ([] : List Bytes), witnessWF w := by
    intro w hw; rw [(List.mem_replicate.1 hw).2]; exact witnessWF_nil
  rw [← encWitnesses_replicate, hvn, decWitnesses_enc _ _ _ hww]
  simp only [D_mk_ok_bind]
  rw [if_pos]
  · rfl
  · refine ⟨?_, ?_⟩
    · simp only [List.length_replicate]; intro h0; exact hne (List.length_eq_zero_iff.1 h0)
    · simp only [viewWitnesses, List.all_eq_true, decide_eq_true_eq]
      intro w hw; exact (List.mem_replicate.1 hw).2

theorem decTransaction_nowit_of_bytes (b : Nat) (ver : Bytes) (ins : List TxInS) (outs : List TxOutS) (r : Bytes)
    (hv : ver.length = 4) (hne : ins ≠ []) (hni : ins.length < 2 ^ 64) (hwi : ∀ x ∈ ins, x.WF)
    (hno : outs.length < 2 ^ 64) (hwo : ∀ x ∈ outs, x.WF) :
    (decTransaction ⟨b, ver ++ [0x00, 0x01] ++ encTxIns ins ++ encTxOuts outs ++
      List.replicate ins.length 0 ++ r⟩).res = .err .segwitFlagWithoutWitnesses := by
  rw [decTransaction_eq]
  simp only [List.append_assoc, List.cons_append, List.nil_append]
  rw [decLE_append 4 b ver _ hv]
  simp only [D_lift_ok_bind]
  rw [decTxIns_marker]
  simp only [D_mk_ok_bind]
  rw [if_pos (show (viewTxIns (b + 4) []).n = 0 from rfl)]
  unfold txFlag
  rw [decLE1_cons]
  simp only [D_lift_ok_bind]
  rw [if_pos (show (1 : UInt8).toNat = 1 from rfl)]
  exact txSegTail_nowit_of_bytes _ _ ins outs r hne hni hwi hno hwo

theorem txSegTail_nowit_bytes {s r1 : Slice} (h : (txSegTail s r1).res = .err .segwitFlagWithoutWitnesses) :
    ∃ (ins : List TxInS) (outs : List TxOutS) (r : Bytes), ins ≠ [] ∧ ins.length < 2 ^ 64 ∧ (∀ x ∈ ins, x.WF) ∧
      outs.length < 2 ^ 64 ∧ (∀ x ∈ outs, x.WF) ∧
      r1.bytes = encTxIns ins ++ (encTxOuts outs ++ (List.replicate ins.length 0 ++ r)) := by
  unfold txSegTail at h
  rcases D_bind_res_eq_err h with h1 | ⟨⟨iv, r2⟩, h1, h⟩
  · rcases (decTxIns_basic r1).err_cases h1 with e | e <;> cases e
  rcases D_bind_res_eq_err h with h2 | ⟨⟨ov, r3⟩, h2, h⟩
  · rcases (decTxOuts_basic r2).err_cases h2 with e | e <;> cases e
  rcases D_bind_res_eq_err h with h3 | ⟨⟨wv, r4⟩, h3, h⟩
  · rcases (decWitnesses_basic r3 _).err_cases h3 with e | e <;> cases e
  obtain ⟨ins, hni, hwi, e1, b1, rfl⟩ := decTxIns_eq_ok' h1
  obtain ⟨outs, hno, hwo, e2, b2, rfl⟩ := decTxOuts_eq_ok' h2
  obtain ⟨ws, hlen, hww, e3, b3, rfl⟩ := decWitnesses_eq_ok' h3
  simp only at h
  split at h
  · rename_i hc
    obtain ⟨hc1, hc2⟩ := hc
    simp only [viewWitnesses, List.all_eq_true, decide_eq_true_eq] at hc2
    simp only [viewTxIns] at hc1 hlen
    refine ⟨ins, outs, r4.bytes, ?_, hni, hwi, hno, hwo, ?_⟩
    · intro h0; apply hc1; rw [h0]; rfl
    · rw [← hlen, ← encWitnesses_replicate, ← all_empty_eq_replicate hc2, ← e3, ← e2]; exact e1
  · rcases D_bind_res_eq_err h with h4 | ⟨⟨lock, rem⟩, h4, h⟩
    · rcases (decLE_basic 4 r4).err_cases h4 with e | e <;> cases e
    · rcases D_bind_res_eq_err h with h5 | ⟨_, _, h⟩
      · cases h5
      · cases h

theorem decTransaction_nowit_bytes {s : Slice} (h : (decTransaction s).res = .err .segwitFlagWithoutWitnesses) :
    ∃ (ver : Bytes) (ins : List TxInS) (outs : List TxOutS) (r : Bytes), ver.length = 4 ∧ ins ≠ [] ∧
      ins.length < 2 ^ 64 ∧ (∀ x ∈ ins, x.WF) ∧ outs.length < 2 ^ 64 ∧ (∀ x ∈ outs, x.WF) ∧
      s.bytes = ver ++ [0x00, 0x01] ++ encTxIns ins ++ encTxOuts outs ++ List.replicate ins.length 0 ++ r := by
  rw [decTransaction_eq] at h
  rcases D_bind_res_eq_err h with h1 | ⟨⟨ver, s4⟩, h1, h⟩
  · rcases (decLE_basic 4 s).err_cases h1 with e | e <;> cases e
  rcases D_bind_res_eq_err h with h2 | ⟨⟨iv, r⟩, h2, h⟩
  · rcases (decTxIns_basic s4).err_cases h2 with e | e <;> cases e
  obtain ⟨e1, hver, b1⟩ := decLE_eq_ok h1
  obtain ⟨l, hnl, hwl, e2, b2, rfl⟩ := decTxIns_eq_ok' h2
  simp only at h
  split at h
  · rename_i hz
    have hl0 : l = [] := List.length_eq_zero_iff.1 hz
    subst hl0
    unfold txFlag at h
    rcases D_bind_res_eq_err h with h3 | ⟨⟨flag, r1⟩, h3, h⟩
    · rcases (decLE_basic 1 r).err_cases h3 with e | e <;> cases e
    obtain ⟨e3, hf, b3⟩ := decLE_eq_ok h3
    simp only at h
    split at h
    · rename_i hf1
      subst hf1
      obtain ⟨ins, outs, r', hne, hni, hwi, hno, hwo, e4⟩ := txSegTail_nowit_bytes h
      refine ⟨toLE 4 ver, ins, outs, r', toLE_length _ _, hne, hni, hwi, hno, hwo, ?_⟩
      have e0 : encTxIns [] = [0x00] := by decide
      have e1' : toLE 1 1 = [0x01] := by decide
      rw [e1, e2, e3, e4, e0, e1']
      simp
    · cases h
  · rcases (txLegTail_basic s r).err_cases h with e | e <;> cases e

/-! ### nesting: a block fails with the error of its first failing transaction -/

theorem decBlockLoop_err_of (l : List TxS) : ∀ (n b : Nat) (r : Bytes) (e : Error), (∀ t ∈ l, t.WF) →
    l.length < n → (decTransaction ⟨b + (l.map encTx).flatten.length, r⟩).res = .err e →
    (decBlockLoop n ⟨b, (l.map encTx).flatten ++ r⟩).res = .err e := by
  induction l with
  | nil =>
    intro n b r e _ hn h
    obtain ⟨m, rfl⟩ : ∃ m, n = m + 1 := ⟨n - 1, by simp at hn; omega⟩
    rw [decBlockLoop]
    simp only [List.map_nil, List.flatten_nil, List.length_nil, Nat.add_zero, List.nil_append] at h ⊢
    exact D_bind_res_err h
  | cons x l ih =>
    intro n b r e hwf hn h
    obtain ⟨m, rfl⟩ : ∃ m, n = m + 1 := ⟨n - 1, by simp at hn; omega⟩
    have hx := hwf x (List.mem_cons_self)
    have hl : ∀ y ∈ l, y.WF := fun y hy => hwf y (List.mem_cons_of_mem _ hy)
    rw [flatten_cons_append, decBlockLoop, decTransaction_enc _ _ _ hx]
    simp only [D_mk_ok_bind]
    apply ih _ _ _ _ hl (by simp at hn; omega)
    simp only [List.map_cons, List.flatten_cons, List.length_append, ← Nat.add_assoc] at h
    exact h

theorem decBlockLoop_eq_err : ∀ (n : Nat) (s : Slice) (e : Error), (decBlockLoop n s).res = .err e →
    ∃ (l : List TxS) (r : Bytes), l.length < n ∧ (∀ t ∈ l, t.WF) ∧ s.bytes = (l.map encTx).flatten ++ r ∧
      (decTransaction ⟨s.base + (l.map encTx).flatten.length, r⟩).res = .err e := by
  intro n
  induction n with
  | zero => intro s e h; cases h
  | succ n ih =>
    intro s e h
    rw [decBlockLoop] at h
    rcases D_bind_res_eq_err h with h1 | ⟨⟨o, r⟩, h1, h⟩
    · exact ⟨[], s.bytes, by simp, by simp, by simp, by simpa using h1⟩
    · obtain ⟨x, hx, e1, b1⟩ := decTransaction_eq_ok h1
      obtain ⟨l, r', hl, hw, e2, h2⟩ := ih _ _ h
      refine ⟨x :: l, r', by simp; omega, ?_, ?_, ?_⟩
      · intro y hy
        rcases List.mem_cons.1 hy with rfl | hy
        · exact hx
        · exact hw y hy
      · rw [flatten_cons_append, ← e2, ← e1]
      · simp only [List.map_cons, List.flatten_cons, List.length_append, ← Nat.add_assoc]
        rw [← b1]; exact h2

theorem decBlock_err_of (b : Nat) (hd : HeaderS) (n : Nat) (l : List TxS) (r : Bytes) (e : Error)
    (hh : hd.WF) (hn : n < 2 ^ 64) (hw : ∀ t ∈ l, t.WF) (hl : l.length < n)
    (h : (decTransaction ⟨b + 80 + (encCompact n).length + (l.map encTx).flatten.length, r⟩).res = .err e) :
    (decBlock ⟨b, encHeader hd ++ encCompact n ++ (l.map encTx).flatten ++ r⟩).res = .err e := by
  unfold decBlock
  rw [List.append_assoc, List.append_assoc, decHeader_enc _ _ _ hh]
  simp only [D_mk_ok_bind]
  rw [decCompact_enc _ _ _ hn]
  simp only [D_lift_ok_bind, D_emit_bind]
  apply D_bind_res_err
  apply decBlockLoop_err_of l n _ r e hw hl
  rw [encHeader_length hh]
  exact h

theorem decBlock_eq_err {s : Slice} {e : Error} (h : (decBlock s).res = .err e) :
    (e = .moreBytesNeeded ∧ s.bytes.length < 80) ∨
    (∃ (hd : HeaderS) (r : Bytes), hd.WF ∧ s.bytes = encHeader hd ++ r ∧ decCompact ⟨s.base + 80, r⟩ = .err e) ∨
    (∃ (hd : HeaderS) (n : Nat) (l : List TxS) (r : Bytes), hd.WF ∧ n < 2 ^ 64 ∧ (∀ t ∈ l, t.WF) ∧ l.length < n ∧
      s.bytes = encHeader hd ++ encCompact n ++ (l.map encTx).flatten ++ r ∧
      (decTransaction ⟨s.base + 80 + (encCompact n).length + (l.map encTx).flatten.length, r⟩).res = .err e) := by
  unfold decBlock at h
  rcases D_bind_res_eq_err h with h0 | ⟨⟨hv, r0⟩, h0, h⟩
  · left
    unfold decHeader at h0
    rcases D_bind_res_eq_err h0 with h1 | ⟨⟨p, rem⟩, h1, h0⟩
    · exact takeN_eq_err h1
    · rcases D_bind_res_eq_err h0 with h1 | ⟨_, _, h0⟩
      · cases h1
      · cases h0
  obtain ⟨hd, hh, e0, b0⟩ := decHeader_eq_ok h0
  rw [encHeader_length hh] at b0
  rcases D_bind_res_eq_err h with h1 | ⟨⟨n, r1⟩, h1, h⟩
  · right; left
    refine ⟨hd, r0.bytes, hh, e0, ?_⟩
    rw [← b0]; exact h1
  obtain ⟨hn, e1, b1⟩ := decCompact_eq_ok h1
  rcases D_bind_res_eq_err h with h2 | ⟨_, _, h⟩
  · cases h2
  rcases D_bind_res_eq_err h with h2 | ⟨_, _, h⟩
  · right; right
    obtain ⟨l, r, hl, hw, e2, h3⟩ := decBlockLoop_eq_err _ _ _ h2
    refine ⟨hd, n, l, r, hh, hn, hw, hl, ?_, ?_⟩
    · simp only [List.append_assoc]; rw [← e2, ← e1]; exact e0
    · rw [← b0, ← b1]; exact h3
  · cases h

end BS.Enc
