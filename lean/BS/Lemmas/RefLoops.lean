import BS.Lemmas.RefOut
/-
  Refinement L1 ⊑ L2, part 5: the input and output lists.
-/
namespace BS.Ref
open BS BS.Spec VM

/-! ### L2 facts -/

theorem txinsLoop_out (s : Slice) (hs : s.len < 2 ^ 62) (n i c : Nat) (hc : c ≤ s.len) :
    Out s c (decTxInsLoop n i (sdrop s c)) 0 (fun r k t => r = sdrop s k ∧ t ≤ k - c ∧ (n = 0 → k = c)) := by
  induction n generalizing i c with
  | zero =>
    rw [decTxInsLoop]
    exact (out_pure s c hc _ 0).mono (Nat.le_refl _) (fun a k t _ _ ⟨h1, h2, h3⟩ => ⟨by rw [h1, h2], by omega, fun _ => h2⟩)
  | succ n ih =>
    rw [decTxInsLoop]
    refine out_bind (F' := 1) (out_txin s hs c hc 0) (fun a k t _ _ ⟨_, _, _, _⟩ => by omega) ?_
    rintro ⟨x, r⟩ k t hk1 hk2 _ ⟨h41, hr, _, ht⟩
    simp only at hr; subst hr
    refine out_bind (F' := 0) (out_emit s k hk2 _ 1) (fun a k t _ _ ⟨_, _⟩ => by omega) ?_
    rintro _ k' t' _ _ _ ⟨rfl, rfl⟩
    exact (ih (i + 1) k' hk2).mono (Nat.le_refl _) (fun a k t _ _ ⟨h1, h2, _⟩ => ⟨h1, by omega, by omega⟩)

/-- facts about a decoded list of inputs/outputs/…: remainder, view, `is_empty`, callbacks -/
def ListOut (s : Slice) (sl : Slice) (n : Nat) (r : Slice) (k t : Nat) : Prop :=
  r = sdrop s k ∧ sl = stake s k ∧ 1 ≤ k ∧ firstIsZero sl = .ok (n == 0) ∧ t ≤ k ∧ (n = 0 → k = 1)

theorem txins_out (s : Slice) (hs : s.len < 2 ^ 62) :
    Out s 0 (decTxIns s) 0 (fun a k t => ListOut s a.1.slice a.1.n a.2 k t) := by
  unfold decTxIns
  have h0 := out_compact s 0 (Nat.zero_le _) 0
  rw [sdrop_zero] at h0
  refine out_bind (F' := 1) h0 (fun a k t _ _ ⟨w, hw, _, _, _⟩ => by have := hw.1; omega) ?_
  rintro ⟨n, r⟩ k t _ hk2 _ ⟨w, hok, hk, hr, ht⟩
  simp only at hr hok; subst hr
  refine out_bind (F' := 0) (out_emit s k hk2 _ 1) (fun a k t _ _ ⟨_, _⟩ => by omega) ?_
  rintro _ k' t' _ _ _ ⟨rfl, rfl⟩
  refine out_bind (F' := 0) (txinsLoop_out s hs n 0 k' hk2) (fun a k t _ _ ⟨_, _, _⟩ => by omega) ?_
  rintro r k2 t2 hk1' hk2' _ ⟨rfl, ht2, hz⟩
  refine (out_pure s k2 hk2' _ 0).mono (Nat.le_refl _) ?_
  rintro _ _ _ _ _ ⟨rfl, rfl, rfl⟩
  have hw1 := hok.1
  have hw0 := hok.2.2.2.2.2.2.2
  exact ⟨rfl, viewOf_sdrop hk2', by omega, by rw [viewOf_sdrop hk2']; exact firstIsZero_of_scan hok (by omega),
    by omega, fun h0 => by have := hw0 h0; have := hz h0; omega⟩

theorem txoutsLoop_out (s : Slice) (hs : s.len < 2 ^ 62) (n i c : Nat) (hc : c ≤ s.len) :
    Out s c (decTxOutsLoop n i (sdrop s c)) 0 (fun r k t => r = sdrop s k ∧ t ≤ k - c ∧ (n = 0 → k = c)) := by
  induction n generalizing i c with
  | zero =>
    rw [decTxOutsLoop]
    exact (out_pure s c hc _ 0).mono (Nat.le_refl _) (fun a k t _ _ ⟨h1, h2, h3⟩ => ⟨by rw [h1, h2], by omega, fun _ => h2⟩)
  | succ n ih =>
    rw [decTxOutsLoop]
    refine out_bind (F' := 1) (out_txout s hs c hc 0) (fun a k t _ _ ⟨_, _, _, _⟩ => by omega) ?_
    rintro ⟨x, r⟩ k t hk1 hk2 _ ⟨h41, hr, _, ht⟩
    simp only at hr; subst hr
    refine out_bind (F' := 0) (out_emit s k hk2 _ 1) (fun a k t _ _ ⟨_, _⟩ => by omega) ?_
    rintro _ k' t' _ _ _ ⟨rfl, rfl⟩
    exact (ih (i + 1) k' hk2).mono (Nat.le_refl _) (fun a k t _ _ ⟨h1, h2, _⟩ => ⟨h1, by omega, by omega⟩)

theorem txouts_out (s : Slice) (hs : s.len < 2 ^ 62) :
    Out s 0 (decTxOuts s) 0 (fun a k t => ListOut s a.1.slice a.1.n a.2 k t) := by
  unfold decTxOuts
  have h0 := out_compact s 0 (Nat.zero_le _) 0
  rw [sdrop_zero] at h0
  refine out_bind (F' := 1) h0 (fun a k t _ _ ⟨w, hw, _, _, _⟩ => by have := hw.1; omega) ?_
  rintro ⟨n, r⟩ k t _ hk2 _ ⟨w, hok, hk, hr, ht⟩
  simp only at hr hok; subst hr
  refine out_bind (F' := 0) (out_emit s k hk2 _ 1) (fun a k t _ _ ⟨_, _⟩ => by omega) ?_
  rintro _ k' t' _ _ _ ⟨rfl, rfl⟩
  refine out_bind (F' := 0) (txoutsLoop_out s hs n 0 k' hk2) (fun a k t _ _ ⟨_, _, _⟩ => by omega) ?_
  rintro r k2 t2 hk1' hk2' _ ⟨rfl, ht2, hz⟩
  refine (out_pure s k2 hk2' _ 0).mono (Nat.le_refl _) ?_
  rintro _ _ _ _ _ ⟨rfl, rfl, rfl⟩
  have hw1 := hok.1
  have hw0 := hok.2.2.2.2.2.2.2
  exact ⟨rfl, viewOf_sdrop hk2', by omega, by rw [viewOf_sdrop hk2']; exact firstIsZero_of_scan hok (by omega),
    by omega, fun h0 => by have := hw0 h0; have := hz h0; omega⟩

/-! ### simulation -/

/-- the input loop, in continuation form: L1 holds the offset `c`, L2 the remainder `sdrop s c` -/
theorem txins_loop_sim {σ β} (s : Slice) (hs : s.len < 2 ^ 62) (n i c : Nat) (hc : c ≤ s.len)
    (f : Nat → VM σ β) (g : Slice → D β)
    (h : ∀ k, c ≤ k → k ≤ s.len → Sim (f k) (g (sdrop s k))) :
    Sim (TxIns.loop s n i c >>= f) (decTxInsLoop n i (sdrop s c) >>= g) := by
  induction n generalizing i c with
  | zero =>
    rw [TxIns.loop, decTxInsLoop, vm_pure_bind, d_pure_bind]
    exact h c (Nat.le_refl _) hc
  | succ n ih =>
    rw [TxIns.loop, decTxInsLoop]
    simp only [vm_bind_assoc, d_bind_assoc, from_ok hc, vm_lift_ok_bind]
    rw [refine_txin _ (by simp; omega)]
    apply sim_lift_bind
    rintro ⟨x, r⟩ hx
    rcases txin_cases (sdrop s c) (by simp; omega) with ⟨e, _, h1, _⟩ | ⟨m, w, h36, _, hk, h1, _⟩
    · rw [hx] at h1; cases h1
    · rw [hx] at h1
      cases h1
      simp only [sdrop_len] at hk h36
      simp only []
      rw [stake_len (by simp; omega), addU_ok (by omega)]
      simp only [vm_lift_ok_bind, sdrop_sdrop]
      apply sim_emitB_bind rfl
      exact ih _ _ (by omega) (fun k h1 h2 => h k (by omega) h2)

theorem sim_txins {σ} (s : Slice) (hs : s.len < 2 ^ 62) : Sim (TxIns.visit s : VM σ _) (decTxIns s) := by
  unfold TxIns.visit decTxIns
  rcases scan_cases s 0 (by omega) with ⟨e, _, h1, h2⟩ | ⟨n, w, hok⟩
  · rw [h1, h2]; exact sim_lift _
  · have ⟨_, _, hwl, _, h1, h2, _⟩ := hok
    rw [h1, h2, Nat.zero_add]
    simp only [vm_lift_ok_bind, d_lift_ok_bind]
    apply sim_emitN_bind rfl
    apply txins_loop_sim s hs n 0 w hwl
    intro k _ hk
    rw [from_ok hk, to_ok hk, viewOf_sdrop hk]
    exact sim_pure _

theorem refine_txins {σ} (s : Slice) (hs : s.len < 2 ^ 62) (v : Visitor σ) (st : σ) :
    TxIns.visit s v st = (decTxIns s).run v st := sim_txins s hs v st

theorem txouts_loop_sim {σ β} (s : Slice) (hs : s.len < 2 ^ 62) (n i c : Nat) (hc : c ≤ s.len)
    (f : Nat → VM σ β) (g : Slice → D β)
    (h : ∀ k, c ≤ k → k ≤ s.len → Sim (f k) (g (sdrop s k))) :
    Sim (TxOuts.loop s n i c >>= f) (decTxOutsLoop n i (sdrop s c) >>= g) := by
  induction n generalizing i c with
  | zero =>
    rw [TxOuts.loop, decTxOutsLoop, vm_pure_bind, d_pure_bind]
    exact h c (Nat.le_refl _) hc
  | succ n ih =>
    rw [TxOuts.loop, decTxOutsLoop]
    simp only [vm_bind_assoc, d_bind_assoc, from_ok hc, vm_lift_ok_bind]
    rw [refine_txout _ (by simp; omega)]
    apply sim_lift_bind
    rintro ⟨x, r⟩ hx
    rcases txout_cases (sdrop s c) (by simp; omega) with ⟨e, _, h1, _⟩ | ⟨m, w, h8, _, hk, h1, _⟩
    · rw [hx] at h1; cases h1
    · rw [hx] at h1
      cases h1
      simp only [sdrop_len] at hk h8
      simp only []
      rw [stake_len (by simp; omega), addU_ok (by omega)]
      simp only [vm_lift_ok_bind, sdrop_sdrop]
      apply sim_emitB_bind rfl
      exact ih _ _ (by omega) (fun k h1 h2 => h k (by omega) h2)

theorem sim_txouts {σ} (s : Slice) (hs : s.len < 2 ^ 62) : Sim (TxOuts.visit s : VM σ _) (decTxOuts s) := by
  unfold TxOuts.visit decTxOuts
  rcases scan_cases s 0 (by omega) with ⟨e, _, h1, h2⟩ | ⟨n, w, hok⟩
  · rw [h1, h2]; exact sim_lift _
  · have ⟨_, _, hwl, _, h1, h2, _⟩ := hok
    rw [h1, h2, Nat.zero_add]
    simp only [vm_lift_ok_bind, d_lift_ok_bind]
    apply sim_emitN_bind rfl
    apply txouts_loop_sim s hs n 0 w hwl
    intro k _ hk
    rw [from_ok hk, to_ok hk, viewOf_sdrop hk]
    exact sim_pure _

theorem refine_txouts {σ} (s : Slice) (hs : s.len < 2 ^ 62) (v : Visitor σ) (st : σ) :
    TxOuts.visit s v st = (decTxOuts s).run v st := sim_txouts s hs v st

end BS.Ref
