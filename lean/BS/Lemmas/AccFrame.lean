import BS.Lemmas.AccTx
/- helper lemmas: the L2 decoders do not look past what they consume — an accepted input can be cut right after the
   consumed bytes (or continued with anything else) and decodes to the same object -/
namespace BS.Acc
open BS BS.Spec

/-- `f` accepted `s`, returned `x` leaving `rem`, and does so whatever follows the consumed bytes -/
def Framed {α} (f : Slice → Res (α × Slice)) (s : Slice) (x : α) (rem : Slice) : Prop :=
  ∃ v, Cons s v rem ∧ ∀ rest, f ⟨s.base, v ++ rest⟩ = .ok (x, ⟨s.base + v.length, rest⟩)

theorem Cons.base_eq {s r : Slice} {v : Bytes} (h : Cons s v r) : r = ⟨s.base + v.length, r.bytes⟩ := by
  rw [← h.2]

theorem Cons.frame {s r : Slice} {v : Bytes} (rest : Bytes) (_h : Cons s v r) :
    Cons ⟨s.base, v ++ rest⟩ v ⟨s.base + v.length, rest⟩ := ⟨rfl, rfl⟩

theorem frame_takeN {s : Slice} {n : Nat} {p r : Slice} (h : takeN s n = .ok (p, r)) :
    Framed (fun s => takeN s n) s p r := by
  obtain ⟨c, hb, hl⟩ := takeN_ok h
  refine ⟨p.bytes, c, fun rest => ?_⟩
  simp only
  rw [takeN_append _ _ _ hl, hl, ← hb]

theorem frame_decLE {w : Nat} {s : Slice} {n : Nat} {r : Slice} (h : decLE w s = .ok (n, r)) :
    Framed (decLE w) s n r := by
  obtain ⟨v, c, hl, hn⟩ := decLE_ok h
  refine ⟨v, c, fun rest => ?_⟩
  rw [decLE_append _ _ _ _ hl, hn, hl]

theorem frame_decCompact {s : Slice} {n : Nat} {r : Slice} (h : decCompact s = .ok (n, r)) :
    Framed decCompact s n r := by
  obtain ⟨c, hn⟩ := decCompact_ok h
  refine ⟨_, c, fun rest => ?_⟩
  rw [decCompact_append _ _ _ hn, encCompact_length]

theorem frame_decScript {s : Slice} {x : ScriptV} {r : Slice} (h : decScript s = .ok (x, r)) :
    Framed decScript s x r := by
  obtain ⟨body, hb, c, hx⟩ := decScript_ok h
  refine ⟨_, c, fun rest => ?_⟩
  rw [List.append_assoc, decScript_append _ _ _ hb, hx]
  simp [encCompact_length]

theorem frame_decOutPoint {s : Slice} {x : OutPointV} {r : Slice} (h : decOutPoint s = .ok (x, r)) :
    Framed decOutPoint s x r := by
  unfold decOutPoint at h
  obtain ⟨⟨p, r'⟩, h1, h⟩ := res_bind_ok.mp h
  simp only [Res.pure_eq, Res.ok.injEq, Prod.mk.injEq] at h
  obtain ⟨e1, e2⟩ := h
  subst e1 e2
  obtain ⟨v, c, hf⟩ := frame_takeN h1
  refine ⟨v, c, fun rest => ?_⟩
  unfold decOutPoint
  simp only at hf
  rw [hf rest]; rfl

theorem frame_decTxOut {s : Slice} {x : TxOutV} {r : Slice} (h : decTxOut s = .ok (x, r)) :
    Framed decTxOut s x r := by
  obtain ⟨v8, body, h8, hb, c, hx⟩ := decTxOut_ok h
  refine ⟨_, c, fun rest => ?_⟩
  rw [decTxOut_append _ _ _ _ h8 hb, hx]

theorem frame_decTxIn {s : Slice} {x : TxInV} {r : Slice} (h : decTxIn s = .ok (x, r)) :
    Framed decTxIn s x r := by
  unfold decTxIn at h
  obtain ⟨⟨op, r1⟩, h1, h⟩ := res_bind_ok.mp h
  obtain ⟨⟨sc, r2⟩, h2, h⟩ := res_bind_ok.mp h
  obtain ⟨⟨sq, r3⟩, h3, h⟩ := res_bind_ok.mp h
  simp only [Res.pure_eq, Res.ok.injEq, Prod.mk.injEq] at h
  obtain ⟨e1, e2⟩ := h
  subst e2
  obtain ⟨v1, c1, f1⟩ := frame_decOutPoint h1
  obtain ⟨v2, c2, f2⟩ := frame_decScript h2
  obtain ⟨v3, c3, f3⟩ := frame_decLE h3
  have c := (c1.trans c2).trans c3
  refine ⟨_, c, fun rest => ?_⟩
  unfold decTxIn
  have e : v1 ++ v2 ++ v3 ++ rest = v1 ++ (v2 ++ (v3 ++ rest)) := by simp
  rw [e, f1]
  simp only [Res.bind_ok]
  rw [← c1.2, f2]
  simp only [Res.bind_ok]
  rw [← c2.2, f3]
  simp only [Res.bind_ok, Res.pure_eq]
  rw [← c3.2, ← e, ← e1, c.viewOf, c.2, (c.frame rest).viewOf]

/-- `Framed` for a decoder in the trace monad: only the result matters here -/
abbrev FramedD {α} (f : Slice → D (α × Slice)) (s : Slice) (x : α) (rem : Slice) : Prop :=
  Framed (fun s => (f s).res) s x rem

theorem frame_decTxInsLoop : ∀ (n i : Nat) (s rem : Slice), (decTxInsLoop n i s).res = .ok rem →
    ∃ v, Cons s v rem ∧ ∀ rest, (decTxInsLoop n i ⟨s.base, v ++ rest⟩).res = .ok ⟨s.base + v.length, rest⟩ := by
  intro n
  induction n with
  | zero =>
    intro i s rem h
    simp only [decTxInsLoop, d_pure_res, Res.ok.injEq] at h
    subst h
    exact ⟨[], Cons.refl s, fun rest => by simp [decTxInsLoop]⟩
  | succ n ih =>
    intro i s rem h
    unfold decTxInsLoop at h
    obtain ⟨⟨x, r⟩, h1, h⟩ := d_bind_res_ok.mp h
    obtain ⟨u, h2, h⟩ := d_bind_res_ok.mp h
    obtain ⟨v1, c1, f1⟩ := frame_decTxIn (by simpa using h1)
    obtain ⟨v2, c2, f2⟩ := ih _ _ _ h
    refine ⟨_, c1.trans c2, fun rest => ?_⟩
    unfold decTxInsLoop
    rw [List.append_assoc, d_bind_res (a := (x, ⟨s.base + v1.length, v2 ++ rest⟩)) (by simpa using f1 _)]
    simp only
    rw [d_bind_res (a := ()) rfl, ← c1.2, f2, c1.2]
    simp [Nat.add_assoc]

theorem frame_decTxIns {s : Slice} {x : TxInsV} {rem : Slice} (h : (decTxIns s).res = .ok (x, rem)) :
    FramedD decTxIns s x rem := by
  unfold decTxIns at h
  obtain ⟨⟨n, r⟩, h1, h⟩ := d_bind_res_ok.mp h
  obtain ⟨u, h2, h⟩ := d_bind_res_ok.mp h
  obtain ⟨rem', h3, h⟩ := d_bind_res_ok.mp h
  simp only [d_pure_res, Res.ok.injEq, Prod.mk.injEq] at h
  obtain ⟨e1, e2⟩ := h
  subst e2
  obtain ⟨v1, c1, f1⟩ := frame_decCompact (by simpa using h1)
  obtain ⟨v2, c2, f2⟩ := frame_decTxInsLoop _ _ _ _ h3
  have c := c1.trans c2
  refine ⟨_, c, fun rest => ?_⟩
  simp only
  unfold decTxIns
  rw [List.append_assoc, d_bind_res (a := (n, ⟨s.base + v1.length, v2 ++ rest⟩)) (by simpa using f1 _)]
  simp only
  rw [d_bind_res (a := ()) rfl, ← c1.2, d_bind_res (f2 rest)]
  simp only [d_pure_res]
  have hb : s.base + v1.length + v2.length = s.base + (v1 ++ v2).length := by simp [Nat.add_assoc]
  rw [← List.append_assoc, ← e1, c.viewOf, c1.2, hb, (c.frame rest).viewOf]

theorem frame_decTxOutsLoop : ∀ (n i : Nat) (s rem : Slice), (decTxOutsLoop n i s).res = .ok rem →
    ∃ v, Cons s v rem ∧ ∀ rest, (decTxOutsLoop n i ⟨s.base, v ++ rest⟩).res = .ok ⟨s.base + v.length, rest⟩ := by
  intro n
  induction n with
  | zero =>
    intro i s rem h
    simp only [decTxOutsLoop, d_pure_res, Res.ok.injEq] at h
    subst h
    exact ⟨[], Cons.refl s, fun rest => by simp [decTxOutsLoop]⟩
  | succ n ih =>
    intro i s rem h
    unfold decTxOutsLoop at h
    obtain ⟨⟨x, r⟩, h1, h⟩ := d_bind_res_ok.mp h
    obtain ⟨u, h2, h⟩ := d_bind_res_ok.mp h
    obtain ⟨v1, c1, f1⟩ := frame_decTxOut (by simpa using h1)
    obtain ⟨v2, c2, f2⟩ := ih _ _ _ h
    refine ⟨_, c1.trans c2, fun rest => ?_⟩
    unfold decTxOutsLoop
    rw [List.append_assoc, d_bind_res (a := (x, ⟨s.base + v1.length, v2 ++ rest⟩)) (by simpa using f1 _)]
    simp only
    rw [d_bind_res (a := ()) rfl, ← c1.2, f2, c1.2]
    simp [Nat.add_assoc]

theorem frame_decTxOuts {s : Slice} {x : TxOutsV} {rem : Slice} (h : (decTxOuts s).res = .ok (x, rem)) :
    FramedD decTxOuts s x rem := by
  unfold decTxOuts at h
  obtain ⟨⟨n, r⟩, h1, h⟩ := d_bind_res_ok.mp h
  obtain ⟨u, h2, h⟩ := d_bind_res_ok.mp h
  obtain ⟨rem', h3, h⟩ := d_bind_res_ok.mp h
  simp only [d_pure_res, Res.ok.injEq, Prod.mk.injEq] at h
  obtain ⟨e1, e2⟩ := h
  subst e2
  obtain ⟨v1, c1, f1⟩ := frame_decCompact (by simpa using h1)
  obtain ⟨v2, c2, f2⟩ := frame_decTxOutsLoop _ _ _ _ h3
  have c := c1.trans c2
  refine ⟨_, c, fun rest => ?_⟩
  simp only
  unfold decTxOuts
  rw [List.append_assoc, d_bind_res (a := (n, ⟨s.base + v1.length, v2 ++ rest⟩)) (by simpa using f1 _)]
  simp only
  rw [d_bind_res (a := ()) rfl, ← c1.2, d_bind_res (f2 rest)]
  simp only [d_pure_res]
  have hb : s.base + v1.length + v2.length = s.base + (v1 ++ v2).length := by simp [Nat.add_assoc]
  rw [← List.append_assoc, ← e1, c.viewOf, c1.2, hb, (c.frame rest).viewOf]


theorem frame_decWitnessLoop : ∀ (n i : Nat) (s rem : Slice), (decWitnessLoop n i s).res = .ok rem →
    ∃ v, Cons s v rem ∧ ∀ rest, (decWitnessLoop n i ⟨s.base, v ++ rest⟩).res = .ok ⟨s.base + v.length, rest⟩ := by
  intro n
  induction n with
  | zero =>
    intro i s rem h
    simp only [decWitnessLoop, d_pure_res, Res.ok.injEq] at h
    subst h
    exact ⟨[], Cons.refl s, fun rest => by simp [decWitnessLoop]⟩
  | succ n ih =>
    intro i s rem h
    unfold decWitnessLoop at h
    obtain ⟨⟨len, r⟩, h1, h⟩ := d_bind_res_ok.mp h
    obtain ⟨⟨el, r'⟩, h2, h⟩ := d_bind_res_ok.mp h
    obtain ⟨u, _, h⟩ := d_bind_res_ok.mp h
    obtain ⟨v1, c1, f1⟩ := frame_decCompact (by simpa using h1)
    obtain ⟨v2, c2, f2⟩ := frame_takeN (by simpa using h2)
    obtain ⟨v3, c3, f3⟩ := ih _ _ _ h
    refine ⟨_, (c1.trans c2).trans c3, fun rest => ?_⟩
    unfold decWitnessLoop
    have e : v1 ++ v2 ++ v3 ++ rest = v1 ++ (v2 ++ (v3 ++ rest)) := by simp
    rw [e, d_bind_res (a := (len, ⟨s.base + v1.length, v2 ++ (v3 ++ rest)⟩)) (by simpa using f1 _)]
    simp only
    rw [← c1.2, d_bind_res (a := (el, ⟨r.base + v2.length, v3 ++ rest⟩)) (by simpa using f2 _)]
    simp only
    rw [d_bind_res (a := ()) rfl, ← c2.2, f3, c2.2, c1.2]
    simp [Nat.add_assoc]

theorem frame_decWitness {s : Slice} {w : WitnessV} {e : Bool} {rem : Slice}
    (h : (decWitness s).res = .ok (w, e, rem)) :
    ∃ v, Cons s v rem ∧ ∀ rest, (decWitness ⟨s.base, v ++ rest⟩).res = .ok (w, e, ⟨s.base + v.length, rest⟩) := by
  unfold decWitness at h
  obtain ⟨⟨n, r⟩, h1, h⟩ := d_bind_res_ok.mp h
  obtain ⟨u, h2, h⟩ := d_bind_res_ok.mp h
  obtain ⟨rem', h3, h⟩ := d_bind_res_ok.mp h
  simp only [d_pure_res, Res.ok.injEq, Prod.mk.injEq] at h
  obtain ⟨e1, e2, e3⟩ := h
  subst e3
  obtain ⟨v1, c1, f1⟩ := frame_decCompact (by simpa using h1)
  obtain ⟨v2, c2, f2⟩ := frame_decWitnessLoop _ _ _ _ h3
  have c := c1.trans c2
  refine ⟨_, c, fun rest => ?_⟩
  unfold decWitness
  rw [List.append_assoc, d_bind_res (a := (n, ⟨s.base + v1.length, v2 ++ rest⟩)) (by simpa using f1 _)]
  simp only
  rw [d_bind_res (a := ()) rfl, ← c1.2, d_bind_res (f2 rest)]
  simp only [d_pure_res]
  have hb : s.base + v1.length + v2.length = s.base + (v1 ++ v2).length := by simp [Nat.add_assoc]
  rw [← List.append_assoc, ← e1, ← e2, c.viewOf, c1.2, hb, (c.frame rest).viewOf]

theorem frame_decWitnessesLoop : ∀ (n i : Nat) (s : Slice) (ae : Bool) (rem : Slice) (ae' : Bool),
    (decWitnessesLoop n i s ae).res = .ok (rem, ae') →
    ∃ v, Cons s v rem ∧ ∀ rest,
      (decWitnessesLoop n i ⟨s.base, v ++ rest⟩ ae).res = .ok (⟨s.base + v.length, rest⟩, ae') := by
  intro n
  induction n with
  | zero =>
    intro i s ae rem ae' h
    simp only [decWitnessesLoop, d_pure_res, Res.ok.injEq, Prod.mk.injEq] at h
    obtain ⟨e1, e2⟩ := h
    subst e1 e2
    exact ⟨[], Cons.refl s, fun rest => by simp [decWitnessesLoop]⟩
  | succ n ih =>
    intro i s ae rem ae' h
    unfold decWitnessesLoop at h
    obtain ⟨u, _, h⟩ := d_bind_res_ok.mp h
    obtain ⟨⟨w, e, r⟩, h1, h⟩ := d_bind_res_ok.mp h
    obtain ⟨u', _, h⟩ := d_bind_res_ok.mp h
    obtain ⟨v1, c1, f1⟩ := frame_decWitness h1
    obtain ⟨v2, c2, f2⟩ := ih _ _ _ _ _ h
    refine ⟨_, c1.trans c2, fun rest => ?_⟩
    unfold decWitnessesLoop
    rw [d_bind_res (a := ()) rfl, List.append_assoc, d_bind_res (f1 _)]
    simp only
    rw [d_bind_res (a := ()) rfl, ← c1.2, f2, c1.2]
    simp [Nat.add_assoc]

theorem frame_decWitnesses {s : Slice} {n : Nat} {x : WitnessesV} {rem : Slice}
    (h : (decWitnesses s n).res = .ok (x, rem)) : FramedD (fun s => decWitnesses s n) s x rem := by
  unfold decWitnesses at h
  obtain ⟨⟨rem', ae⟩, h1, h⟩ := d_bind_res_ok.mp h
  simp only [d_pure_res, Res.ok.injEq, Prod.mk.injEq] at h
  obtain ⟨e1, e2⟩ := h
  subst e2
  obtain ⟨v, c, f⟩ := frame_decWitnessesLoop _ _ _ _ _ _ h1
  refine ⟨v, c, fun rest => ?_⟩
  simp only
  unfold decWitnesses
  rw [d_bind_res (f rest)]
  simp only [d_pure_res]
  rw [← e1, c.viewOf, (c.frame rest).viewOf]


/-- the legacy tail of `decTransaction` (after version and inputs) -/
def legacyTail (s r : Slice) : D (TxV × Slice) := do
  let (_outputs, r1) ← decTxOuts r
  let (_lock, rem) ← D.lift (decLE 4 r1)
  let tx : TxV := ⟨viewOf s rem, none⟩
  D.emit (.transaction tx)
  pure (tx, rem)

/-- the segwit tail of `decTransaction` (after version, marker and flag) -/
def segwitTail (s r1 : Slice) : D (TxV × Slice) := do
  let (inputs, r2) ← decTxIns r1
  let (outputs, r3) ← decTxOuts r2
  let (witnesses, r4) ← decWitnesses r3 inputs.n
  if inputs.n ≠ 0 ∧ witnesses.allEmpty = true then
    D.lift (.err .segwitFlagWithoutWitnesses)
  else
    let (_lock, rem) ← D.lift (decLE 4 r4)
    let tx : TxV := ⟨viewOf s rem, some (inputs.slice.len + outputs.slice.len)⟩
    D.emit (.transaction tx)
    pure (tx, rem)

theorem decTransaction_eq (s : Slice) : decTransaction s = (do
    let (_version, s4) ← D.lift (decLE 4 s)
    let (inputs, r) ← decTxIns s4
    if inputs.n = 0 then
      let (flag, r1) ← D.lift (decLE 1 r)
      if flag = 1 then segwitTail s r1
      else D.lift (.err (.unknownSegwitFlag (UInt8.ofNat flag)))
    else legacyTail s r) := rfl

theorem frame_legacyTail {s r : Slice} {pre : Bytes} {t : TxV} {rem : Slice} (c0 : Cons s pre r)
    (h : (legacyTail s r).res = .ok (t, rem)) :
    ∃ v, Cons r v rem ∧ ∀ rest,
      (legacyTail ⟨s.base, pre ++ v ++ rest⟩ ⟨r.base, v ++ rest⟩).res = .ok (t, ⟨r.base + v.length, rest⟩) := by
  unfold legacyTail at h
  obtain ⟨⟨outputs, r1⟩, h2, h⟩ := d_bind_res_ok.mp h
  obtain ⟨⟨lk, rem'⟩, h3, h⟩ := d_bind_res_ok.mp h
  obtain ⟨u, _, h⟩ := d_bind_res_ok.mp h
  simp only [d_pure_res, Res.ok.injEq, Prod.mk.injEq] at h
  obtain ⟨e1, e2⟩ := h
  subst e2
  obtain ⟨v1, c1, f1⟩ := frame_decTxOuts h2
  obtain ⟨v2, c2, f2⟩ := frame_decLE (by simpa using h3)
  have c := (c0.trans c1).trans c2
  refine ⟨_, c1.trans c2, fun rest => ?_⟩
  unfold legacyTail
  simp only at f1
  rw [List.append_assoc v1, d_bind_res (f1 _)]
  simp only
  rw [← c1.2, d_bind_res (a := (lk, ⟨r1.base + v2.length, rest⟩)) (by simpa using f2 _)]
  simp only
  rw [d_bind_res (a := ()) rfl]
  simp only [d_pure_res]
  have hc : Cons ⟨s.base, pre ++ (v1 ++ v2) ++ rest⟩ (pre ++ v1 ++ v2) ⟨r1.base + v2.length, rest⟩ := by
    refine ⟨by simp, ?_⟩
    simp only [c1.2, c0.2, List.length_append]; omega
  rw [hc.viewOf, ← e1, c.viewOf, c1.2]
  simp [Nat.add_assoc]

theorem frame_segwitTail {s r1 : Slice} {pre : Bytes} {t : TxV} {rem : Slice} (c0 : Cons s pre r1)
    (h : (segwitTail s r1).res = .ok (t, rem)) :
    ∃ v, Cons r1 v rem ∧ ∀ rest,
      (segwitTail ⟨s.base, pre ++ v ++ rest⟩ ⟨r1.base, v ++ rest⟩).res = .ok (t, ⟨r1.base + v.length, rest⟩) := by
  unfold segwitTail at h
  obtain ⟨⟨inputs, r2⟩, h1, h⟩ := d_bind_res_ok.mp h
  obtain ⟨⟨outputs, r3⟩, h2, h⟩ := d_bind_res_ok.mp h
  obtain ⟨⟨witnesses, r4⟩, h3, h⟩ := d_bind_res_ok.mp h
  simp only at h
  split at h
  · simp at h
  · rename_i hcond
    obtain ⟨⟨lk, rem'⟩, h4, h⟩ := d_bind_res_ok.mp h
    obtain ⟨u, _, h⟩ := d_bind_res_ok.mp h
    simp only [d_pure_res, Res.ok.injEq, Prod.mk.injEq] at h
    obtain ⟨e1, e2⟩ := h
    subst e2
    obtain ⟨v1, c1, f1⟩ := frame_decTxIns h1
    obtain ⟨v2, c2, f2⟩ := frame_decTxOuts h2
    obtain ⟨v3, c3, f3⟩ := frame_decWitnesses h3
    obtain ⟨v4, c4, f4⟩ := frame_decLE (by simpa using h4)
    have c := (((c0.trans c1).trans c2).trans c3).trans c4
    refine ⟨_, ((c1.trans c2).trans c3).trans c4, fun rest => ?_⟩
    unfold segwitTail
    simp only at f1 f2 f3
    have e : v1 ++ v2 ++ v3 ++ v4 ++ rest = v1 ++ (v2 ++ (v3 ++ (v4 ++ rest))) := by simp
    rw [e, d_bind_res (f1 _)]
    simp only
    rw [← c1.2, d_bind_res (f2 _)]
    simp only
    rw [← c2.2, d_bind_res (f3 _)]
    simp only
    rw [if_neg hcond, ← c3.2, d_bind_res (a := (lk, ⟨r4.base + v4.length, rest⟩)) (by simpa using f4 _)]
    simp only
    rw [d_bind_res (a := ()) rfl]
    simp only [d_pure_res]
    have hc : Cons ⟨s.base, pre ++ (v1 ++ v2 ++ v3 ++ v4) ++ rest⟩ (pre ++ v1 ++ v2 ++ v3 ++ v4)
        ⟨r4.base + v4.length, rest⟩ := by
      refine ⟨by simp, ?_⟩
      simp only [c3.2, c2.2, c1.2, c0.2, List.length_append]; omega
    rw [hc.viewOf, ← e1, c.viewOf, c3.2, c2.2, c1.2]
    simp [Nat.add_assoc]

/-- `decTransaction` does not look past the transaction -/
theorem frame_decTransaction {s : Slice} {t : TxV} {rem : Slice} (h : (decTransaction s).res = .ok (t, rem)) :
    FramedD decTransaction s t rem := by
  rw [decTransaction_eq] at h
  obtain ⟨⟨ver, s4⟩, h0, h⟩ := d_bind_res_ok.mp h
  obtain ⟨⟨inputs, r⟩, h1, h⟩ := d_bind_res_ok.mp h
  obtain ⟨v0, c0, f0⟩ := frame_decLE (by simpa using h0)
  obtain ⟨v1, c1, f1⟩ := frame_decTxIns h1
  simp only at h f1
  split at h
  · rename_i hz
    obtain ⟨⟨flag, r1⟩, hf, h⟩ := d_bind_res_ok.mp h
    simp only at h
    split at h
    · rename_i hflag
      obtain ⟨vf, cf, ff⟩ := frame_decLE (by simpa using hf)
      have cpre := (c0.trans c1).trans cf
      obtain ⟨v, cv, fv⟩ := frame_segwitTail cpre h
      refine ⟨_, cpre.trans cv, fun rest => ?_⟩
      simp only
      rw [decTransaction_eq]
      have e : v0 ++ v1 ++ vf ++ v ++ rest = v0 ++ (v1 ++ (vf ++ (v ++ rest))) := by simp
      rw [e, d_bind_res (a := (ver, ⟨s.base + v0.length, v1 ++ (vf ++ (v ++ rest))⟩)) (by simpa using f0 _)]
      simp only
      rw [← c0.2, d_bind_res (f1 _)]
      simp only
      rw [if_pos hz, ← c1.2, d_bind_res (a := (flag, ⟨r.base + vf.length, v ++ rest⟩)) (by simpa using ff _)]
      simp only
      rw [if_pos hflag, ← cf.2, ← e, fv rest, cpre.2]
      simp [Nat.add_assoc]
    · simp at h
  · rename_i hz
    have cpre := c0.trans c1
    obtain ⟨v, cv, fv⟩ := frame_legacyTail cpre h
    refine ⟨_, cpre.trans cv, fun rest => ?_⟩
    simp only
    rw [decTransaction_eq]
    have e : v0 ++ v1 ++ v ++ rest = v0 ++ (v1 ++ (v ++ rest)) := by simp
    rw [e, d_bind_res (a := (ver, ⟨s.base + v0.length, v1 ++ (v ++ rest)⟩)) (by simpa using f0 _)]
    simp only
    rw [← c0.2, d_bind_res (f1 _)]
    simp only
    rw [if_neg hz, ← c1.2, ← e, fv rest, cpre.2]
    simp [Nat.add_assoc]

/-- re-decoding the view of a decoded transaction gives the same transaction and consumes the view entirely -/
theorem decTransaction_view {s : Slice} {t : TxV} {rem : Slice} (h : (decTransaction s).res = .ok (t, rem)) :
    (decTransaction t.slice).res = .ok (t, ⟨t.slice.base + t.slice.len, []⟩) := by
  obtain ⟨v, c, f⟩ := frame_decTransaction h
  obtain ⟨_, _, _, _, _, _, L⟩ := tx_layout h
  have hv : t.slice = ⟨s.base, v⟩ := by
    rw [slice_eta t.slice, L.base]
    congr 1
    exact List.append_cancel_right (L.cons.1.symm.trans c.1)
  have := f []
  simp only [List.append_nil] at this
  rw [hv]; exact this


/-- `EmptyVisitor` never breaks: replaying any trace against it just returns the result -/
theorem replay_empty {α} (tr : List Event) (r : Res α) : (replay emptyVisitor () tr r).2 = r := by
  induction tr with
  | nil => rfl
  | cons e tr ih =>
    unfold replay
    simp only [emptyVisitor, Bool.and_false, Bool.false_eq_true, if_false]
    exact ih

end BS.Acc
