import BS.Lemmas.RefTx
/-
  Refinement L1 ⊑ L2, part 8: generic consequences used by the property files C01 / C09 / C15:
  breaks, never-breaking visitors, counting and recording visitors, accessors.
-/
namespace BS.Ref
open BS BS.Spec VM

/-! ### never breaking / breaking at a given position -/

/-- the visitor, fed `es` from `st`, never answers Break on a breakable event -/
def NoBreak {σ} (v : Visitor σ) (st : σ) (es : List Event) : Prop :=
  ∀ j (h : j < es.length), es[j].breakable = true → (v.step (feed v st (es.take j)) es[j]).2 = false

theorem noBreak_nil {σ} (v : Visitor σ) (st : σ) : NoBreak v st [] := fun j h => by simp at h

theorem noBreak_cons {σ} (v : Visitor σ) (st : σ) (e : Event) (es : List Event) :
    NoBreak v st (e :: es) ↔ (e.breakable = true → (v.step st e).2 = false) ∧ NoBreak v (v.step st e).1 es := by
  constructor
  · intro h
    refine ⟨fun hb => h 0 (by simp) hb, fun j hj hb => ?_⟩
    exact h (j + 1) (by simpa using hj) hb
  · rintro ⟨h0, h1⟩ j hj hb
    cases j with
    | zero => exact h0 hb
    | succ j => exact h1 j (by simpa using hj) hb

theorem scanEv_noBreak {σ} (v : Visitor σ) (st : σ) (es : List Event) :
    (scanEv v st es).2 = false ↔ NoBreak v st es := by
  induction es generalizing st with
  | nil => exact ⟨fun _ => noBreak_nil v st, fun _ => rfl⟩
  | cons e es ih =>
    rw [noBreak_cons, ← ih]
    simp only [scanEv]
    by_cases hb : e.breakable = true
    · cases hx : (v.step st e).2 <;> simp_all
    · simp [hb]

theorem scanEv_fst {σ} (v : Visitor σ) (st : σ) (es : List Event) (h : (scanEv v st es).2 = false) :
    (scanEv v st es).1 = feed v st es := by
  induction es generalizing st with
  | nil => rfl
  | cons e es ih =>
    simp only [scanEv] at h ⊢
    split at h
    · cases h
    · rename_i hc
      rw [if_neg hc]
      exact ih _ h

theorem scanEv_of_noBreak {σ} (v : Visitor σ) (st : σ) (es : List Event) (h : NoBreak v st es) :
    scanEv v st es = (feed v st es, false) := by
  have h2 := (scanEv_noBreak v st es).2 h
  have h1 := scanEv_fst v st es h2
  rw [← h1, ← h2]

/-- a Break at position `i` (first one): the scan stops right after event `i` -/
theorem scanEv_break {σ} (v : Visitor σ) (st : σ) (t : List Event) (i : Nat) (hi : i < t.length)
    (hb : t[i].breakable = true) (hno : NoBreak v st (t.take i))
    (hbr : (v.step (feed v st (t.take i)) t[i]).2 = true) :
    scanEv v st t = (feed v st (t.take (i + 1)), true) := by
  have hsplit : t = t.take i ++ t[i] :: t.drop (i + 1) := by
    rw [← List.drop_eq_getElem_cons hi, List.take_append_drop]
  rw [List.take_succ_eq_append_getElem hi, feed_append]
  conv => lhs; rw [hsplit]
  rw [scanEv_append, scanEv_of_noBreak _ _ _ hno]
  simp only [Bool.false_eq_true, if_false, scanEv, hb, hbr, Bool.and_self, if_true, feed_cons, feed_nil]

theorem run_break {σ α} (d : D α) (v : Visitor σ) (st : σ) (i : Nat) (hi : i < d.trace.length)
    (hb : d.trace[i].breakable = true) (hno : NoBreak v st (d.trace.take i))
    (hbr : (v.step (feed v st (d.trace.take i)) d.trace[i]).2 = true) :
    d.run v st = (feed v st (d.trace.take (i + 1)), .err .visitBreak) := by
  rw [run_eq, scanEv_break v st d.trace i hi hb hno hbr]; rfl

theorem run_never {σ α} (d : D α) (v : Visitor σ) (st : σ) (hno : NoBreak v st d.trace) :
    d.run v st = (feed v st d.trace, d.res) := by
  rw [run_eq, scanEv_of_noBreak v st d.trace hno]; rfl

/-- a visitor that never answers Break on breakable events -/
def NeverBreaks {σ} (v : Visitor σ) : Prop := ∀ st e, e.breakable = true → (v.step st e).2 = false

theorem noBreak_of_never {σ} (v : Visitor σ) (hv : NeverBreaks v) (st : σ) (es : List Event) : NoBreak v st es :=
  fun _ _ hb => hv _ _ hb

theorem neverBreaks_empty : NeverBreaks emptyVisitor := fun _ _ _ => rfl
theorem neverBreaks_recorder : NeverBreaks recorder := fun _ _ _ => rfl

theorem run_ok {σ α} {d : D α} {v : Visitor σ} {st : σ} {a : α} (h : (d.run v st).2 = .ok a) : d.res = .ok a := by
  rw [run_eq] at h
  simp only at h
  split at h
  · cases h
  · exact h

theorem run_nopanic {σ α} (d : D α) (v : Visitor σ) (st : σ) (h : d.res.isPanic = false) :
    (d.run v st).2.isPanic = false := by
  rw [run_eq]
  simp only
  split
  · rfl
  · exact h

/-! ### recording and counting -/

/-- run `v` and also log every event delivered (newest first) -/
def tap {σ} (v : Visitor σ) : Visitor (σ × List Event) :=
  ⟨fun st e => (((v.step st.1 e).1, e :: st.2), (v.step st.1 e).2)⟩

theorem feed_tap {σ} (v : Visitor σ) (st : σ) (log es : List Event) :
    feed (tap v) (st, log) es = (feed v st es, es.reverse ++ log) := by
  induction es generalizing st log with
  | nil => rfl
  | cons e es ih =>
    rw [feed_cons, feed_cons]
    show feed (tap v) ((v.step st e).1, e :: log) es = _
    rw [ih]; simp

theorem noBreak_tap {σ} (v : Visitor σ) (st : σ) (log es : List Event) (h : NoBreak v st es) :
    NoBreak (tap v) (st, log) es := by
  intro j hj hb
  rw [feed_tap]
  exact h j hj hb

theorem feed_recorder (log es : List Event) : feed recorder log es = es.reverse ++ log := by
  induction es generalizing log with
  | nil => rfl
  | cons e es ih =>
    rw [feed_cons]
    show feed recorder (e :: log) es = _
    rw [ih]; simp

/-- counts the callbacks, never breaks -/
def counter : Visitor Nat := ⟨fun n _ => (n + 1, false)⟩

theorem neverBreaks_counter : NeverBreaks counter := fun _ _ _ => rfl

theorem feed_counter (n : Nat) (es : List Event) : feed counter n es = n + es.length := by
  induction es generalizing n with
  | nil => rfl
  | cons e es ih =>
    rw [feed_cons]
    show feed counter (n + 1) es = _
    rw [ih]; simp; omega

/-- under a refinement, the number of callbacks L1 makes to a never-breaking visitor is the length of the L2 trace -/
theorem sim_count {α} {m : VM Nat α} {d : D α} (h : Sim m d) : (m counter 0).1 = d.trace.length := by
  rw [h, run_never d counter 0 (noBreak_of_never _ neverBreaks_counter _ _), feed_counter]; simp

end BS.Ref
