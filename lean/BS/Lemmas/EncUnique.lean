import BS.Lemmas.EncList
/-
  prefix-freeness of the canonical encoders (below the transaction level), derived from completeness of the decoders
-/
namespace BS.Enc
open BS BS.Spec

theorem encCompact_unique {n n' : Nat} {r r' : Bytes} (hn : n < 2 ^ 64) (hn' : n' < 2 ^ 64)
    (h : encCompact n ++ r = encCompact n' ++ r') : n = n' ∧ r = r' := by
  have h1 := decCompact_enc 0 n r hn
  have h2 := decCompact_enc 0 n' r' hn'
  rw [h, h2] at h1
  cases h1
  exact ⟨rfl, rfl⟩

theorem encVarBytes_unique {x x' r r' : Bytes} (hx : x.length < 2 ^ 64) (hx' : x'.length < 2 ^ 64)
    (h : encVarBytes x ++ r = encVarBytes x' ++ r') : x = x' ∧ r = r' := by
  have h1 := decScript_enc 0 x r hx
  have h2 := decScript_enc 0 x' r' hx'
  rw [h, h2] at h1
  have hv : viewScript 0 x' = viewScript 0 x := (Prod.mk.inj (Res.ok.inj h1)).1
  have hr : r' = r := (Slice.mk.inj (Prod.mk.inj (Res.ok.inj h1)).2).2
  have := congrArg fieldsScript hv
  rw [fields_viewScript, fields_viewScript] at this
  exact ⟨this.symm, hr.symm⟩

theorem encOutPoint_unique {x x' : OutPointS} {r r' : Bytes} (hx : x.WF) (hx' : x'.WF)
    (h : encOutPoint x ++ r = encOutPoint x' ++ r') : x = x' ∧ r = r' := by
  have h1 := decOutPoint_enc 0 x r hx
  have h2 := decOutPoint_enc 0 x' r' hx'
  rw [h, h2] at h1
  have hv : viewOutPoint 0 x' = viewOutPoint 0 x := (Prod.mk.inj (Res.ok.inj h1)).1
  have hr : r' = r := (Slice.mk.inj (Prod.mk.inj (Res.ok.inj h1)).2).2
  have := congrArg fieldsOutPoint hv
  rw [fields_viewOutPoint _ hx, fields_viewOutPoint _ hx'] at this
  exact ⟨this.symm, hr.symm⟩

theorem encTxIn_unique {x x' : TxInS} {r r' : Bytes} (hx : x.WF) (hx' : x'.WF)
    (h : encTxIn x ++ r = encTxIn x' ++ r') : x = x' ∧ r = r' := by
  have h1 := decTxIn_enc 0 x r hx
  have h2 := decTxIn_enc 0 x' r' hx'
  rw [h, h2] at h1
  have hv : viewTxIn 0 x' = viewTxIn 0 x := (Prod.mk.inj (Res.ok.inj h1)).1
  have hr : r' = r := (Slice.mk.inj (Prod.mk.inj (Res.ok.inj h1)).2).2
  have := congrArg fieldsTxIn hv
  rw [fields_viewTxIn _ hx, fields_viewTxIn _ hx'] at this
  exact ⟨this.symm, hr.symm⟩

theorem encTxOut_unique {x x' : TxOutS} {r r' : Bytes} (hx : x.WF) (hx' : x'.WF)
    (h : encTxOut x ++ r = encTxOut x' ++ r') : x = x' ∧ r = r' := by
  have h1 := decTxOut_enc 0 x r hx
  have h2 := decTxOut_enc 0 x' r' hx'
  rw [h, h2] at h1
  have hv : viewTxOut 0 x' = viewTxOut 0 x := (Prod.mk.inj (Res.ok.inj h1)).1
  have hr : r' = r := (Slice.mk.inj (Prod.mk.inj (Res.ok.inj h1)).2).2
  have := congrArg fieldsTxOut hv
  rw [fields_viewTxOut, fields_viewTxOut] at this
  exact ⟨this.symm, hr.symm⟩

/-- equally long lists of prefix-free encodings are determined by their concatenation -/
theorem flatten_unique {α : Type} (enc : α → Bytes) (P : α → Prop)
    (huniq : ∀ x x' r r', P x → P x' → enc x ++ r = enc x' ++ r' → x = x' ∧ r = r') :
    ∀ (l l' : List α) (r r' : Bytes), l.length = l'.length → (∀ x ∈ l, P x) → (∀ x ∈ l', P x) →
      (l.map enc).flatten ++ r = (l'.map enc).flatten ++ r' → l = l' ∧ r = r' := by
  intro l
  induction l with
  | nil =>
    intro l' r r' hl _ _ h
    cases l' with
    | nil => exact ⟨rfl, by simpa using h⟩
    | cons _ _ => simp at hl
  | cons x l ih =>
    intro l' r r' hl hp hp' h
    cases l' with
    | nil => simp at hl
    | cons x' l' =>
      rw [flatten_cons_append, flatten_cons_append] at h
      obtain ⟨hx, h2⟩ := huniq _ _ _ _ (hp x List.mem_cons_self) (hp' x' List.mem_cons_self) h
      subst hx
      obtain ⟨rfl, hr⟩ := ih l' r r' (by simpa using hl) (fun y hy => hp y (List.mem_cons_of_mem _ hy))
        (fun y hy => hp' y (List.mem_cons_of_mem _ hy)) h2
      exact ⟨rfl, hr⟩

theorem encTxIns_unique {l l' : List TxInS} {r r' : Bytes} (hn : l.length < 2 ^ 64) (hw : ∀ x ∈ l, x.WF)
    (hn' : l'.length < 2 ^ 64) (hw' : ∀ x ∈ l', x.WF) (h : encTxIns l ++ r = encTxIns l' ++ r') :
    l = l' ∧ r = r' := by
  unfold encTxIns at h
  rw [List.append_assoc, List.append_assoc] at h
  obtain ⟨hl, h⟩ := encCompact_unique hn hn' h
  exact flatten_unique encTxIn TxInS.WF (fun _ _ _ _ a b c => encTxIn_unique a b c) l l' r r' hl hw hw' h

theorem encTxOuts_unique {l l' : List TxOutS} {r r' : Bytes} (hn : l.length < 2 ^ 64) (hw : ∀ x ∈ l, x.WF)
    (hn' : l'.length < 2 ^ 64) (hw' : ∀ x ∈ l', x.WF) (h : encTxOuts l ++ r = encTxOuts l' ++ r') :
    l = l' ∧ r = r' := by
  unfold encTxOuts at h
  rw [List.append_assoc, List.append_assoc] at h
  obtain ⟨hl, h⟩ := encCompact_unique hn hn' h
  exact flatten_unique encTxOut TxOutS.WF (fun _ _ _ _ a b c => encTxOut_unique a b c) l l' r r' hl hw hw' h

theorem encWitness_unique {w w' : List Bytes} {r r' : Bytes} (hw : witnessWF w) (hw' : witnessWF w')
    (h : encWitness w ++ r = encWitness w' ++ r') : w = w' ∧ r = r' := by
  unfold encWitness at h
  rw [List.append_assoc, List.append_assoc] at h
  obtain ⟨hl, h⟩ := encCompact_unique hw.1 hw'.1 h
  exact flatten_unique encVarBytes (fun e => e.length < 2 ^ 64) (fun _ _ _ _ a b c => encVarBytes_unique a b c)
    w w' r r' hl hw.2 hw'.2 h

theorem encWitnesses_unique {ws ws' : List (List Bytes)} {r r' : Bytes} (hl : ws.length = ws'.length)
    (hw : ∀ w ∈ ws, witnessWF w) (hw' : ∀ w ∈ ws', witnessWF w)
    (h : encWitnesses ws ++ r = encWitnesses ws' ++ r') : ws = ws' ∧ r = r' :=
  flatten_unique encWitness witnessWF (fun _ _ _ _ a b c => encWitness_unique a b c) ws ws' r r' hl hw hw' h

end BS.Enc
