import BS.Lemmas.RefScan
/-
  Refinement L1 ⊑ L2, part 3: the four pure parsers (script, outpoint, txin, txout).
-/
namespace BS.Ref
open BS BS.Spec VM

theorem satAdd_gt {a b m : Nat} (hm : m < 2 ^ 62) (h : m < a + b) : m < satAdd a b := by
  unfold satAdd USIZE; split <;> omega

/-- both levels on a script: same error, or same value made of the first `w + n` bytes -/
theorem script_cases (s : Slice) (hs : s.len < 2 ^ 62) :
    (∃ e, DecErr e ∧ decScript s = .err e ∧ Script.parse s = .err e) ∨
    (∃ n w, ScanOk s 0 n w ∧ w + n ≤ s.len ∧
      decScript s = .ok (⟨stake s (w + n), w⟩, sdrop s (w + n)) ∧
      Script.parse s = .ok (⟨stake s (w + n), w⟩, sdrop s (w + n))) := by
  rcases scan_cases s 0 (by omega) with ⟨e, he, h1, h2⟩ | ⟨n, w, hok⟩
  · left
    refine ⟨e, he, ?_, ?_⟩
    · unfold decScript; rw [h1]; rfl
    · unfold Script.parse; rw [h2]; rfl
  · have ⟨hw1, hw9, hwl, hn, h1, h2, _⟩ := hok
    rw [Nat.zero_add] at h2
    by_cases hl : w + n ≤ s.len
    · right
      refine ⟨n, w, hok, hl, ?_, ?_⟩
      · unfold decScript
        rw [h1]
        simp only [Res.bind_ok]
        rw [takeN_ok (by simp; omega)]
        simp only [Res.bind_ok, Res.pure_eq, sdrop_sdrop, sdrop_len, viewOf_sdrop hl]
        congr 3; omega
      · unfold Script.parse
        rw [h2]
        simp only [Res.bind_ok]
        rw [satAdd_eq (by omega), splitAtChecked_eq, takeN_ok hl]
        rfl
    · left
      refine ⟨_, decErr_more, ?_, ?_⟩
      · unfold decScript
        rw [h1]
        simp only [Res.bind_ok]
        rw [takeN_short (by simp; omega)]
        rfl
      · unfold Script.parse
        rw [h2]
        simp only [Res.bind_ok]
        rw [splitAtChecked_eq, takeN_short (satAdd_gt hs (by omega))]
        rfl

theorem refine_script (s : Slice) (hs : s.len < 2 ^ 62) : Script.parse s = decScript s := by
  rcases script_cases s hs with ⟨e, _, h1, h2⟩ | ⟨n, w, _, _, h1, h2⟩ <;> rw [h1, h2]


theorem outpoint_cases (s : Slice) :
    (s.len < 36 ∧ decOutPoint s = .err .moreBytesNeeded ∧ OutPoint.parse s = .err .moreBytesNeeded) ∨
    (36 ≤ s.len ∧ decOutPoint s = .ok (⟨stake s 36⟩, sdrop s 36) ∧ OutPoint.parse s = .ok (⟨stake s 36⟩, sdrop s 36)) := by
  unfold decOutPoint OutPoint.parse
  rw [splitAtChecked_eq]
  by_cases h : s.len < 36
  · left; rw [takeN_short h]; exact ⟨h, rfl, rfl⟩
  · right; rw [takeN_ok (by omega)]; exact ⟨by omega, rfl, rfl⟩

theorem refine_outpoint (s : Slice) : OutPoint.parse s = decOutPoint s := by
  rcases outpoint_cases s with ⟨_, h1, h2⟩ | ⟨_, h1, h2⟩ <;> rw [h1, h2]

/-- both levels on a transaction input -/
theorem txin_cases (s : Slice) (hs : s.len < 2 ^ 62) :
    (∃ e, DecErr e ∧ decTxIn s = .err e ∧ TxIn.parse s = .err e) ∨
    (∃ n w, 36 ≤ s.len ∧ ScanOk (sdrop s 36) 0 n w ∧ 36 + (w + n) + 4 ≤ s.len ∧
      decTxIn s = .ok (⟨stake s (36 + (w + n) + 4), ⟨stake s 36⟩, ⟨stake (sdrop s 36) (w + n), w⟩,
                        leN ((sdrop s (36 + (w + n))).bytes.take 4)⟩, sdrop s (36 + (w + n) + 4)) ∧
      TxIn.parse s = .ok (⟨stake s (36 + (w + n) + 4), ⟨stake s 36⟩, ⟨stake (sdrop s 36) (w + n), w⟩,
                        leN ((sdrop s (36 + (w + n))).bytes.take 4)⟩, sdrop s (36 + (w + n) + 4))) := by
  unfold decTxIn TxIn.parse
  rcases outpoint_cases s with ⟨_, h1, h2⟩ | ⟨h36, h1, h2⟩
  · left; rw [h1, h2]; exact ⟨_, decErr_more, rfl, rfl⟩
  · rw [h1, h2]
    simp only [Res.bind_ok]
    rcases script_cases (sdrop s 36) (by simp; omega) with ⟨e, he, g1, g2⟩ | ⟨n, w, hok, hl, g1, g2⟩
    · left; rw [g1, g2]; exact ⟨e, he, rfl, rfl⟩
    · rw [g1, g2]
      simp only [Res.bind_ok, sdrop_sdrop, sdrop_len] at hl ⊢
      rw [decLE_eq, read_eq]
      by_cases h4 : (sdrop s (36 + (w + n))).len < 4
      · left; rw [if_pos h4, if_pos h4]; exact ⟨_, decErr_more, rfl, rfl⟩
      · right
        rw [if_neg h4, if_neg h4]
        simp only [sdrop_len] at h4
        have hk : 36 + (w + n) + 4 ≤ s.len := by omega
        refine ⟨n, w, h36, hok, hk, ?_, ?_⟩
        · simp only [Res.bind_ok, Res.pure_eq, sdrop_sdrop, viewOf_sdrop hk]
        · simp only [Res.bind_ok, Res.pure_eq]
          rw [stake_len (by simp; omega), addU_ok (by omega),
            show w + n + 40 = 36 + (w + n) + 4 by omega]
          simp only [Res.bind_ok, to_ok hk, from_ok hk]

theorem refine_txin (s : Slice) (hs : s.len < 2 ^ 62) : TxIn.parse s = decTxIn s := by
  rcases txin_cases s hs with ⟨e, _, h1, h2⟩ | ⟨n, w, _, _, _, h1, h2⟩ <;> rw [h1, h2]

/-- both levels on a transaction output -/
theorem txout_cases (s : Slice) (hs : s.len < 2 ^ 62) :
    (∃ e, DecErr e ∧ decTxOut s = .err e ∧ TxOut.parse s = .err e) ∨
    (∃ n w, 8 ≤ s.len ∧ ScanOk (sdrop s 8) 0 n w ∧ 8 + (w + n) ≤ s.len ∧
      decTxOut s = .ok (⟨stake s (8 + (w + n)), leN (s.bytes.take 8), ⟨stake (sdrop s 8) (w + n), w⟩⟩,
                        sdrop s (8 + (w + n))) ∧
      TxOut.parse s = .ok (⟨stake s (8 + (w + n)), leN (s.bytes.take 8), ⟨stake (sdrop s 8) (w + n), w⟩⟩,
                        sdrop s (8 + (w + n)))) := by
  unfold decTxOut TxOut.parse
  rw [decLE_eq, read_eq]
  by_cases h8 : s.len < 8
  · left; rw [if_pos h8, if_pos h8]; exact ⟨_, decErr_more, rfl, rfl⟩
  · rw [if_neg h8, if_neg h8]
    simp only [Res.bind_ok, from_ok (show 8 ≤ s.len by omega)]
    rcases script_cases (sdrop s 8) (by simp; omega) with ⟨e, he, g1, g2⟩ | ⟨n, w, hok, hl, g1, g2⟩
    · left; rw [g1, g2]; exact ⟨e, he, rfl, rfl⟩
    · right
      rw [g1, g2]
      simp only [Res.bind_ok, sdrop_sdrop, sdrop_len] at hl ⊢
      have hk : 8 + (w + n) ≤ s.len := by omega
      refine ⟨n, w, by omega, hok, hk, ?_, ?_⟩
      · simp only [Res.pure_eq, viewOf_sdrop hk]
      · rw [stake_len (by simp; omega), addU_ok (by omega)]
        simp only [Res.bind_ok, to_ok hk, Res.pure_eq]

theorem refine_txout (s : Slice) (hs : s.len < 2 ^ 62) : TxOut.parse s = decTxOut s := by
  rcases txout_cases s hs with ⟨e, _, h1, h2⟩ | ⟨n, w, _, _, _, h1, h2⟩ <;> rw [h1, h2]

end BS.Ref
