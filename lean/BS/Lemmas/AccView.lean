import BS.Lemmas.AccTx
/- helper lemmas: the accessors of `Transaction` evaluated on the byte layout of a decoded transaction -/
namespace BS.Acc
open BS BS.Spec

theorem take_drop_mid {α} (a m c : List α) {k n : Nat} (ha : a.length = k) (hm : m.length = n) :
    ((a ++ m ++ c).drop k).take n = m := by
  subst ha hm; simp

theorem drop_len_sub {α} (a c : List α) {n : Nat} (hc : c.length = n) :
    (a ++ c).drop ((a ++ c).length - n) = c := by
  subst hc
  have : (a ++ c).length - c.length = a.length := by simp
  rw [this]; simp

theorem mulU_ok {a b : Nat} (h : a * b < 2 ^ 64) : mulU a b = .ok (a * b) := by
  simp [mulU, USIZE, h]

variable {s : Slice} {t : TxV} {rem : Slice} {ver mid ins outs wits lock : Bytes}

theorem TxLayout.len (L : TxLayout s t rem ver mid ins outs wits lock) :
    t.slice.len = 4 + mid.length + ins.length + outs.length + wits.length + 4 := by
  unfold Slice.len; rw [L.bytes]; simp [L.ver_len, L.lock_len]; omega

theorem TxLayout.len_le (L : TxLayout s t rem ver mid ins outs wits lock) : t.slice.len ≤ s.len := by
  have := L.cons.len
  unfold Slice.len at *; omega

theorem TxLayout.consumed (L : TxLayout s t rem ver mid ins outs wits lock) : t.slice.len = s.len - rem.len := by
  have := L.cons.len
  unfold Slice.len at *; omega

theorem TxLayout.slice_eq (L : TxLayout s t rem ver mid ins outs wits lock) :
    t.slice = ⟨s.base, s.bytes.take (s.len - rem.len)⟩ := by
  rw [← L.consumed, slice_eta t.slice, L.base]
  congr 1
  rw [L.cons.1]; simp [Slice.len]

theorem stripped_len (L : TxLayout s t rem ver mid ins outs wits lock) :
    (ver ++ ins ++ outs ++ lock).length = ins.length + outs.length + 8 := by
  simp [L.ver_len, L.lock_len]; omega

theorem weight_of_layout (L : TxLayout s t rem ver mid ins outs wits lock) (hs : s.len < 2 ^ 62) :
    t.weight = .ok (3 * (ver ++ ins ++ outs ++ lock).length + t.slice.len) := by
  have hl := L.len
  have hle := L.len_le
  rw [stripped_len L]
  unfold TxV.weight
  rcases L.form with ⟨hio, hm, hw⟩ | ⟨hio, hm⟩
  · rw [hio]
    simp only [hm, hw, List.length_nil] at hl
    simp only
    rw [mulU_ok (by omega)]
    congr 1; omega
  · rw [hio]
    simp only [hm] at hl
    simp only
    rw [addU_ok (by omega)]
    simp only [Res.bind_ok]
    rw [addU_ok (by omega)]
    simp only [Res.bind_ok]
    rw [mulU_ok (by omega)]
    simp only [Res.bind_ok]
    rw [addU_ok (by omega)]
    congr 1; omega

theorem preimage_of_layout (L : TxLayout s t rem ver mid ins outs wits lock) (hs : s.len < 2 ^ 62) :
    t.preimageBytes = .ok (ver ++ ins ++ outs ++ lock) := by
  have hl := L.len
  have hle := L.len_le
  unfold TxV.preimageBytes TxV.txidPreimage
  rcases L.form with ⟨hio, hm, hw⟩ | ⟨hio, hm⟩
  · rw [hio]
    simp only [Res.pure_eq, Res.bind_ok, Slice.staticEmpty, List.append_nil]
    rw [L.bytes, hm, hw]; simp
  · rw [hio]
    simp only [hm, List.length_cons, List.length_nil] at hl
    simp only
    have h1 : t.slice.to_ 4 = .ok ⟨t.slice.base, ver⟩ := by
      unfold Slice.to_
      rw [if_pos (by omega), L.bytes]
      simp only [List.append_assoc]
      rw [take_append_len _ _ L.ver_len]
    rw [h1]
    simp only [Res.bind_ok]
    rw [addU_ok (by omega)]
    simp only [Res.bind_ok]
    have h2 : t.slice.range 6 (ins.length + outs.length + 6) = .ok ⟨t.slice.base + 6, ins ++ outs⟩ := by
      unfold Slice.range
      rw [if_pos (by omega), L.bytes, hm]
      have e : ver ++ [0x00, 0x01] ++ ins ++ outs ++ wits ++ lock =
          (ver ++ [0x00, 0x01]) ++ (ins ++ outs) ++ (wits ++ lock) := by simp
      rw [e, show ins.length + outs.length + 6 - 6 = ins.length + outs.length by omega,
        take_drop_mid _ _ _ (by simp [L.ver_len]) (by simp)]
    rw [h2]
    simp only [Res.bind_ok]
    unfold subU
    rw [if_pos (by omega)]
    simp only [Res.bind_ok]
    have h3 : t.slice.from_ (t.slice.len - 4) = .ok ⟨t.slice.base + (t.slice.len - 4), lock⟩ := by
      unfold Slice.from_
      rw [if_pos (by omega)]
      unfold Slice.len
      rw [L.bytes, drop_len_sub _ _ L.lock_len]
    rw [h3]
    simp

theorem version_of_layout (L : TxLayout s t rem ver mid ins outs wits lock) :
    t.version = .ok (toI32 (leN ver)) := by
  have hl := L.len
  unfold TxV.version
  have h1 : t.slice.to_ 4 = .ok ⟨t.slice.base, ver⟩ := by
    unfold Slice.to_
    rw [if_pos (by omega), L.bytes]
    simp only [List.append_assoc]
    rw [take_append_len _ _ L.ver_len]
  rw [h1]
  simp only [Res.bind_ok]
  unfold Num.readI32
  have := read_append 4 t.slice.base ver [] L.ver_len
  rw [List.append_nil] at this
  rw [this]

theorem locktime_of_layout (L : TxLayout s t rem ver mid ins outs wits lock) :
    t.locktime = .ok (leN lock) := by
  have hl := L.len
  unfold TxV.locktime subU
  rw [if_pos (by omega)]
  simp only [Res.bind_ok]
  have h3 : t.slice.from_ (t.slice.len - 4) = .ok ⟨t.slice.base + (t.slice.len - 4), lock⟩ := by
    unfold Slice.from_
    rw [if_pos (by omega)]
    unfold Slice.len
    rw [L.bytes, drop_len_sub _ _ L.lock_len]
  rw [h3]
  simp only [Res.bind_ok]
  have := read_append 4 (t.slice.base + (t.slice.len - 4)) lock [] L.lock_len
  rw [List.append_nil] at this
  rw [this]

end BS.Acc
