import BS.Lemmas.StabDec
/-
  Extension stability (`Ext`) of the callback-making L2 decoders: loops by induction on the count, the rest by sequencing.
-/
namespace BS.Stab
open BS BS.Spec

theorem ext_decTxInsLoop (n : Nat) : ∀ (i : Nat) (s : Slice) (x : Bytes),
    Ext (fun r => extS r x) (decTxInsLoop n i s) (decTxInsLoop n i (extS s x)) := by
  induction n with
  | zero => intro i s x; exact Ext.pure rfl
  | succ n ih =>
    intro i s x
    simp only [decTxInsLoop]
    refine Ext.bind (Ext.lift (ext_decTxIn s x)) ?_
    rintro ⟨t, r⟩ _
    refine Ext.bind (Ext.emit _) ?_
    intro _ _
    exact ih (i + 1) r x

theorem ext_decTxIns (s : Slice) (x : Bytes) : Ext (eP x) (decTxIns s) (decTxIns (extS s x)) := by
  unfold decTxIns
  refine Ext.bind (Ext.lift (ext_decCompact s x)) ?_
  rintro ⟨n, r⟩ _
  refine Ext.bind (Ext.emit _) ?_
  intro _ _
  refine Ext.bind (ext_decTxInsLoop n 0 r x) ?_
  intro rem _
  apply Ext.pure
  simp only [eP_mk, viewOf_ext]

theorem ext_decTxOutsLoop (n : Nat) : ∀ (i : Nat) (s : Slice) (x : Bytes),
    Ext (fun r => extS r x) (decTxOutsLoop n i s) (decTxOutsLoop n i (extS s x)) := by
  induction n with
  | zero => intro i s x; exact Ext.pure rfl
  | succ n ih =>
    intro i s x
    simp only [decTxOutsLoop]
    refine Ext.bind (Ext.lift (ext_decTxOut s x)) ?_
    rintro ⟨t, r⟩ _
    refine Ext.bind (Ext.emit _) ?_
    intro _ _
    exact ih (i + 1) r x

theorem ext_decTxOuts (s : Slice) (x : Bytes) : Ext (eP x) (decTxOuts s) (decTxOuts (extS s x)) := by
  unfold decTxOuts
  refine Ext.bind (Ext.lift (ext_decCompact s x)) ?_
  rintro ⟨n, r⟩ _
  refine Ext.bind (Ext.emit _) ?_
  intro _ _
  refine Ext.bind (ext_decTxOutsLoop n 0 r x) ?_
  intro rem _
  apply Ext.pure
  simp only [eP_mk, viewOf_ext]

theorem ext_decWitnessLoop (n : Nat) : ∀ (i : Nat) (s : Slice) (x : Bytes),
    Ext (fun r => extS r x) (decWitnessLoop n i s) (decWitnessLoop n i (extS s x)) := by
  induction n with
  | zero => intro i s x; exact Ext.pure rfl
  | succ n ih =>
    intro i s x
    simp only [decWitnessLoop]
    refine Ext.bind (Ext.lift (ext_decCompact s x)) ?_
    rintro ⟨len, r⟩ _
    refine Ext.bind (Ext.lift (ext_takeN r len x)) ?_
    rintro ⟨el, r'⟩ _
    refine Ext.bind (Ext.emit _) ?_
    intro _ _
    exact ih (i + 1) r' x

theorem ext_decWitness (s : Slice) (x : Bytes) : Ext (eP3 x) (decWitness s) (decWitness (extS s x)) := by
  unfold decWitness
  refine Ext.bind (Ext.lift (ext_decCompact s x)) ?_
  rintro ⟨n, r⟩ _
  refine Ext.bind (Ext.emit _) ?_
  intro _ _
  refine Ext.bind (ext_decWitnessLoop n 0 r x) ?_
  intro rem _
  apply Ext.pure
  simp only [eP3_mk, viewOf_ext]

theorem ext_decWitnessesLoop (n : Nat) : ∀ (i : Nat) (s : Slice) (ae : Bool) (x : Bytes),
    Ext (ePl x) (decWitnessesLoop n i s ae) (decWitnessesLoop n i (extS s x) ae) := by
  induction n with
  | zero => intro i s ae x; exact Ext.pure rfl
  | succ n ih =>
    intro i s ae x
    simp only [decWitnessesLoop]
    refine Ext.bind (Ext.emit _) ?_
    intro _ _
    refine Ext.bind (ext_decWitness s x) ?_
    rintro ⟨w, em, r⟩ _
    refine Ext.bind (Ext.emit _) ?_
    intro _ _
    exact ih (i + 1) r _ x

theorem ext_decWitnesses (n : Nat) (s : Slice) (x : Bytes) :
    Ext (eP x) (decWitnesses s n) (decWitnesses (extS s x) n) := by
  unfold decWitnesses
  refine Ext.bind (ext_decWitnessesLoop n 0 s true x) ?_
  rintro ⟨rem, ae⟩ _
  apply Ext.pure
  simp only [eP_mk, viewOf_ext]

theorem ext_decHeader (s : Slice) (x : Bytes) : Ext (eP x) (decHeader s) (decHeader (extS s x)) := by
  unfold decHeader
  refine Ext.bind (Ext.lift (ext_takeN s 80 x)) ?_
  rintro ⟨p, rem⟩ _
  refine Ext.bind (Ext.emit _) ?_
  intro _ _
  exact Ext.pure rfl

theorem ext_decTransaction (s : Slice) (x : Bytes) : Ext (eP x) (decTransaction s) (decTransaction (extS s x)) := by
  unfold decTransaction
  refine Ext.bind (Ext.lift (ext_decLE 4 s x)) ?_
  rintro ⟨ver, s4⟩ _
  refine Ext.bind (ext_decTxIns s4 x) ?_
  rintro ⟨ins, r⟩ _
  dsimp only [eP_mk]
  by_cases h0 : ins.n = 0
  · rw [if_pos h0, if_pos h0]
    refine Ext.bind (Ext.lift (ext_decLE 1 r x)) ?_
    rintro ⟨flag, r1⟩ _
    dsimp only [eP_mk]
    by_cases h1 : flag = 1
    · rw [if_pos h1, if_pos h1]
      refine Ext.bind (ext_decTxIns r1 x) ?_
      rintro ⟨ins2, r2⟩ _
      refine Ext.bind (ext_decTxOuts r2 x) ?_
      rintro ⟨outs, r3⟩ _
      refine Ext.bind (ext_decWitnesses ins2.n r3 x) ?_
      rintro ⟨wits, r4⟩ _
      dsimp only [eP_mk]
      by_cases h2 : ins2.n ≠ 0 ∧ wits.allEmpty = true
      · rw [if_pos h2, if_pos h2]
        refine Ext.err _ ?_
        simp
      · rw [if_neg h2, if_neg h2]
        refine Ext.bind (Ext.lift (ext_decLE 4 r4 x)) ?_
        rintro ⟨lock, rem⟩ _
        dsimp only [eP_mk]
        rw [viewOf_ext]
        refine Ext.bind (Ext.emit _) ?_
        intro _ _
        exact Ext.pure rfl
    · rw [if_neg h1, if_neg h1]
      refine Ext.err _ ?_
      simp
  · rw [if_neg h0, if_neg h0]
    refine Ext.bind (ext_decTxOuts r x) ?_
    rintro ⟨outs, r1⟩ _
    refine Ext.bind (Ext.lift (ext_decLE 4 r1 x)) ?_
    rintro ⟨lock, rem⟩ _
    dsimp only [eP_mk]
    rw [viewOf_ext]
    refine Ext.bind (Ext.emit _) ?_
    intro _ _
    exact Ext.pure rfl

theorem ext_decBlockLoop (n : Nat) : ∀ (s : Slice) (x : Bytes),
    Ext (fun r => extS r x) (decBlockLoop n s) (decBlockLoop n (extS s x)) := by
  induction n with
  | zero => intro s x; exact Ext.pure rfl
  | succ n ih =>
    intro s x
    simp only [decBlockLoop]
    refine Ext.bind (ext_decTransaction s x) ?_
    rintro ⟨t, r⟩ _
    exact ih r x

theorem ext_decBlock (s : Slice) (x : Bytes) : Ext (eP x) (decBlock s) (decBlock (extS s x)) := by
  unfold decBlock
  refine Ext.bind (ext_decHeader s x) ?_
  rintro ⟨h, r⟩ _
  refine Ext.bind (Ext.lift (ext_decCompact r x)) ?_
  rintro ⟨n, r1⟩ _
  refine Ext.bind (Ext.emit _) ?_
  intro _ _
  refine Ext.bind (ext_decBlockLoop n r1 x) ?_
  intro rem _
  apply Ext.pure
  simp only [eP_mk, viewOf_ext]

end BS.Stab
