import BS.Lemmas.FinTrace
import BS.Lemmas.RefProps
/-
  helper lemmas for C19: how the `FindTransaction` visitor (`findVisitor`, BS/Impl/Extra.lean) reacts to a callback
  sequence.
-/
namespace BS.Fin
open BS BS.Spec BS.Ref

/-- the txid from the preimage, without evaluating the hash -/
theorem txid_of_preimage {t : TxV} {p : Bytes} (h : t.preimageBytes = .ok p) : t.txid = .ok (Sha256.sha256d p) := by
  unfold TxV.txid
  rw [h]; rfl

/-! ### one callback -/

theorem find_step_hit {st : FindSt} {tx : TxV} (h : tx.txid = .ok st.toFind) :
    findVisitor.step st (.transaction tx) = ({ st with found := some tx.slice.bytes }, true) := by
  simp only [findVisitor, h, if_true]

theorem find_step_miss {st : FindSt} {tx : TxV} {id' : Bytes} (h : tx.txid = .ok id') (hne : id' ≠ st.toFind) :
    findVisitor.step st (.transaction tx) = (st, false) := by
  simp only [findVisitor, h]
  rw [if_neg (fun e => hne e.symm)]

theorem find_step_other {st : FindSt} {e : Event} (h : isTx e = false) : findVisitor.step st e = (st, false) := by
  cases e <;> first | rfl | (simp [isTx] at h)

/-- `es` holds no transaction with id `id`, and `txid()` works on every transaction in it -/
def Quiet (id : Bytes) (es : List Event) : Prop :=
  ∀ tx, Event.transaction tx ∈ es → ∃ id', tx.txid = .ok id' ∧ id' ≠ id

theorem Quiet.nil (id : Bytes) : Quiet id [] := fun _ h => by cases h

theorem Quiet.tail {id : Bytes} {e : Event} {es : List Event} (h : Quiet id (e :: es)) : Quiet id es :=
  fun tx hm => h tx (List.mem_cons_of_mem _ hm)

theorem Quiet.take {id : Bytes} {es : List Event} (h : Quiet id es) (j : Nat) : Quiet id (es.take j) :=
  fun tx hm => h tx (List.mem_of_mem_take hm)

theorem find_step_quiet {st : FindSt} {e : Event}
    (h : ∀ tx, e = Event.transaction tx → ∃ id', tx.txid = .ok id' ∧ id' ≠ st.toFind) :
    findVisitor.step st e = (st, false) := by
  cases he : isTx e with
  | false => exact find_step_other he
  | true =>
    cases e <;> simp only [isTx, reduceCtorEq] at he
    rename_i tx
    obtain ⟨id', h1, h2⟩ := h tx rfl
    exact find_step_miss h1 h2

/-! ### a sequence of callbacks without the wanted transaction changes nothing and never breaks -/

theorem find_feed_quiet {st : FindSt} : ∀ {es : List Event}, Quiet st.toFind es → feed findVisitor st es = st := by
  intro es
  induction es with
  | nil => intro _; rfl
  | cons e es ih =>
    intro h
    rw [feed_cons, find_step_quiet (fun tx he => h tx (by rw [he]; exact List.mem_cons_self))]
    exact ih h.tail

theorem find_noBreak_quiet {st : FindSt} {es : List Event} (h : Quiet st.toFind es) : NoBreak findVisitor st es := by
  intro j hj _
  rw [find_feed_quiet (h.take j), find_step_quiet (fun tx he => h tx (by rw [← he]; exact List.getElem_mem hj))]

/-! ### first occurrence -/

/-- position `i` of `t` holds `transaction tx` with id `id`, and no earlier `transaction` callback has that id -/
def FirstAt (t : List Event) (id : Bytes) (i : Nat) (tx : TxV) : Prop :=
  t[i]? = some (.transaction tx) ∧ tx.txid = .ok id ∧
    ∀ j tx', j < i → t[j]? = some (.transaction tx') → tx'.txid ≠ .ok id

theorem exists_firstAt : ∀ {t : List Event} {id : Bytes},
    (∃ tx, Event.transaction tx ∈ t ∧ tx.txid = .ok id) → ∃ i tx, FirstAt t id i tx := by
  intro t id
  induction t with
  | nil => rintro ⟨tx, h, _⟩; cases h
  | cons e t ih =>
    rintro ⟨tx, hm, hid⟩
    by_cases h0 : ∃ tx0, e = Event.transaction tx0 ∧ tx0.txid = .ok id
    · obtain ⟨tx0, rfl, hid0⟩ := h0
      exact ⟨0, tx0, rfl, hid0, fun j _ hj => by omega⟩
    · have hm' : Event.transaction tx ∈ t := by
        rcases List.mem_cons.1 hm with h | h
        · exact absurd ⟨tx, h.symm, hid⟩ h0
        · exact h
      obtain ⟨i, tx1, h1, h2, h3⟩ := ih ⟨tx, hm', hid⟩
      refine ⟨i + 1, tx1, by simpa using h1, h2, ?_⟩
      intro j tx' hj hg
      cases j with
      | zero =>
        simp only [List.getElem?_cons_zero, Option.some.injEq] at hg
        intro hx
        exact h0 ⟨tx', hg, hx⟩
      | succ j => exact h3 j tx' (by omega) (by simpa using hg)

theorem FirstAt.lt {t : List Event} {id : Bytes} {i : Nat} {tx : TxV} (h : FirstAt t id i tx) : i < t.length := by
  have := h.1
  by_cases hi : i < t.length
  · exact hi
  · rw [List.getElem?_eq_none (by omega)] at this; cases this

theorem FirstAt.mem {t : List Event} {id : Bytes} {i : Nat} {tx : TxV} (h : FirstAt t id i tx) :
    Event.transaction tx ∈ t := List.mem_of_getElem? h.1

/-- what the search does on a callback sequence whose transactions all have a txid, when position `i` is the first
    match: it stops there with `VisitBreak`, having stored that transaction's bytes -/
theorem find_run_found {α} (d : D α) {id : Bytes} {i : Nat} {tx : TxV}
    (hgood : ∀ tx', Event.transaction tx' ∈ d.trace → ∃ id', tx'.txid = .ok id')
    (h : FirstAt d.trace id i tx) :
    d.run findVisitor ⟨id, none, false⟩ = (⟨id, some tx.slice.bytes, false⟩, .err .visitBreak) := by
  have hi := h.lt
  obtain ⟨h1, h2, h3⟩ := h
  have hget : d.trace[i] = Event.transaction tx := by
    rw [List.getElem?_eq_getElem hi] at h1
    exact Option.some.inj h1
  have hq : Quiet id (d.trace.take i) := by
    intro tx' hm
    obtain ⟨j, hj, hg⟩ := List.mem_iff_getElem.1 hm
    have hj' : j < i := by
      rw [List.length_take] at hj; omega
    rw [List.getElem_take] at hg
    have hmem : Event.transaction tx' ∈ d.trace := by rw [← hg]; exact List.getElem_mem _
    obtain ⟨id', hid'⟩ := hgood tx' hmem
    refine ⟨id', hid', ?_⟩
    rintro rfl
    exact h3 j tx' hj' (by rw [List.getElem?_eq_getElem (by omega), hg]) hid'
  have hfeed : feed findVisitor (⟨id, none, false⟩ : FindSt) (d.trace.take i) = ⟨id, none, false⟩ :=
    find_feed_quiet (st := ⟨id, none, false⟩) hq
  have hstep : findVisitor.step (⟨id, none, false⟩ : FindSt) d.trace[i] = (⟨id, some tx.slice.bytes, false⟩, true) := by
    rw [hget]
    exact find_step_hit (st := ⟨id, none, false⟩) h2
  rw [run_break d findVisitor ⟨id, none, false⟩ i hi (by rw [hget]; rfl)
    (find_noBreak_quiet (st := ⟨id, none, false⟩) hq) (by rw [hfeed, hstep])]
  rw [List.take_succ_eq_append_getElem hi, feed_append, hfeed, feed_cons, feed_nil, hstep]

/-- … and when no transaction has the wanted id: nothing is stored, the result is the decoder's own -/
theorem find_run_absent {α} (d : D α) {id : Bytes}
    (hgood : ∀ tx', Event.transaction tx' ∈ d.trace → ∃ id', tx'.txid = .ok id')
    (h : ∀ tx', Event.transaction tx' ∈ d.trace → tx'.txid ≠ .ok id) :
    d.run findVisitor ⟨id, none, false⟩ = (⟨id, none, false⟩, d.res) := by
  have hq : Quiet id d.trace := by
    intro tx' hm
    obtain ⟨id', hid'⟩ := hgood tx' hm
    refine ⟨id', hid', ?_⟩
    rintro rfl
    exact h tx' hm hid'
  rw [run_never d findVisitor ⟨id, none, false⟩ (find_noBreak_quiet (st := ⟨id, none, false⟩) hq),
    find_feed_quiet (st := ⟨id, none, false⟩) hq]

end BS.Fin
