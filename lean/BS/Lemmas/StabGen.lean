import BS.Lemmas.StabD
import BS.Lemmas.StabShape
/-
  What extension stability gives, stated once for an arbitrary decoder, in the shapes the C07 / C02 property files use.
-/
namespace BS.Stab
open BS BS.Spec

/-- a decoder `d` whose runs on `s ++ x` extend its runs on `s`; `sel` finds the remainder inside a result and
    `e x` is "the remainder grows by `x`" -/
structure StableG {α : Type} (e : Bytes → α → α) (sel : α → Slice) (d : Slice → D α) : Prop where
  ext : ∀ s x, Ext (e x) (d s) (d (extS s x))
  sel_e : ∀ x a, sel (e x a) = extS (sel a) x

section general
variable {α : Type} {e : Bytes → α → α} {sel : α → Slice} {d : Slice → D α}

theorem StableG.extend_ok (h : StableG e sel d) {s : Slice} {a : α} (hs : (d s).res = .ok a) (x : Bytes) :
    d (extS s x) = ⟨(d s).trace, .ok (e x a)⟩ := by
  have := (h.ext s x).1 (by rw [hs]; simp)
  rw [this, hs]; rfl

theorem StableG.final_error (h : StableG e sel d) {s : Slice} {er : Error} (hs : (d s).res = .err er)
    (hne : er ≠ .moreBytesNeeded) (x : Bytes) : d (extS s x) = d s := by
  have := (h.ext s x).1 (by rw [hs]; simpa using hne)
  rw [this, hs]
  exact D.ext_eq rfl hs.symm

theorem StableG.mbn_downward (h : StableG e sel d) {s : Slice} {x : Bytes}
    (hx : (d (extS s x)).res = .err .moreBytesNeeded) : (d s).res = .err .moreBytesNeeded := by
  apply Classical.byContradiction
  intro hne
  have := (h.ext s x).1 hne
  rw [this] at hx
  simp only at hx
  cases hr : (d s).res with
  | ok a => rw [hr] at hx; cases hx
  | err er => rw [hr] at hx hne; exact hne hx
  | panic q => rw [hr] at hx; cases hx

theorem StableG.trace_prefix (h : StableG e sel d) (s : Slice) (x : Bytes) :
    (d s).trace <+: (d (extS s x)).trace := (h.ext s x).trace_prefix

theorem StableG.prefix_of_ok (h : StableG e sel d) {b : Nat} {p : Bytes} {a : α} (hs : (d ⟨b, p⟩).res = .ok a)
    (j : Nat) (hj : j < p.length - (sel a).len) : (d ⟨b, p.take j⟩).res = .err .moreBytesNeeded := by
  apply Classical.byContradiction
  intro hne
  have hsplit : (⟨b, p⟩ : Slice) = extS ⟨b, p.take j⟩ (p.drop j) := by simp [extS]
  have h1 := (h.ext ⟨b, p.take j⟩ (p.drop j)).1 hne
  rw [← hsplit] at h1
  rw [h1] at hs
  simp only at hs
  cases hr : (d ⟨b, p.take j⟩).res with
  | ok a0 =>
    rw [hr] at hs
    simp only [map'_ok, Res.ok.injEq] at hs
    subst hs
    rw [h.sel_e] at hj
    simp only [extS_len, List.length_drop] at hj
    omega
  | err er => rw [hr] at hs; cases hs
  | panic q => rw [hr] at hs; cases hs

end general

/-! ### decoders returning (object, remainder) -/

theorem stableG_pair {α : Type} {d : Slice → D (α × Slice)} (h : ∀ s x, Ext (eP x) (d s) (d (extS s x))) :
    StableG eP Prod.snd d := ⟨h, fun _ _ => rfl⟩

theorem stableG_pure {α : Type} {p : Slice → Res (α × Slice)} (h : ∀ s x, ExtR (eP x) (p s) (p (extS s x))) :
    StableG eP Prod.snd (fun s => D.lift (p s)) := ⟨fun s x => Ext.lift (h s x), fun _ _ => rfl⟩

theorem stableG_triple {α β : Type} {d : Slice → D (α × β × Slice)} (h : ∀ s x, Ext (eP3 x) (d s) (d (extS s x))) :
    StableG eP3 (fun p => p.2.2) d := ⟨h, fun _ _ => rfl⟩

section pair
variable {α : Type} {d : Slice → D (α × Slice)}

theorem D_extend_ok (h : ∀ s x, Ext (eP x) (d s) (d (extS s x))) {b : Nat} {p : Bytes} {o : α} {rem : Slice}
    (hs : (d ⟨b, p⟩).res = .ok (o, rem)) (x : Bytes) :
    d ⟨b, p ++ x⟩ = ⟨(d ⟨b, p⟩).trace, .ok (o, ⟨rem.base, rem.bytes ++ x⟩)⟩ :=
  (stableG_pair h).extend_ok hs x

theorem D_final_error (h : ∀ s x, Ext (eP x) (d s) (d (extS s x))) {b : Nat} {p : Bytes} {er : Error}
    (hs : (d ⟨b, p⟩).res = .err er) (hne : er ≠ .moreBytesNeeded) (x : Bytes) : d ⟨b, p ++ x⟩ = d ⟨b, p⟩ :=
  (stableG_pair h).final_error hs hne x

theorem D_mbn_downward (h : ∀ s x, Ext (eP x) (d s) (d (extS s x))) {b : Nat} {p x : Bytes}
    (hx : (d ⟨b, p ++ x⟩).res = .err .moreBytesNeeded) : (d ⟨b, p⟩).res = .err .moreBytesNeeded :=
  (stableG_pair h).mbn_downward (s := ⟨b, p⟩) hx

theorem D_prefix_of_ok (h : ∀ s x, Ext (eP x) (d s) (d (extS s x))) {b : Nat} {p : Bytes} {o : α} {rem : Slice}
    (hs : (d ⟨b, p⟩).res = .ok (o, rem)) (j : Nat) (hj : j < p.length - rem.bytes.length) :
    (d ⟨b, p.take j⟩).res = .err .moreBytesNeeded :=
  (stableG_pair h).prefix_of_ok hs j hj

theorem D_trace_prefix (h : ∀ s x, Ext (eP x) (d s) (d (extS s x))) (b : Nat) (p x : Bytes) :
    (d ⟨b, p⟩).trace <+: (d ⟨b, p ++ x⟩).trace :=
  (stableG_pair h).trace_prefix ⟨b, p⟩ x
end pair

section pure
variable {α : Type} {f : Slice → Res (α × Slice)}

theorem R_extend_ok (h : ∀ s x, ExtR (eP x) (f s) (f (extS s x))) {b : Nat} {p : Bytes} {o : α} {rem : Slice}
    (hs : f ⟨b, p⟩ = .ok (o, rem)) (x : Bytes) : f ⟨b, p ++ x⟩ = .ok (o, ⟨rem.base, rem.bytes ++ x⟩) :=
  congrArg D.res ((stableG_pure h).extend_ok (s := ⟨b, p⟩) hs x)

theorem R_final_error (h : ∀ s x, ExtR (eP x) (f s) (f (extS s x))) {b : Nat} {p : Bytes} {er : Error}
    (hs : f ⟨b, p⟩ = .err er) (hne : er ≠ .moreBytesNeeded) (x : Bytes) : f ⟨b, p ++ x⟩ = f ⟨b, p⟩ :=
  congrArg D.res ((stableG_pure h).final_error (s := ⟨b, p⟩) hs hne x)

theorem R_mbn_downward (h : ∀ s x, ExtR (eP x) (f s) (f (extS s x))) {b : Nat} {p x : Bytes}
    (hx : f ⟨b, p ++ x⟩ = .err .moreBytesNeeded) : f ⟨b, p⟩ = .err .moreBytesNeeded :=
  (stableG_pure h).mbn_downward (s := ⟨b, p⟩) hx

theorem R_prefix_of_ok (h : ∀ s x, ExtR (eP x) (f s) (f (extS s x))) {b : Nat} {p : Bytes} {o : α} {rem : Slice}
    (hs : f ⟨b, p⟩ = .ok (o, rem)) (j : Nat) (hj : j < p.length - rem.bytes.length) :
    f ⟨b, p.take j⟩ = .err .moreBytesNeeded :=
  (stableG_pure h).prefix_of_ok (b := b) (p := p) hs j hj
end pure

/-! ### the formulation of the task description -/

/-- the same result with the remainder grown by `x` -/
def extendR {α : Type} (x : Bytes) : Res (α × Slice) → Res (α × Slice)
  | .ok (a, r) => .ok (a, ⟨r.base, r.bytes ++ x⟩)
  | .err e => .err e
  | .panic q => .panic q

theorem extendR_eq {α : Type} (x : Bytes) (r : Res (α × Slice)) : extendR x r = Res.map' (eP x) r := by
  cases r with
  | ok a => obtain ⟨a, r⟩ := a; rfl
  | err e => rfl
  | panic q => rfl

def Stable {α : Type} (p : Slice → Res (α × Slice)) : Prop :=
  ∀ b bs x, p ⟨b, bs⟩ ≠ .err .moreBytesNeeded → p ⟨b, bs ++ x⟩ = extendR x (p ⟨b, bs⟩)

def StableD {α : Type} (d : Slice → D (α × Slice)) : Prop :=
  ∀ b bs x,
    ((d ⟨b, bs⟩).res ≠ .err .moreBytesNeeded → d ⟨b, bs ++ x⟩ = ⟨(d ⟨b, bs⟩).trace, extendR x (d ⟨b, bs⟩).res⟩) ∧
    ((d ⟨b, bs⟩).res = .err .moreBytesNeeded → (d ⟨b, bs⟩).trace <+: (d ⟨b, bs ++ x⟩).trace)

theorem stable_of_ext {α : Type} {p : Slice → Res (α × Slice)} (h : ∀ s x, ExtR (eP x) (p s) (p (extS s x))) :
    Stable p := by
  intro b bs x hne
  rw [extendR_eq]
  exact h ⟨b, bs⟩ x hne

theorem stableD_of_ext {α : Type} {d : Slice → D (α × Slice)} (h : ∀ s x, Ext (eP x) (d s) (d (extS s x))) :
    StableD d := by
  intro b bs x
  rw [extendR_eq]
  exact h ⟨b, bs⟩ x

end BS.Stab
