import BS.Lemmas.CacheBasic
/-
  Helper lemmas for the ring-buffer cache, part 2:
  ghost entries, the contiguity predicate `Chain` (which ignores zero-length ranges), the layout `Lay`,
  the invariant `InvG`, and the effect of the three phases of `insertCore` on the layout.
-/
namespace BS
namespace CacheProof
open Cache

variable {κ : Type} [DecidableEq κ]

/-- a ghost entry: key, the range it occupies, the bytes inserted -/
structure Ent (κ : Type) where
  key : κ
  rng : Range
  val : Bytes

namespace Ent
def kr (g : Ent κ) : κ × Range := (g.key, g.rng)
def kv (g : Ent κ) : κ × Bytes := (g.key, g.val)
end Ent

omit [DecidableEq κ] in
@[simp] theorem map_kr_fst (G : List (Ent κ)) : (G.map Ent.kr).map Prod.fst = G.map Ent.key := by
  simp [List.map_map, Function.comp_def, Ent.kr]
omit [DecidableEq κ] in
@[simp] theorem map_kr_snd (G : List (Ent κ)) : (G.map Ent.kr).map Prod.snd = G.map Ent.rng := by
  simp [List.map_map, Function.comp_def, Ent.kr]
omit [DecidableEq κ] in
@[simp] theorem map_kv_fst (G : List (Ent κ)) : (G.map Ent.kv).map Prod.fst = G.map Ent.key := by
  simp [List.map_map, Function.comp_def, Ent.kv]

/-! ### contiguity, ignoring zero-length ranges -/

/-- the ranges that occupy storage are laid out contiguously from `s` to `e` (zero-length ranges may sit anywhere) -/
def Chain : Nat → List Range → Nat → Prop
  | s, [], e => s = e
  | s, r :: rs, e =>
    (r.begin_ = r.end_ ∧ Chain s rs e) ∨ (r.begin_ < r.end_ ∧ r.begin_ = s ∧ Chain r.end_ rs e)

theorem chain_le : ∀ {rs : List Range} {s e : Nat}, Chain s rs e → s ≤ e
  | [], _, _, h => Nat.le_of_eq h
  | _ :: _, _, _, h => by
    rcases h with ⟨_, h⟩ | ⟨h1, h2, h⟩
    · exact chain_le h
    · have := chain_le h; omega

/-- every storage-occupying range of a chain lies inside `[s, e]` -/
theorem chain_mem : ∀ {rs : List Range} {s e : Nat}, Chain s rs e →
    ∀ r ∈ rs, r.begin_ ≠ r.end_ → s ≤ r.begin_ ∧ r.begin_ < r.end_ ∧ r.end_ ≤ e
  | [], _, _, _, _, hr, _ => by cases hr
  | r0 :: rs, s, e, h, r, hr, hne => by
    rcases h with ⟨h0, h⟩ | ⟨h1, h2, h⟩
    · rcases List.mem_cons.1 hr with rfl | hr
      · exact absurd h0 hne
      · exact chain_mem h r hr hne
    · rcases List.mem_cons.1 hr with rfl | hr
      · have := chain_le h; omega
      · have := chain_mem h r hr hne; omega

theorem chain_append : ∀ {a b : List Range} {s e : Nat},
    Chain s (a ++ b) e ↔ ∃ m, Chain s a m ∧ Chain m b e
  | [], b, s, e => by simp [Chain]
  | r :: a, b, s, e => by
    simp only [List.cons_append, Chain, chain_append (a := a)]
    constructor
    · rintro (⟨h0, m, h1, h2⟩ | ⟨h0, h0', m, h1, h2⟩)
      · exact ⟨m, Or.inl ⟨h0, h1⟩, h2⟩
      · exact ⟨m, Or.inr ⟨h0, h0', h1⟩, h2⟩
    · rintro ⟨m, (⟨h0, h1⟩ | ⟨h0, h0', h1⟩), h2⟩
      · exact Or.inl ⟨h0, m, h1, h2⟩
      · exact Or.inr ⟨h0, h0', m, h1, h2⟩

theorem chain_of_allEmpty : ∀ {rs : List Range} (s : Nat), (∀ r ∈ rs, r.begin_ = r.end_) → Chain s rs s
  | [], _, _ => rfl
  | r :: _, s, h =>
    Or.inl ⟨h r List.mem_cons_self, chain_of_allEmpty s (fun r' hr' => h r' (List.mem_cons_of_mem _ hr'))⟩

theorem chain_drop : ∀ {rs : List Range} {s e : Nat} (n : Nat), Chain s rs e →
    ∃ s', s ≤ s' ∧ Chain s' (rs.drop n) e
  | _, s, e, 0, h => ⟨s, Nat.le_refl _, by simpa using h⟩
  | [], s, e, n + 1, h => ⟨s, Nat.le_refl _, by simpa using h⟩
  | r :: rs, s, e, n + 1, h => by
    simp only [List.drop_succ_cons]
    rcases h with ⟨_, h⟩ | ⟨h1, h2, h⟩
    · exact chain_drop n h
    · obtain ⟨s', hs, hc⟩ := chain_drop n h
      exact ⟨s', by omega, hc⟩

/-- the storage-occupying ranges of a chain are pairwise ordered -/
theorem chain_pairwise : ∀ {rs : List Range} {s e : Nat}, Chain s rs e →
    rs.Pairwise (fun a b => a.begin_ ≠ a.end_ → b.begin_ ≠ b.end_ → a.end_ ≤ b.begin_)
  | [], _, _, _ => List.Pairwise.nil
  | r :: rs, s, e, h => by
    rcases h with ⟨h0, h⟩ | ⟨h1, h2, h⟩
    · exact List.Pairwise.cons (fun b _ ha => absurd h0 ha) (chain_pairwise h)
    · exact List.Pairwise.cons (fun b hb _ hne => (chain_mem h b hb hne).1) (chain_pairwise h)

/-! ### eviction on chains -/

theorem evictN_none (r : Range) : ∀ (rs : List Range) (i : Nat),
    (∀ g ∈ rs, g.begin_ ≠ g.end_ → r.overlaps g = false) → evictN r rs i = 0
  | [], _, _ => rfl
  | g :: rs, i, h => by
    simp only [evictN]
    split
    · exact evictN_none r rs (i + 1) (fun g' hg' => h g' (List.mem_cons_of_mem _ hg'))
    · rename_i hne
      simp [h g List.mem_cons_self hne]

theorem evictN_append_none (r : Range) (b : List Range) (hb : ∀ j, evictN r b j = 0) :
    ∀ (a : List Range) (i : Nat), evictN r (a ++ b) i = evictN r a i
  | [], i => by simp [evictN, hb]
  | g :: a, i => by
    simp only [List.cons_append, evictN, evictN_append_none r b hb a]

/-- after evicting for the range about to be written, the surviving old chain starts after it -/
theorem chain_after_evict_write {fp len cap : Nat} (hfit : fp + len ≤ cap) (rest : List Range) :
    ∀ (rs : List Range) (s e i : Nat), Chain s rs e → fp ≤ s → e ≤ cap →
      scanSpec ⟨fp, fp + len⟩ (rs ++ rest) i = 0 →
      ∃ s' e', fp + len ≤ s' ∧ Chain s' rs e' ∧ e' ≤ cap ∧ (e' = e ∨ ∀ r ∈ rs, r.begin_ = r.end_)
  | [], _, _, _, _, _, _, _ => ⟨cap, cap, hfit, rfl, Nat.le_refl _, Or.inr (by simp)⟩
  | r :: rs, s, e, i, h, hs, he, hsc => by
    rcases h with ⟨h0, h⟩ | ⟨h1, h2, h⟩
    · simp only [List.cons_append, scanSpec, h0, if_true] at hsc
      obtain ⟨s', e', h1, h2, h3, h4⟩ := chain_after_evict_write hfit rest rs s e (i + 1) h hs he hsc
      refine ⟨s', e', h1, Or.inl ⟨h0, h2⟩, h3, ?_⟩
      rcases h4 with h4 | h4
      · exact Or.inl h4
      · refine Or.inr (fun r' hr' => ?_)
        rcases List.mem_cons.1 hr' with rfl | hr'
        · exact h0
        · exact h4 r' hr'
    · have hne : r.begin_ ≠ r.end_ := by omega
      simp only [List.cons_append, scanSpec, hne, if_false] at hsc
      split at hsc
      · omega
      · rename_i hno
        simp only [Range.overlaps, Bool.and_eq_true, decide_eq_true_eq, not_and] at hno
        refine ⟨s, e, ?_, Or.inr ⟨h1, h2, h⟩, he, Or.inl rfl⟩
        have := hno (by omega)
        omega

/-- after evicting for the tail `[fp, cap)`, no surviving old range occupies storage -/
theorem chain_after_evict_tail {fp cap : Nat} (rest : List Range) :
    ∀ (rs : List Range) (s e i : Nat), Chain s rs e → fp ≤ s → e ≤ cap →
      scanSpec ⟨fp, cap⟩ (rs ++ rest) i = 0 → ∀ r ∈ rs, r.begin_ = r.end_
  | [], _, _, _, _, _, _, _ => by simp
  | r :: rs, s, e, i, h, hs, he, hsc => by
    rcases h with ⟨h0, h⟩ | ⟨h1, h2, h⟩
    · simp only [List.cons_append, scanSpec, h0, if_true] at hsc
      have ih := chain_after_evict_tail rest rs s e (i + 1) h hs he hsc
      intro r' hr'
      rcases List.mem_cons.1 hr' with rfl | hr'
      · exact h0
      · exact ih r' hr'
    · have hne : r.begin_ ≠ r.end_ := by omega
      have hle := chain_le h
      simp only [List.cons_append, scanSpec, hne, if_false] at hsc
      split at hsc
      · omega
      · rename_i hno
        simp only [Range.overlaps, Bool.and_eq_true, decide_eq_true_eq, not_and] at hno
        have := hno (by omega)
        omega

/-- a chain that starts at offset 0 and is not empty is hit by any non-empty write at offset 0 -/
theorem scanSpec_chain_zero {len : Nat} (hlen : 0 < len) :
    ∀ (rs : List Range) (e i : Nat), Chain 0 rs e → 0 < e → scanSpec ⟨0, len⟩ rs i ≠ 0
  | [], e, _, h, he => by simp only [Chain] at h; omega
  | r :: rs, e, i, h, he => by
    rcases h with ⟨h0, h⟩ | ⟨h1, h2, h⟩
    · simp only [scanSpec, h0, if_true]
      exact scanSpec_chain_zero hlen rs e (i + 1) h he
    · have hne : r.begin_ ≠ r.end_ := by omega
      have : Range.overlaps ⟨0, len⟩ r = true := by
        simp only [Range.overlaps, Bool.and_eq_true, decide_eq_true_eq]; omega
      simp [scanSpec, hne, this]

/-! ### the layout -/

/-- the layout of the live entries `old ++ new` (oldest first) for free pointer `fp`, capacity `cap`, flag `full`:
    the entries written since the last wrap are contiguous from offset 0 to `fp`; the older ones are contiguous
    from `os ≥ fp` to `oe ≤ cap`; before the first wrap no older entry occupies storage -/
def Lay (fp cap : Nat) (full : Bool) (old new : List (Ent κ)) (os oe : Nat) : Prop :=
  Chain 0 (new.map Ent.rng) fp ∧ fp ≤ os ∧ Chain os (old.map Ent.rng) oe ∧ oe ≤ cap ∧
  (full = false → ∀ g ∈ old, g.rng.begin_ = g.rng.end_)

omit [DecidableEq κ] in
/-- the new entries are never hit by an eviction range that starts at `fp` -/
theorem evictN_new_zero {fp : Nat} {new : List (Ent κ)} (h : Chain 0 (new.map Ent.rng) fp) (hi : Nat) (j : Nat) :
    evictN ⟨fp, hi⟩ (new.map Ent.rng) j = 0 := by
  apply evictN_none
  intro g hg hne
  have := chain_mem h g hg hne
  simp only [Range.overlaps, Bool.and_eq_false_imp, decide_eq_true_eq, decide_eq_false_iff_not]
  omega

omit [DecidableEq κ] in
/-- phase B of `insertCore` (evict for the range about to be written), on the layout -/
theorem lay_evict_write {fp cap len : Nat} {full : Bool} {old new : List (Ent κ)} {os oe : Nat}
    (h : Lay fp cap full old new os oe) (hfit : fp + len ≤ cap) :
    evictN ⟨fp, fp + len⟩ ((old ++ new).map Ent.rng) 0 = evictN ⟨fp, fp + len⟩ (old.map Ent.rng) 0 ∧
    evictN ⟨fp, fp + len⟩ (old.map Ent.rng) 0 ≤ old.length ∧
    (full = false → evictN ⟨fp, fp + len⟩ (old.map Ent.rng) 0 = 0) ∧
    ∃ os' oe', Lay fp cap full (old.drop (evictN ⟨fp, fp + len⟩ (old.map Ent.rng) 0)) new os' oe' ∧
      fp + len ≤ os' ∧
      (oe' = oe ∨ ∀ g ∈ old.drop (evictN ⟨fp, fp + len⟩ (old.map Ent.rng) 0), g.rng.begin_ = g.rng.end_) := by
  obtain ⟨hnew, hos, hold, hoe, hfull⟩ := h
  have e1 : evictN ⟨fp, fp + len⟩ ((old ++ new).map Ent.rng) 0 = evictN ⟨fp, fp + len⟩ (old.map Ent.rng) 0 := by
    rw [List.map_append]
    exact evictN_append_none _ _ (evictN_new_zero hnew _) _ _
  refine ⟨e1, by simpa using evictN_le ⟨fp, fp + len⟩ (old.map Ent.rng), ?_, ?_⟩
  · intro hf
    apply evictN_none
    intro g hg hne
    obtain ⟨g', hg', rfl⟩ := List.mem_map.1 hg
    exact absurd (hfull hf g' hg') hne
  · have hsc := scanSpec_after_evict ⟨fp, fp + len⟩ ((old ++ new).map Ent.rng)
    rw [e1, List.map_append, List.drop_append_of_le_length (by simpa using evictN_le _ (old.map Ent.rng))] at hsc
    obtain ⟨s1, hs1, hc1⟩ := chain_drop (evictN ⟨fp, fp + len⟩ (old.map Ent.rng) 0) hold
    obtain ⟨s', e', h1, h2, h3, h4⟩ :=
      chain_after_evict_write hfit (new.map Ent.rng) _ s1 oe 0 hc1 (by omega) hoe hsc
    refine ⟨s', e', ⟨hnew, by omega, by rw [List.map_drop]; exact h2, h3, ?_⟩, h1, ?_⟩
    · intro hf g hg
      exact hfull hf g (List.mem_of_mem_drop hg)
    · rcases h4 with h4 | h4
      · exact Or.inl h4
      · refine Or.inr (fun g hg => h4 g.rng ?_)
        rw [← List.map_drop]; exact List.mem_map_of_mem hg

/-- the number of entries the wrap phase evicts -/
def wrapN (fp cap : Nat) (rs : List Range) : Nat :=
  if fp < cap then evictN ⟨fp, cap⟩ rs 0 else 0

omit [DecidableEq κ] in
/-- phase A of `insertCore` (wrap: evict the tail, reset the free pointer), on the layout -/
theorem lay_wrap {fp cap : Nat} {full : Bool} {old new : List (Ent κ)} {os oe : Nat}
    (h : Lay fp cap full old new os oe) :
    wrapN fp cap ((old ++ new).map Ent.rng) = wrapN fp cap (old.map Ent.rng) ∧
    wrapN fp cap (old.map Ent.rng) ≤ old.length ∧
    (full = false → wrapN fp cap (old.map Ent.rng) = 0) ∧
    (∀ g ∈ old.drop (wrapN fp cap (old.map Ent.rng)), g.rng.begin_ = g.rng.end_) ∧
    Lay 0 cap true (old.drop (wrapN fp cap (old.map Ent.rng)) ++ new) [] 0 fp := by
  obtain ⟨hnew, hos, hold, hoe, hfull⟩ := h
  have hfp : fp ≤ cap := by have := chain_le hold; omega
  have e1 : wrapN fp cap ((old ++ new).map Ent.rng) = wrapN fp cap (old.map Ent.rng) := by
    unfold wrapN
    split
    · rw [List.map_append]
      exact evictN_append_none _ _ (evictN_new_zero hnew _) _ _
    · rfl
  have hle : wrapN fp cap (old.map Ent.rng) ≤ old.length := by
    unfold wrapN; split
    · simpa using evictN_le ⟨fp, cap⟩ (old.map Ent.rng)
    · omega
  have hz : full = false → wrapN fp cap (old.map Ent.rng) = 0 := by
    intro hf
    unfold wrapN; split
    · apply evictN_none
      intro g hg hne
      obtain ⟨g', hg', rfl⟩ := List.mem_map.1 hg
      exact absurd (hfull hf g' hg') hne
    · rfl
  have hempty : ∀ g ∈ old.drop (wrapN fp cap (old.map Ent.rng)), g.rng.begin_ = g.rng.end_ := by
    by_cases hlt : fp < cap
    · have hw : wrapN fp cap (old.map Ent.rng) = evictN ⟨fp, cap⟩ (old.map Ent.rng) 0 := by simp [wrapN, hlt]
      have e1' : evictN ⟨fp, cap⟩ ((old ++ new).map Ent.rng) 0 = evictN ⟨fp, cap⟩ (old.map Ent.rng) 0 := by
        simpa [wrapN, hlt] using e1
      have hsc := scanSpec_after_evict ⟨fp, cap⟩ ((old ++ new).map Ent.rng)
      rw [e1', List.map_append, List.drop_append_of_le_length (by simpa using evictN_le _ (old.map Ent.rng))] at hsc
      obtain ⟨s1, hs1, hc1⟩ := chain_drop (evictN ⟨fp, cap⟩ (old.map Ent.rng) 0) hold
      have := chain_after_evict_tail (new.map Ent.rng) _ s1 oe 0 hc1 (by omega) hoe hsc
      intro g hg
      rw [hw] at hg
      exact this g.rng (by rw [← List.map_drop]; exact List.mem_map_of_mem hg)
    · intro g hg
      have hg' := List.mem_of_mem_drop hg
      by_cases hne : g.rng.begin_ = g.rng.end_
      · exact hne
      · have := chain_mem hold g.rng (List.mem_map_of_mem hg') hne
        omega
  refine ⟨e1, hle, hz, hempty, rfl, Nat.le_refl _, ?_, hfp, by simp⟩
  rw [List.map_append]
  refine chain_append.2 ⟨0, ?_, hnew⟩
  apply chain_of_allEmpty
  intro r hr
  obtain ⟨g, hg, rfl⟩ := List.mem_map.1 hr
  exact hempty g hg

end CacheProof
end BS
