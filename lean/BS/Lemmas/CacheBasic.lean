import BS.Impl.Cache
/-
  Helper lemmas for the ring-buffer cache, part 1:
  association-list lemmas (`lookup` / `erase`), the pure specification of the eviction loop
  (`scanSpec`, `evictN`) and the proof that `removeLoop` computes it without ever exhausting its fuel.
-/
namespace BS
namespace CacheProof
open Cache

variable {κ : Type} [DecidableEq κ]

/-! ### association lists -/

theorem lookup_append_of_not_mem (k : κ) (r : Range) :
    ∀ (l : List (κ × Range)), k ∉ l.map Prod.fst → lookup k (l ++ [(k, r)]) = some r
  | [], _ => by simp [lookup]
  | (k', r') :: l, h => by
    have h1 : k' ≠ k := fun e => h (by simp [e])
    have h2 : k ∉ l.map Prod.fst := fun m => h (by simp only [List.map_cons, List.mem_cons]; exact Or.inr m)
    simp only [List.cons_append, lookup, h1, if_false]
    exact lookup_append_of_not_mem k r l h2

theorem erase_append_of_not_mem (k : κ) (r : Range) :
    ∀ (l : List (κ × Range)), k ∉ l.map Prod.fst → erase k (l ++ [(k, r)]) = l
  | [], _ => by simp [erase]
  | (k', r') :: l, h => by
    have h1 : k' ≠ k := fun e => h (by simp [e])
    have h2 : k ∉ l.map Prod.fst := fun m => h (by simp only [List.map_cons, List.mem_cons]; exact Or.inr m)
    simp only [List.cons_append, erase, h1, if_false]
    rw [erase_append_of_not_mem k r l h2]

theorem lookup_eq_none_of_not_mem (k : κ) :
    ∀ (l : List (κ × Range)), k ∉ l.map Prod.fst → lookup k l = none
  | [], _ => rfl
  | (k', r') :: l, h => by
    have h1 : k' ≠ k := fun e => h (by simp [e])
    have h2 : k ∉ l.map Prod.fst := fun m => h (by simp only [List.map_cons, List.mem_cons]; exact Or.inr m)
    simp only [lookup, h1, if_false]
    exact lookup_eq_none_of_not_mem k l h2

theorem lookup_mem (k : κ) (r : Range) :
    ∀ (l : List (κ × Range)), lookup k l = some r → (k, r) ∈ l
  | [], h => by simp [lookup] at h
  | (k', r') :: l, h => by
    simp only [lookup] at h
    split at h
    · rename_i e; cases e; cases h; exact List.mem_cons_self
    · exact List.mem_cons_of_mem _ (lookup_mem k r l h)

/-- with distinct keys `lookup` finds every member -/
theorem lookup_of_mem_nodup (k : κ) (r : Range) :
    ∀ (l : List (κ × Range)), (l.map Prod.fst).Nodup → (k, r) ∈ l → lookup k l = some r
  | [], _, h => by cases h
  | (k', r') :: l, hn, h => by
    simp only [List.map_cons, List.nodup_cons] at hn
    simp only [lookup]
    rcases List.mem_cons.1 h with e | m
    · cases e; simp
    · have : k' ≠ k := by
        intro e; subst e
        exact hn.1 (List.mem_map.2 ⟨(k', r), m, rfl⟩)
      simp only [this, if_false]
      exact lookup_of_mem_nodup k r l hn.2 m

theorem lookup_isSome_iff (k : κ) :
    ∀ (l : List (κ × Range)), (lookup k l).isSome ↔ k ∈ l.map Prod.fst
  | [] => by simp [lookup]
  | (k', r') :: l => by
    simp only [lookup, List.map_cons, List.mem_cons]
    by_cases e : k' = k
    · simp [e]
    · simp only [e, if_false, lookup_isSome_iff k l]
      constructor
      · exact Or.inr
      · rintro (h | h)
        · exact absurd h.symm e
        · exact h

/-! ### the pure specification of the eviction loop -/

/-- what one run of the inner `for` loop answers, on the list of ranges (oldest first) -/
def scanSpec (r : Range) : List Range → Nat → Nat
  | [], _ => 0
  | rg :: rest, i =>
    if rg.begin_ = rg.end_ then scanSpec r rest (i + 1)
    else if r.overlaps rg then i + 1 else 0

/-- the number of entries `remove_range` evicts, as a single pass over the ranges (oldest first):
    `i` counts the zero-length entries passed since the last eviction -/
def evictN (r : Range) : List Range → Nat → Nat
  | [], _ => 0
  | rg :: rest, i =>
    if rg.begin_ = rg.end_ then evictN r rest (i + 1)
    else if r.overlaps rg then (i + 1) + evictN r rest 0 else 0

theorem scanSpec_bound (r : Range) : ∀ (rs : List Range) (i : Nat),
    scanSpec r rs i = 0 ∨ (i < scanSpec r rs i ∧ scanSpec r rs i ≤ i + rs.length)
  | [], _ => Or.inl rfl
  | rg :: rest, i => by
    simp only [scanSpec, List.length_cons]
    split
    · rcases scanSpec_bound r rest (i + 1) with h | h
      · exact Or.inl h
      · exact Or.inr (by omega)
    · split
      · exact Or.inr (by omega)
      · exact Or.inl rfl

theorem evictN_unfold (r : Range) : ∀ (rs : List Range) (i : Nat),
    evictN r rs i = if scanSpec r rs i = 0 then 0
      else scanSpec r rs i + evictN r (rs.drop (scanSpec r rs i - i)) 0
  | [], _ => by simp [evictN, scanSpec]
  | rg :: rest, i => by
    simp only [evictN, scanSpec]
    split
    · rw [evictN_unfold r rest (i + 1)]
      rcases scanSpec_bound r rest (i + 1) with h | h
      · simp [h]
      · have : scanSpec r rest (i + 1) - i = (scanSpec r rest (i + 1) - (i + 1)) + 1 := by omega
        rw [this, List.drop_succ_cons]
    · split
      · simp
      · simp

theorem evictN_bound (r : Range) : ∀ (rs : List Range) (i : Nat),
    evictN r rs i = 0 ∨ (i < evictN r rs i ∧ evictN r rs i ≤ i + rs.length)
  | [], _ => Or.inl rfl
  | rg :: rest, i => by
    simp only [evictN, List.length_cons]
    split
    · rcases evictN_bound r rest (i + 1) with h | h
      · exact Or.inl h
      · exact Or.inr (by omega)
    · split
      · rcases evictN_bound r rest 0 with h | h
        · exact Or.inr (by omega)
        · exact Or.inr (by omega)
      · exact Or.inl rfl

theorem evictN_le (r : Range) (rs : List Range) : evictN r rs 0 ≤ rs.length := by
  rcases evictN_bound r rs 0 with h | h <;> omega

/-- nothing is evicted iff the scan answers 0 -/
theorem evictN_eq_zero_iff (r : Range) (rs : List Range) (i : Nat) :
    evictN r rs i = 0 ↔ scanSpec r rs i = 0 := by
  rw [evictN_unfold]
  rcases scanSpec_bound r rs i with h | h
  · simp [h]
  · have : scanSpec r rs i ≠ 0 := by omega
    simp only [this, if_false, iff_false]
    omega

/-- after the eviction the scan answers 0: the oldest surviving storage-occupying entry does not overlap -/
theorem scanSpec_drop_evictN (r : Range) : ∀ (rs : List Range) (i : Nat),
    scanSpec r (rs.drop (evictN r rs i - i)) 0 = 0 ∨ (evictN r rs i = 0 ∧ scanSpec r rs i = 0)
  | [], _ => by simp [evictN, scanSpec]
  | rg :: rest, i => by
    simp only [evictN]
    split
    · rename_i he
      rcases scanSpec_drop_evictN r rest (i + 1) with h | h
      · rcases evictN_bound r rest (i + 1) with h0 | h1
        · right
          exact ⟨h0, by simp only [scanSpec, he, if_true]; exact (evictN_eq_zero_iff r rest (i+1)).1 h0⟩
        · left
          have : evictN r rest (i + 1) - i = (evictN r rest (i + 1) - (i + 1)) + 1 := by omega
          rw [this, List.drop_succ_cons]; exact h
      · right
        exact ⟨h.1, by simp only [scanSpec, he, if_true]; exact h.2⟩
    · rename_i he
      split
      · left
        have : i + 1 + evictN r rest 0 - i = (evictN r rest 0 - 0) + 1 := by omega
        rw [this, List.drop_succ_cons]
        rcases scanSpec_drop_evictN r rest 0 with h | h
        · exact h
        · rw [h.1]; exact h.2
      · rename_i ho
        right
        simp [scanSpec, he, ho]

theorem scanSpec_after_evict (r : Range) (rs : List Range) :
    scanSpec r (rs.drop (evictN r rs 0)) 0 = 0 := by
  rcases scanSpec_drop_evictN r rs 0 with h | h
  · simpa using h
  · rw [h.1]; simpa using h.2

/-! ### the loops compute the specification -/

/-- `scanOldest` on keys whose ranges are known -/
theorem scanOldest_eq (idx : List (κ × Range)) (r : Range) :
    ∀ (E : List (κ × Range)) (i : Nat), (∀ p ∈ E, lookup p.1 idx = some p.2) →
      scanOldest idx r (E.map Prod.fst) i = .ok (scanSpec r (E.map Prod.snd) i)
  | [], _, _ => rfl
  | (k, rg) :: E, i, h => by
    have hk : lookup k idx = some rg := h (k, rg) List.mem_cons_self
    have ht : ∀ p ∈ E, lookup p.1 idx = some p.2 := fun p hp => h p (List.mem_cons_of_mem _ hp)
    simp only [List.map_cons, scanOldest, hk, scanSpec]
    split
    · exact scanOldest_eq idx r E (i + 1) ht
    · split <;> rfl

/-- `popOldest` removes the `n` oldest entries (the index list is the reversed entry list) -/
theorem popOldest_eq : ∀ (n : Nat) (E : List (κ × Range)), (E.map Prod.fst).Nodup → n ≤ E.length →
    popOldest n E.reverse (E.map Prod.fst) = .ok ((E.drop n).reverse, (E.drop n).map Prod.fst)
  | 0, E, _, _ => by simp [popOldest]
  | n + 1, [], _, h => by simp at h
  | n + 1, (k, rg) :: E, hn, h => by
    simp only [List.map_cons, List.nodup_cons] at hn
    have hk : k ∉ (E.reverse).map Prod.fst := by
      simp only [List.map_reverse, List.mem_reverse]; exact hn.1
    simp only [List.map_cons, List.reverse_cons, popOldest, lookup_append_of_not_mem k rg _ hk,
      erase_append_of_not_mem k rg _ hk, List.drop_succ_cons]
    exact popOldest_eq n E hn.2 (by simpa using h)

theorem lookup_reverse_of_mem (E : List (κ × Range)) (hn : (E.map Prod.fst).Nodup) :
    ∀ p ∈ E, lookup p.1 E.reverse = some p.2 := by
  intro p hp
  apply lookup_of_mem_nodup
  · rw [List.map_reverse]; exact (List.reverse_perm _).nodup_iff.2 hn
  · simpa using hp

omit [DecidableEq κ] in
theorem nodup_drop (E : List (κ × Range)) (n : Nat) (hn : (E.map Prod.fst).Nodup) :
    ((E.drop n).map Prod.fst).Nodup := by
  rw [List.map_drop]
  exact List.Sublist.nodup (List.drop_sublist n _) hn

/-- the outer loop: with more fuel than entries it never runs out, and evicts exactly `evictN` entries -/
theorem removeLoop_eq (r : Range) : ∀ (fuel : Nat) (E : List (κ × Range)) (removed : Nat),
    (E.map Prod.fst).Nodup → E.length < fuel →
    removeLoop r fuel E.reverse (E.map Prod.fst) removed =
      .ok ((E.drop (evictN r (E.map Prod.snd) 0)).reverse,
           (E.drop (evictN r (E.map Prod.snd) 0)).map Prod.fst,
           removed + evictN r (E.map Prod.snd) 0)
  | 0, _, _, _, h => by omega
  | fuel + 1, E, removed, hn, hf => by
    rw [evictN_unfold]
    simp only [removeLoop, scanOldest_eq E.reverse r E 0 (lookup_reverse_of_mem E hn)]
    rcases scanSpec_bound r (E.map Prod.snd) 0 with h0 | h1
    · simp [h0]
    · obtain ⟨m, hm⟩ : ∃ m, scanSpec r (E.map Prod.snd) 0 = m + 1 := ⟨scanSpec r (E.map Prod.snd) 0 - 1, by omega⟩
      have hle : m + 1 ≤ E.length := by simp at h1; omega
      simp only [hm, popOldest_eq (m + 1) E hn hle]
      rw [removeLoop_eq r fuel (E.drop (m + 1)) (removed + (m + 1)) (nodup_drop E _ hn)
        (by simp; omega)]
      simp [List.map_drop, Nat.add_assoc]

end CacheProof
end BS
