import BS.Lemmas.CacheRun
/-
  Helper lemmas for the ring-buffer cache, part 5 (space accounting, for C12):
  total sizes, the tail-waste bound `LayM`, the entry evicted last, and the history invariants.
-/
set_option linter.unusedSectionVars false
namespace BS
namespace CacheProof
open Cache

variable {κ : Type} [DecidableEq κ]

/-- total number of bytes of a list of ranges -/
def sizeR : List Range → Nat
  | [] => 0
  | r :: rs => r.len + sizeR rs

/-- total number of bytes of a log -/
def sizeL : List (κ × Bytes) → Nat
  | [] => 0
  | p :: L => p.2.length + sizeL L

/-- the largest value size in a log -/
def maxLen : List (κ × Bytes) → Nat
  | [] => 0
  | p :: L => max p.2.length (maxLen L)

theorem sizeR_append : ∀ (a b : List Range), sizeR (a ++ b) = sizeR a + sizeR b
  | [], b => by simp [sizeR]
  | r :: a, b => by simp only [List.cons_append, sizeR, sizeR_append a b]; omega

theorem sizeL_append : ∀ (a b : List (κ × Bytes)), sizeL (a ++ b) = sizeL a + sizeL b
  | [], b => by simp [sizeL]
  | r :: a, b => by simp only [List.cons_append, sizeL, sizeL_append a b]; omega

theorem maxLen_append : ∀ (a b : List (κ × Bytes)), maxLen (a ++ b) = max (maxLen a) (maxLen b)
  | [], b => by simp [maxLen]
  | r :: a, b => by simp only [List.cons_append, maxLen, maxLen_append a b]; omega

theorem sizeL_drop_le : ∀ (L : List (κ × Bytes)) (n : Nat), sizeL (L.drop n) ≤ sizeL L
  | L, 0 => by simp
  | [], n + 1 => by simp
  | p :: L, n + 1 => by
    simp only [List.drop_succ_cons, sizeL]
    have := sizeL_drop_le L n; omega

theorem sizeL_drop_mono (L : List (κ × Bytes)) {m n : Nat} (h : m ≤ n) : sizeL (L.drop n) ≤ sizeL (L.drop m) := by
  have : L.drop n = (L.drop m).drop (n - m) := by rw [List.drop_drop]; congr 1; omega
  rw [this]; exact sizeL_drop_le _ _

theorem chain_size : ∀ {rs : List Range} {s e : Nat}, Chain s rs e → s + sizeR rs = e
  | [], s, e, h => by have : s = e := h; simp only [sizeR]; omega
  | r :: rs, s, e, h => by
    rcases h with ⟨h0, h⟩ | ⟨h1, h2, h⟩
    · have := chain_size h
      simp only [sizeR, Range.len]; omega
    · have := chain_size h
      simp only [sizeR, Range.len]; omega

theorem sizeL_eq_sizeR : ∀ (G : List (Ent κ)), (∀ g ∈ G, g.rng.end_ = g.rng.begin_ + g.val.length) →
    sizeL (G.map Ent.kv) = sizeR (G.map Ent.rng)
  | [], _ => rfl
  | g :: G, h => by
    have h1 := h g List.mem_cons_self
    have h2 := sizeL_eq_sizeR G (fun g' hg' => h g' (List.mem_cons_of_mem _ hg'))
    simp only [List.map_cons, sizeL, sizeR, Range.len, Ent.kv, h2]; omega

/-- the live bytes fit in the buffer -/
theorem invG_size_le {c : Cache κ} {G : List (Ent κ)} (h : InvG c G) : sizeL (G.map Ent.kv) ≤ c.cap := by
  rw [sizeL_eq_sizeR G (fun g hg => (h.ent g hg).1)]
  obtain ⟨old, new, os, oe, hG, hnew, hos, hold, hoe, _⟩ := h.lay
  rw [hG, List.map_append, sizeR_append]
  have := chain_size hnew
  have := chain_size hold
  omega

/-! ### the entry evicted last -/

theorem evictN_last (r : Range) : ∀ (rs : List Range) (i m : Nat), evictN r rs i = m + 1 →
    ∃ g, rs[m - i]? = some g ∧ g.begin_ ≠ g.end_ ∧ r.overlaps g = true
  | [], _, _, h => by simp [evictN] at h
  | g :: rs, i, m, h => by
    simp only [evictN] at h
    split at h
    · obtain ⟨g', h1, h2⟩ := evictN_last r rs (i + 1) m h
      rcases evictN_bound r rs (i + 1) with h0 | h0
      · omega
      · have : m - i = (m - (i + 1)) + 1 := by omega
        exact ⟨g', by rw [this, List.getElem?_cons_succ]; exact h1, h2⟩
    · rename_i hne
      split at h
      · rename_i hov
        rcases Nat.eq_zero_or_pos (evictN r rs 0) with h0 | h0
        · have : m - i = 0 := by omega
          exact ⟨g, by rw [this]; rfl, hne, hov⟩
        · obtain ⟨m', hm'⟩ : ∃ m', evictN r rs 0 = m' + 1 := ⟨evictN r rs 0 - 1, by omega⟩
          obtain ⟨g', h1, h2⟩ := evictN_last r rs 0 m' hm'
          have : m - i = m' + 1 := by omega
          exact ⟨g', by rw [this, List.getElem?_cons_succ]; simpa using h1, h2⟩
      · omega

theorem chain_drop_at : ∀ {rs : List Range} {s e : Nat} (m : Nat) {g : Range}, Chain s rs e →
    rs[m]? = some g → g.begin_ ≠ g.end_ → Chain g.begin_ (rs.drop m) e
  | [], _, _, _, _, _, hg, _ => by simp at hg
  | r :: rs, s, e, 0, g, h, hg, hne => by
    simp only [List.getElem?_cons_zero, Option.some.injEq] at hg
    subst hg
    rcases h with ⟨h0, _⟩ | ⟨h1, h2, h⟩
    · exact absurd h0 hne
    · exact Or.inr ⟨h1, rfl, h⟩
  | r :: rs, s, e, m + 1, g, h, hg, hne => by
    simp only [List.getElem?_cons_succ] at hg
    simp only [List.drop_succ_cons]
    rcases h with ⟨_, h⟩ | ⟨_, _, h⟩
    · exact chain_drop_at m h hg hne
    · exact chain_drop_at m h hg hne

/-- the write phase, on ranges: if it evicts `m + 1` entries, the last one evicted occupies storage, and keeping it
    would not have left room: its size plus what survives plus the new value exceeds `oe`, the end of the old chain -/
theorem ret_ranges {fp cap len M : Nat} {old new : List Range} {os oe : Nat}
    (hnew : Chain 0 new fp) (hold : Chain os old oe)
    (hM : (∃ g ∈ old, g.begin_ ≠ g.end_) → cap < oe + M) (m : Nat)
    (hm : evictN ⟨fp, fp + len⟩ old 0 = m + 1) :
    ∃ g, (old ++ new)[m]? = some g ∧ g.begin_ < g.end_ ∧
      cap + 1 < g.len + sizeR ((old ++ new).drop (m + 1)) + len + M := by
  obtain ⟨g, hg, hne, hov⟩ := evictN_last _ old 0 m hm
  simp only [Nat.sub_zero] at hg
  have hlt : m < old.length := by
    rcases Nat.lt_or_ge m old.length with h | h
    · exact h
    · rw [List.getElem?_eq_none h] at hg; cases hg
  have hmem : g ∈ old := List.mem_of_getElem? hg
  have hb := chain_mem hold g hmem hne
  have hc := chain_drop_at m hold hg hne
  have hd : old.drop m = g :: old.drop (m + 1) := by
    rw [List.drop_eq_getElem_cons hlt]
    congr 1
    rw [List.getElem?_eq_getElem hlt] at hg
    exact Option.some.inj hg
  have hs1 := chain_size hc
  rw [hd] at hs1
  simp only [sizeR] at hs1
  have hs2 := chain_size hnew
  have hw := hM ⟨g, hmem, hne⟩
  simp only [Range.overlaps, Bool.and_eq_true, decide_eq_true_eq] at hov
  refine ⟨g, by rw [List.getElem?_append_left hlt]; exact hg, hb.2.1, ?_⟩
  rw [List.drop_append_of_le_length (by omega), sizeR_append]
  omega

/-! ### the tail-waste bound -/

/-- a layout of `G` in which, if an old entry still occupies storage, the unused tail behind the old chain is
    shorter than `M` (the wrap that created it was caused by a value of size at most `M`) -/
def LayM (fp cap : Nat) (full : Bool) (G : List (Ent κ)) (M : Nat) : Prop :=
  ∃ old new os oe, G = old ++ new ∧ Lay fp cap full old new os oe ∧
    ((∃ g ∈ old, g.rng.begin_ ≠ g.rng.end_) → cap < oe + M)

theorem layM_mono {fp cap : Nat} {full : Bool} {G : List (Ent κ)} {M M' : Nat} (hM : M ≤ M')
    (h : LayM fp cap full G M) : LayM fp cap full G M' := by
  obtain ⟨old, new, os, oe, hG, hl, hw⟩ := h
  exact ⟨old, new, os, oe, hG, hl, fun hx => by have := hw hx; omega⟩

theorem layM_wrap {fp cap : Nat} {full : Bool} {G : List (Ent κ)} {M M' len : Nat}
    (h : LayM fp cap full G M) (hw : len + fp > cap) (hlen : len ≤ M') :
    LayM 0 cap true (G.drop (wrapN fp cap (G.map Ent.rng))) M' := by
  obtain ⟨old, new, os, oe, hG, hl, _⟩ := h
  obtain ⟨e1, hle, _, _, hl'⟩ := lay_wrap hl
  refine ⟨old.drop (wrapN fp cap (old.map Ent.rng)) ++ new, [], 0, fp, ?_, hl', fun _ => by omega⟩
  rw [hG, e1, List.drop_append_of_le_length hle, List.append_nil]

theorem layM_write {fp cap : Nat} {full : Bool} {G : List (Ent κ)} {M : Nat} (h : LayM fp cap full G M)
    (k : κ) (v : Bytes) (hfit : fp + v.length ≤ cap) :
    LayM (fp + v.length) cap full
      (G.drop (evictN ⟨fp, fp + v.length⟩ (G.map Ent.rng) 0) ++ [⟨k, ⟨fp, fp + v.length⟩, v⟩]) M := by
  obtain ⟨old, new, os, oe, hG, hl, hw⟩ := h
  obtain ⟨e1, hle, _, os', oe', hl', hos', hoe'⟩ := lay_evict_write (len := v.length) hl hfit
  refine ⟨old.drop (evictN ⟨fp, fp + v.length⟩ (old.map Ent.rng) 0), new ++ [⟨k, ⟨fp, fp + v.length⟩, v⟩],
    os', oe', ?_, ?_, ?_⟩
  · rw [hG, e1, List.drop_append_of_le_length hle, List.append_assoc]
  · obtain ⟨l1, l2, l3, l4, l5⟩ := hl'
    refine ⟨?_, hos', l3, l4, l5⟩
    rw [List.map_append]
    exact chain_snoc l1 v.length
  · rintro ⟨g, hg, hne⟩
    rcases hoe' with h1 | h1
    · rw [h1]; exact hw ⟨g, List.mem_of_mem_drop hg, hne⟩
    · exact absurd (h1 g hg) hne


/-! ### one accepted insert -/

theorem layM_insertSpec {c : Cache κ} {G : List (Ent κ)} {M : Nat} (h : InvG c G)
    (hm : LayM c.fp c.cap c.full G M) (k : κ) (v : Bytes) (hv : v.length ≤ c.cap) :
    LayM (insertSpec c G k v).1.fp c.cap (insertSpec c G k v).1.full
      (G.drop (insertSpec c G k v).2 ++ [insertEnt c k v]) (max M v.length) := by
  have hfp := h.fp_le
  unfold insertSpec insertEnt
  by_cases hw : v.length + c.fp > c.cap
  · simp only [hw, if_true]
    rw [← List.drop_drop]
    have h1 : LayM 0 c.cap true (G.drop (wrapN c.fp c.cap (G.map Ent.rng))) (max M v.length) :=
      layM_wrap hm hw (by omega)
    exact layM_write h1 k v (by omega)
  · simp only [hw, if_false]
    exact layM_mono (by omega) (layM_write hm k v (by omega))

/-- the write phase evicting `m + 1` entries: the last evicted entry occupies storage and would not have fitted -/
theorem ret_write {c : Cache κ} {G : List (Ent κ)} {M : Nat} (h : InvG c G)
    (hm : LayM c.fp c.cap c.full G M) (v : Bytes) (hfit : c.fp + v.length ≤ c.cap) (m : Nat)
    (he : writeN c G v = m + 1) :
    ∃ g, G[m]? = some g ∧ 1 ≤ g.val.length ∧
      c.cap + 1 < g.val.length + sizeL ((G.drop (m + 1)).map Ent.kv) + v.length + M := by
  obtain ⟨old, new, os, oe, hG, hl, hw⟩ := hm
  obtain ⟨e1, _, _, _⟩ := lay_evict_write (len := v.length) hl hfit
  have he' : evictN ⟨c.fp, c.fp + v.length⟩ (old.map Ent.rng) 0 = m + 1 := by
    rw [← e1, ← hG]; exact he
  obtain ⟨r, hr, hne, hb⟩ := ret_ranges (M := M) (cap := c.cap) hl.1 hl.2.2.1 (by
    rintro ⟨r, hr, hne⟩
    obtain ⟨g, hg, rfl⟩ := List.mem_map.1 hr
    exact hw ⟨g, hg, hne⟩) m he'
  rw [← List.map_append, ← hG, List.getElem?_map] at hr
  cases hg : G[m]? with
  | none => rw [hg] at hr; cases hr
  | some g =>
    rw [hg] at hr
    simp only [Option.map_some, Option.some.injEq] at hr
    subst hr
    have hmem : g ∈ G := List.mem_of_getElem? hg
    have hsz := (h.ent g hmem).1
    have hs : sizeL ((G.drop (m + 1)).map Ent.kv) = sizeR ((G.drop (m + 1)).map Ent.rng) :=
      sizeL_eq_sizeR _ (fun g' hg' => (h.ent g' (List.mem_of_mem_drop hg')).1)
    rw [← List.map_append, ← hG, ← List.map_drop] at hb
    refine ⟨g, rfl, by omega, ?_⟩
    rw [hs]
    simp only [Range.len] at hb
    omega

/-- an accepted insert evicting `m + 1` entries: the last evicted entry `G[m]` occupies storage, and its size plus
    the live bytes kept plus the new value exceed `cap + 1 - max M |v|` -/
theorem ret_insertSpec {c : Cache κ} {G : List (Ent κ)} {M : Nat} (h : InvG c G)
    (hm : LayM c.fp c.cap c.full G M) (k : κ) (v : Bytes) (hv : v.length ≤ c.cap) (m : Nat)
    (he : (insertSpec c G k v).2 = m + 1) :
    ∃ g, G[m]? = some g ∧ 1 ≤ g.val.length ∧
      c.cap + 1 < g.val.length + sizeL ((G.drop (m + 1)).map Ent.kv) + v.length + max M v.length := by
  have hfp := h.fp_le
  unfold insertSpec at he
  by_cases hw : v.length + c.fp > c.cap
  · simp only [hw, if_true] at he
    have h1 : LayM (wrapSt c G).fp (wrapSt c G).cap (wrapSt c G).full
        (G.drop (wrapN c.fp c.cap (G.map Ent.rng))) (max M v.length) :=
      layM_wrap hm hw (by omega)
    obtain ⟨m1, hm1⟩ : ∃ m1, writeN (wrapSt c G) (G.drop (wrapN c.fp c.cap (G.map Ent.rng))) v = m1 + 1 := by
      have hz : (wrapSt c G).fp = 0 := rfl
      have hsc : writeN (wrapSt c G) (G.drop (wrapN c.fp c.cap (G.map Ent.rng))) v ≠ 0 := by
        obtain ⟨old, new, os, oe, hG, hlay⟩ := h.lay
        obtain ⟨e1, hle, _, _, hl⟩ := lay_wrap hlay
        have hch : Chain 0 ((G.drop (wrapN c.fp c.cap (G.map Ent.rng))).map Ent.rng) c.fp := by
          rw [hG, e1, List.drop_append_of_le_length hle]; exact hl.2.2.1
        have hs := scanSpec_chain_zero (len := v.length) (by omega) _ c.fp 0 hch (by omega)
        intro h0
        apply hs
        rw [writeN, hz, Nat.zero_add] at h0
        exact (evictN_eq_zero_iff _ _ _).1 h0
      exact Nat.exists_eq_succ_of_ne_zero hsc
    obtain ⟨g, hg, h2, h3⟩ := ret_write (invG_wrapSt h) h1 v
      (by show 0 + v.length ≤ c.cap; omega) m1 hm1
    have hmm : m = wrapN c.fp c.cap (G.map Ent.rng) + m1 := by omega
    rw [List.getElem?_drop] at hg
    rw [List.drop_drop] at h3
    have e2 : wrapN c.fp c.cap (G.map Ent.rng) + (m1 + 1) = m + 1 := by omega
    rw [e2] at h3
    exact ⟨g, by rw [hmm]; exact hg, h2, h3⟩
  · simp only [hw, if_false] at he
    obtain ⟨g, hg, h2, h3⟩ := ret_write h hm v (by omega) m he
    exact ⟨g, hg, h2, by omega⟩

/-! ### the public invariant with the size bound -/

/-- `Inv` together with the tail-waste bound for `M` (an upper bound of the value sizes inserted so far) -/
def Inv12 (c : Cache κ) (L : List (κ × Bytes)) (M : Nat) : Prop :=
  ∃ G : List (Ent κ), L = G.map Ent.kv ∧ InvG c G ∧ LayM c.fp c.cap c.full G M

theorem Inv12.inv {c : Cache κ} {L : List (κ × Bytes)} {M : Nat} (h : Inv12 c L M) : Inv c L := by
  obtain ⟨G, hL, hG, _⟩ := h; exact ⟨G, hL, hG⟩

theorem inv12_new (cap : Nat) : Inv12 (Cache.new cap : Cache κ) [] 0 :=
  ⟨[], rfl, invG_new cap, [], [], 0, 0, rfl, ⟨rfl, Nat.le_refl _, rfl, Nat.zero_le _, by simp⟩, by simp⟩

theorem Inv12.mono {c : Cache κ} {L : List (κ × Bytes)} {M M' : Nat} (h : Inv12 c L M) (hM : M ≤ M') :
    Inv12 c L M' := by
  obtain ⟨G, hL, hG, hm⟩ := h; exact ⟨G, hL, hG, layM_mono hM hm⟩

/-- an accepted insert preserves `Inv12` (with `M` raised to cover the new value) and, if it evicts, the entry
    evicted last would not have fitted -/
theorem Inv12.insert_ok {c : Cache κ} {L : List (κ × Bytes)} {M : Nat} (h : Inv12 c L M) {k : κ} {v : Bytes}
    {c' : Cache κ} {e : Nat} (hi : Cache.insert c k v = (c', .ok e)) :
    Inv12 c' (L.drop e ++ [(k, v)]) (max M v.length) ∧
    (∀ m, e = m + 1 → ∃ p, L[m]? = some p ∧ 1 ≤ p.2.length ∧
      c.cap + 1 < p.2.length + sizeL (L.drop (m + 1)) + v.length + max M v.length) := by
  obtain ⟨G, rfl, hG, hm⟩ := h
  obtain ⟨h1, h2, h3, h4⟩ := CacheProof.insert_ok hG hi
  subst h3 h4
  refine ⟨⟨_, ?_, invG_insertSpec hG k v h2 h1, ?_⟩, ?_⟩
  · simp only [List.map_append, List.map_drop, List.map_cons, List.map_nil, Ent.kv,
      insertEnt_key, insertEnt_val]
  · rw [insertSpec_cap hG k v h2]
    exact layM_insertSpec hG hm k v h2
  · intro m he
    obtain ⟨g, hg, hb1, hb2⟩ := ret_insertSpec hG hm k v h2 m he
    refine ⟨g.kv, by rw [List.getElem?_map, hg]; rfl, hb1, ?_⟩
    rw [← List.map_drop]; exact hb2

theorem sizeL_drop_getElem? : ∀ (L : List (κ × Bytes)) (m : Nat) (p : κ × Bytes), L[m]? = some p →
    sizeL (L.drop m) = p.2.length + sizeL (L.drop (m + 1))
  | [], _, _, h => by simp at h
  | q :: L, 0, p, h => by
    simp only [List.getElem?_cons_zero, Option.some.injEq] at h
    subst h; simp [sizeL]
  | q :: L, m + 1, p, h => by
    simp only [List.getElem?_cons_succ] at h
    simp only [List.drop_succ_cons]
    exact sizeL_drop_getElem? L m p h

theorem maxLen_ge_of_mem : ∀ (L : List (κ × Bytes)) (p : κ × Bytes), p ∈ L → p.2.length ≤ maxLen L
  | [], _, h => by cases h
  | q :: L, p, h => by
    simp only [maxLen]
    rcases List.mem_cons.1 h with rfl | h
    · omega
    · have := maxLen_ge_of_mem L p h; omega

/-! ### histories -/

/-- history invariant for the space accounting (`cap` = the capacity the history started with) -/
structure RunInv (cap : Nat) (s : Run κ) : Prop where
  inv : Inv12 s.c s.log (maxLen s.succ)
  cap_eq : s.c.cap = cap
  fill_not_full : s.c.full = false → s.c.fp = sizeL s.succ
  fill_full : s.c.full = true → cap < sizeL s.succ
  ret : ∃ n, n ≤ s.succ.length ∧ s.log = s.succ.drop n ∧
    (0 < n → ∃ p, s.succ[n - 1]? = some p ∧ 1 ≤ p.2.length ∧
      cap + 1 < p.2.length + sizeL s.log + maxLen s.succ)

theorem sizeL_single (p : κ × Bytes) : sizeL [p] = p.2.length := by simp [sizeL]
theorem maxLen_single (p : κ × Bytes) : maxLen [p] = p.2.length := by simp [maxLen]

theorem runInv_step {cap : Nat} {s : Run κ} (h : RunInv cap s) (op : κ × Bytes) : RunInv cap (s.step op) := by
  obtain ⟨hinv, hcap, hnf, hf, n, hn, hlog, hret⟩ := h
  cases hr : (Cache.insert s.c op.1 op.2).2 with
  | ok e =>
    have hi : Cache.insert s.c op.1 op.2 = ((Cache.insert s.c op.1 op.2).1, .ok e) := by rw [← hr]
    obtain ⟨i1, i2⟩ := hinv.insert_ok hi
    obtain ⟨f1, f2, f3⟩ := hinv.inv.insert_full hi
    have hle := (hinv.inv.insert_ok hi).1
    have hstep : s.step op = ⟨(Cache.insert s.c op.1 op.2).1, s.log.drop e ++ [op],
        s.results ++ [.ok e], s.succ ++ [op]⟩ := by
      simp only [Run.step, hr, logStep]
    rw [hstep]
    have hmax : maxLen (s.succ ++ [op]) = max (maxLen s.succ) op.2.length := by
      rw [maxLen_append, maxLen_single]
    have hsz : sizeL (s.succ ++ [op]) = sizeL s.succ + op.2.length := by
      rw [sizeL_append, sizeL_single]
    refine ⟨?_, ?_, ?_, ?_, ?_⟩
    · show Inv12 _ (s.log.drop e ++ [op]) (maxLen (s.succ ++ [op]))
      rw [hmax]; exact i1
    · show (Cache.insert s.c op.1 op.2).1.cap = cap
      rw [hinv.inv.insert_cap, hcap]
    · show (Cache.insert s.c op.1 op.2).1.full = false → (Cache.insert s.c op.1 op.2).1.fp = sizeL (s.succ ++ [op])
      intro hfl
      by_cases hw : op.2.length + s.c.fp > s.c.cap
      · have := (f3 hw).2.1; rw [hfl] at this; cases this
      · obtain ⟨g1, g2⟩ := f2 hw
        rw [g1, hsz, hnf (by rw [← g2]; exact hfl)]
    · show (Cache.insert s.c op.1 op.2).1.full = true → cap < sizeL (s.succ ++ [op])
      intro hfl
      rw [hsz]
      by_cases hw : op.2.length + s.c.fp > s.c.cap
      · cases hc : s.c.full with
        | true => have := hf hc; omega
        | false => have := hnf hc; omega
      · obtain ⟨g1, g2⟩ := f2 hw
        have := hf (by rw [← g2]; exact hfl); omega
    · show ∃ n', n' ≤ (s.succ ++ [op]).length ∧ s.log.drop e ++ [op] = (s.succ ++ [op]).drop n' ∧
        (0 < n' → ∃ p, (s.succ ++ [op])[n' - 1]? = some p ∧ 1 ≤ p.2.length ∧
          cap + 1 < p.2.length + sizeL (s.log.drop e ++ [op]) + maxLen (s.succ ++ [op]))
      have hle' : e ≤ s.succ.length - n := by rw [hlog, List.length_drop] at hle; exact hle
      refine ⟨n + e, ?_, ?_, ?_⟩
      · simp only [List.length_append, List.length_cons, List.length_nil]; omega
      · rw [hlog, List.drop_drop, List.drop_append_of_le_length (by omega)]
      · intro hpos
        rw [sizeL_append, sizeL_single, hmax]
        rcases Nat.eq_zero_or_pos e with he | he
        · subst he
          obtain ⟨p, hp1, hp2, hp3⟩ := hret (by omega)
          refine ⟨p, ?_, hp2, ?_⟩
          · rw [Nat.add_zero, List.getElem?_append_left (by omega)]; exact hp1
          · simp only [List.drop_zero]; omega
        · obtain ⟨m, rfl⟩ : ∃ m, e = m + 1 := Nat.exists_eq_succ_of_ne_zero (by omega)
          obtain ⟨p, hp1, hp2, hp3⟩ := i2 m rfl
          rw [hlog, List.getElem?_drop] at hp1
          have hlt : n + m < s.succ.length := by
            rcases Nat.lt_or_ge (n + m) s.succ.length with h | h
            · exact h
            · rw [List.getElem?_eq_none h] at hp1; cases hp1
          refine ⟨p, ?_, hp2, ?_⟩
          · have : n + (m + 1) - 1 = n + m := by omega
            rw [this, List.getElem?_append_left hlt]; exact hp1
          · rw [hcap] at hp3; omega
  | valueLargerThanBuffer =>
    have hc := insert_not_ok_state hinv.inv op.1 op.2 (by rw [hr]; intro e h; cases h)
    have hstep : s.step op = ⟨s.c, s.log, s.results ++ [.valueLargerThanBuffer], s.succ⟩ := by
      simp only [Run.step, hr, logStep, hc]
    rw [hstep]; exact ⟨hinv, hcap, hnf, hf, n, hn, hlog, hret⟩
  | valueAlreadyPresent =>
    have hc := insert_not_ok_state hinv.inv op.1 op.2 (by rw [hr]; intro e h; cases h)
    have hstep : s.step op = ⟨s.c, s.log, s.results ++ [.valueAlreadyPresent], s.succ⟩ := by
      simp only [Run.step, hr, logStep, hc]
    rw [hstep]; exact ⟨hinv, hcap, hnf, hf, n, hn, hlog, hret⟩
  | panic p =>
    have hc := insert_not_ok_state hinv.inv op.1 op.2 (by rw [hr]; intro e h; cases h)
    have hstep : s.step op = ⟨s.c, s.log, s.results ++ [.panic p], s.succ⟩ := by
      simp only [Run.step, hr, logStep, hc]
    rw [hstep]; exact ⟨hinv, hcap, hnf, hf, n, hn, hlog, hret⟩

theorem run_inv12 (cap : Nat) : ∀ ops : List (κ × Bytes), RunInv cap (runOps cap ops) := by
  apply snoc_induction
  · rw [runOps_nil]
    refine ⟨inv12_new cap, by simp [Cache.cap, Cache.new], fun _ => rfl, ?_, 0, Nat.le_refl _, rfl, ?_⟩
    · intro h; simp [Cache.new] at h
    · intro h; omega
  · intro ops op ih
    rw [runOps_snoc]
    exact runInv_step ih op

end CacheProof
end BS
