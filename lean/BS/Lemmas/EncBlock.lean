import BS.Lemmas.EncTx
/-
  block header and block decoders of L2
-/
namespace BS.Enc
open BS BS.Spec

/-! ### header -/

theorem encHeader_length {h : HeaderS} (hw : h.WF) : (encHeader h).length = 80 := by
  obtain ⟨_, _, h1, h2, _⟩ := hw
  simp only [encHeader, List.length_append, toLE_length, h1, h2]

theorem encHeader_split (h : HeaderS) :
    encHeader h = toLE 4 (ofI32 h.version) ++ (h.prevBlockhash ++ (h.merkleRoot ++ (toLE 4 h.time ++
      (toLE 4 h.bits ++ toLE 4 h.nonce)))) := by
  simp only [encHeader, List.append_assoc]

theorem drop_append_of_length {α} {n : Nat} {a : List α} (b : List α) (h : a.length = n) : (a ++ b).drop n = b :=
  List.drop_left' h

theorem take_append_of_length {α} {n : Nat} {a : List α} (b : List α) (h : a.length = n) : (a ++ b).take n = a :=
  List.take_left' h

theorem encHeader_fields {h : HeaderS} (hw : h.WF) :
    (encHeader h).take 4 = toLE 4 (ofI32 h.version) ∧
    ((encHeader h).drop 4).take 32 = h.prevBlockhash ∧
    ((encHeader h).drop 36).take 32 = h.merkleRoot ∧
    ((encHeader h).drop 68).take 4 = toLE 4 h.time ∧
    ((encHeader h).drop 72).take 4 = toLE 4 h.bits ∧
    ((encHeader h).drop 76).take 4 = toLE 4 h.nonce := by
  obtain ⟨_, _, h1, h2, _⟩ := hw
  have d4 : (encHeader h).drop 4 = h.prevBlockhash ++ (h.merkleRoot ++ (toLE 4 h.time ++
      (toLE 4 h.bits ++ toLE 4 h.nonce))) := by
    rw [encHeader_split]; exact drop_append_of_length _ (by simp)
  have d36 : (encHeader h).drop 36 = h.merkleRoot ++ (toLE 4 h.time ++ (toLE 4 h.bits ++ toLE 4 h.nonce)) := by
    have : (encHeader h).drop 36 = ((encHeader h).drop 4).drop 32 := by rw [List.drop_drop]
    rw [this, d4]; exact drop_append_of_length _ h1
  have d68 : (encHeader h).drop 68 = toLE 4 h.time ++ (toLE 4 h.bits ++ toLE 4 h.nonce) := by
    have : (encHeader h).drop 68 = ((encHeader h).drop 36).drop 32 := by rw [List.drop_drop]
    rw [this, d36]; exact drop_append_of_length _ h2
  have d72 : (encHeader h).drop 72 = toLE 4 h.bits ++ toLE 4 h.nonce := by
    have : (encHeader h).drop 72 = ((encHeader h).drop 68).drop 4 := by rw [List.drop_drop]
    rw [this, d68]; exact drop_append_of_length _ (by simp)
  have d76 : (encHeader h).drop 76 = toLE 4 h.nonce := by
    have : (encHeader h).drop 76 = ((encHeader h).drop 72).drop 4 := by rw [List.drop_drop]
    rw [this, d72]; exact drop_append_of_length _ (by simp)
  refine ⟨?_, ?_, ?_, ?_, ?_, ?_⟩
  · rw [encHeader_split]; exact take_append_of_length _ (by simp)
  · rw [d4]; exact take_append_of_length _ h1
  · rw [d36]; exact take_append_of_length _ h2
  · rw [d68]; exact take_append_of_length _ (by simp)
  · rw [d72]; exact take_append_of_length _ (by simp)
  · rw [d76]; exact List.take_of_length_le (by simp)

theorem decHeader_enc (b : Nat) (h : HeaderS) (r : Bytes) (hw : h.WF) :
    decHeader ⟨b, encHeader h ++ r⟩ = ⟨travHeader b h, .ok (viewHeader b h, ⟨b + (encHeader h).length, r⟩)⟩ := by
  obtain ⟨f1, f2, f3, f4, f5, f6⟩ := encHeader_fields hw
  unfold decHeader
  rw [takeN_append' b 80 _ r (encHeader_length hw), encHeader_length hw]
  simp only [D_lift_ok_bind, D_emit_bind, D_pure]
  have hv : toI32 (leN (toLE 4 (ofI32 h.version))) = h.version := by
    rw [leN_toLE_of_lt (by have := ofI32_lt hw.1 hw.2.1; omega), toI32_ofI32 hw.1 hw.2.1]
  obtain ⟨_, _, _, _, ht, hb, hn⟩ := hw
  rw [f1, f4, f5, f6, hv, leN_toLE_of_lt (by omega), leN_toLE_of_lt (by omega), leN_toLE_of_lt (by omega)]
  rfl

theorem fields_viewHeader (b : Nat) {h : HeaderS} (hw : h.WF) : fieldsHeader (viewHeader b h) = h := by
  obtain ⟨f1, f2, f3, f4, f5, f6⟩ := encHeader_fields hw
  obtain ⟨v, p, m, t, bi, n⟩ := h
  simp only [fieldsHeader, viewHeader] at *
  rw [f2, f3]

/-- an 80-byte string is the concatenation of its six header fields -/
theorem split80 (bs : Bytes) (h : bs.length = 80) :
    bs = bs.take 4 ++ ((bs.drop 4).take 32 ++ ((bs.drop 36).take 32 ++ ((bs.drop 68).take 4 ++
      ((bs.drop 72).take 4 ++ (bs.drop 76).take 4)))) := by
  have e76 : (bs.drop 76).take 4 = bs.drop 76 := List.take_of_length_le (by simp; omega)
  have e72 : (bs.drop 72).take 4 ++ bs.drop 76 = bs.drop 72 := by
    have := List.take_append_drop 4 (bs.drop 72); rwa [List.drop_drop] at this
  have e68 : (bs.drop 68).take 4 ++ bs.drop 72 = bs.drop 68 := by
    have := List.take_append_drop 4 (bs.drop 68); rwa [List.drop_drop] at this
  have e36 : (bs.drop 36).take 32 ++ bs.drop 68 = bs.drop 36 := by
    have := List.take_append_drop 32 (bs.drop 36); rwa [List.drop_drop] at this
  have e4 : (bs.drop 4).take 32 ++ bs.drop 36 = bs.drop 4 := by
    have := List.take_append_drop 32 (bs.drop 4); rwa [List.drop_drop] at this
  rw [e76, e72, e68, e36, e4, List.take_append_drop]

theorem decHeader_eq_ok {s : Slice} {o : HeaderV} {rem : Slice} (h : (decHeader s).res = .ok (o, rem)) :
    ∃ x : HeaderS, x.WF ∧ s.bytes = encHeader x ++ rem.bytes ∧ rem.base = s.base + (encHeader x).length := by
  unfold decHeader at h
  obtain ⟨⟨p, rem'⟩, h1, h⟩ := D_bind_res_eq_ok h
  obtain ⟨_, _, h⟩ := D_bind_res_eq_ok h
  cases h
  obtain ⟨e, hp, _, hb⟩ := takeN_eq_ok h1
  have l4 : ∀ n, n + 4 ≤ 80 → ((p.bytes.drop n).take 4).length = 4 := by
    intro n hn; simp; omega
  have lt4 : ∀ n, n + 4 ≤ 80 → leN ((p.bytes.drop n).take 4) < 2 ^ 32 := by
    intro n hn
    have := leN_lt ((p.bytes.drop n).take 4)
    rw [l4 n hn] at this
    omega
  have l0 : (p.bytes.take 4).length = 4 := by simp; omega
  have lt0 : leN (p.bytes.take 4) < 2 ^ 32 := by
    have := leN_lt (p.bytes.take 4)
    rw [l0] at this
    omega
  have hr := toI32_range lt0
  let x : HeaderS := ⟨toI32 (leN (p.bytes.take 4)), (p.bytes.drop 4).take 32, (p.bytes.drop 36).take 32,
    leN ((p.bytes.drop 68).take 4), leN ((p.bytes.drop 72).take 4), leN ((p.bytes.drop 76).take 4)⟩
  have hx : x.WF := ⟨hr.1, hr.2, by simp [x]; omega, by simp [x]; omega, lt4 68 (by omega), lt4 72 (by omega),
    lt4 76 (by omega)⟩
  have henc : encHeader x = p.bytes := by
    rw [encHeader_split]
    simp only [x]
    rw [ofI32_toI32 lt0]
    conv => rhs; rw [split80 p.bytes hp]
    have t0 := toLE_leN (p.bytes.take 4)
    have t1 := toLE_leN ((p.bytes.drop 68).take 4)
    have t2 := toLE_leN ((p.bytes.drop 72).take 4)
    have t3 := toLE_leN ((p.bytes.drop 76).take 4)
    rw [l0] at t0
    rw [l4 68 (by omega)] at t1
    rw [l4 72 (by omega)] at t2
    rw [l4 76 (by omega)] at t3
    rw [t0, t1, t2, t3]
  refine ⟨x, hx, by rw [henc]; exact e, by rw [henc, hp]; exact hb⟩

theorem decHeader_eq_ok' {s : Slice} {o : HeaderV} {rem : Slice} (h : (decHeader s).res = .ok (o, rem)) :
    ∃ x : HeaderS, x.WF ∧ s.bytes = encHeader x ++ rem.bytes ∧ rem.base = s.base + (encHeader x).length ∧
      o = viewHeader s.base x := by
  obtain ⟨x, hw, e, hb⟩ := decHeader_eq_ok h
  refine ⟨x, hw, e, hb, ?_⟩
  obtain ⟨b, bs⟩ := s
  simp only at e hb ⊢
  subst e
  rw [decHeader_enc b x _ hw] at h
  exact (Prod.mk.inj (Res.ok.inj h)).1.symm

theorem decHeader_basic (s : Slice) : Basic (decHeader s).res := by
  unfold decHeader
  refine D_Basic_bind (takeN_basic s 80) fun ⟨_, _⟩ => D_Basic_bind (m := D.emit _) trivial fun _ => trivial

theorem encHeader_unique {x x' : HeaderS} {r r' : Bytes} (hx : x.WF) (hx' : x'.WF)
    (h : encHeader x ++ r = encHeader x' ++ r') : x = x' ∧ r = r' := by
  have h1 := decHeader_enc 0 x r hx
  have h2 := decHeader_enc 0 x' r' hx'
  rw [h, h2] at h1
  have h1 := congrArg D.res h1
  simp only at h1
  have hv : viewHeader 0 x' = viewHeader 0 x := (Prod.mk.inj (Res.ok.inj h1)).1
  have hr : r' = r := (Slice.mk.inj (Prod.mk.inj (Res.ok.inj h1)).2).2
  have := congrArg fieldsHeader hv
  rw [fields_viewHeader _ hx, fields_viewHeader _ hx'] at this
  exact ⟨this.symm, hr.symm⟩


/-! ### block -/

theorem decBlockLoop_enc (l : List TxS) : ∀ (b : Nat) (r : Bytes), (∀ t ∈ l, t.WF) →
    decBlockLoop l.length ⟨b, (l.map encTx).flatten ++ r⟩ =
      ⟨travTxs b l, .ok ⟨b + (l.map encTx).flatten.length, r⟩⟩ := by
  induction l with
  | nil => intro b r _; rfl
  | cons x l ih =>
    intro b r hwf
    have hx := hwf x (List.mem_cons_self)
    have hl : ∀ y ∈ l, y.WF := fun y hy => hwf y (List.mem_cons_of_mem _ hy)
    rw [flatten_cons_append, List.length_cons, decBlockLoop, decTransaction_enc _ _ _ hx]
    simp only [D_mk_ok_bind]
    rw [ih _ _ hl]
    simp only [travTxs, List.map_cons, List.flatten_cons, List.length_append, Nat.add_assoc]

theorem decBlock_enc (b : Nat) (k : BlockS) (r : Bytes) (hk : k.WF) :
    decBlock ⟨b, encBlock k ++ r⟩ = ⟨travBlock b k, .ok (viewBlock b k, ⟨b + (encBlock k).length, r⟩)⟩ := by
  obtain ⟨hh, hn, hw⟩ := hk
  unfold decBlock encBlock
  rw [List.append_assoc, List.append_assoc, decHeader_enc _ _ _ hh]
  simp only [D_mk_ok_bind]
  rw [decCompact_enc _ _ _ hn]
  simp only [D_lift_ok_bind, D_emit_bind]
  rw [decBlockLoop_enc _ _ _ hw]
  simp only [D_mk_ok_bind, D_pure, List.append_nil]
  rw [viewOf_eq (e := encHeader k.header ++ (encCompact k.txs.length ++ (k.txs.map encTx).flatten))
    (by simp only [List.append_assoc])]
  simp only [travBlock, travHeader, viewBlock, encBlock, List.length_append, Nat.add_assoc, List.append_assoc,
    encHeader_length hh, List.cons_append, List.nil_append]

theorem decBlockLoop_eq_ok : ∀ (n : Nat) (s rem : Slice), (decBlockLoop n s).res = .ok rem →
    ∃ l : List TxS, l.length = n ∧ (∀ x ∈ l, x.WF) ∧ s.bytes = (l.map encTx).flatten ++ rem.bytes ∧
      rem.base = s.base + (l.map encTx).flatten.length := by
  intro n
  induction n with
  | zero =>
    intro s rem h
    cases h
    exact ⟨[], rfl, by simp, by simp, by simp⟩
  | succ n ih =>
    intro s rem h
    rw [decBlockLoop] at h
    obtain ⟨⟨x, r⟩, h1, h⟩ := D_bind_res_eq_ok h
    obtain ⟨x1, w1, e1, b1⟩ := decTransaction_eq_ok h1
    obtain ⟨l, hl, wl, el, bl⟩ := ih _ _ h
    refine ⟨x1 :: l, by simp [hl], ?_, ?_, ?_⟩
    · intro y hy
      rcases List.mem_cons.1 hy with rfl | hy
      · exact w1
      · exact wl y hy
    · rw [flatten_cons_append, ← el, ← e1]
    · simp only [List.map_cons, List.flatten_cons, List.length_append]; omega

theorem decBlock_eq_ok {s : Slice} {o : BlockV} {rem : Slice} (h : (decBlock s).res = .ok (o, rem)) :
    ∃ k : BlockS, k.WF ∧ s.bytes = encBlock k ++ rem.bytes ∧ rem.base = s.base + (encBlock k).length := by
  unfold decBlock at h
  obtain ⟨⟨hv, r⟩, h0, h⟩ := D_bind_res_eq_ok h
  obtain ⟨⟨n, r1⟩, h1, h⟩ := D_bind_res_eq_ok h
  obtain ⟨_, _, h⟩ := D_bind_res_eq_ok h
  obtain ⟨rem', h2, h⟩ := D_bind_res_eq_ok h
  cases h
  obtain ⟨hd, hhd, e0, b0⟩ := decHeader_eq_ok h0
  obtain ⟨hn, e1, b1⟩ := decCompact_eq_ok h1
  obtain ⟨l, hl, wl, el, bl⟩ := decBlockLoop_eq_ok _ _ _ h2
  subst hl
  refine ⟨⟨hd, l⟩, ⟨hhd, hn, wl⟩, ?_, ?_⟩
  · simp only [encBlock, List.append_assoc]; rw [← el]
    rw [← e1]; exact e0
  · simp only [encBlock, List.length_append]
    simp only [D_lift_res] at *
    omega

theorem decBlock_eq_ok' {s : Slice} {o : BlockV} {rem : Slice} (h : (decBlock s).res = .ok (o, rem)) :
    ∃ k : BlockS, k.WF ∧ s.bytes = encBlock k ++ rem.bytes ∧ rem.base = s.base + (encBlock k).length ∧
      o = viewBlock s.base k := by
  obtain ⟨x, hw, e, hb⟩ := decBlock_eq_ok h
  refine ⟨x, hw, e, hb, ?_⟩
  obtain ⟨b, bs⟩ := s
  simp only at e hb ⊢
  subst e
  rw [decBlock_enc b x _ hw] at h
  exact (Prod.mk.inj (Res.ok.inj h)).1.symm

theorem encBlock_unique {k k' : BlockS} {r r' : Bytes} (hk : k.WF) (hk' : k'.WF)
    (h : encBlock k ++ r = encBlock k' ++ r') : k = k' ∧ r = r' := by
  obtain ⟨hd, l⟩ := k
  obtain ⟨hd', l'⟩ := k'
  obtain ⟨hh, hn, hw⟩ := hk
  obtain ⟨hh', hn', hw'⟩ := hk'
  simp only [encBlock, List.append_assoc] at h
  obtain ⟨e1, h1⟩ := encHeader_unique hh hh' h
  obtain ⟨e2, h2⟩ := encCompact_unique hn hn' h1
  obtain ⟨e3, h3⟩ := flatten_unique encTx TxS.WF (fun _ _ _ _ a b c => encTx_unique a b c) l l' r r' e2 hw hw' h2
  simp only at e1 e3
  subst e1 e3
  exact ⟨rfl, h3⟩

end BS.Enc
