import BS.Lemmas.RefProps
/-
  Accessors of parsed objects never panic: the facts about views they rely on.
-/
namespace BS.Ref
open BS BS.Spec VM

theorem readI32_ok {a : Slice} (h : 4 ≤ a.len) : Num.readI32 a = .ok (toI32 (leN (a.bytes.take 4))) := by
  unfold Num.readI32
  rw [read_eq, if_neg (by omega)]

theorem acc_version (t : TxV) (h : 4 ≤ t.slice.len) : ∃ x, t.version = .ok x := by
  unfold TxV.version
  rw [to_ok h]
  simp only [Res.bind_ok]
  rw [readI32_ok (by rw [stake_len h]; omega)]
  exact ⟨_, rfl⟩

theorem acc_locktime (t : TxV) (h : 4 ≤ t.slice.len) : ∃ x, t.locktime = .ok x := by
  unfold TxV.locktime subU
  rw [if_pos h]
  simp only [Res.bind_ok]
  rw [from_ok (by omega)]
  simp only [Res.bind_ok]
  rw [read_eq, if_neg (by simp; omega)]
  exact ⟨_, rfl⟩

theorem acc_txidPreimage (t : TxV) (h : 4 ≤ t.slice.len) (hio : ∀ len, t.ioLen = some len → len + 10 ≤ t.slice.len)
    (hl : t.slice.len < 2 ^ 62) : ∃ x, t.txidPreimage = .ok x := by
  unfold TxV.txidPreimage
  cases hi : t.ioLen with
  | none => exact ⟨_, rfl⟩
  | some len =>
    have := hio len hi
    simp only []
    rw [to_ok h, addU_ok (by omega)]
    simp only [Res.bind_ok]
    rw [range_ok ⟨by omega, by omega⟩]
    unfold subU
    rw [if_pos h]
    simp only [Res.bind_ok]
    rw [from_ok (by omega)]
    exact ⟨_, rfl⟩

theorem acc_weight (t : TxV) (hio : ∀ len, t.ioLen = some len → len + 10 ≤ t.slice.len)
    (hl : t.slice.len < 2 ^ 62) : ∃ x, t.weight = .ok x := by
  unfold TxV.weight
  cases hi : t.ioLen with
  | none =>
    simp only []
    unfold mulU USIZE
    rw [if_pos (by omega)]
    exact ⟨_, rfl⟩
  | some len =>
    have := hio len hi
    simp only []
    rw [addU_ok (by omega)]
    simp only [Res.bind_ok]
    rw [addU_ok (by omega)]
    simp only [Res.bind_ok]
    unfold mulU USIZE
    rw [if_pos (by omega)]
    simp only [Res.bind_ok]
    rw [addU_ok (by omega)]
    exact ⟨_, rfl⟩

theorem acc_vout {sl : Slice} (h : sl.len = 36) : ∃ x, OutPointV.vout ⟨sl⟩ = .ok x := by
  unfold OutPointV.vout
  simp only []
  rw [range_ok ⟨by omega, by omega⟩]
  simp only [Res.bind_ok]
  rw [if_pos (by rw [stake_len (by simp; omega)])]
  exact ⟨_, rfl⟩

end BS.Ref
