import BS.Lemmas.EncPrefix
/-
  the traversal functions, element by element: index and absolute offset of the j-th element event
-/
namespace BS.Enc
open BS BS.Spec

theorem travTxInsFrom_get (l : List TxInS) : ∀ (b i j : Nat) (x : TxInS), l[j]? = some x →
    (travTxInsFrom b i l)[j]? =
      some (.txIn (i + j) (viewTxIn (b + ((l.take j).map encTxIn).flatten.length) x)) := by
  induction l with
  | nil => intro b i j x h; simp at h
  | cons y l ih =>
    intro b i j x h
    cases j with
    | zero =>
      simp only [List.getElem?_cons_zero, Option.some.injEq] at h
      subst h
      simp [travTxInsFrom]
    | succ j =>
      simp only [List.getElem?_cons_succ] at h
      simp only [travTxInsFrom, List.getElem?_cons_succ, ih _ _ _ _ h, List.take_succ_cons, List.map_cons,
        List.flatten_cons, List.length_append]
      rw [Nat.add_assoc, Nat.add_assoc, Nat.add_comm 1 j]

theorem travTxOutsFrom_get (l : List TxOutS) : ∀ (b i j : Nat) (x : TxOutS), l[j]? = some x →
    (travTxOutsFrom b i l)[j]? =
      some (.txOut (i + j) (viewTxOut (b + ((l.take j).map encTxOut).flatten.length) x)) := by
  induction l with
  | nil => intro b i j x h; simp at h
  | cons y l ih =>
    intro b i j x h
    cases j with
    | zero =>
      simp only [List.getElem?_cons_zero, Option.some.injEq] at h
      subst h
      simp [travTxOutsFrom]
    | succ j =>
      simp only [List.getElem?_cons_succ] at h
      simp only [travTxOutsFrom, List.getElem?_cons_succ, ih _ _ _ _ h, List.take_succ_cons, List.map_cons,
        List.flatten_cons, List.length_append]
      rw [Nat.add_assoc, Nat.add_assoc, Nat.add_comm 1 j]

theorem travWitElems_get (l : List Bytes) : ∀ (b i j : Nat) (x : Bytes), l[j]? = some x →
    (travWitElems b i l)[j]? =
      some (.witnessElement (i + j)
        ⟨b + ((l.take j).map encVarBytes).flatten.length + (encCompact x.length).length, x⟩) := by
  induction l with
  | nil => intro b i j x h; simp at h
  | cons y l ih =>
    intro b i j x h
    cases j with
    | zero =>
      simp only [List.getElem?_cons_zero, Option.some.injEq] at h
      subst h
      simp [travWitElems]
    | succ j =>
      simp only [List.getElem?_cons_succ] at h
      simp only [travWitElems, List.getElem?_cons_succ, ih _ _ _ _ h, List.take_succ_cons, List.map_cons,
        List.flatten_cons, List.length_append]
      rw [Nat.add_assoc i, Nat.add_comm 1 j]
      congr 3
      omega

theorem travWitElems_length (l : List Bytes) : ∀ b i, (travWitElems b i l).length = l.length := by
  induction l with
  | nil => intro b i; rfl
  | cons x l ih => intro b i; simp [travWitElems, ih]

end BS.Enc
