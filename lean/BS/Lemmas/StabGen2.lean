import BS.Lemmas.StabGen
import BS.Lemmas.StabCutD
/-
  Extension + truncation stability together: a successful run depends only on the bytes it consumes.
-/
namespace BS.Stab
open BS BS.Spec

section general
variable {α : Type} {e : Bytes → α → α} {t : Nat → α → α} {sel : α → Slice} {d : Slice → D α}

/-- if the run on `p` succeeds leaving `sel a`, then the run on exactly the consumed bytes followed by any `y`
    makes the same callbacks and returns the same result with remainder `y` -/
theorem StableG.exact (h : StableG e sel d) (htp : ∀ s c, TP s c sel (t c) (d (cutS s c)) (d s))
    {b : Nat} {p : Bytes} {a : α} (hs : (d ⟨b, p⟩).res = .ok a) (y : Bytes) :
    d ⟨b, p.take (p.length - (sel a).len) ++ y⟩ = ⟨(d ⟨b, p⟩).trace, .ok (e y (t (sel a).len a))⟩ := by
  have h1 := (htp ⟨b, p⟩ (sel a).len).2 a hs (Nat.le_refl _)
  have h2 := h.extend_ok h1 y
  have h3 := h.extend_ok h1 (p.drop (p.length - (sel a).len))
  have hx : extS (cutS ⟨b, p⟩ (sel a).len) (p.drop (p.length - (sel a).len)) = ⟨b, p⟩ := extS_cutS ⟨b, p⟩ _
  rw [hx] at h3
  have htr : (d ⟨b, p⟩).trace = (d (cutS ⟨b, p⟩ (sel a).len)).trace := by rw [h3]
  rw [htr]
  exact h2
end general

theorem cut_all (r : Slice) (y : Bytes) : extS (cutS r r.len) y = ⟨r.base, y⟩ := by
  simp [extS, cutS]

section pair
variable {α : Type} {d : Slice → D (α × Slice)}

theorem D_exact (h : ∀ s x, Ext (eP x) (d s) (d (extS s x))) (htp : ∀ s c, TP s c Prod.snd (tP c) (d (cutS s c)) (d s))
    {b : Nat} {p : Bytes} {o : α} {rem : Slice} (hs : (d ⟨b, p⟩).res = .ok (o, rem)) (y : Bytes) :
    d ⟨b, p.take (p.length - rem.bytes.length) ++ y⟩ = ⟨(d ⟨b, p⟩).trace, .ok (o, ⟨rem.base, y⟩)⟩ := by
  have := (stableG_pair h).exact htp hs y
  simp only [eP, cut_all] at this
  exact this

theorem D_suffix_indep (h : ∀ s x, Ext (eP x) (d s) (d (extS s x)))
    (htp : ∀ s c, TP s c Prod.snd (tP c) (d (cutS s c)) (d s))
    {b : Nat} {p x : Bytes} {o : α} {rem : Slice} (hs : (d ⟨b, p ++ x⟩).res = .ok (o, rem)) (hx : rem.bytes = x)
    (y : Bytes) : d ⟨b, p ++ y⟩ = ⟨(d ⟨b, p ++ x⟩).trace, .ok (o, ⟨rem.base, y⟩)⟩ := by
  have := D_exact h htp hs y
  rw [hx] at this
  simpa using this
end pair

section pure
variable {α : Type} {f : Slice → Res (α × Slice)}

theorem R_exact (h : ∀ s x, ExtR (eP x) (f s) (f (extS s x)))
    (htp : ∀ s c, TPR s c Prod.snd (tP c) (f (cutS s c)) (f s))
    {b : Nat} {p : Bytes} {o : α} {rem : Slice} (hs : f ⟨b, p⟩ = .ok (o, rem)) (y : Bytes) :
    f ⟨b, p.take (p.length - rem.bytes.length) ++ y⟩ = .ok (o, ⟨rem.base, y⟩) := by
  have := (stableG_pure h).exact (t := tP) (fun s c => TP.lift (htp s c)) (b := b) (p := p) hs y
  simp only [eP, cut_all] at this
  exact congrArg D.res this

theorem R_suffix_indep (h : ∀ s x, ExtR (eP x) (f s) (f (extS s x)))
    (htp : ∀ s c, TPR s c Prod.snd (tP c) (f (cutS s c)) (f s))
    {b : Nat} {p x : Bytes} {o : α} {rem : Slice} (hs : f ⟨b, p ++ x⟩ = .ok (o, rem)) (hx : rem.bytes = x)
    (y : Bytes) : f ⟨b, p ++ y⟩ = .ok (o, ⟨rem.base, y⟩) := by
  have := R_exact h htp hs y
  rw [hx] at this
  simpa using this
end pure

/-! `decWitness` -/
theorem W_exact {b : Nat} {p : Bytes} {o : WitnessV} {em : Bool} {rem : Slice}
    (hs : (decWitness ⟨b, p⟩).res = .ok (o, em, rem)) (y : Bytes) :
    decWitness ⟨b, p.take (p.length - rem.bytes.length) ++ y⟩
      = ⟨(decWitness ⟨b, p⟩).trace, .ok (o, em, ⟨rem.base, y⟩)⟩ := by
  have := (stableG_triple ext_decWitness).exact (t := tP3) tp_decWitness hs y
  simp only [eP3, cut_all] at this
  exact this

theorem W_suffix_indep {b : Nat} {p x : Bytes} {o : WitnessV} {em : Bool} {rem : Slice}
    (hs : (decWitness ⟨b, p ++ x⟩).res = .ok (o, em, rem)) (hx : rem.bytes = x) (y : Bytes) :
    decWitness ⟨b, p ++ y⟩ = ⟨(decWitness ⟨b, p ++ x⟩).trace, .ok (o, em, ⟨rem.base, y⟩)⟩ := by
  have := W_exact hs y
  rw [hx] at this
  simpa using this

end BS.Stab
