import BS.Lemmas.EncInside
import BS.Lemmas.EncBlock
import BS.Lemmas.RefPure
import BS.Impl.Extra
/-
  helper lemmas for C05 (borrowed-only representation): `Enc.Inside t s` (`t` is the part of `s` at `t`'s absolute
  position) is reflexive and transitive, `&s[a..]`, `&s[..a]`, `&s[a..b]` produce sub-slices, and every slice stored in
  an object a L2 decoder returns — and the remainder — lies inside the input.
-/
namespace BS.Fin
open BS BS.Spec BS.Enc

/-! ### `Inside` -/

theorem inside_refl (s : Slice) : Inside s s :=
  inside_of_eq [] [] rfl (by simp)

theorem inside_split {t s : Slice} (h : Inside t s) :
    ∃ pre post, s.bytes = pre ++ (t.bytes ++ post) ∧ t.base = s.base + pre.length := by
  obtain ⟨h1, h2, h3⟩ := h
  simp only [Slice.len] at h2
  refine ⟨s.bytes.take (t.base - s.base), (s.bytes.drop (t.base - s.base)).drop t.len, ?_, ?_⟩
  · rw [h3, List.take_append_drop, List.take_append_drop]
  · rw [List.length_take, Nat.min_eq_left (by omega)]; omega

theorem inside_iff {t s : Slice} :
    Inside t s ↔ ∃ pre post, s.bytes = pre ++ (t.bytes ++ post) ∧ t.base = s.base + pre.length :=
  ⟨inside_split, fun ⟨pre, post, e, b⟩ => inside_of_eq pre post b e⟩

theorem inside_trans {a b c : Slice} (h1 : Inside a b) (h2 : Inside b c) : Inside a c := by
  obtain ⟨p1, q1, e1, b1⟩ := inside_split h1
  obtain ⟨p2, q2, e2, b2⟩ := inside_split h2
  refine inside_of_eq (p2 ++ p1) (q1 ++ q2) (by rw [b1, b2, List.length_append]; omega) ?_
  rw [e2, e1]; simp only [List.append_assoc]

/-- the empty slice at any position inside the range -/
theorem inside_len_le {t s : Slice} (h : Inside t s) : t.len ≤ s.len := by
  obtain ⟨h1, h2, _⟩ := h; omega

/-! ### the three slicing primitives of L1 -/

theorem from_inside {s r : Slice} {a : Nat} (h : s.from_ a = .ok r) : Inside r s := by
  unfold Slice.from_ at h
  split at h
  · rename_i ha
    cases h
    refine inside_of_eq (s.bytes.take a) [] ?_ (by simp)
    simp only [Slice.len] at ha
    rw [List.length_take, Nat.min_eq_left ha]
  · cases h

theorem to_inside {s r : Slice} {a : Nat} (h : s.to_ a = .ok r) : Inside r s := by
  unfold Slice.to_ at h
  split at h
  · cases h
    exact inside_of_eq [] (s.bytes.drop a) rfl (by simp)
  · cases h

theorem range_inside {s r : Slice} {a b : Nat} (h : s.range a b = .ok r) : Inside r s := by
  unfold Slice.range at h
  split at h
  · rename_i hab
    cases h
    refine inside_of_eq (s.bytes.take a) ((s.bytes.drop a).drop (b - a)) ?_ ?_
    · simp only [Slice.len] at hab
      rw [List.length_take, Nat.min_eq_left (by omega)]
    · simp only [List.take_append_drop]
  · cases h

/-! ### what a decoder consumed and what it left -/

/-- the consumed prefix (as a view at the input's offset) and the remainder are both inside the input -/
theorem borrowed_of_enc {s rem : Slice} {e : Bytes} (hb : s.bytes = e ++ rem.bytes) (hr : rem.base = s.base + e.length) :
    Inside ⟨s.base, e⟩ s ∧ Inside rem s :=
  ⟨inside_of_eq [] rem.bytes rfl (by simpa using hb), inside_of_eq e [] hr (by simpa using hb)⟩

theorem decScript_borrowed {s : Slice} {o : ScriptV} {rem : Slice} (h : decScript s = .ok (o, rem)) :
    Inside o.slice s ∧ Inside rem s := by
  obtain ⟨x, _, e, b, rfl⟩ := decScript_eq_ok' h
  exact borrowed_of_enc e b

theorem decOutPoint_borrowed {s : Slice} {o : OutPointV} {rem : Slice} (h : decOutPoint s = .ok (o, rem)) :
    Inside o.slice s ∧ Inside rem s := by
  obtain ⟨x, _, e, b, rfl⟩ := decOutPoint_eq_ok' h
  exact borrowed_of_enc e b

/-- inside the view of an input: the outpoint and the script views are parts of the input's own slice -/
theorem viewTxIn_parts (b : Nat) (x : TxInS) :
    Inside (viewTxIn b x).prevout.slice (viewTxIn b x).slice ∧
    Inside (viewTxIn b x).scriptSig.slice (viewTxIn b x).slice := by
  have h := viewTxIn_inside (i := 0) (s := ⟨b, encTxIn x⟩) (x := x) (rem := []) (by simp)
  exact ⟨h _ (by simp [Event.slices]), h _ (by simp [Event.slices])⟩

theorem viewTxOut_parts (b : Nat) (x : TxOutS) :
    Inside (viewTxOut b x).scriptPubkey.slice (viewTxOut b x).slice := by
  have h := viewTxOut_inside (i := 0) (s := ⟨b, encTxOut x⟩) (x := x) (rem := []) (by simp)
  exact h _ (by simp [Event.slices])

theorem decTxIn_borrowed {s : Slice} {o : TxInV} {rem : Slice} (h : decTxIn s = .ok (o, rem)) :
    Inside o.slice s ∧ Inside o.prevout.slice s ∧ Inside o.scriptSig.slice s ∧ Inside rem s ∧
    Inside o.prevout.slice o.slice ∧ Inside o.scriptSig.slice o.slice := by
  obtain ⟨x, _, e, b, rfl⟩ := decTxIn_eq_ok' h
  have h0 := borrowed_of_enc e b
  have hp := viewTxIn_parts s.base x
  exact ⟨h0.1, inside_trans hp.1 h0.1, inside_trans hp.2 h0.1, h0.2, hp.1, hp.2⟩

theorem decTxOut_borrowed {s : Slice} {o : TxOutV} {rem : Slice} (h : decTxOut s = .ok (o, rem)) :
    Inside o.slice s ∧ Inside o.scriptPubkey.slice s ∧ Inside rem s ∧ Inside o.scriptPubkey.slice o.slice := by
  obtain ⟨x, _, e, b, rfl⟩ := decTxOut_eq_ok' h
  have h0 := borrowed_of_enc e b
  have hp := viewTxOut_parts s.base x
  exact ⟨h0.1, inside_trans hp h0.1, h0.2, hp⟩

theorem decTxIns_borrowed {s : Slice} {o : TxInsV} {rem : Slice} (h : (decTxIns s).res = .ok (o, rem)) :
    Inside o.slice s ∧ Inside rem s := by
  obtain ⟨x, _, _, e, b, rfl⟩ := decTxIns_eq_ok' h
  exact borrowed_of_enc e b

theorem decTxOuts_borrowed {s : Slice} {o : TxOutsV} {rem : Slice} (h : (decTxOuts s).res = .ok (o, rem)) :
    Inside o.slice s ∧ Inside rem s := by
  obtain ⟨x, _, _, e, b, rfl⟩ := decTxOuts_eq_ok' h
  exact borrowed_of_enc e b

theorem decWitness_borrowed {s : Slice} {o : WitnessV} {em : Bool} {rem : Slice}
    (h : (decWitness s).res = .ok (o, em, rem)) : Inside o.slice s ∧ Inside rem s := by
  obtain ⟨x, _, e, b, rfl, _⟩ := decWitness_eq_ok' h
  exact borrowed_of_enc e b

theorem decWitnesses_borrowed {s : Slice} {n : Nat} {o : WitnessesV} {rem : Slice}
    (h : (decWitnesses s n).res = .ok (o, rem)) : Inside o.slice s ∧ Inside rem s := by
  obtain ⟨x, _, _, e, b, rfl⟩ := decWitnesses_eq_ok' h
  exact borrowed_of_enc e b

theorem decTransaction_borrowed {s : Slice} {o : TxV} {rem : Slice} (h : (decTransaction s).res = .ok (o, rem)) :
    Inside o.slice s ∧ Inside rem s := by
  obtain ⟨x, _, e, b, rfl⟩ := decTransaction_eq_ok' h
  exact borrowed_of_enc e b

theorem decHeader_borrowed {s : Slice} {o : HeaderV} {rem : Slice} (h : (decHeader s).res = .ok (o, rem)) :
    Inside o.slice s ∧ Inside rem s := by
  obtain ⟨x, _, e, b, rfl⟩ := decHeader_eq_ok' h
  exact borrowed_of_enc e b

theorem decBlock_borrowed {s : Slice} {o : BlockV} {rem : Slice} (h : (decBlock s).res = .ok (o, rem)) :
    Inside o.slice s ∧ Inside o.header.slice s ∧ Inside rem s ∧ Inside o.header.slice o.slice := by
  obtain ⟨k, _, e, b, rfl⟩ := decBlock_eq_ok' h
  have h0 := borrowed_of_enc e b
  have hp : Inside (viewBlock s.base k).header.slice (viewBlock s.base k).slice :=
    inside_of_eq [] (encCompact k.txs.length ++ (k.txs.map encTx).flatten) rfl
      (by simp [viewBlock, viewHeader, encBlock])
  exact ⟨h0.1, inside_trans hp h0.1, h0.2, hp⟩

/-! ### the txid preimage -/

/-- segwit form: the three parts are `&slice[..4]`, `&slice[6..6+io_len]`, `&slice[len-4..]` -/
theorem txidPreimage_segwit {t : TxV} {n : Nat} {a b c : Slice} (hn : t.ioLen = some n)
    (h : t.txidPreimage = .ok (a, b, c)) : Inside a t.slice ∧ Inside b t.slice ∧ Inside c t.slice := by
  unfold TxV.txidPreimage at h
  rw [hn] at h
  simp only at h
  obtain ⟨a', h1, h⟩ := res_bind_eq_ok h
  obtain ⟨e, _, h⟩ := res_bind_eq_ok h
  obtain ⟨b', h2, h⟩ := res_bind_eq_ok h
  obtain ⟨f, _, h⟩ := res_bind_eq_ok h
  obtain ⟨c', h3, h⟩ := res_bind_eq_ok h
  simp only [Res.pure_eq, Res.ok.injEq, Prod.mk.injEq] at h
  obtain ⟨rfl, rfl, rfl⟩ := h
  exact ⟨to_inside h1, range_inside h2, from_inside h3⟩

/-- legacy form: the whole slice and twice the static empty slice `&[]` (which borrows from nothing) -/
theorem txidPreimage_legacy {t : TxV} {a b c : Slice} (hn : t.ioLen = none)
    (h : t.txidPreimage = .ok (a, b, c)) : a = t.slice ∧ b = Slice.staticEmpty ∧ c = Slice.staticEmpty := by
  unfold TxV.txidPreimage at h
  rw [hn] at h
  simp only [Res.pure_eq, Res.ok.injEq, Prod.mk.injEq] at h
  obtain ⟨rfl, rfl, rfl⟩ := h
  exact ⟨rfl, rfl, rfl⟩

/-! ### the output iterator -/

/-- one call of `next` that yields an item: the item's views are parts of the list's slice, which is carried along -/
theorem next_borrowed {it it' : IterV} {x : TxOutV} (hl : it.outs.slice.len < 2 ^ 62)
    (h : it.next = .ok (some x, it')) :
    Inside x.slice it.outs.slice ∧ Inside x.scriptPubkey.slice it.outs.slice ∧ it'.outs = it.outs := by
  unfold IterV.next at h
  split at h
  · cases h
  · cases hf : it.outs.slice.from_ it.offset with
    | ok sub =>
      rw [hf] at h
      simp only [Res.bind_ok] at h
      have hsub := from_inside hf
      have hsl : sub.len < 2 ^ 62 := by have := inside_len_le hsub; omega
      rw [Ref.refine_txout sub hsl] at h
      cases hd : decTxOut sub with
      | ok a =>
        obtain ⟨o, r⟩ := a
        rw [hd] at h
        simp only at h
        cases ha : addU it.offset o.slice.len with
        | ok off =>
          rw [ha] at h
          simp only [Res.bind_ok, Res.pure_eq, Res.ok.injEq, Prod.mk.injEq, Option.some.injEq] at h
          obtain ⟨rfl, rfl⟩ := h
          obtain ⟨b1, b2, _, _⟩ := decTxOut_borrowed hd
          exact ⟨inside_trans b1 hsub, inside_trans b2 hsub, rfl⟩
        | err e => rw [ha] at h; cases h
        | panic p => rw [ha] at h; cases h
      | err e => rw [hd] at h; cases h
      | panic p => rw [hd] at h; cases h
    | err e => rw [hf] at h; cases h
    | panic p => rw [hf] at h; cases h

theorem next_none_outs {it it' : IterV} (h : it.next = .ok (none, it')) : it' = it := by
  unfold IterV.next at h
  split at h
  · cases h; rfl
  · cases hf : it.outs.slice.from_ it.offset with
    | ok sub =>
      rw [hf] at h
      simp only [Res.bind_ok] at h
      cases hd : TxOut.parse sub with
      | ok a =>
        obtain ⟨o, r⟩ := a
        rw [hd] at h
        simp only at h
        cases ha : addU it.offset o.slice.len with
        | ok off => rw [ha] at h; simp at h
        | err e => rw [ha] at h; cases h
        | panic p => rw [ha] at h; cases h
      | err e => rw [hd] at h; cases h
      | panic p => rw [hd] at h; cases h
    | err e => rw [hf] at h; cases h
    | panic p => rw [hf] at h; cases h

/-- every item the iterator yields when run to exhaustion is a view into the list's slice -/
theorem collect_borrowed : ∀ (fuel : Nat) (it : IterV) (xs : List TxOutV), it.outs.slice.len < 2 ^ 62 →
    it.collect fuel = .ok xs →
    ∀ x ∈ xs, Inside x.slice it.outs.slice ∧ Inside x.scriptPubkey.slice it.outs.slice := by
  intro fuel
  induction fuel with
  | zero =>
    intro it xs _ h x hx
    cases h; cases hx
  | succ fuel ih =>
    intro it xs hl h x hx
    unfold IterV.collect at h
    cases hn : it.next with
    | ok a =>
      obtain ⟨ox, it'⟩ := a
      rw [hn] at h
      cases ox with
      | none => cases h; cases hx
      | some o =>
        simp only at h
        obtain ⟨b1, b2, ho⟩ := next_borrowed hl hn
        cases hc : IterV.collect fuel it' with
        | ok l =>
          rw [hc] at h
          cases h
          rcases List.mem_cons.1 hx with rfl | hx
          · exact ⟨b1, b2⟩
          · have := ih it' l (by rw [ho]; exact hl) hc x hx
            rw [ho] at this
            exact this
        | err e => rw [hc] at h; cases h
        | panic p => rw [hc] at h; cases h
    | err e => rw [hn] at h; cases h
    | panic p => rw [hn] at h; cases h

theorem iter_outs {o : TxOutsV} {it : IterV} (h : o.iter = .ok it) : it.outs = o := by
  unfold TxOutsV.iter at h
  split at h
  · cases h; rfl
  · cases h
  · cases h

end BS.Fin
