import BS.Lemmas.Scan
/- helper lemmas for C18: fixed-width number codecs -/
namespace BS.Acc
open BS

theorem take_append_len {α} (p r : List α) {w : Nat} (h : p.length = w) : (p ++ r).take w = p := by
  subst h; simp

theorem drop_append_len {α} (p r : List α) {w : Nat} (h : p.length = w) : (p ++ r).drop w = r := by
  subst h; simp

/-- `Num.parse` on `w` bytes followed by anything -/
theorem parse_append (w b : Nat) (p r : Bytes) (hp : p.length = w) :
    Num.parse w ⟨b, p ++ r⟩ = .ok (⟨p⟩, ⟨b + w, r⟩) := by
  unfold Num.parse Slice.splitAtChecked Slice.splitAt Slice.len
  have h1 : ¬ ((p ++ r).length < w) := by simp [hp]
  have h2 : w ≤ (p ++ r).length := by simp [hp]
  simp only [h1, h2, if_false, if_true, take_append_len p r hp, drop_append_len p r hp, hp]

/-- `Num.read` on `w` bytes followed by anything -/
theorem read_append (w b : Nat) (p r : Bytes) (hp : p.length = w) :
    Num.read w ⟨b, p ++ r⟩ = .ok (leN p) := by
  unfold Num.read Slice.get? Slice.len
  have h2 : 0 ≤ w ∧ w ≤ (p ++ r).length := by simp [hp]
  simp only [h2, and_self, if_true, List.drop_zero, Nat.sub_zero, take_append_len p r hp, hp]

/-- `Num.read` in general: the first `w` bytes when there are that many -/
theorem read_eq (w : Nat) (s : Slice) :
    Num.read w s = if w ≤ s.len then .ok (leN (s.bytes.take w)) else .err .moreBytesNeeded := by
  unfold Num.read Slice.get? Slice.len
  by_cases h : w ≤ s.bytes.length
  · have hl : (s.bytes.take w).length = w := by simp; omega
    simp [h, hl]
  · simp [h]

theorem parse_eq (w : Nat) (s : Slice) :
    Num.parse w s = if w ≤ s.len then .ok (⟨s.bytes.take w⟩, ⟨s.base + w, s.bytes.drop w⟩) else .err .moreBytesNeeded := by
  unfold Num.parse Slice.splitAtChecked Slice.splitAt Slice.len
  by_cases h : w ≤ s.bytes.length
  · have hl : (s.bytes.take w).length = w := by simp; omega
    have h' : ¬ (s.bytes.length < w) := by omega
    simp [h, h', hl]
  · have h' : s.bytes.length < w := by omega
    simp [h, h']

end BS.Acc
