import BS.Lemmas.Stab
/-
  What a visitor actually receives of a callback sequence (`replay` stops at the first `Break`), and its monotonicity
  in the callback sequence.
-/
namespace BS.Stab
open BS BS.Spec

/-- the calls `replay v st t _` really makes: up to and including the first breakable call answered `Break` -/
def delivered {σ : Type} (v : Visitor σ) : σ → List Event → List Event
  | _, [] => []
  | st, e :: es =>
    let x := v.step st e
    if e.breakable && x.2 then [e] else e :: delivered v x.1 es

/-- `delivered` is faithful to `replay`: the visitor state after `replay` is the state after exactly those calls -/
theorem replay_state {σ α : Type} (v : Visitor σ) (st : σ) (t : List Event) (r : Res α) :
    (replay v st t r).1 = (delivered v st t).foldl (fun s e => (v.step s e).1) st := by
  induction t generalizing st with
  | nil => rfl
  | cons e es ih =>
    simp only [replay, delivered]
    split
    · rfl
    · rw [ih]; rfl

/-- whether some breakable call is answered `Break` -/
def broke {σ : Type} (v : Visitor σ) : σ → List Event → Bool
  | _, [] => false
  | st, e :: es =>
    let x := v.step st e
    if e.breakable && x.2 then true else broke v x.1 es

/-- `replay` answers `VisitBreak` exactly when a call broke, and the decoder's own answer otherwise -/
theorem replay_res {σ α : Type} (v : Visitor σ) (st : σ) (t : List Event) (r : Res α) :
    (replay v st t r).2 = if broke v st t then .err .visitBreak else r := by
  induction t generalizing st with
  | nil => rfl
  | cons e es ih =>
    simp only [replay, broke]
    split
    · rfl
    · rw [ih]

/-- without a break everything is delivered -/
theorem delivered_of_not_broke {σ : Type} (v : Visitor σ) (st : σ) (t : List Event) (h : broke v st t = false) :
    delivered v st t = t := by
  induction t generalizing st with
  | nil => rfl
  | cons e es ih =>
    simp only [broke] at h
    simp only [delivered]
    split
    · rename_i hb; rw [if_pos hb] at h; cases h
    · rename_i hb; rw [if_neg hb] at h; rw [ih _ h]

theorem delivered_prefix {σ : Type} (v : Visitor σ) (st : σ) {t1 t2 : List Event} (h : t1 <+: t2) :
    delivered v st t1 <+: delivered v st t2 := by
  induction t1 generalizing st t2 with
  | nil => exact List.nil_prefix
  | cons e es ih =>
    obtain ⟨u, rfl⟩ := h
    simp only [List.cons_append, delivered]
    split
    · exact List.prefix_refl _
    · exact (List.cons_prefix_cons).2 ⟨rfl, ih _ (List.prefix_append _ _)⟩

/-- the recording visitor never breaks: it receives everything, newest first -/
theorem replay_recorder {α : Type} (log : List Event) (t : List Event) (r : Res α) :
    replay recorder log t r = (t.reverse ++ log, r) := by
  induction t generalizing log with
  | nil => rfl
  | cons e es ih =>
    simp only [replay, recorder, Bool.and_false, Bool.false_eq_true, if_false]
    have := ih (e :: log)
    simp only [recorder] at this
    rw [this]
    simp

end BS.Stab
