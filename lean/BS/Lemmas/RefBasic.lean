import BS.Lemmas.Scan
import BS.Impl.Parse
import BS.Spec.Decode
/-
  Refinement L1 ⊑ L2, part 1: `replay`, the two monads, slices.
-/
namespace BS.Ref
open BS BS.Spec VM

/-! ### replay as a scan: final state and "did a Break happen" -/

/-- feed events to the visitor, stop at the first Break on a breakable event; final state and whether it broke -/
def scanEv {σ : Type} (v : Visitor σ) : σ → List Event → σ × Bool
  | st, [] => (st, false)
  | st, e :: es =>
    let x := v.step st e
    if e.breakable && x.2 then (x.1, true) else scanEv v x.1 es

/-- feed events to the visitor ignoring its answers -/
def feed {σ : Type} (v : Visitor σ) (st : σ) (es : List Event) : σ :=
  es.foldl (fun st e => (v.step st e).1) st

@[simp] theorem feed_nil {σ} (v : Visitor σ) (st : σ) : feed v st [] = st := rfl
@[simp] theorem feed_cons {σ} (v : Visitor σ) (st : σ) (e : Event) (es : List Event) :
    feed v st (e :: es) = feed v (v.step st e).1 es := rfl
theorem feed_append {σ} (v : Visitor σ) (st : σ) (a b : List Event) :
    feed v st (a ++ b) = feed v (feed v st a) b := by
  simp [feed, List.foldl_append]

theorem replay_eq {σ α} (v : Visitor σ) (st : σ) (t : List Event) (r : Res α) :
    replay v st t r = ((scanEv v st t).1, if (scanEv v st t).2 then .err .visitBreak else r) := by
  induction t generalizing st with
  | nil => rfl
  | cons e es ih =>
    simp only [replay, scanEv]
    split
    · rfl
    · exact ih _

theorem scanEv_append {σ} (v : Visitor σ) (st : σ) (a b : List Event) :
    scanEv v st (a ++ b) = if (scanEv v st a).2 then scanEv v st a else scanEv v (scanEv v st a).1 b := by
  induction a generalizing st with
  | nil => simp [scanEv]
  | cons e es ih =>
    simp only [List.cons_append, scanEv]
    split
    · simp
    · exact ih _

theorem replay_append {σ α} (v : Visitor σ) (st : σ) (a b : List Event) (r : Res α)
    (h : (scanEv v st a).2 = false) :
    replay v st (a ++ b) r = replay v (scanEv v st a).1 b r := by
  rw [replay_eq, replay_eq, scanEv_append, h]; simp

theorem replay_append_break {σ α} (v : Visitor σ) (st : σ) (a b : List Event) (r : Res α)
    (h : (scanEv v st a).2 = true) :
    replay v st (a ++ b) r = ((scanEv v st a).1, .err .visitBreak) := by
  rw [replay_eq, scanEv_append, h]; simp [h]

/-! ### the simulation relation -/

/-- the L1 visit `m` behaves, for every visitor and state, like the L2 run `d` -/
def Sim {σ α : Type} (m : VM σ α) (d : D α) : Prop := ∀ v st, m v st = d.run v st

theorem run_eq {σ α} (d : D α) (v : Visitor σ) (st : σ) :
    d.run v st = ((scanEv v st d.trace).1, if (scanEv v st d.trace).2 then .err .visitBreak else d.res) :=
  replay_eq _ _ _ _

theorem sim_pure {σ α} (a : α) : Sim (pure a : VM σ α) (pure a : D α) := fun _ _ => rfl

theorem sim_lift {σ α} (r : Res α) : Sim (lift r : VM σ α) (D.lift r) := fun _ _ => rfl

theorem sim_bind {σ α β} {m : VM σ α} {d : D α} {f : α → VM σ β} {g : α → D β}
    (h1 : Sim m d) (h2 : ∀ a, d.res = .ok a → Sim (f a) (g a)) : Sim (m >>= f) (d >>= g) := by
  intro v st
  show VM.bind' m f v st = D.run (D.bind' d g) v st
  unfold VM.bind' D.bind'
  rw [h1 v st, run_eq]
  cases hr : d.res with
  | ok a =>
    simp only []
    cases hb : (scanEv v st d.trace).2 with
    | true =>
      simp only [if_true]
      rw [D.run, replay_append_break _ _ _ _ _ hb]
    | false =>
      simp only [Bool.false_eq_true, if_false]
      rw [D.run, replay_append _ _ _ _ _ hb]
      exact h2 a hr v _
  | err e =>
    simp only [run_eq]
    cases (scanEv v st d.trace).2 <;> rfl
  | panic p =>
    simp only [run_eq]
    cases (scanEv v st d.trace).2 <;> rfl

/-- `lift r >>= f` against `D.lift r >>= g` -/
theorem sim_lift_bind {σ α β} {r : Res α} {f : α → VM σ β} {g : α → D β}
    (h : ∀ a, r = .ok a → Sim (f a) (g a)) : Sim (lift r >>= f) (D.lift r >>= g) :=
  sim_bind (sim_lift r) h

theorem sim_emitN {σ} (e : Event) (he : e.breakable = false) : Sim (emitN e : VM σ Unit) (D.emit e) := by
  intro v st
  simp [emitN, D.run, D.emit, replay, he]

theorem sim_emitB {σ} (e : Event) (he : e.breakable = true) : Sim (emitB e : VM σ Unit) (D.emit e) := by
  intro v st
  simp only [emitB, D.run, D.emit, replay, he, Bool.true_and]

theorem sim_emitN_bind {σ β} {e : Event} (he : e.breakable = false) {f : Unit → VM σ β} {g : Unit → D β}
    (h : Sim (f ()) (g ())) : Sim (emitN e >>= f) (D.emit e >>= g) :=
  sim_bind (sim_emitN e he) (fun _ _ => h)

theorem sim_emitB_bind {σ β} {e : Event} (he : e.breakable = true) {f : Unit → VM σ β} {g : Unit → D β}
    (h : Sim (f ()) (g ())) : Sim (emitB e >>= f) (D.emit e >>= g) :=
  sim_bind (sim_emitB e he) (fun _ _ => h)

/-! ### rewriting in the two monads -/

@[simp] theorem vm_lift_ok_bind {σ α β} (a : α) (f : α → VM σ β) : (lift (.ok a) >>= f) = f a := rfl
@[simp] theorem vm_lift_err_bind {σ α β} (e : Error) (f : α → VM σ β) : (lift (.err e : Res α) >>= f) = lift (.err e) := rfl
@[simp] theorem vm_lift_panic_bind {σ α β} (p : Panic) (f : α → VM σ β) : (lift (.panic p : Res α) >>= f) = lift (.panic p) := rfl
@[simp] theorem vm_pure_bind {σ α β} (a : α) (f : α → VM σ β) : (pure a >>= f) = f a := rfl
theorem vm_pure_eq_lift {σ α} (a : α) : (pure a : VM σ α) = lift (.ok a) := rfl

theorem vm_bind_assoc {σ α β γ} (m : VM σ α) (f : α → VM σ β) (g : β → VM σ γ) :
    (m >>= f >>= g) = (m >>= fun a => f a >>= g) := by
  funext v st
  show VM.bind' (VM.bind' m f) g v st = VM.bind' m (fun a => VM.bind' (f a) g) v st
  unfold VM.bind'
  rcases m v st with ⟨st', r⟩
  cases r <;> rfl

@[simp] theorem d_lift_ok_bind {α β} (a : α) (f : α → D β) : (D.lift (.ok a) >>= f) = f a := by
  show D.bind' _ _ = _
  simp [D.bind', D.lift]
@[simp] theorem d_lift_err_bind {α β} (e : Error) (f : α → D β) : (D.lift (.err e : Res α) >>= f) = D.lift (.err e) := rfl
@[simp] theorem d_lift_panic_bind {α β} (p : Panic) (f : α → D β) : (D.lift (.panic p : Res α) >>= f) = D.lift (.panic p) := rfl
@[simp] theorem d_pure_bind {α β} (a : α) (f : α → D β) : (pure a >>= f) = f a := by
  show D.bind' _ _ = _
  simp [D.bind', D.pure', pure]
theorem d_pure_eq_lift {α} (a : α) : (pure a : D α) = D.lift (.ok a) := rfl

theorem d_bind_assoc {α β γ} (m : D α) (f : α → D β) (g : β → D γ) :
    (m >>= f >>= g) = (m >>= fun a => f a >>= g) := by
  show D.bind' (D.bind' m f) g = D.bind' m (fun a => D.bind' (f a) g)
  unfold D.bind'
  cases hm : m.res with
  | ok a =>
    simp only []
    cases hf : (f a).res <;> simp [List.append_assoc]
  | err e => simp
  | panic p => simp

/-- trace/res of a bind -/
theorem d_bind_trace_ok {α β} {m : D α} {a : α} (f : α → D β) (h : m.res = .ok a) :
    (m >>= f).trace = m.trace ++ (f a).trace ∧ (m >>= f).res = (f a).res := by
  show (D.bind' m f).trace = _ ∧ (D.bind' m f).res = _
  unfold D.bind'; rw [h]; exact ⟨rfl, rfl⟩

theorem d_bind_err {α β} {m : D α} {e : Error} (f : α → D β) (h : m.res = .err e) :
    (m >>= f) = ⟨m.trace, .err e⟩ := by
  show D.bind' m f = _
  unfold D.bind'; rw [h]

theorem d_bind_panic {α β} {m : D α} {p : Panic} (f : α → D β) (h : m.res = .panic p) :
    (m >>= f) = ⟨m.trace, .panic p⟩ := by
  show D.bind' m f = _
  unfold D.bind'; rw [h]

/-! ### slices -/

/-- `s` without its first `k` bytes -/
def sdrop (s : Slice) (k : Nat) : Slice := ⟨s.base + k, s.bytes.drop k⟩
/-- the first `k` bytes of `s` -/
def stake (s : Slice) (k : Nat) : Slice := ⟨s.base, s.bytes.take k⟩

@[simp] theorem sdrop_len (s : Slice) (k : Nat) : (sdrop s k).len = s.len - k := by
  simp [sdrop, Slice.len]
theorem stake_len {s : Slice} {k : Nat} (h : k ≤ s.len) : (stake s k).len = k := by
  simp only [stake, Slice.len, List.length_take] at *; omega
@[simp] theorem sdrop_zero (s : Slice) : sdrop s 0 = s := by
  cases s; simp [sdrop]
@[simp] theorem sdrop_sdrop (s : Slice) (a b : Nat) : sdrop (sdrop s a) b = sdrop s (a + b) := by
  simp [sdrop, Nat.add_assoc, List.drop_drop]
@[simp] theorem sdrop_base (s : Slice) (k : Nat) : (sdrop s k).base = s.base + k := rfl
@[simp] theorem sdrop_bytes (s : Slice) (k : Nat) : (sdrop s k).bytes = s.bytes.drop k := rfl
@[simp] theorem stake_base (s : Slice) (k : Nat) : (stake s k).base = s.base := rfl
@[simp] theorem stake_bytes (s : Slice) (k : Nat) : (stake s k).bytes = s.bytes.take k := rfl

theorem from_ok {s : Slice} {k : Nat} (h : k ≤ s.len) : s.from_ k = .ok (sdrop s k) := by
  simp [Slice.from_, h, sdrop]
theorem to_ok {s : Slice} {k : Nat} (h : k ≤ s.len) : s.to_ k = .ok (stake s k) := by
  simp [Slice.to_, h, stake]
theorem splitAt_ok {s : Slice} {k : Nat} (h : k ≤ s.len) : s.splitAt k = .ok (stake s k, sdrop s k) := by
  simp [Slice.splitAt, h, stake, sdrop]
theorem viewOf_sdrop {s : Slice} {k : Nat} (h : k ≤ s.len) : viewOf s (sdrop s k) = stake s k := by
  simp only [viewOf, sdrop_len, stake]
  congr 2; omega

theorem takeN_eq (s : Slice) (n : Nat) :
    takeN s n = if s.len < n then .err .moreBytesNeeded else .ok (stake s n, sdrop s n) := rfl

theorem splitAtChecked_eq (s : Slice) (n : Nat) : s.splitAtChecked n = takeN s n := by
  unfold Slice.splitAtChecked takeN
  split
  · rfl
  · rw [splitAt_ok (by omega)]; rfl

theorem takeN_ok {s : Slice} {n : Nat} (h : n ≤ s.len) : takeN s n = .ok (stake s n, sdrop s n) := by
  rw [takeN_eq, if_neg (by omega)]
theorem takeN_short {s : Slice} {n : Nat} (h : s.len < n) : takeN s n = .err .moreBytesNeeded := by
  rw [takeN_eq, if_pos h]

theorem decLE_eq (w : Nat) (s : Slice) :
    decLE w s = if s.len < w then .err .moreBytesNeeded else .ok (leN (s.bytes.take w), sdrop s w) := by
  unfold decLE
  rw [takeN_eq]
  by_cases h : s.len < w
  · simp only [h, if_true]
  · simp only [h, if_false]; rfl

theorem read_eq (w : Nat) (s : Slice) :
    Num.read w s = if s.len < w then .err .moreBytesNeeded else .ok (leN (s.bytes.take w)) := by
  unfold Num.read Slice.get?
  by_cases h : s.len < w
  · have : ¬ (w ≤ s.len) := by omega
    simp [h, this]
  · have h' : w ≤ s.len := by omega
    have hl : (List.take w s.bytes).length = w := by
      simp only [List.length_take]; unfold Slice.len at h'; omega
    unfold Slice.len at h h'
    simp only [Nat.zero_le, true_and, h', if_true, h, if_false, List.drop_zero, Nat.sub_zero, Slice.len, hl,
      Nat.add_zero]

theorem get?_eq (s : Slice) (a b : Nat) :
    s.get? a b = if a ≤ b ∧ b ≤ s.len then some (stake (sdrop s a) (b - a)) else none := rfl

theorem range_ok {s : Slice} {a b : Nat} (h : a ≤ b ∧ b ≤ s.len) : s.range a b = .ok (stake (sdrop s a) (b - a)) := by
  simp [Slice.range, h, stake, sdrop]

end BS.Ref
