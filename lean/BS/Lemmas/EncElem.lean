import BS.Lemmas.EncDefs
/-
  the element decoders of L2: script (var bytes), outpoint, txin, txout — completeness, soundness, error class
-/
namespace BS.Enc
open BS BS.Spec

/-! ### script -/

theorem decScript_enc (b : Nat) (x r : Bytes) (hx : x.length < 2 ^ 64) :
    decScript ⟨b, encVarBytes x ++ r⟩ = .ok (viewScript b x, ⟨b + (encVarBytes x).length, r⟩) := by
  unfold decScript encVarBytes
  rw [List.append_assoc, decCompact_enc b _ _ hx]
  simp only [Res.bind_ok]
  rw [takeN_append]
  simp only [Res.bind_ok, Res.pure_eq]
  rw [← List.append_assoc, viewOf_append]
  simp only [viewScript, encVarBytes, Slice.len, List.length_append]
  congr 3
  · omega
  · omega

theorem decScript_eq_ok {s : Slice} {o : ScriptV} {rem : Slice} (h : decScript s = .ok (o, rem)) :
    ∃ x : Bytes, x.length < 2 ^ 64 ∧ s.bytes = encVarBytes x ++ rem.bytes ∧
      rem.base = s.base + (encVarBytes x).length := by
  unfold decScript at h
  obtain ⟨⟨n, r⟩, h1, h⟩ := res_bind_eq_ok h
  obtain ⟨⟨p, rem'⟩, h2, h⟩ := res_bind_eq_ok h
  cases h
  obtain ⟨hn, hs, hb⟩ := decCompact_eq_ok h1
  obtain ⟨ht, hp, _, hb'⟩ := takeN_eq_ok h2
  refine ⟨p.bytes, by omega, ?_, ?_⟩
  · rw [encVarBytes, hp, List.append_assoc, ← ht]; exact hs
  · rw [encVarBytes, hp, List.length_append, hb', hb]; omega

theorem decScript_basic (s : Slice) : Basic (decScript s) := by
  unfold decScript
  refine Basic.bind (decCompact_basic s) fun ⟨n, r⟩ => Basic.bind (takeN_basic r n) fun ⟨_, rem⟩ => trivial

/-! ### outpoint -/

theorem encOutPoint_length {o : OutPointS} (h : o.WF) : (encOutPoint o).length = 36 := by
  simp [encOutPoint, h.1]

theorem decOutPoint_enc (b : Nat) (x : OutPointS) (r : Bytes) (hx : x.WF) :
    decOutPoint ⟨b, encOutPoint x ++ r⟩ = .ok (viewOutPoint b x, ⟨b + (encOutPoint x).length, r⟩) := by
  unfold decOutPoint
  rw [takeN_append' b 36 _ r (encOutPoint_length hx), encOutPoint_length hx]
  rfl

theorem decOutPoint_eq_ok {s : Slice} {o : OutPointV} {rem : Slice} (h : decOutPoint s = .ok (o, rem)) :
    ∃ x : OutPointS, x.WF ∧ s.bytes = encOutPoint x ++ rem.bytes ∧ rem.base = s.base + (encOutPoint x).length := by
  unfold decOutPoint at h
  obtain ⟨⟨p, rem'⟩, h1, h⟩ := res_bind_eq_ok h
  cases h
  obtain ⟨ht, hp, _, hb⟩ := takeN_eq_ok h1
  have hl : (p.bytes.drop 32).length = 4 := by simp [hp]
  have hwf : OutPointS.WF ⟨p.bytes.take 32, leN (p.bytes.drop 32)⟩ := by
    refine ⟨by simp [hp], ?_⟩
    have := leN_lt (p.bytes.drop 32)
    rw [hl] at this
    simpa using this
  have henc : encOutPoint ⟨p.bytes.take 32, leN (p.bytes.drop 32)⟩ = p.bytes := by
    unfold encOutPoint
    simp only
    rw [← hl, toLE_leN, List.take_append_drop]
  refine ⟨_, hwf, by rw [henc]; exact ht, by rw [henc, hp]; exact hb⟩

theorem decOutPoint_basic (s : Slice) : Basic (decOutPoint s) := by
  unfold decOutPoint
  exact Basic.bind (takeN_basic s 36) fun ⟨_, _⟩ => trivial

/-! ### txin -/

theorem decTxIn_enc (b : Nat) (x : TxInS) (r : Bytes) (hx : x.WF) :
    decTxIn ⟨b, encTxIn x ++ r⟩ = .ok (viewTxIn b x, ⟨b + (encTxIn x).length, r⟩) := by
  unfold decTxIn encTxIn
  rw [List.append_assoc, List.append_assoc, decOutPoint_enc b _ _ hx.1]
  simp only [Res.bind_ok]
  rw [decScript_enc _ _ _ hx.2.1]
  simp only [Res.bind_ok]
  rw [decLE_toLE 4 _ _ _ (by have := hx.2.2; omega)]
  simp only [Res.bind_ok, Res.pure_eq]
  rw [← List.append_assoc, ← List.append_assoc, viewOf_append]
  simp only [viewTxIn, encTxIn, List.length_append, toLE_length]
  congr 3
  omega

theorem decTxIn_eq_ok {s : Slice} {o : TxInV} {rem : Slice} (h : decTxIn s = .ok (o, rem)) :
    ∃ x : TxInS, x.WF ∧ s.bytes = encTxIn x ++ rem.bytes ∧ rem.base = s.base + (encTxIn x).length := by
  unfold decTxIn at h
  obtain ⟨⟨op, r1⟩, h1, h⟩ := res_bind_eq_ok h
  obtain ⟨⟨sc, r2⟩, h2, h⟩ := res_bind_eq_ok h
  obtain ⟨⟨sq, r3⟩, h3, h⟩ := res_bind_eq_ok h
  cases h
  obtain ⟨x1, w1, e1, b1⟩ := decOutPoint_eq_ok h1
  obtain ⟨x2, w2, e2, b2⟩ := decScript_eq_ok h2
  obtain ⟨e3, w3, b3⟩ := decLE_eq_ok h3
  refine ⟨⟨x1, x2, sq⟩, ⟨w1, w2, by simpa using w3⟩, ?_, ?_⟩
  · simp only [encTxIn, List.append_assoc]
    rw [← e3, ← e2, ← e1]
  · simp only [encTxIn, List.length_append, toLE_length]
    omega

theorem decTxIn_basic (s : Slice) : Basic (decTxIn s) := by
  unfold decTxIn
  refine Basic.bind (decOutPoint_basic s) fun ⟨_, r1⟩ => Basic.bind (decScript_basic r1) fun ⟨_, r2⟩ =>
    Basic.bind (decLE_basic 4 r2) fun ⟨_, _⟩ => trivial

/-! ### txout -/

theorem decTxOut_enc (b : Nat) (x : TxOutS) (r : Bytes) (hx : x.WF) :
    decTxOut ⟨b, encTxOut x ++ r⟩ = .ok (viewTxOut b x, ⟨b + (encTxOut x).length, r⟩) := by
  unfold decTxOut encTxOut
  rw [List.append_assoc, decLE_toLE 8 _ _ _ (by have := hx.1; omega)]
  simp only [Res.bind_ok]
  rw [decScript_enc _ _ _ hx.2]
  simp only [Res.bind_ok, Res.pure_eq]
  rw [← List.append_assoc, viewOf_append]
  simp only [viewTxOut, encTxOut, List.length_append, toLE_length]
  congr 3
  omega

theorem decTxOut_eq_ok {s : Slice} {o : TxOutV} {rem : Slice} (h : decTxOut s = .ok (o, rem)) :
    ∃ x : TxOutS, x.WF ∧ s.bytes = encTxOut x ++ rem.bytes ∧ rem.base = s.base + (encTxOut x).length := by
  unfold decTxOut at h
  obtain ⟨⟨v, r1⟩, h1, h⟩ := res_bind_eq_ok h
  obtain ⟨⟨sc, r2⟩, h2, h⟩ := res_bind_eq_ok h
  cases h
  obtain ⟨e1, w1, b1⟩ := decLE_eq_ok h1
  obtain ⟨x2, w2, e2, b2⟩ := decScript_eq_ok h2
  refine ⟨⟨v, x2⟩, ⟨by simpa using w1, w2⟩, ?_, ?_⟩
  · simp only [encTxOut, List.append_assoc]
    rw [← e2, ← e1]
  · simp only [encTxOut, List.length_append, toLE_length]
    omega

theorem decTxOut_basic (s : Slice) : Basic (decTxOut s) := by
  unfold decTxOut
  refine Basic.bind (decLE_basic 8 s) fun ⟨_, r1⟩ => Basic.bind (decScript_basic r1) fun ⟨_, _⟩ => trivial

/-! ### fields of the canonical views -/

theorem fields_viewScript (b : Nat) (x : Bytes) : fieldsScript (viewScript b x) = x := by
  simp [fieldsScript, viewScript, encVarBytes]

theorem fields_viewOutPoint (b : Nat) {x : OutPointS} (hx : x.WF) : fieldsOutPoint (viewOutPoint b x) = x := by
  obtain ⟨txid, vout⟩ := x
  obtain ⟨h1, h2⟩ := hx
  simp only at h1 h2
  simp only [fieldsOutPoint, viewOutPoint, encOutPoint]
  rw [List.take_left' h1, List.drop_left' h1, leN_toLE_of_lt (by omega)]

theorem fields_viewTxIn (b : Nat) {x : TxInS} (hx : x.WF) : fieldsTxIn (viewTxIn b x) = x := by
  obtain ⟨p, s, q⟩ := x
  simp only [fieldsTxIn, viewTxIn, fields_viewScript, fields_viewOutPoint _ hx.1]

theorem fields_viewTxOut (b : Nat) (x : TxOutS) : fieldsTxOut (viewTxOut b x) = x := by
  obtain ⟨v, s⟩ := x
  simp only [fieldsTxOut, viewTxOut, fields_viewScript]

end BS.Enc
