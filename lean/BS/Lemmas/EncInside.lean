import BS.Lemmas.EncErr
/-
  every slice a decoder hands to a callback is a sub-slice of its input — on successful and on failing runs
-/
namespace BS.Enc
open BS BS.Spec

/-- `rem` is what is left of `s` after dropping a prefix -/
def Suffix (rem s : Slice) : Prop := ∃ p, s.bytes = p ++ rem.bytes ∧ rem.base = s.base + p.length

theorem Suffix.refl (s : Slice) : Suffix s s := ⟨[], by simp, by simp⟩

theorem Suffix.trans {a b c : Slice} (h1 : Suffix a b) (h2 : Suffix b c) : Suffix a c := by
  obtain ⟨p, e1, b1⟩ := h1
  obtain ⟨q, e2, b2⟩ := h2
  exact ⟨q ++ p, by rw [e2, e1, List.append_assoc], by rw [b1, b2, List.length_append]; omega⟩

theorem inside_of_eq {t s : Slice} (pre post : Bytes) (hb : t.base = s.base + pre.length)
    (hs : s.bytes = pre ++ (t.bytes ++ post)) : Inside t s := by
  refine ⟨by omega, ?_, ?_⟩
  · simp only [Slice.len, hs, List.length_append]; omega
  · rw [hs, hb, Nat.add_sub_cancel_left, List.drop_left' rfl, Slice.len, List.take_left' rfl]

theorem Inside.of_suffix {t rem s : Slice} (h : Inside t rem) (hs : Suffix rem s) : Inside t s := by
  obtain ⟨p, e, b⟩ := hs
  obtain ⟨h1, h2, h3⟩ := h
  refine ⟨by omega, ?_, ?_⟩
  · simp only [Slice.len, e, List.length_append] at *; omega
  · rw [h3, e]
    have : t.base - s.base = p.length + (t.base - rem.base) := by omega
    rw [this, List.drop_length_add_append]

theorem viewOf_inside {rem s : Slice} (h : Suffix rem s) : Inside (viewOf s rem) s := by
  obtain ⟨p, e, b⟩ := h
  obtain ⟨sb, sbs⟩ := s
  obtain ⟨rb, rbs⟩ := rem
  simp only at e b
  subst e
  rw [viewOf_append]
  exact inside_of_eq [] rbs rfl (by simp)

theorem EventsInside.of_suffix {tr : List Event} {rem s : Slice} (h : EventsInside tr rem) (hs : Suffix rem s) :
    EventsInside tr s := fun e he t ht => (h e he t ht).of_suffix hs

theorem EventsInside.nil (s : Slice) : EventsInside [] s := fun _ he => by cases he

theorem EventsInside.cons {e : Event} {tr : List Event} {s : Slice} (he : ∀ t ∈ Event.slices e, Inside t s)
    (h : EventsInside tr s) : EventsInside (e :: tr) s := by
  intro e' he' t ht
  rcases List.mem_cons.1 he' with rfl | he'
  · exact he t ht
  · exact h e' he' t ht

theorem EventsInside.append {tr tr' : List Event} {s : Slice} (h : EventsInside tr s) (h' : EventsInside tr' s) :
    EventsInside (tr ++ tr') s := by
  intro e he t ht
  rcases List.mem_append.1 he with he | he
  · exact h e he t ht
  · exact h' e he t ht

theorem EventsInside_bind {α β} {m : D α} {f : α → D β} {s : Slice} (hm : EventsInside m.trace s)
    (hf : ∀ a, m.res = .ok a → EventsInside (f a).trace s) : EventsInside (m >>= f).trace s := by
  intro e he t ht
  rcases D_bind_trace_mem he with h | ⟨a, ha, h⟩
  · exact hm e h t ht
  · exact hf a ha e h t ht

theorem EventsInside_lift_bind {α β} {r : Res α} {f : α → D β} {s : Slice}
    (hf : ∀ a, r = .ok a → EventsInside (f a).trace s) : EventsInside (D.lift r >>= f).trace s :=
  EventsInside_bind (EventsInside.nil s) hf

theorem EventsInside_emit_bind {β} {e : Event} {f : Unit → D β} {s : Slice}
    (he : ∀ t ∈ Event.slices e, Inside t s) (hf : EventsInside (f ()).trace s) :
    EventsInside (D.emit e >>= f).trace s := by
  rw [D_emit_bind]
  exact EventsInside.cons he hf

theorem EventsInside_pure {α} (a : α) (s : Slice) : EventsInside (pure a : D α).trace s := EventsInside.nil s

/-! ### the views of elements -/

theorem viewTxIn_inside {s : Slice} {x : TxInS} {rem : Bytes} (hs : s.bytes = encTxIn x ++ rem) :
    ∀ t ∈ Event.slices (.txIn i (viewTxIn s.base x)), Inside t s := by
  intro t ht
  simp only [Event.slices, viewTxIn, viewOutPoint, viewScript, List.mem_cons, List.not_mem_nil, or_false] at ht
  rcases ht with rfl | rfl | rfl
  · exact inside_of_eq [] rem rfl (by simpa using hs)
  · exact inside_of_eq [] (encVarBytes x.scriptSig ++ toLE 4 x.sequence ++ rem) rfl
      (by simp [hs, encTxIn, List.append_assoc])
  · exact inside_of_eq (encOutPoint x.prevout) (toLE 4 x.sequence ++ rem) rfl
      (by simp [hs, encTxIn, List.append_assoc])

theorem viewTxOut_inside {s : Slice} {x : TxOutS} {rem : Bytes} (hs : s.bytes = encTxOut x ++ rem) :
    ∀ t ∈ Event.slices (.txOut i (viewTxOut s.base x)), Inside t s := by
  intro t ht
  simp only [Event.slices, viewTxOut, viewScript, List.mem_cons, List.not_mem_nil, or_false] at ht
  rcases ht with rfl | rfl
  · exact inside_of_eq [] rem rfl (by simpa using hs)
  · exact inside_of_eq (toLE 8 x.value) rem (by simp) (by simp [hs, encTxOut, List.append_assoc])

/-! ### the list decoders -/

theorem suffix_of_eq {rem s : Slice} {p : Bytes} (e : s.bytes = p ++ rem.bytes) (b : rem.base = s.base + p.length) :
    Suffix rem s := ⟨p, e, b⟩

theorem decTxInsLoop_inside : ∀ (n i : Nat) (s : Slice), EventsInside (decTxInsLoop n i s).trace s := by
  intro n
  induction n with
  | zero => intro i s; exact EventsInside.nil s
  | succ n ih =>
    intro i s
    rw [decTxInsLoop]
    refine EventsInside_lift_bind fun ⟨x, r⟩ h1 => ?_
    obtain ⟨x', _, e, b, rfl⟩ := decTxIn_eq_ok' h1
    exact EventsInside_emit_bind (viewTxIn_inside e) ((ih _ r).of_suffix (suffix_of_eq e b))

theorem decTxIns_inside (s : Slice) : EventsInside (decTxIns s).trace s := by
  unfold decTxIns
  refine EventsInside_lift_bind fun ⟨n, r⟩ h1 => ?_
  obtain ⟨_, e, b⟩ := decCompact_eq_ok h1
  refine EventsInside_emit_bind (fun t ht => by cases ht) ?_
  exact EventsInside_bind ((decTxInsLoop_inside n 0 r).of_suffix (suffix_of_eq e b)) fun _ _ => EventsInside_pure _ _

theorem decTxOutsLoop_inside : ∀ (n i : Nat) (s : Slice), EventsInside (decTxOutsLoop n i s).trace s := by
  intro n
  induction n with
  | zero => intro i s; exact EventsInside.nil s
  | succ n ih =>
    intro i s
    rw [decTxOutsLoop]
    refine EventsInside_lift_bind fun ⟨x, r⟩ h1 => ?_
    obtain ⟨x', _, e, b, rfl⟩ := decTxOut_eq_ok' h1
    exact EventsInside_emit_bind (viewTxOut_inside e) ((ih _ r).of_suffix (suffix_of_eq e b))

theorem decTxOuts_inside (s : Slice) : EventsInside (decTxOuts s).trace s := by
  unfold decTxOuts
  refine EventsInside_lift_bind fun ⟨n, r⟩ h1 => ?_
  obtain ⟨_, e, b⟩ := decCompact_eq_ok h1
  refine EventsInside_emit_bind (fun t ht => by cases ht) ?_
  exact EventsInside_bind ((decTxOutsLoop_inside n 0 r).of_suffix (suffix_of_eq e b)) fun _ _ => EventsInside_pure _ _

theorem decWitnessLoop_inside : ∀ (n i : Nat) (s : Slice), EventsInside (decWitnessLoop n i s).trace s := by
  intro n
  induction n with
  | zero => intro i s; exact EventsInside.nil s
  | succ n ih =>
    intro i s
    rw [decWitnessLoop]
    refine EventsInside_lift_bind fun ⟨len, r⟩ h1 => ?_
    obtain ⟨_, e1, b1⟩ := decCompact_eq_ok h1
    refine EventsInside_lift_bind fun ⟨el, r'⟩ h2 => ?_
    obtain ⟨e2, _, b2, b3⟩ := takeN_eq_ok h2
    have hr : Suffix r s := suffix_of_eq e1 b1
    have hr' : Suffix r' r := suffix_of_eq e2 (by omega)
    refine EventsInside_emit_bind ?_ ((ih _ r').of_suffix (hr'.trans hr))
    intro t ht
    simp only [Event.slices, List.mem_singleton] at ht
    subst ht
    exact (inside_of_eq [] r'.bytes (by simpa using b2) (by simpa using e2)).of_suffix hr

theorem decWitness_inside (s : Slice) : EventsInside (decWitness s).trace s := by
  unfold decWitness
  refine EventsInside_lift_bind fun ⟨n, r⟩ h1 => ?_
  obtain ⟨_, e, b⟩ := decCompact_eq_ok h1
  refine EventsInside_emit_bind (fun t ht => by cases ht) ?_
  exact EventsInside_bind ((decWitnessLoop_inside n 0 r).of_suffix (suffix_of_eq e b)) fun _ _ => EventsInside_pure _ _

theorem decWitnessesLoop_inside : ∀ (n i : Nat) (s : Slice) (ae : Bool),
    EventsInside (decWitnessesLoop n i s ae).trace s := by
  intro n
  induction n with
  | zero => intro i s ae; exact EventsInside.nil s
  | succ n ih =>
    intro i s ae
    rw [decWitnessesLoop]
    refine EventsInside_emit_bind (fun t ht => by cases ht) ?_
    refine EventsInside_bind (decWitness_inside s) fun ⟨o, em, r⟩ h1 => ?_
    obtain ⟨_, _, e, b⟩ := decWitness_eq_ok h1
    exact EventsInside_emit_bind (fun t ht => by cases ht) ((ih _ r _).of_suffix (suffix_of_eq e b))

theorem decWitnesses_inside (s : Slice) (n : Nat) : EventsInside (decWitnesses s n).trace s := by
  unfold decWitnesses
  exact EventsInside_bind (decWitnessesLoop_inside n 0 s true) fun ⟨_, _⟩ _ => EventsInside_pure _ _

/-! ### transaction -/

theorem txLegTail_inside {s r : Slice} (hr : Suffix r s) : EventsInside (txLegTail s r).trace s := by
  unfold txLegTail
  refine EventsInside_bind ((decTxOuts_inside r).of_suffix hr) fun ⟨ov, r1⟩ h1 => ?_
  obtain ⟨_, _, _, e1, b1⟩ := decTxOuts_eq_ok h1
  have hr1 : Suffix r1 s := (suffix_of_eq e1 b1).trans hr
  refine EventsInside_lift_bind fun ⟨lock, rem⟩ h2 => ?_
  obtain ⟨e2, _, b2⟩ := decLE_eq_ok h2
  have hrem : Suffix rem s := (suffix_of_eq (p := toLE 4 lock) e2 (by simpa using b2)).trans hr1
  refine EventsInside_emit_bind ?_ (EventsInside_pure _ _)
  intro t ht
  simp only [Event.slices, List.mem_singleton] at ht
  subst ht
  exact viewOf_inside hrem

theorem txSegTail_inside {s r1 : Slice} (hr : Suffix r1 s) : EventsInside (txSegTail s r1).trace s := by
  unfold txSegTail
  refine EventsInside_bind ((decTxIns_inside r1).of_suffix hr) fun ⟨iv, r2⟩ h1 => ?_
  obtain ⟨_, _, _, e1, b1⟩ := decTxIns_eq_ok h1
  have hr2 : Suffix r2 s := (suffix_of_eq e1 b1).trans hr
  refine EventsInside_bind ((decTxOuts_inside r2).of_suffix hr2) fun ⟨ov, r3⟩ h2 => ?_
  obtain ⟨_, _, _, e2, b2⟩ := decTxOuts_eq_ok h2
  have hr3 : Suffix r3 s := (suffix_of_eq e2 b2).trans hr2
  refine EventsInside_bind ((decWitnesses_inside r3 _).of_suffix hr3) fun ⟨wv, r4⟩ h3 => ?_
  obtain ⟨_, _, _, e3, b3⟩ := decWitnesses_eq_ok h3
  have hr4 : Suffix r4 s := (suffix_of_eq e3 b3).trans hr3
  simp only
  split
  · exact EventsInside.nil s
  · refine EventsInside_lift_bind fun ⟨lock, rem⟩ h4 => ?_
    obtain ⟨e4, _, b4⟩ := decLE_eq_ok h4
    have hrem : Suffix rem s := (suffix_of_eq (p := toLE 4 lock) e4 (by simpa using b4)).trans hr4
    refine EventsInside_emit_bind ?_ (EventsInside_pure _ _)
    intro t ht
    simp only [Event.slices, List.mem_singleton] at ht
    subst ht
    exact viewOf_inside hrem

theorem decTransaction_inside (s : Slice) : EventsInside (decTransaction s).trace s := by
  rw [decTransaction_eq]
  refine EventsInside_lift_bind fun ⟨ver, s4⟩ h1 => ?_
  obtain ⟨e1, _, b1⟩ := decLE_eq_ok h1
  have hs4 : Suffix s4 s := suffix_of_eq (p := toLE 4 ver) e1 (by simpa using b1)
  refine EventsInside_bind ((decTxIns_inside s4).of_suffix hs4) fun ⟨iv, r⟩ h2 => ?_
  obtain ⟨_, _, _, e2, b2⟩ := decTxIns_eq_ok h2
  have hr : Suffix r s := (suffix_of_eq e2 b2).trans hs4
  simp only
  split
  · unfold txFlag
    refine EventsInside_lift_bind fun ⟨flag, r1⟩ h3 => ?_
    obtain ⟨e3, _, b3⟩ := decLE_eq_ok h3
    have hr1 : Suffix r1 s := (suffix_of_eq (p := toLE 1 flag) e3 (by simpa using b3)).trans hr
    simp only
    split
    · exact txSegTail_inside hr1
    · exact EventsInside.nil s
  · exact txLegTail_inside hr

/-! ### header, block -/

theorem decHeader_inside (s : Slice) : EventsInside (decHeader s).trace s := by
  unfold decHeader
  refine EventsInside_lift_bind fun ⟨p, rem⟩ h1 => ?_
  obtain ⟨e, _, b, _⟩ := takeN_eq_ok h1
  refine EventsInside_emit_bind ?_ (EventsInside_pure _ _)
  intro t ht
  simp only [Event.slices, List.mem_singleton] at ht
  subst ht
  exact inside_of_eq [] rem.bytes (by simpa using b) (by simpa using e)

theorem decBlockLoop_inside : ∀ (n : Nat) (s : Slice), EventsInside (decBlockLoop n s).trace s := by
  intro n
  induction n with
  | zero => intro s; exact EventsInside.nil s
  | succ n ih =>
    intro s
    rw [decBlockLoop]
    refine EventsInside_bind (decTransaction_inside s) fun ⟨o, r⟩ h1 => ?_
    obtain ⟨_, _, e, b⟩ := decTransaction_eq_ok h1
    exact (ih r).of_suffix (suffix_of_eq e b)

theorem decBlock_inside (s : Slice) : EventsInside (decBlock s).trace s := by
  unfold decBlock
  refine EventsInside_bind (decHeader_inside s) fun ⟨hv, r⟩ h0 => ?_
  obtain ⟨_, _, e0, b0⟩ := decHeader_eq_ok h0
  have hr : Suffix r s := suffix_of_eq e0 b0
  refine EventsInside_lift_bind fun ⟨n, r1⟩ h1 => ?_
  obtain ⟨_, e1, b1⟩ := decCompact_eq_ok h1
  have hr1 : Suffix r1 s := (suffix_of_eq e1 b1).trans hr
  refine EventsInside_emit_bind (fun t ht => by cases ht) ?_
  exact EventsInside_bind ((decBlockLoop_inside n r1).of_suffix hr1) fun _ _ => EventsInside_pure _ _

end BS.Enc
