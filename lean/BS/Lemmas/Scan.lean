import BS.Lemmas.LE
/- helper lemmas about `scanLen` / `scanWide` -/
namespace BS
open Spec

theorem ofNat_toNat_of_lt {n : Nat} (h : n < 256) : (UInt8.ofNat n).toNat = n := by
  simp [UInt8.toNat_ofNat', Nat.mod_eq_of_lt h]

theorem ofNat_ne_of_lt {n : Nat} {x : UInt8} (h : n < 256) (hx : n ≠ x.toNat) : UInt8.ofNat n ≠ x := by
  intro e
  apply hx
  rw [← e, ofNat_toNat_of_lt h]

theorem u8_eq_ofNat_toNat (x : UInt8) : UInt8.ofNat x.toNat = x := by simp

/-- the wide arm on a slice that starts with the marker followed by a `w`-byte payload -/
theorem scanWide_cons (base : Nat) (m : UInt8) (p r : Bytes) (c w min : Nat) (hp : p.length = w) :
    scanWide ⟨base, m :: (p ++ r)⟩ c w min =
      if leN p ≥ min then
        (match addU c (1 + w) with
         | .ok c' => (.ok (leN p), c')
         | .err e => (.err e, c)
         | .panic q => (.panic q, c))
      else (.err .nonMinimalVarInt, c) := by
  unfold scanWide Slice.get? Slice.len
  have h1 : 1 ≤ 1 + w ∧ 1 + w ≤ (m :: (p ++ r)).length := by
    simp [hp]; omega
  simp only [h1, and_self, if_true]
  have h2 : (List.drop 1 (m :: (p ++ r))).take (1 + w - 1) = p := by
    simp [← hp]
  simp only [h2, hp, if_true, Slice.len]
  rfl

/-- the wide arm on a slice too short for its payload -/
theorem scanWide_short (base : Nat) (bs : Bytes) (c w min : Nat) (h : bs.length < 1 + w) :
    scanWide ⟨base, bs⟩ c w min = (.err .moreBytesNeeded, c) := by
  unfold scanWide Slice.get? Slice.len
  have : ¬ (1 + w ≤ bs.length) := by omega
  simp [this]

/-- a slice with at least `1 + w` bytes splits as marker :: payload ++ rest -/
theorem split_marker (bs : Bytes) (w : Nat) (h : 1 + w ≤ bs.length) :
    ∃ m p r, bs = m :: (p ++ r) ∧ p.length = w := by
  cases bs with
  | nil => simp at h
  | cons m t =>
    refine ⟨m, t.take w, t.drop w, by simp, ?_⟩
    simp at h ⊢; omega

end BS
