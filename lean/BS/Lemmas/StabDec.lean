import BS.Lemmas.Stab
/-
  Extension stability (`Ext`) of every L2 decoder: primitives first, then by sequencing and induction on the counts.
-/
namespace BS.Stab
open BS BS.Spec

/-! ### primitives -/

theorem ext_takeN (s : Slice) (n : Nat) (x : Bytes) : ExtR (eP x) (takeN s n) (takeN (extS s x) n) := by
  unfold takeN
  by_cases h : s.len < n
  · simp only [h, if_true]; exact ExtR.mbn _ _
  · have h' : ¬ (extS s x).len < n := by simp only [extS_len]; omega
    simp only [h, h', if_false]
    apply ExtR.ok
    have hl : n ≤ s.bytes.length := by simp only [Slice.len] at h; omega
    simp only [eP_mk, extS, List.take_append_of_le_length hl, List.drop_append_of_le_length hl]

theorem ext_decLE (w : Nat) (s : Slice) (x : Bytes) : ExtR (eP x) (decLE w s) (decLE w (extS s x)) := by
  unfold decLE
  have h := ext_takeN s w x
  cases ht : takeN s w with
  | ok a =>
    obtain ⟨p, r⟩ := a
    rw [ht] at h
    rw [h (by simp)]
    exact ExtR.ok rfl
  | err e =>
    by_cases he : e = .moreBytesNeeded
    · subst he; exact ExtR.mbn _ _
    · rw [ht] at h
      rw [h (by simpa using he)]
      exact ExtR.err _ _
  | panic q =>
    rw [ht] at h
    rw [h (by simp)]
    exact ExtR.panic _ _

/-- one wide arm of `decCompact` -/
def wide (s : Slice) (w min : Nat) : Res (Nat × Slice) :=
  match decLE w s with
  | .ok (n, r) => if n ≥ min then .ok (n, r) else .err .nonMinimalVarInt
  | .err e => .err e
  | .panic p => .panic p

theorem ext_wide (s : Slice) (w min : Nat) (x : Bytes) : ExtR (eP x) (wide s w min) (wide (extS s x) w min) := by
  unfold wide
  have h := ext_decLE w s x
  cases ht : decLE w s with
  | ok a =>
    obtain ⟨n, r⟩ := a
    rw [ht] at h
    rw [h (by simp)]
    simp only [map'_ok, eP_mk]
    by_cases hm : n ≥ min
    · simp only [hm, if_true]; exact ExtR.ok rfl
    · simp only [hm, if_false]; exact ExtR.err _ _
  | err e =>
    by_cases he : e = .moreBytesNeeded
    · subst he; exact ExtR.mbn _ _
    · rw [ht] at h
      rw [h (by simpa using he)]
      exact ExtR.err _ _
  | panic q =>
    rw [ht] at h
    rw [h (by simp)]
    exact ExtR.panic _ _

theorem decCompact_cons (b : Nat) (c : UInt8) (t : Bytes) :
    decCompact ⟨b, c :: t⟩ =
      if c = 0xFF then wide ⟨b + 1, t⟩ 8 0x100000000
      else if c = 0xFE then wide ⟨b + 1, t⟩ 4 0x10000
      else if c = 0xFD then wide ⟨b + 1, t⟩ 2 0xFD
      else .ok (c.toNat, ⟨b + 1, t⟩) := by
  simp only [decCompact, wide, List.drop_one, List.tail_cons]
  rfl

theorem decCompact_nil (b : Nat) : decCompact ⟨b, []⟩ = .err .moreBytesNeeded := rfl

theorem ext_decCompact (s : Slice) (x : Bytes) : ExtR (eP x) (decCompact s) (decCompact (extS s x)) := by
  obtain ⟨b, bs⟩ := s
  cases bs with
  | nil => rw [decCompact_nil]; exact ExtR.mbn _ _
  | cons c t =>
    simp only [extS_mk, List.cons_append, decCompact_cons]
    split
    · exact ext_wide ⟨b + 1, t⟩ _ _ x
    · split
      · exact ext_wide ⟨b + 1, t⟩ _ _ x
      · split
        · exact ext_wide ⟨b + 1, t⟩ _ _ x
        · exact ExtR.ok rfl

/-! ### pure composite decoders -/

theorem ext_decScript (s : Slice) (x : Bytes) : ExtR (eP x) (decScript s) (decScript (extS s x)) := by
  unfold decScript
  refine ExtR.bind (ext_decCompact s x) ?_
  rintro ⟨n, r⟩ _
  refine ExtR.bind (ext_takeN r n x) ?_
  rintro ⟨p, rem⟩ _
  apply ExtR.pure
  simp only [eP_mk, viewOf_ext, len_sub_ext]

theorem ext_decOutPoint (s : Slice) (x : Bytes) : ExtR (eP x) (decOutPoint s) (decOutPoint (extS s x)) := by
  unfold decOutPoint
  refine ExtR.bind (ext_takeN s 36 x) ?_
  rintro ⟨p, rem⟩ _
  exact ExtR.pure rfl

theorem ext_decTxIn (s : Slice) (x : Bytes) : ExtR (eP x) (decTxIn s) (decTxIn (extS s x)) := by
  unfold decTxIn
  refine ExtR.bind (ext_decOutPoint s x) ?_
  rintro ⟨op, r1⟩ _
  refine ExtR.bind (ext_decScript r1 x) ?_
  rintro ⟨sc, r2⟩ _
  refine ExtR.bind (ext_decLE 4 r2 x) ?_
  rintro ⟨sq, rem⟩ _
  apply ExtR.pure
  simp only [eP_mk, viewOf_ext]

theorem ext_decTxOut (s : Slice) (x : Bytes) : ExtR (eP x) (decTxOut s) (decTxOut (extS s x)) := by
  unfold decTxOut
  refine ExtR.bind (ext_decLE 8 s x) ?_
  rintro ⟨v, r1⟩ _
  refine ExtR.bind (ext_decScript r1 x) ?_
  rintro ⟨sc, rem⟩ _
  apply ExtR.pure
  simp only [eP_mk, viewOf_ext]

end BS.Stab
