import BS.Lemmas.AccTx
/- helper lemmas: the output iterator run on the byte layout of a decoded output list -/
namespace BS.Acc
open BS BS.Spec

/-- `j` calls of `next`: the items yielded by those calls that returned `Some`, and the iterator afterwards -/
def nexts : Nat → IterV → Res (List TxOutV × IterV)
  | 0, it => .ok ([], it)
  | j + 1, it => do
    let (x, it') ← it.next
    let (l, it'') ← nexts j it'
    pure ((match x with | some o => o :: l | none => l), it'')

/-- the two-output list `02 | 01 00.. 00 | 02 00.. 01 51` used for the historical `len()` defect -/
def twoOuts : Bytes := [2, 1,0,0,0,0,0,0,0, 0, 2,0,0,0,0,0,0,0, 1, 0x51]

/-- the outputs a visitor was shown: the arguments of the `visit_tx_out` calls in a trace -/
def txOutsOf (tr : List Event) : List TxOutV :=
  tr.filterMap (fun e => match e with | .txOut _ x => some x | _ => none)

theorem txOutsOf_evsAt (b i : Nat) (l : Items) : txOutsOf (evsAt b i l) = outsAt b l := by
  induction l generalizing b i with
  | nil => rfl
  | cons p l ih =>
    simp only [evsAt, outsAt, txOutsOf, List.filterMap_cons]
    exact congrArg _ (ih _ _)

theorem outsAt_length (b : Nat) (l : Items) : (outsAt b l).length = l.length := by
  induction l generalizing b with
  | nil => rfl
  | cons p l ih => simp [outsAt, ih]

theorem evsAt_eq_mapIdx (b i : Nat) (l : Items) :
    evsAt b i l = (outsAt b l).mapIdx (fun j x => Event.txOut (i + j) x) := by
  induction l generalizing b i with
  | nil => rfl
  | cons p l ih =>
    simp only [evsAt, outsAt, List.mapIdx_cons, Nat.add_zero, ih]
    congr 1
    congr 1
    funext j x
    congr 1
    omega

theorem encItem_pos (v8 body : Bytes) : 1 ≤ (encItem v8 body).length := by
  rw [encItem_length]; have := compactWidth_pos body.length; omega

/-- one call of `next` in front of an item -/
theorem next_item (O : TxOutsV) (B e : Nat) (pre v8 body rest : Bytes) (hO : O.slice = ⟨B, pre ++ (encItem v8 body ++ rest)⟩)
    (h8 : v8.length = 8) (hlen : (pre ++ (encItem v8 body ++ rest)).length < 2 ^ 62) :
    IterV.next ⟨e, pre.length, O⟩ =
      .ok (some (mkTxOut (B + pre.length) v8 body), ⟨e - 1, (pre ++ encItem v8 body).length, O⟩) := by
  have hp := encItem_pos v8 body
  simp only [List.length_append] at hlen
  unfold IterV.next
  simp only
  have hl : O.slice.len = pre.length + ((encItem v8 body).length + rest.length) := by
    simp [Slice.len, hO]
  rw [if_neg (by omega)]
  have hf : O.slice.from_ pre.length = .ok ⟨B + pre.length, encItem v8 body ++ rest⟩ := by
    unfold Slice.from_
    rw [if_pos (by omega), hO]
    simp
  rw [hf]
  simp only [Res.bind_ok]
  rw [TxOut_parse_append _ _ _ _ h8 (by omega)]
  simp only
  have hs : (mkTxOut (B + pre.length) v8 body).slice.len = (encItem v8 body).length := rfl
  rw [hs, addU_ok (by omega)]
  simp [satSub]

/-- `next` at the end of the slice -/
theorem next_end (it : IterV) (h : it.outs.slice.len ≤ it.offset) : it.next = .ok (none, it) := by
  unfold IterV.next
  rw [if_pos h]

/-- the iterator standing in front of the items `l` (after `pre`): `collect` yields them all, and `j` calls of `next`
    yield the first `j`, decrementing `elements` each time; after all of them the offset is the end of the slice -/
theorem iter_items (O : TxOutsV) (B : Nat) : ∀ (l : Items) (pre : Bytes) (e : Nat), ItemsOK l →
    O.slice = ⟨B, pre ++ flat l⟩ → (pre ++ flat l).length < 2 ^ 62 →
    (∀ fuel, l.length < fuel → IterV.collect fuel ⟨e, pre.length, O⟩ = .ok (outsAt (B + pre.length) l)) ∧
    (∀ j, j ≤ l.length → ∃ it', nexts j ⟨e, pre.length, O⟩ = .ok ((outsAt (B + pre.length) l).take j, it') ∧
        it'.elements = e - j ∧ it'.outs = O ∧ (j = l.length → it'.offset = O.slice.len)) := by
  intro l
  induction l with
  | nil =>
    intro pre e _ hO _
    have hend : IterV.next ⟨e, pre.length, O⟩ = .ok (none, ⟨e, pre.length, O⟩) :=
      next_end _ (by simp [Slice.len, hO, flat])
    constructor
    · intro fuel hf
      cases fuel with
      | zero => simp at hf
      | succ fuel => simp only [IterV.collect, hend, outsAt]
    · intro j hj
      have : j = 0 := by simpa using hj
      subst this
      exact ⟨_, rfl, rfl, rfl, fun _ => by simp [Slice.len, hO, flat]⟩
  | cons p l ih =>
    intro pre e hok hO hlen
    have h8 := (hok p (List.mem_cons_self)).1
    have hok' : ItemsOK l := fun q hq => hok q (List.mem_cons_of_mem _ hq)
    simp only [flat] at hO hlen
    have hn := next_item O B e pre p.1 p.2 (flat l) hO h8 hlen
    have hO' : O.slice = ⟨B, (pre ++ encItem p.1 p.2) ++ flat l⟩ := by rw [hO]; simp
    have hlen' : ((pre ++ encItem p.1 p.2) ++ flat l).length < 2 ^ 62 := by
      simpa [Nat.add_assoc] using hlen
    obtain ⟨ih1, ih2⟩ := ih (pre ++ encItem p.1 p.2) (e - 1) hok' hO' hlen'
    have hb : B + (pre ++ encItem p.1 p.2).length = B + pre.length + (encItem p.1 p.2).length := by
      simp; omega
    constructor
    · intro fuel hf
      cases fuel with
      | zero => simp at hf
      | succ fuel =>
        simp only [IterV.collect, hn, outsAt]
        rw [ih1 fuel (by simpa using hf), hb]
    · intro j hj
      cases j with
      | zero => exact ⟨_, rfl, rfl, rfl, fun h => by simp at h⟩
      | succ j =>
        obtain ⟨it', h1, h2, h3, h4⟩ := ih2 j (by simpa using hj)
        refine ⟨it', ?_, by rw [h2]; omega, h3, fun h => h4 (by simpa using h)⟩
        simp only [nexts, hn, Res.bind_ok, h1, Res.pure_eq, outsAt, List.take_succ_cons, hb]

/-- `TxOuts::iter` on a decoded output list, and everything the iterator then does -/
theorem iter_of_dec {s : Slice} {o : TxOutsV} {rem : Slice} (h : (decTxOuts s).res = .ok (o, rem))
    (hs : s.len < 2 ^ 62) :
    ∃ l : Items, l.length = o.n ∧
      (decTxOuts s).trace = .txOuts o.n :: evsAt (s.base + compactWidth o.n) 0 l ∧
      o.iter = .ok ⟨o.n, compactWidth o.n, o⟩ ∧
      (∀ fuel, o.n < fuel →
        IterV.collect fuel ⟨o.n, compactWidth o.n, o⟩ = .ok (outsAt (s.base + compactWidth o.n) l)) ∧
      (∀ j, j ≤ o.n → ∃ it', nexts j ⟨o.n, compactWidth o.n, o⟩ =
          .ok ((outsAt (s.base + compactWidth o.n) l).take j, it') ∧
        it'.elements = o.n - j ∧ it'.outs = o ∧ (j = o.n → it'.offset = o.slice.len)) := by
  obtain ⟨l, hl, hn, hok, c, ho, htr⟩ := decTxOuts_ok h
  have hlen : (encCompact o.n ++ flat l).length < 2 ^ 62 := by
    have := c.len
    unfold Slice.len at *
    omega
  have hit : o.iter = .ok ⟨o.n, compactWidth o.n, o⟩ := by
    unfold TxOutsV.iter
    rw [ho, C08_complete o.n 0 s.base _ hn (by omega)]
    simp
  obtain ⟨h1, h2⟩ := iter_items o s.base l (encCompact o.n) o.n hok ho hlen
  rw [encCompact_length, hl] at h1 h2
  exact ⟨l, hl, htr, hit, h1, h2⟩

end BS.Acc
