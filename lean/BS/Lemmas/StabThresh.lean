import BS.Lemmas.StabGen
/-
  The "first defect" reading of a final error, for an arbitrary extension-stable decoder: the prefixes of a rejected
  input split at one position k — every prefix shorter than k still needs more bytes, every prefix of at least k bytes
  (and every extension of it) is rejected with the very same error and the same callbacks. The error is thus decided by
  the first k bytes alone.
-/
namespace BS.Stab
open BS BS.Spec

/-- least index at which a property fails, below a known failure -/
theorem least_failure (P : Nat → Prop) : ∀ n, ¬ P n → ∃ k, k ≤ n ∧ ¬ P k ∧ ∀ j, j < k → P j := by
  intro n
  induction n using Nat.strongRecOn with
  | _ n ih =>
    intro hn
    by_cases h : ∃ j, j < n ∧ ¬ P j
    · obtain ⟨j, hj, hPj⟩ := h
      obtain ⟨k, hk, hPk, hlt⟩ := ih j hj hPj
      exact ⟨k, by omega, hPk, hlt⟩
    · refine ⟨n, Nat.le_refl n, hn, ?_⟩
      intro j hj
      apply Classical.byContradiction
      intro hPj
      exact h ⟨j, hj, hPj⟩

section
variable {α : Type} {e : Bytes → α → α} {sel : α → Slice} {d : Slice → D α}

/-- the threshold of a final error -/
theorem StableG.first_defect (h : StableG e sel d) (hnp : ∀ s q, (d s).res ≠ .panic q)
    {b : Nat} {p : Bytes} {er : Error} (hs : (d ⟨b, p⟩).res = .err er) (hne : er ≠ .moreBytesNeeded) :
    ∃ k, k ≤ p.length ∧
      (∀ j, j < k → (d ⟨b, p.take j⟩).res = .err .moreBytesNeeded) ∧
      (∀ x, d ⟨b, p.take k ++ x⟩ = d ⟨b, p⟩) := by
  have hlast : ¬ ((d ⟨b, p.take p.length⟩).res = .err .moreBytesNeeded) := by
    rw [List.take_length, hs]; intro hh; cases hh; exact hne rfl
  obtain ⟨k, hk, hPk, hlt⟩ := least_failure (fun j => (d ⟨b, p.take j⟩).res = .err .moreBytesNeeded) p.length hlast
  refine ⟨k, hk, hlt, ?_⟩
  have hsplit : (⟨b, p⟩ : Slice) = extS ⟨b, p.take k⟩ (p.drop k) := by simp [extS]
  -- the result on the first k bytes is a final error, hence the result on the whole input
  have hk_res : d ⟨b, p⟩ = d ⟨b, p.take k⟩ ∧ (d ⟨b, p.take k⟩).res = .err er := by
    cases hr : (d ⟨b, p.take k⟩).res with
    | ok a =>
      have := h.extend_ok hr (p.drop k)
      rw [← hsplit] at this
      rw [this] at hs; cases hs
    | panic q => exact absurd hr (hnp _ q)
    | err e' =>
      have hne' : e' ≠ .moreBytesNeeded := by
        intro he; subst he; exact hPk hr
      have := h.final_error hr hne' (p.drop k)
      rw [← hsplit] at this
      refine ⟨this, ?_⟩
      rw [this, hr] at hs
      cases hs; rfl
  intro x
  have := h.final_error hk_res.2 hne x
  rw [extS_mk] at this
  rw [this, hk_res.1]

end
end BS.Stab
