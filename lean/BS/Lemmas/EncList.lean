import BS.Lemmas.EncElem
/-
  the list decoders of L2: txins, txouts, witness, witnesses — full run (trace + result) on encodings, soundness,
  error class
-/
namespace BS.Enc
open BS BS.Spec

theorem flatten_cons_append {α} (enc : α → Bytes) (x : α) (l : List α) (r : Bytes) :
    ((x :: l).map enc).flatten ++ r = enc x ++ ((l.map enc).flatten ++ r) := by
  simp [List.append_assoc]

/-! ### txins -/

theorem decTxInsLoop_enc (l : List TxInS) : ∀ (b i : Nat) (r : Bytes), (∀ x ∈ l, x.WF) →
    decTxInsLoop l.length i ⟨b, (l.map encTxIn).flatten ++ r⟩ =
      ⟨travTxInsFrom b i l, .ok ⟨b + (l.map encTxIn).flatten.length, r⟩⟩ := by
  induction l with
  | nil => intro b i r _; rfl
  | cons x l ih =>
    intro b i r hwf
    have hx := hwf x (List.mem_cons_self)
    have hl : ∀ y ∈ l, y.WF := fun y hy => hwf y (List.mem_cons_of_mem _ hy)
    rw [flatten_cons_append, List.length_cons, decTxInsLoop, decTxIn_enc _ _ _ hx]
    simp only [D_lift_ok_bind, D_emit_bind]
    rw [ih _ _ _ hl]
    simp only [travTxInsFrom, List.map_cons, List.flatten_cons, List.length_append, Nat.add_assoc]

theorem decTxIns_enc (b : Nat) (l : List TxInS) (r : Bytes) (hn : l.length < 2 ^ 64) (hwf : ∀ x ∈ l, x.WF) :
    decTxIns ⟨b, encTxIns l ++ r⟩ = ⟨travTxIns b l, .ok (viewTxIns b l, ⟨b + (encTxIns l).length, r⟩)⟩ := by
  unfold decTxIns encTxIns
  rw [List.append_assoc, decCompact_enc _ _ _ hn]
  simp only [D_lift_ok_bind, D_emit_bind]
  rw [decTxInsLoop_enc l _ _ _ hwf]
  simp only [D_mk_ok_bind, D_pure, List.append_nil]
  rw [← List.append_assoc, viewOf_append]
  simp only [travTxIns, viewTxIns, encTxIns, List.length_append, Nat.add_assoc]

theorem decTxInsLoop_eq_ok : ∀ (n i : Nat) (s rem : Slice), (decTxInsLoop n i s).res = .ok rem →
    ∃ l : List TxInS, l.length = n ∧ (∀ x ∈ l, x.WF) ∧ s.bytes = (l.map encTxIn).flatten ++ rem.bytes ∧
      rem.base = s.base + (l.map encTxIn).flatten.length := by
  intro n
  induction n with
  | zero =>
    intro i s rem h
    cases h
    exact ⟨[], rfl, by simp, by simp, by simp⟩
  | succ n ih =>
    intro i s rem h
    rw [decTxInsLoop] at h
    obtain ⟨⟨x, r⟩, h1, h⟩ := D_bind_res_eq_ok h
    obtain ⟨_, _, h⟩ := D_bind_res_eq_ok h
    obtain ⟨x1, w1, e1, b1⟩ := decTxIn_eq_ok h1
    obtain ⟨l, hl, wl, el, bl⟩ := ih _ _ _ h
    refine ⟨x1 :: l, by simp [hl], ?_, ?_, ?_⟩
    · intro y hy
      rcases List.mem_cons.1 hy with rfl | hy
      · exact w1
      · exact wl y hy
    · rw [flatten_cons_append, ← el, ← e1]
    · simp only [List.map_cons, List.flatten_cons, List.length_append]; omega

theorem decTxIns_eq_ok {s : Slice} {o : TxInsV} {rem : Slice} (h : (decTxIns s).res = .ok (o, rem)) :
    ∃ l : List TxInS, l.length < 2 ^ 64 ∧ (∀ x ∈ l, x.WF) ∧ s.bytes = encTxIns l ++ rem.bytes ∧
      rem.base = s.base + (encTxIns l).length := by
  unfold decTxIns at h
  obtain ⟨⟨n, r⟩, h1, h⟩ := D_bind_res_eq_ok h
  obtain ⟨_, _, h⟩ := D_bind_res_eq_ok h
  obtain ⟨rem', h2, h⟩ := D_bind_res_eq_ok h
  cases h
  obtain ⟨hn, e1, b1⟩ := decCompact_eq_ok h1
  obtain ⟨l, hl, wl, el, bl⟩ := decTxInsLoop_eq_ok _ _ _ _ h2
  subst hl
  refine ⟨l, hn, wl, ?_, ?_⟩
  · rw [encTxIns, List.append_assoc, ← el]; exact e1
  · rw [encTxIns, List.length_append]; omega

theorem decTxInsLoop_basic : ∀ (n i : Nat) (s : Slice), Basic (decTxInsLoop n i s).res := by
  intro n
  induction n with
  | zero => intro i s; trivial
  | succ n ih =>
    intro i s
    rw [decTxInsLoop]
    refine D_Basic_bind (decTxIn_basic s) fun ⟨x, r⟩ => D_Basic_bind (m := D.emit _) trivial fun _ => ih _ _

theorem decTxIns_basic (s : Slice) : Basic (decTxIns s).res := by
  unfold decTxIns
  refine D_Basic_bind (decCompact_basic s) fun ⟨n, r⟩ => D_Basic_bind (m := D.emit _) trivial fun _ =>
    D_Basic_bind (decTxInsLoop_basic _ _ _) fun _ => trivial

/-! ### txouts -/

theorem decTxOutsLoop_enc (l : List TxOutS) : ∀ (b i : Nat) (r : Bytes), (∀ x ∈ l, x.WF) →
    decTxOutsLoop l.length i ⟨b, (l.map encTxOut).flatten ++ r⟩ =
      ⟨travTxOutsFrom b i l, .ok ⟨b + (l.map encTxOut).flatten.length, r⟩⟩ := by
  induction l with
  | nil => intro b i r _; rfl
  | cons x l ih =>
    intro b i r hwf
    have hx := hwf x (List.mem_cons_self)
    have hl : ∀ y ∈ l, y.WF := fun y hy => hwf y (List.mem_cons_of_mem _ hy)
    rw [flatten_cons_append, List.length_cons, decTxOutsLoop, decTxOut_enc _ _ _ hx]
    simp only [D_lift_ok_bind, D_emit_bind]
    rw [ih _ _ _ hl]
    simp only [travTxOutsFrom, List.map_cons, List.flatten_cons, List.length_append, Nat.add_assoc]

theorem decTxOuts_enc (b : Nat) (l : List TxOutS) (r : Bytes) (hn : l.length < 2 ^ 64) (hwf : ∀ x ∈ l, x.WF) :
    decTxOuts ⟨b, encTxOuts l ++ r⟩ = ⟨travTxOuts b l, .ok (viewTxOuts b l, ⟨b + (encTxOuts l).length, r⟩)⟩ := by
  unfold decTxOuts encTxOuts
  rw [List.append_assoc, decCompact_enc _ _ _ hn]
  simp only [D_lift_ok_bind, D_emit_bind]
  rw [decTxOutsLoop_enc l _ _ _ hwf]
  simp only [D_mk_ok_bind, D_pure, List.append_nil]
  rw [← List.append_assoc, viewOf_append]
  simp only [travTxOuts, viewTxOuts, encTxOuts, List.length_append, Nat.add_assoc]

theorem decTxOutsLoop_eq_ok : ∀ (n i : Nat) (s rem : Slice), (decTxOutsLoop n i s).res = .ok rem →
    ∃ l : List TxOutS, l.length = n ∧ (∀ x ∈ l, x.WF) ∧ s.bytes = (l.map encTxOut).flatten ++ rem.bytes ∧
      rem.base = s.base + (l.map encTxOut).flatten.length := by
  intro n
  induction n with
  | zero =>
    intro i s rem h
    cases h
    exact ⟨[], rfl, by simp, by simp, by simp⟩
  | succ n ih =>
    intro i s rem h
    rw [decTxOutsLoop] at h
    obtain ⟨⟨x, r⟩, h1, h⟩ := D_bind_res_eq_ok h
    obtain ⟨_, _, h⟩ := D_bind_res_eq_ok h
    obtain ⟨x1, w1, e1, b1⟩ := decTxOut_eq_ok h1
    obtain ⟨l, hl, wl, el, bl⟩ := ih _ _ _ h
    refine ⟨x1 :: l, by simp [hl], ?_, ?_, ?_⟩
    · intro y hy
      rcases List.mem_cons.1 hy with rfl | hy
      · exact w1
      · exact wl y hy
    · rw [flatten_cons_append, ← el, ← e1]
    · simp only [List.map_cons, List.flatten_cons, List.length_append]; omega

theorem decTxOuts_eq_ok {s : Slice} {o : TxOutsV} {rem : Slice} (h : (decTxOuts s).res = .ok (o, rem)) :
    ∃ l : List TxOutS, l.length < 2 ^ 64 ∧ (∀ x ∈ l, x.WF) ∧ s.bytes = encTxOuts l ++ rem.bytes ∧
      rem.base = s.base + (encTxOuts l).length := by
  unfold decTxOuts at h
  obtain ⟨⟨n, r⟩, h1, h⟩ := D_bind_res_eq_ok h
  obtain ⟨_, _, h⟩ := D_bind_res_eq_ok h
  obtain ⟨rem', h2, h⟩ := D_bind_res_eq_ok h
  cases h
  obtain ⟨hn, e1, b1⟩ := decCompact_eq_ok h1
  obtain ⟨l, hl, wl, el, bl⟩ := decTxOutsLoop_eq_ok _ _ _ _ h2
  subst hl
  refine ⟨l, hn, wl, ?_, ?_⟩
  · rw [encTxOuts, List.append_assoc, ← el]; exact e1
  · rw [encTxOuts, List.length_append]; omega

theorem decTxOutsLoop_basic : ∀ (n i : Nat) (s : Slice), Basic (decTxOutsLoop n i s).res := by
  intro n
  induction n with
  | zero => intro i s; trivial
  | succ n ih =>
    intro i s
    rw [decTxOutsLoop]
    refine D_Basic_bind (decTxOut_basic s) fun ⟨x, r⟩ => D_Basic_bind (m := D.emit _) trivial fun _ => ih _ _

theorem decTxOuts_basic (s : Slice) : Basic (decTxOuts s).res := by
  unfold decTxOuts
  refine D_Basic_bind (decCompact_basic s) fun ⟨n, r⟩ => D_Basic_bind (m := D.emit _) trivial fun _ =>
    D_Basic_bind (decTxOutsLoop_basic _ _ _) fun _ => trivial

/-! ### one witness -/

theorem decWitnessLoop_enc (w : List Bytes) : ∀ (b i : Nat) (r : Bytes), (∀ e ∈ w, e.length < 2 ^ 64) →
    decWitnessLoop w.length i ⟨b, (w.map encVarBytes).flatten ++ r⟩ =
      ⟨travWitElems b i w, .ok ⟨b + (w.map encVarBytes).flatten.length, r⟩⟩ := by
  induction w with
  | nil => intro b i r _; rfl
  | cons x l ih =>
    intro b i r hwf
    have hx := hwf x (List.mem_cons_self)
    have hl : ∀ y ∈ l, y.length < 2 ^ 64 := fun y hy => hwf y (List.mem_cons_of_mem _ hy)
    rw [flatten_cons_append, List.length_cons, decWitnessLoop, encVarBytes, List.append_assoc,
      decCompact_enc _ _ _ hx]
    simp only [D_lift_ok_bind]
    rw [takeN_append]
    simp only [D_lift_ok_bind, D_emit_bind]
    rw [ih _ _ _ hl]
    simp only [travWitElems, List.map_cons, List.flatten_cons, List.length_append, Nat.add_assoc, encVarBytes]

theorem decide_length_eq_zero {α} [DecidableEq α] (w : List α) : (w.length == 0) = decide (w = []) := by
  cases w <;> simp

theorem decWitness_enc (b : Nat) (w : List Bytes) (r : Bytes) (hw : witnessWF w) :
    decWitness ⟨b, encWitness w ++ r⟩ =
      ⟨travWitness b w, .ok (viewWitness b w, decide (w = []), ⟨b + (encWitness w).length, r⟩)⟩ := by
  unfold decWitness encWitness
  rw [List.append_assoc, decCompact_enc _ _ _ hw.1]
  simp only [D_lift_ok_bind, D_emit_bind]
  rw [decWitnessLoop_enc w _ _ _ hw.2]
  simp only [D_mk_ok_bind, D_pure, List.append_nil]
  rw [← List.append_assoc, viewOf_append, decide_length_eq_zero]
  simp only [travWitness, viewWitness, encWitness, List.length_append, Nat.add_assoc]

theorem decWitnessLoop_eq_ok : ∀ (n i : Nat) (s rem : Slice), (decWitnessLoop n i s).res = .ok rem →
    ∃ w : List Bytes, w.length = n ∧ (∀ e ∈ w, e.length < 2 ^ 64) ∧
      s.bytes = (w.map encVarBytes).flatten ++ rem.bytes ∧
      rem.base = s.base + (w.map encVarBytes).flatten.length := by
  intro n
  induction n with
  | zero =>
    intro i s rem h
    cases h
    exact ⟨[], rfl, by simp, by simp, by simp⟩
  | succ n ih =>
    intro i s rem h
    rw [decWitnessLoop] at h
    obtain ⟨⟨len, r⟩, h1, h⟩ := D_bind_res_eq_ok h
    obtain ⟨⟨el, r'⟩, h2, h⟩ := D_bind_res_eq_ok h
    obtain ⟨_, _, h⟩ := D_bind_res_eq_ok h
    obtain ⟨hn, e1, b1⟩ := decCompact_eq_ok h1
    obtain ⟨e2, hp, _, b2⟩ := takeN_eq_ok h2
    obtain ⟨l, hl, wl, el', bl⟩ := ih _ _ _ h
    refine ⟨el.bytes :: l, by simp [hl], ?_, ?_, ?_⟩
    · intro y hy
      rcases List.mem_cons.1 hy with rfl | hy
      · omega
      · exact wl y hy
    · rw [flatten_cons_append, ← el', encVarBytes, hp, List.append_assoc, ← e2]; exact e1
    · simp only [List.map_cons, List.flatten_cons, List.length_append, encVarBytes, hp]
      simp only [D_lift_res] at *
      omega

theorem decWitness_eq_ok {s : Slice} {o : WitnessV} {e : Bool} {rem : Slice}
    (h : (decWitness s).res = .ok (o, e, rem)) :
    ∃ w : List Bytes, witnessWF w ∧ s.bytes = encWitness w ++ rem.bytes ∧
      rem.base = s.base + (encWitness w).length := by
  unfold decWitness at h
  obtain ⟨⟨n, r⟩, h1, h⟩ := D_bind_res_eq_ok h
  obtain ⟨_, _, h⟩ := D_bind_res_eq_ok h
  obtain ⟨rem', h2, h⟩ := D_bind_res_eq_ok h
  cases h
  obtain ⟨hn, e1, b1⟩ := decCompact_eq_ok h1
  obtain ⟨l, hl, wl, el, bl⟩ := decWitnessLoop_eq_ok _ _ _ _ h2
  subst hl
  refine ⟨l, ⟨hn, wl⟩, ?_, ?_⟩
  · rw [encWitness, List.append_assoc, ← el]; exact e1
  · rw [encWitness, List.length_append]; omega

theorem decWitnessLoop_basic : ∀ (n i : Nat) (s : Slice), Basic (decWitnessLoop n i s).res := by
  intro n
  induction n with
  | zero => intro i s; trivial
  | succ n ih =>
    intro i s
    rw [decWitnessLoop]
    refine D_Basic_bind (decCompact_basic s) fun ⟨x, r⟩ => D_Basic_bind (takeN_basic _ _) fun ⟨_, _⟩ =>
      D_Basic_bind (m := D.emit _) trivial fun _ => ih _ _

theorem decWitness_basic (s : Slice) : Basic (decWitness s).res := by
  unfold decWitness
  refine D_Basic_bind (decCompact_basic s) fun ⟨n, r⟩ => D_Basic_bind (m := D.emit _) trivial fun _ =>
    D_Basic_bind (decWitnessLoop_basic _ _ _) fun _ => trivial

/-! ### the witnesses of a transaction -/

theorem encWitnesses_cons (w : List Bytes) (ws : List (List Bytes)) :
    encWitnesses (w :: ws) = encWitness w ++ encWitnesses ws := by
  simp [encWitnesses]

theorem decWitnessesLoop_enc (ws : List (List Bytes)) : ∀ (b i : Nat) (r : Bytes) (ae : Bool),
    (∀ w ∈ ws, witnessWF w) →
    decWitnessesLoop ws.length i ⟨b, encWitnesses ws ++ r⟩ ae =
      ⟨travWitnessesFrom b i ws, .ok (⟨b + (encWitnesses ws).length, r⟩, ae && ws.all (· = []))⟩ := by
  induction ws with
  | nil => intro b i r ae _; simp [decWitnessesLoop, encWitnesses, travWitnessesFrom]
  | cons w ws ih =>
    intro b i r ae hwf
    have hx := hwf w (List.mem_cons_self)
    have hl : ∀ y ∈ ws, witnessWF y := fun y hy => hwf y (List.mem_cons_of_mem _ hy)
    rw [encWitnesses_cons, List.append_assoc, List.length_cons, decWitnessesLoop]
    simp only [D_emit_bind]
    rw [decWitness_enc _ _ _ hx]
    simp only [D_mk_ok_bind]
    rw [ih _ _ _ _ hl]
    simp only [travWitnessesFrom, List.length_append, Nat.add_assoc, List.all_cons, Bool.and_assoc]

theorem decWitnesses_enc (b : Nat) (ws : List (List Bytes)) (r : Bytes) (hwf : ∀ w ∈ ws, witnessWF w) :
    decWitnesses ⟨b, encWitnesses ws ++ r⟩ ws.length =
      ⟨travWitnesses b ws, .ok (viewWitnesses b ws, ⟨b + (encWitnesses ws).length, r⟩)⟩ := by
  unfold decWitnesses
  rw [decWitnessesLoop_enc ws _ _ _ _ hwf]
  simp only [D_mk_ok_bind, D_pure, List.append_nil, Bool.true_and]
  rw [viewOf_append]
  rfl

theorem decWitnessesLoop_eq_ok : ∀ (n i : Nat) (s : Slice) (ae : Bool) (rem : Slice) (ae' : Bool),
    (decWitnessesLoop n i s ae).res = .ok (rem, ae') →
    ∃ ws : List (List Bytes), ws.length = n ∧ (∀ w ∈ ws, witnessWF w) ∧
      s.bytes = encWitnesses ws ++ rem.bytes ∧ rem.base = s.base + (encWitnesses ws).length := by
  intro n
  induction n with
  | zero =>
    intro i s ae rem ae' h
    cases h
    exact ⟨[], rfl, by simp, by simp [encWitnesses], by simp [encWitnesses]⟩
  | succ n ih =>
    intro i s ae rem ae' h
    rw [decWitnessesLoop] at h
    obtain ⟨_, _, h⟩ := D_bind_res_eq_ok h
    obtain ⟨⟨o, e, r⟩, h1, h⟩ := D_bind_res_eq_ok h
    obtain ⟨_, _, h⟩ := D_bind_res_eq_ok h
    obtain ⟨w, ww, e1, b1⟩ := decWitness_eq_ok h1
    obtain ⟨l, hl, wl, el, bl⟩ := ih _ _ _ _ _ h
    refine ⟨w :: l, by simp [hl], ?_, ?_, ?_⟩
    · intro y hy
      rcases List.mem_cons.1 hy with rfl | hy
      · exact ww
      · exact wl y hy
    · rw [encWitnesses_cons, List.append_assoc, ← el, ← e1]
    · rw [encWitnesses_cons, List.length_append]; omega

theorem decWitnesses_eq_ok {s : Slice} {n : Nat} {o : WitnessesV} {rem : Slice}
    (h : (decWitnesses s n).res = .ok (o, rem)) :
    ∃ ws : List (List Bytes), ws.length = n ∧ (∀ w ∈ ws, witnessWF w) ∧
      s.bytes = encWitnesses ws ++ rem.bytes ∧ rem.base = s.base + (encWitnesses ws).length := by
  unfold decWitnesses at h
  obtain ⟨⟨rem', ae⟩, h1, h⟩ := D_bind_res_eq_ok h
  cases h
  exact decWitnessesLoop_eq_ok _ _ _ _ _ _ h1

theorem decWitnessesLoop_basic : ∀ (n i : Nat) (s : Slice) (ae : Bool), Basic (decWitnessesLoop n i s ae).res := by
  intro n
  induction n with
  | zero => intro i s ae; trivial
  | succ n ih =>
    intro i s ae
    rw [decWitnessesLoop]
    refine D_Basic_bind (m := D.emit _) trivial fun _ => D_Basic_bind (decWitness_basic s) fun ⟨_, _, _⟩ =>
      D_Basic_bind (m := D.emit _) trivial fun _ => ih _ _ _

theorem decWitnesses_basic (s : Slice) (n : Nat) : Basic (decWitnesses s n).res := by
  unfold decWitnesses
  refine D_Basic_bind (decWitnessesLoop_basic _ _ _ _) fun ⟨_, _⟩ => trivial

end BS.Enc
