import BS.Impl.Num
import BS.Spec.Wire
/- helper lemmas: little-endian codecs, machine arithmetic, slices -/
namespace BS

@[simp] theorem toLE_length (w n : Nat) : (toLE w n).length = w := by
  induction w generalizing n with
  | zero => rfl
  | succ w ih => simp [toLE, ih]

theorem leN_lt (bs : Bytes) : leN bs < 256 ^ bs.length := by
  induction bs with
  | nil => simp [leN]
  | cons b bs ih =>
    have hb : b.toNat < 256 := b.toNat_lt
    simp only [leN, List.length_cons, Nat.pow_succ]
    omega

theorem UInt8_ofNat_toNat_mod (n : Nat) : (UInt8.ofNat (n % 256)).toNat = n % 256 := by
  simp [UInt8.toNat_ofNat']

theorem leN_toLE (w n : Nat) : leN (toLE w n) = n % 256 ^ w := by
  induction w generalizing n with
  | zero => simp [toLE, leN, Nat.mod_one]
  | succ w ih =>
    simp only [toLE, leN, ih, UInt8_ofNat_toNat_mod, Nat.pow_succ]
    rw [Nat.mul_comm (256 ^ w) 256, Nat.mod_mul]

theorem leN_toLE_of_lt {w n : Nat} (h : n < 256 ^ w) : leN (toLE w n) = n := by
  rw [leN_toLE, Nat.mod_eq_of_lt h]

theorem toLE_leN (bs : Bytes) : toLE bs.length (leN bs) = bs := by
  induction bs with
  | nil => rfl
  | cons b bs ih =>
    have hb : b.toNat < 256 := b.toNat_lt
    simp only [List.length_cons, toLE, leN]
    have h1 : (b.toNat + 256 * leN bs) % 256 = b.toNat := by omega
    have h2 : (b.toNat + 256 * leN bs) / 256 = leN bs := by omega
    rw [h1, h2, ih]
    simp

theorem toLE_inj {w a b : Nat} (ha : a < 256 ^ w) (hb : b < 256 ^ w) (h : toLE w a = toLE w b) : a = b := by
  have := congrArg leN h
  rwa [leN_toLE_of_lt ha, leN_toLE_of_lt hb] at this

theorem leN_inj {a b : Bytes} (hl : a.length = b.length) (h : leN a = leN b) : a = b := by
  rw [← toLE_leN a, ← toLE_leN b, hl, h]

/-! two's complement -/
theorem toI32_ofI32 {i : Int} (h1 : -(2 : Int) ^ 31 ≤ i) (h2 : i < 2 ^ 31) : toI32 (ofI32 i) = i := by
  unfold toI32 ofI32
  split <;> split <;> omega

theorem ofI32_toI32 {n : Nat} (h : n < 2 ^ 32) : ofI32 (toI32 n) = n := by
  unfold toI32 ofI32
  split <;> split <;> omega

theorem ofI32_lt {i : Int} (h1 : -(2 : Int) ^ 31 ≤ i) (h2 : i < 2 ^ 31) : ofI32 i < 2 ^ 32 := by
  unfold ofI32
  split <;> omega

theorem toI32_range {n : Nat} (h : n < 2 ^ 32) : -(2 : Int) ^ 31 ≤ toI32 n ∧ toI32 n < 2 ^ 31 := by
  unfold toI32
  split <;> omega

/-! machine arithmetic -/
theorem addU_ok {a b : Nat} (h : a + b < 2 ^ 64) : addU a b = .ok (a + b) := by
  simp [addU, USIZE, h]

theorem addU_eq_ok {a b c : Nat} (h : addU a b = .ok c) : c = a + b ∧ a + b < 2 ^ 64 := by
  unfold addU USIZE at h
  split at h
  · cases h; exact ⟨rfl, by assumption⟩
  · cases h

theorem satAdd_eq {a b : Nat} (h : a + b < 2 ^ 64) : satAdd a b = a + b := by
  simp [satAdd, USIZE, h]

theorem satAdd_le (a b : Nat) : satAdd a b ≤ a + b := by
  unfold satAdd USIZE; split <;> omega

theorem satAdd_ge {a b : Nat} (h : ¬ a + b < 2 ^ 64) : satAdd a b = 2 ^ 64 - 1 := by
  simp [satAdd, USIZE, h]

end BS
