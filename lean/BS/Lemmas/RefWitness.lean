import BS.Lemmas.RefLoops
/-
  Refinement L1 ⊑ L2, part 6: witness and witnesses.
-/
namespace BS.Ref
open BS BS.Spec VM

/-! ### L2 facts -/

theorem witnessLoop_out (s : Slice) (_hs : s.len < 2 ^ 62) (n i c : Nat) (hc : c ≤ s.len) :
    Out s c (decWitnessLoop n i (sdrop s c)) 0 (fun r k t => r = sdrop s k ∧ t ≤ k - c) := by
  induction n generalizing i c with
  | zero =>
    rw [decWitnessLoop]
    exact (out_pure s c hc _ 0).mono (Nat.le_refl _) (fun a k t _ _ ⟨h1, h2, h3⟩ => ⟨by rw [h1, h2], by omega⟩)
  | succ n ih =>
    rw [decWitnessLoop]
    refine out_bind (F' := 1) (out_compact s c hc 0) (fun a k t _ _ ⟨w, hw, _, _, _⟩ => by have := hw.1; omega) ?_
    rintro ⟨len, r⟩ k t hk1 hk2 _ ⟨w, hok, hk, hr, ht⟩
    simp only at hr hok; subst hr
    have hw1 := hok.1
    refine out_bind (F' := 1) (out_takeN s k hk2 len 1) (fun a k t _ _ ⟨_, _, _⟩ => by omega) ?_
    rintro ⟨el, r⟩ k1 t1 _ hk12 _ ⟨hk1e, ha, ht1⟩
    cases ha
    refine out_bind (F' := 0) (out_emit s k1 hk12 _ 1) (fun a k t _ _ ⟨_, _⟩ => by omega) ?_
    rintro _ k' t' _ _ _ ⟨rfl, rfl⟩
    exact (ih (i + 1) k' hk12).mono (Nat.le_refl _) (fun a k t _ _ ⟨h1, h2⟩ => ⟨h1, by omega⟩)

/-- facts about a decoded witness -/
def WitOut (s : Slice) (a : WitnessV × Bool × Slice) (k t : Nat) : Prop :=
  a = (⟨stake s k⟩, a.2.1, sdrop s k) ∧ 1 ≤ k ∧ firstIsZero (stake s k) = .ok a.2.1 ∧ t ≤ k

theorem witness_out (s : Slice) (hs : s.len < 2 ^ 62) : Out s 0 (decWitness s) 0 (WitOut s) := by
  unfold decWitness
  have h0 := out_compact s 0 (Nat.zero_le _) 0
  rw [sdrop_zero] at h0
  refine out_bind (F' := 1) h0 (fun a k t _ _ ⟨w, hw, _, _, _⟩ => by have := hw.1; omega) ?_
  rintro ⟨n, r⟩ k t _ hk2 _ ⟨w, hok, hk, hr, ht⟩
  simp only at hr hok; subst hr
  refine out_bind (F' := 0) (out_emit s k hk2 _ 1) (fun a k t _ _ ⟨_, _⟩ => by omega) ?_
  rintro _ k' t' _ _ _ ⟨rfl, rfl⟩
  refine out_bind (F' := 0) (witnessLoop_out s hs n 0 k' hk2) (fun a k t _ _ ⟨_, _⟩ => by omega) ?_
  rintro r k2 t2 hk1' hk2' _ ⟨rfl, ht2⟩
  refine (out_pure s k2 hk2' _ 0).mono (Nat.le_refl _) ?_
  rintro _ _ _ _ _ ⟨rfl, rfl, rfl⟩
  have hw1 := hok.1
  exact ⟨by simp only [viewOf_sdrop hk2'], by omega, firstIsZero_of_scan hok (by omega), by omega⟩

theorem witnessesLoop_out (s : Slice) (hs : s.len < 2 ^ 62) (n i c : Nat) (ae : Bool) (hc : c ≤ s.len) :
    Out s c (decWitnessesLoop n i (sdrop s c) ae) 1 (fun a k t => a.1 = sdrop s k ∧ t ≤ 3 * (k - c)) := by
  induction n generalizing i c ae with
  | zero =>
    rw [decWitnessesLoop]
    exact (out_pure s c hc _ 1).mono (Nat.le_refl _) (fun a k t _ _ ⟨h1, h2, h3⟩ => ⟨by rw [h1, h2], by omega⟩)
  | succ n ih =>
    rw [decWitnessesLoop]
    refine out_bind (F' := 0) (out_emit s c hc _ 1) (fun a k t _ _ ⟨_, _⟩ => by omega) ?_
    rintro _ k' t' _ _ _ ⟨rfl, rfl⟩
    refine out_bind (F' := 2) (out_shift hc (witness_out (sdrop s k') (by simp; omega)))
      (fun a k t _ _ ⟨_, _, h1, _, h2⟩ => by omega) ?_
    rintro ⟨wv, em, r⟩ k t hk1 hk2 _ ⟨_, ha, hk1', _, ht⟩
    cases ha
    simp only [sdrop_sdrop, Nat.add_sub_cancel' hk1]
    refine out_bind (F' := 1) (out_emit s k hk2 _ 2) (fun a k t _ _ ⟨_, _⟩ => by omega) ?_
    rintro _ k2 t2 _ _ _ ⟨rfl, rfl⟩
    exact (ih (i + 1) k2 _ hk2).mono (Nat.le_refl _) (fun a k t _ _ ⟨h1, h2⟩ => ⟨h1, by omega⟩)

theorem witnesses_out (s : Slice) (hs : s.len < 2 ^ 62) (n : Nat) :
    Out s 0 (decWitnesses s n) 1
      (fun a k t => a = (⟨stake s k, a.1.allEmpty⟩, sdrop s k) ∧ t ≤ 3 * k) := by
  unfold decWitnesses
  have h0 := witnessesLoop_out s hs n 0 0 true (Nat.zero_le _)
  rw [sdrop_zero] at h0
  refine out_bind (F' := 0) h0 (fun a k t _ _ ⟨_, _⟩ => by omega) ?_
  rintro ⟨r, ae⟩ k t _ hk2 _ ⟨hr, ht⟩
  simp only at hr; subst hr
  refine (out_pure s k hk2 _ 0).mono (Nat.le_refl _) ?_
  rintro _ _ _ _ _ ⟨rfl, rfl, rfl⟩
  exact ⟨by simp only [viewOf_sdrop hk2], by omega⟩

/-! ### simulation -/

theorem witness_loop_sim {σ β} (s : Slice) (hs : s.len < 2 ^ 62) (n i c : Nat) (hc : c ≤ s.len)
    (f : Nat → VM σ β) (g : Slice → D β)
    (h : ∀ k, c ≤ k → k ≤ s.len → Sim (f k) (g (sdrop s k))) :
    Sim (Witness.loop s n i c >>= f) (decWitnessLoop n i (sdrop s c) >>= g) := by
  induction n generalizing i c with
  | zero =>
    rw [Witness.loop, decWitnessLoop, vm_pure_bind, d_pure_bind]
    exact h c (Nat.le_refl _) hc
  | succ n ih =>
    rw [Witness.loop, decWitnessLoop]
    simp only [vm_bind_assoc, d_bind_assoc, from_ok hc, vm_lift_ok_bind]
    rcases scan_cases (sdrop s c) c (by omega) with ⟨e, _, h1, h2⟩ | ⟨len, w, hok⟩
    · rw [h1, h2]; exact sim_lift _
    · have ⟨hw1, _, hwl, _, h1, h2, _⟩ := hok
      simp only [sdrop_len] at hwl
      rw [h1, h2]
      simp only [vm_lift_ok_bind, d_lift_ok_bind, sdrop_sdrop]
      rw [get?_eq, takeN_eq]
      by_cases hl : c + w + len ≤ s.len
      · rw [satAdd_eq (by omega), if_pos ⟨by omega, hl⟩, if_neg (by simp; omega)]
        simp only [vm_lift_ok_bind, d_lift_ok_bind, sdrop_sdrop, Nat.add_sub_cancel_left]
        rw [addU_ok (by omega)]
        simp only [vm_lift_ok_bind]
        apply sim_emitN_bind rfl
        exact ih _ _ hl (fun k h1 h2 => h k (by omega) h2)
      · have : ¬ (c + w ≤ satAdd (c + w) len ∧ satAdd (c + w) len ≤ s.len) := by
          have := satAdd_gt (a := c + w) (b := len) hs (by omega)
          omega
        rw [if_neg this, if_pos (by simp; omega)]
        exact sim_lift _

/-- a witness visit followed by anything, in continuation form -/
theorem witness_sim_bind {σ β} (s : Slice) (hs : s.len < 2 ^ 62)
    (f : WitnessV × Slice → VM σ β) (g : WitnessV × Bool × Slice → D β)
    (h : ∀ k e, 1 ≤ k → k ≤ s.len → firstIsZero (stake s k) = .ok e →
      Sim (f (⟨stake s k⟩, sdrop s k)) (g (⟨stake s k⟩, e, sdrop s k))) :
    Sim (Witness.visit s >>= f) (decWitness s >>= g) := by
  unfold Witness.visit decWitness
  simp only [vm_bind_assoc, d_bind_assoc]
  rcases scan_cases s 0 (by omega) with ⟨e, _, h1, h2⟩ | ⟨n, w, hok⟩
  · rw [h1, h2]; exact sim_lift _
  · have ⟨hw1, _, hwl, _, h1, h2, _⟩ := hok
    rw [h1, h2, Nat.zero_add]
    simp only [vm_lift_ok_bind, d_lift_ok_bind]
    apply sim_emitN_bind rfl
    apply witness_loop_sim s hs n 0 w hwl
    intro k hk1 hk
    rw [from_ok hk, to_ok hk, viewOf_sdrop hk]
    simp only [vm_lift_ok_bind, vm_pure_bind, d_pure_bind]
    exact h k _ (by omega) hk (firstIsZero_of_scan hok (by omega))

theorem vm_bind_pure {σ α} (m : VM σ α) : (m >>= pure) = m := by
  funext v st
  show VM.bind' m VM.pure' v st = m v st
  unfold VM.bind' VM.pure'
  rcases m v st with ⟨st', r⟩
  cases r <;> rfl

/-- `decWitness` without the `is_empty` flag it also returns -/
def witnessD (s : Slice) : D (WitnessV × Slice) := decWitness s >>= fun x => pure (x.1, x.2.2)

theorem witnessD_trace (s : Slice) : (witnessD s).trace = (decWitness s).trace := by
  show (D.bind' _ _).trace = _
  unfold D.bind'
  cases (decWitness s).res <;> simp [pure, D.pure']

theorem witnessD_res (s : Slice) : (witnessD s).res = (decWitness s).res.map' (fun x => (x.1, x.2.2)) := by
  show (D.bind' _ _).res = _
  unfold D.bind'
  cases (decWitness s).res <;> rfl

theorem sim_witness {σ} (s : Slice) (hs : s.len < 2 ^ 62) : Sim (Witness.visit s : VM σ _) (witnessD s) := by
  rw [← vm_bind_pure (Witness.visit s)]
  exact witness_sim_bind s hs _ _ (fun k e _ _ _ => sim_pure _)

theorem refine_witness {σ} (s : Slice) (hs : s.len < 2 ^ 62) (v : Visitor σ) (st : σ) :
    Witness.visit s v st =
      (⟨(decWitness s).trace, (decWitness s).res.map' (fun x => (x.1, x.2.2))⟩ : D (WitnessV × Slice)).run v st := by
  rw [← witnessD_trace, ← witnessD_res]
  exact sim_witness s hs v st

theorem witnesses_loop_sim {σ β} (s : Slice) (hs : s.len < 2 ^ 62) (n i c : Nat) (ae : Bool) (hc : c ≤ s.len)
    (f : Nat × Bool → VM σ β) (g : Slice × Bool → D β)
    (h : ∀ k b, c ≤ k → k ≤ s.len → Sim (f (k, b)) (g (sdrop s k, b))) :
    Sim (Witnesses.loop n i (sdrop s c) c ae >>= f) (decWitnessesLoop n i (sdrop s c) ae >>= g) := by
  induction n generalizing i c ae with
  | zero =>
    rw [Witnesses.loop, decWitnessesLoop, vm_pure_bind, d_pure_bind]
    exact h c ae (Nat.le_refl _) hc
  | succ n ih =>
    rw [Witnesses.loop, decWitnessesLoop]
    simp only [vm_bind_assoc, d_bind_assoc]
    apply sim_emitB_bind rfl
    apply witness_sim_bind (sdrop s c) (by simp; omega)
    intro k e hk1 hk hz
    simp only [sdrop_len] at hk
    simp only []
    apply sim_emitN_bind rfl
    rw [stake_len (by simp; omega), addU_ok (by omega), hz]
    simp only [vm_lift_ok_bind, sdrop_sdrop]
    have hb : (if (!e) = true then false else ae) = (ae && e) := by cases e <;> cases ae <;> rfl
    rw [hb]
    exact ih _ _ _ (by omega) (fun k b h1 h2 => h k b (by omega) h2)

theorem sim_witnesses {σ} (s : Slice) (hs : s.len < 2 ^ 62) (n : Nat) :
    Sim (Witnesses.visit s n : VM σ _) (decWitnesses s n) := by
  unfold Witnesses.visit decWitnesses
  have key : ∀ {β : Type} (f : Nat × Bool → VM σ β) (g : Slice × Bool → D β),
      (∀ k b, k ≤ s.len → Sim (f (k, b)) (g (sdrop s k, b))) →
      Sim (Witnesses.loop n 0 s 0 true >>= f) (decWitnessesLoop n 0 s true >>= g) := by
    intro β f g h
    have := witnesses_loop_sim s hs n 0 0 true (Nat.zero_le _) f g (fun k b _ hk => h k b hk)
    rwa [sdrop_zero] at this
  apply key
  intro k b hk
  simp only [from_ok hk, to_ok hk, viewOf_sdrop hk, vm_lift_ok_bind]
  exact sim_pure _

/-- for every declared count `n` -/
theorem refine_witnesses {σ} (s : Slice) (hs : s.len < 2 ^ 62) (n : Nat) (v : Visitor σ) (st : σ) :
    Witnesses.visit s n v st = (decWitnesses s n).run v st := sim_witnesses s hs n v st

end BS.Ref
