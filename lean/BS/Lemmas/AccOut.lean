import BS.Lemmas.AccDec
import BS.Impl.Extra
/- helper lemmas: scripts and transaction outputs — what the L2 decoders accept (`_ok`), and that both the L2
   decoder and the L1 parser accept exactly that shape whatever follows it (`_append`) -/
namespace BS.Acc
open BS BS.Spec

/-- the view of a script with payload `body` at absolute offset `b` -/
def mkScript (b : Nat) (body : Bytes) : ScriptV :=
  ⟨⟨b, encCompact body.length ++ body⟩, compactWidth body.length⟩

/-- the bytes of an output: 8 value bytes, script length, script -/
def encItem (v8 body : Bytes) : Bytes := v8 ++ (encCompact body.length ++ body)

/-- the view of an output at absolute offset `b` -/
def mkTxOut (b : Nat) (v8 body : Bytes) : TxOutV :=
  ⟨⟨b, encItem v8 body⟩, leN v8, mkScript (b + 8) body⟩

theorem encItem_length (v8 body : Bytes) :
    (encItem v8 body).length = v8.length + (compactWidth body.length + body.length) := by
  simp [encItem, encCompact_length]

theorem decScript_ok {s : Slice} {sc : ScriptV} {rem : Slice} (h : decScript s = .ok (sc, rem)) :
    ∃ body, body.length < 2 ^ 64 ∧ Cons s (encCompact body.length ++ body) rem ∧ sc = mkScript s.base body := by
  unfold decScript at h
  obtain ⟨⟨n, r⟩, h1, h⟩ := res_bind_ok.mp h
  obtain ⟨⟨p, rem'⟩, h2, h⟩ := res_bind_ok.mp h
  simp only [Res.pure_eq, Res.ok.injEq, Prod.mk.injEq] at h
  obtain ⟨h3, h4⟩ := h
  subst h4
  obtain ⟨c1, hn⟩ := decCompact_ok h1
  obtain ⟨c2, _, hl⟩ := takeN_ok h2
  have c := c1.trans c2
  refine ⟨p.bytes, by omega, by rw [hl]; exact c, ?_⟩
  rw [← h3, c.viewOf, c1.len]
  simp [mkScript, hl, encCompact_length]

theorem decScript_append (b : Nat) (body rest : Bytes) (h : body.length < 2 ^ 64) :
    decScript ⟨b, encCompact body.length ++ (body ++ rest)⟩ =
      .ok (mkScript b body, ⟨b + (compactWidth body.length + body.length), rest⟩) := by
  unfold decScript
  rw [decCompact_append b _ _ h]
  simp only [Res.bind_ok]
  rw [takeN_append _ body rest rfl]
  simp only [Res.bind_ok, Res.pure_eq]
  have c : Cons ⟨b, encCompact body.length ++ (body ++ rest)⟩ (encCompact body.length ++ body)
      ⟨b + compactWidth body.length + body.length, rest⟩ :=
    ⟨by simp, by simp [encCompact_length]; omega⟩
  rw [c.viewOf]
  simp [mkScript, Slice.len, encCompact_length, Nat.add_assoc]

theorem Script_parse_append (b : Nat) (body rest : Bytes) (h : 9 + body.length < 2 ^ 64) :
    Script.parse ⟨b, encCompact body.length ++ (body ++ rest)⟩ =
      .ok (mkScript b body, ⟨b + (compactWidth body.length + body.length), rest⟩) := by
  unfold Script.parse scanLenQ
  rw [C08_complete body.length 0 b _ (by omega) (by omega)]
  have hw := compactWidth_le body.length
  simp only [Res.bind_ok, Nat.zero_add]
  rw [satAdd_eq (by omega)]
  unfold Slice.splitAtChecked Slice.splitAt Slice.len
  have hl : (encCompact body.length ++ body).length = compactWidth body.length + body.length := by
    simp [encCompact_length]
  have e : encCompact body.length ++ (body ++ rest) = (encCompact body.length ++ body) ++ rest := by simp
  have h1 : ¬ ((encCompact body.length ++ (body ++ rest)).length < compactWidth body.length + body.length) := by
    simp [encCompact_length]
  have h2 : compactWidth body.length + body.length ≤ (encCompact body.length ++ (body ++ rest)).length := by
    simp [encCompact_length]
  simp only [h1, h2, if_false, if_true, Res.bind_ok, Res.pure_eq]
  rw [e, take_append_len _ _ hl, drop_append_len _ _ hl]
  rfl

theorem decTxOut_ok {s : Slice} {o : TxOutV} {rem : Slice} (h : decTxOut s = .ok (o, rem)) :
    ∃ v8 body, v8.length = 8 ∧ body.length < 2 ^ 64 ∧ Cons s (encItem v8 body) rem ∧ o = mkTxOut s.base v8 body := by
  unfold decTxOut at h
  obtain ⟨⟨n, r⟩, h1, h⟩ := res_bind_ok.mp h
  obtain ⟨⟨sc, rem'⟩, h2, h⟩ := res_bind_ok.mp h
  simp only [Res.pure_eq, Res.ok.injEq, Prod.mk.injEq] at h
  obtain ⟨h3, h4⟩ := h
  subst h4
  obtain ⟨v8, c1, hl, hn⟩ := decLE_ok h1
  obtain ⟨body, hb, c2, hsc⟩ := decScript_ok h2
  have c := c1.trans c2
  refine ⟨v8, body, hl, hb, c, ?_⟩
  rw [← h3, c.viewOf, hsc, c1.2, hn, hl]
  rfl

theorem decTxOut_append (b : Nat) (v8 body rest : Bytes) (h8 : v8.length = 8) (h : body.length < 2 ^ 64) :
    decTxOut ⟨b, encItem v8 body ++ rest⟩ =
      .ok (mkTxOut b v8 body, ⟨b + (encItem v8 body).length, rest⟩) := by
  unfold decTxOut
  have e : encItem v8 body ++ rest = v8 ++ (encCompact body.length ++ (body ++ rest)) := by simp [encItem]
  rw [e, decLE_append 8 b v8 _ h8]
  simp only [Res.bind_ok]
  rw [decScript_append _ _ _ h]
  simp only [Res.bind_ok, Res.pure_eq]
  have c : Cons ⟨b, v8 ++ (encCompact body.length ++ (body ++ rest))⟩ (encItem v8 body)
      ⟨b + 8 + (compactWidth body.length + body.length), rest⟩ :=
    ⟨by simp [encItem], by simp [encItem_length, h8]; omega⟩
  rw [c.viewOf, encItem_length, h8]
  simp [mkTxOut, Nat.add_assoc]

theorem TxOut_parse_append (b : Nat) (v8 body rest : Bytes) (h8 : v8.length = 8)
    (h : (encItem v8 body).length < 2 ^ 63) :
    TxOut.parse ⟨b, encItem v8 body ++ rest⟩ =
      .ok (mkTxOut b v8 body, ⟨b + (encItem v8 body).length, rest⟩) := by
  have hl := encItem_length v8 body
  have hw := compactWidth_le body.length
  have hw1 := compactWidth_pos body.length
  unfold TxOut.parse
  have e : encItem v8 body ++ rest = v8 ++ (encCompact body.length ++ (body ++ rest)) := by simp [encItem]
  rw [e, read_append 8 b v8 _ h8]
  simp only [Res.bind_ok]
  have hf : Slice.from_ ⟨b, v8 ++ (encCompact body.length ++ (body ++ rest))⟩ 8 =
      .ok ⟨b + 8, encCompact body.length ++ (body ++ rest)⟩ := by
    unfold Slice.from_ Slice.len
    have : 8 ≤ (v8 ++ (encCompact body.length ++ (body ++ rest))).length := by simp [h8]
    simp only [this, if_true, drop_append_len _ _ h8]
  rw [hf]
  simp only [Res.bind_ok]
  rw [Script_parse_append _ _ _ (by omega)]
  simp only [Res.bind_ok]
  have hsl : (mkScript (b + 8) body).slice.len = compactWidth body.length + body.length := by
    simp [mkScript, Slice.len, encCompact_length]
  rw [hsl, addU_ok (by omega)]
  simp only [Res.bind_ok]
  have ht : Slice.to_ ⟨b, v8 ++ (encCompact body.length ++ (body ++ rest))⟩ (8 + (compactWidth body.length + body.length)) =
      .ok ⟨b, encItem v8 body⟩ := by
    unfold Slice.to_ Slice.len
    rw [← e]
    have : 8 + (compactWidth body.length + body.length) ≤ (encItem v8 body ++ rest).length := by
      simp [hl, h8]
    simp only [this, if_true]
    rw [take_append_len _ _ (by rw [hl, h8])]
  rw [ht]
  simp only [Res.bind_ok, Res.pure_eq]
  rw [hl, h8]
  simp [mkTxOut, Nat.add_assoc]

end BS.Acc
