import BS.Lemmas.EncSound
import BS.Lemmas.RefBasic
import BS.Impl.Parse
/-
  The conversions of parsed views to the rust-bitcoin value types (feature `bitcoin`), as the Rust code performs them,
  at the level the model can express: the owned values are the abstract values of BS/Spec/Wire.lean.

    impl From<&OutPoint> for bitcoin::OutPoint   : `Txid::from_byte_array(self.txid().try_into().unwrap())`, `vout: self.vout()`
    impl From<&TxOut>    for bitcoin::TxOut      : `Amount::from_sat(self.value())`, `self.script_pubkey().to_vec().into()`
    `Script::script()` → `ScriptBuf`            : `self.script().to_vec()`

  `try_into().unwrap()` to `[u8; 32]` panics unless the slice has 32 bytes.
-/
namespace BS.Ext
open BS BS.Spec BS.Enc

/-- `<[u8; 32]>::try_from(slice).unwrap()` -/
def toArray32 (s : Slice) : Res Bytes := if s.len = 32 then .ok s.bytes else .panic .expect

def convOutPoint (o : OutPointV) : Res OutPointS := do
  let t ← o.txid
  let a ← toArray32 t
  let v ← o.vout
  pure ⟨a, v⟩

def convScript (v : ScriptV) : Res Bytes := do
  let x ← v.script
  pure x.bytes

def convTxOut (o : TxOutV) : Res TxOutS := do
  let s ← o.scriptPubkeyBytes
  pure ⟨o.value, s.bytes⟩

/-- `bitcoin::TxIn { previous_output, script_sig, sequence, .. }` (the witness is not part of the `TxIn` view) -/
def convTxIn (i : TxInV) : Res TxInS := do
  let p ← convOutPoint i.prevout
  let s ← i.scriptSigBytes
  pure ⟨p, s.bytes, i.sequence⟩

/-- on a 36-byte outpoint view the conversion succeeds and reads the two fields -/
theorem convOutPoint_eq {o : OutPointV} (h : o.slice.len = 36) : convOutPoint o = .ok (fieldsOutPoint o) := by
  have hb : o.slice.bytes.length = 36 := h
  unfold convOutPoint OutPointV.txid OutPointV.vout toArray32
  rw [Ref.to_ok (by omega), Ref.range_ok ⟨by omega, by omega⟩]
  have h32 : (Ref.stake o.slice 32).len = 32 := Ref.stake_len (by omega)
  have h4 : (Ref.stake (Ref.sdrop o.slice 32) (36 - 32)).len = 4 := Ref.stake_len (by simp; omega)
  simp only [Res.bind_ok, h32, h4, if_true, Res.pure_eq, fieldsOutPoint, Ref.stake_bytes, Ref.sdrop_bytes]
  congr 2
  rw [List.take_of_length_le (by simp; omega)]

theorem convScript_eq {v : ScriptV} (h : v.from_ ≤ v.slice.len) : convScript v = .ok (fieldsScript v) := by
  unfold convScript ScriptV.script
  rw [Ref.from_ok h]
  rfl

theorem convTxOut_eq {o : TxOutV} (h : o.scriptPubkey.from_ ≤ o.scriptPubkey.slice.len) :
    convTxOut o = .ok (fieldsTxOut o) := by
  unfold convTxOut TxOutV.scriptPubkeyBytes ScriptV.script
  rw [Ref.from_ok h]
  rfl

theorem convTxIn_eq {i : TxInV} (h1 : i.prevout.slice.len = 36) (h2 : i.scriptSig.from_ ≤ i.scriptSig.slice.len) :
    convTxIn i = .ok (fieldsTxIn i) := by
  unfold convTxIn TxInV.scriptSigBytes ScriptV.script
  rw [convOutPoint_eq h1, Ref.from_ok h2]
  rfl

theorem viewScript_from_le (b : Nat) (x : Bytes) : (viewScript b x).from_ ≤ (viewScript b x).slice.len := by
  simp only [viewScript, Slice.len, encVarBytes, List.length_append]
  omega

theorem convOutPoint_view (b : Nat) {x : OutPointS} (hx : x.WF) : convOutPoint (viewOutPoint b x) = .ok x := by
  rw [convOutPoint_eq (by simp only [viewOutPoint, Slice.len]; exact encOutPoint_length hx), fields_viewOutPoint b hx]

theorem convScript_view (b : Nat) (x : Bytes) : convScript (viewScript b x) = .ok x := by
  rw [convScript_eq (viewScript_from_le b x), fields_viewScript]

theorem convTxOut_view (b : Nat) (x : TxOutS) : convTxOut (viewTxOut b x) = .ok x := by
  rw [convTxOut_eq (viewScript_from_le _ _), fields_viewTxOut]

theorem convTxIn_view (b : Nat) {x : TxInS} (hx : x.WF) : convTxIn (viewTxIn b x) = .ok x := by
  rw [convTxIn_eq (by simp only [viewTxIn, viewOutPoint, Slice.len]; exact encOutPoint_length hx.1)
    (viewScript_from_le _ _), fields_viewTxIn b hx]

end BS.Ext
