import BS.Lemmas.EncSound
/-
  the transaction decoder of L2
-/
namespace BS.Enc
open BS BS.Spec

/-- the segwit form after marker and flag -/
def txSegTail (s r1 : Slice) : D (TxV × Slice) := do
  let (inputs, r2) ← decTxIns r1
  let (outputs, r3) ← decTxOuts r2
  let (witnesses, r4) ← decWitnesses r3 inputs.n
  if inputs.n ≠ 0 ∧ witnesses.allEmpty = true then
    D.lift (.err .segwitFlagWithoutWitnesses)
  else
    let (_lock, rem) ← D.lift (decLE 4 r4)
    let tx : TxV := ⟨viewOf s rem, some (inputs.slice.len + outputs.slice.len)⟩
    D.emit (.transaction tx)
    pure (tx, rem)

/-- the legacy form after the input list -/
def txLegTail (s r : Slice) : D (TxV × Slice) := do
  let (_outputs, r1) ← decTxOuts r
  let (_lock, rem) ← D.lift (decLE 4 r1)
  let tx : TxV := ⟨viewOf s rem, none⟩
  D.emit (.transaction tx)
  pure (tx, rem)

/-- after version and a zero input count: the flag byte decides -/
def txFlag (s r : Slice) : D (TxV × Slice) := do
  let (flag, r1) ← D.lift (decLE 1 r)
  if flag = 1 then txSegTail s r1 else D.lift (.err (.unknownSegwitFlag (UInt8.ofNat flag)))

theorem decTransaction_eq (s : Slice) : decTransaction s = (do
    let (_version, s4) ← D.lift (decLE 4 s)
    let (inputs, r) ← decTxIns s4
    if inputs.n = 0 then txFlag s r else txLegTail s r) := rfl

theorem viewOf_eq {b b' : Nat} {bs e r : Bytes} (h : bs = e ++ r) : viewOf ⟨b, bs⟩ ⟨b', r⟩ = ⟨b, e⟩ := by
  subst h; exact viewOf_append b b' e r

theorem txLegTail_enc (b : Nat) (pre : Bytes) (outs : List TxOutS) (lock : Nat) (r : Bytes)
    (hn : outs.length < 2 ^ 64) (hw : ∀ x ∈ outs, x.WF) (hl : lock < 2 ^ 32) :
    txLegTail ⟨b, pre ++ (encTxOuts outs ++ (toLE 4 lock ++ r))⟩
        ⟨b + pre.length, encTxOuts outs ++ (toLE 4 lock ++ r)⟩ =
      ⟨travTxOuts (b + pre.length) outs ++
          [.transaction ⟨⟨b, pre ++ (encTxOuts outs ++ toLE 4 lock)⟩, none⟩],
        .ok (⟨⟨b, pre ++ (encTxOuts outs ++ toLE 4 lock)⟩, none⟩,
             ⟨b + pre.length + (encTxOuts outs).length + 4, r⟩)⟩ := by
  unfold txLegTail
  rw [decTxOuts_enc _ _ _ hn hw]
  simp only [D_mk_ok_bind]
  rw [decLE_toLE 4 _ _ _ (by omega)]
  simp only [D_lift_ok_bind, D_emit_bind, D_pure]
  rw [viewOf_eq (e := pre ++ (encTxOuts outs ++ toLE 4 lock)) (by simp only [List.append_assoc])]


theorem txSegTail_enc (b : Nat) (pre : Bytes) (ins : List TxInS) (outs : List TxOutS) (ws : List (List Bytes))
    (lock : Nat) (r : Bytes)
    (hni : ins.length < 2 ^ 64) (hwi : ∀ x ∈ ins, x.WF)
    (hn : outs.length < 2 ^ 64) (hw : ∀ x ∈ outs, x.WF) (hl : lock < 2 ^ 32)
    (hlen : ws.length = ins.length) (hww : ∀ w ∈ ws, witnessWF w) (hne : ins ≠ [] → ∃ w ∈ ws, w ≠ []) :
    txSegTail ⟨b, pre ++ (encTxIns ins ++ (encTxOuts outs ++ (encWitnesses ws ++ (toLE 4 lock ++ r))))⟩
        ⟨b + pre.length, encTxIns ins ++ (encTxOuts outs ++ (encWitnesses ws ++ (toLE 4 lock ++ r)))⟩ =
      ⟨travTxIns (b + pre.length) ins ++ (travTxOuts (b + pre.length + (encTxIns ins).length) outs ++
          (travWitnesses (b + pre.length + (encTxIns ins).length + (encTxOuts outs).length) ws ++
          [.transaction ⟨⟨b, pre ++ (encTxIns ins ++ (encTxOuts outs ++ (encWitnesses ws ++ toLE 4 lock)))⟩,
              some ((encTxIns ins).length + (encTxOuts outs).length)⟩])),
        .ok (⟨⟨b, pre ++ (encTxIns ins ++ (encTxOuts outs ++ (encWitnesses ws ++ toLE 4 lock)))⟩,
              some ((encTxIns ins).length + (encTxOuts outs).length)⟩,
             ⟨b + pre.length + (encTxIns ins).length + (encTxOuts outs).length + (encWitnesses ws).length + 4,
              r⟩)⟩ := by
  unfold txSegTail
  rw [decTxIns_enc _ _ _ hni hwi]
  simp only [D_mk_ok_bind]
  rw [decTxOuts_enc _ _ _ hn hw]
  simp only [D_mk_ok_bind]
  have hvn : (viewTxIns (b + pre.length) ins).n = ws.length := hlen.symm
  rw [hvn, decWitnesses_enc _ _ _ hww]
  simp only [D_mk_ok_bind]
  have hc : ¬ (ws.length ≠ 0 ∧ (viewWitnesses (b + pre.length + (encTxIns ins).length + (encTxOuts outs).length)
      ws).allEmpty = true) := by
    rintro ⟨h1, h2⟩
    have hi : ins ≠ [] := by
      intro h; rw [h] at hlen; exact h1 hlen
    obtain ⟨w, hwm, hwn⟩ := hne hi
    simp only [viewWitnesses, List.all_eq_true, decide_eq_true_eq] at h2
    exact hwn (h2 w hwm)
  rw [if_neg hc]
  rw [decLE_toLE 4 _ _ _ (by omega)]
  simp only [D_lift_ok_bind, D_emit_bind, D_pure]
  rw [viewOf_eq (e := pre ++ (encTxIns ins ++ (encTxOuts outs ++ (encWitnesses ws ++ toLE 4 lock))))
    (by simp only [List.append_assoc])]
  rfl


theorem ofI32_lt' {t : TxS} (ht : t.WF) : ofI32 t.version < 256 ^ 4 := by
  have := ofI32_lt ht.1 ht.2.1
  omega

theorem decTransaction_enc (b : Nat) (t : TxS) (r : Bytes) (ht : t.WF) :
    decTransaction ⟨b, encTx t ++ r⟩ = ⟨travTx b t, .ok (viewTx b t, ⟨b + (encTx t).length, r⟩)⟩ := by
  have hv := ofI32_lt' ht
  obtain ⟨ver, ins, outs, wit, lock⟩ := t
  obtain ⟨_, _, hl, hni, hno, hwi, hwo, hwit⟩ := ht
  simp only at hv hl hni hno hwi hwo hwit
  rw [decTransaction_eq]
  cases wit with
  | none =>
    simp only at hwit
    simp only [encTx, encStripped, List.append_assoc]
    rw [decLE_toLE 4 _ _ _ hv]
    simp only [D_lift_ok_bind]
    rw [decTxIns_enc _ _ _ hni hwi]
    simp only [D_mk_ok_bind]
    have hne : ¬ (viewTxIns (b + 4) ins).n = 0 := by
      simp only [viewTxIns]; intro h; exact hwit (List.length_eq_zero_iff.1 h)
    rw [if_neg hne]
    have := txLegTail_enc b (toLE 4 (ofI32 ver) ++ encTxIns ins) outs lock r hno hwo hl
    simp only [List.append_assoc, List.length_append, toLE_length] at this
    rw [← Nat.add_assoc] at this
    rw [this]
    simp only [travTx, viewTx, encTx, encStripped, List.append_assoc, List.length_append, toLE_length,
      Nat.add_assoc]
  | some ws =>
    simp only at hwit
    obtain ⟨hlen, hww, hne⟩ := hwit
    simp only [encTx, List.append_assoc, List.cons_append, List.nil_append]
    rw [decLE_toLE 4 _ _ _ hv]
    simp only [D_lift_ok_bind]
    have h0 := decTxIns_enc (b + 4) [] (0x01 :: (encTxIns ins ++ (encTxOuts outs ++ (encWitnesses ws ++
      (toLE 4 lock ++ r))))) (by simp) (by simp)
    have e0 : encTxIns [] = [0x00] := by decide
    rw [e0] at h0
    simp only [List.cons_append, List.nil_append] at h0
    rw [h0]
    simp only [D_mk_ok_bind]
    rw [if_pos (show (viewTxIns (b + 4) []).n = 0 from rfl)]
    unfold txFlag
    have h1 := decLE_append 1 (b + 4 + 1) [0x01] (encTxIns ins ++ (encTxOuts outs ++ (encWitnesses ws ++
      (toLE 4 lock ++ r)))) rfl
    simp only [List.cons_append, List.nil_append] at h1
    simp only [List.length_cons, List.length_nil]
    rw [h1]
    simp only [D_lift_ok_bind]
    rw [if_pos (show leN [0x01] = 1 by decide)]
    have := txSegTail_enc b (toLE 4 (ofI32 ver) ++ [0x00, 0x01]) ins outs ws lock r hni hwi hno hwo hl hlen hww hne
    simp only [List.append_assoc, List.length_append, toLE_length, List.cons_append, List.nil_append,
      List.length_cons, List.length_nil] at this
    have e6 : b + (4 + (0 + 1 + 1)) = b + 6 := by omega
    have e6' : b + 4 + 1 + 1 = b + 6 := by omega
    rw [e6] at this
    rw [e6', this]
    simp only [travTx, viewTx, encTx, List.append_assoc, List.length_append, toLE_length, List.cons_append,
      List.nil_append, List.length_cons, List.length_nil, travTxIns, travTxInsFrom]
    congr 4
    omega


/-! ### soundness -/

theorem txLegTail_eq_ok {s r : Slice} {o : TxV} {rem : Slice} (h : (txLegTail s r).res = .ok (o, rem)) :
    ∃ (outs : List TxOutS) (lock : Nat), outs.length < 2 ^ 64 ∧ (∀ x ∈ outs, x.WF) ∧ lock < 2 ^ 32 ∧
      r.bytes = encTxOuts outs ++ (toLE 4 lock ++ rem.bytes) ∧
      rem.base = r.base + (encTxOuts outs).length + 4 := by
  unfold txLegTail at h
  obtain ⟨⟨ov, r1⟩, h1, h⟩ := D_bind_res_eq_ok h
  obtain ⟨⟨lock, rem'⟩, h2, h⟩ := D_bind_res_eq_ok h
  obtain ⟨_, _, h⟩ := D_bind_res_eq_ok h
  cases h
  obtain ⟨outs, hn, hw, e1, b1⟩ := decTxOuts_eq_ok h1
  obtain ⟨e2, hl, b2⟩ := decLE_eq_ok h2
  refine ⟨outs, lock, hn, hw, by simpa using hl, ?_, ?_⟩
  · rw [← e2]; exact e1
  · omega

theorem txSegTail_eq_ok {s r1 : Slice} {o : TxV} {rem : Slice} (h : (txSegTail s r1).res = .ok (o, rem)) :
    ∃ (ins : List TxInS) (outs : List TxOutS) (ws : List (List Bytes)) (lock : Nat),
      ins.length < 2 ^ 64 ∧ (∀ x ∈ ins, x.WF) ∧ outs.length < 2 ^ 64 ∧ (∀ x ∈ outs, x.WF) ∧ lock < 2 ^ 32 ∧
      ws.length = ins.length ∧ (∀ w ∈ ws, witnessWF w) ∧ (ins ≠ [] → ∃ w ∈ ws, w ≠ []) ∧
      r1.bytes = encTxIns ins ++ (encTxOuts outs ++ (encWitnesses ws ++ (toLE 4 lock ++ rem.bytes))) ∧
      rem.base = r1.base + (encTxIns ins).length + (encTxOuts outs).length + (encWitnesses ws).length + 4 := by
  unfold txSegTail at h
  obtain ⟨⟨iv, r2⟩, h1, h⟩ := D_bind_res_eq_ok h
  obtain ⟨⟨ov, r3⟩, h2, h⟩ := D_bind_res_eq_ok h
  obtain ⟨⟨wv, r4⟩, h3, h⟩ := D_bind_res_eq_ok h
  obtain ⟨ins, hni, hwi, e1, b1, rfl⟩ := decTxIns_eq_ok' h1
  obtain ⟨outs, hno, hwo, e2, b2, rfl⟩ := decTxOuts_eq_ok' h2
  obtain ⟨ws, hlen, hww, e3, b3, rfl⟩ := decWitnesses_eq_ok' h3
  simp only at h
  split at h
  · cases h
  · rename_i hc
    obtain ⟨⟨lock, rem'⟩, h4, h⟩ := D_bind_res_eq_ok h
    obtain ⟨_, _, h⟩ := D_bind_res_eq_ok h
    cases h
    obtain ⟨e4, hl, b4⟩ := decLE_eq_ok h4
    refine ⟨ins, outs, ws, lock, hni, hwi, hno, hwo, by simpa using hl, hlen, hww, ?_, ?_, ?_⟩
    · intro hi
      apply Classical.byContradiction
      intro hno'
      apply hc
      refine ⟨?_, ?_⟩
      · simp only [viewTxIns]; intro h0; exact hi (List.length_eq_zero_iff.1 h0)
      · simp only [viewWitnesses, List.all_eq_true, decide_eq_true_eq]
        intro w hw
        apply Classical.byContradiction
        intro hne
        exact hno' ⟨w, hw, hne⟩
    · rw [← e4, ← e3, ← e2]; exact e1
    · simp only [D_lift_res] at *; omega

theorem decTransaction_eq_ok {s : Slice} {o : TxV} {rem : Slice} (h : (decTransaction s).res = .ok (o, rem)) :
    ∃ t : TxS, t.WF ∧ s.bytes = encTx t ++ rem.bytes ∧ rem.base = s.base + (encTx t).length := by
  rw [decTransaction_eq] at h
  obtain ⟨⟨ver, s4⟩, h1, h⟩ := D_bind_res_eq_ok h
  obtain ⟨⟨iv, r⟩, h2, h⟩ := D_bind_res_eq_ok h
  obtain ⟨e1, hver, b1⟩ := decLE_eq_ok h1
  obtain ⟨l, hnl, hwl, e2, b2, rfl⟩ := decTxIns_eq_ok' h2
  have hver' : ver < 2 ^ 32 := by simpa using hver
  have hr := toI32_range hver'
  simp only at h
  split at h
  · rename_i hz
    have hl0 : l = [] := List.length_eq_zero_iff.1 hz
    subst hl0
    unfold txFlag at h
    obtain ⟨⟨flag, r1⟩, h3, h⟩ := D_bind_res_eq_ok h
    obtain ⟨e3, hf, b3⟩ := decLE_eq_ok h3
    simp only at h
    split at h
    · rename_i hf1
      subst hf1
      obtain ⟨ins, outs, ws, lock, hni, hwi, hno, hwo, hl, hlen, hww, hne, e4, b4⟩ := txSegTail_eq_ok h
      refine ⟨⟨toI32 ver, ins, outs, some ws, lock⟩, ⟨hr.1, hr.2, hl, hni, hno, hwi, hwo, hlen, hww, hne⟩, ?_, ?_⟩
      · simp only [encTx, ofI32_toI32 hver', List.append_assoc]
        rw [← e4, e1, e2, e3]; rfl
      · simp only [encTx, ofI32_toI32 hver', List.length_append, toLE_length, List.length_cons, List.length_nil]
        simp only [D_lift_res] at *
        have : (encTxIns ([] : List TxInS)).length = 1 := by decide
        omega
    · cases h
  · rename_i hz
    obtain ⟨outs, lock, hno, hwo, hl, e4, b4⟩ := txLegTail_eq_ok h
    have hne : l ≠ [] := by
      intro h0; apply hz; rw [h0]; rfl
    refine ⟨⟨toI32 ver, l, outs, none, lock⟩, ⟨hr.1, hr.2, hl, hnl, hno, hwl, hwo, hne⟩, ?_, ?_⟩
    · simp only [encTx, encStripped, ofI32_toI32 hver', List.append_assoc]
      rw [← e4, ← e2]; exact e1
    · simp only [encTx, encStripped, ofI32_toI32 hver', List.length_append, toLE_length]
      simp only [D_lift_res] at *
      omega

theorem decTransaction_eq_ok' {s : Slice} {o : TxV} {rem : Slice} (h : (decTransaction s).res = .ok (o, rem)) :
    ∃ t : TxS, t.WF ∧ s.bytes = encTx t ++ rem.bytes ∧ rem.base = s.base + (encTx t).length ∧
      o = viewTx s.base t := by
  obtain ⟨x, hw, e, hb⟩ := decTransaction_eq_ok h
  refine ⟨x, hw, e, hb, ?_⟩
  obtain ⟨b, bs⟩ := s
  simp only at e hb ⊢
  subst e
  rw [decTransaction_enc b x _ hw] at h
  exact (Prod.mk.inj (Res.ok.inj h)).1.symm


/-! ### prefix-freeness -/

theorem toLE_append_inj {w a a' : Nat} {r r' : Bytes} (ha : a < 256 ^ w) (ha' : a' < 256 ^ w)
    (h : toLE w a ++ r = toLE w a' ++ r') : a = a' ∧ r = r' := by
  obtain ⟨h1, h2⟩ := List.append_inj h (by simp)
  exact ⟨toLE_inj ha ha' h1, h2⟩

theorem ofI32_inj {i j : Int} (hi1 : -(2 : Int) ^ 31 ≤ i) (hi2 : i < 2 ^ 31) (hj1 : -(2 : Int) ^ 31 ≤ j)
    (hj2 : j < 2 ^ 31) (h : ofI32 i = ofI32 j) : i = j := by
  rw [← toI32_ofI32 hi1 hi2, ← toI32_ofI32 hj1 hj2, h]

/-- a non-empty input list does not start with the segwit marker -/
theorem encTxIns_ne_marker {l : List TxInS} (hl : l ≠ []) (r : Bytes) (y : Bytes) : encTxIns l ++ r ≠ 0 :: y := by
  have h0 : l.length ≠ 0 := fun h => hl (List.length_eq_zero_iff.1 h)
  obtain ⟨x, t, hx, hne⟩ := encCompact_head_ne_zero h0
  unfold encTxIns
  rw [hx]
  intro h
  simp only [List.cons_append] at h
  exact hne (List.cons.inj h).1

theorem encTx_unique {t t' : TxS} {r r' : Bytes} (ht : t.WF) (ht' : t'.WF) (h : encTx t ++ r = encTx t' ++ r') :
    t = t' ∧ r = r' := by
  have hv := ofI32_lt' ht
  have hv' := ofI32_lt' ht'
  obtain ⟨ver, ins, outs, wit, lock⟩ := t
  obtain ⟨ver', ins', outs', wit', lock'⟩ := t'
  obtain ⟨v1, v2, hl, hni, hno, hwi, hwo, hwit⟩ := ht
  obtain ⟨v1', v2', hl', hni', hno', hwi', hwo', hwit'⟩ := ht'
  simp only at hv hv' v1 v2 v1' v2' hl hl' hni hni' hno hno' hwi hwi' hwo hwo' hwit hwit'
  cases wit with
  | none =>
    cases wit' with
    | none =>
      simp only [encTx, encStripped, List.append_assoc] at h
      obtain ⟨e1, h1⟩ := toLE_append_inj hv hv' h
      obtain ⟨e2, h2⟩ := encTxIns_unique hni hwi hni' hwi' h1
      obtain ⟨e3, h3⟩ := encTxOuts_unique hno hwo hno' hwo' h2
      obtain ⟨e4, h4⟩ := toLE_append_inj (w := 4) (by omega) (by omega) h3
      have e1' := ofI32_inj v1 v2 v1' v2' e1
      subst e1' e2 e3 e4
      exact ⟨rfl, h4⟩
    | some ws' =>
      simp only [encTx, encStripped, List.append_assoc, List.cons_append, List.nil_append] at h
      obtain ⟨e1, h⟩ := toLE_append_inj hv hv' h
      exact (encTxIns_ne_marker hwit _ _ h).elim
  | some ws =>
    cases wit' with
    | none =>
      simp only [encTx, encStripped, List.append_assoc, List.cons_append, List.nil_append] at h
      obtain ⟨e1, h⟩ := toLE_append_inj hv hv' h
      exact (encTxIns_ne_marker hwit' _ _ h.symm).elim
    | some ws' =>
      simp only [encTx, List.append_assoc, List.cons_append, List.nil_append] at h
      obtain ⟨e1, h1⟩ := toLE_append_inj hv hv' h
      have h1' := List.tail_eq_of_cons_eq (List.tail_eq_of_cons_eq h1)
      obtain ⟨e2, h2⟩ := encTxIns_unique hni hwi hni' hwi' h1'
      obtain ⟨e3, h3⟩ := encTxOuts_unique hno hwo hno' hwo' h2
      subst e2 e3
      obtain ⟨e5, h5⟩ := encWitnesses_unique (by rw [hwit.1, hwit'.1]) hwit.2.1 hwit'.2.1 h3
      obtain ⟨e4, h4⟩ := toLE_append_inj (w := 4) (by omega) (by omega) h5
      have e1' := ofI32_inj v1 v2 v1' v2' e1
      subst e1' e4 e5
      exact ⟨rfl, h4⟩

end BS.Enc
