import BS.Lemmas.CacheStep
/-
  Helper lemmas for the ring-buffer cache, part 4:
  the ghost log of live entries computed from public results only (`logStep`), histories (`runOps`),
  the public invariant `Inv`, and the behaviour of `insert` / `get` on states satisfying it.
-/
set_option linter.unusedSectionVars false
namespace BS
namespace CacheProof
open Cache

variable {κ : Type} [DecidableEq κ]

/-! ### the ghost log -/

/-- the value recorded under `k` in a log -/
def logGet (k : κ) : List (κ × Bytes) → Option Bytes
  | [] => none
  | (k', v) :: rest => if k' = k then some v else logGet k rest

/-- update of the ghost log of live entries (oldest first) from the public result of `insert c k v`:
    on `ok e` drop the `e` oldest and append the new one; on an error nothing changes -/
def logStep (L : List (κ × Bytes)) (k : κ) (v : Bytes) : CRes → List (κ × Bytes)
  | .ok e => L.drop e ++ [(k, v)]
  | _ => L

/-- the state of a history: cache, ghost live log, results so far, successful insertions so far -/
structure Run (κ : Type) where
  c : Cache κ
  log : List (κ × Bytes)
  results : List CRes
  succ : List (κ × Bytes)

/-- one `insert`; the log and the list of successes are computed from the returned result only -/
def Run.step (s : Run κ) (op : κ × Bytes) : Run κ :=
  ⟨(insert s.c op.1 op.2).1, logStep s.log op.1 op.2 (insert s.c op.1 op.2).2,
   s.results ++ [(insert s.c op.1 op.2).2],
   match (insert s.c op.1 op.2).2 with
   | .ok _ => s.succ ++ [op]
   | _ => s.succ⟩

/-- run a history of insertions from an empty cache of capacity `cap` -/
def runOps (cap : Nat) (ops : List (κ × Bytes)) : Run κ :=
  ops.foldl Run.step ⟨Cache.new cap, [], [], []⟩

/-- the `(key, value)` pairs of the insertions that returned `ok _`, in order -/
def successes (cap : Nat) (ops : List (κ × Bytes)) : List (κ × Bytes) := (runOps cap ops).succ

theorem runOps_nil (cap : Nat) : runOps cap ([] : List (κ × Bytes)) = ⟨Cache.new cap, [], [], []⟩ := rfl

theorem runOps_snoc (cap : Nat) (ops : List (κ × Bytes)) (op : κ × Bytes) :
    runOps cap (ops ++ [op]) = (runOps cap ops).step op := by
  simp [runOps, List.foldl_append]

theorem snoc_induction {α : Type} {P : List α → Prop} (nil : P []) (snoc : ∀ l a, P l → P (l ++ [a])) :
    ∀ l, P l := by
  intro l
  have : ∀ r : List α, P r.reverse := by
    intro r
    induction r with
    | nil => exact nil
    | cons a r ih => rw [List.reverse_cons]; exact snoc _ _ ih
  simpa using this l.reverse

theorem logGet_none (k : κ) : ∀ (L : List (κ × Bytes)), k ∉ L.map Prod.fst → logGet k L = none
  | [], _ => rfl
  | (k', v') :: L, h => by
    have h1 : k' ≠ k := fun e => h (by simp [e])
    have h2 : k ∉ L.map Prod.fst := fun m => h (by simp only [List.map_cons, List.mem_cons]; exact Or.inr m)
    simp only [logGet, h1, if_false]
    exact logGet_none k L h2

theorem logGet_of_mem_nodup (k : κ) (v : Bytes) :
    ∀ (L : List (κ × Bytes)), (L.map Prod.fst).Nodup → (k, v) ∈ L → logGet k L = some v
  | [], _, h => by cases h
  | (k', v') :: L, hn, h => by
    simp only [List.map_cons, List.nodup_cons] at hn
    simp only [logGet]
    rcases List.mem_cons.1 h with e | m
    · cases e; simp
    · have : k' ≠ k := by
        intro e; subst e
        exact hn.1 (List.mem_map.2 ⟨(k', v), m, rfl⟩)
      simp only [this, if_false]
      exact logGet_of_mem_nodup k v L hn.2 m

theorem logGet_mem (k : κ) (v : Bytes) : ∀ (L : List (κ × Bytes)), logGet k L = some v → (k, v) ∈ L
  | [], h => by simp [logGet] at h
  | (k', v') :: L, h => by
    simp only [logGet] at h
    split at h
    · rename_i e; cases e; cases h; exact List.mem_cons_self
    · exact List.mem_cons_of_mem _ (logGet_mem k v L h)

theorem logGet_isSome_iff (k : κ) : ∀ (L : List (κ × Bytes)), (logGet k L).isSome ↔ k ∈ L.map Prod.fst
  | [] => by simp [logGet]
  | (k', v') :: L => by
    simp only [logGet, List.map_cons, List.mem_cons]
    by_cases e : k' = k
    · simp [e]
    · simp only [e, if_false, logGet_isSome_iff k L]
      constructor
      · exact Or.inr
      · rintro (h | h)
        · exact absurd h.symm e
        · exact h

/-! ### the public invariant -/

/-- the concrete state `c` represents the ghost log `L` of live `(key, value)` pairs, oldest first:
    there are ranges for the entries such that `InvG` holds -/
def Inv (c : Cache κ) (L : List (κ × Bytes)) : Prop := ∃ G : List (Ent κ), L = G.map Ent.kv ∧ InvG c G

theorem inv_new (cap : Nat) : Inv (Cache.new cap : Cache κ) [] := ⟨[], rfl, invG_new cap⟩

/-! ### `insert` on a state satisfying the invariant -/

theorem insert_present {c : Cache κ} {G : List (Ent κ)} (h : InvG c G) {k : κ} (v : Bytes)
    (hk : k ∈ G.map Ent.key) : insert c k v = (c, .valueAlreadyPresent) := by
  unfold Cache.insert
  rw [if_pos ((h.lookup_isSome k).2 hk)]

theorem insert_tooLong {c : Cache κ} {G : List (Ent κ)} (h : InvG c G) {k : κ} {v : Bytes}
    (hk : k ∉ G.map Ent.key) (hv : v.length > c.cap) : insert c k v = (c, .valueLargerThanBuffer) := by
  unfold Cache.insert
  rw [if_neg (by rw [h.lookup_isSome k]; exact hk), if_pos hv]

theorem insert_accept {c : Cache κ} {G : List (Ent κ)} (h : InvG c G) {k : κ} {v : Bytes}
    (hk : k ∉ G.map Ent.key) (hv : v.length ≤ c.cap) :
    (insert c k v = (c, .panic .overflow) ∧ (USIZE ≤ 2 * c.cap ∨ USIZE ≤ G.length)) ∨
    insert c k v = ((insertSpec c G k v).1, .ok (insertSpec c G k v).2) := by
  unfold Cache.insert
  rw [if_neg (by rw [h.lookup_isSome k]; exact hk), if_neg (by omega)]
  rcases insertCore_cases h k v hv with ⟨h1, h2⟩ | h1
  · left; rw [h1]; exact ⟨rfl, h2⟩
  · right; rw [h1]

/-- the four possible outcomes of `insert` on a state satisfying the invariant -/
theorem insert_cases {c : Cache κ} {G : List (Ent κ)} (h : InvG c G) (k : κ) (v : Bytes) :
    (k ∈ G.map Ent.key ∧ insert c k v = (c, .valueAlreadyPresent)) ∨
    (k ∉ G.map Ent.key ∧ v.length > c.cap ∧ insert c k v = (c, .valueLargerThanBuffer)) ∨
    (k ∉ G.map Ent.key ∧ v.length ≤ c.cap ∧ insert c k v = (c, .panic .overflow) ∧
      (USIZE ≤ 2 * c.cap ∨ USIZE ≤ G.length)) ∨
    (k ∉ G.map Ent.key ∧ v.length ≤ c.cap ∧
      insert c k v = ((insertSpec c G k v).1, .ok (insertSpec c G k v).2)) := by
  by_cases hk : k ∈ G.map Ent.key
  · exact Or.inl ⟨hk, insert_present h v hk⟩
  · by_cases hv : v.length > c.cap
    · exact Or.inr (Or.inl ⟨hk, hv, insert_tooLong h hk hv⟩)
    · rcases insert_accept h hk (Nat.le_of_not_gt hv) with h1 | h1
      · exact Or.inr (Or.inr (Or.inl ⟨hk, Nat.le_of_not_gt hv, h1⟩))
      · exact Or.inr (Or.inr (Or.inr ⟨hk, Nat.le_of_not_gt hv, h1⟩))

/-- an `ok` result determines everything -/
theorem insert_ok {c : Cache κ} {G : List (Ent κ)} (h : InvG c G) {k : κ} {v : Bytes} {c' : Cache κ} {e : Nat}
    (hi : insert c k v = (c', .ok e)) :
    k ∉ G.map Ent.key ∧ v.length ≤ c.cap ∧ c' = (insertSpec c G k v).1 ∧ e = (insertSpec c G k v).2 := by
  rcases insert_cases h k v with ⟨_, h1⟩ | ⟨_, _, h1⟩ | ⟨_, _, h1, _⟩ | ⟨h0, h2, h1⟩
  · rw [h1] at hi; cases hi
  · rw [h1] at hi; cases hi
  · rw [h1] at hi; cases hi
  · rw [h1] at hi
    obtain ⟨e1, e2⟩ := Prod.mk.inj hi
    cases e2
    exact ⟨h0, h2, e1.symm, rfl⟩

/-- a result that is not `ok` leaves the state literally unchanged -/
theorem insert_not_ok {c : Cache κ} {G : List (Ent κ)} (h : InvG c G) (k : κ) (v : Bytes)
    (hi : ∀ e, (insert c k v).2 ≠ .ok e) : (insert c k v).1 = c := by
  rcases insert_cases h k v with ⟨_, h1⟩ | ⟨_, _, h1⟩ | ⟨_, _, h1, _⟩ | ⟨h0, h2, h1⟩
  · rw [h1]
  · rw [h1]
  · rw [h1]
  · exact absurd (by rw [h1]) (hi _)

theorem logStep_not_ok (L : List (κ × Bytes)) (k : κ) (v : Bytes) (r : CRes) (hr : ∀ e, r ≠ .ok e) :
    logStep L k v r = L := by
  cases r with
  | ok e => exact absurd rfl (hr e)
  | _ => rfl

/-- the invariant is preserved by every `insert`, with the ghost log updated from the public result -/
theorem inv_step {c : Cache κ} {L : List (κ × Bytes)} (h : Inv c L) (k : κ) (v : Bytes) :
    Inv (insert c k v).1 (logStep L k v (insert c k v).2) := by
  obtain ⟨G, hL, hG⟩ := h
  rcases insert_cases hG k v with ⟨_, h1⟩ | ⟨_, _, h1⟩ | ⟨_, _, h1, _⟩ | ⟨h0, h2, h1⟩
  · rw [h1]; exact ⟨G, hL, hG⟩
  · rw [h1]; exact ⟨G, hL, hG⟩
  · rw [h1]; exact ⟨G, hL, hG⟩
  · rw [h1]
    refine ⟨_, ?_, invG_insertSpec hG k v h2 h0⟩
    simp only [logStep, hL, List.map_append, List.map_drop, List.map_cons, List.map_nil, Ent.kv,
      insertEnt_key, insertEnt_val]

/-! ### `get` -/

theorem get_eq {c : Cache κ} {G : List (Ent κ)} (h : InvG c G) (k : κ) :
    get c k = .ok (logGet k (G.map Ent.kv)) := by
  unfold Cache.get
  by_cases hk : k ∈ G.map Ent.key
  · obtain ⟨g, hg, rfl⟩ := List.mem_map.1 hk
    obtain ⟨h1, h2, h3⟩ := h.ent g hg
    have h2' : g.rng.end_ ≤ c.buffer.length := h2
    rw [h.lookup_of_mem hg]
    simp only []
    rw [if_pos ⟨by omega, h2'⟩]
    have : g.rng.end_ - g.rng.begin_ = g.val.length := by omega
    rw [this, h3, logGet_of_mem_nodup g.key g.val _ (by rw [map_kv_fst]; exact h.nodup)
      (List.mem_map.2 ⟨g, hg, rfl⟩)]
  · rw [h.lookup_none hk, logGet_none k _ (by rw [map_kv_fst]; exact hk)]

theorem insert_not_ok_state {c : Cache κ} {L : List (κ × Bytes)} (h : Inv c L) (k : κ) (v : Bytes)
    (hi : ∀ e, (Cache.insert c k v).2 ≠ .ok e) : (Cache.insert c k v).1 = c := by
  obtain ⟨G, _, hG⟩ := h
  exact insert_not_ok hG k v hi

/-! ### consequences of the invariant -/

theorem Inv.nodup {c : Cache κ} {L : List (κ × Bytes)} (h : Inv c L) : (L.map Prod.fst).Nodup := by
  obtain ⟨G, rfl, hG⟩ := h
  rw [map_kv_fst]; exact hG.nodup

theorem Inv.get {c : Cache κ} {L : List (κ × Bytes)} (h : Inv c L) (k : κ) :
    Cache.get c k = .ok (logGet k L) := by
  obtain ⟨G, rfl, hG⟩ := h
  exact get_eq hG k

theorem Inv.len {c : Cache κ} {L : List (κ × Bytes)} (h : Inv c L) : c.len = L.length := by
  obtain ⟨G, rfl, hG⟩ := h
  simp [Cache.len, hG.idx]

theorem Inv.lookup_isSome {c : Cache κ} {L : List (κ × Bytes)} (h : Inv c L) (k : κ) :
    (lookup k c.indexes).isSome ↔ k ∈ L.map Prod.fst := by
  obtain ⟨G, rfl, hG⟩ := h
  rw [map_kv_fst]; exact hG.lookup_isSome k

theorem Inv.insert_cap {c : Cache κ} {L : List (κ × Bytes)} (h : Inv c L) (k : κ) (v : Bytes) :
    (Cache.insert c k v).1.cap = c.cap := by
  obtain ⟨G, rfl, hG⟩ := h
  rcases insert_cases hG k v with ⟨_, h1⟩ | ⟨_, _, h1⟩ | ⟨_, _, h1, _⟩ | ⟨h0, h2, h1⟩
  · rw [h1]
  · rw [h1]
  · rw [h1]
  · rw [h1]; exact insertSpec_cap hG k v h2

/-- an `ok e` result: `e ≤ |log|`, the key was absent and the value fits -/
theorem Inv.insert_ok {c : Cache κ} {L : List (κ × Bytes)} (h : Inv c L) {k : κ} {v : Bytes}
    {c' : Cache κ} {e : Nat} (hi : Cache.insert c k v = (c', .ok e)) :
    e ≤ L.length ∧ k ∉ L.map Prod.fst ∧ v.length ≤ c.cap ∧ Inv c' (L.drop e ++ [(k, v)]) := by
  have hs := inv_step h k v
  rw [hi] at hs
  obtain ⟨G, rfl, hG⟩ := h
  obtain ⟨h1, h2, _, h4⟩ := CacheProof.insert_ok hG hi
  refine ⟨?_, by rw [map_kv_fst]; exact h1, h2, hs⟩
  rw [h4, List.length_map]; exact insertSpec_le c G k v

/-- the full flag after an accepted insert -/
theorem Inv.insert_full {c : Cache κ} {L : List (κ × Bytes)} (h : Inv c L) {k : κ} {v : Bytes}
    {c' : Cache κ} {e : Nat} (hi : Cache.insert c k v = (c', .ok e)) :
    (c'.full = true ↔ (c.full = true ∨ 0 < e)) ∧
    (¬ v.length + c.fp > c.cap → c'.fp = c.fp + v.length ∧ c'.full = c.full) ∧
    (v.length + c.fp > c.cap → c'.fp = v.length ∧ c'.full = true ∧ 0 < e) := by
  obtain ⟨G, rfl, hG⟩ := h
  obtain ⟨h1, h2, h3, h4⟩ := CacheProof.insert_ok hG hi
  subst h3 h4
  by_cases hw : v.length + c.fp > c.cap
  · obtain ⟨f1, f2, f3⟩ := insertSpec_wrap hG k v h2 hw
    refine ⟨⟨fun _ => Or.inr f3, fun _ => f1⟩, fun hn => absurd hw hn, fun _ => ⟨f2, f1, f3⟩⟩
  · obtain ⟨f1, f2, f3⟩ := insertSpec_nowrap hG k v hw
    refine ⟨⟨fun hf => Or.inl (f1 ▸ hf), ?_⟩, fun _ => ⟨f2, f1⟩, fun hn => absurd hn hw⟩
    rintro (hf | he)
    · rw [f1]; exact hf
    · cases hc : c.full with
      | true => rw [f1]; exact hc
      | false => have := f3 hc; omega

theorem pairwise_mem {α : Type} {R : α → α → Prop} : ∀ {l : List α}, l.Pairwise R →
    ∀ {a b : α}, a ∈ l → b ∈ l → a = b ∨ R a b ∨ R b a
  | [], _, _, _, ha, _ => by cases ha
  | x :: l, h, a, b, ha, hb => by
    rw [List.pairwise_cons] at h
    rcases List.mem_cons.1 ha with ea | ma <;> rcases List.mem_cons.1 hb with eb | mb
    · exact Or.inl (ea.trans eb.symm)
    · subst ea; exact Or.inr (Or.inl (h.1 _ mb))
    · subst eb; exact Or.inr (Or.inr (h.1 _ ma))
    · exact pairwise_mem h.2 ma mb

/-- two live entries with different keys that occupy storage do not overlap -/
theorem invG_disjoint {c : Cache κ} {G : List (Ent κ)} (h : InvG c G) {g1 g2 : Ent κ} (h1 : g1 ∈ G)
    (h2 : g2 ∈ G) (hk : g1.key ≠ g2.key) (n1 : g1.rng.begin_ ≠ g1.rng.end_) (n2 : g2.rng.begin_ ≠ g2.rng.end_) :
    g1.rng.overlaps g2.rng = false := by
  obtain ⟨old, new, os, oe, hG, hnew, hos, hold, hoe, _⟩ := h.lay
  have key : g1.rng.end_ ≤ g2.rng.begin_ ∨ g2.rng.end_ ≤ g1.rng.begin_ := by
    have pw : ∀ {l : List (Ent κ)} {s e : Nat}, Chain s (l.map Ent.rng) e → g1 ∈ l → g2 ∈ l →
        g1.rng.end_ ≤ g2.rng.begin_ ∨ g2.rng.end_ ≤ g1.rng.begin_ := by
      intro l s e hc m1 m2
      have hp := List.pairwise_map.1 (chain_pairwise hc)
      rcases pairwise_mem hp m1 m2 with e | r | r
      · exact absurd (by rw [e]) hk
      · exact Or.inl (r n1 n2)
      · exact Or.inr (r n2 n1)
    rw [hG] at h1 h2
    rcases List.mem_append.1 h1 with m1 | m1 <;> rcases List.mem_append.1 h2 with m2 | m2
    · exact pw hold m1 m2
    · have a := chain_mem hold g1.rng (List.mem_map_of_mem m1) n1
      have b := chain_mem hnew g2.rng (List.mem_map_of_mem m2) n2
      right; omega
    · have a := chain_mem hnew g1.rng (List.mem_map_of_mem m1) n1
      have b := chain_mem hold g2.rng (List.mem_map_of_mem m2) n2
      left; omega
    · exact pw hnew m1 m2
  simp only [Range.overlaps, Bool.and_eq_false_imp, decide_eq_true_eq, decide_eq_false_iff_not]
  omega

/-! ### histories -/

theorem run_inv (cap : Nat) : ∀ ops : List (κ × Bytes), Inv (runOps cap ops).c (runOps cap ops).log := by
  apply snoc_induction
  · exact inv_new cap
  · intro ops op ih
    rw [runOps_snoc]
    exact inv_step ih op.1 op.2

theorem run_cap (cap : Nat) : ∀ ops : List (κ × Bytes), (runOps cap ops).c.cap = cap := by
  apply snoc_induction
  · simp [runOps_nil, Cache.cap, Cache.new]
  · intro ops op ih
    rw [runOps_snoc]
    show (Cache.insert (runOps cap ops).c op.1 op.2).1.cap = cap
    rw [(run_inv cap ops).insert_cap, ih]

theorem run_results_length (cap : Nat) : ∀ ops : List (κ × Bytes), (runOps cap ops).results.length = ops.length := by
  apply snoc_induction
  · rfl
  · intro ops op ih
    rw [runOps_snoc]
    simp [Run.step, ih]

/-- the ghost live log is a suffix of the successful insertions -/
theorem run_suffix (cap : Nat) : ∀ ops : List (κ × Bytes),
    ∃ n, n ≤ (runOps cap ops).succ.length ∧ (runOps cap ops).log = (runOps cap ops).succ.drop n := by
  apply snoc_induction
  · exact ⟨0, Nat.le_refl _, rfl⟩
  · intro ops op ih
    obtain ⟨n, hn, hl⟩ := ih
    rw [runOps_snoc]
    simp only [Run.step]
    cases hr : (Cache.insert (runOps cap ops).c op.1 op.2).2 with
    | ok e =>
      have hi : Cache.insert (runOps cap ops).c op.1 op.2 = ((Cache.insert (runOps cap ops).c op.1 op.2).1, .ok e) := by
        rw [← hr]
      have he := ((run_inv cap ops).insert_ok hi).1
      refine ⟨n + e, ?_, ?_⟩
      · rw [hl, List.length_drop] at he
        simp only [List.length_append, List.length_cons, List.length_nil]; omega
      · rw [hl, List.length_drop] at he
        simp only [logStep]
        rw [hl, List.drop_drop, List.drop_append_of_le_length (by omega)]
    | valueLargerThanBuffer => exact ⟨n, hn, hl⟩
    | valueAlreadyPresent => exact ⟨n, hn, hl⟩
    | panic p => exact ⟨n, hn, hl⟩

theorem run_log_length_le (cap : Nat) : ∀ ops : List (κ × Bytes), (runOps cap ops).log.length ≤ ops.length := by
  apply snoc_induction
  · exact Nat.le_refl _
  · intro ops op ih
    rw [runOps_snoc]
    simp only [Run.step, List.length_append, List.length_cons, List.length_nil]
    cases hr : (Cache.insert (runOps cap ops).c op.1 op.2).2 with
    | ok e => simp only [logStep, List.length_append, List.length_drop, List.length_cons, List.length_nil]; omega
    | valueLargerThanBuffer => simp only [logStep]; omega
    | valueAlreadyPresent => simp only [logStep]; omega
    | panic p => simp only [logStep]; omega

/-- the full flag is set exactly when some earlier insertion evicted something -/
theorem run_full (cap : Nat) : ∀ ops : List (κ × Bytes),
    (runOps cap ops).c.full = true ↔ ∃ e, 0 < e ∧ CRes.ok e ∈ (runOps cap ops).results := by
  apply snoc_induction
  · simp [runOps_nil, Cache.new]
  · intro ops op ih
    rw [runOps_snoc]
    simp only [Run.step, List.mem_append, List.mem_singleton]
    cases hr : (Cache.insert (runOps cap ops).c op.1 op.2).2 with
    | ok e =>
      have hi : Cache.insert (runOps cap ops).c op.1 op.2 = ((Cache.insert (runOps cap ops).c op.1 op.2).1, .ok e) := by
        rw [← hr]
      rw [((run_inv cap ops).insert_full hi).1, ih]
      constructor
      · rintro (⟨e', h1, h2⟩ | h)
        · exact ⟨e', h1, Or.inl h2⟩
        · exact ⟨e, h, Or.inr rfl⟩
      · rintro ⟨e', h1, h2 | h2⟩
        · exact Or.inl ⟨e', h1, h2⟩
        · cases h2; exact Or.inr h1
    | valueLargerThanBuffer =>
      rw [insert_not_ok_state (run_inv cap ops) _ _ (by rw [hr]; intro e h; cases h), ih]
      constructor
      · rintro ⟨e', h1, h2⟩; exact ⟨e', h1, Or.inl h2⟩
      · rintro ⟨e', h1, h2 | h2⟩
        · exact ⟨e', h1, h2⟩
        · cases h2
    | valueAlreadyPresent =>
      rw [insert_not_ok_state (run_inv cap ops) _ _ (by rw [hr]; intro e h; cases h), ih]
      constructor
      · rintro ⟨e', h1, h2⟩; exact ⟨e', h1, Or.inl h2⟩
      · rintro ⟨e', h1, h2 | h2⟩
        · exact ⟨e', h1, h2⟩
        · cases h2
    | panic p =>
      rw [insert_not_ok_state (run_inv cap ops) _ _ (by rw [hr]; intro e h; cases h), ih]
      constructor
      · rintro ⟨e', h1, h2⟩; exact ⟨e', h1, Or.inl h2⟩
      · rintro ⟨e', h1, h2 | h2⟩
        · exact ⟨e', h1, h2⟩
        · cases h2

/-- `successes` depends on the public results only: the operations whose result was `ok _` -/
def okOp (p : (κ × Bytes) × CRes) : Option (κ × Bytes) :=
  match p.2 with
  | .ok _ => some p.1
  | _ => none

theorem successes_eq_filterMap (cap : Nat) : ∀ ops : List (κ × Bytes),
    successes cap ops = (ops.zip (runOps cap ops).results).filterMap okOp := by
  unfold successes
  apply snoc_induction
  · rfl
  · intro ops op ih
    have hl := run_results_length cap ops
    rw [runOps_snoc]
    simp only [Run.step]
    rw [List.zip_append hl.symm, List.filterMap_append, ← ih]
    cases hr : (Cache.insert (runOps cap ops).c op.1 op.2).2 <;> simp [okOp]

/-- the ghost log depends on the public results only: fold `logStep` over the operations and their results -/
theorem log_eq_foldl (cap : Nat) : ∀ ops : List (κ × Bytes),
    (runOps cap ops).log = (ops.zip (runOps cap ops).results).foldl (fun L p => logStep L p.1.1 p.1.2 p.2) [] := by
  apply snoc_induction
  · rfl
  · intro ops op ih
    have hl := run_results_length cap ops
    rw [runOps_snoc]
    simp only [Run.step]
    rw [List.zip_append hl.symm, List.foldl_append, ← ih]
    rfl

end CacheProof
end BS
